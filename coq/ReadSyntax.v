(* ReadSyntax.v — the syntax-error theorem of ParseSyntax.v carried to Reader.config_read: the message and the line
   of a failed read identify the first token that cannot continue a derivation, and within the nesting limit a read
   has exactly three outcomes (lemmas behind Properties_C02). *)
From Coq Require Import List ZArith NArith Bool Lia.
Import ListNotations.
From LC Require Import Base BaseFacts Tree Fp Lookup Api ApiStep Regex RegexFacts FlexEngine Bisim ScanAction ScannerSpec ScannerCert
  ScannerFacts Tokens Lexer Parser Reader TreeFacts ApiFacts GrammarFacts ParseWrite ParseComplete ParseFail ParseExact
  ParseTotal LexTotal ReadTotal ParseSyntax.
From LC.gen Require Import Consts ScannerTables.

(* ------------------------------------------------------------------------------------ *)
(* a property of parser states that peeking, shifting a token that is not a stopping token, and the tree actions
   keep, holds of the state of every answer *)
Lemma act_name_root ov s parent nm s' sp : act_name ov s parent nm = Some (s', sp) -> exists r, s' = set_proot s r.
Proof.
  unfold act_name. destruct (get_at parent (p_root s)); [|discriminate].
  destruct (n_add ov s0 (Some nm) 0) as [[[a b] c]|]; [|discriminate]. intros H. injection H as <- _. eexists. reflexivity.
Qed.

Lemma act_scalar_root s parent cur sc s' : act_scalar s parent cur sc = Some s' -> exists r, s' = set_proot s r.
Proof.
  unfold act_scalar. destruct sc as [[t st] fmt]. destruct (in_agg (p_root s) parent).
  - destruct (get_at parent (p_root s)); [|discriminate]. destruct (n_set_elem t st s0 (-1)); try discriminate.
    intros H. injection H as <-. eexists. reflexivity.
  - destruct cur; intros H; injection H as <-; [eexists; reflexivity|]. exists (p_root s). destruct s; reflexivity.
Qed.

Lemma act_open_root ov s parent cur k s' np : act_open ov s parent cur k = Some (s', np) -> exists r, s' = set_proot s r.
Proof.
  unfold act_open. destruct (ty_at (p_root s) parent).
  all: try (destruct cur; [|discriminate]; intros H; injection H as <- _; eexists; reflexivity).
  destruct (get_at parent (p_root s)); [|discriminate].
  destruct (n_add ov s0 None (aggk_code k)) as [[[a b] c]|]; [|discriminate]. intros H. injection H as <- _. eexists. reflexivity.
Qed.

Section Inv.
  Variable ov : bool.
  Variable I : pst -> Prop.
  Hypothesis I_peek : forall s o s1, peek s = (o, s1) -> I s -> I s1.
  Hypothesis I_shift : forall s t s1, peek s = (Some t, s1) -> is_stop t = false -> I s -> I (shift s1).
  Hypothesis I_root : forall s r, I s -> I (set_proot s r).

  Lemma bind_inv first k : I (st_of first) -> (forall s2, first = POk s2 -> I s2 -> I (st_of (k s2))) -> I (st_of (bind first k)).
  Proof. intros H1 H2. destruct first; cbn [bind st_of] in *; auto. Qed.

  Lemma string_inv : forall f s acc, I s -> I (snd (p_string f s acc)).
  Proof.
    induction f as [|f IH]; intros s acc H; cbn [p_string]; [exact H|].
    destruct (peek s) as [o s1] eqn:P. pose proof (I_peek _ _ _ P H) as H1.
    destruct o as [t|]; [|exact H1]. destruct t; try exact H1. apply IH. apply (I_shift _ _ _ P eq_refl H).
  Qed.

  Lemma expect_inv s p : I s -> I (st_of (expect s p)).
  Proof.
    intros H. unfold expect. destruct (peek s) as [o s1] eqn:P. pose proof (I_peek _ _ _ P H) as H1.
    destruct o as [t|]; [|exact H1]. destruct t; try exact H1.
    destruct (match p, t with
              | TEquals, TEquals | TArrayEnd, TArrayEnd | TListEnd, TListEnd | TGroupEnd, TGroupEnd => true
              | _, _ => false end); [|exact H1].
    apply (I_shift _ _ _ P eq_refl H).
  Qed.

  Lemma skip_term_inv s : I s -> I (skip_term s).
  Proof.
    intros H. unfold skip_term. destruct (peek s) as [o s1] eqn:P. pose proof (I_peek _ _ _ P H) as H1.
    destruct o as [t|]; [|exact H1]. destruct t as [ | | | | | | | |pt| | ]; try exact H1.
    destruct pt; try exact H1; apply (I_shift _ _ _ P eq_refl H).
  Qed.

  Theorem parser_inv : forall f,
    (forall s parent cur simple, I s -> I (st_of (p_value ov f s parent cur simple))) /\
    (forall s parent cur k, I s -> I (st_of (p_agg ov f s parent cur k))) /\
    (forall s parent simple first, I s -> I (st_of (p_elems ov f s parent simple first))) /\
    (forall s parent, I s -> I (st_of (p_settings ov f s parent))).
  Proof.
    induction f as [|f (IHv & IHa & IHe & IHs)]; [repeat split; intros; assumption|].
    assert (Hv : forall s parent cur simple, I s -> I (st_of (p_value ov (S f) s parent cur simple))).
    { intros s parent cur simple H. rewrite p_value_S.
      destruct (peek s) as [o s1] eqn:P. pose proof (I_peek _ _ _ P H) as H1.
      destruct o as [t|]; [|exact H1].
      assert (Hsc : forall sc, is_stop t = false ->
                I (st_of (match act_scalar (shift s1) parent cur sc with Some s3 => POk s3 | None => PErr PErrMismatch (shift s1) end))).
      { intros sc Hns. pose proof (I_shift _ _ _ P Hns H) as H2.
        destruct (act_scalar (shift s1) parent cur sc) as [s3|] eqn:A; [|exact H2].
        destruct (act_scalar_root _ _ _ _ _ A) as (r & ->). apply I_root. exact H2. }
      assert (Hag : forall k, is_stop t = false -> I (st_of (p_agg ov f (shift s1) parent cur k))).
      { intros k Hns. apply IHa. apply (I_shift _ _ _ P Hns H). }
      destruct t as [bv|iv|lv|hv|hlv|fb|str|nm|pt| | ]; try exact H1; try (apply Hsc; reflexivity).
      - pose proof (string_inv f s1 [] H1) as H2. destruct (p_string f s1 []) as [[v|] s2]; cbn [snd] in H2; [|exact H2].
        destruct (act_scalar s2 parent cur (string_scalar v)) as [s3|] eqn:A; [|exact H2].
        destruct (act_scalar_root _ _ _ _ _ A) as (r & ->). apply I_root. exact H2.
      - destruct pt; try exact H1; destruct simple; try exact H1; apply Hag; reflexivity. }
    assert (Ha : forall s parent cur k, I s -> I (st_of (p_agg ov (S f) s parent cur k))).
    { intros s parent cur k H. rewrite p_agg_B. destruct (act_open ov s parent cur k) as [[s1 np]|] eqn:A; [|exact H].
      destruct (act_open_root _ _ _ _ _ _ _ A) as (r & ->).
      apply bind_inv; [|intros s2 _ H2; apply expect_inv; exact H2].
      destruct k; cbn [abody]; [apply IHe | apply IHe | apply IHs]; apply I_root; exact H. }
    assert (He : forall s parent simple first, I s -> I (st_of (p_elems ov (S f) s parent simple first))).
    { intros s parent simple first H. rewrite p_elems_B.
      destruct (peek s) as [o s1] eqn:P. pose proof (I_peek _ _ _ P H) as H1.
      destruct o as [t|]; [|exact H1].
      assert (Hval : forall sa, I sa -> I (st_of (bind (p_value ov f sa parent None simple) (fun s2 => p_elems ov f s2 parent simple false)))).
      { intros sa Ha'. apply bind_inv; [apply IHv; exact Ha' | intros s2 _ H2; apply IHe; exact H2]. }
      destruct first.
      - destruct (is_value_start simple t); [apply Hval; exact H1 | exact H1].
      - destruct t as [bv|iv|lv|hv|hlv|fb|str|nm|pt| | ]; try exact H1. destruct pt; try exact H1.
        pose proof (I_shift _ _ _ P eq_refl H) as H2.
        destruct (peek (shift s1)) as [o2 s3] eqn:P2. pose proof (I_peek _ _ _ P2 H2) as H3.
        destruct o2 as [t2|]; [|exact H3].
        destruct (is_value_start simple t2); [apply Hval; exact H3 | apply IHe; exact H3]. }
    assert (Hs : forall s parent, I s -> I (st_of (p_settings ov (S f) s parent))).
    { intros s parent H. rewrite p_settings_B.
      destruct (peek s) as [o s1] eqn:P. pose proof (I_peek _ _ _ P H) as H1.
      destruct o as [t|]; [|exact H1].
      destruct t as [bv|iv|lv|hv|hlv|fb|str|nm|pt| | ]; try exact H1.
      pose proof (I_shift _ _ _ P eq_refl H) as H2.
      destruct (act_name ov (shift s1) parent nm) as [[s2 sp]|] eqn:A; [|exact H2].
      destruct (act_name_root _ _ _ _ _ _ A) as (r & ->).
      apply bind_inv; [apply expect_inv; apply I_root; exact H2|]. intros s3 _ H3.
      apply bind_inv; [apply IHv; exact H3|]. intros s4 _ H4. apply IHs. apply skip_term_inv. exact H4. }
    auto.
  Qed.

  Lemma config_inv s : I s -> I (st_of (p_config ov s)).
  Proof.
    intros H. rewrite p_config_B. apply bind_inv; [apply (proj2 (proj2 (proj2 (parser_inv _)))); exact H|].
    intros s1 _ H1. destruct (peek s1) as [o s2] eqn:P. pose proof (I_peek _ _ _ P H1) as H2.
    destruct o as [t|]; [destruct t|]; exact H2.
  Qed.
End Inv.

(* the tokens read so far are the tokens shifted, plus the look-ahead; no shifted token is a stopping token *)
Definition nonstop (x : ltoken) : Prop := is_stop (lt_tok x) = false.

Definition rinv (lts : list ltoken) (s : pst) : Prop :=
  exists c, lts = c ++ p_toks s /\ Forall nonstop c /\
            p_read s = (length c + (if p_la s then 1 else 0))%nat /\ (p_la s = true -> p_toks s <> []).

Lemma rinv_peek lts s o s1 : peek s = (o, s1) -> rinv lts s -> rinv lts s1.
Proof.
  unfold peek. intros P (c & E & Fc & Hr & Hl). destruct (p_toks s) as [|x r] eqn:Et; [injection P as _ <-; exists c; rewrite Et; auto|].
  destruct (p_la s) eqn:La; injection P as _ <-; [exists c; rewrite Et, La; auto|].
  exists c. cbn [p_toks p_read p_la]. split; [exact E|]. split; [exact Fc|]. split; [lia | discriminate].
Qed.

Lemma rinv_shift lts s t s1 : peek s = (Some t, s1) -> is_stop t = false -> rinv lts s -> rinv lts (shift s1).
Proof.
  intros P Hns H. pose proof (rinv_peek _ _ _ _ P H) as (c & E & Fc & Hr & Hl).
  pose proof (peek_la _ _ _ P) as La. destruct (peek_some_toks _ _ _ P) as (x & r & Et & Ex).
  rewrite <- (peek_toks _ _ _ P) in Et. rewrite La in Hr.
  exists (c ++ [x]). unfold shift. cbn [p_toks p_read p_la]. rewrite Et in *. cbn [tl].
  split; [rewrite <- app_assoc; exact E|]. split; [apply Forall_app; split; [exact Fc | constructor; [unfold nonstop; rewrite Ex; exact Hns | constructor]]|].
  split; [rewrite app_length; cbn [length]; lia | discriminate].
Qed.

Lemma rinv_root lts s r : rinv lts s -> rinv lts (set_proot s r).
Proof. intros H. exact H. Qed.

Lemma rinv_start root0 lts : rinv lts (mkP root0 lts false O 0%Z None).
Proof. exists []. cbn. split; [reflexivity|]. split; [constructor|]. split; [reflexivity | discriminate]. Qed.

(* the tokens a syntax error has read: those before the offending one, none of them a stopping token, and the
   offending one *)
Lemma syntax_error_read ov root0 lts s' pre t rest :
  p_config ov (mkP root0 lts false O 0%Z None) = PErr PErrSyntax s' ->
  lts = pre ++ t :: rest -> p_toks s' = t :: rest -> p_la s' = true ->
  firstn (p_read s') lts = pre ++ [t] /\ Forall nonstop pre.
Proof.
  intros H E E' La.
  pose proof (config_inv ov (rinv lts) (rinv_peek lts) (rinv_shift lts) (rinv_root lts) _ (rinv_start root0 lts)) as Hi.
  rewrite H in Hi. cbn [st_of] in Hi. destruct Hi as (c & Ec & Fc & Hr & _). rewrite E', E in Ec. apply app_inv_tail in Ec. subst c.
  rewrite La in Hr. split; [|exact Fc]. rewrite Hr, E.
  replace (pre ++ t :: rest) with ((pre ++ [t]) ++ rest) by (rewrite <- app_assoc; reflexivity).
  replace (length pre + 1)%nat with (length (pre ++ [t])) by (rewrite app_length; reflexivity).
  rewrite firstn_app, firstn_all, Nat.sub_diag. cbn [firstn]. apply app_nil_r.
Qed.

(* ------------------------------------------------------------------------------------ *)
(* the parser model never answers "memory exhausted" (the stack limit is the RdNest outcome of the reader) *)
Definition no_mem (r : pres) : Prop := match r with PErr PErrMem _ => False | _ => True end.

Section NoMem.
  Variable ov : bool.

  Lemma bind_no_mem first k : no_mem first -> (forall s2, no_mem (k s2)) -> no_mem (bind first k).
  Proof. intros H1 H2. destruct first; cbn [bind]; auto. Qed.

  Lemma expect_no_mem s p : no_mem (expect s p).
  Proof.
    unfold expect. destruct (peek s) as [[t|] s1]; [|exact I]. destruct t; try exact I.
    destruct (match p, t with
              | TEquals, TEquals | TArrayEnd, TArrayEnd | TListEnd, TListEnd | TGroupEnd, TGroupEnd => true
              | _, _ => false end); exact I.
  Qed.

  Theorem parser_no_mem : forall f,
    (forall s parent cur simple, no_mem (p_value ov f s parent cur simple)) /\
    (forall s parent cur k, no_mem (p_agg ov f s parent cur k)) /\
    (forall s parent simple first, no_mem (p_elems ov f s parent simple first)) /\
    (forall s parent, no_mem (p_settings ov f s parent)).
  Proof.
    induction f as [|f (IHv & IHa & IHe & IHs)]; [repeat split; intros; exact I|].
    assert (Hv : forall s parent cur simple, no_mem (p_value ov (S f) s parent cur simple)).
    { intros s parent cur simple. rewrite p_value_S. destruct (peek s) as [[t|] s1]; [|exact I].
      destruct t as [bv|iv|lv|hv|hlv|fb|str|nm|pt| | ]; try exact I;
        try (cbn [scalar_of]; cbv zeta; destruct (act_scalar (shift s1) parent cur _); exact I).
      - destruct (p_string f s1 []) as [[v|] s2]; [|exact I]. destruct (act_scalar s2 parent cur (string_scalar v)); exact I.
      - destruct pt; try exact I; destruct simple; try exact I; apply IHa. }
    assert (Ha : forall s parent cur k, no_mem (p_agg ov (S f) s parent cur k)).
    { intros s parent cur k. rewrite p_agg_B. destruct (act_open ov s parent cur k) as [[s1 np]|]; [|exact I].
      apply bind_no_mem; [destruct k; cbn [abody]; auto | intros s2; apply expect_no_mem]. }
    assert (He : forall s parent simple first, no_mem (p_elems ov (S f) s parent simple first)).
    { intros s parent simple first. rewrite p_elems_B. destruct (peek s) as [[t|] s1]; [|exact I].
      destruct first.
      - destruct (is_value_start simple t); [apply bind_no_mem; auto | exact I].
      - destruct t as [bv|iv|lv|hv|hlv|fb|str|nm|pt| | ]; try exact I. destruct pt; try exact I.
        destruct (peek (shift s1)) as [[t2|] s3]; [|exact I].
        destruct (is_value_start simple t2); [apply bind_no_mem; auto | apply IHe]. }
    assert (Hs : forall s parent, no_mem (p_settings ov (S f) s parent)).
    { intros s parent. rewrite p_settings_B. destruct (peek s) as [[t|] s1]; [|exact I].
      destruct t as [bv|iv|lv|hv|hlv|fb|str|nm|pt| | ]; try exact I.
      destruct (act_name ov (shift s1) parent nm) as [[s2 sp]|]; [|exact I].
      apply bind_no_mem; [apply expect_no_mem|]. intros s3. apply bind_no_mem; auto. }
    auto.
  Qed.

  Lemma config_no_mem s : no_mem (p_config ov s).
  Proof.
    rewrite p_config_B. apply bind_no_mem; [apply parser_no_mem|]. intros s1.
    destruct (peek s1) as [[t|] s2]; [destruct t|]; exact I.
  Qed.
End NoMem.

(* ------------------------------------------------------------------------------------ *)
(* derivable token lists hold no stopping token *)
Definition tnonstop (t : token) : Prop := is_stop t = false.

Lemma D_nonstop :
  (forall simple ts, Dvalue simple ts -> Forall tnonstop ts) /\
  (forall simple ts, Delems simple ts -> Forall tnonstop ts) /\
  (forall simple ts, Dtail simple ts -> Forall tnonstop ts) /\
  (forall ts, Dsettings ts -> Forall tnonstop ts).
Proof.
  apply D_mutind; intros.
  - constructor; [destruct t; try discriminate; reflexivity | constructor].
  - clear n. induction ss as [|x r IH]; [constructor|]. cbn [forallb] in e. apply andb_true_iff in e as [E1 E2].
    constructor; [destruct x; try discriminate; reflexivity | apply IH; exact E2].
  - constructor; [reflexivity|]. apply Forall_app. split; [assumption | constructor; [reflexivity | constructor]].
  - constructor; [reflexivity|]. apply Forall_app. split; [assumption | constructor; [reflexivity | constructor]].
  - constructor; [reflexivity|]. apply Forall_app. split; [assumption | constructor; [reflexivity | constructor]].
  - constructor.
  - apply Forall_app. split; assumption.
  - constructor.
  - constructor; [reflexivity | assumption].
  - constructor; [reflexivity|]. apply Forall_app. split; assumption.
  - constructor.
  - constructor; [reflexivity|]. constructor; [reflexivity|]. apply Forall_app. split; [assumption|]. apply Forall_app. split; [|assumption].
    destruct o as [-> | [-> | ->]]; repeat constructor.
Qed.

(* a prefix free of stopping tokens of a list that has its first stopping token at a known place lies before it *)
Lemma prefix_before_stop {A} (P : A -> Prop) : forall (a x ts : list A) e junk,
  a ++ x = ts ++ e :: junk -> Forall P a -> ~ P e -> exists d, ts = a ++ d.
Proof.
  induction a as [|y a IH]; intros x ts e junk E Fa Ne; [exists ts; reflexivity|].
  inversion Fa as [|? ? Py Fa']; subst. destruct ts as [|y' ts'].
  - cbn in E. injection E as -> _. contradiction.
  - cbn in E. injection E as <- E. destruct (IH _ _ _ _ E Fa' Ne) as (d & ->). exists d. reflexivity.
Qed.

(* ------------------------------------------------------------------------------------ *)
(* the scanner writes an error text only with an error token *)
Definition err_only_on_error (tk : ltoken) : Prop := lt_tok tk = TkError \/ lt_err tk = None.

Section Scan.
  Variable atof : bytes -> Z.
  Variable FS : fs.
  Hypothesis FS_ok : forall f content, fs_lookup FS f = Some (FFile content) -> bytes_ok content.

  Lemma step_no_err incdir incf st b :
    match lex_step ScannerCert.the_tables yy_rule_can_match_eol yy_actions atof FS incdir incf MAX_INCLUDE_DEPTH st b with
    | STok tk _ _ => err_only_on_error tk | _ => True end.
  Proof.
    unfold lex_step. destruct (flex_match _ _ _ _) as [[rule [|len]]|]; try exact I. cbv zeta.
    unfold stop_error, emit.
    destruct (action_of yy_actions rule); try exact I; try (right; reflexivity).
    - (* include directive *)
      destruct (_ =? MAX_INCLUDE_DEPTH)%Z; [exact I|].
      destruct (call_incfn _ _ _) as [[evs err] files]. destruct err; [exact I|].
      destruct files as [[|f1 frest]|]; try exact I. destruct (fs_lookup FS f1) as [[content|]|]; exact I.
    - destruct (numeric_token atof AFloat _); [right; reflexivity | exact I].
    - destruct (numeric_token atof AInteger _); [right; reflexivity | exact I].
    - destruct (numeric_token atof AInteger64 _); [right; reflexivity | exact I].
    - destruct (numeric_token atof AHex _); [right; reflexivity | exact I].
    - destruct (numeric_token atof AHex64 _); [right; reflexivity | exact I].
  Qed.

  Theorem lex_top_errs c top text : bytes_ok text -> Forall err_only_on_error (fst (lex_top atof FS c top text)).
  Proof.
    intros Hb. unfold lex_top. rewrite tables_same.
    pose proof (lex_depth_ok atof FS (c_incdir c) (c_incfn c) MAX_INCLUDE_DEPTH FS_ok err_only_on_error (fun tk H => or_introl H)
                  (fun st b _ _ _ => step_no_err (c_incdir c) (c_incfn c) st b)
                  (Z.to_nat MAX_INCLUDE_DEPTH + 1) 0%Z (lstate0 top) text
                  ltac:(vm_compute; split; discriminate) ltac:(vm_compute; reflexivity)
                  (cond_ok_intro (lstate0 top) 0%Z eq_refl (or_introl eq_refl)) Hb eq_refl) as H.
    destruct (lex_depth _ _ _ _ _ _ _ _ _ _ _) as [[[toks stop] st] line].
    destruct H as [HQ _]. destruct stop; cbn [fst]; try exact HQ.
    unfold emit. cbn [fst]. apply Forall_app. split; [exact HQ | constructor; [right; reflexivity | constructor]].
  Qed.
End Scan.

(* ------------------------------------------------------------------------------------ *)
(* config_read *)
Lemma apply_scan_errs_app e a b : apply_scan_errs e (a ++ b) = apply_scan_errs (apply_scan_errs e a) b.
Proof. unfold apply_scan_errs. apply fold_left_app. Qed.

Lemma no_scan_errs' l e : Forall (fun t => lt_err t = None) l -> apply_scan_errs e l = e.
Proof.
  unfold apply_scan_errs. revert e. induction l as [|t rr IH]; intros e0 H; [reflexivity|].
  inversion H as [|? ? Ht Hr]; subst. cbn [fold_left]. rewrite Ht. apply IH. exact Hr.
Qed.

Lemma nonstop_clean pre : Forall err_only_on_error pre -> Forall nonstop pre -> Forall (fun t => lt_err t = None) pre.
Proof.
  intros H1 H2. induction pre as [|x r IH]; [constructor|]. inversion H1 as [|? ? Hx Hr]; inversion H2 as [|? ? Nx Nr]; subst.
  constructor; [|apply IH; assumption]. destruct Hx as [Hx | Hx]; [|exact Hx]. unfold nonstop in Nx. rewrite Hx in Nx. discriminate Nx.
Qed.

Section Read.
  Variable atof : bytes -> Z.
  Variable FS : fs.
  Variable c : cfg.
  Variable top : option bytes.
  Variable text : bytes.
  Hypothesis FS_ok : forall f content, fs_lookup FS f = Some (FFile content) -> bytes_ok content.
  Hypothesis Hb : bytes_ok text.

  Let c1 := set_files (set_root (set_err c err0) new_root) [].
  Let toks := fst (lex_top atof FS c1 top text).
  Let ov := get_option c OPT_OVERRIDES.
  Let r := config_read atof FS c top text.
  Let root0 := set_pos new_root 0 top.
  Let res := p_config ov (mkP root0 toks false O 0%Z None).

  Hypothesis Hnest : (max_nest toks 0 0 <= NEST_LIMIT)%Z.

  Lemma toks_stop : has_stop (map lt_tok toks).
  Proof.
    pose proof (lex_top_total atof FS FS_ok c1 top text Hb) as H. unfold toks.
    destruct (lex_top atof FS c1 top text) as [tk stop]. exact (proj2 H).
  Qed.

  Lemma toks_errs : Forall err_only_on_error toks.
  Proof. exact (lex_top_errs atof FS FS_ok c1 top text Hb). Qed.

  Lemma res_total : match res with POk _ | PErr _ _ => True | _ => False end.
  Proof. exact (p_config_total ov (mkP root0 toks false O 0%Z None) toks_stop eq_refl). Qed.

  Lemma syntax_fields (t : ltoken) e0 :
    e0 = err0 ->
    (let err2 := yyerror (apply_scan_errs e0 [t]) (lt_line t) ERR_SYNTAX in mkErr 2 (e_text err2) (lt_file t) (e_line err2)) =
    match lt_err t with
    | None => mkErr 2 (Some ERR_SYNTAX) (lt_file t) (lt_line t)
    | Some (txt, f, l) => mkErr 2 (Some txt) (lt_file t) l
    end.
  Proof. intros ->. unfold apply_scan_errs. cbn [fold_left]. destruct (lt_err t) as [[[txt f] l]|]; reflexivity. Qed.

  (* (1) a syntax error of the parser: the read fails, and the error fields are those of the first token that cannot
     continue a derivation - the message "syntax error" with the line and the file of that token, or, when that
     token is an error token of the scanner, the text and line the scanner recorded *)
  Theorem read_syntax_error s' :
    res = PErr PErrSyntax s' ->
    exists pre t rest,
      toks = pre ++ t :: rest /\ p_toks s' = t :: rest /\
      rd_out_ r = RdFail /\
      c_err (rd_cfg r) = match lt_err t with
                         | None => mkErr 2 (Some ERR_SYNTAX) (lt_file t) (lt_line t)
                         | Some (txt, f, l) => mkErr 2 (Some txt) (lt_file t) l
                         end /\
      (lt_err t <> None -> lt_tok t = TkError) /\
      (forall rest' ts junk, map lt_tok (pre ++ t :: rest') = ts ++ TkEOF :: junk -> ~ Dsettings ts) /\
      (exists suffix s3, p_config ov (mkP root0 (pre ++ suffix) false O 0%Z None) = POk s3).
  Proof.
    intros H.
    destruct (syntax_error_first_offence ov root0 eq_refl eq_refl toks s' H) as (pre & t & rest & E & E' & La & Hl & Hf & _ & H2 & H3).
    exists pre, t, rest. split; [exact E|]. split; [exact E'|].
    destruct (read_unfold atof FS c top text Hnest res eq_refl) as (_ & Herr & _).
    destruct (Herr PErrSyntax s' H) as [Ho Hc]. split; [exact Ho|].
    destruct (syntax_error_read ov root0 toks s' pre t rest H E E' La) as [Hrd Hns].
    pose proof toks_errs as Hq. rewrite E in Hq. apply Forall_app in Hq as [Hq1 Hq2]. inversion Hq2 as [|? ? Hqt _]; subst.
    split; [|split; [intros Hne; destruct Hqt as [Ht | Ht]; [exact Ht | contradiction] | split; assumption]].
    unfold r. rewrite Hc. unfold read_tokens. unfold toks, c1 in Hrd. rewrite Hrd. rewrite apply_scan_errs_app.
    rewrite (no_scan_errs' pre err0 (nonstop_clean pre Hq1 Hns)). rewrite Hl, Hf. cbn [perr_text].
    apply syntax_fields. reflexivity.
  Qed.

  Lemma map_lt_tok_ltp (l : list ltoken) : map lt_tok l = map fst (map ltp l).
  Proof. rewrite map_map. reflexivity. Qed.

  Lemma spelled_tokens ms : wf_m ms = true -> spells ms toks ->
    exists ts junk, map lt_tok toks = ts ++ TkEOF :: junk /\ Dsettings ts.
  Proof.
    intros Hwf (pe & junk & Hsp). exists (map fst (toks_m ms)), (map fst junk). split.
    - rewrite map_lt_tok_ltp, Hsp, map_app. reflexivity.
    - destruct derivation_of_cst as (_ & _ & _ & Hd). exact (Hd ms Hwf).
  Qed.

  (* the tokens read when a derivable text is refused carry no scanner error *)
  Lemma spelled_read_clean ms e s' : wf_m ms = true -> spells ms toks -> res = PErr e s' ->
    Forall (fun t => lt_err t = None) (firstn (p_read s') toks).
  Proof.
    intros Hwf Hsp H. destruct (spelled_tokens ms Hwf Hsp) as (ts & junk & Et & D).
    pose proof (config_inv ov (rinv toks) (rinv_peek toks) (rinv_shift toks) (rinv_root toks) _ (rinv_start root0 toks)) as Hi.
    fold res in Hi. rewrite H in Hi. cbn [st_of] in Hi. destruct Hi as (c0 & Ec & Fc & Hr & Hla).
    pose proof toks_errs as Hq. rewrite Ec in Hq. apply Forall_app in Hq as [Hq1 Hq2].
    pose proof (nonstop_clean c0 Hq1 Fc) as Hc0.
    destruct (p_la s') eqn:La.
    - destruct (p_toks s') as [|x r'] eqn:Er; [exfalso; apply (Hla eq_refl); reflexivity|].
      assert (Hfn : firstn (p_read s') toks = c0 ++ [x]).
      { rewrite Hr, Ec. replace (c0 ++ x :: r') with ((c0 ++ [x]) ++ r') by (rewrite <- app_assoc; reflexivity).
        replace (length c0 + 1)%nat with (length (c0 ++ [x])) by (rewrite app_length; reflexivity).
        rewrite firstn_app, firstn_all, Nat.sub_diag. cbn [firstn]. apply app_nil_r. }
      rewrite Hfn. apply Forall_app. split; [exact Hc0|]. constructor; [|constructor].
      inversion Hq2 as [|? ? Hx _]; subst. destruct Hx as [Hx | Hx]; [exfalso | exact Hx].
      rewrite Ec, map_app in Et. cbn [map] in Et.
      assert (Fc' : Forall tnonstop (map lt_tok c0)) by (apply Forall_map; exact Fc).
      destruct (prefix_before_stop tnonstop _ _ _ _ _ Et Fc' ltac:(discriminate)) as (d & Ed).
      rewrite Ed, <- app_assoc in Et. apply app_inv_head in Et.
      destruct d as [|y d'].
      + cbn in Et. injection Et as Et _. rewrite Hx in Et. discriminate Et.
      + cbn in Et. injection Et as Et _.
        assert (Hy : tnonstop y).
        { pose proof (proj2 (proj2 (proj2 D_nonstop)) ts D) as Fts. rewrite Ed in Fts. apply Forall_app in Fts as [_ Fd].
          inversion Fd; assumption. }
        rewrite <- Et, Hx in Hy. discriminate Hy.
    - assert (Hfn : firstn (p_read s') toks = c0).
      { rewrite Hr, Ec, Nat.add_0_r. rewrite firstn_app, firstn_all, Nat.sub_diag. cbn [firstn]. apply app_nil_r. }
      rewrite Hfn. exact Hc0.
  Qed.

  (* read_reject_semantic without its hypothesis on the scanner errors (bytes in, bytes in the files) *)
  Theorem read_reject_semantic' ms :
    wf_m ms = true -> spells ms toks -> sem_m ov ms [] = false ->
    exists e l fi, err_m ov ms [] = Some (e, (l, fi)) /\ rd_out_ r = RdFail /\
                   c_err (rd_cfg r) = mkErr 2 (Some (perr_text e)) fi l /\ (e = PErrDup \/ e = PErrMismatch).
  Proof.
    intros Hwf Hsp Hsem. destruct (read_unfold atof FS c top text Hnest res eq_refl) as (_ & Herr & _).
    destruct (reject_semantic ov root0 eq_refl eq_refl toks ms Hwf Hsp Hsem) as (e & [l fi] & s' & Ee & Er & Ep & Hk).
    destruct (Herr e s' Er) as [H1 H2]. exists e, l, fi. split; [exact Ee|]. split; [exact H1|]. split; [|exact Hk].
    unfold r. rewrite H2. unfold read_tokens. pose proof (spelled_read_clean ms e s' Hwf Hsp Er) as Hcl. unfold toks, c1 in Hcl.
    rewrite (no_scan_errs' _ err0 Hcl). unfold epos in Ep. injection Ep as -> ->. reflexivity.
  Qed.

  (* (2) within the nesting limit a read has exactly three outcomes *)
  Theorem read_trichotomy :
    (* success: the text is derivable and meets the semantic conditions; the configuration is the denoted one *)
    (rd_out_ r = RdOk /\
     exists ms, wf_m ms = true /\ spells ms toks /\ sem_m ov ms [] = true /\
                pobs (c_root (rd_cfg r)) = PN None None PGroup 0%Z (den_m ms [])) \/
    (* a semantic error came first; when the text is derivable it is the error of the first offence, at its position *)
    (rd_out_ r = RdFail /\
     exists e s', res = PErr e s' /\ (e = PErrDup \/ e = PErrMismatch) /\
       forall ms, wf_m ms = true -> spells ms toks ->
         sem_m ov ms [] = false /\
         exists l fi, err_m ov ms [] = Some (e, (l, fi)) /\ c_err (rd_cfg r) = mkErr 2 (Some (perr_text e)) fi l) \/
    (* a syntax error: the text is not derivable, and the error fields are those of the first token that cannot
       continue a derivation *)
    (rd_out_ r = RdFail /\
     (forall ms, wf_m ms = true -> ~ spells ms toks) /\
     exists s' pre t rest,
       res = PErr PErrSyntax s' /\ toks = pre ++ t :: rest /\ p_toks s' = t :: rest /\
       c_err (rd_cfg r) = match lt_err t with
                          | None => mkErr 2 (Some ERR_SYNTAX) (lt_file t) (lt_line t)
                          | Some (txt, f, l) => mkErr 2 (Some txt) (lt_file t) l
                          end /\
       (lt_err t <> None -> lt_tok t = TkError) /\
       (forall rest' ts junk, map lt_tok (pre ++ t :: rest') = ts ++ TkEOF :: junk -> ~ Dsettings ts) /\
       (exists suffix s3, p_config ov (mkP root0 (pre ++ suffix) false O 0%Z None) = POk s3)).
  Proof.
    pose proof res_total as Ht. destruct (read_unfold atof FS c top text Hnest res eq_refl) as (Hok & Herr & _).
    destruct res as [s|e s'|s|s] eqn:R; try contradiction.
    - left. destruct (Hok s eq_refl) as [Ho _]. split; [exact Ho|].
      destruct (proj1 (accept_iff ov root0 eq_refl eq_refl toks) (ex_intro _ s R)) as (ms & Hwf & Hsp & Hsem).
      exists ms. repeat (split; [assumption|]). exact (read_denotes atof FS c top text Hnest ms Ho Hwf Hsp).
    - destruct (Herr e s' eq_refl) as [Ho _].
      assert (HB : e = PErrDup \/ e = PErrMismatch ->
                forall ms, wf_m ms = true -> spells ms toks ->
                  sem_m ov ms [] = false /\
                  exists l fi, err_m ov ms [] = Some (e, (l, fi)) /\ c_err (rd_cfg r) = mkErr 2 (Some (perr_text e)) fi l).
      { intros _ ms Hwf Hsp.
        assert (Hsem : sem_m ov ms [] = false).
        { destruct (sem_m ov ms []) eqn:Hs; [|reflexivity].
          destruct (proj2 (accept_iff ov root0 eq_refl eq_refl toks) (ex_intro _ ms (conj Hwf (conj Hsp Hs)))) as (s & Hs').
          fold res in Hs'. rewrite R in Hs'. discriminate Hs'. }
        split; [exact Hsem|].
        destruct (reject_semantic ov root0 eq_refl eq_refl toks ms Hwf Hsp Hsem) as (e2 & [l2 fi2] & s2 & Ee & Er & _).
        fold res in Er. rewrite R in Er. injection Er as <- <-.
        destruct (read_reject_semantic' ms Hwf Hsp Hsem) as (e3 & l & fi & Ee3 & _ & Hc & _).
        rewrite Ee in Ee3. injection Ee3 as <- <- <-. exists l2, fi2. auto. }
      destruct e.
      + right. right. split; [exact Ho|].
        destruct (read_syntax_error s' R) as (pre & t & rest & E & E' & _ & Hc & Hte & H2 & H3).
        split.
        * intros ms Hwf Hsp. destruct (spelled_tokens ms Hwf Hsp) as (ts & junk & Et & D). rewrite E in Et. exact (H2 rest ts junk Et D).
        * exists s', pre, t, rest. auto 8.
      + right. left. split; [exact Ho|]. exists PErrDup, s'. split; [reflexivity|]. split; [auto|]. apply HB. auto.
      + right. left. split; [exact Ho|]. exists PErrMismatch, s'. split; [reflexivity|]. split; [auto|]. apply HB. auto.
      + exfalso. pose proof (config_no_mem ov (mkP root0 toks false O 0%Z None)) as Hm. fold res in Hm. rewrite R in Hm. exact Hm.
  Qed.
End Read.

(* ------------------------------------------------------------------------------------ *)
(* part (1) of ParseSyntax.syntax_error_first_offence without its side condition: the other stream need not hold a
   stopping token *)
Lemma peek_nil s : p_toks s = [] -> peek s = (None, s).
Proof. intros E. unfold peek. rewrite E. reflexivity. Qed.

Section LocalAny.
  Variable ov : bool.
  Variable root0 : setting.
  Hypothesis Hp0 : s_pl root0 = PGroup.
  Notation run lts := (p_config ov (mkP root0 lts false O 0%Z None)).

  (* a stream of at most two tokens never exhausts the fuel *)
  Lemma short_settings f s parent : (length (p_toks s) <= 2)%nat -> not_stuck (p_settings ov (S (S f)) s parent).
  Proof.
    intros Hl. rewrite p_settings_B.
    assert (Hexp0 : forall s2 k, p_toks s2 = [] -> not_stuck (bind (expect s2 TEquals) k)).
    { intros s2 k E2. unfold expect. rewrite (peek_nil s2 E2). exact I. }
    destruct (p_toks s) as [|x [|y [|z l]]] eqn:E; cbn [length] in Hl; try lia.
    - rewrite (peek_nil s E). exact I.
    - destruct (peek_hd s x [] E) as (s1 & P & T1 & _). rewrite P.
      destruct (lt_tok x); try exact I.
      destruct (act_name ov (shift s1) parent s0) as [[s2 sp]|] eqn:A; [|exact I].
      apply Hexp0. rewrite (proj1 (act_name_toks _ _ _ _ _ _ A)). exact (shift_toks _ _ _ T1).
    - destruct (peek_hd s x [y] E) as (s1 & P & T1 & _). rewrite P.
      destruct (lt_tok x); try exact I.
      destruct (act_name ov (shift s1) parent s0) as [[s2 sp]|] eqn:A; [|exact I].
      assert (E2 : p_toks s2 = [y]) by (rewrite (proj1 (act_name_toks _ _ _ _ _ _ A)); exact (shift_toks _ _ _ T1)).
      destruct (peek_hd s2 y [] E2) as (s3 & P3 & T3 & _). unfold expect. rewrite P3.
      destruct (lt_tok y) as [ | | | | | | | |pt| | ]; try exact I. destruct pt; try exact I.
      cbn [bind]. rewrite p_value_S. rewrite (peek_nil (shift s3) (shift_toks _ _ _ T3)). exact I.
  Qed.

  Lemma config_not_stuck_of_settings s : not_stuck (p_settings ov (S (4 * length (p_toks s))) s []) -> not_stuck (p_config ov s).
  Proof.
    intros H. rewrite p_config_B. destruct (p_settings ov (S (4 * length (p_toks s))) s []) as [s1|e s1|s1|s1]; cbn [bind]; try exact I; [|exact H].
    destruct (peek s1) as [[t|] s2]; [destruct t|]; exact I.
  Qed.

  Theorem syntax_error_local_any lts s' :
    run lts = PErr PErrSyntax s' ->
    exists pre t rest,
      lts = pre ++ t :: rest /\ p_toks s' = t :: rest /\ p_la s' = true /\
      p_line s' = lt_line t /\ p_file s' = lt_file t /\
      forall rest', run (pre ++ t :: rest') = PErr PErrSyntax (retoks s' (t :: rest')).
  Proof.
    intros H. destruct (syntax_error_local ov root0 Hp0 lts s' H) as (pre & t & rest & E & E' & La & Hl & Hf & Hloc).
    exists pre, t, rest. repeat (split; [assumption|]). intros rest'.
    set (s0 := mkP root0 lts false O 0%Z None) in *.
    assert (Hsw0 : sw (length rest) rest' s0 = mkP root0 (pre ++ t :: rest') false O 0%Z None).
    { unfold sw, retoks, s0. cbn [p_toks p_root p_la p_read p_line p_file]. rewrite E.
      replace (pre ++ t :: rest) with ((pre ++ [t]) ++ rest) by (rewrite <- app_assoc; reflexivity).
      rewrite firstn_app_len, <- app_assoc. reflexivity. }
    assert (Hsw' : sw (length rest) rest' s' = retoks s' (t :: rest')).
    { unfold sw. rewrite E'. cbn [length]. replace (S (length rest) - length rest)%nat with 1%nat by lia. reflexivity. }
    assert (NS : not_stuck (run (pre ++ t :: rest'))).
    { destruct (existsb is_stop (map lt_tok (pre ++ t :: rest'))) eqn:Hst; [apply (run_not_stuck ov root0 Hp0); exact Hst|].
      destruct (Nat.ltb (length pre + 4 * length rest') 2) eqn:Hsm.
      - (* at most two tokens *)
        apply Nat.ltb_lt in Hsm. apply config_not_stuck_of_settings. cbn [p_toks].
        assert (Hlen : (1 <= length (pre ++ t :: rest') <= 2)%nat) by (rewrite app_length; cbn [length]; lia).
        replace (S (4 * length (pre ++ t :: rest'))) with (S (S (4 * length (pre ++ t :: rest') - 1))) by lia.
        apply short_settings. cbn [p_toks]. lia.
      - (* enough fuel for the tokens up to the offending one and an end of input *)
        apply Nat.ltb_ge in Hsm. apply config_not_stuck_of_settings. cbn [p_toks].
        set (FX := S (4 * length (pre ++ t :: rest'))).
        set (eof := mkc s' TkEOF). set (Z := (pre ++ [t]) ++ [eof]). set (sZ := mkP root0 Z false O 0%Z None).
        assert (HstZ : has_stop (map lt_tok Z)) by (unfold Z; apply has_stop_end).
        assert (HZ : run Z = PErr PErrSyntax (retoks s' [t; eof])).
        { assert (EZ : Z = pre ++ t :: [eof]) by (unfold Z; rewrite <- app_assoc; reflexivity). rewrite EZ. apply Hloc. rewrite <- EZ. exact HstZ. }
        destruct (parser_total ov FX) as (_ & _ & _ & Ts).
        assert (G : good [] sZ (p_settings ov FX sZ [])).
        { apply Ts; [|exact HstZ | exists root0; split; [reflexivity | exact (root0_ty root0 Hp0)]].
          unfold ptoks. rewrite map_length. cbn [sZ p_toks]. unfold Z, FX. rewrite !app_length. cbn [length]. lia. }
        assert (NSA : not_stuck (p_settings ov FX sZ [])) by (destruct (p_settings ov FX sZ []); try exact I; contradiction).
        (* the answer at this fuel is the one p_config computes on Z *)
        rewrite p_config_B in HZ. fold sZ in HZ. set (FZ := S (4 * length (p_toks sZ))) in HZ.
        assert (NSZ : not_stuck (p_settings ov FZ sZ [])) by (destruct (p_settings ov FZ sZ []); try exact I; discriminate HZ).
        assert (EA : p_settings ov FX sZ [] = p_settings ov FZ sZ []).
        { rewrite <- (settings_fuel ov FX (Nat.max FX FZ) sZ [] (Nat.le_max_l _ _) NSA).
          apply (settings_fuel ov FZ (Nat.max FX FZ) sZ [] (Nat.le_max_r _ _) NSZ). }
        assert (Hlen : (1 < length (p_toks (st_of (p_settings ov FX sZ []))))%nat).
        { rewrite EA. destruct (p_settings ov FZ sZ []) as [s1|e s1|s1|s1]; cbn [bind st_of] in HZ |- *; try discriminate HZ.
          - destruct (peek s1) as [[tx|] sx] eqn:Px; [|discriminate HZ]. pose proof (peek_toks _ _ _ Px) as Tx.
            assert (sx = retoks s' [t; eof]) by (destruct tx; try discriminate HZ; injection HZ as <-; reflexivity). subst sx.
            rewrite <- Tx. cbn. lia.
          - injection HZ as _ ->. cbn. lia. }
        pose proof (proj2 (proj2 (proj2 (parser_local ov 1 rest' FX))) sZ [] Hlen) as EL.
        assert (HswZ : sw 1 rest' sZ = mkP root0 (pre ++ t :: rest') false O 0%Z None).
        { unfold sw, retoks, sZ, Z. cbn [p_toks p_root p_la p_read p_line p_file].
          change 1%nat with (length [eof]). rewrite firstn_app_len, <- app_assoc. reflexivity. }
        rewrite HswZ in EL. rewrite EL.
        destruct (p_settings ov FX sZ []); try exact I. exact NSA. }
    rewrite <- Hsw0, <- Hsw'. rewrite (config_local ov (length rest) rest' s0).
    - rewrite H. reflexivity.
    - rewrite H. cbn [st_of]. rewrite E'. cbn [length]. lia.
    - rewrite H. exact I.
    - rewrite Hsw0. exact NS.
  Qed.
  (* ParseSyntax.syntax_error_first_offence with part (1) for every continuation *)
  Theorem syntax_error_first_offence_any lts s' :
    s_kids root0 = [] ->
    run lts = PErr PErrSyntax s' ->
    exists pre t rest,
      lts = pre ++ t :: rest /\ p_toks s' = t :: rest /\ p_la s' = true /\
      p_line s' = lt_line t /\ p_file s' = lt_file t /\
      (forall rest', run (pre ++ t :: rest') = PErr PErrSyntax (retoks s' (t :: rest'))) /\
      (forall rest' ts junk, map lt_tok (pre ++ t :: rest') = ts ++ TkEOF :: junk -> ~ Dsettings ts) /\
      (exists suffix s3, run (pre ++ suffix) = POk s3).
  Proof.
    intros Hk0 H.
    destruct (syntax_error_first_offence ov root0 Hp0 Hk0 lts s' H) as (pre & t & rest & E & E' & La & Hl & Hf & _ & H2 & H3).
    destruct (syntax_error_local_any lts s' H) as (pre2 & t2 & rest2 & E2 & E2' & _ & _ & _ & Hany).
    rewrite E' in E2'. injection E2' as <- <-. rewrite E in E2. apply app_inv_tail in E2. subst pre2.
    exists pre, t, rest. auto 10.
  Qed.
End LocalAny.

(* ------------------------------------------------------------------------------------ *)
(* non-vacuity:  "a = ( 1 ,\n\n } ) ;\n"  read on a fresh configuration: syntax error, line 3 *)
Definition ex_text : bytes := [97; 32; 61; 32; 40; 32; 49; 32; 44; 10; 10; 32; 125; 32; 41; 32; 59; 10]%Z.

Example ex_read_syntax_error :
  let r := config_read (fun _ => 0%Z) [] cfg_init None ex_text in
  (rd_out_ r, c_err (rd_cfg r)) = (RdFail, mkErr 2 (Some ERR_SYNTAX) None 3).
Proof. vm_compute. reflexivity. Qed.

Example ex_read_tokens :
  map (fun t => (lt_tok t, lt_line t)) (fst (lex_top (fun _ => 0%Z) [] (set_files (set_root (set_err cfg_init err0) new_root) []) None ex_text)) =
  [(TkName [97%Z], 1%Z); (TkP TEquals, 1%Z); (TkP TListStart, 1%Z); (TkInt 1, 1%Z); (TkP TComma, 1%Z);
   (TkP TGroupEnd, 3%Z); (TkP TListEnd, 3%Z); (TkP TSemicolon, 3%Z); (TkEOF, 4%Z)].
Proof. vm_compute. reflexivity. Qed.

Print Assumptions read_syntax_error.
Print Assumptions read_reject_semantic'.
Print Assumptions read_trichotomy.
Print Assumptions ex_read_syntax_error.
Print Assumptions syntax_error_local_any.
Print Assumptions syntax_error_first_offence_any.
