(* RoundExample.v — a concrete configuration that satisfies every hypothesis of C01_roundtrip (the theorem is not
   vacuous), and the concrete configurations on which the hypotheses are necessary (the findings F2, F1b, F1c as
   evaluated refutations). *)
From Coq Require Import List ZArith NArith Bool Lia.
Import ListNotations.
From LC Require Import Base BaseFacts Tree Fp Api ScanAction FlexEngine Tokens Lexer Parser Reader Regex RegexFacts Bisim
  ScannerSpec ClassCert LexRound LexWrite ParseWrite WriteStable Writer WriterFacts FloatDec Run.
From LC.gen Require Import Consts.
Local Open Scope Z_scope.

Lemma matches_dec r w : nullable (derivs w r) = true <-> matches r w.
Proof. rewrite nullable_correct, derivs_correct, app_nil_r. reflexivity. Qed.

Lemma bytes_ok_dec w : forallb is_byte w = true -> bytes_ok w.
Proof.
  intros H. rewrite forallb_forall in H. apply Forall_forall. intros x Hx. specialize (H x Hx). unfold is_byte in H.
  apply andb_true_iff in H as [A B]. apply Z.leb_le in A. apply Z.ltb_lt in B. lia.
Qed.

Lemma name_ok_dec n :
  nullable (derivs n p_name) && forallb is_byte n && negb (nullable (derivs n p_true)) && negb (nullable (derivs n p_false)) = true ->
  name_ok n.
Proof.
  intros H. repeat (apply andb_true_iff in H as [H ?]).
  split; [apply matches_dec; exact H|]. split; [apply bytes_ok_dec; assumption|].
  split; intros M; apply matches_dec in M; rewrite M in *; discriminate.
Qed.

Lemma float_ok_dec fd at_ c b :
  let t := ftext fd c b in
  nullable (derivs t c_float) && forallb is_byte t && negb (existsb (Z.eqb 10) t) && negb (b64_is_inf (at_ t)) = true ->
  float_ok fd at_ c b.
Proof.
  cbv zeta. intros H. repeat (apply andb_true_iff in H as [H ?]). unfold float_ok.
  split; [apply matches_dec; exact H|]. split; [apply bytes_ok_dec; assumption|]. split.
  - intros Hin. apply negb_true_iff in H1. assert (E : existsb (Z.eqb 10) (ftext fd c b) = true).
    { apply existsb_exists. exists 10. split; [exact Hin | reflexivity]. }
    congruence.
  - apply negb_true_iff. assumption.
Qed.

(* x = 5; s = a string with a quote and a newline; l = ( 7L, [ 0x1F, 0x20 ], NULL string ); g = { b = true; f = 1.5; h = INT_MIN; } *)
Definition ex_root : setting :=
  Setting None PGroup
    [ Setting (Some [120]) (PInt 5) [] 0 None 0 None;
      Setting (Some [115]) (PStr (Some [97; 34; 98; 10])) [] 0 None 0 None;
      Setting (Some [108]) PList
        [ Setting None (PInt64 7) [] 0 None 0 None;
          Setting None PArray [ Setting None (PInt 31) [] 1 None 0 None; Setting None (PInt 32) [] 1 None 0 None ] 0 None 0 None;
          Setting None (PStr None) [] 0 None 0 None ] 0 None 0 None;
      Setting (Some [103]) PGroup
        [ Setting (Some [98]) (PBool 7) [] 0 None 0 None;
          Setting (Some [102]) (PFloat 4609434218613702656) [] 0 None 0 None;
          Setting (Some [104]) (PInt (-2147483648)) [] 0 None 0 None ] 0 None 0 None ]
    0 None 0 None.
Definition ex_cfg : cfg := set_root cfg_init ex_root.

Ltac nm := eexists; split; [reflexivity | apply name_ok_dec; vm_compute; reflexivity].

Lemma ex_writable : writable fmt_double atof ex_cfg ex_root.
Proof.
  cbn [writable ex_root].
  split; [split; [nm | reflexivity]|].
  split; [split; [nm | repeat constructor; lia]|].
  split; [split; [nm|]|].
  { (* the list *) split; [reflexivity|]. split; [|split; [exact I | exact I]].
    (* the array *) split; [reflexivity|]. split; [reflexivity | exact I]. }
  split; [split; [nm|]|exact I].
  (* the group *)
  split; [split; [nm | exact I]|].
  split; [split; [nm | apply float_ok_dec; vm_compute; reflexivity]|].
  split; [split; [nm | reflexivity]|exact I].
Qed.

Lemma ex_pstruct : pstruct ex_root.
Proof.
  cbn [pstruct ex_root map s_name].
  repeat match goal with
         | |- True => exact I
         | |- NoDup _ => solve [repeat constructor; cbn; intuition discriminate]
         | |- Forall (fun m => exists n, _) _ => solve [repeat (constructor; [eexists; split; reflexivity|]); constructor]
         | |- exists T, Forall _ _ => exists TInt; solve [repeat (constructor; [split; [exact I | reflexivity]|]); constructor]
         | |- _ /\ _ => split
         end.
Qed.

Lemma ex_stable : stable fmt_double atof ex_cfg ex_root.
Proof. cbn [stable ex_root]. repeat split; auto; vm_compute; reflexivity. Qed.

Lemma ex_nest : nest_of (flat_map (piece_tok fmt_double atof ex_cfg) (pieces ex_cfg ex_root 0) ++ [TkEOF]) 0 0 <= NEST_LIMIT.
Proof. vm_compute. discriminate. Qed.

(* the round trip of the example, by the theorem (not by evaluation) *)
Lemma ex_roundtrip :
  let r := config_read atof [] cfg_init None (config_write fmt_double ex_cfg) in
  rd_out_ r = RdOk /\
  obs (c_root (rd_cfg r)) = ON None PGroup 0 (map (fun m => nobs fmt_double atof ex_cfg (s_name m) m) (s_kids ex_root)) /\
  config_write fmt_double (rd_cfg r) = config_write fmt_double ex_cfg.
Proof.
  cbv zeta.
  destruct (read_written fmt_double atof [] ex_cfg cfg_init _ 0 None 0 None eq_refl ltac:(discriminate) ex_writable ex_pstruct ex_nest) as [A B].
  split; [exact A|]. split; [exact B|].
  apply (second_write fmt_double atof [] ex_cfg cfg_init _ 0 None 0 None eq_refl ltac:(discriminate) ex_writable ex_pstruct ex_stable ex_nest).
  repeat split.
Qed.

(* ---- the hypotheses are necessary: the recorded findings, evaluated on the model ---- *)
Definition one_member (name : bytes) (pl : payload) : cfg :=
  set_root cfg_init (Setting None PGroup [Setting (Some name) pl [] 0 None 0 None] 0 None 0 None).
Definition reread (c : cfg) : rd_result := config_read atof [] cfg_init None (config_write fmt_double c).

(* F2: a member named like a boolean keyword is written but not read back *)
Lemma keyword_name_refuted : rd_out_ (reread (one_member [116; 114; 117; 101] (PInt 1))) = RdFail.
Proof. vm_compute. reflexivity. Qed.

(* F1b: DBL_MAX at precision 15 with scientific notation: the rendering rounds above DBL_MAX and is rejected *)
Lemma g_overflow_refuted :
  rd_out_ (reread (set_prec (set_options (one_member [120] (PFloat 9218868437227405311)) 54) 15)) = RdFail.
Proof. vm_compute. reflexivity. Qed.

(* F1c: the denormal 21 * 2^-1074 at precision 2 with scientific notation is read back, but the second text differs *)
Lemma g_denormal_refuted :
  let c := set_prec (set_options (one_member [120] (PFloat 21)) 54) 2 in
  rd_out_ (reread c) = RdOk /\ config_write fmt_double (set_prec (set_options (rd_cfg (reread c)) 54) 2) <> config_write fmt_double c.
Proof. vm_compute. split; [reflexivity | discriminate]. Qed.

(* F1: -1.5e59 at precision 6 without scientific notation: read back, but not as the same number *)
Lemma f_cut_refuted :
  let c := one_member [120] (PFloat 14715482615620799058) in
  rd_out_ (reread c) = RdOk /\
  match s_kids (c_root (rd_cfg (reread c))) with [m] => s_pl m <> PFloat 14715482615620799058 | _ => False end.
Proof. vm_compute. split; [reflexivity | discriminate]. Qed.
