(* FloatStable.v — a finite double is stable under render - read - render in fixed (%f) notation, as long as the
   rendering is not cut by the 64-byte buffer of libconfig_format_double (towards C01, last clause: the PFloat
   hypothesis of WriteStable.stable).

   x = V * 2^-1074 (V an integer: every double is a multiple of the least denormal).  fmt_f renders
   Q = rne (x * 10^prec); format_double strips zeros, strtod reads d / 10^L (= Q / 10^prec) and returns the double y
   nearest to it; x is a double, so |y - Q/10^prec| <= |x - Q/10^prec| <= 1/2 * 10^-prec, with Q even on a tie:
   rne (y * 10^prec) = Q and the second rendering is the first one. *)
From Coq Require Import List ZArith Bool Lia.
Import ListNotations.
From LC Require Import Base BaseFacts Fp FloatDec RoundFacts RoundSpec.
Local Open Scope Z_scope.

(* ------------------------------------------------------------------------------------------ *)
(* the fields of a finite double                                                               *)
(* ------------------------------------------------------------------------------------------ *)

Definition T : Z := 2 ^ 1074.                        (* 1 / the least denormal *)

Lemma T_pos : 0 < T.
Proof. unfold T. apply pow2_pos. lia. Qed.

Lemma pow2_T x : 0 <= x -> 2 ^ (x + 1074) = 2 ^ x * T.
Proof. intros H. unfold T. apply pow2_add; lia. Qed.

Global Opaque T.

Lemma b64_m_range b : 0 <= b64_m b < two53.
Proof.
  unfold b64_m, b64_man. pose proof (Z.mod_pos_bound b two52 ltac:(reflexivity)) as H.
  assert (T52 : two52 = 4503599627370496) by reflexivity. assert (T53 : two53 = 9007199254740992) by reflexivity.
  destruct (b64_exp b =? 0); lia.
Qed.

Lemma b64_e_range b : b64_is_finite b = true -> -1074 <= b64_e b <= 971.
Proof.
  unfold b64_is_finite, b64_e. intros H. apply negb_true_iff in H. apply Z.eqb_neq in H.
  assert (R : 0 <= b64_exp b < 2048) by (unfold b64_exp; apply Z.mod_pos_bound; lia).
  destruct (b64_exp b =? 0) eqn:E; [lia|]. apply Z.eqb_neq in E. lia.
Qed.

(* the value in units of 2^-1074 *)
Definition Vof (b : Z) : Z := b64_m b * 2 ^ (b64_e b + 1074).

(* ------------------------------------------------------------------------------------------ *)
(* is_rne                                                                                      *)
(* ------------------------------------------------------------------------------------------ *)

Lemma is_rne_scale a d c r : 0 < c -> is_rne a d r -> is_rne (a * c) (d * c) r.
Proof.
  intros Hc [H1 H2]. unfold is_rne. replace (a * c - r * (d * c)) with ((a - r * d) * c) by ring.
  rewrite Z.abs_mul, (Z.abs_eq c) by lia. split; [nia | intros E; apply H2; nia].
Qed.

Lemma is_rne_exact a d r : 0 < d -> a = r * d -> is_rne a d r.
Proof. intros Hd ->. unfold is_rne. rewrite Z.sub_diag. cbn. split; [lia | intros E; lia]. Qed.

Lemma is_rne_eq a a' d d' r : a = a' -> d = d' -> is_rne a d r -> is_rne a' d' r.
Proof. intros -> ->. exact (fun H => H). Qed.

Lemma is_rne_nonneg a d r : 0 <= a -> 0 < d -> is_rne a d r -> 0 <= r.
Proof. intros Ha Hd [H _]. destruct (Z_lt_le_dec r 0) as [N|N]; [|exact N]. exfalso. nia. Qed.

(* ------------------------------------------------------------------------------------------ *)
(* what %.*f rounds to: Q = rne (V * 10^prec / 2^1074)                                         *)
(* ------------------------------------------------------------------------------------------ *)

Definition pprime (prec b : Z) : Z := Z.min prec (Z.max (- b64_e b) 0).

Definition Qof (prec b : Z) : Z :=
  scaled_rne (b64_m b) (b64_e b) (- pprime prec b) * 10 ^ (prec - pprime prec b).

Lemma pow5_pos k : 0 <= k -> 0 < 5 ^ k.
Proof. intros. apply Z.pow_pos_nonneg; lia. Qed.

Lemma pow10_pos k : 0 <= k -> 0 < 10 ^ k.
Proof. intros. apply Z.pow_pos_nonneg; lia. Qed.

Lemma pow10_add a b : 0 <= a -> 0 <= b -> 10 ^ (a + b) = 10 ^ a * 10 ^ b.
Proof. intros. apply Z.pow_add_r; assumption. Qed.

Lemma pow5_add a b : 0 <= a -> 0 <= b -> 5 ^ (a + b) = 5 ^ a * 5 ^ b.
Proof. intros. apply Z.pow_add_r; assumption. Qed.

Lemma Qof_spec prec b : b64_is_finite b = true -> 0 <= prec ->
  is_rne (Vof b * 10 ^ prec) T (Qof prec b) /\ 0 <= scaled_rne (b64_m b) (b64_e b) (- pprime prec b).
Proof.
  intros Hfin Hp. pose proof (b64_m_range b) as Hm. pose proof (b64_e_range b Hfin) as He.
  unfold Qof, Vof, pprime. set (m := b64_m b) in *. set (e := b64_e b) in *.
  set (p' := Z.min prec (Z.max (- e) 0)).
  assert (Hp' : 0 <= p' <= prec) by (unfold p'; lia).
  unfold scaled_rne. replace (- p' <=? 0) with true by (symmetry; apply Z.leb_le; lia).
  unfold pow5. rewrite Z.opp_involutive. replace (e - - p') with (e + p') by lia.
  pose proof (pow5_pos p' ltac:(lia)) as P5.
  destruct (0 <=? e + p') eqn:Ek.
  - apply Z.leb_le in Ek. rewrite Z.shiftl_mul_pow2 by lia.
    pose proof (pow2_pos (e + p') Ek) as PK.
    split; [|nia].
    apply is_rne_exact; [apply T_pos|].
    set (c := prec - p'). replace prec with (p' + c) by (unfold c; lia).
    assert (Hc : 0 <= c) by (unfold c; lia).
    rewrite (pow10_add p' c) by lia. rewrite (pow10_split p') by lia.
    assert (E : 2 ^ (e + 1074) * 2 ^ p' = 2 ^ (e + p') * T).
    { rewrite <- pow2_T by lia. rewrite <- pow2_add by lia. f_equal. lia. }
    transitivity (m * 5 ^ p' * 10 ^ c * (2 ^ (e + 1074) * 2 ^ p')); [ring|]. rewrite E. ring.
  - apply Z.leb_gt in Ek.
    assert (Epp : p' = prec) by (unfold p' in *; lia).
    replace (prec - p') with 0 by lia. rewrite Z.pow_0_r, Z.mul_1_r.
    assert (Ha : 0 <= m * 5 ^ p') by nia.
    pose proof (shr_rne_spec (m * 5 ^ p') (- (e + p')) Ha ltac:(lia)) as Hr.
    split; [|apply (is_rne_nonneg _ _ _ Ha (pow2_pos (- (e + p')) ltac:(lia)) Hr)].
    rewrite Epp in *.
    apply (is_rne_scale _ _ (2 ^ (e + 1074 + prec)) _ (pow2_pos (e + 1074 + prec) ltac:(lia))) in Hr.
    revert Hr. apply is_rne_eq.
    + rewrite (pow10_split prec) by lia. rewrite (pow2_add (e + 1074) prec) by lia. ring.
    + rewrite <- pow2_add by lia. replace (- (e + prec) + (e + 1074 + prec)) with (0 + 1074) by lia.
      rewrite pow2_T by lia. rewrite Z.pow_0_r. ring.
Qed.

(* ------------------------------------------------------------------------------------------ *)
(* decimal digit lists                                                                         *)
(* ------------------------------------------------------------------------------------------ *)

Lemma val_be_acc ds : forall acc,
  fold_left (fun a d => a * 10 + d) ds acc = acc * 10 ^ lenZ ds + val_be 10 ds.
Proof.
  unfold val_be, lenZ. induction ds as [|x r IH]; intros acc.
  - cbn. lia.
  - cbn [fold_left length]. rewrite IH. rewrite (IH (0 * 10 + x)).
    rewrite Nat2Z.inj_succ, Z.pow_succ_r by lia. ring.
Qed.

Lemma val_be_app a b : val_be 10 (a ++ b) = val_be 10 a * 10 ^ lenZ b + val_be 10 b.
Proof. unfold val_be at 1. rewrite fold_left_app. fold (val_be 10 a). apply val_be_acc. Qed.

Lemma val_be_cons x r : val_be 10 (x :: r) = x * 10 ^ lenZ r + val_be 10 r.
Proof. change (x :: r) with ([x] ++ r). rewrite val_be_app. unfold val_be at 1. cbn. lia. Qed.

Lemma lenZ_nonneg {A} (l : list A) : 0 <= lenZ l.
Proof. unfold lenZ. lia. Qed.

Lemma lenZ_app {A} (a b : list A) : lenZ (a ++ b) = lenZ a + lenZ b.
Proof. unfold lenZ. rewrite app_length. lia. Qed.

Lemma lenZ_cons {A} (x : A) r : lenZ (x :: r) = lenZ r + 1.
Proof. unfold lenZ. cbn [length]. lia. Qed.

Lemma val_be_bound ds : digits_ok 10 ds -> 0 <= val_be 10 ds < 10 ^ lenZ ds.
Proof.
  induction 1 as [|x r Hx Hr IH].
  - cbn. lia.
  - rewrite val_be_cons, lenZ_cons. rewrite Z.pow_add_r by (pose proof (lenZ_nonneg r); lia).
    pose proof (pow10_pos (lenZ r) (lenZ_nonneg r)). nia.
Qed.

Lemma digits_same_len l1 : forall l2, length l1 = length l2 -> digits_ok 10 l1 -> digits_ok 10 l2 ->
  val_be 10 l1 = val_be 10 l2 -> l1 = l2.
Proof.
  induction l1 as [|x r IH]; intros [|y r'] Hl H1 H2 Hv; try discriminate; [reflexivity|].
  inversion H1 as [|? ? Hx Hr]; subst. inversion H2 as [|? ? Hy Hr']; subst.
  injection Hl as Hl. rewrite !val_be_cons in Hv.
  assert (El : lenZ r = lenZ r') by (unfold lenZ; lia). rewrite El in Hv.
  pose proof (val_be_bound r Hr) as B1. pose proof (val_be_bound r' Hr') as B2. rewrite El in B1.
  set (P := 10 ^ lenZ r') in *.
  assert (x = y) by nia. subst y. f_equal. apply IH; try assumption. lia.
Qed.

Lemma digits_lower x r : digits_ok 10 (x :: r) -> x <> 0 -> 10 ^ lenZ r <= val_be 10 (x :: r).
Proof.
  intros H Hx. inversion H as [|? ? Hd Hr]; subst. rewrite val_be_cons.
  pose proof (val_be_bound r Hr). pose proof (pow10_pos (lenZ r) (lenZ_nonneg r)). nia.
Qed.

Lemma digits_canon_unique x r y r' : digits_ok 10 (x :: r) -> digits_ok 10 (y :: r') -> x <> 0 -> y <> 0 ->
  val_be 10 (x :: r) = val_be 10 (y :: r') -> x :: r = y :: r'.
Proof.
  intros H1 H2 Hx Hy Hv.
  assert (G : forall a s c s', digits_ok 10 (a :: s) -> digits_ok 10 (c :: s') -> c <> 0 ->
              val_be 10 (a :: s) = val_be 10 (c :: s') -> (length s' <= length s)%nat).
  { intros a s c s' K1 K2 Kc Kv. destruct (le_lt_dec (length s') (length s)) as [L|L]; [exact L|]. exfalso.
    pose proof (val_be_bound _ K1) as B1. pose proof (digits_lower _ _ K2 Kc) as B2.
    assert (10 ^ lenZ (a :: s) <= 10 ^ lenZ s') by (apply Z.pow_le_mono_r; [lia | rewrite lenZ_cons; unfold lenZ; lia]).
    lia. }
  apply digits_same_len; try assumption. cbn [length]. f_equal. apply Nat.le_antisymm.
  - apply (G y r' x r); auto.
  - apply (G x r y r'); auto.
Qed.

Lemma zeros_length n : length (zeros n) = Z.to_nat n.
Proof. unfold zeros. induction (Z.to_nat n) as [|k IH]; cbn; [reflexivity | rewrite IH; reflexivity]. Qed.

Lemma lenZ_zeros n : 0 <= n -> lenZ (zeros n) = n.
Proof. intros H. unfold lenZ. rewrite zeros_length. lia. Qed.

Lemma replicate_app {A} a b (x : A) : replicate a x ++ replicate b x = replicate (a + b) x.
Proof. induction a as [|a IH]; cbn; [reflexivity | rewrite IH; reflexivity]. Qed.

Lemma zeros_app a b : 0 <= a -> 0 <= b -> zeros a ++ zeros b = zeros (a + b).
Proof. intros Ha Hb. unfold zeros. rewrite replicate_app, Z2Nat.inj_add by lia. reflexivity. Qed.

Lemma zeros_ok n : digits_ok 10 (zeros n).
Proof. unfold zeros, digits_ok. induction (Z.to_nat n) as [|k IH]; cbn; constructor; [lia | exact IH]. Qed.

Lemma val_be_zeros n : val_be 10 (zeros n) = 0.
Proof. unfold zeros. induction (Z.to_nat n) as [|k IH]; [reflexivity|]. cbn [replicate]. rewrite val_be_cons, IH. lia. Qed.

Lemma digits_ok_app a b : digits_ok 10 a -> digits_ok 10 b -> digits_ok 10 (a ++ b).
Proof. unfold digits_ok. intros. apply Forall_app. split; assumption. Qed.

Lemma nat_digits_pos_head n : 0 < n -> exists x r, nat_digits 10 n = x :: r /\ x <> 0.
Proof.
  intros Hn. destruct n as [|p|p]; try lia. unfold nat_digits.
  pose proof (pos_digits_le_last 10 p ltac:(lia)) as L. rewrite <- hd_rev_last in L.
  destruct (rev (pos_digits_le 10 p)) as [|x r] eqn:E.
  - exfalso. apply (pos_digits_le_nonempty 10 p). apply (f_equal (@rev Z)) in E. rewrite rev_involutive in E. exact E.
  - exists x, r. split; [reflexivity | exact L].
Qed.

(* the digits of q * 10^k *)
Lemma nat_digits_shift q k : 0 < q -> 0 <= k -> nat_digits 10 (q * 10 ^ k) = nat_digits 10 q ++ zeros k.
Proof.
  intros Hq Hk. pose proof (pow10_pos k Hk) as Pk.
  destruct (nat_digits_pos_head q Hq) as (x & r & E1 & Hx).
  destruct (nat_digits_pos_head (q * 10 ^ k) ltac:(nia)) as (y & r' & E2 & Hy).
  destruct (nat_digits_spec 10 q ltac:(lia) ltac:(lia)) as (V1 & O1 & _).
  destruct (nat_digits_spec 10 (q * 10 ^ k) ltac:(lia) ltac:(nia)) as (V2 & O2 & _).
  rewrite E2, E1 in *. cbn [app]. apply digits_canon_unique; try assumption.
  - change (x :: r ++ zeros k) with ((x :: r) ++ zeros k). apply digits_ok_app; [exact O1 | apply zeros_ok].
  - change (x :: r ++ zeros k) with ((x :: r) ++ zeros k).
    rewrite val_be_app, V1, V2, val_be_zeros, lenZ_zeros by lia. lia.
Qed.

(* ------------------------------------------------------------------------------------------ *)
(* the text of %.*f depends on the value only through Q                                        *)
(* ------------------------------------------------------------------------------------------ *)

Definition fixed_text (prec Q : Z) : bytes :=
  let ds0 := nat_digits 10 Q in
  let ds := zeros (prec + 1 - lenZ ds0) ++ ds0 in
  let ni := (length ds - Z.to_nat prec)%nat in
  dec_chars (firstn ni ds) ++ (if prec =? 0 then [] else 46 :: dec_chars (skipn ni ds)).

Lemma norm_prec_nonneg prec : 0 <= prec -> norm_prec prec = prec.
Proof. intros H. unfold norm_prec. replace (prec <? 0) with false by (symmetry; apply Z.ltb_ge; lia). reflexivity. Qed.

Theorem fmt_f_canon prec b : b64_is_finite b = true -> 0 <= prec ->
  fmt_f prec b = sign_text b ++ fixed_text prec (Qof prec b).
Proof.
  intros Hfin Hp. destruct (Qof_spec prec b Hfin Hp) as [_ Hq].
  unfold fmt_f. rewrite (norm_prec_nonneg prec Hp), Hfin. cbn [negb]. cbv zeta. f_equal.
  unfold fixed_text, Qof. fold (pprime prec b). set (p' := pprime prec b) in *.
  assert (Hp' : 0 <= p' <= prec) by (unfold p', pprime; lia).
  set (q := scaled_rne (b64_m b) (b64_e b) (- p')) in *. set (c := prec - p').
  assert (Hc : 0 <= c) by (unfold c; lia).
  set (dsb := zeros (p' + 1 - lenZ (nat_digits 10 q)) ++ nat_digits 10 q).
  assert (Eds : zeros (prec + 1 - lenZ (nat_digits 10 (q * 10 ^ c))) ++ nat_digits 10 (q * 10 ^ c) = dsb ++ zeros c).
  { unfold dsb. assert (Hq0 : q = 0 \/ 0 < q) by lia. destruct Hq0 as [E | Hq0].
    - rewrite E, Z.mul_0_l. cbn [nat_digits]. change (lenZ [0]) with 1. change [0] with (zeros 1).
      rewrite <- app_assoc. rewrite !zeros_app by lia. f_equal. unfold c. lia.
    - rewrite (nat_digits_shift q c Hq0 Hc), lenZ_app, lenZ_zeros by lia.
      rewrite <- app_assoc. f_equal. f_equal. unfold c. lia. }
  rewrite Eds.
  assert (En : (length (dsb ++ zeros c) - Z.to_nat prec = length dsb - Z.to_nat p')%nat).
  { rewrite app_length, zeros_length. replace prec with (p' + c) by (unfold c; lia). rewrite Z2Nat.inj_add by lia. lia. }
  rewrite En. set (ni := (length dsb - Z.to_nat p')%nat).
  assert (Hni : (ni <= length dsb)%nat) by (unfold ni; lia).
  rewrite firstn_app, skipn_app. replace (ni - length dsb)%nat with 0%nat by lia.
  cbn [firstn skipn]. rewrite app_nil_r. reflexivity.
Qed.

Lemma fixed_text_shape prec Q : 0 <= prec -> 0 <= Q -> exists I Fr,
  fixed_text prec Q = dec_chars I ++ (if prec =? 0 then [] else 46 :: dec_chars Fr) /\
  I <> [] /\ digits_ok 10 (I ++ Fr) /\ lenZ Fr = prec /\ val_be 10 (I ++ Fr) = Q.
Proof.
  intros Hp HQ. unfold fixed_text. destruct (nat_digits_spec 10 Q ltac:(lia) HQ) as (V & O & Hne).
  set (ds0 := nat_digits 10 Q) in *. set (ds := zeros (prec + 1 - lenZ ds0) ++ ds0).
  set (ni := (length ds - Z.to_nat prec)%nat).
  assert (Hlen : (Z.to_nat prec + 1 <= length ds)%nat).
  { unfold ds. rewrite app_length, zeros_length. unfold lenZ. lia. }
  exists (firstn ni ds), (skipn ni ds). split; [reflexivity|]. split; [|split; [|split]].
  - intros E. apply (f_equal (@length Z)) in E. rewrite firstn_length in E. cbn in E. lia.
  - rewrite firstn_skipn. apply digits_ok_app; [apply zeros_ok | exact O].
  - unfold lenZ. rewrite skipn_length. lia.
  - rewrite firstn_skipn. unfold ds. rewrite val_be_app, val_be_zeros, V. lia.
Qed.

(* ------------------------------------------------------------------------------------------ *)
(* libconfig_format_double after the snprintf, and strtod on its result                        *)
(* ------------------------------------------------------------------------------------------ *)

Definition post (full : bytes) : bytes :=
  let buf := firstn 60 full in
  if existsb (Z.eqb 101) buf then buf
  else
    match find_index (Z.eqb 46) buf with
    | None => buf ++ [46; 48]
    | Some i => let keep := S (S i) in firstn keep buf ++ strip_trailing 48 (skipn keep buf)
    end.

Lemma format_double_post b prec : format_double b prec false 64 = post (fmt_f prec b).
Proof. reflexivity. Qed.

Lemma existsb_none {A} (p : A -> bool) l : (forall x, In x l -> p x = false) -> existsb p l = false.
Proof.
  induction l as [|a r IH]; intros H; [reflexivity|]. cbn [existsb]. rewrite (H a (or_introl eq_refl)), IH; [reflexivity|].
  intros x Hx. apply H. right. exact Hx.
Qed.

Lemma find_index_none {A} (p : A -> bool) l : (forall x, In x l -> p x = false) -> find_index p l = None.
Proof.
  induction l as [|a r IH]; intros H; [reflexivity|]. cbn [find_index]. rewrite (H a (or_introl eq_refl)), IH; [reflexivity|].
  intros x Hx. apply H. right. exact Hx.
Qed.

Lemma find_index_first {A} (p : A -> bool) a y r : (forall x, In x a -> p x = false) -> p y = true ->
  find_index p (a ++ y :: r) = Some (length a).
Proof.
  induction a as [|x a' IH]; intros H Hy; cbn [app find_index length].
  - rewrite Hy. reflexivity.
  - rewrite (H x (or_introl eq_refl)), IH; [reflexivity | | exact Hy]. intros z Hz. apply H. right. exact Hz.
Qed.

Lemma dec_chars_range l c : digits_ok 10 l -> In c (dec_chars l) -> 48 <= c <= 57.
Proof.
  intros Ho Hc. unfold dec_chars in Hc. apply in_map_iff in Hc as (d & <- & Hd).
  unfold digits_ok in Ho. rewrite Forall_forall in Ho. specialize (Ho d Hd). unfold dec_char. lia.
Qed.

Lemma dec_chars_app a b : dec_chars (a ++ b) = dec_chars a ++ dec_chars b.
Proof. apply map_app. Qed.

Lemma dec_chars_digits l : digits_ok 10 l -> forallb is_digit (dec_chars l) = true.
Proof.
  intros Ho. apply forallb_forall. intros c Hc. pose proof (dec_chars_range l c Ho Hc) as R.
  unfold is_digit. apply andb_true_iff. split; apply Z.leb_le; lia.
Qed.

Lemma undec_chars l : map (fun c => c - 48) (dec_chars l) = l.
Proof. unfold dec_chars. rewrite map_map. rewrite <- (map_id l) at 2. apply map_ext. intros d. unfold dec_char. lia. Qed.

Lemma replicate_snoc {A} k (x : A) : replicate k x ++ [x] = replicate (S k) x.
Proof. induction k as [|k IH]; cbn; [reflexivity | rewrite IH; reflexivity]. Qed.

Lemma strip_trailing_dec l : exists l' k, 0 <= k /\ l = l' ++ zeros k /\ strip_trailing 48 (dec_chars l) = dec_chars l'.
Proof.
  induction l as [|x a IH] using rev_ind.
  - exists [], 0. split; [lia|]. split; reflexivity.
  - unfold strip_trailing. rewrite dec_chars_app, rev_app_distr. change (dec_chars [x]) with [dec_char x].
    cbn [rev app drop_char].
    destruct (dec_char x =? 48) eqn:E.
    + apply Z.eqb_eq in E. assert (x = 0) by (unfold dec_char in E; lia). subst x.
      destruct IH as (l' & k & Hk & El & Es). exists l', (k + 1). split; [lia|]. split.
      * rewrite El at 1. rewrite <- app_assoc. f_equal. change [0] with (zeros 1). apply zeros_app; lia.
      * exact Es.
    + exists (a ++ [x]), 0. split; [lia|]. split.
      * change (zeros 0) with (@nil Z). rewrite app_nil_r. reflexivity.
      * cbn [rev]. rewrite rev_involutive, dec_chars_app. reflexivity.
Qed.

Definition is_sign (sg : bytes) : Prop := sg = [] \/ sg = [45].

(* the zero-stripped text: the digits after the point are at least one, and denote the same number *)
Lemma post_shape sg I Fr prec :
  is_sign sg -> digits_ok 10 (I ++ Fr) -> lenZ Fr = prec ->
  let full := sg ++ dec_chars I ++ (if prec =? 0 then [] else 46 :: dec_chars Fr) in
  (length full <= 60)%nat ->
  exists Fd, post full = sg ++ dec_chars I ++ 46 :: dec_chars Fd /\ Fd <> [] /\ digits_ok 10 Fd /\
             lenZ Fd <= 60 /\
             val_be 10 (I ++ Fd) * 10 ^ prec = val_be 10 (I ++ Fr) * 10 ^ lenZ Fd.
Proof.
  intros Hsg Ho Hlen full Hfull. unfold digits_ok in Ho. apply Forall_app in Ho as [HoI HoF].
  fold (digits_ok 10 I) in HoI. fold (digits_ok 10 Fr) in HoF.
  assert (Hsgc : forall c, In c sg -> c = 45) by (intros c Hc; destruct Hsg as [-> | ->]; cbn in Hc; intuition).
  unfold post. rewrite (firstn_all2 full) by exact Hfull.
  assert (He : existsb (Z.eqb 101) full = false).
  { apply existsb_none. intros c Hc. unfold full in Hc. apply Z.eqb_neq.
    apply in_app_or in Hc as [Hc | Hc]; [apply Hsgc in Hc; lia|].
    apply in_app_or in Hc as [Hc | Hc]; [apply (dec_chars_range _ _ HoI) in Hc; lia|].
    destruct (prec =? 0); [destruct Hc|]. destruct Hc as [<- | Hc]; [lia|]. apply (dec_chars_range _ _ HoF) in Hc; lia. }
  rewrite He.
  assert (Hno : forall c, In c (sg ++ dec_chars I) -> (46 =? c) = false).
  { intros c Hc. apply Z.eqb_neq. apply in_app_or in Hc as [Hc | Hc]; [apply Hsgc in Hc; lia|].
    apply (dec_chars_range _ _ HoI) in Hc; lia. }
  destruct (prec =? 0) eqn:Ep.
  - apply Z.eqb_eq in Ep. assert (Fr = []) by (destruct Fr; [reflexivity | rewrite lenZ_cons in Hlen; pose proof (lenZ_nonneg Fr); lia]).
    subst Fr. unfold full. rewrite app_nil_r. rewrite (find_index_none _ _ Hno).
    exists [0]. split; [rewrite <- app_assoc; reflexivity|]. split; [discriminate|].
    split; [repeat constructor; lia|]. split; [cbn; lia|].
    rewrite Ep, app_nil_r, val_be_app. change (lenZ [0]) with 1. change (val_be 10 [0]) with 0. lia.
  - apply Z.eqb_neq in Ep. unfold full. rewrite app_assoc.
    rewrite (find_index_first _ _ 46 (dec_chars Fr) Hno eq_refl).
    set (A := sg ++ dec_chars I).
    destruct Fr as [|f0 Fr']; [cbn in Hlen; lia|].
    change (dec_chars (f0 :: Fr')) with (dec_char f0 :: dec_chars Fr').
    rewrite firstn_app, skipn_app. rewrite (firstn_all2 A) by lia. rewrite (skipn_all2 A) by lia.
    replace (S (S (length A)) - length A)%nat with 2%nat by lia. cbn [firstn skipn app].
    destruct (strip_trailing_dec Fr') as (l' & k & Hk & El & Es). rewrite Es.
    exists (f0 :: l'). split; [unfold A; rewrite <- !app_assoc; reflexivity|]. split; [discriminate|].
    inversion HoF as [|? ? Hf0 HoF']; subst.
    unfold digits_ok in HoF'. apply Forall_app in HoF' as [Hol' _].
    split; [constructor; assumption|].
    assert (Hfl : (length (f0 :: l' ++ zeros k) <= 60)%nat).
    { unfold full in Hfull. rewrite !app_length in Hfull. cbn [length] in Hfull. unfold dec_chars in Hfull.
      rewrite !map_length in Hfull. cbn [length] in Hfull |- *. lia. }
    split; [revert Hfl; unfold lenZ; cbn [length]; rewrite app_length; lia|].
    change (f0 :: l' ++ zeros k) with ((f0 :: l') ++ zeros k). rewrite (app_assoc I), (val_be_app (I ++ f0 :: l')).
    rewrite val_be_zeros, (lenZ_app (f0 :: l')), !lenZ_zeros by lia.
    rewrite Z.pow_add_r by (try apply lenZ_nonneg; lia). ring.
Qed.

(* ---- strtod on [-]digits.digits ---- *)
Lemma digit_not_space c : 48 <= c <= 57 -> is_space c = false.
Proof.
  intros H. unfold is_space. apply orb_false_iff. split; [apply Z.eqb_neq; lia|].
  apply andb_false_iff. right. apply Z.leb_gt. lia.
Qed.

Lemma opt_sign_digit c r : 48 <= c <= 57 -> opt_sign (c :: r) = (false, c :: r).
Proof.
  intros H. unfold opt_sign. destruct c as [|p|p]; try lia; try reflexivity.
  do 6 (destruct p as [p|p|]; try reflexivity; try lia).
Qed.

Lemma no_prefix_digit x p c r : 97 <= x -> 48 <= c <= 57 -> has_prefix_ci (x :: p) (c :: r) = false.
Proof.
  intros Hx Hc. cbn [has_prefix_ci]. apply andb_false_iff. left. apply Z.eqb_neq.
  unfold lower_char, is_upper. replace (65 <=? c) with false by (symmetry; apply Z.leb_gt; lia). cbn [andb]. lia.
Qed.

Lemma strtod_body_digit neg c r :
  48 <= c <= 57 -> (forall x r', r = x :: r' -> (x =? 120) || (x =? 88) = false) ->
  match c :: r with
  | 48 :: x :: r' => if (x =? 120) || (x =? 88) then strtod_hex neg r' else strtod_dec neg (c :: r)
  | _ => strtod_dec neg (c :: r)
  end = strtod_dec neg (c :: r).
Proof.
  intros Hc Hx. destruct r as [|x r'].
  - destruct c as [|p|p]; try reflexivity. do 6 (destruct p as [p|p|]; try reflexivity).
  - destruct c as [|p|p]; try reflexivity. do 6 (destruct p as [p|p|]; try reflexivity).
    rewrite (Hx x r' eq_refl). reflexivity.
Qed.

Lemma strtod_bits_digit c r :
  48 <= c <= 57 -> (forall x r', r = x :: r' -> (x =? 120) || (x =? 88) = false) ->
  strtod_bits (c :: r) = strtod_dec false (c :: r) /\ strtod_bits (45 :: c :: r) = strtod_dec true (c :: r).
Proof.
  intros Hc Hx. unfold strtod_bits. split.
  - pose proof (strtod_body_digit false c r Hc Hx) as B.
    cbn [span]. rewrite (digit_not_space c Hc). rewrite (opt_sign_digit c r Hc). cbv beta iota.
    rewrite (no_prefix_digit 105 [110; 102] c r ltac:(lia) Hc), (no_prefix_digit 110 [97; 110] c r ltac:(lia) Hc). cbv beta iota in B |- *. exact B.
  - pose proof (strtod_body_digit true c r Hc Hx) as B.
    cbn [span]. change (is_space 45) with false. cbv beta iota. change (opt_sign (45 :: c :: r)) with (true, c :: r). cbv beta iota.
    rewrite (no_prefix_digit 105 [110; 102] c r ltac:(lia) Hc), (no_prefix_digit 110 [97; 110] c r ltac:(lia) Hc). cbv beta iota in B |- *. exact B.
Qed.

Lemma strtod_dec_shape neg I Fd : I <> [] -> digits_ok 10 I -> digits_ok 10 Fd ->
  strtod_dec neg (dec_chars I ++ 46 :: dec_chars Fd) = b64_of_decimal neg (I ++ Fd) (- lenZ Fd).
Proof.
  intros Hne HoI HoF. unfold strtod_dec.
  rewrite (span_app_stop is_digit (dec_chars I) 46 (dec_chars Fd) (dec_chars_digits I HoI) eq_refl).
  cbv iota beta. rewrite (span_all_nil is_digit (dec_chars Fd) (dec_chars_digits Fd HoF)).
  destruct I as [|i0 I']; [congruence|].
  change (dec_chars (i0 :: I') ++ dec_chars Fd) with (dec_char i0 :: (dec_chars I' ++ dec_chars Fd)).
  cbv iota beta. cbn [exp_part]. cbv zeta.
  change (dec_char i0 :: dec_chars I' ++ dec_chars Fd) with (dec_chars (i0 :: I') ++ dec_chars Fd).
  rewrite <- dec_chars_app, undec_chars. f_equal.
  unfold lenZ, dec_chars. rewrite map_length. lia.
Qed.

Theorem strtod_shape sg I Fd : is_sign sg -> I <> [] -> digits_ok 10 I -> Fd <> [] -> digits_ok 10 Fd ->
  strtod_bits (sg ++ dec_chars I ++ 46 :: dec_chars Fd) =
  b64_of_decimal (match sg with [] => false | _ => true end) (I ++ Fd) (- lenZ Fd).
Proof.
  intros Hsg Hne HoI HneF HoF. rewrite <- (strtod_dec_shape _ I Fd Hne HoI HoF).
  destruct I as [|i0 I']; [congruence|]. inversion HoI as [|? ? Hi0 HoI']; subst.
  change (dec_chars (i0 :: I') ++ 46 :: dec_chars Fd) with (dec_char i0 :: (dec_chars I' ++ 46 :: dec_chars Fd)).
  assert (Hc : 48 <= dec_char i0 <= 57) by (unfold dec_char; lia).
  assert (Hx : forall x r', dec_chars I' ++ 46 :: dec_chars Fd = x :: r' -> (x =? 120) || (x =? 88) = false).
  { intros x r' E. assert (Hin : In x (dec_chars I' ++ 46 :: dec_chars Fd)) by (rewrite E; left; reflexivity).
    apply orb_false_iff. split; apply Z.eqb_neq.
    - apply in_app_or in Hin as [Hin | [<- | Hin]]; [apply (dec_chars_range _ _ HoI') in Hin; lia | lia |
        apply (dec_chars_range _ _ HoF) in Hin; lia].
    - apply in_app_or in Hin as [Hin | [<- | Hin]]; [apply (dec_chars_range _ _ HoI') in Hin; lia | lia |
        apply (dec_chars_range _ _ HoF) in Hin; lia]. }
  destruct (strtod_bits_digit (dec_char i0) _ Hc Hx) as [E1 E2].
  destruct Hsg as [-> | ->]; [exact E1 | exact E2].
Qed.

(* ------------------------------------------------------------------------------------------ *)
(* the sign bit                                                                                *)
(* ------------------------------------------------------------------------------------------ *)

Definition sgn_bits (neg : bool) : Z := if neg then two63 else 0.
Definition sgn_text (neg : bool) : bytes := if neg then [45] else [].

Lemma sgn_add neg bits : 0 <= bits < two63 ->
  let y := sgn_bits neg + bits in
  b64_exp y = b64_exp bits /\ b64_man y = b64_man bits /\ sign_text y = sgn_text neg.
Proof.
  intros Hb. cbv zeta. destruct neg; unfold sgn_bits, sgn_text.
  - assert (E63 : two63 = 2048 * two52) by reflexivity. split; [|split].
    + unfold b64_exp. rewrite E63, Z.div_add_l by (unfold two52; lia).
      rewrite <- (Z.mul_1_l 2048) at 1. rewrite Z.add_comm, Z.mod_add by lia. reflexivity.
    + unfold b64_man. rewrite E63, Z.add_comm, Z.mod_add by (unfold two52; lia). reflexivity.
    + unfold sign_text, b64_sign. rewrite <- (Z.mul_1_l two63) at 1. rewrite Z.div_add_l by (unfold two63; lia).
      rewrite Z.div_small by lia. reflexivity.
  - rewrite Z.add_0_l. split; [reflexivity|]. split; [reflexivity|].
    unfold sign_text, b64_sign. rewrite Z.div_small by lia. reflexivity.
Qed.

(* ------------------------------------------------------------------------------------------ *)
(* strtod returns the double nearest to the decimal                                            *)
(* ------------------------------------------------------------------------------------------ *)

Lemma drop_zeros_val D : val_be 10 (drop_zeros D) = val_be 10 D.
Proof.
  induction D as [|x r IH]; [reflexivity|]. destruct x as [|p|p]; try reflexivity.
  cbn [drop_zeros]. rewrite IH, val_be_cons. lia.
Qed.

Lemma drop_zeros_ok D : digits_ok 10 D -> digits_ok 10 (drop_zeros D).
Proof.
  induction 1 as [|x r Hx Hr IH]; [constructor|]. destruct x as [|p|p]; cbn [drop_zeros]; [exact IH | |]; constructor; assumption.
Qed.

Lemma drop_zeros_len D : (length (drop_zeros D) <= length D)%nat.
Proof. induction D as [|x r IH]; [cbn; lia|]. destruct x as [|p|p]; cbn [drop_zeros length]; lia. Qed.

Lemma drop_zeros_head D : drop_zeros D = [] \/ exists x r, drop_zeros D = x :: r /\ x <> 0.
Proof.
  induction D as [|x r IH]; [left; reflexivity|]. destruct x as [|p|p]; cbn [drop_zeros]; [exact IH | |];
    right; eexists _, _; (split; [reflexivity | discriminate]).
Qed.

Lemma rne_decimal_scaled d L u mant : -1074 <= u -> 0 < L -> rne_decimal d L u mant ->
  is_rne (d * T) (10 ^ L * 2 ^ (u + 1074)) mant.
Proof.
  intros Hu HL. unfold rne_decimal. rewrite (pow10_split L) by lia. destruct (0 <=? u + L) eqn:E.
  - apply Z.leb_le in E. intros H. apply (is_rne_scale _ _ T _ T_pos) in H. revert H. apply is_rne_eq; [reflexivity|].
    rewrite <- Z.mul_assoc, <- pow2_T by lia. replace (u + L + 1074) with (L + (u + 1074)) by lia.
    rewrite pow2_add by lia. ring.
  - apply Z.leb_gt in E. intros H.
    apply (is_rne_scale _ _ (2 ^ (u + L + 1074)) _ (pow2_pos (u + L + 1074) ltac:(lia))) in H.
    revert H. apply is_rne_eq.
    + rewrite <- Z.mul_assoc, <- pow2_add by lia. replace (- (u + L) + (u + L + 1074)) with (0 + 1074) by lia.
      rewrite pow2_T, Z.pow_0_r by lia. ring.
    + replace (u + L + 1074) with (L + (u + 1074)) by lia. rewrite pow2_add by lia. ring.
Qed.

(* among the integer multiples of A, the rne one is nearest *)
Lemma is_rne_nearest R A r c : 0 < A -> is_rne R A r -> Z.abs (r * A - R) <= Z.abs (c * A - R).
Proof.
  intros HA [H _].
  assert (Hc : c = r \/ c <= r - 1 \/ r + 1 <= c) by lia. destruct Hc as [-> | [Hc | Hc]]; [lia | |].
  - assert (c * A <= r * A - A) by nia. lia.
  - assert (r * A + A <= c * A) by nia. lia.
Qed.

Lemma pow10_130 : 10 ^ 130 < 2 ^ 440.
Proof. reflexivity. Qed.

Theorem b64_of_decimal_nearest neg D L :
  digits_ok 10 D -> (length D <= 130)%nat -> 1 <= L <= 100 ->
  let y := b64_of_decimal neg D (- L) in
  b64_is_finite y = true /\ sign_text y = sgn_text neg /\
  forall m k, 0 <= m < two53 -> 0 <= k ->
    Z.abs (Vof y * 10 ^ L - val_be 10 D * T) <= Z.abs (m * 2 ^ k * 10 ^ L - val_be 10 D * T).
Proof.
  intros Ho Hlen HL. cbv zeta.
  pose proof (drop_zeros_val D) as Ev. pose proof (drop_zeros_ok D Ho) as Ho0. pose proof (drop_zeros_len D) as Hl0.
  pose proof (pow10_pos L ltac:(lia)) as PL. pose proof T_pos as PT.
  destruct (drop_zeros_head D) as [E0 | (x0 & r0 & E0 & Hnz0)].
  - (* the decimal is zero *)
    assert (Ey : b64_of_decimal neg D (- L) = sgn_bits neg) by (unfold b64_of_decimal; rewrite E0; reflexivity).
    rewrite Ey. rewrite E0 in Ev. change (val_be 10 []) with 0 in Ev. rewrite <- Ev.
    destruct neg; (split; [reflexivity|]; split; [reflexivity|]); intros m k Hm Hk;
      pose proof (pow2_pos k Hk); (replace (Vof _) with 0 by reflexivity); rewrite !Z.mul_0_l, !Z.sub_0_r; cbn [Z.abs]; nia.
  - (* a positive decimal *)
    set (d := val_be 10 D) in *.
    assert (Hd : 0 < d).
    { rewrite <- Ev, E0. rewrite E0 in Ho0. pose proof (digits_lower x0 r0 Ho0 Hnz0).
      pose proof (pow10_pos (lenZ r0) (lenZ_nonneg r0)). lia. }
    assert (Hdub : d < 2 ^ 440).
    { pose proof (val_be_bound D Ho) as B. fold d in B. apply Z.lt_trans with (10 ^ 130); [|exact pow10_130].
      apply Z.lt_le_trans with (10 ^ lenZ D); [lia|]. apply Z.pow_le_mono_r; [lia | unfold lenZ; lia]. }
    pose proof (b64_of_decimal_unfold neg D (- L)) as U. cbv zeta in U.
    assert (Hne : drop_zeros D <> []) by (rewrite E0; discriminate).
    assert (Hskip : skipn dec_max_digits (drop_zeros D) = []) by (apply skipn_all2; unfold dec_max_digits; lia).
    assert (Hwin : -400 <= lenZ (drop_zeros D) + - L <= 400).
    { assert (1 <= lenZ (drop_zeros D) <= 130) by (unfold lenZ; rewrite E0 in *; cbn [length] in *; lia). lia. }
    specialize (U Hne Hskip Hwin).
    replace (0 <=? - L) with false in U by (symmetry; apply Z.leb_gt; lia).
    rewrite Z.opp_involutive in U. change (dval (drop_zeros D)) with (val_be 10 (drop_zeros D)) in U. rewrite Ev in U.
    fold (sgn_bits neg) in U.
    pose proof (decimal_neg_canonical d L Hd ltac:(lia)) as C. cbv zeta in C.
    set (bq := 5 ^ L) in *. set (j := Z.max 0 (57 + Z.log2 bq - Z.log2 d)) in *. set (N := d * 2 ^ j) in *.
    set (x := 2 * (N / bq) + (if N mod bq =? 0 then 0 else 1)) in *. set (t := - L - j - 1) in *.
    assert (Hbq : 0 < bq) by (apply pow5_pos; lia).
    assert (Hj : 0 <= j) by (unfold j; lia).
    pose proof (pow2_pos j Hj) as Pj.
    assert (Hlbq : Z.log2 bq < 300).
    { apply Z.log2_lt_pow2; [exact Hbq|]. apply Z.lt_le_trans with (2 ^ (3 * L)).
      - rewrite Z.pow_mul_r by lia. change (2 ^ 3) with 8. apply Z.pow_lt_mono_l; lia.
      - apply pow2_le. lia. }
    assert (Hjub : j <= 357) by (unfold j; pose proof (Z.log2_nonneg d); lia).
    assert (HN : 0 < N) by (unfold N; nia).
    (* the quotient has at least 57 bits (as in RoundSpec.decimal_neg_correct) *)
    assert (HNbig : 2 ^ 56 * bq <= N).
    { pose proof (Z.log2_spec bq Hbq) as [_ Lb]. pose proof (Z.log2_spec d Hd) as [Ld _].
      pose proof (Z.log2_nonneg bq) as Lb0. pose proof (Z.log2_nonneg d) as Ld0.
      assert (E1 : 2 ^ (57 + Z.log2 bq) <= d * 2 ^ j).
      { apply Z.le_trans with (2 ^ (Z.log2 d) * 2 ^ j); [|nia]. rewrite <- pow2_add by lia. apply pow2_le. unfold j. lia. }
      assert (E2 : 2 ^ (57 + Z.log2 bq) = 2 ^ 56 * 2 ^ (Z.succ (Z.log2 bq))).
      { rewrite <- pow2_add by lia. f_equal. lia. }
      unfold N. pose proof (pow2_pos 56 ltac:(lia)). nia. }
    pose proof (Z.div_mod N bq ltac:(lia)) as Hdm. pose proof (Z.mod_pos_bound N bq Hbq) as Hrm.
    assert (Hq : 2 ^ 56 <= N / bq) by (apply Z.div_le_lower_bound; lia).
    assert (Hx57 : 2 ^ 57 <= x).
    { unfold x. change (2 ^ 57) with (2 * 2 ^ 56). destruct (N mod bq =? 0); lia. }
    assert (Hx0 : 0 < x) by (pose proof (pow2_pos 57 ltac:(lia)); lia).
    assert (Hlx : 57 <= Z.log2 x) by (apply Z.log2_le_pow2; [exact Hx0 | exact Hx57]).
    pose proof (Z.log2_spec x Hx0) as [Lx1 Lx2]. set (lx := Z.log2 x) in *.
    (* twice the exact quotient is at least 2^lx *)
    assert (Hlow : 2 ^ lx * bq <= 2 * N).
    { assert (Ep : 2 ^ lx = 2 * 2 ^ (lx - 1)).
      { replace lx with (1 + (lx - 1)) at 1 by lia. rewrite pow2_add by lia. reflexivity. }
      pose proof (pow2_pos (lx - 1) ltac:(lia)) as Pl.
      assert (2 ^ (lx - 1) <= N / bq) by (unfold x in Lx1; destruct (N mod bq =? 0); lia). nia. }
    (* the binary exponent is small *)
    assert (Hxub : x < 2 ^ (442 + j)).
    { assert (N / bq <= N) by (apply Z.div_le_upper_bound; [lia | nia]).
      assert (x <= 2 * N + 1) by (unfold x; destruct (N mod bq =? 0); lia).
      replace (442 + j) with (2 + (440 + j)) by lia. rewrite pow2_add, (pow2_add 440 j) by lia.
      change (2 ^ 2) with 4. unfold N in *. nia. }
    assert (Hlxub : lx < 442 + j) by (apply Z.log2_lt_pow2; [exact Hx0 | exact Hxub]).
    specialize (C ltac:(unfold t; lia) ltac:(unfold t; lia)).
    destruct C as (mant & Hr & Hm & Hden & Hres).
    set (u := ulp_exp x t) in *.
    assert (Hu : -1074 <= u <= 970) by (unfold u, ulp_exp, t; fold lx; lia).
    cbv zeta in Hres.
    assert (T52 : two52 = 4503599627370496) by reflexivity. assert (T53 : two53 = 9007199254740992) by reflexivity.
    assert (T63 : two63 = 9223372036854775808) by reflexivity.
    set (bits := (u + 1074) * two52 + mant) in *.
    assert (Hbits : 0 <= bits < b64_inf_bits) by (unfold bits, b64_inf_bits; nia).
    replace (b64_inf_bits <=? bits) with false in Hres by (symmetry; apply Z.leb_gt; lia).
    rewrite Hres in U. rewrite U. clear U Hres.
    assert (Hb63 : 0 <= bits < two63) by (unfold b64_inf_bits in Hbits; lia).
    destruct (sgn_add neg bits Hb63) as (Eexp & Eman & Esign).
    pose proof (encode_value u mant ltac:(lia) Hm Hden) as EV. cbv zeta in EV. fold bits in EV. specialize (EV ltac:(lia)).
    assert (EVof : Vof (sgn_bits neg + bits) = mant * 2 ^ (u + 1074)).
    { unfold Vof, b64_m, b64_e. rewrite Eexp, Eman. exact EV. }
    split; [|split; [exact Esign|]].
    { unfold b64_is_finite. rewrite Eexp. apply negb_true_iff. apply Z.eqb_neq. unfold b64_exp.
      assert (bits / two52 < 2047) by (apply Z.div_lt_upper_bound; unfold b64_inf_bits in Hbits; lia).
      assert (0 <= bits / two52) by (apply Z.div_pos; lia). rewrite Z.mod_small by lia. lia. }
    rewrite EVof. clear EVof EV Eexp Eman Esign.
    pose proof (rne_decimal_scaled d L u mant ltac:(lia) ltac:(lia) Hr) as Hs.
    set (a := u + 1074) in *. assert (Ha : 0 <= a) by (unfold a; lia).
    pose proof (pow2_pos a Ha) as PW. set (W := 2 ^ a) in *.
    set (A := 10 ^ L * W) in *. assert (HA : 0 < A) by (unfold A; nia).
    set (R := d * T) in *.
    intros m k Hmr Hk.
    replace (mant * W * 10 ^ L) with (mant * A) by (unfold A; ring).
    destruct (Z_le_gt_dec a k) as [Hka | Hka].
    + (* a multiple of the ulp *)
      replace (m * 2 ^ k * 10 ^ L) with (m * 2 ^ (k - a) * A).
      * apply is_rne_nearest; assumption.
      * unfold A, W. replace k with ((k - a) + a) at 2 by lia. rewrite pow2_add by lia. ring.
    + (* a double below the binade of the result *)
      assert (Eu : u = lx + 1 + t - 53) by (unfold u, ulp_exp in *; fold lx in Hka |- *; unfold a in *; lia).
      assert (Hmant : two52 <= mant) by (destruct (Z_lt_le_dec mant two52) as [Q|Q]; [specialize (Hden Q); unfold a in *; lia | exact Q]).
      assert (HRlow : two52 * A <= R).
      { assert (El : lx + 1074 = a + L + j + 53) by (unfold a, t in *; lia).
        assert (E2 : 2 ^ lx * T = W * 2 ^ L * 2 ^ j * 2 ^ 53).
        { rewrite <- pow2_T, El by lia. unfold W. rewrite !pow2_add by lia. reflexivity. }
        assert (E3 : (two52 * A) * (2 * 2 ^ j) = 2 ^ lx * bq * T).
        { unfold A. rewrite (pow10_split L) by lia. fold bq. change (2 ^ 53) with (2 * two52) in E2.
          transitivity (bq * (W * 2 ^ L * 2 ^ j * (2 * two52))); [ring|]. rewrite <- E2. ring. }
        assert (E4 : R * (2 * 2 ^ j) = 2 * N * T) by (unfold R, N; ring).
        apply (Z.mul_le_mono_pos_r _ _ (2 * 2 ^ j)); [lia|]. rewrite E3, E4. apply Z.mul_le_mono_nonneg_r; lia. }
      assert (HV : m * 2 ^ k * 10 ^ L < two52 * A).
      { assert (Ea : W = 2 * 2 ^ (a - 1)).
        { unfold W. replace a with (1 + (a - 1)) at 1 by lia. rewrite pow2_add by lia. reflexivity. }
        assert (2 ^ k <= 2 ^ (a - 1)) by (apply pow2_le; lia).
        pose proof (pow2_pos k Hk). unfold A. rewrite Ea.
        assert (m * 2 ^ k < two52 * (2 * 2 ^ (a - 1))) by nia. nia. }
      pose proof (is_rne_nearest R A mant two52 HA Hs) as Hn. lia.
Qed.

(* ------------------------------------------------------------------------------------------ *)
(* grid rounding: the double nearest to a grid point rounds back to it                         *)
(* ------------------------------------------------------------------------------------------ *)

(* Vb, Vy: two values (units of 1/T); Q: Vb rounded half-even to the grid of step 1/P; d / G = Q / P the decimal read
   back; Vy at least as close to it as Vb is.  Then Vy rounds to Q too. *)
Theorem grid_return Vb Vy P G d Q :
  0 < P -> 0 < G ->
  is_rne (Vb * P) T Q -> d * P = Q * G ->
  Z.abs (Vy * G - d * T) <= Z.abs (Vb * G - d * T) ->
  is_rne (Vy * P) T Q.
Proof.
  intros HP HG [H1 H2] Ed Hn.
  assert (Ey : (Vy * G - d * T) * P = (Vy * P - Q * T) * G) by (transitivity (Vy * G * P - (d * P) * T); [ring | rewrite Ed; ring]).
  assert (Eb : (Vb * G - d * T) * P = (Vb * P - Q * T) * G) by (transitivity (Vb * G * P - (d * P) * T); [ring | rewrite Ed; ring]).
  assert (Hle : Z.abs (Vy * P - Q * T) <= Z.abs (Vb * P - Q * T)).
  { apply (Z.mul_le_mono_pos_r _ _ G HG). rewrite <- (Z.abs_eq G) at 1 2 by lia. rewrite <- !Z.abs_mul, <- Ey, <- Eb.
    rewrite !Z.abs_mul, (Z.abs_eq P) by lia. apply Z.mul_le_mono_nonneg_r; lia. }
  unfold is_rne. split; [lia|]. intros E. apply H2. lia.
Qed.

(* ------------------------------------------------------------------------------------------ *)
(* the theorem                                                                                 *)
(* ------------------------------------------------------------------------------------------ *)

Lemma fmt_f_norm prec b : fmt_f prec b = fmt_f (norm_prec prec) b.
Proof.
  unfold fmt_f. assert (E : norm_prec (norm_prec prec) = norm_prec prec).
  { unfold norm_prec. destruct (prec <? 0) eqn:E; [reflexivity | rewrite E; reflexivity]. }
  rewrite E. reflexivity.
Qed.

Lemma norm_prec_range prec : 0 <= norm_prec prec.
Proof. unfold norm_prec. destruct (prec <? 0) eqn:E; [lia | apply Z.ltb_ge in E; exact E]. Qed.

Lemma Vof_nonneg b : b64_is_finite b = true -> 0 <= Vof b.
Proof.
  intros H. unfold Vof. pose proof (b64_m_range b). pose proof (b64_e_range b H).
  pose proof (pow2_pos (b64_e b + 1074) ltac:(lia)). nia.
Qed.

(* the double read back from the stripped text renders like the first one *)
Theorem fmt_f_reread b prec :
  b64_is_finite b = true -> 0 <= prec -> (length (fmt_f prec b) <= 60)%nat ->
  fmt_f prec (strtod_bits (post (fmt_f prec b))) = fmt_f prec b.
Proof.
  intros Hfin Hp Hlen. rewrite (fmt_f_canon prec b Hfin Hp) in *.
  destruct (Qof_spec prec b Hfin Hp) as [HQ _]. set (Q := Qof prec b) in *.
  pose proof (pow10_pos prec Hp) as PP. pose proof T_pos as PT. pose proof (Vof_nonneg b Hfin) as HV.
  assert (HQ0 : 0 <= Q) by (apply (is_rne_nonneg (Vof b * 10 ^ prec) T Q); [nia | exact PT | exact HQ]).
  destruct (fixed_text_shape prec Q Hp HQ0) as (I & Fr & Etxt & HneI & Ho & HlenF & Hval).
  rewrite Etxt in *.
  set (sg := sign_text b) in *.
  assert (Hsg : is_sign sg) by (unfold sg, sign_text, is_sign; destruct (b64_sign b =? 1); auto).
  destruct (post_shape sg I Fr prec Hsg Ho HlenF Hlen) as (Fd & Epost & HneF & HoF & HlF & Hv).
  rewrite Epost.
  assert (HoI : digits_ok 10 I) by (unfold digits_ok in *; apply Forall_app in Ho; tauto).
  rewrite (strtod_shape sg I Fd Hsg HneI HoI HneF HoF).
  set (neg := match sg with [] => false | _ => true end).
  assert (Esg : sgn_text neg = sg) by (unfold neg; destruct Hsg as [-> | ->]; reflexivity).
  assert (HL : 1 <= lenZ Fd <= 100) by (destruct Fd; [congruence | rewrite lenZ_cons in *; pose proof (lenZ_nonneg Fd); lia]).
  assert (HlD : (length (I ++ Fd) <= 130)%nat).
  { rewrite app_length. rewrite !app_length in Hlen. unfold dec_chars in Hlen. rewrite map_length in Hlen. unfold lenZ in HlF. lia. }
  destruct (b64_of_decimal_nearest neg (I ++ Fd) (lenZ Fd) (digits_ok_app _ _ HoI HoF) HlD HL) as (Hfy & Hsy & Hnear).
  set (y := b64_of_decimal neg (I ++ Fd) (- lenZ Fd)) in *.
  rewrite (fmt_f_canon prec y Hfy Hp), Hsy, Esg, <- Etxt. f_equal. f_equal.
  destruct (Qof_spec prec y Hfy Hp) as [HQy _].
  apply (is_rne_unique (Vof y * 10 ^ prec) T _ _ PT HQy).
  apply (grid_return (Vof b) (Vof y) (10 ^ prec) (10 ^ lenZ Fd) (val_be 10 (I ++ Fd)) Q PP (pow10_pos (lenZ Fd) ltac:(lia)) HQ).
  - rewrite Hv, Hval. reflexivity.
  - unfold Vof at 2. apply Hnear; [apply b64_m_range | pose proof (b64_e_range b Hfin); lia].
Qed.

(* C01, floats, fixed notation.  The precision needs no bound: a rendering of at most 60 characters has at most 58
   digits after the point, and a negative precision is read as 6 by printf. *)
Theorem fixed_notation_stable b prec :
  b64_is_finite b = true ->
  (length (fmt_f prec b) <= 60)%nat ->                 (* the rendering is not cut (finding F1 otherwise) *)
  let t := format_double b prec false 64 in
  format_double (strtod_bits t) prec false 64 = t.
Proof.
  intros Hfin Hlen. cbv zeta. rewrite !format_double_post. f_equal.
  rewrite (fmt_f_norm prec b) in *. rewrite (fmt_f_norm prec (strtod_bits _)).
  apply fmt_f_reread; [exact Hfin | apply norm_prec_range | exact Hlen].
Qed.

(* ------------------------------------------------------------------------------------------ *)
(* in the vocabulary of WriteStable.v                                                          *)
(* ------------------------------------------------------------------------------------------ *)
From LC Require Import Tree TreeFacts LexWrite WriteStable Run.
From LC.gen Require Import Consts.

(* the PFloat clause of WriteStable.stable, with the writer's 64-byte buffer and glibc's strtod *)
Theorem float_stable_fixed (c : cfg) b :
  get_option c OPT_SCI = false ->                      (* fixed notation *)
  b64_is_finite b = true ->
  (length (fmt_f (c_prec c) b) <= 60)%nat ->           (* not cut *)
  ftext fmt_double c (atof (ftext fmt_double c b)) = ftext fmt_double c b.
Proof.
  intros Hsci Hfin Hlen. unfold ftext, fmt_double, atof. rewrite Hsci. change FBUF_SIZE with 64.
  apply fixed_notation_stable; assumption.
Qed.

(* a tree whose integer formats are 0 or 1 and whose floats are finite with an uncut rendering *)
Fixpoint fixed_ok (c : cfg) (s : setting) : Prop :=
  let 'Setting _ pl kids f _ _ _ := s in
  (fix all (l : list setting) : Prop := match l with [] => True | e :: r => fixed_ok c e /\ all r end) kids /\
  match pl with
  | PInt _ | PInt64 _ => f = 0 \/ f = 1
  | PFloat b => b64_is_finite b = true /\ (length (fmt_f (c_prec c) b) <= 60)%nat
  | _ => True
  end.

Lemma all_fixed_ok c kids :
  (fix all (l : list setting) : Prop := match l with [] => True | e :: r => fixed_ok c e /\ all r end) kids <-> Forall (fixed_ok c) kids.
Proof.
  induction kids as [|e r IH]; [split; constructor|]. rewrite IH.
  split; [intros [A B]; constructor; assumption | intros H; inversion H; split; assumption].
Qed.

Theorem stable_fixed (c : cfg) : get_option c OPT_SCI = false ->
  forall s, fixed_ok c s -> stable fmt_double atof c s.
Proof.
  intros Hsci. induction s as [n pl kids f h l fi IH] using setting_ind'. intros [Hk Hp].
  apply all_fixed_ok in Hk. cbn [stable]. split.
  - apply all_stable. clear Hp. induction IH as [|e r He _ IHr]; [constructor|].
    inversion Hk; subst. constructor; [apply He; assumption | apply IHr; assumption].
  - destruct pl; try exact Hp; try exact I. destruct Hp as [Hfin Hlen]. apply float_stable_fixed; assumption.
Qed.

(* ------------------------------------------------------------------------------------------ *)
(* instances                                                                                   *)
(* ------------------------------------------------------------------------------------------ *)

Definition rerender (b prec : Z) : Prop :=
  format_double (strtod_bits (format_double b prec false 64)) prec false 64 = format_double b prec false 64.

Ltac by_theorem := apply fixed_notation_stable; [vm_compute; reflexivity | apply Nat.leb_le; vm_compute; reflexivity].

(* by the theorem (the premises are evaluated, the conclusion is not) *)
Example fixed_examples :
  rerender 4591870180066957722 1 /\                    (* 0.1: "0.1" *)
  rerender 4591870180066957722 20 /\                   (* 0.1: "0.10000000000000000555" *)
  rerender 4591870180066957722 55 /\                   (* 0.1 with all its 55 digits *)
  rerender 4602678819172646912 0 /\                    (* 0.5: "0.0" (tie to even) *)
  rerender 4609434218613702656 0 /\                    (* 1.5: "2.0" *)
  rerender 4612811918334230528 0 /\                    (* 2.5: "2.0" *)
  rerender 4593671619917905920 2 /\                    (* 0.125: "0.12" *)
  rerender 4600427019358961664 2 /\                    (* 0.375: "0.38" *)
  rerender 4845873199050653696 0 /\                    (* 2^53 *)
  rerender 4845873199050653697 6 /\                    (* 2^53 + 2 *)
  rerender 4936209963552724370 6 /\                    (* 1e22 *)
  rerender 5489849056681572461 0 /\                    (* 1e59: 60 characters *)
  rerender 1 6 /\                                      (* the least denormal: "0.0" *)
  rerender 21 6 /\                                     (* the denormal of finding F1c *)
  rerender 13680665593942359483 2 /\                   (* -1e-10: "-0.0" *)
  rerender 9223372036854775808 3 /\                    (* -0.0 *)
  rerender 4683220299150161609 (-1).                   (* 123456.789, precision omitted: "123456.789" *)
Proof. unfold rerender. repeat match goal with |- _ /\ _ => split end; by_theorem. Qed.

(* what is rendered and what is read back, evaluated *)
Example fixed_examples_text :
  format_double 4591870180066957722 20 false 64 = [48;46;49;48;48;48;48;48;48;48;48;48;48;48;48;48;48;48;48;53;53;53] /\
  format_double 4602678819172646912 0 false 64 = [48;46;48] /\ strtod_bits [48;46;48] = 0 /\
  format_double 4609434218613702656 0 false 64 = [50;46;48] /\ strtod_bits [50;46;48] = 4611686018427387904 /\
  format_double 13680665593942359483 2 false 64 = [45;48;46;48] /\ strtod_bits [45;48;46;48] = 9223372036854775808 /\
  format_double 9223372036854775808 2 false 64 = [45;48;46;48].
Proof. vm_compute. repeat split. Qed.

(* the hypothesis on the length is needed: -1.5e59 at precision 6 renders on 68 characters, is cut to 60 and ".0" is
   appended; what is read back is another number with another text (finding F1) *)
Example cut_is_unstable :
  let b := 14715482615620799058 in
  length (fmt_f 6 b) = 68%nat /\ b64_is_finite b = true /\ ~ rerender b 6.
Proof. unfold rerender. vm_compute. split; [reflexivity|]. split; [reflexivity|]. intros E. discriminate E. Qed.

Print Assumptions fixed_notation_stable.
Print Assumptions float_stable_fixed.
Print Assumptions stable_fixed.
Print Assumptions b64_of_decimal_nearest.
Print Assumptions grid_return.
