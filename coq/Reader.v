(* Reader.v — __config_read / config_read_string / config_read_file over the scanner and parser
   models, with the error-field updates exactly as the code performs them.  Definitions only. *)
From Coq Require Import List ZArith Bool.
Import ListNotations.
From LC Require Import Base Tree Fp Lookup Api ApiStep ScanAction FlexEngine Tokens Lexer Parser.
From LC.gen Require Import Consts ScannerTables.
Local Open Scope Z_scope.

Definition the_tables : tables :=
  mkTables yy_accept yy_ec yy_meta yy_base yy_def yy_nxt yy_chk yy_jam yy_nstates yy_nul_class.

Section Read.
  Variable atof : bytes -> Z.

  Definition lstate0 (top : option bytes) : lstate :=
    mkLS 0 [] [top] [] (match top with Some t => [t] | None => [] end) [].

  (* all tokens of a top-level text, ending with TkEOF unless the scanner stopped *)
  Definition lex_top (FS : fs) (c : cfg) (top : option bytes) (text : bytes) : list ltoken * lstop :=
    let '(toks, stop, st, line) :=
      lex_depth the_tables yy_rule_can_match_eol yy_actions atof FS (c_incdir c) (c_incfn c)
                MAX_INCLUDE_DEPTH (Z.to_nat MAX_INCLUDE_DEPTH + 1) (lstate0 top) text in
    match stop with
    | StopEOB => let '(tk, _) := emit st line TkEOF None in (toks ++ [tk], StopEOB)
    | _ => (toks, stop)
    end.

  Definition perr_text (e : perr) : bytes :=
    match e with
    | PErrSyntax => ERR_SYNTAX
    | PErrDup => ERR_DUPLICATE_SETTING
    | PErrMismatch => ERR_ARRAY_ELEM_TYPE
    | PErrMem => ERR_MEMORY
    end.

  Definition levent_to_event (e : levent) : list event :=
    match e with
    | LvOpen p => [EvOpen p]
    | LvClose p => [EvClose p]
    | LvIncl p => [EvIncl p]
    | LvStdout _ => []
    end.

  Definition stdout_bytes (evs : list levent) : bytes :=
    flat_map (fun e => match e with LvStdout t => t | _ => [] end) evs.

  (* outcome of __config_read *)
  Inductive rd_out := RdOk | RdFail | RdExit (code : Z) | RdStuck
  | RdNest.   (* nesting beyond NEST_LIMIT: the LALR stack limit (YYMAXDEPTH) may be hit; outcome not modelled *)

  Record rd_result := mkRd {
    rd_cfg : cfg;
    rd_out_ : rd_out;
    rd_events : list event;        (* destructor calls of the clear, then file events *)
    rd_stdout : bytes }.           (* bytes the scanner echoed to stdout *)

  (* the tokens read, in order *)
  Definition read_tokens (toks : list ltoken) (n : nat) : list ltoken := firstn n toks.

  (* the last token the parser read: the last of the tokens read *)
  Fixpoint last_opt {A} (l : list A) : option A :=
    match l with [] => None | [x] => Some x | _ :: r => last_opt r end.
  Definition last_read (toks : list ltoken) (n : nat) : option ltoken := last_opt (firstn n toks).

  (* the file events of a read that returns: those attached to the tokens read, then the unwinding of the
     include stack as it stands after the last token read (on success that stack is empty: the last token
     read is the end of input of the outermost buffer) *)
  Definition file_events (toks : list ltoken) (n : nat) : list levent :=
    flat_map lt_events (firstn n toks) ++
    match last_read toks n with Some t => map LvClose (lt_open t) | None => [] end.

  (* error-field updates made by the scanner for the tokens read (include failures) *)
  Definition apply_scan_errs (e : errstate) (toks : list ltoken) : errstate :=
    fold_left (fun acc t => match lt_err t with
                            | Some (txt, f, l) => mkErr (e_type acc) (Some txt) f l
                            | None => acc end) toks e.

  (* libconfig_yyerror: only when no text is recorded yet *)
  Definition yyerror (e : errstate) (line : Z) (msg : bytes) : errstate :=
    match e_text e with
    | Some _ => e
    | None => mkErr (e_type e) (Some msg) (e_file e) line
    end.

  (* deepest bracket nesting of a token stream *)
  Fixpoint max_nest (toks : list ltoken) (cur best : Z) : Z :=
    match toks with
    | [] => best
    | t :: r =>
        match lt_tok t with
        | TkP TGroupStart | TkP TListStart | TkP TArrayStart =>
            max_nest r (cur + 1) (Z.max best (cur + 1))
        | TkP TGroupEnd | TkP TListEnd | TkP TArrayEnd => max_nest r (cur - 1) best
        | _ => max_nest r cur best
        end
    end.
  (* 5 stack entries per open "name = {" (Appendix B); YYMAXDEPTH entries in all *)
  Definition NEST_LIMIT : Z := YYMAXDEPTH / 5 - 100.

  Definition config_read (FS : fs) (c : cfg) (top : option bytes) (text : bytes) : rd_result :=
    let '(c1, ev_clear) := clear_cfg (set_err c err0) in      (* __config_reset_error, config_clear *)
    let root0 := set_pos (c_root c1) 0 top in          (* config->root->file = top filename *)
    let '(toks, stop) := lex_top FS c1 top text in
    let s0 := mkP root0 toks false O 0 None in
    if NEST_LIMIT <? max_nest toks 0 0 then mkRd c1 RdNest ev_clear [] else
    let res := p_config (get_option c1 OPT_OVERRIDES) s0 in
    let fin := match res with POk s | PErr _ s | PFatal s | PStuck s => s end in
    let rtoks := read_tokens toks (p_read fin) in
    let lastt := last_read toks (p_read fin) in
    let evs := flat_map lt_events rtoks in
    let files := match lastt with Some t => lt_nfiles t | None => match top with Some t => [t] | None => [] end end in
    let err1 := apply_scan_errs (c_err c1) rtoks in
    match res with
    | POk s =>
        mkRd (set_files (set_root c1 (p_root s)) files) RdOk
             (ev_clear ++ flat_map levent_to_event (file_events toks (p_read fin))) (stdout_bytes evs)
    | PErr e s =>
        let err2 := yyerror err1 (p_line s) (perr_text e) in
        let err3 := mkErr 2 (e_text err2) (p_file s) (e_line err2) in
        mkRd (set_err (set_files (set_root c1 (p_root s)) files) err3) RdFail
             (ev_clear ++ flat_map levent_to_event (file_events toks (p_read fin))) (stdout_bytes evs)
    | PFatal s =>
        mkRd (set_root c1 (p_root s))
             (match stop with StopFatal code => RdExit code | _ => RdStuck end)
             (ev_clear ++ flat_map levent_to_event (flat_map lt_events toks)) (stdout_bytes (flat_map lt_events toks))
    | PStuck s => mkRd c1 RdStuck ev_clear []
    end.

  (* config_read_file *)
  Definition config_read_file (FS : fs) (c : cfg) (path : bytes) : rd_result :=
    match fs_lookup FS path with
    | Some (FFile content) =>
        let r := config_read FS c (Some path) content in
        mkRd (rd_cfg r) (rd_out_ r) ([EvOpen path] ++ rd_events r ++ [EvClose path]) (rd_stdout r)
    | Some FDir =>
        (* fopen succeeds, fstat says directory: closed again, I/O error *)
        mkRd (set_err c (mkErr 1 (Some ERR_IO) None 0)) RdFail
             [EvOpen path; EvClose path] []
    | None =>
        mkRd (set_err c (mkErr 1 (Some ERR_IO) None 0)) RdFail [] []
    end.
End Read.
