(* Properties_C06.v — C06: every setting is reachable by its path, and only existing paths resolve.
   Theorems only; proofs in LookupFacts.v.  [lookup] (Lookup.v) is the byte-level model of
   config_setting_lookup_const: strchr(PATH_TOKENS, c), the name scan, strtol with its blanks / sign /
   saturation, the range check of the index, exact-length name comparison.  wf is the C04 invariant.

   History: before /repo commit 645de46 the long returned by strtol was narrowed to unsigned int, so
   "a.[4294967296]" resolved to element 0 (F9); repaired, and walk_index_out_of_range below holds for
   indices of any magnitude. *)
From Coq Require Import List ZArith Bool.
Import ListNotations.
From LC Require Import Base BaseFacts Tree Fp Lookup Api ApiStep TreeFacts ApiFacts Inv InvFacts LookupFacts EmptyComp
  ConvertFacts.
Local Open Scope Z_scope.

(* For every well-formed tree, every base setting b, every setting below it (at index path ip), and
   every spelling sp of ip — each component either the member's name or a bracketed decimal index
   (any digit string denoting it, leading zeros included), joined by any of . : /, with an optional
   leading separator (Spells, LookupFacts.v) — the path resolves to exactly that setting. *)
Theorem C06_resolves : forall b sp ip,
  wf b = true -> Spells b true sp ip -> sp <> [] -> lookup b (render sp) = Some ip.
Proof. exact lookup_resolves. Qed.
Print Assumptions C06_resolves.

(* every setting has such a spelling (so the theorem above is not vacuous), namely the one the C++
   getPath() produces; indices are below 2^32 (config_setting_t.length is an unsigned int) *)
Theorem C06_spelling_exists : forall b ip k first,
  wf b = true -> get_at ip b = Some k -> indices_small ip -> Spells b first (canon first b ip) ip.
Proof. exact canon_spells. Qed.
Print Assumptions C06_spelling_exists.

Theorem C06_cpp_path : forall root ip k,
  wf root = true -> get_at ip root = Some k -> ip <> [] -> indices_small ip ->
  lookup root (cpp_path root ip) = Some ip.
Proof. exact cpp_path_resolves. Qed.
Print Assumptions C06_cpp_path.

(* relative to any ancestor: a base reached through the tree is itself well-formed *)
Theorem C06_relative : forall root pb b sp ip,
  wf root = true -> get_at pb root = Some b -> Spells b true sp ip -> sp <> [] ->
  lookup b (render sp) = Some ip /\ exists k, get_at (pb ++ ip) root = Some k.
Proof.
  intros root pb b sp ip Hw Hb Hs Hne. split.
  - apply lookup_resolves; [eapply wf_get_at; eassumption | assumption | assumption].
  - destruct (spells_get_at _ _ _ _ Hs) as [k Hk]. exists k. rewrite get_at_app, Hb. exact Hk.
Qed.
Print Assumptions C06_relative.

(* only existing paths resolve: whatever the walker returns is a non-empty index path of an existing
   setting below the base *)
Theorem C06_sound : forall b p rel,
  lookup b p = Some rel -> rel <> [] /\ exists k, get_at rel b = Some k.
Proof. exact lookup_sound. Qed.
Print Assumptions C06_sound.

(* ... and after any correctly spelled prefix leading to a setting k, a further component that names
   a missing member, an index not below the number of children (of any magnitude), or any component
   below a scalar makes the whole path resolve to nothing *)
Theorem C06_prefix : forall b sp ip k tail,
  wf b = true -> Spells b true sp ip -> get_at ip b = Some k -> tail_ok tail ->
  lookup b (render sp ++ tail) = walk (S (length (render sp ++ tail)) - length sp) k (rev ip) tail.
Proof. exact lookup_prefix. Qed.
Print Assumptions C06_prefix.

Theorem C06_missing_member : forall f k rel o nm rest first,
  sep_ok first o -> validate_name nm = true -> tail_ok rest ->
  s_ty k = TGroup -> list_search (s_kids k) nm = None ->
  walk (S f) k rel (optsep o ++ nm ++ rest) = None.
Proof. exact walk_missing_member. Qed.
Print Assumptions C06_missing_member.

Theorem C06_index_out_of_range : forall f k rel o ds rest first,
  sep_ok first o -> ds <> [] -> forallb is_digit ds = true ->
  Z.of_nat (length (s_kids k)) <= digits_val 10 ds ->
  walk (S f) k rel (optsep o ++ 91 :: ds ++ 93 :: rest) = None.
Proof. exact walk_index_out_of_range. Qed.
Print Assumptions C06_index_out_of_range.

Theorem C06_below_scalar : forall f k rel s c rest,
  ty_is_aggregate (s_ty k) = false -> is_sep s = true -> rel <> [] ->
  walk (S f) k rel (s :: comp_bytes c ++ rest) = None \/ (comp_bytes c = [] /\ rest = []).
Proof. exact walk_below_scalar. Qed.
Print Assumptions C06_below_scalar.

(* an empty component - two separators in a row, at the start or after any correctly spelled prefix - names
   nothing: no member has the empty name *)
Theorem C06_empty_component : forall b sp ip k s1 s2 rest,
  wf b = true -> Spells b true sp ip -> get_at ip b = Some k ->
  is_sep s1 = true -> is_sep s2 = true ->
  lookup b (render sp ++ s1 :: s2 :: rest) = None.
Proof. exact lookup_empty_component. Qed.
Print Assumptions C06_empty_component.

(* a typed lookup that fails leaves the caller's output variable untouched: the failing result
   carries no output, for a path that resolves to nothing and for a type mismatch alike *)
Theorem C06_typed_untouched : forall c k path,
  (lookup (c_root c) path = None -> api_step c (OPLook k path) = (c, RLook 0 None, [])) /\
  (forall m, match typed_look c k (Some m) with
             | RLook ok out => ok = 0 -> out = None
             | _ => True end).
Proof.
  intros c k path. split.
  - intros H. rewrite step_plook, H. reflexivity.
  - intros m. pose proof (typed_look_table c k m) as T. destruct (typed_look c k (Some m)); auto. tauto.
Qed.
Print Assumptions C06_typed_untouched.

(* ---- non-vacuity: a concrete tree, a concrete mixed spelling ---- *)
Definition ex_tree : setting :=
  Setting None PGroup
    [Setting (Some [97]) PGroup
       [Setting (Some [108]) PList [Setting None (PInt 7) [] 0 None 0 None;
                                    Setting None PGroup [Setting (Some [120]) (PStr None) [] 0 None 0 None] 0 None 0 None]
                0 None 0 None] 0 None 0 None] 0 None 0 None.

Example ex_lookup :
  wf ex_tree = true /\
  lookup ex_tree [47; 97; 58; 108; 46; 91; 48; 49; 93; 47; 120] = Some [0; 0; 1; 0]%nat /\     (* "/a:l.[01]/x" *)
  lookup ex_tree [97; 46; 108; 46; 91; 52; 50; 57; 52; 57; 54; 55; 50; 57; 55; 93] = None /\   (* "a.l.[4294967297]" *)
  lookup ex_tree [97; 46; 108; 46; 91; 48; 93; 46; 121] = None /\                              (* "a.l.[0].y" *)
  cpp_path ex_tree [0; 0; 1; 0]%nat = [97; 46; 108; 46; 91; 49; 93; 46; 120].                  (* "a.l.[1].x" *)
Proof. repeat split; reflexivity. Qed.
