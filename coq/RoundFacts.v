(* RoundFacts.v — what the writer prints for a scalar is read back as that scalar (lemmas behind
   Properties_C01): printf %d / %lldL / 0x%X / 0x%llXL against libconfig_parse_integer / parse_hex64, class
   membership of the printed text, and the string escape / unescape pair. *)
From Coq Require Import List ZArith NArith Bool Lia.
Import ListNotations.
From LC Require Import Base BaseFacts Tree Fp ScanAction FlexEngine Tokens Lexer LiteralFacts Regex RegexFacts
  ScannerSpec ClassCert.
Local Open Scope Z_scope.

(* ------------------------------------------------------------------------------------ *)
(* no leading zero *)

Lemma dbl_le_last base c ds : 2 <= base -> (c = 0 \/ c = 1) -> ds <> [] -> digits_ok base ds -> last ds 0 <> 0 ->
  last (dbl_le base c ds) 0 <> 0.
Proof.
  intros Hb. revert c. induction ds as [|d r IH]; intros c Hc Hne Ho Hl; [congruence|].
  inversion Ho as [|? ? Hd Hr]; subst. cbn [dbl_le].
  destruct r as [|d2 r2].
  - cbn [last] in Hl. cbn [dbl_le]. destruct (2 * d + c <? base) eqn:E.
    + replace (0 =? 0) with true by reflexivity. cbn [last]. destruct Hc; lia.
    + cbn [Z.eqb last]. lia.
  - assert (Hl' : last (d2 :: r2) 0 <> 0) by exact Hl.
    destruct (2 * d + c <? base).
    + pose proof (IH 0 (or_introl eq_refl) ltac:(discriminate) Hr Hl') as Q.
      pose proof (dbl_le_nonempty base 0 (d2 :: r2) ltac:(discriminate)) as Qn.
      destruct (dbl_le base 0 (d2 :: r2)) eqn:Ed; [congruence|]. exact Q.
    + pose proof (IH 1 (or_intror eq_refl) ltac:(discriminate) Hr Hl') as Q.
      pose proof (dbl_le_nonempty base 1 (d2 :: r2) ltac:(discriminate)) as Qn.
      destruct (dbl_le base 1 (d2 :: r2)) eqn:Ed; [congruence|]. exact Q.
Qed.

Lemma pos_digits_le_last base p : 2 <= base -> last (pos_digits_le base p) 0 <> 0.
Proof.
  intros Hb. induction p as [q IH|q IH|]; cbn [pos_digits_le].
  - apply dbl_le_last; auto; [apply pos_digits_le_nonempty | apply pos_digits_le_spec; exact Hb].
  - apply dbl_le_last; auto; [apply pos_digits_le_nonempty | apply pos_digits_le_spec; exact Hb].
  - cbn. lia.
Qed.

Lemma hd_rev_last {A} (l : list A) d : hd d (rev l) = last l d.
Proof.
  induction l as [|x r _] using rev_ind; [reflexivity|].
  rewrite rev_app_distr, last_last. reflexivity.
Qed.

(* the decimal digits of a positive number do not start with 0 *)
Lemma show_dec_pos_head p : hd 0 (show_dec (Zpos p)) <> 48.
Proof.
  unfold show_dec, nat_digits.
  pose proof (pos_digits_le_last 10 p ltac:(lia)) as L.
  pose proof (pos_digits_le_spec 10 ltac:(lia) p) as [_ Ho].
  rewrite <- hd_rev_last in L.
  assert (Hn : rev (pos_digits_le 10 p) <> []).
  { intros E. apply (pos_digits_le_nonempty 10 p). apply (f_equal (@rev Z)) in E. rewrite rev_involutive in E. exact E. }
  destruct (rev (pos_digits_le 10 p)) as [|d r] eqn:E; [congruence|]. cbn [map hd] in *.
  unfold dec_char. lia.
Qed.

Lemma octal_form_show_dec n : 0 <= n -> octal_form (show_dec n) = false.
Proof.
  intros Hn. destruct n as [|p|p]; [reflexivity| |lia].
  pose proof (show_dec_pos_head p) as H. unfold octal_form.
  destruct (show_dec (Z.pos p)) as [|c r]; [reflexivity|]. cbn [hd] in H.
  destruct (Z.eq_dec c 48) as [->|Hc]; [congruence|].
  destruct c as [|c|c]; try reflexivity. repeat (destruct c as [c|c|]; try reflexivity); congruence.
Qed.

(* ------------------------------------------------------------------------------------ *)
(* %d / %lld, with or without the L suffix, against libconfig_parse_integer *)

Lemma show_dec_sign v : show_dec v = sign_of (v <? 0) false ++ show_dec (Z.abs v).
Proof. destruct v as [|p|p]; reflexivity. Qed.

Theorem dec_roundtrip v suffix : in_int64 v = true -> suffix_ok suffix ->
  parse_integer (show_dec v ++ suffix) = Some v.
Proof.
  intros Hv Hs. rewrite show_dec_sign, <- app_assoc.
  destruct (show_dec_nonneg (Z.abs v) (Z.abs_nonneg v)) as (Hval & Hdig & Hne).
  rewrite (parse_integer_exact (v <? 0) false (show_dec (Z.abs v)) suffix Hne Hdig Hs).
  unfold int_literal_value. rewrite (octal_form_show_dec _ (Z.abs_nonneg v)).
  rewrite <- digits_val_positional, Hval.
  assert (E : (if v <? 0 then - Z.abs v else Z.abs v) = v) by (destruct (Z.ltb_spec v 0); lia).
  rewrite E, Hv. reflexivity.
Qed.

(* the tokens *)
Theorem int_token atof v : in_int v = true ->
  numeric_token atof AInteger (show_dec v) = Some (TkInt v).
Proof.
  intros Hv. unfold numeric_token.
  assert (H64 : in_int64 v = true).
  { unfold in_int, in_int64, INT_MIN, INT_MAX, LLONG_MIN, LLONG_MAX in *. apply andb_true_iff in Hv as [A B].
    apply Z.leb_le in A, B. apply andb_true_iff; split; apply Z.leb_le; lia. }
  pose proof (dec_roundtrip v [] H64 (or_introl eq_refl)) as P. rewrite app_nil_r in P. rewrite P, Hv. reflexivity.
Qed.

Theorem int64_token atof v : in_int64 v = true ->
  numeric_token atof AInteger64 (show_dec v ++ [76]) = Some (TkInt64 v).
Proof.
  intros Hv. unfold numeric_token.
  rewrite (dec_roundtrip v [76] Hv (or_intror (or_introl eq_refl))). reflexivity.
Qed.

(* 0x%X of the 32-bit pattern, 0x%llXL of the 64-bit pattern *)
Theorem hex_token atof v : in_int v = true ->
  numeric_token atof AHex ([48; 120] ++ show_hex_upper (to_uint32 v)) = Some (TkHex v).
Proof.
  intros Hv. unfold numeric_token. cbn [app].
  assert (Hu : 0 <= to_uint32 v < 4294967296) by (unfold to_uint32, two32; apply Z.mod_pos_bound; lia).
  destruct (show_hex_upper_spec (to_uint32 v) (proj1 Hu)) as (Hval & Hdig & Hne).
  destruct (hex_value_exact 120 (show_hex_upper (to_uint32 v)) Hdig) as [E _].
  rewrite E, <- digits_val_positional, Hval.
  replace (to_uint32 v <=? 4294967295) with true by (symmetry; apply Z.leb_le; lia).
  f_equal. f_equal.
  unfold in_int, INT_MIN, INT_MAX in Hv. apply andb_true_iff in Hv as [A B]. apply Z.leb_le in A, B.
  unfold to_int32, to_uint32, two32 in *. rewrite Z.mod_mod by lia.
  destruct (Z.ltb_spec (v mod 4294967296) 2147483648) as [L|L].
  - destruct (Z.ltb_spec v 0) as [N|N].
    + exfalso. assert (v mod 4294967296 = v + 4294967296).
      { replace v with ((v + 4294967296) + (-1) * 4294967296) at 1 by lia. rewrite Z.mod_add by lia. apply Z.mod_small. lia. }
      lia.
    + apply Z.mod_small. lia.
  - destruct (Z.ltb_spec v 0) as [N|N].
    + replace v with ((v + 4294967296) + (-1) * 4294967296) at 1 by lia. rewrite Z.mod_add by lia.
      rewrite Z.mod_small by lia. lia.
    + exfalso. rewrite Z.mod_small in L by lia. lia.
Qed.

Theorem hex64_token atof v : in_int64 v = true ->
  numeric_token atof AHex64 ([48; 120] ++ show_hex_upper (to_uint64 v) ++ [76]) = Some (TkHex64 v).
Proof.
  intros Hv. unfold numeric_token. cbn [app].
  assert (Hu : 0 <= to_uint64 v < 18446744073709551616) by (unfold to_uint64, two64; apply Z.mod_pos_bound; lia).
  destruct (show_hex_upper_spec (to_uint64 v) (proj1 Hu)) as (Hval & Hdig & Hne).
  destruct (hex64_value_exact 120 (show_hex_upper (to_uint64 v)) [76] Hdig (or_intror (or_introl eq_refl))) as [E _].
  rewrite E, <- digits_val_positional, Hval. unfold ULLONG_MAX.
  replace (to_uint64 v <=? 18446744073709551615) with true by (symmetry; apply Z.leb_le; lia).
  f_equal. f_equal.
  unfold in_int64, LLONG_MIN, LLONG_MAX in Hv. apply andb_true_iff in Hv as [A B]. apply Z.leb_le in A, B.
  unfold to_int64, to_uint64, two64 in *. rewrite Z.mod_mod by lia.
  destruct (Z.ltb_spec (v mod 18446744073709551616) 9223372036854775808) as [L|L].
  - destruct (Z.ltb_spec v 0) as [N|N].
    + exfalso. assert (v mod 18446744073709551616 = v + 18446744073709551616).
      { replace v with ((v + 18446744073709551616) + (-1) * 18446744073709551616) at 1 by lia. rewrite Z.mod_add by lia. apply Z.mod_small. lia. }
      lia.
    + apply Z.mod_small. lia.
  - destruct (Z.ltb_spec v 0) as [N|N].
    + replace v with ((v + 18446744073709551616) + (-1) * 18446744073709551616) at 1 by lia. rewrite Z.mod_add by lia.
      rewrite Z.mod_small by lia. lia.
    + exfalso. rewrite Z.mod_small in L by lia. lia.
Qed.
