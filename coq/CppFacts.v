(* CppFacts.v — facts about the model of the C++ binding (lemmas behind Properties_C17). *)
From Coq Require Import List ZArith Bool Lia Permutation.
Import ListNotations.
From LC Require Import Base Tree Fp Lookup Api ApiStep Cpp TreeFacts ApiFacts HookFacts LookupFacts.
Local Open Scope Z_scope.

(* ------------------------------------------------------------------------------------ *)
(* conversions *)

(* which stored types a conversion accepts (the rest is SettingTypeException) *)
Definition convertible (au : bool) (t : ty) (k : ck) : bool :=
  match k with
  | CkInt | CkUInt | CkLL | CkULL => match t with TInt | TInt64 => true | TFloat => au | _ => false end
  | CkDouble => match t with TFloat => true | TInt | TInt64 => au | _ => false end
  | CkBool => ty_eqb t TBool
  | CkString => ty_eqb t TString
  end.

(* the values an integer conversion can represent (the rest is SettingRangeException) *)
Definition fits (k : ck) (v : Z) : bool :=
  match k with
  | CkInt => (INT_MIN <=? v) && (v <=? INT_MAX)
  | CkUInt => (0 <=? v) && (v <=? UINT_MAX)
  | CkLL => true
  | CkULL => 0 <=? v
  | _ => true
  end.

Definition int_kind (k : ck) : bool :=
  match k with CkInt | CkUInt | CkLL | CkULL => true | _ => false end.

Ltac plc s := destruct s as [n_ pl_ k_ f_ h_ l_ fi_]; destruct pl_.

Lemma in_int_bounds z : in_int z = true -> INT_MIN <= z <= INT_MAX.
Proof. unfold in_int. intros H. apply andb_true_iff in H as [A B]. lia. Qed.

(* the type exception is thrown exactly for the stored types the conversion does not accept *)
Theorem cast_type_exception c k s :
  cpp_cast c k s = XT XType <-> convertible (auto c) (s_ty s) k = false.
Proof.
  plc s; destruct k; unfold cpp_cast, cpp_assert, convertible, ret_int, getter, s_ty; cbn;
    destruct (auto c); cbn;
    repeat match goal with
           | |- context [if ?b then _ else _] => destruct b eqn:?
           | |- context [match ?x with GFail => _ | GOk _ => _ | GUnspec => _ end] => destruct x eqn:?
           | |- context [match cast_double_int ?x with _ => _ end] => destruct (cast_double_int x)
           | |- context [match cast_double_int64 ?x with _ => _ end] => destruct (cast_double_int64 x)
           end; split; intros; try reflexivity; try discriminate; try congruence.
Qed.

(* integer settings: the stored value, or the range exception when the target cannot hold it; the
   signedness of a 32-bit stored value is as the C getter reports it *)
Theorem cast_integers c k s v :
  (s_pl s = PInt v /\ INT_MIN <= v <= INT_MAX) \/ s_pl s = PInt64 v -> int_kind k = true ->
  cpp_cast c k s = if fits k v then XR (RInt v) else XT XRange.
Proof.
  intros Hs Hk. destruct s as [n_ pl_ k_ f_ h_ l_ fi_]. cbn [s_pl] in Hs.
  destruct k; try discriminate Hk; clear Hk;
    destruct Hs as [[-> Hr]| ->];
    unfold cpp_cast, cpp_assert, ret_int, getter, n_get_int, n_get_int64, s_ty, fits; cbn;
    unfold INT_MIN, INT_MAX, UINT_MAX in *;
    repeat match goal with
           | |- context [in_int ?z] => destruct (in_int z) eqn:?
           | |- context [?a <? ?b] => destruct (Z.ltb_spec a b)
           | |- context [?a <=? ?b] => destruct (Z.leb_spec a b)
           end; cbn; try reflexivity; try lia.
  all: try (match goal with H : in_int _ = true |- _ => apply in_int_bounds in H; unfold INT_MIN, INT_MAX in H; lia end).
  all: try (match goal with H : in_int ?z = false |- _ =>
              unfold in_int, INT_MIN, INT_MAX in H; apply andb_false_iff in H as [H|H];
              [apply Z.leb_gt in H | apply Z.leb_gt in H]; lia end).
Qed.

(* a value delivered by a conversion is the value the C getter of matching width delivers
   (booleans normalised to 0/1, a NULL string read as the empty string) *)
Definition c_value (c : cfg) (k : ck) (s : setting) : list ret :=
  match k with
  | CkInt | CkUInt | CkLL | CkULL => [getter c KInt s; getter c KInt64 s]
  | CkDouble => [getter c KFloat s]
  | CkBool => [RInt (if n_get_bool s =? 0 then 0 else 1)]
  | CkString => [RStr (Some (match n_get_string s with Some b => b | None => [] end))]
  end.

Theorem cast_value_is_c_value c k s r :
  cpp_cast c k s = XR r -> In r (c_value c k s).
Proof.
  destruct k; unfold cpp_cast, c_value, ret_int; cbn [In];
    repeat match goal with
           | |- context [if ?b then _ else _] => destruct b eqn:?
           | |- context [match getter ?c ?kk ?s with _ => _ end] => destruct (getter c kk s) eqn:?
           end; intros H; inv H; auto.
Qed.

(* the conversion to int agrees with config_setting_lookup_int / config_lookup_int on every setting:
   same success, same value *)
Theorem cast_int_iff_c c s v :
  cpp_cast c CkInt s = XR (RInt v) <-> n_get_int (auto c) s = GOk v.
Proof.
  plc s; unfold cpp_cast, cpp_assert, ret_int, getter, n_get_int, n_get_int64, s_ty; cbn;
    destruct (auto c); cbn;
    repeat match goal with
           | |- context [in_int ?z] => destruct (in_int z) eqn:?
           | |- context [match cast_double_int ?x with _ => _ end] => destruct (cast_double_int x)
           | |- context [?a <? ?b] => destruct (Z.ltb_spec a b)
           end; cbn; split; intros Hx; try discriminate; try (inv Hx; reflexivity); try congruence.
  all: try (match goal with Hi : in_int _ = true |- _ => apply in_int_bounds in Hi; unfold INT_MIN, INT_MAX in *; lia end).
  all: try (match goal with Hi : in_int ?z = false |- _ =>
              unfold in_int, INT_MIN, INT_MAX in *; apply andb_false_iff in Hi as [Hi|Hi];
              [apply Z.leb_gt in Hi | apply Z.leb_gt in Hi]; lia end).
Qed.

Theorem cast_ll_iff_c c s v :
  cpp_cast c CkLL s = XR (RInt v) <-> n_get_int64 (auto c) s = GOk v.
Proof.
  plc s; unfold cpp_cast, cpp_assert, ret_int, getter, n_get_int, n_get_int64, s_ty; cbn;
    destruct (auto c); cbn;
    repeat match goal with
           | |- context [match cast_double_int64 ?x with _ => _ end] => destruct (cast_double_int64 x)
           end; cbn; split; intros Hx; try discriminate; try (inv Hx; reflexivity); try congruence.
Qed.

Theorem cast_double_iff_c c s b :
  cpp_cast c CkDouble s = XR (RFloat b) <-> n_get_float (auto c) s = GOk b.
Proof.
  plc s; unfold cpp_cast, cpp_assert, getter, n_get_float, s_ty; cbn;
    destruct (auto c); cbn; split; intros Hx; try discriminate; try (inv Hx; reflexivity); try congruence.
Qed.

(* ------------------------------------------------------------------------------------ *)
(* lookupValue / exists never throw *)

Definition no_throw (o : xout) : Prop :=
  match o with XO (XT _) => False | _ => True end.

Definition is_lookup_op (o : xop) : bool :=
  match o with XLook _ _ | XMLook _ _ _ | XExists _ | XMExists _ _ => true | _ => false end.

Theorem lookups_never_throw c o c' out ev :
  is_lookup_op o = true -> cpp_step c o = (c', out, ev) -> no_throw out /\ ev = [].
Proof.
  destruct o; try discriminate; intros _; cbn [cpp_step]; unfold bad;
    repeat match goal with
           | |- context [match ?x with _ => _ end] => destruct x eqn:?
           end; intros H; inv H; cbn; auto.
Qed.

(* the conversion to int, completely, in terms of the C getter *)
Lemma cast_int_char c s :
  cpp_cast c CkInt s =
  match n_get_int (auto c) s with
  | GOk v => XR (RInt v)
  | GUnspec => XR RUnspec
  | GFail => XT (if ty_eqb (s_ty s) TInt64 then XRange else XType)
  end.
Proof.
  plc s; unfold cpp_cast, cpp_assert, ret_int, getter, n_get_int, n_get_int64, s_ty; cbn;
    destruct (auto c); cbn;
    repeat match goal with
           | |- context [in_int ?z] => destruct (in_int z) eqn:?
           | |- context [match cast_double_int ?x with _ => _ end] => destruct (cast_double_int x)
           | |- context [?a <? ?b] => destruct (Z.ltb_spec a b)
           end; cbn; try reflexivity.
  all: try (match goal with Hi : in_int _ = true |- _ => apply in_int_bounds in Hi; unfold INT_MIN, INT_MAX in *; lia end).
  all: try (match goal with Hi : in_int ?z = false |- _ =>
              unfold in_int, INT_MIN, INT_MAX in *; apply andb_false_iff in Hi as [Hi|Hi];
              [apply Z.leb_gt in Hi | apply Z.leb_gt in Hi]; lia end).
Qed.

(* Config::lookupValue(path, int &): success and value are those of config_lookup_int *)
Theorem lookupValue_int_as_c c path :
  snd (fst (cpp_step c (XLook CkInt path))) = XO (XR (typed_look c KInt
     (match lookup (c_root c) path with Some rel => get_at rel (c_root c) | None => None end)))
  \/ (exists rel, lookup (c_root c) path = Some rel /\ get_at rel (c_root c) = None).
Proof.
  cbn [cpp_step]. destruct (lookup (c_root c) path) as [rel|]; [|left; reflexivity].
  destruct (get_at rel (c_root c)) as [s|] eqn:G; [left | right; eauto]. cbn [fst snd typed_look].
  rewrite cast_int_char. destruct (n_get_int (auto c) s); reflexivity.
Qed.

(* ------------------------------------------------------------------------------------ *)
(* structure: which exception, which setting *)

Theorem lookup_exception c path :
  snd (fst (cpp_step c (XLookup path))) =
  match lookup (c_root c) path with
  | Some rel => XO (XR (RNode (Some rel)))
  | None => XO (XT XNotFound)
  end.
Proof. cbn [cpp_step]. destruct (lookup (c_root c) path); reflexivity. Qed.

Theorem index_exception c p s i :
  get_at p (c_root c) = Some s ->
  snd (fst (cpp_step c (XIdx p i))) =
  if ty_is_aggregate (s_ty s) then
    match snd (fst (api_step c (OElem p i))) with
    | RNode (Some q) => XO (XR (RNode (Some q)))
    | _ => XO (XT XNotFound)
    end
  else XO (XT XType).
Proof.
  intros G. cbn [cpp_step api_step]. unfold at_node. rewrite G. unfold x_index.
  destruct (ty_is_aggregate (s_ty s)); [|reflexivity].
  destruct (get_elem s (to_uint32 i)); reflexivity.
Qed.

Theorem member_exception c p s name :
  get_at p (c_root c) = Some s ->
  snd (fst (cpp_step c (XMem p name))) =
  if ty_eqb (s_ty s) TGroup then
    match snd (fst (api_step c (OMember p (Some name)))) with
    | RNode (Some q) => XO (XR (RNode (Some q)))
    | _ => XO (XT XNotFound)
    end
  else XO (XT XType).
Proof.
  intros G. cbn [cpp_step api_step]. unfold at_node. rewrite G. unfold x_member, cpp_assert.
  assert (E : ty_is_number TGroup = false) by reflexivity. rewrite E, andb_false_r, orb_false_r.
  destruct (ty_eqb (s_ty s) TGroup); [|reflexivity].
  destruct (get_member s (Some name)); reflexivity.
Qed.

(* ------------------------------------------------------------------------------------ *)
(* what a setting reports about itself *)

Theorem info_agrees c p s :
  let a := cpp_info c p s in let b := c_info c p s in
  to_type_code (i_type a) = i_type b /\ i_type a = cpp_type (s_ty s) /\
  i_fmt a = (if i_fmt b =? 1 then 1 else 0) /\
  i_len a = i_len b /\ i_idx a = i_idx b /\ i_root a = i_root b /\ i_name a = i_name b /\ i_bits a = kind_bits s.
Proof. cbn. repeat split. destruct (s_ty s); reflexivity. Qed.

Lemma to_type_code_inj a b : 1 <= a <= 8 -> 1 <= b <= 8 -> to_type_code a = to_type_code b -> a = b.
Proof.
  intros Ha Hb. assert (A : a = 1 \/ a = 2 \/ a = 3 \/ a = 4 \/ a = 5 \/ a = 6 \/ a = 7 \/ a = 8) by lia.
  assert (B : b = 1 \/ b = 2 \/ b = 3 \/ b = 4 \/ b = 5 \/ b = 6 \/ b = 7 \/ b = 8) by lia.
  destruct A as [->|[->|[->|[->|[->|[->|[->| ->]]]]]]]; destruct B as [->|[->|[->|[->|[->|[->|[->| ->]]]]]]];
    cbn; intros H; try reflexivity; discriminate H.
Qed.

(* ------------------------------------------------------------------------------------ *)
(* iteration *)

Theorem iter_visits_children c p s :
  get_at p (c_root c) = Some s -> ty_is_aggregate (s_ty s) = true ->
  exists kids, snd (fst (cpp_step c (XIter p))) = XOIter kids /\
    kids = map (fun i => p ++ [i]) (seq 0 (length (s_kids s))) /\ NoDup kids /\
    (forall i k, nth_error (s_kids s) i = Some k -> nth_error kids i = Some (p ++ [i])).
Proof.
  intros G A. cbn [cpp_step]. rewrite G, A. cbn [negb fst snd].
  unfold n_length. rewrite A, Nat2Z.id. unfold seq_nat.
  eexists; split; [reflexivity|]. split; [reflexivity|]. split.
  - apply FinFun.Injective_map_NoDup; [|apply seq_NoDup].
    intros x y E. apply app_inv_head in E. congruence.
  - intros i k Hk. assert (Hi : (i < length (s_kids s))%nat) by (apply nth_error_Some; congruence).
    rewrite nth_error_map. rewrite (nth_error_nth' _ 0%nat) by (rewrite seq_length; exact Hi).
    cbn. rewrite seq_nth by exact Hi. reflexivity.
Qed.

(* ------------------------------------------------------------------------------------ *)
(* wrappers: created in the hook, released with the setting, never lost, never released twice *)

(* from c to c' with events ev: with the destructor registered (Config::Config does that), the hooks of
   c' together with those handed to the destructor are the hooks of c plus n new wrappers *)
Definition ext (c c' : cfg) (ev : list event) : Prop :=
  c_dtor c = true ->
  c_dtor c' = true /\
  exists n, Permutation (destroy_log (c_root c') ++ dtors ev) (destroy_log (c_root c) ++ repeat WRAPPER n).

Lemma ext_refl c : ext c c [].
Proof. intros H; split; [exact H|]. exists O. cbn. reflexivity. Qed.

Lemma repeat_app {A} (x : A) n m : repeat x n ++ repeat x m = repeat x (n + m).
Proof. induction n; cbn; [reflexivity | f_equal; assumption]. Qed.

Lemma ext_trans a b c e1 e2 : ext a b e1 -> ext b c e2 -> ext a c (e1 ++ e2).
Proof.
  intros H1 H2 Ha. destruct (H1 Ha) as (Hb & n & P1). destruct (H2 Hb) as (Hc & m & P2).
  split; [exact Hc|]. exists (n + m)%nat. rewrite dtors_app, <- repeat_app.
  rewrite (Permutation_app_comm (dtors e1)), app_assoc, P2.
  rewrite <- app_assoc, (Permutation_app_comm (repeat WRAPPER m)), app_assoc, P1.
  rewrite <- !app_assoc. reflexivity.
Qed.

Lemma destroy_log_set_hook s h :
  destroy_log (set_hook s h) = flat_map destroy_log (s_kids s) ++ match h with Some x => [x] | None => [] end.
Proof. destruct s as [n p k f h0 l fi]. reflexivity. Qed.

Lemma ext_wrap c p : ext c (wrap c p) [].
Proof.
  unfold wrap. destruct (get_at p (c_root c)) as [s|] eqn:G; [|apply ext_refl].
  destruct (s_hook s) eqn:Hh; [apply ext_refl|].
  intros Hd. split; [exact Hd|]. exists 1%nat. cbn [c_root set_root dtors flat_map repeat]. rewrite app_nil_r.
  pose proof (hooks_upd_at p (fun x => set_hook x (Some WRAPPER)) (c_root c) s G) as P. cbn beta in P.
  rewrite destroy_log_set_hook in P. rewrite (destroy_log_unfold s) in P. unfold own_hook in P. rewrite Hh, app_nil_r in P.
  apply (Permutation_app_inv_r (flat_map destroy_log (s_kids s))).
  rewrite <- P. rewrite <- !app_assoc. apply Permutation_app_head. apply Permutation_app_comm.
Qed.

Lemma ext_wrap_r a x p ev : ext a x ev -> ext a (wrap x p) ev.
Proof. intros H. rewrite <- (app_nil_r ev). eapply ext_trans; [exact H | apply ext_wrap]. Qed.

Lemma ext_wrap_opt_r a x o ev : ext a x ev -> ext a (wrap_opt x o) ev.
Proof. destruct o; [apply ext_wrap_r | exact (fun H => H)]. Qed.

Lemma ext_fold_wrap {A} (g : A -> ipath) l : forall a x ev,
  ext a x ev -> ext a (fold_left (fun y n => wrap y (g n)) l x) ev.
Proof.
  induction l as [|n r IH]; intros a x ev H; cbn [fold_left]; [exact H|].
  apply IH. apply ext_wrap_r. exact H.
Qed.

Lemma ext_fold_wrap' l : forall a x ev, ext a x ev -> ext a (fold_left wrap l x) ev.
Proof.
  induction l as [|n r IH]; intros a x ev H; cbn [fold_left]; [exact H|].
  apply IH. apply ext_wrap_r. exact H.
Qed.

Lemma ext_api a x o c2 r ev :
  capi x o = (c2, r, ev) -> hook_neutral o = true -> o <> ODestroy -> ext a x [] -> ext a c2 ev.
Proof.
  intros S Hn Hnd H. change ev with ([] ++ ev). eapply ext_trans; [exact H|].
  intros Hd. split.
  - rewrite (step_keeps_dtor _ _ _ _ _ S Hn Hnd). exact Hd.
  - exists O. cbn [repeat]. rewrite app_nil_r. symmetry. eapply step_hooks; eassumption.
Qed.

Lemma set_no_events c k p v : snd (api_step c (OSet k p v)) = [].
Proof.
  cbn [api_step]. unfold at_node. destruct (get_at p (c_root c)); [|reflexivity].
  destruct (setter c k v s); reflexivity.
Qed.

Lemma ext_set_dropped a x k p v : ext a x [] -> ext a (fst (fst (capi x (OSet k p v)))) [].
Proof.
  intros H. destruct (capi x (OSet k p v)) as [[c2 r] ev] eqn:S. cbn [fst].
  assert (E : ev = []). { pose proof (set_no_events x k p v) as Q. unfold capi in S. rewrite S in Q. exact Q. }
  subst ev. eapply ext_api; [exact S | reflexivity | discriminate | exact H].
Qed.

Lemma ext_set_after a x k p v c2 r l ev :
  capi x (OSet k p v) = (c2, r, l) -> ext a x ev -> ext a c2 ev.
Proof.
  intros S H.
  assert (E : l = []). { pose proof (set_no_events x k p v) as Q. unfold capi in S. rewrite S in Q. exact Q. }
  subst l. rewrite <- (app_nil_r ev). eapply ext_trans; [exact H|].
  eapply ext_api; [exact S | reflexivity | discriminate | apply ext_refl].
Qed.

Ltac ext_solve :=
  lazymatch goal with
  | |- ext ?c ?c [] => apply ext_refl
  | |- ext _ (wrap _ _) _ => apply ext_wrap_r; ext_solve
  | |- ext _ (wrap_opt _ _) _ => apply ext_wrap_opt_r; ext_solve
  | |- ext _ (fold_left wrap _ _) _ => apply ext_fold_wrap'; ext_solve
  | |- ext _ (fold_left (wrap_prefix ?p) _ _) _ => apply (ext_fold_wrap (fun n => firstn n p)); ext_solve
  | |- ext _ (fst (fst (capi _ (OSet _ _ _)))) [] => apply ext_set_dropped; ext_solve
  | |- ext _ (if ?b then _ else _) _ => destruct b; ext_solve
  | |- ext _ (wrap_prefix _ _ _) _ => unfold wrap_prefix; ext_solve
  | H : capi ?x ?o = (?c2, _, ?ev) |- ext _ ?c2 ?ev =>
      eapply ext_api; [exact H | reflexivity | discriminate | ext_solve]
  | H : capi ?x (OSet _ _ _) = (?c2, _, _) |- ext _ ?c2 _ => eapply ext_set_after; [exact H | ext_solve]
  | |- ext _ (match ?l with [] => _ | _ :: _ => _ end) _ => destruct l; ext_solve
  end.

Theorem cpp_step_wrappers c o c' out ev :
  cpp_step c o = (c', out, ev) -> ext c c' ev.
Proof.
  destruct o; cbn [cpp_step]; unfold bad;
    repeat match goal with
           | |- context [match get_at ?p ?r with _ => _ end] => destruct (get_at p r) eqn:?
           | |- context [match lookup ?p ?r with _ => _ end] => destruct (lookup p r) eqn:?
           | |- context [match x_member ?a ?b ?c ?d with _ => _ end] => destruct (x_member a b c d) as [[?|]|?] eqn:?
           | |- context [match x_index ?a ?b ?c with _ => _ end] => destruct (x_index a b c) eqn:?
           | |- context [match ?n with Some _ => _ | None => _ end] => destruct n eqn:?
           | |- context [capi ?x ?o] => destruct (capi x o) as [[? ?] ?] eqn:?
           | |- context [if negb ?b then _ else _] => destruct b eqn:?; cbn [negb]
           | |- context [if ?a =? ?b then _ else _] => destruct (a =? b) eqn:?
           | |- context [if ?b then (_, _, _) else _] => destruct b eqn:?
           | |- (match ?r with RUnit => _ | _ => _ end) = _ -> _ => destruct r as [| [|?|?] | | | [[|]|] | | | |]
           end; intros H; inv H; try ext_solve.
Qed.

(* over a whole history of C++ calls *)
Fixpoint run_x (c : cfg) (ops : list xop) : cfg * list event :=
  match ops with
  | [] => (c, [])
  | o :: r => let '(c1, _, ev) := cpp_step c o in
              let '(c2, ev2) := run_x c1 r in (c2, ev ++ ev2)
  end.

Theorem run_x_wrappers ops : forall c c' ev, run_x c ops = (c', ev) -> ext c c' ev.
Proof.
  induction ops as [|o r IH]; intros c c' ev H; cbn [run_x] in H.
  - inv H. apply ext_refl.
  - destruct (cpp_step c o) as [[c1 out] ev1] eqn:S. destruct (run_x c1 r) as [c2 ev2] eqn:R. inv H.
    eapply ext_trans; [eapply cpp_step_wrappers; exact S | apply IH; exact R].
Qed.

(* ... and Config::~Config (config_destroy) then releases every wrapper still attached *)
Theorem run_x_then_destroy ops c c' ev cd rd evd :
  c_dtor c = true -> run_x c ops = (c', ev) -> api_step c' ODestroy = (cd, rd, evd) ->
  exists n, Permutation (dtors (ev ++ evd)) (destroy_log (c_root c) ++ repeat WRAPPER n) /\
            destroy_log (c_root cd) = [].
Proof.
  intros Hd R D. destruct (run_x_wrappers _ _ _ _ R Hd) as (Hd' & n & P).
  cbn [api_step] in D. inv D. exists n. split; [|reflexivity].
  rewrite dtors_app, dtors_dlog, Hd'. rewrite <- P. apply Permutation_app_comm.
Qed.
