(* ParseWrite.v — the parser on the token stream of a written configuration (lemmas behind Properties_C01, the
   parser half of the round trip): the stream of the pieces of a writable tree is accepted and rebuilds that tree
   up to the property's equivalence (positions dropped, booleans normalised, NULL strings empty, integer format
   = the effective one). *)
From Coq Require Import List ZArith NArith Bool Lia.
Import ListNotations.
From LC Require Import Base BaseFacts Tree Fp Lookup Api ApiStep ScanAction FlexEngine Tokens Lexer Parser Reader
  TreeFacts ApiFacts InvFacts GrammarFacts Regex RegexFacts ScannerSpec ClassCert Writer WriterFacts LexRound LexWrite.
Local Open Scope Z_scope.

(* ---- what is observed of a tree: everything except hooks and positions ---- *)
Inductive otree := ON (name : option bytes) (pl : payload) (fmt : Z) (kids : list otree).

Fixpoint obs (s : setting) : otree :=
  let 'Setting n pl k f _ _ _ := s in ON n pl f (map obs k).

Lemma obs_set_pos s l fi : obs (set_pos s l fi) = obs s.
Proof. destruct s; reflexivity. Qed.

Section PW.
  Variable fmt_double : Z -> Z -> bool -> bytes.
  Variable atof : bytes -> Z.
  Variable c : cfg.
  Variable overrides : bool.

  Notation piece_tok := (piece_tok fmt_double atof c).
  Notation writable := (writable fmt_double atof c).
  Definition ptk (L : list piece) : list token := flat_map piece_tok L.
  Lemma ptk_app a b : ptk (a ++ b) = ptk a ++ ptk b.
  Proof. apply flat_map_app. Qed.

  (* the value the reader stores for a written scalar *)
  Definition npl (pl : payload) : payload :=
    match pl with
    | PBool v => PBool (if v =? 0 then 0 else 1)
    | PStr None => PStr (Some [])
    | PFloat b => PFloat (atof (ftext fmt_double c b))
    | other => other
    end.
  Definition nfmt (pl : payload) (f : Z) : Z :=
    match pl with
    | PInt _ | PInt64 _ => if eff c f =? 1 then 1 else 0
    | _ => 0
    end.

  (* the tree read back, as observed; [nm] is the name the context gives (None for elements) *)
  Fixpoint nobs (nm : option bytes) (s : setting) : otree :=
    let 'Setting _ pl k f _ _ _ := s in
    match pl with
    | PGroup => ON nm PGroup 0 (map (fun m => nobs (s_name m) m) k)
    | PList => ON nm PList 0 (map (nobs None) k)
    | PArray => ON nm PArray 0 (map (nobs None) k)
    | _ => ON nm (npl pl) (nfmt pl f) []
    end.

  (* ---- parser state primitives ---- *)
  Lemma peek_cons s t r : ptoks s = t :: r ->
    exists s1, peek s = (Some t, s1) /\ ptoks s1 = t :: r /\ p_root s1 = p_root s.
  Proof.
    intros H. destruct (peek s) as [o s1] eqn:P. destruct (peek_spec _ _ _ P) as (H1 & H2 & H3).
    destruct (peek_ptoks _ _ _ P) as [H4 H5]. rewrite H in H5. cbn in H5.
    exists s1. rewrite H4, H5. split; [reflexivity|]. split; [exact H | exact H2].
  Qed.

  Lemma shift_root s : p_root (shift s) = p_root s.
  Proof. reflexivity. Qed.

  Lemma ptoks_shift_cons s t r : ptoks s = t :: r -> ptoks (shift s) = r.
  Proof. intros H. rewrite ptoks_shift, H. reflexivity. Qed.

  Lemma expect_ok s p r : ptoks s = TkP p :: r ->
    (p = TEquals \/ p = TArrayEnd \/ p = TListEnd \/ p = TGroupEnd) ->
    exists s', expect s p = POk s' /\ ptoks s' = r /\ p_root s' = p_root s.
  Proof.
    intros H Hp. unfold expect. destruct (peek_cons s _ _ H) as (s1 & P & T1 & R1). rewrite P.
    exists (shift s1). split; [|split; [apply (ptoks_shift_cons _ _ _ T1) | rewrite shift_root; exact R1]].
    destruct Hp as [-> | [-> | [-> | ->]]]; reflexivity.
  Qed.

  (* ---- scalars ---- *)
  Definition scalar_pl (pl : payload) : Prop :=
    match pl with PGroup | PList | PArray | PNone => False | _ => True end.

  (* the token of a scalar piece and what the parser stores for it *)
  Lemma scalar_token pl f : scalar_ok fmt_double atof c pl ->
    exists t, piece_tok (PScalar pl f) = [t] /\
      ((exists sc, scalar_of t = Some sc /\ is_scalar_start t = true /\
                   (forall x, s_pl x = PNone \/ s_pl x = zero_payload (ty_of (npl pl)) ->
                              exists x', snd (fst sc) x = SOk x' /\ x' = set_pl x (npl pl)) /\
                   fst (fst sc) = ty_of (npl pl) /\
                   (forall x, s_pl x = npl pl -> s_fmt x = 0 -> apply_fmt (snd sc) x = set_fmt x (nfmt pl f)))
       \/ (exists v, t = TkString v /\ npl pl = PStr (Some v))).
  Proof.
    intros Hok. destruct pl as [| v | v | b | v | o | | |]; try contradiction; cbn [LexWrite.piece_tok].
    - (* int *)
      destruct (eff c f =? 1) eqn:E; eexists; (split; [reflexivity|]); left; eexists; (split; [reflexivity|]);
        (split; [reflexivity|]); cbn [fst snd npl nfmt ty_of zero_payload]; rewrite ?E.
      + split; [|split; [reflexivity|]].
        * intros x [Hx|Hx]; unfold n_set_int; rewrite Hx; eexists; split; reflexivity.
        * intros x Hx Hf. unfold apply_fmt, n_set_format. rewrite Hx. reflexivity.
      + split; [|split; [reflexivity|]].
        * intros x [Hx|Hx]; unfold n_set_int; rewrite Hx; eexists; split; reflexivity.
        * intros x Hx Hf. unfold apply_fmt, n_set_format. rewrite Hx. reflexivity.
    - (* int64 *)
      destruct (eff c f =? 1) eqn:E; eexists; (split; [reflexivity|]); left; eexists; (split; [reflexivity|]);
        (split; [reflexivity|]); cbn [fst snd npl nfmt ty_of zero_payload]; rewrite ?E.
      + split; [|split; [reflexivity|]].
        * intros x [Hx|Hx]; unfold n_set_int64; rewrite Hx; eexists; split; reflexivity.
        * intros x Hx Hf. unfold apply_fmt, n_set_format. rewrite Hx. reflexivity.
      + split; [|split; [reflexivity|]].
        * intros x [Hx|Hx]; unfold n_set_int64; rewrite Hx; eexists; split; reflexivity.
        * intros x Hx Hf. unfold apply_fmt, n_set_format. rewrite Hx. reflexivity.
    - (* float *)
      eexists; (split; [reflexivity|]); left; eexists; (split; [reflexivity|]); (split; [reflexivity|]);
        cbn [fst snd npl nfmt ty_of zero_payload].
      split; [|split; [reflexivity|]].
      + intros x [Hx|Hx]; unfold n_set_float; rewrite Hx; eexists; split; reflexivity.
      + intros x Hx Hf. cbn [apply_fmt]. destruct x; cbn in *; subst; reflexivity.
    - (* bool *)
      eexists; (split; [reflexivity|]); left; eexists; (split; [reflexivity|]); (split; [reflexivity|]);
        cbn [fst snd npl nfmt ty_of zero_payload].
      split; [|split; [reflexivity|]].
      + intros x [Hx|Hx]; unfold n_set_bool; rewrite Hx; eexists; split; reflexivity.
      + intros x Hx Hf. cbn [apply_fmt]. destruct x; cbn in *; subst; reflexivity.
    - (* string *)
      destruct o as [s|]; eexists; (split; [reflexivity|]); right; eexists; split; reflexivity.
  Qed.

  (* ---- tree surgery ---- *)
  Lemma upd_at_const p f r x : get_at p r = Some x -> upd_at p f r = upd_at p (fun _ => f x) r.
  Proof.
    intros G. pose proof (upd_at_app p [] f r x G) as H. cbn [upd_at] in H. rewrite app_nil_r in H. symmetry. exact H.
  Qed.

  Lemma list_upd_last {A} (l : list A) x f : list_upd (length l) f (l ++ [x]) = l ++ [f x].
  Proof. induction l as [|y l IH]; cbn; [reflexivity | f_equal; exact IH]. Qed.

  Lemma list_upd_same_const {A} i (f : A -> A) l k : nth_error l i = Some k -> list_upd i f l = list_upd i (fun _ => f k) l.
  Proof.
    revert i; induction l as [|x r IH]; intros [|i]; cbn [nth_error list_upd]; try discriminate.
    - intros [= ->]. reflexivity.
    - intros H. f_equal. apply IH. exact H.
  Qed.

  (* an update of child i of the setting at p *)
  Lemma upd_at_child p i g r P M : get_at p r = Some P -> nth_error (s_kids P) i = Some M ->
    upd_at (p ++ [i]) g r = upd_at p (fun _ => set_kids P (list_upd i (fun _ => g M) (s_kids P))) r.
  Proof.
    intros GP GM. rewrite <- (upd_at_app p [i] g r P GP).
    change (upd_at [i] g P) with (set_kids P (list_upd i (upd_at [] g) (s_kids P))).
    rewrite (list_upd_same_const i (upd_at [] g) (s_kids P) M GM). reflexivity.
  Qed.

  Definition no_str_hd (r : list token) : Prop := match r with TkString _ :: _ => False | _ => True end.

  (* the two places a value can be parsed into *)
  Definition elem_ctx (P v : setting) : Prop :=
    s_pl P = PList \/ (s_pl P = PArray /\ scalar_pl (s_pl v) /\ checktype P (ty_of (s_pl v)) = true).

  Lemma ty_of_npl pl : ty_of (npl pl) = ty_of pl.
  Proof. destruct pl as [| | | | | [?|] | | |]; reflexivity. Qed.

  (* one-step unfolding of p_value (the text of Parser.p_value) *)
  Lemma p_value_S f s parent cur simple :
    p_value overrides (S f) s parent cur simple =
    match peek s with
    | (None, s') => PFatal s'
    | (Some t, s') =>
        match t with
        | TkString _ =>
            match p_string f s' [] with
            | (None, s2) => PStuck s2
            | (Some v, s2) =>
                match act_scalar s2 parent cur (string_scalar v) with
                | Some s3 => POk s3
                | None => PErr PErrMismatch s2
                end
            end
        | TkP TArrayStart => if simple then PErr PErrSyntax s' else p_agg overrides f (shift s') parent cur KArr
        | TkP TListStart => if simple then PErr PErrSyntax s' else p_agg overrides f (shift s') parent cur KLst
        | TkP TGroupStart => if simple then PErr PErrSyntax s' else p_agg overrides f (shift s') parent cur KGrp
        | _ =>
            match scalar_of t with
            | Some sc =>
                let s2 := shift s' in
                match act_scalar s2 parent cur sc with
                | Some s3 => POk s3
                | None => PErr PErrMismatch s2
                end
            | None => PErr PErrSyntax s'
            end
        end
    end.
  Proof. reflexivity. Qed.

  (* ---- a scalar value ---- *)
  (* act_scalar in an aggregate *)
  Lemma act_scalar_elem s parent P t st fmt e :
    get_at parent (p_root s) = Some P -> (s_pl P = PList \/ s_pl P = PArray) -> checktype P t = true ->
    st (new_setting None t) = SOk e ->
    exists v', act_scalar s parent None (t, st, fmt) = Some (set_proot s (upd_at parent (fun _ => set_kids P (s_kids P ++ [v'])) (p_root s))) /\
               obs v' = obs (apply_fmt fmt e).
  Proof.
    intros GP HP Hc Hst. unfold act_scalar, in_agg, ty_at. rewrite GP.
    assert (Hag : match s_ty P with TArray | TList => true | _ => false end = true).
    { unfold s_ty. destruct HP as [-> | ->]; reflexivity. }
    rewrite Hag. unfold n_set_elem.
    assert (Hty : s_ty P = TList \/ s_ty P = TArray) by (unfold s_ty; destruct HP as [-> | ->]; auto).
    replace (-1 <? 0) with true by reflexivity.
    destruct Hty as [E|E]; rewrite E, Hc, Hst; rewrite s_kids_set_kids, list_upd_last, set_kids_set_kids;
      (eexists; split; [reflexivity | apply obs_set_pos]).
  Qed.

  Lemma scalar_value v :
    scalar_pl (s_pl v) -> scalar_ok fmt_double atof c (s_pl v) ->
    forall fuel s parent cur simple depth rest P,
      (3 <= fuel)%nat -> 0 < depth -> no_str_hd rest ->
      ptoks s = ptk (pieces c v depth) ++ rest ->
      get_at parent (p_root s) = Some P ->
      (cur = None -> elem_ctx P v ->
         exists s' v', p_value overrides fuel s parent cur simple = POk s' /\ ptoks s' = rest /\
                       obs v' = nobs None v /\
                       p_root s' = upd_at parent (fun _ => set_kids P (s_kids P ++ [v'])) (p_root s)) /\
      (forall i M, cur = @Some ipath (parent ++ [i]) -> s_pl P = PGroup -> nth_error (s_kids P) i = Some M ->
         s_pl M = PNone -> s_kids M = [] -> s_fmt M = 0 ->
         exists s' v', p_value overrides fuel s parent cur simple = POk s' /\ ptoks s' = rest /\
                       obs v' = nobs (s_name M) v /\
                       p_root s' = upd_at parent (fun _ => set_kids P (list_upd i (fun _ => v') (s_kids P))) (p_root s)).
  Proof.
    intros Hsc Hok fuel s parent cur simple depth rest P Hfuel Hd Hns Htok GP.
    destruct v as [vn pl vk vf vh vl vfi]. cbn [s_pl] in *.
    assert (Hp : pieces c (Setting vn pl vk vf vh vl vfi) depth = [PScalar pl vf]) by (destruct pl; try contradiction; reflexivity).
    rewrite Hp in Htok. unfold ptk in Htok. cbn [flat_map] in Htok. rewrite app_nil_r in Htok.
    assert (Hnobs : forall nm, nobs nm (Setting vn pl vk vf vh vl vfi) = ON nm (npl pl) (nfmt pl vf) []).
    { intros nm. destruct pl; try contradiction; reflexivity. }
    destruct fuel as [|[|[|f]]]; try lia.
    destruct (scalar_token pl vf Hok) as (t & Et & [ (sc & Esc & Hst & Hset & Hty & Hfmt) | (str & -> & Enpl) ]);
      rewrite Et in Htok; cbn [app] in Htok.
    - (* a numeric or boolean token *)
      destruct (peek_cons s _ _ Htok) as (s1 & P1 & T1 & R1).
      assert (Hpv : p_value overrides (S (S (S f))) s parent cur simple =
                    match act_scalar (shift s1) parent cur sc with
                    | Some s3 => POk s3 | None => PErr PErrMismatch (shift s1) end).
      { rewrite p_value_S, P1. destruct t; cbn [scalar_of] in Esc; try discriminate Esc; injection Esc as <-; reflexivity. }
      destruct sc as [[ty st] fmt]. cbn [fst snd] in *.
      rewrite Hpv. clear Hpv.
      assert (GP1 : get_at parent (p_root (shift s1)) = Some P) by (rewrite shift_root, R1; exact GP).
      split.
      + intros -> Hctx.
        assert (HP : s_pl P = PList \/ s_pl P = PArray) by (destruct Hctx as [H|[H _]]; auto).
        assert (Hc : checktype P ty = true).
        { destruct Hctx as [H|(H & _ & Hc)].
          - unfold checktype, s_ty. rewrite H. destruct (s_kids P); reflexivity.
          - rewrite Hty, ty_of_npl. exact Hc. }
        destruct (Hset (new_setting None ty)) as (e & Ee & ->).
        { right. cbn. rewrite Hty. reflexivity. }
        destruct (act_scalar_elem (shift s1) parent P ty st fmt _ GP1 HP Hc Ee) as (v' & Ea & Ov).
        rewrite Ea. eexists _, v'. split; [reflexivity|]. split; [apply (ptoks_shift_cons _ _ _ T1)|]. split.
        * rewrite Ov, Hnobs. rewrite Hfmt; [reflexivity | reflexivity | reflexivity].
        * cbn [p_root set_proot]. rewrite shift_root, R1. reflexivity.
      + intros i M -> HP GM HM Hk Hf0.
        unfold act_scalar, in_agg, ty_at. rewrite GP1. unfold s_ty. rewrite HP. cbn [ty_of].
        destruct (Hset M (or_introl HM)) as (e & Ee & ->).
        eexists _, _. split; [reflexivity|]. split; [apply (ptoks_shift_cons _ _ _ T1)|]. split.
        2: { cbn [p_root set_proot]. rewrite shift_root, R1.
             rewrite (upd_at_child parent i _ (p_root s) P M GP GM). rewrite Ee. reflexivity. }
        rewrite Hnobs. rewrite Hfmt; [| destruct M; reflexivity | destruct M; cbn in *; exact Hf0].
        destruct M as [mn mpl mk mf mh ml mfi]. cbn in *. subst. reflexivity.
    - (* a string *)
      destruct (peek_cons s _ _ Htok) as (s1 & P1 & T1 & R1).
      (* p_string: this string, then the look-ahead *)
      assert (Hps : exists s2, p_string (S (S f)) s1 [] = (Some str, s2) /\ ptoks s2 = rest /\ p_root s2 = p_root s).
      { destruct (peek_cons s1 _ _ T1) as (s1b & P1b & T1b & R1b).
        cbn [p_string]. rewrite P1b.
        assert (T2 : ptoks (shift s1b) = rest) by (apply (ptoks_shift_cons _ _ _ T1b)).
        destruct rest as [|t2 r2].
        - destruct (peek (shift s1b)) as [o s2] eqn:P2. destruct (peek_ptoks _ _ _ P2) as [H1 H2]. rewrite T2 in H2. cbn in H2. subst o.
          destruct (peek_spec _ _ _ P2) as (_ & R2 & _).
          exists s2. cbn [app]. split; [reflexivity|]. split; [rewrite H1; exact T2 | rewrite R2, shift_root, R1b; exact R1].
        - destruct (peek_cons (shift s1b) _ _ T2) as (s2 & P2 & T2' & R2). rewrite P2.
          exists s2. cbn [app]. split; [destruct t2; try reflexivity; contradiction|]. split; [exact T2' | rewrite R2, shift_root, R1b; exact R1]. }
      destruct Hps as (s2 & Eps & T2 & R2).
      assert (Hpv : p_value overrides (S (S (S f))) s parent cur simple =
                    match act_scalar s2 parent cur (string_scalar str) with
                    | Some s3 => POk s3 | None => PErr PErrMismatch s2 end).
      { rewrite p_value_S, P1, Eps. reflexivity. }
      rewrite Hpv. clear Hpv.
      assert (GP2 : get_at parent (p_root s2) = Some P) by (rewrite R2; exact GP).
      assert (Epl : ty_of pl = TString) by (rewrite <- ty_of_npl, Enpl; reflexivity).
      split.
      + intros -> Hctx.
        assert (HP : s_pl P = PList \/ s_pl P = PArray) by (destruct Hctx as [H|[H _]]; auto).
        assert (Hc : checktype P TString = true).
        { destruct Hctx as [H|(H & _ & Hc)].
          - unfold checktype, s_ty. rewrite H. destruct (s_kids P); reflexivity.
          - rewrite <- Epl. exact Hc. }
        destruct (act_scalar_elem s2 parent P TString (fun x => n_set_string x (Some str)) None
                    (set_pl (new_setting None TString) (PStr (Some str))) GP2 HP Hc eq_refl) as (v' & Ea & Ov).
        unfold string_scalar. rewrite Ea. eexists _, v'. split; [reflexivity|]. split; [exact T2|]. split.
        * rewrite Ov, Hnobs, Enpl. assert (Ef : nfmt pl vf = 0) by (destruct pl; try discriminate Epl; reflexivity). rewrite Ef. reflexivity.
        * cbn [p_root set_proot]. rewrite R2. reflexivity.
      + intros i M -> HP GM HM Hk Hf0.
        unfold act_scalar, string_scalar, in_agg, ty_at. rewrite GP2. unfold s_ty. rewrite HP. cbn [ty_of].
        eexists _, _. split; [reflexivity|]. split; [exact T2|]. split.
        2: { cbn [p_root set_proot]. rewrite R2.
             rewrite (upd_at_child parent i _ (p_root s) P M GP GM). reflexivity. }
        rewrite Hnobs, Enpl. assert (Ef : nfmt pl vf = 0) by (destruct pl; try discriminate Epl; reflexivity). rewrite Ef.
        unfold n_set_string. rewrite HM. cbn [apply_fmt].
        destruct M as [mn mpl mk mf mh ml mfi]. cbn in *. subst. reflexivity.
  Qed.

  (* ---- the token stream of the pieces of a tree ---- *)
  Lemma ptk_list n pl kids f h l fi depth : pl = PList \/ pl = PArray ->
    ptk (pieces c (Setting n pl kids f h l fi) depth) =
    TkP (match pl with PList => TListStart | _ => TArrayStart end) :: ptk (elems_pieces c depth kids) ++
    [TkP (match pl with PList => TListEnd | _ => TArrayEnd end)].
  Proof.
    intros H. rewrite (list_pieces c n pl kids f h l fi depth H). unfold ptk. rewrite !flat_map_app.
    destruct H as [-> | ->]; reflexivity.
  Qed.

  Definition ctoks (depth : Z) (e : setting) : list token := TkP TComma :: ptk (pieces c e (depth + 1)).

  Lemma ptk_elems depth e r :
    ptk (elems_pieces c depth (e :: r)) = ptk (pieces c e (depth + 1)) ++ flat_map (ctoks depth) r.
  Proof.
    revert e. induction r as [|e2 r2 IH]; intros e.
    - cbn [elems_pieces flat_map]. rewrite ptk_app. cbn. rewrite app_nil_r. reflexivity.
    - rewrite elems_pieces_cons, !ptk_app, IH. reflexivity.
  Qed.

  Definition semi_toks : list token := if get_option c OPT_SEMICOLON then [TkP TSemicolon] else [].
  Definition mtoks (d : Z) (m : setting) : list token :=
    match s_name m with Some n => [TkName n; TkP TEquals] | None => [] end ++ ptk (pieces c m d) ++ semi_toks.

  Lemma ptk_member d m : 0 < d -> ptk (member_line c m d) = mtoks d m.
  Proof.
    intros Hd. unfold member_line, mtoks. replace (0 <? d) with true by (symmetry; apply Z.ltb_lt; exact Hd).
    rewrite !ptk_app.
    assert (E1 : ptk (if 1 <? d then [PIndent d] else []) = []) by (destruct (1 <? d); reflexivity).
    assert (E2 : ptk (match s_name m with
                      | Some n => [PName n; PSp; PAssign (ty_eqb (s_ty m) TGroup); PSp]
                      | None => [] end) = match s_name m with Some n => [TkName n; TkP TEquals] | None => [] end)
      by (destruct (s_name m); reflexivity).
    assert (E3 : ptk (semi_pieces c) ++ ptk [PNl] = semi_toks)
      by (unfold semi_pieces, semi_toks; destruct (get_option c OPT_SEMICOLON); reflexivity).
    rewrite E1, E2, E3. reflexivity.
  Qed.

  (* ---- fuel ---- *)
  Fixpoint cost (s : setting) : nat :=
    let 'Setting _ pl kids _ _ _ _ := s in
    match pl with
    | PList | PArray | PGroup =>
        (3 + (fix cl (l : list setting) : nat := match l with [] => 1 | e :: r => 1 + cost e + cl r end) kids)%nat
    | _ => 3%nat
    end.
  Fixpoint clist (l : list setting) : nat := match l with [] => 1%nat | e :: r => (1 + cost e + clist r)%nat end.
  Lemma cost_agg n pl kids f h l fi : pl = PList \/ pl = PArray \/ pl = PGroup ->
    cost (Setting n pl kids f h l fi) = (3 + clist kids)%nat.
  Proof.
    intros [-> | [-> | ->]]; cbn [cost]; f_equal; induction kids as [|e r IH]; cbn [clist]; try reflexivity; rewrite IH; reflexivity.
  Qed.

  (* ---- the statement for one value ---- *)
  Definition val_ok (v : setting) : Prop :=
    forall fuel s parent cur simple depth rest P,
      (cost v <= fuel)%nat -> 0 < depth -> no_str_hd rest ->
      ptoks s = ptk (pieces c v depth) ++ rest ->
      get_at parent (p_root s) = Some P ->
      (simple = true -> scalar_pl (s_pl v)) ->
      (cur = None -> elem_ctx P v ->
         exists s' v', p_value overrides fuel s parent cur simple = POk s' /\ ptoks s' = rest /\
                       obs v' = nobs None v /\
                       p_root s' = upd_at parent (fun _ => set_kids P (s_kids P ++ [v'])) (p_root s)) /\
      (forall i M, cur = @Some ipath (parent ++ [i]) -> s_pl P = PGroup -> nth_error (s_kids P) i = Some M ->
         s_pl M = PNone -> s_kids M = [] -> s_fmt M = 0 -> simple = false ->
         exists s' v', p_value overrides fuel s parent cur simple = POk s' /\ ptoks s' = rest /\
                       obs v' = nobs (s_name M) v /\
                       p_root s' = upd_at parent (fun _ => set_kids P (list_upd i (fun _ => v') (s_kids P))) (p_root s)).

  (* the first token of a value starts a value *)
  Definition first_ok (v : setting) : Prop :=
    forall depth, 0 < depth -> exists t r, ptk (pieces c v depth) = t :: r /\ is_value_start false t = true /\
                              (scalar_pl (s_pl v) -> is_value_start true t = true).

  Lemma obs_pl v n pl f k : obs v = ON n pl f k -> s_pl v = pl /\ s_name v = n /\ s_fmt v = f.
  Proof. destruct v; cbn. intros H; injection H as -> -> -> _. auto. Qed.

  Lemma nobs_pl nm v : exists f k, nobs nm v = ON nm (match s_pl v with PGroup => PGroup | PList => PList | PArray => PArray | p => npl p end) f k.
  Proof. destruct v as [n pl k f h l fi]. destruct pl; cbn; eexists _, _; reflexivity. Qed.

  Lemma peek_post s t r : ptoks s = t :: r -> forall s1, peek s = (Some t, s1) -> ptoks s1 = t :: r /\ p_root s1 = p_root s.
  Proof.
    intros H s1 P. destruct (peek_ptoks _ _ _ P) as [H1 _]. destruct (peek_spec _ _ _ P) as (_ & H2 & _).
    rewrite H1. auto.
  Qed.

  (* ---- the elements after the first one ---- *)
  Definition arr_ctx (Q : setting) (es : list setting) : Prop :=
    s_pl Q = PList \/
    (s_pl Q = PArray /\ exists T, (forall k0, hd_error (s_kids Q) = Some k0 -> s_ty k0 = T) /\
                                  Forall (fun e => scalar_pl (s_pl e) /\ ty_of (s_pl e) = T) es).

  Lemma arr_ctx_elem Q e r : arr_ctx Q (e :: r) -> elem_ctx Q e.
  Proof.
    intros [H | (H & T & Hh & Hf)]; [left; exact H | right]. inversion Hf as [|? ? [Hs Ht] _]; subst.
    split; [exact H|]. split; [exact Hs|]. unfold checktype. destruct (s_kids Q) as [|k0 ks] eqn:Ek; [reflexivity|].
    unfold s_ty at 1. rewrite H. cbn [ty_of]. rewrite (Hh k0) by reflexivity. unfold ty_eqb. apply Z.eqb_refl.
  Qed.

  Lemma arr_ctx_next Q e r v' : arr_ctx Q (e :: r) -> obs v' = nobs None e ->
    arr_ctx (set_kids Q (s_kids Q ++ [v'])) r.
  Proof.
    intros [H | (H & T & Hh & Hf)] Ho; [left; rewrite s_pl_set_kids; exact H | right].
    rewrite s_pl_set_kids, s_kids_set_kids. split; [exact H|]. exists T. inversion Hf as [|? ? [Hs Ht] Hr]; subst. split; [|exact Hr].
    intros k0 Hk. destruct (s_kids Q) as [|q0 qs] eqn:Ek.
    - cbn in Hk. injection Hk as <-. destruct (nobs_pl None e) as (f & k & En). rewrite En in Ho.
      destruct (obs_pl _ _ _ _ _ Ho) as (Hp & _). unfold s_ty. rewrite Hp.
      destruct (s_pl e); try contradiction; try reflexivity. destruct s; reflexivity.
    - cbn in Hk. injection Hk as <-. apply Hh. reflexivity.
  Qed.

  Lemma elems_tail simple depth cl es : (cl = TListEnd \/ cl = TArrayEnd) -> 0 <= depth ->
    Forall (fun e => val_ok e /\ first_ok e /\ (simple = true -> scalar_pl (s_pl e))) es ->
    forall fuel s np rest Q,
      (clist es <= fuel)%nat ->
      ptoks s = flat_map (ctoks depth) es ++ TkP cl :: rest ->
      get_at np (p_root s) = Some Q -> arr_ctx Q es ->
      exists s' vs, p_elems overrides fuel s np simple false = POk s' /\ ptoks s' = TkP cl :: rest /\
                    Forall2 (fun v' e => obs v' = nobs None e) vs es /\
                    p_root s' = upd_at np (fun _ => set_kids Q (s_kids Q ++ vs)) (p_root s).
  Proof.
    intros Hcl Hd H. induction H as [|e r (Hv & Hfst & Hsim) Hr IH]; intros fuel s np rest Q Hf Htok GQ Hctx.
    - cbn [clist] in Hf. destruct fuel as [|f]; [lia|]. cbn [flat_map app] in Htok.
      rewrite p_elems_S. destruct (peek_cons s _ _ Htok) as (s1 & P1 & T1 & R1). rewrite P1.
      exists s1, []. split; [destruct Hcl as [-> | ->]; reflexivity|]. split; [exact T1|]. split; [constructor|].
      rewrite R1, app_nil_r. symmetry. apply (upd_at_id np _ _ Q GQ). apply set_kids_same.
    - cbn [clist] in Hf. destruct fuel as [|f]; [lia|]. cbn [flat_map] in Htok. unfold ctoks at 1 in Htok.
      cbn [app] in Htok. rewrite <- app_assoc in Htok.
      rewrite p_elems_S. destruct (peek_cons s _ _ Htok) as (s1 & P1 & T1 & R1). rewrite P1. cbv zeta.
      pose proof (ptoks_shift_cons _ _ _ T1) as T2.
      destruct (Hfst (depth + 1) ltac:(lia)) as (t2 & r2 & Et & Hvs & Hvs').
      assert (T2' : ptoks (shift s1) = t2 :: (r2 ++ flat_map (ctoks depth) r ++ TkP cl :: rest)) by (rewrite T2, Et; reflexivity).
      destruct (peek_cons (shift s1) _ _ T2') as (s3 & P3 & T3' & R3). rewrite P3.
      assert (Hstart : is_value_start simple t2 = true).
      { destruct simple; [apply Hvs'; apply Hsim; reflexivity | exact Hvs]. }
      rewrite Hstart.
      assert (T3 : ptoks s3 = ptk (pieces c e (depth + 1)) ++ flat_map (ctoks depth) r ++ TkP cl :: rest) by (rewrite T3', Et; reflexivity).
      assert (G3 : get_at np (p_root s3) = Some Q) by (rewrite R3, shift_root, R1; exact GQ).
      destruct (Hv f s3 np None simple (depth + 1) (flat_map (ctoks depth) r ++ TkP cl :: rest) Q
                   ltac:(lia) ltac:(lia)) as [HA _]; try assumption.
      { destruct r; cbn; exact I. }
      destruct (HA eq_refl (arr_ctx_elem _ _ _ Hctx)) as (s4 & v' & E4 & T4 & O4 & R4). rewrite E4.
      assert (G4 : get_at np (p_root s4) = Some (set_kids Q (s_kids Q ++ [v']))).
      { rewrite R4. exact (get_at_upd_at_same np (fun _ => set_kids Q (s_kids Q ++ [v'])) _ Q G3). }
      destruct (IH f s4 np rest _ ltac:(lia) T4 G4 (arr_ctx_next _ _ _ _ Hctx O4)) as (s5 & vs & E5 & T5 & F5 & R5).
      exists s5, (v' :: vs). split; [exact E5|]. split; [exact T5|]. split; [constructor; assumption|].
      rewrite R5, R4, upd_at_compose, R3, shift_root, R1. rewrite s_kids_set_kids, set_kids_set_kids, <- app_assoc. reflexivity.
  Qed.

  (* ---- members of a group ---- *)
  Lemma find_index_none {A} (p : A -> bool) l : (forall x, In x l -> p x = false) -> find_index p l = None.
  Proof.
    induction l as [|x r IH]; intros H; [reflexivity|]. cbn [find_index]. rewrite (H x (or_introl eq_refl)).
    rewrite IH; [reflexivity|]. intros y Hy. apply H. right. exact Hy.
  Qed.

  Lemma act_name_ok s parent P n :
    get_at parent (p_root s) = Some P -> s_pl P = PGroup -> validate_name n = true ->
    ~ In (Some n) (map s_name (s_kids P)) ->
    exists M, act_name overrides s parent n =
                Some (set_proot s (upd_at parent (fun _ => set_kids P (s_kids P ++ [M])) (p_root s)),
                      parent ++ [length (s_kids P)]) /\
              s_name M = Some n /\ s_pl M = PNone /\ s_kids M = [] /\ s_fmt M = 0.
  Proof.
    intros GP HP Hv Hfresh. unfold act_name. rewrite GP. unfold n_add.
    change (ty_of_code 0) with (Some TNone).
    assert (Ety : s_ty P = TGroup) by (unfold s_ty; rewrite HP; reflexivity).
    rewrite Ety. unfold ty_eqb. cbn [ty_code]. change (1 =? 7) with false. change (1 =? 8) with false.
    cbn [andb orb]. cbv zeta. rewrite Hv. cbn [negb].
    assert (Hm : get_member P (Some n) = None).
    { unfold get_member. rewrite Ety. unfold list_search. apply find_index_none. intros k Hk. unfold name_is.
      destruct (s_name k) as [kn|] eqn:Ekn; [|reflexivity].
      destruct (bytes_eqb kn n) eqn:Eb; [|reflexivity]. exfalso. apply Hfresh.
      apply bytes_eqb_eq in Eb. subst kn. rewrite <- Ekn. apply in_map. exact Hk. }
    rewrite Hm. unfold n_create. rewrite Ety. cbn [ty_is_aggregate].
    rewrite s_kids_set_kids, list_upd_last, set_kids_set_kids.
    eexists. split; [reflexivity|]. repeat split.
  Qed.

  Definition closer (rest : list token) : Prop :=
    match rest with TkP TGroupEnd :: _ | TkEOF :: _ => True | _ => False end.

  Lemma members_ok d ms : 0 < d ->
    Forall (fun m => val_ok m /\ exists n, s_name m = Some n /\ validate_name n = true) ms ->
    forall fuel s parent rest P,
      (clist ms <= fuel)%nat -> closer rest ->
      ptoks s = flat_map (mtoks d) ms ++ rest ->
      get_at parent (p_root s) = Some P -> s_pl P = PGroup ->
      NoDup (map s_name (s_kids P) ++ map s_name ms) ->
      exists s' vs, p_settings overrides fuel s parent = POk s' /\ ptoks s' = rest /\
                    Forall2 (fun v' m => obs v' = nobs (s_name m) m) vs ms /\
                    p_root s' = upd_at parent (fun _ => set_kids P (s_kids P ++ vs)) (p_root s).
  Proof.
    intros Hd H. induction H as [|m r (Hv & n & En & Hvn) Hr IH]; intros fuel s parent rest P Hf Hcl Htok GP HP Hnd.
    - cbn [clist] in Hf. destruct fuel as [|f]; [lia|]. cbn [flat_map app] in Htok.
      rewrite p_settings_S. destruct rest as [|t0 r0]; [contradiction|].
      destruct (peek_cons s _ _ Htok) as (s1 & P1 & T1 & R1). rewrite P1.
      exists s1, []. split; [destruct t0; try contradiction; try reflexivity; destruct t; try contradiction; reflexivity|].
      split; [exact T1|]. split; [constructor|].
      rewrite R1, app_nil_r. symmetry. apply (upd_at_id parent _ _ P GP). apply set_kids_same.
    - cbn [clist] in Hf. destruct fuel as [|f]; [lia|]. cbn [flat_map] in Htok. unfold mtoks at 1 in Htok.
      rewrite En in Htok. cbn [app] in Htok. rewrite <- !app_assoc in Htok.
      rewrite p_settings_S. destruct (peek_cons s _ _ Htok) as (s1 & P1 & T1 & R1). rewrite P1. cbv zeta.
      pose proof (ptoks_shift_cons _ _ _ T1) as T2.
      (* the name is fresh *)
      assert (Hfresh : ~ In (Some n) (map s_name (s_kids P))).
      { intros Hin. cbn [map] in Hnd. apply NoDup_remove_2 in Hnd. apply Hnd. apply in_or_app. left. rewrite En. exact Hin. }
      destruct (act_name_ok (shift s1) parent P n ltac:(rewrite shift_root, R1; exact GP) HP Hvn Hfresh)
        as (M & Ea & Mn & Mp & Mk & Mf).
      rewrite Ea.
      set (i := length (s_kids P)). set (P1' := set_kids P (s_kids P ++ [M])).
      set (s2 := set_proot (shift s1) (upd_at parent (fun _ => P1') (p_root (shift s1)))).
      assert (T2s : ptoks s2 = TkP TEquals :: ptk (pieces c m d) ++ semi_toks ++ flat_map (mtoks d) r ++ rest) by exact T2.
      destruct (expect_ok s2 TEquals _ T2s (or_introl eq_refl)) as (s3 & E3 & T3 & R3). rewrite E3.
      assert (G3 : get_at parent (p_root s3) = Some P1').
      { rewrite R3. unfold s2. cbn [p_root set_proot]. rewrite shift_root, R1.
        exact (get_at_upd_at_same parent (fun _ => P1') _ P GP). }
      assert (GM : nth_error (s_kids P1') i = Some M).
      { unfold P1', i. rewrite s_kids_set_kids, nth_error_app2 by lia. rewrite Nat.sub_diag. reflexivity. }
      destruct (Hv f s3 parent (@Some ipath (parent ++ [i])) false d (semi_toks ++ flat_map (mtoks d) r ++ rest) P1'
                   ltac:(lia) Hd) as [_ HG]; try assumption.
      { unfold semi_toks. destruct (get_option c OPT_SEMICOLON); cbn [app]; [exact I|].
        destruct r as [|m2 r2]; cbn [flat_map app].
        - destruct rest as [|t0 r0]; [exact I|]. destruct t0; try exact I; contradiction.
        - unfold mtoks. inversion Hr as [|? ? (_ & n2 & En2 & _) _]; subst. rewrite En2. exact I. }
      { discriminate. }
      destruct (HG i M eq_refl ltac:(unfold P1'; rewrite s_pl_set_kids; exact HP) GM Mp Mk Mf eq_refl)
        as (s4 & v' & E4 & T4 & O4 & R4).
      rewrite E4.
      (* the terminator *)
      set (P2 := set_kids P (s_kids P ++ [v'])).
      assert (R4' : p_root s4 = upd_at parent (fun _ => P2) (p_root s)).
      { rewrite R4, R3. unfold s2. cbn [p_root set_proot]. rewrite shift_root, R1, upd_at_compose.
        unfold P2, P1', i. rewrite s_kids_set_kids, list_upd_last, set_kids_set_kids. reflexivity. }
      assert (Hs6 : exists s6, (match peek s4 with
                                | (Some (TkP TSemicolon), s5) => shift s5
                                | (Some (TkP TComma), s5) => shift s5
                                | (_, s5) => s5 end) = s6 /\
                               ptoks s6 = flat_map (mtoks d) r ++ rest /\ p_root s6 = p_root s4).
      { unfold semi_toks in T4. destruct (get_option c OPT_SEMICOLON).
        - cbn [app] in T4. destruct (peek_cons s4 _ _ T4) as (s5 & P5 & T5 & R5). rewrite P5.
          eexists. split; [reflexivity|]. split; [apply (ptoks_shift_cons _ _ _ T5) | rewrite shift_root; exact R5].
        - cbn [app] in T4. destruct (flat_map (mtoks d) r ++ rest) as [|t0 r0] eqn:Er.
          + destruct (flat_map (mtoks d) r); [cbn in Er; subst rest; contradiction | discriminate].
          + destruct (peek_cons s4 _ _ T4) as (s5 & P5 & T5 & R5). rewrite P5.
            assert (Hnt : t0 <> TkP TSemicolon /\ t0 <> TkP TComma).
            { destruct r as [|m2 r2]; cbn [flat_map app] in Er.
              - subst rest. destruct t0; try (split; discriminate). destruct t; try contradiction; split; discriminate.
              - unfold mtoks in Er. inversion Hr as [|? ? (_ & n2 & En2 & _) _]; subst. rewrite En2 in Er. cbn in Er.
                injection Er as <- _. split; discriminate. }
            exists s5. split; [|split; [exact T5 | exact R5]].
            destruct t0; try reflexivity. destruct t; try reflexivity; destruct Hnt; congruence. }
      destruct Hs6 as (s6 & E6 & T6 & R6). rewrite E6.
      assert (G6 : get_at parent (p_root s6) = Some P2).
      { rewrite R6, R4'. exact (get_at_upd_at_same parent (fun _ => P2) _ P GP). }
      assert (Hnd2 : NoDup (map s_name (s_kids P2) ++ map s_name r)).
      { unfold P2. rewrite s_kids_set_kids, map_app. cbn [map]. rewrite <- app_assoc. cbn [app].
        destruct (nobs_pl (s_name M) m) as (ff & kk & Enb). rewrite Enb in O4.
        destruct (obs_pl _ _ _ _ _ O4) as (_ & Hnm & _). rewrite Hnm, Mn, <- En. exact Hnd. }
      destruct (IH f s6 parent rest P2 ltac:(lia) Hcl T6 G6 ltac:(unfold P2; rewrite s_pl_set_kids; exact HP) Hnd2)
        as (s7 & vs & E7 & T7 & F7 & R7).
      exists s7, (v' :: vs). split; [exact E7|]. split; [exact T7|]. split.
      + constructor; [rewrite En, <- Mn; exact O4 | exact F7].
      + rewrite R7, R6, R4', upd_at_compose. unfold P2. rewrite s_kids_set_kids, set_kids_set_kids, <- app_assoc. reflexivity.
  Qed.

  (* ---- opening an aggregate ---- *)
  Definition kpl (pl : payload) : aggk := match pl with PList => KLst | PArray => KArr | _ => KGrp end.

  (* in a list: a fresh aggregate is appended *)
  Lemma act_open_elem s parent P k :
    get_at parent (p_root s) = Some P -> s_pl P = PList ->
    exists Q0, act_open overrides s parent None k =
                 Some (set_proot s (upd_at parent (fun _ => set_kids P (s_kids P ++ [Q0])) (p_root s)),
                       parent ++ [length (s_kids P)]) /\
               s_name Q0 = None /\ s_pl Q0 = aggk_pl k /\ s_kids Q0 = [] /\ s_fmt Q0 = 0.
  Proof.
    intros GP HP. unfold act_open, ty_at. rewrite GP.
    assert (Ety : s_ty P = TList) by (unfold s_ty; rewrite HP; reflexivity). rewrite Ety.
    unfold n_add.
    assert (Ec : exists t, ty_of_code (aggk_code k) = Some t /\ zero_payload t = aggk_pl k /\ ty_is_scalar t = false)
      by (destruct k; eexists; repeat split).
    destruct Ec as (t & -> & Ez & Es).
    rewrite Ety. unfold ty_eqb. cbn [ty_code]. change (8 =? 7) with false. change (8 =? 8) with true.
    cbn [andb orb]. cbv zeta. cbn [negb]. unfold get_member. rewrite Ety. unfold n_create. rewrite Ety. cbn [ty_is_aggregate].
    rewrite s_kids_set_kids, list_upd_last, set_kids_set_kids.
    eexists. split; [reflexivity|]. unfold new_setting. cbn. rewrite Ez. repeat split.
  Qed.

  (* as the value of the member just created: its type is set *)
  Lemma act_open_member s parent P i M k :
    get_at parent (p_root s) = Some P -> s_pl P = PGroup -> nth_error (s_kids P) i = Some M ->
    act_open overrides s parent (@Some ipath (parent ++ [i])) k =
      Some (set_proot s (upd_at parent (fun _ => set_kids P (list_upd i (fun _ => set_pl M (aggk_pl k)) (s_kids P))) (p_root s)),
            parent ++ [i]).
  Proof.
    intros GP HP GM. unfold act_open, ty_at. rewrite GP. unfold s_ty. rewrite HP. cbn [ty_of].
    rewrite (upd_at_child parent i _ (p_root s) P M GP GM). reflexivity.
  Qed.

  (* ---- the first token of a value ---- *)
  Lemma first_ok_all v : writable v -> first_ok v.
  Proof.
    intros Hw depth Hd. destruct v as [n pl kids f h l fi].
    destruct pl as [| z | z | b | z | o | | |].
    1-6: cbn [pieces]; unfold ptk; cbn [flat_map LexWrite.piece_tok app s_pl scalar_pl].
    - destruct Hw.
    - destruct (eff c f =? 1); eexists _, _; repeat split.
    - destruct (eff c f =? 1); eexists _, _; repeat split.
    - eexists _, _; repeat split.
    - eexists _, _; repeat split.
    - destruct o; eexists _, _; repeat split.
    - (* group *)
      cbn [pieces]. unfold ptk. replace (0 <? depth) with true by (symmetry; apply Z.ltb_lt; exact Hd).
      destruct (get_option c OPT_BRACE_NEWLINE); [destruct (1 <? depth)|];
        cbn [flat_map LexWrite.piece_tok app]; eexists _, _; (split; [reflexivity|]); (split; [reflexivity | intros []]).
    - rewrite (ptk_list n PArray kids f h l fi depth (or_intror eq_refl)).
      eexists _, _; split; [reflexivity|]; split; [reflexivity | intros []].
    - rewrite (ptk_list n PList kids f h l fi depth (or_introl eq_refl)).
      eexists _, _; split; [reflexivity|]; split; [reflexivity | intros []].
  Qed.

  (* ---- all the elements of a list or array ---- *)
  Lemma elems_all simple depth cl es : (cl = TListEnd \/ cl = TArrayEnd) -> 0 <= depth ->
    Forall (fun e => val_ok e /\ first_ok e /\ (simple = true -> scalar_pl (s_pl e))) es ->
    forall fuel s np rest Q,
      (clist es <= fuel)%nat ->
      ptoks s = ptk (elems_pieces c depth es) ++ TkP cl :: rest ->
      get_at np (p_root s) = Some Q -> arr_ctx Q es ->
      exists s' vs, p_elems overrides fuel s np simple true = POk s' /\ ptoks s' = TkP cl :: rest /\
                    Forall2 (fun v' e => obs v' = nobs None e) vs es /\
                    p_root s' = upd_at np (fun _ => set_kids Q (s_kids Q ++ vs)) (p_root s).
  Proof.
    intros Hcl Hd H fuel s np rest Q Hf Htok GQ Hctx.
    destruct es as [|e r].
    - cbn [clist] in Hf. destruct fuel as [|f]; [lia|]. cbn [elems_pieces ptk flat_map app] in Htok. unfold ptk in Htok. cbn [flat_map app] in Htok.
      rewrite p_elems_S. destruct (peek_cons s _ _ Htok) as (s1 & P1 & T1 & R1). rewrite P1.
      exists s1, []. split; [destruct Hcl as [-> | ->], simple; reflexivity|]. split; [exact T1|]. split; [constructor|].
      rewrite R1, app_nil_r. symmetry. apply (upd_at_id np _ _ Q GQ). apply set_kids_same.
    - inversion H as [|? ? (Hv & Hfst & Hsim) Hr]; subst.
      cbn [clist] in Hf. destruct fuel as [|f]; [lia|]. rewrite ptk_elems, <- app_assoc in Htok.
      destruct (Hfst (depth + 1) ltac:(lia)) as (t2 & r2 & Et & Hvs & Hvs').
      assert (T0 : ptoks s = t2 :: (r2 ++ flat_map (ctoks depth) r ++ TkP cl :: rest)) by (rewrite Htok, Et; reflexivity).
      rewrite p_elems_S. destruct (peek_cons s _ _ T0) as (s1 & P1 & T1 & R1). rewrite P1.
      assert (Hstart : is_value_start simple t2 = true).
      { destruct simple; [apply Hvs'; apply Hsim; reflexivity | exact Hvs]. }
      rewrite Hstart.
      assert (T1' : ptoks s1 = ptk (pieces c e (depth + 1)) ++ flat_map (ctoks depth) r ++ TkP cl :: rest) by (rewrite T1, Et; reflexivity).
      assert (G1 : get_at np (p_root s1) = Some Q) by (rewrite R1; exact GQ).
      destruct (Hv f s1 np None simple (depth + 1) (flat_map (ctoks depth) r ++ TkP cl :: rest) Q
                   ltac:(lia) ltac:(lia)) as [HA _]; try assumption.
      { destruct r; cbn; exact I. }
      destruct (HA eq_refl (arr_ctx_elem _ _ _ Hctx)) as (s4 & v' & E4 & T4 & O4 & R4). rewrite E4.
      assert (G4 : get_at np (p_root s4) = Some (set_kids Q (s_kids Q ++ [v']))).
      { rewrite R4. exact (get_at_upd_at_same np (fun _ => set_kids Q (s_kids Q ++ [v'])) _ Q G1). }
      destruct (elems_tail simple depth cl r Hcl Hd Hr f s4 np rest _ ltac:(lia) T4 G4 (arr_ctx_next _ _ _ _ Hctx O4))
        as (s5 & vs & E5 & T5 & F5 & R5).
      exists s5, (v' :: vs). split; [exact E5|]. split; [exact T5|]. split; [constructor; assumption|].
      rewrite R5, R4, upd_at_compose, R1. rewrite s_kids_set_kids, set_kids_set_kids, <- app_assoc. reflexivity.
  Qed.

  (* ---- putting the finished aggregate back ---- *)
  Lemma list_upd_twice {A} i (x y : A) l : list_upd i (fun _ => y) (list_upd i (fun _ => x) l) = list_upd i (fun _ => y) l.
  Proof. revert i; induction l as [|a r IH]; intros [|i]; cbn; try reflexivity. f_equal. apply IH. Qed.

  Lemma nth_error_list_upd_hit {A} i (x : A) l a : nth_error l i = Some a -> nth_error (list_upd i (fun _ => x) l) i = Some x.
  Proof. revert i; induction l as [|b r IH]; intros [|i]; cbn; try discriminate; auto. Qed.

  Lemma root_elem parent P Q0 Qf r : get_at parent r = Some P ->
    upd_at (parent ++ [length (s_kids P)]) (fun _ => Qf) (upd_at parent (fun _ => set_kids P (s_kids P ++ [Q0])) r) =
    upd_at parent (fun _ => set_kids P (s_kids P ++ [Qf])) r.
  Proof.
    intros GP. set (P1 := set_kids P (s_kids P ++ [Q0])).
    assert (G1 : get_at parent (upd_at parent (fun _ => P1) r) = Some P1) by exact (get_at_upd_at_same parent (fun _ => P1) r P GP).
    assert (GQ : nth_error (s_kids P1) (length (s_kids P)) = Some Q0).
    { unfold P1. rewrite s_kids_set_kids, nth_error_app2 by lia. rewrite Nat.sub_diag. reflexivity. }
    rewrite (upd_at_child parent _ (fun _ => Qf) _ P1 Q0 G1 GQ), upd_at_compose.
    unfold P1. rewrite s_kids_set_kids, list_upd_last, set_kids_set_kids. reflexivity.
  Qed.

  Lemma root_member parent P i M Q0 Qf r : get_at parent r = Some P -> nth_error (s_kids P) i = Some M ->
    upd_at (parent ++ [i]) (fun _ => Qf) (upd_at parent (fun _ => set_kids P (list_upd i (fun _ => Q0) (s_kids P))) r) =
    upd_at parent (fun _ => set_kids P (list_upd i (fun _ => Qf) (s_kids P))) r.
  Proof.
    intros GP GM. set (P1 := set_kids P (list_upd i (fun _ => Q0) (s_kids P))).
    assert (G1 : get_at parent (upd_at parent (fun _ => P1) r) = Some P1) by exact (get_at_upd_at_same parent (fun _ => P1) r P GP).
    assert (GQ : nth_error (s_kids P1) i = Some Q0).
    { unfold P1. rewrite s_kids_set_kids. apply (nth_error_list_upd_hit i Q0 _ M GM). }
    rewrite (upd_at_child parent _ (fun _ => Qf) _ P1 Q0 G1 GQ), upd_at_compose.
    unfold P1. rewrite s_kids_set_kids, list_upd_twice, set_kids_set_kids. reflexivity.
  Qed.

  Lemma obs_set_kids Q vs : obs (set_kids Q vs) = ON (s_name Q) (s_pl Q) (s_fmt Q) (map obs vs).
  Proof. destruct Q; reflexivity. Qed.

  Lemma Forall2_obs {B} (g : B -> otree) vs (es : list B) : Forall2 (fun v' e => obs v' = g e) vs es -> map obs vs = map g es.
  Proof. induction 1 as [|v e vs' es' H _ IH]; [reflexivity|]. cbn. rewrite H, IH. reflexivity. Qed.

  Lemma get_child parent P i Q r : get_at parent r = Some P -> nth_error (s_kids P) i = Some Q -> get_at (parent ++ [i]) r = Some Q.
  Proof. intros GP GQ. rewrite get_at_app, GP. cbn. rewrite GQ. reflexivity. Qed.

  (* ---- the shape the parser needs beyond [writable]: homogeneous arrays of scalars, distinct valid member names ---- *)
  Fixpoint pstruct (s : setting) : Prop :=
    let 'Setting _ pl kids _ _ _ _ := s in
    (fix all (l : list setting) : Prop := match l with [] => True | e :: r => pstruct e /\ all r end) kids /\
    match pl with
    | PArray => exists T, Forall (fun e => scalar_pl (s_pl e) /\ ty_of (s_pl e) = T) kids
    | PGroup => NoDup (map s_name kids) /\ Forall (fun m => exists n, s_name m = Some n /\ validate_name n = true) kids
    | _ => True
    end.

  Lemma all_pstruct kids :
    (fix all (l : list setting) : Prop := match l with [] => True | e :: r => pstruct e /\ all r end) kids <-> Forall pstruct kids.
  Proof. induction kids as [|e r IH]; [split; constructor|]. rewrite IH. split; [intros [A B]; constructor; assumption | intros H; inversion H; split; assumption]. Qed.

  Theorem val_ok_all : forall v, writable v -> pstruct v -> val_ok v.
  Proof.
    induction v as [n pl kids f h l fi IH] using setting_ind'. intros Hw Hs.
    assert (Hscalar : scalar_pl pl -> val_ok (Setting n pl kids f h l fi)).
    { intros Hsc fuel s parent cur simple depth rest P Hfuel Hd Hns Htok GP Hsim.
      assert (Hok : scalar_ok fmt_double atof c pl) by (destruct pl; try contradiction; exact Hw).
      assert (H3 : (3 <= fuel)%nat) by (destruct pl; try contradiction; exact Hfuel).
      destruct (scalar_value (Setting n pl kids f h l fi) Hsc Hok fuel s parent cur simple depth rest P H3 Hd Hns Htok GP) as [A G].
      split; [exact A | intros i M Hc HP GM HM Hk Hf _; exact (G i M Hc HP GM HM Hk Hf)]. }
    destruct pl as [| z | z | b | z | o | | |]; try (apply Hscalar; exact I).
    - destruct Hw.
    - (* group *)
      cbn [writable] in Hw. apply all_members in Hw. cbn [pstruct] in Hs. destruct Hs as [Hsk [Hnd Hnames]]. apply all_pstruct in Hsk.
      assert (Hms : Forall (fun m => val_ok m /\ exists n0, s_name m = Some n0 /\ validate_name n0 = true) kids).
      { rewrite Forall_forall in *. intros m Hm. split; [apply IH; [exact Hm | apply Hw; exact Hm | apply Hsk; exact Hm] | apply Hnames; exact Hm]. }
      intros fuel s parent cur simple depth rest P Hfuel Hd Hns Htok GP Hsim.
      destruct simple; [exfalso; exact (Hsim eq_refl)|].
      rewrite (cost_agg n PGroup kids f h l fi) in Hfuel by auto.
      destruct fuel as [|[|f2]]; try lia.
      assert (Etoks : ptk (pieces c (Setting n PGroup kids f h l fi) depth) =
                      TkP TGroupStart :: flat_map (mtoks (depth + 1)) kids ++ [TkP TGroupEnd]).
      { rewrite group_is_lines. replace (0 <? depth) with true by (symmetry; apply Z.ltb_lt; exact Hd).
        assert (E1 : ptk ((if get_option c OPT_BRACE_NEWLINE then [PNl] ++ (if 1 <? depth then [PIndent depth] else []) else []) ++ [POpen PGroup; PNl]) = [TkP TGroupStart]).
        { rewrite ptk_app. destruct (get_option c OPT_BRACE_NEWLINE); [destruct (1 <? depth)|]; reflexivity. }
        rewrite ptk_app, E1. cbn [app]. f_equal. rewrite ptk_app. f_equal.
        - clear -Hd. induction kids as [|m r IHk]; [reflexivity|]. cbn [flat_map]. rewrite ptk_app, IHk, ptk_member by lia. reflexivity.
        - destruct (1 <? depth); reflexivity. }
      rewrite Etoks in Htok. cbn [app] in Htok. rewrite <- app_assoc in Htok. cbn [app] in Htok.
      destruct (peek_cons s _ _ Htok) as (s1 & P1 & T1 & R1).
      pose proof (ptoks_shift_cons _ _ _ T1) as T2.
      assert (GPs : get_at parent (p_root (shift s1)) = Some P) by (rewrite shift_root, R1; exact GP).
      rewrite p_value_S, P1. cbn [negb]. rewrite p_agg_S.
      split.
      + (* element of a list *)
        intros -> Hctx. assert (HP : s_pl P = PList) by (destruct Hctx as [H|(_ & [] & _)]; exact H).
        destruct (act_open_elem (shift s1) parent P KGrp GPs HP) as (Q0 & Eo & Qn & Qp & Qk & Qf). rewrite Eo.
        set (np := parent ++ [length (s_kids P)]).
        set (sa := set_proot (shift s1) (upd_at parent (fun _ => set_kids P (s_kids P ++ [Q0])) (p_root (shift s1)))).
        assert (Ga : get_at np (p_root sa) = Some Q0).
        { unfold sa, np. cbn [p_root set_proot].
          apply (get_child parent (set_kids P (s_kids P ++ [Q0])));
            [exact (get_at_upd_at_same parent (fun _ => set_kids P (s_kids P ++ [Q0])) _ P GPs)|].
          rewrite s_kids_set_kids, nth_error_app2 by lia. rewrite Nat.sub_diag. reflexivity. }
        destruct (members_ok (depth + 1) kids ltac:(lia) Hms f2 sa np (TkP TGroupEnd :: rest) Q0 ltac:(lia) I T2 Ga Qp)
          as (sb & vs & Eb & Tb & Fb & Rb).
        { rewrite Qk. cbn [map app]. exact Hnd. }
        cbv zeta. rewrite Eb.
        destruct (expect_ok sb TGroupEnd rest Tb ltac:(auto)) as (sc & Ec & Tc & Rc). rewrite Ec.
        exists sc, (set_kids Q0 vs). split; [reflexivity|]. split; [exact Tc|]. split.
        * rewrite obs_set_kids, Qn, Qp, Qf. cbn [nobs]. f_equal. exact (Forall2_obs _ _ _ Fb).
        * rewrite Rc, Rb. unfold sa. cbn [p_root set_proot]. rewrite Qk. cbn [app]. rewrite shift_root, R1.
          apply (root_elem parent P Q0 (set_kids Q0 vs) (p_root s) GP).
      + (* value of a member *)
        intros i M -> HP GM HM Hk Hf0 _.
        rewrite (act_open_member (shift s1) parent P i M KGrp GPs HP GM).
        set (Q0 := set_pl M (aggk_pl KGrp)). set (np := parent ++ [i]).
        set (sa := set_proot (shift s1) (upd_at parent (fun _ => set_kids P (list_upd i (fun _ => Q0) (s_kids P))) (p_root (shift s1)))).
        assert (Ga : get_at np (p_root sa) = Some Q0).
        { unfold sa, np. cbn [p_root set_proot].
          apply (get_child parent (set_kids P (list_upd i (fun _ => Q0) (s_kids P))));
            [exact (get_at_upd_at_same parent (fun _ => set_kids P (list_upd i (fun _ => Q0) (s_kids P))) _ P GPs)|].
          rewrite s_kids_set_kids. apply (nth_error_list_upd_hit i Q0 _ M GM). }
        assert (Qk : s_kids Q0 = []) by (unfold Q0; rewrite s_kids_set_pl; exact Hk).
        assert (Qp : s_pl Q0 = PGroup) by (unfold Q0; apply s_pl_set_pl).
        destruct (members_ok (depth + 1) kids ltac:(lia) Hms f2 sa np (TkP TGroupEnd :: rest) Q0 ltac:(lia) I T2 Ga Qp)
          as (sb & vs & Eb & Tb & Fb & Rb).
        { rewrite Qk. cbn [map app]. exact Hnd. }
        cbv zeta. rewrite Eb.
        destruct (expect_ok sb TGroupEnd rest Tb ltac:(auto)) as (sc & Ec & Tc & Rc). rewrite Ec.
        exists sc, (set_kids Q0 vs). split; [reflexivity|]. split; [exact Tc|]. split.
        * rewrite obs_set_kids. unfold Q0. rewrite s_name_set_pl, s_pl_set_pl, s_fmt_set_pl, Hf0. cbn [nobs aggk_pl]. f_equal.
          exact (Forall2_obs _ _ _ Fb).
        * rewrite Rc, Rb. unfold sa. cbn [p_root set_proot]. rewrite Qk. cbn [app]. rewrite shift_root, R1.
          apply (root_member parent P i M Q0 (set_kids Q0 vs) (p_root s) GP GM).
    - (* array *)
      cbn [writable] in Hw. apply all_elems in Hw. cbn [pstruct] in Hs. destruct Hs as [Hsk (T & HT)]. apply all_pstruct in Hsk.
      assert (Hes : Forall (fun e => val_ok e /\ first_ok e /\ (true = true -> scalar_pl (s_pl e))) kids).
      { rewrite Forall_forall in *. intros e He. split; [apply IH; [exact He | apply Hw; exact He | apply Hsk; exact He]|].
        split; [apply first_ok_all; apply Hw; exact He | intros _; apply HT; exact He]. }
      intros fuel s parent cur simple depth rest P Hfuel Hd Hns Htok GP Hsim.
      destruct simple; [exfalso; exact (Hsim eq_refl)|].
      rewrite (cost_agg n PArray kids f h l fi) in Hfuel by auto.
      destruct fuel as [|[|f2]]; try lia.
      rewrite (ptk_list n PArray kids f h l fi depth (or_intror eq_refl)) in Htok. cbn [app] in Htok. rewrite <- app_assoc in Htok. cbn [app] in Htok.
      destruct (peek_cons s _ _ Htok) as (s1 & P1 & T1 & R1).
      pose proof (ptoks_shift_cons _ _ _ T1) as T2.
      assert (GPs : get_at parent (p_root (shift s1)) = Some P) by (rewrite shift_root, R1; exact GP).
      rewrite p_value_S, P1. cbn [negb]. rewrite p_agg_S.
      split.
      + intros -> Hctx. assert (HP : s_pl P = PList) by (destruct Hctx as [H|(_ & [] & _)]; exact H).
        destruct (act_open_elem (shift s1) parent P KArr GPs HP) as (Q0 & Eo & Qn & Qp & Qk & Qf). rewrite Eo.
        set (np := parent ++ [length (s_kids P)]).
        set (sa := set_proot (shift s1) (upd_at parent (fun _ => set_kids P (s_kids P ++ [Q0])) (p_root (shift s1)))).
        assert (Ga : get_at np (p_root sa) = Some Q0).
        { unfold sa, np. cbn [p_root set_proot].
          apply (get_child parent (set_kids P (s_kids P ++ [Q0])));
            [exact (get_at_upd_at_same parent (fun _ => set_kids P (s_kids P ++ [Q0])) _ P GPs)|].
          rewrite s_kids_set_kids, nth_error_app2 by lia. rewrite Nat.sub_diag. reflexivity. }
        destruct (elems_all true depth TArrayEnd kids ltac:(auto) ltac:(lia) Hes f2 sa np rest Q0 ltac:(lia) T2 Ga)
          as (sb & vs & Eb & Tb & Fb & Rb).
        { right. split; [exact Qp|]. exists T. split; [rewrite Qk; intros k0 Hk0; discriminate Hk0 | exact HT]. }
        cbv zeta. rewrite Eb.
        destruct (expect_ok sb TArrayEnd rest Tb ltac:(auto)) as (sc & Ec & Tc & Rc). rewrite Ec.
        exists sc, (set_kids Q0 vs). split; [reflexivity|]. split; [exact Tc|]. split.
        * rewrite obs_set_kids, Qn, Qp, Qf. cbn [nobs]. f_equal. exact (Forall2_obs _ _ _ Fb).
        * rewrite Rc, Rb. unfold sa. cbn [p_root set_proot]. rewrite Qk. cbn [app]. rewrite shift_root, R1.
          apply (root_elem parent P Q0 (set_kids Q0 vs) (p_root s) GP).
      + intros i M -> HP GM HM Hk Hf0 _.
        rewrite (act_open_member (shift s1) parent P i M KArr GPs HP GM).
        set (Q0 := set_pl M (aggk_pl KArr)). set (np := parent ++ [i]).
        set (sa := set_proot (shift s1) (upd_at parent (fun _ => set_kids P (list_upd i (fun _ => Q0) (s_kids P))) (p_root (shift s1)))).
        assert (Ga : get_at np (p_root sa) = Some Q0).
        { unfold sa, np. cbn [p_root set_proot].
          apply (get_child parent (set_kids P (list_upd i (fun _ => Q0) (s_kids P))));
            [exact (get_at_upd_at_same parent (fun _ => set_kids P (list_upd i (fun _ => Q0) (s_kids P))) _ P GPs)|].
          rewrite s_kids_set_kids. apply (nth_error_list_upd_hit i Q0 _ M GM). }
        assert (Qk : s_kids Q0 = []) by (unfold Q0; rewrite s_kids_set_pl; exact Hk).
        assert (Qp : s_pl Q0 = PArray) by (unfold Q0; apply s_pl_set_pl).
        destruct (elems_all true depth TArrayEnd kids ltac:(auto) ltac:(lia) Hes f2 sa np rest Q0 ltac:(lia) T2 Ga)
          as (sb & vs & Eb & Tb & Fb & Rb).
        { right. split; [exact Qp|]. exists T. split; [rewrite Qk; intros k0 Hk0; discriminate Hk0 | exact HT]. }
        cbv zeta. rewrite Eb.
        destruct (expect_ok sb TArrayEnd rest Tb ltac:(auto)) as (sc & Ec & Tc & Rc). rewrite Ec.
        exists sc, (set_kids Q0 vs). split; [reflexivity|]. split; [exact Tc|]. split.
        * rewrite obs_set_kids. unfold Q0. rewrite s_name_set_pl, s_pl_set_pl, s_fmt_set_pl, Hf0. cbn [nobs aggk_pl]. f_equal.
          exact (Forall2_obs _ _ _ Fb).
        * rewrite Rc, Rb. unfold sa. cbn [p_root set_proot]. rewrite Qk. cbn [app]. rewrite shift_root, R1.
          apply (root_member parent P i M Q0 (set_kids Q0 vs) (p_root s) GP GM).
    - (* list *)
      cbn [writable] in Hw. apply all_elems in Hw. cbn [pstruct] in Hs. destruct Hs as [Hsk _]. apply all_pstruct in Hsk.
      assert (Hes : Forall (fun e => val_ok e /\ first_ok e /\ (false = true -> scalar_pl (s_pl e))) kids).
      { rewrite Forall_forall in *. intros e He. split; [apply IH; [exact He | apply Hw; exact He | apply Hsk; exact He]|].
        split; [apply first_ok_all; apply Hw; exact He | discriminate]. }
      intros fuel s parent cur simple depth rest P Hfuel Hd Hns Htok GP Hsim.
      destruct simple; [exfalso; exact (Hsim eq_refl)|].
      rewrite (cost_agg n PList kids f h l fi) in Hfuel by auto.
      destruct fuel as [|[|f2]]; try lia.
      rewrite (ptk_list n PList kids f h l fi depth (or_introl eq_refl)) in Htok. cbn [app] in Htok. rewrite <- app_assoc in Htok. cbn [app] in Htok.
      destruct (peek_cons s _ _ Htok) as (s1 & P1 & T1 & R1).
      pose proof (ptoks_shift_cons _ _ _ T1) as T2.
      assert (GPs : get_at parent (p_root (shift s1)) = Some P) by (rewrite shift_root, R1; exact GP).
      rewrite p_value_S, P1. cbn [negb]. rewrite p_agg_S.
      split.
      + intros -> Hctx. assert (HP : s_pl P = PList) by (destruct Hctx as [H|(_ & [] & _)]; exact H).
        destruct (act_open_elem (shift s1) parent P KLst GPs HP) as (Q0 & Eo & Qn & Qp & Qk & Qf). rewrite Eo.
        set (np := parent ++ [length (s_kids P)]).
        set (sa := set_proot (shift s1) (upd_at parent (fun _ => set_kids P (s_kids P ++ [Q0])) (p_root (shift s1)))).
        assert (Ga : get_at np (p_root sa) = Some Q0).
        { unfold sa, np. cbn [p_root set_proot].
          apply (get_child parent (set_kids P (s_kids P ++ [Q0])));
            [exact (get_at_upd_at_same parent (fun _ => set_kids P (s_kids P ++ [Q0])) _ P GPs)|].
          rewrite s_kids_set_kids, nth_error_app2 by lia. rewrite Nat.sub_diag. reflexivity. }
        destruct (elems_all false depth TListEnd kids ltac:(auto) ltac:(lia) Hes f2 sa np rest Q0 ltac:(lia) T2 Ga ltac:(left; exact Qp))
          as (sb & vs & Eb & Tb & Fb & Rb).
        cbv zeta. rewrite Eb.
        destruct (expect_ok sb TListEnd rest Tb ltac:(auto)) as (sc & Ec & Tc & Rc). rewrite Ec.
        exists sc, (set_kids Q0 vs). split; [reflexivity|]. split; [exact Tc|]. split.
        * rewrite obs_set_kids, Qn, Qp, Qf. cbn [nobs]. f_equal. exact (Forall2_obs _ _ _ Fb).
        * rewrite Rc, Rb. unfold sa. cbn [p_root set_proot]. rewrite Qk. cbn [app]. rewrite shift_root, R1.
          apply (root_elem parent P Q0 (set_kids Q0 vs) (p_root s) GP).
      + intros i M -> HP GM HM Hk Hf0 _.
        rewrite (act_open_member (shift s1) parent P i M KLst GPs HP GM).
        set (Q0 := set_pl M (aggk_pl KLst)). set (np := parent ++ [i]).
        set (sa := set_proot (shift s1) (upd_at parent (fun _ => set_kids P (list_upd i (fun _ => Q0) (s_kids P))) (p_root (shift s1)))).
        assert (Ga : get_at np (p_root sa) = Some Q0).
        { unfold sa, np. cbn [p_root set_proot].
          apply (get_child parent (set_kids P (list_upd i (fun _ => Q0) (s_kids P))));
            [exact (get_at_upd_at_same parent (fun _ => set_kids P (list_upd i (fun _ => Q0) (s_kids P))) _ P GPs)|].
          rewrite s_kids_set_kids. apply (nth_error_list_upd_hit i Q0 _ M GM). }
        assert (Qk : s_kids Q0 = []) by (unfold Q0; rewrite s_kids_set_pl; exact Hk).
        assert (Qp : s_pl Q0 = PList) by (unfold Q0; apply s_pl_set_pl).
        destruct (elems_all false depth TListEnd kids ltac:(auto) ltac:(lia) Hes f2 sa np rest Q0 ltac:(lia) T2 Ga ltac:(left; exact Qp))
          as (sb & vs & Eb & Tb & Fb & Rb).
        cbv zeta. rewrite Eb.
        destruct (expect_ok sb TListEnd rest Tb ltac:(auto)) as (sc & Ec & Tc & Rc). rewrite Ec.
        exists sc, (set_kids Q0 vs). split; [reflexivity|]. split; [exact Tc|]. split.
        * rewrite obs_set_kids. unfold Q0. rewrite s_name_set_pl, s_pl_set_pl, s_fmt_set_pl, Hf0. cbn [nobs aggk_pl]. f_equal.
          exact (Forall2_obs _ _ _ Fb).
        * rewrite Rc, Rb. unfold sa. cbn [p_root set_proot]. rewrite Qk. cbn [app]. rewrite shift_root, R1.
          apply (root_member parent P i M Q0 (set_kids Q0 vs) (p_root s) GP GM).
  Qed.

  (* ---- the fuel p_config provides is enough ---- *)
  Definition tk (v : setting) (d : Z) : nat := length (ptk (pieces c v d)).

  Lemma clist_ctoks d r : 0 <= d ->
    Forall (fun e => forall d', 0 < d' -> (cost e + 1 <= 4 * tk e d')%nat) r ->
    (clist r <= 1 + 4 * length (flat_map (ctoks d) r))%nat.
  Proof.
    intros Hd H. induction H as [|e r' He _ IH]; [cbn; lia|].
    cbn [clist flat_map]. rewrite app_length. unfold ctoks at 1. cbn [length].
    specialize (He (d + 1) ltac:(lia)). unfold tk in He. lia.
  Qed.

  Lemma clist_mtoks d r : 0 < d ->
    Forall (fun e => forall d', 0 < d' -> (cost e + 1 <= 4 * tk e d')%nat) r ->
    (clist r <= 1 + 4 * length (flat_map (mtoks d) r))%nat.
  Proof.
    intros Hd H. induction H as [|e r' He _ IH]; [cbn; lia|].
    cbn [clist flat_map]. rewrite app_length. unfold mtoks at 1. rewrite !app_length.
    specialize (He d Hd). unfold tk in He. lia.
  Qed.

  Lemma cost_bound : forall v, writable v -> forall d, 0 < d -> (cost v + 1 <= 4 * tk v d)%nat.
  Proof.
    induction v as [n pl kids f h l fi IH] using setting_ind'. intros Hw d Hd. unfold tk.
    destruct pl as [| z | z | b | z | o | | |].
    1-6: cbn [pieces cost]; unfold ptk; cbn [flat_map LexWrite.piece_tok].
    - destruct Hw.
    - destruct (eff c f =? 1); cbn; lia.
    - destruct (eff c f =? 1); cbn; lia.
    - cbn; lia.
    - cbn; lia.
    - destruct o; cbn; lia.
    - (* group *)
      cbn [writable] in Hw. apply all_members in Hw.
      assert (Hk : Forall (fun e => forall d', 0 < d' -> (cost e + 1 <= 4 * tk e d')%nat) kids).
      { rewrite Forall_forall in *. intros e He. apply IH; [exact He | apply Hw; exact He]. }
      rewrite (cost_agg n PGroup kids f h l fi) by auto.
      rewrite group_is_lines. replace (0 <? d) with true by (symmetry; apply Z.ltb_lt; exact Hd).
      rewrite !ptk_app, !app_length.
      assert (E1 : (1 <= length (ptk ((if get_option c OPT_BRACE_NEWLINE then [PNl] ++ (if (1 <? d)%Z then [PIndent d] else []) else []) ++ [POpen PGroup; PNl])))%nat).
      { rewrite ptk_app, app_length. cbn. lia. }
      assert (E2 : length (ptk (flat_map (fun m => member_line c m (d + 1)) kids)) = length (flat_map (mtoks (d + 1)) kids)).
      { clear -Hd. induction kids as [|m r IHk]; [reflexivity|]. cbn [flat_map]. rewrite ptk_app, !app_length, IHk, ptk_member by lia. reflexivity. }
      assert (E3 : (1 <= length (ptk ((if (1 <? d)%Z then [PIndent d] else []) ++ [PClose PGroup])))%nat).
      { rewrite ptk_app, app_length. cbn. lia. }
      pose proof (clist_mtoks (d + 1) kids ltac:(lia) Hk). rewrite ptk_app in E1. rewrite ptk_app in E3. rewrite !app_length in *. lia.
    - cbn [writable] in Hw. apply all_elems in Hw.
      assert (Hk : Forall (fun e => forall d', 0 < d' -> (cost e + 1 <= 4 * tk e d')%nat) kids).
      { rewrite Forall_forall in *. intros e He. apply IH; [exact He | apply Hw; exact He]. }
      rewrite (cost_agg n PArray kids f h l fi) by auto.
      rewrite (ptk_list n PArray kids f h l fi d (or_intror eq_refl)). cbn [length]. rewrite app_length. cbn [length].
      destruct kids as [|e r]; [cbn; lia|]. rewrite ptk_elems, app_length. inversion Hk as [|? ? He Hr]; subst.
      pose proof (clist_ctoks d r ltac:(lia) Hr). specialize (He (d + 1) ltac:(lia)). unfold tk in He. cbn [clist]. lia.
    - cbn [writable] in Hw. apply all_elems in Hw.
      assert (Hk : Forall (fun e => forall d', 0 < d' -> (cost e + 1 <= 4 * tk e d')%nat) kids).
      { rewrite Forall_forall in *. intros e He. apply IH; [exact He | apply Hw; exact He]. }
      rewrite (cost_agg n PList kids f h l fi) by auto.
      rewrite (ptk_list n PList kids f h l fi d (or_introl eq_refl)). cbn [length]. rewrite app_length. cbn [length].
      destruct kids as [|e r]; [cbn; lia|]. rewrite ptk_elems, app_length. inversion Hk as [|? ? He Hr]; subst.
      pose proof (clist_ctoks d r ltac:(lia) Hr). specialize (He (d + 1) ltac:(lia)). unfold tk in He. cbn [clist]. lia.
  Qed.

  (* ---- the whole configuration ---- *)
  Theorem parse_written n kids f h l fi root0 toks :
    writable (Setting n PGroup kids f h l fi) -> pstruct (Setting n PGroup kids f h l fi) ->
    map lt_tok toks = ptk (pieces c (Setting n PGroup kids f h l fi) 0) ++ [TkEOF] ->
    s_pl root0 = PGroup -> s_kids root0 = [] ->
    exists s', p_config overrides (mkP root0 toks false O 0 None) = POk s' /\
               obs (p_root s') = ON (s_name root0) PGroup (s_fmt root0) (map (fun m => nobs (s_name m) m) kids).
  Proof.
    intros Hw Hs Htoks Hp0 Hk0.
    cbn [writable] in Hw. apply all_members in Hw. cbn [pstruct] in Hs. destruct Hs as [Hsk [Hnd Hnames]]. apply all_pstruct in Hsk.
    assert (Hms : Forall (fun m => val_ok m /\ exists n0, s_name m = Some n0 /\ validate_name n0 = true) kids).
    { rewrite Forall_forall in *. intros m Hm. split; [apply val_ok_all; [apply Hw; exact Hm | apply Hsk; exact Hm] | apply Hnames; exact Hm]. }
    assert (Hcb : Forall (fun e => forall d', 0 < d' -> (cost e + 1 <= 4 * tk e d')%nat) kids).
    { rewrite Forall_forall in *. intros m Hm. apply cost_bound. apply Hw. exact Hm. }
    assert (Et : ptk (pieces c (Setting n PGroup kids f h l fi) 0) = flat_map (mtoks 1) kids).
    { rewrite group_is_lines. change (0 <? 0) with false. change (1 <? 0) with false. cbn [app]. rewrite app_nil_r.
      clear. induction kids as [|m r IHk]; [reflexivity|]. cbn [flat_map]. rewrite ptk_app, IHk. change (0 + 1) with 1.
      rewrite ptk_member by lia. reflexivity. }
    rewrite Et in Htoks.
    set (s0 := mkP root0 toks false O 0 None).
    assert (T0 : ptoks s0 = flat_map (mtoks 1) kids ++ [TkEOF]) by exact Htoks.
    unfold p_config.
    assert (Hfuel : (clist kids <= S (4 * length (p_toks s0)))%nat).
    { pose proof (clist_mtoks 1 kids ltac:(lia) Hcb) as B. cbn [p_toks s0].
      assert (L : length toks = (length (flat_map (mtoks 1) kids) + 1)%nat).
      { rewrite <- (map_length lt_tok toks), Htoks, app_length. reflexivity. }
      lia. }
    destruct (members_ok 1 kids ltac:(lia) Hms _ s0 [] [TkEOF] root0 Hfuel I T0 eq_refl Hp0) as (s1 & vs & E1 & T1 & F1 & R1).
    { rewrite Hk0. cbn [map app]. exact Hnd. }
    rewrite E1. destruct (peek_cons s1 _ _ T1) as (s2 & P2 & T2 & R2). rewrite P2.
    exists s2. split; [reflexivity|].
    rewrite R2, R1. cbn [upd_at p_root s0]. rewrite Hk0. cbn [app]. rewrite obs_set_kids, Hp0. f_equal.
    exact (Forall2_obs _ _ _ F1).
  Qed.
End PW.

(* ------------------------------------------------------------------------------------ *)
(* config_read_string (config_write c) *)

(* bracket nesting of a token list (Reader.max_nest on the tokens alone) *)
Fixpoint nest_of (ts : list token) (cur best : Z) : Z :=
  match ts with
  | [] => best
  | t :: r =>
      match t with
      | TkP TGroupStart | TkP TListStart | TkP TArrayStart => nest_of r (cur + 1) (Z.max best (cur + 1))
      | TkP TGroupEnd | TkP TListEnd | TkP TArrayEnd => nest_of r (cur - 1) best
      | _ => nest_of r cur best
      end
  end.

Lemma max_nest_map toks : forall cur best, max_nest toks cur best = nest_of (map lt_tok toks) cur best.
Proof.
  induction toks as [|t r IH]; intros cur best; [reflexivity|]. cbn [max_nest map nest_of].
  destruct (lt_tok t) as [ | | | | | | | | p | | ]; try apply IH. destruct p; apply IH.
Qed.

Theorem read_written fmt_double atof FS c c2 kids f h l fi :
  c_root c = Setting None PGroup kids f h l fi -> kids <> [] ->
  writable fmt_double atof c (c_root c) -> pstruct (c_root c) ->
  nest_of (flat_map (piece_tok fmt_double atof c) (pieces c (c_root c) 0) ++ [TkEOF]) 0 0 <= NEST_LIMIT ->
  let r := config_read atof FS c2 None (config_write fmt_double c) in
  rd_out_ r = RdOk /\
  obs (c_root (rd_cfg r)) = ON None PGroup 0 (map (fun m => nobs fmt_double atof c (s_name m) m) kids).
Proof.
  intros Hroot Hk Hw Hs Hnest. cbv zeta. unfold config_read.
  destruct (clear_cfg (set_err c2 err0)) as [c1 evc] eqn:Ec.
  assert (Hr1 : c_root c1 = new_root) by (unfold clear_cfg in Ec; injection Ec as <- _; reflexivity).
  destruct (lex_top_written fmt_double atof FS c c1 kids f h l fi Hroot Hk Hw) as (toks & El & Et).
  rewrite El.
  assert (Hn : (NEST_LIMIT <? max_nest toks 0 0) = false).
  { apply Z.ltb_ge. rewrite max_nest_map, Et. exact Hnest. }
  rewrite Hn.
  set (root0 := set_pos (c_root c1) 0 None).
  rewrite Hroot in Hw, Hs, Et.
  destruct (parse_written fmt_double atof c (get_option c1 OPT_OVERRIDES) None kids f h l fi root0 toks Hw Hs Et) as (s' & Ep & Eo).
  { unfold root0. rewrite Hr1. reflexivity. }
  { unfold root0. rewrite Hr1. reflexivity. }
  rewrite Ep. cbn [rd_out_ rd_cfg]. split; [reflexivity|].
  cbn [c_root set_files set_root]. rewrite Eo. unfold root0. rewrite Hr1. reflexivity.
Qed.
