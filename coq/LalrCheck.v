(* LalrCheck.v — BOUNDED, evaluated agreement of the LALR(1) engine (LalrEngine.v, over the tables extracted from
   lib/grammar.c) with the recursive-descent model (Parser.v): on every sequence of at most N token kinds
   (representative values per kind, two names, an end-of-input appended; both override settings) both answer alike.
   This is a finite check by evaluation, and the regression test of the engine; the unbounded statement is in
   LalrFacts.v. *)
From Coq Require Import List ZArith NArith Bool Lia String.
Import ListNotations.
From LC Require Import Base BaseFacts Tree TreeFacts Fp Lookup Api ScanAction Tokens Lexer Parser GramAction LalrEngine.
Local Open Scope Z_scope.

(* ---- boolean equality on results, with its soundness ---- *)
Definition list_eqb {A} (e : A -> A -> bool) : list A -> list A -> bool :=
  fix go (a b : list A) : bool :=
    match a, b with
    | [], [] => true
    | x :: a', y :: b' => e x y && go a' b'
    | _, _ => false
    end.

Definition option_eqb {A} (e : A -> A -> bool) (a b : option A) : bool :=
  match a, b with
  | None, None => true
  | Some x, Some y => e x y
  | _, _ => false
  end.

Lemma list_eqb_eq {A} (e : A -> A -> bool) (a : list A) :
  Forall (fun x => forall y, e x y = true -> x = y) a -> forall b, list_eqb e a b = true -> a = b.
Proof.
  induction 1 as [|x a Hx _ IH]; intros [|y b] H; try discriminate; [reflexivity|].
  cbn in H. apply andb_true_iff in H as [H1 H2]. f_equal; auto.
Qed.

Lemma list_eqb_eq' {A} (e : A -> A -> bool) : (forall x y, e x y = true -> x = y) ->
  forall a b, list_eqb e a b = true -> a = b.
Proof. intros He a. apply list_eqb_eq. apply Forall_forall. intros x _. apply He. Qed.

Lemma option_eqb_eq {A} (e : A -> A -> bool) : (forall x y, e x y = true -> x = y) ->
  forall a b, option_eqb e a b = true -> a = b.
Proof. intros He [x|] [y|] H; try discriminate; [f_equal; auto | reflexivity]. Qed.

Definition bytes_eqb' : bytes -> bytes -> bool := list_eqb Z.eqb.
Lemma bytes_eqb'_eq a b : bytes_eqb' a b = true -> a = b.
Proof. apply list_eqb_eq'. intros x y. apply Z.eqb_eq. Qed.

Definition payload_eqb (a b : payload) : bool :=
  match a, b with
  | PNone, PNone | PGroup, PGroup | PArray, PArray | PList, PList => true
  | PInt x, PInt y | PInt64 x, PInt64 y | PFloat x, PFloat y | PBool x, PBool y => x =? y
  | PStr x, PStr y => option_eqb bytes_eqb' x y
  | _, _ => false
  end.

Lemma payload_eqb_eq a b : payload_eqb a b = true -> a = b.
Proof.
  destruct a, b; cbn; intros H; try discriminate; try reflexivity;
    try (apply Z.eqb_eq in H; subst; reflexivity).
  f_equal. revert H. apply option_eqb_eq. apply bytes_eqb'_eq.
Qed.

Fixpoint setting_eqb (a b : setting) : bool :=
  match a, b with
  | Setting n1 p1 k1 f1 h1 l1 fi1, Setting n2 p2 k2 f2 h2 l2 fi2 =>
      option_eqb bytes_eqb' n1 n2 && payload_eqb p1 p2 && list_eqb setting_eqb k1 k2 && (f1 =? f2) &&
      option_eqb Z.eqb h1 h2 && (l1 =? l2) && option_eqb bytes_eqb' fi1 fi2
  end.

Lemma setting_eqb_eq a : forall b, setting_eqb a b = true -> a = b.
Proof.
  induction a as [n p k f h l fi IH] using setting_ind'. intros [n2 p2 k2 f2 h2 l2 fi2] H. cbn [setting_eqb] in H.
  repeat (apply andb_true_iff in H as [H ?]).
  f_equal.
  - revert H. apply option_eqb_eq, bytes_eqb'_eq.
  - apply payload_eqb_eq. assumption.
  - apply (list_eqb_eq setting_eqb k IH). assumption.
  - apply Z.eqb_eq. assumption.
  - match goal with X : option_eqb Z.eqb _ _ = true |- _ => revert X end. apply option_eqb_eq. intros x y. apply Z.eqb_eq.
  - apply Z.eqb_eq. assumption.
  - match goal with X : option_eqb bytes_eqb' fi _ = true |- _ => revert X end. apply option_eqb_eq, bytes_eqb'_eq.
Qed.

Definition ptok_eqb (a b : ptok) : bool :=
  match a, b with
  | TEquals, TEquals | TComma, TComma | TGroupStart, TGroupStart | TGroupEnd, TGroupEnd | TArrayStart, TArrayStart
  | TArrayEnd, TArrayEnd | TListStart, TListStart | TListEnd, TListEnd | TSemicolon, TSemicolon | TGarbage, TGarbage => true
  | _, _ => false
  end.

Definition token_eqb (a b : token) : bool :=
  match a, b with
  | TkBool x, TkBool y | TkInt x, TkInt y | TkInt64 x, TkInt64 y | TkHex x, TkHex y | TkHex64 x, TkHex64 y
  | TkFloat x, TkFloat y => x =? y
  | TkString x, TkString y | TkName x, TkName y => bytes_eqb' x y
  | TkP x, TkP y => ptok_eqb x y
  | TkError, TkError | TkEOF, TkEOF => true
  | _, _ => false
  end.

Lemma token_eqb_eq a b : token_eqb a b = true -> a = b.
Proof.
  destruct a, b; cbn; intros H; try discriminate; try reflexivity;
    try (apply Z.eqb_eq in H; subst; reflexivity); try (apply bytes_eqb'_eq in H; subst; reflexivity).
  destruct t, t0; try discriminate; reflexivity.
Qed.

Definition levent_eqb (a b : levent) : bool :=
  match a, b with
  | LvOpen x, LvOpen y | LvClose x, LvClose y | LvIncl x, LvIncl y | LvStdout x, LvStdout y => bytes_eqb' x y
  | _, _ => false
  end.

Lemma levent_eqb_eq a b : levent_eqb a b = true -> a = b.
Proof. destruct a, b; cbn; intros H; try discriminate; apply bytes_eqb'_eq in H; subst; reflexivity. Qed.

Definition lterr_eqb (a b : bytes * option bytes * Z) : bool :=
  let '(x1, y1, z1) := a in let '(x2, y2, z2) := b in
  bytes_eqb' x1 x2 && option_eqb bytes_eqb' y1 y2 && (z1 =? z2).

Lemma lterr_eqb_eq a b : lterr_eqb a b = true -> a = b.
Proof.
  destruct a as [[x1 y1] z1], b as [[x2 y2] z2]. cbn. intros H. repeat (apply andb_true_iff in H as [H ?]).
  apply bytes_eqb'_eq in H. apply (option_eqb_eq _ bytes_eqb'_eq) in H1. apply Z.eqb_eq in H0. subst. reflexivity.
Qed.

Definition ltoken_eqb (a b : ltoken) : bool :=
  token_eqb (lt_tok a) (lt_tok b) && (lt_line a =? lt_line b) && option_eqb bytes_eqb' (lt_file a) (lt_file b) &&
  option_eqb lterr_eqb (lt_err a) (lt_err b) && list_eqb bytes_eqb' (lt_open a) (lt_open b) &&
  list_eqb bytes_eqb' (lt_nfiles a) (lt_nfiles b) && list_eqb levent_eqb (lt_events a) (lt_events b).

Lemma ltoken_eqb_eq a b : ltoken_eqb a b = true -> a = b.
Proof.
  destruct a, b. unfold ltoken_eqb. cbn. intros H. repeat (apply andb_true_iff in H as [H ?]).
  apply token_eqb_eq in H. apply Z.eqb_eq in H5. apply (option_eqb_eq _ bytes_eqb'_eq) in H4.
  apply (option_eqb_eq _ lterr_eqb_eq) in H3. apply (list_eqb_eq' _ bytes_eqb'_eq) in H2.
  apply (list_eqb_eq' _ bytes_eqb'_eq) in H1. apply (list_eqb_eq' _ levent_eqb_eq) in H0. subst. reflexivity.
Qed.

Definition pst_eqb (a b : pst) : bool :=
  setting_eqb (p_root a) (p_root b) && list_eqb ltoken_eqb (p_toks a) (p_toks b) && Bool.eqb (p_la a) (p_la b) &&
  Nat.eqb (p_read a) (p_read b) && (p_line a =? p_line b) && option_eqb bytes_eqb' (p_file a) (p_file b).

Lemma pst_eqb_eq a b : pst_eqb a b = true -> a = b.
Proof.
  destruct a, b. unfold pst_eqb. cbn. intros H. repeat (apply andb_true_iff in H as [H ?]).
  apply setting_eqb_eq in H. apply (list_eqb_eq' _ ltoken_eqb_eq) in H4. apply Bool.eqb_prop in H3.
  apply Nat.eqb_eq in H2. apply Z.eqb_eq in H1. apply (option_eqb_eq _ bytes_eqb'_eq) in H0. subst. reflexivity.
Qed.

Definition perr_eqb (a b : perr) : bool :=
  match a, b with
  | PErrSyntax, PErrSyntax | PErrDup, PErrDup | PErrMismatch, PErrMismatch | PErrMem, PErrMem => true
  | _, _ => false
  end.

Definition pres_eqb (a b : pres) : bool :=
  match a, b with
  | POk x, POk y | PFatal x, PFatal y | PStuck x, PStuck y => pst_eqb x y
  | PErr e x, PErr f y => perr_eqb e f && pst_eqb x y
  | _, _ => false
  end.

Lemma pres_eqb_eq a b : pres_eqb a b = true -> a = b.
Proof.
  destruct a, b; cbn; intros H; try discriminate; try (apply pst_eqb_eq in H; subst; reflexivity).
  apply andb_true_iff in H as [H1 H2]. apply pst_eqb_eq in H2. subst. destruct e, e0; try discriminate; reflexivity.
Qed.

(* ---- the inputs ---- *)
Definition sym_tokens : list token :=
  [TkBool 1; TkInt 5; TkInt64 6; TkHex 7; TkHex64 8; TkFloat 4607182418800017408; TkString [120]; TkName [97]; TkName [98];
   TkP TEquals; TkP TComma; TkP TGroupStart; TkP TGroupEnd; TkP TArrayStart; TkP TArrayEnd; TkP TListStart; TkP TListEnd;
   TkP TSemicolon; TkP TGarbage; TkError; TkEOF].

(* all sequences of exactly n symbols *)
Fixpoint seqs (n : nat) : list (list token) :=
  match n with
  | O => [[]]
  | S k => flat_map (fun w => map (fun t => t :: w) sym_tokens) (seqs k)
  end.

Fixpoint seqs_upto (n : nat) : list (list token) :=
  match n with
  | O => seqs O
  | S k => seqs (S k) ++ seqs_upto k
  end.

(* line i+1 for the i-th token; the file name alternates *)
Fixpoint locate (i : nat) (w : list token) : list ltoken :=
  match w with
  | [] => []
  | t :: r => mkLT t (Z.of_nat (S i)) (if Nat.even i then None else Some [102; Z.of_nat i]) None [] [] [] :: locate (S i) r
  end.

Definition all_inputs (n : nat) : list (list ltoken) := map (fun w => locate 0 (w ++ [TkEOF])) (seqs_upto n).

Definition root0 : setting := set_pos new_root 0 (Some [116]).
Definition start (lts : list ltoken) : pst := mkP root0 lts false 0 0 None.

(* the fuel given to the engine here: the bound proved sufficient in LalrFacts.v (lalr_equiv) *)
Definition lalr_fuel (lts : list ltoken) : nat := 4 * List.length lts + 1.

Definition agree (lts : list ltoken) : bool :=
  forallb (fun ov => pres_eqb (lalr_parse the_tables ov (lalr_fuel lts) (start lts))
                             (lalr_expected (p_config ov (start lts))))
          [false; true].

Lemma agree_spec lts : agree lts = true ->
  forall ov, lalr_parse the_tables ov (lalr_fuel lts) (start lts) = lalr_expected (p_config ov (start lts)).
Proof.
  unfold agree. cbn [forallb]. intros H. repeat (apply andb_true_iff in H as [? H]).
  intros [|]; apply pres_eqb_eq; assumption.
Qed.

(* ---- examples ---- *)
Definition lt (t : token) (line : Z) : ltoken := mkLT t line None None [] [] [].

(* a = { b = [1, 2]; c = ( "x" "y", { } ) };   on two lines *)
Definition ex_nested : list ltoken :=
  [lt (TkName [97]) 1; lt (TkP TEquals) 1; lt (TkP TGroupStart) 1;
   lt (TkName [98]) 1; lt (TkP TEquals) 1; lt (TkP TArrayStart) 1; lt (TkInt 1) 1; lt (TkP TComma) 1; lt (TkInt 2) 1;
   lt (TkP TArrayEnd) 1; lt (TkP TSemicolon) 1;
   lt (TkName [99]) 2; lt (TkP TEquals) 2; lt (TkP TListStart) 2; lt (TkString [120]) 2; lt (TkString [121]) 2;
   lt (TkP TComma) 2; lt (TkP TGroupStart) 2; lt (TkP TGroupEnd) 2; lt (TkP TListEnd) 2;
   lt (TkP TGroupEnd) 2; lt (TkP TSemicolon) 2; lt TkEOF 3].

Example lalr_nested :
  lalr_parse the_tables false (lalr_fuel ex_nested) (start ex_nested) = lalr_expected (p_config false (start ex_nested))
  /\ (exists s, lalr_parse the_tables false (lalr_fuel ex_nested) (start ex_nested) = POk s /\
                p_toks s = [] /\ p_read s = 23%nat /\ p_line s = 3 /\
                option_map s_ty (get_at [0%nat; 1%nat; 0%nat] (p_root s)) = Some TString /\
                option_map s_ty (get_at [0%nat; 0%nat] (p_root s)) = Some TArray).
Proof. vm_compute. split; [reflexivity|]. eexists. repeat split. Qed.

(* a = [1, "x"     : mismatched element type, reported when `]` (the look-ahead after the string) has been read, line 2 *)
Definition ex_mismatch : list ltoken :=
  [lt (TkName [97]) 1; lt (TkP TEquals) 1; lt (TkP TArrayStart) 1; lt (TkInt 1) 1; lt (TkP TComma) 1; lt (TkString [120]) 1;
   lt (TkP TArrayEnd) 2; lt TkEOF 2].

Example lalr_mismatch :
  exists s, lalr_parse the_tables false (lalr_fuel ex_mismatch) (start ex_mismatch) = PErr PErrMismatch s /\
            p_config false (start ex_mismatch) = PErr PErrMismatch s /\ p_line s = 2 /\ p_read s = 7%nat.
Proof. vm_compute. eexists. repeat split. Qed.

(* a = ( 1 ; : syntax error at the `;`, line 4 *)
Definition ex_syntax : list ltoken :=
  [lt (TkName [97]) 1; lt (TkP TEquals) 2; lt (TkP TListStart) 3; lt (TkInt 1) 3; lt (TkP TSemicolon) 4; lt TkEOF 5].

Example lalr_syntax :
  exists s, lalr_parse the_tables true (lalr_fuel ex_syntax) (start ex_syntax) = PErr PErrSyntax s /\
            p_config true (start ex_syntax) = PErr PErrSyntax s /\ p_line s = 4 /\ p_read s = 5%nat.
Proof. vm_compute. eexists. repeat split. Qed.

(* ---- the bounded check ---- *)
Definition N_bound : nat := 4.

Theorem lalr_agrees_bounded : forallb agree (all_inputs N_bound) = true.
Proof. vm_cast_no_check (eq_refl true). Qed.

Corollary lalr_agrees_bounded_spec lts ov : In lts (all_inputs N_bound) ->
  lalr_parse the_tables ov (lalr_fuel lts) (start lts) = lalr_expected (p_config ov (start lts)).
Proof.
  intros H. apply agree_spec. exact (proj1 (forallb_forall agree (all_inputs N_bound)) lalr_agrees_bounded lts H).
Qed.
