(* Chunked.v — matching when the input arrives in pieces (the logic of flex's refill: when the matcher runs
   out of buffered input without having jammed, more input is read, the DFA state for the retained lexeme
   prefix is recomputed (yy_get_previous_state) and scanning continues).  Definitions and the composition
   lemma: feeding the chunks one after the other is the same as matching on their concatenation. *)
From Coq Require Import List ZArith Bool Lia.
Import ListNotations.
From LC Require Import Base FlexEngine.
Local Open Scope Z_scope.

Section Chunked.
  Variable T : tables.

  (* outcome of running the automaton over one chunk *)
  Inductive fed :=
  | Decided (r : option (Z * nat))                     (* the automaton jammed inside the chunk *)
  | Hungry (s : Z) (n : nat) (last : option (Z * nat)).  (* end of chunk reached: state, bytes consumed, candidate *)

  Fixpoint feed (s : Z) (n : nat) (last : option (Z * nat)) (bs : bytes) : fed :=
    match bs with
    | [] => Hungry s n last
    | b :: r =>
        let last' := if accept_of T s =? 0 then last else Some (accept_of T s, n) in
        let s' := step_byte T s b in
        if s' =? t_jam T then Decided last' else feed s' (S n) last' r
    end.

  (* at end of all input the current state may still accept *)
  Definition finish (f : fed) : option (Z * nat) :=
    match f with
    | Decided r => r
    | Hungry s n last => if accept_of T s =? 0 then last else Some (accept_of T s, n)
    end.

  (* the chunks are consumed one by one, carrying state, position and candidate across the refills *)
  Fixpoint feed_chunks (f : fed) (chunks : list bytes) : fed :=
    match chunks with
    | [] => f
    | c :: rest =>
        match f with
        | Decided r => Decided r
        | Hungry s n last => feed_chunks (feed s n last c) rest
        end
    end.

  Definition match_chunked (sc : Z) (bol : bool) (chunks : list bytes) : option (Z * nat) :=
    finish (feed_chunks (Hungry (start_state sc bol) O None) chunks).

  Lemma run_feed bs : forall s n last, run T s n last bs = finish (feed s n last bs).
  Proof.
    induction bs as [|b r IH]; intros s n last; cbn [run feed finish]; [reflexivity|].
    destruct (step_byte T s b =? t_jam T); [reflexivity | apply IH].
  Qed.

  Lemma feed_app a : forall b s n last,
    feed s n last (a ++ b) = match feed s n last a with
                             | Decided r => Decided r
                             | Hungry s' n' last' => feed s' n' last' b
                             end.
  Proof.
    induction a as [|x a' IH]; intros b s n last; cbn [app feed]; [reflexivity|].
    destruct (step_byte T s x =? t_jam T); [reflexivity | apply IH].
  Qed.

  Lemma feed_chunks_concat chunks : forall s n last,
    feed_chunks (Hungry s n last) chunks = feed s n last (concat chunks).
  Proof.
    induction chunks as [|c rest IH]; intros s n last; cbn [feed_chunks concat]; [reflexivity|].
    rewrite feed_app. destruct (feed s n last c) as [r|s' n' last'].
    - clear IH. destruct rest; reflexivity.
    - apply IH.
  Qed.

  Theorem chunk_independent sc bol chunks :
    match_chunked sc bol chunks = flex_match T sc bol (concat chunks).
  Proof. unfold match_chunked, flex_match. rewrite feed_chunks_concat, run_feed. reflexivity. Qed.
End Chunked.
