(* LexWrite.v — the compiled scanner on the text config_write produces: piece by piece, the tokens of the tree
   (lemmas behind Properties_C01, second half of the lexical round trip). *)
From Coq Require Import List ZArith NArith Bool Lia.
Import ListNotations.
From LC Require Import Base BaseFacts Tree Fp Api ScanAction FlexEngine Tokens Lexer Reader LiteralFacts Regex RegexFacts Bisim
  ScannerSpec ScannerCert ScannerFacts ClassCert RoundFacts LexRound Writer WriterFacts TreeFacts.
From LC.gen Require Import Consts ScannerTables.
Local Open Scope Z_scope.

Section LexWrite.
  Variable fmt_double : Z -> Z -> bool -> bytes.
  Variable atof : bytes -> Z.
  Variable FS : fs.
  Variable incdir : option bytes.
  Variable incf : incfn.
  Variable maxd : Z.
  Variable c : cfg.

  Notation render := (render fmt_double c).
  Notation render_all := (render_all fmt_double c).
  Notation steps := (steps atof FS incdir incf maxd).
  Notation LS := (LS atof FS incdir incf maxd).

  (* the text of a float as the writer prints it for this configuration *)
  Definition ftext (b : Z) : bytes := fmt_double b (c_prec c) (get_option c OPT_SCI).

  (* a float the round trip is claimed for: its rendering has the syntax of format_double's output and does not
     overflow when read (findings F1b excluded; F1 renderings still have this syntax) *)
  Definition float_ok (b : Z) : Prop :=
    matches c_float (ftext b) /\ bytes_ok (ftext b) /\ ~ In 10 (ftext b) /\ b64_is_inf (atof (ftext b)) = false.

  Definition eff (f : Z) : Z := if f =? 0 then c_deffmt c else f.

  (* the pieces the round trip is claimed for *)
  Definition piece_wf (p : piece) : Prop :=
    match p with
    | PIndent d => 1 < d
    | PName n => matches p_name n /\ bytes_ok n /\ ~ matches p_true n /\ ~ matches p_false n
    | PScalar (PInt v) _ => in_int v = true
    | PScalar (PInt64 v) _ => in_int64 v = true
    | PScalar (PFloat b) _ => float_ok b
    | PScalar (PStr (Some s)) _ => Forall (fun x => 1 <= x < 256) s
    | PScalar (PStr None) _ => True
    | PScalar (PBool _) _ => True
    | PScalar _ _ => False
    | _ => True
    end.

  (* the token a piece is read as *)
  Definition piece_tok (p : piece) : list token :=
    match p with
    | PIndent _ | PNl | PSp => []
    | PName n => [TkName n]
    | PAssign _ => [TkP TEquals]
    | POpen PList => [TkP TListStart] | PClose PList => [TkP TListEnd]
    | POpen PArray => [TkP TArrayStart] | PClose PArray => [TkP TArrayEnd]
    | POpen _ => [TkP TGroupStart] | PClose _ => [TkP TGroupEnd]
    | PComma => [TkP TComma]
    | PSemi => [TkP TSemicolon]
    | PScalar (PBool v) _ => [TkBool (if v =? 0 then 0 else 1)]
    | PScalar (PInt v) f => [if eff f =? 1 then TkHex v else TkInt v]
    | PScalar (PInt64 v) f => [if eff f =? 1 then TkHex64 v else TkInt64 v]
    | PScalar (PFloat b) _ => [TkFloat (atof (ftext b))]
    | PScalar (PStr (Some s)) _ => [TkString s]
    | PScalar (PStr None) _ => [TkString []]
    | PScalar _ _ => []
    end.

  (* which byte may come after a piece *)
  Definition follow_ok (p : piece) (d : Z) : Prop :=
    match p with
    | PIndent _ | PSp => d <> 32 /\ d <> 9 /\ d <> 64
    | PName _ => d = 32
    | PScalar (PStr _) _ => True
    | PScalar _ _ => In d after_value
    | _ => True
    end.

  Fixpoint chained (L : list piece) (tail : bytes) : Prop :=
    match L with
    | [] => True
    | p :: r => (exists d rest, render_all r ++ tail = d :: rest /\ follow_ok p d) /\ chained r tail
    end.

  Lemma chained_app A K tail : chained A (render_all K ++ tail) -> chained K tail -> chained (A ++ K) tail.
  Proof.
    induction A as [|p r IH]; intros HA HK; [exact HK|].
    cbn [app chained] in *. destruct HA as [(d & rest & E & F) HA]. split.
    - exists d, rest. split; [|exact F]. rewrite render_all_app, <- app_assoc. exact E.
    - apply IH; assumption.
  Qed.

  (* ---- one piece ---- *)
  Lemma replicate_length {A} n (x : A) : length (replicate n x) = n.
  Proof. induction n; cbn; congruence. Qed.

  Lemma indent_blanks d : 1 < d ->
    indent c d <> [] /\ (indent c d = replicate (length (indent c d)) 32 \/ indent c d = replicate (length (indent c d)) 9).
  Proof.
    intros Hd. unfold indent. destruct (c_tab c =? 0).
    - rewrite replicate_length. split; [|right; reflexivity].
      assert (H : (0 < Z.to_nat (d - 1))%nat) by lia.
      destruct (Z.to_nat (d - 1)); [lia | discriminate].
    - rewrite replicate_length. split; [|left; reflexivity].
      destruct (Z.leb_spec ((d - 1) * c_tab c) 1) as [L|L]; [discriminate|].
      assert (H : (0 < Z.to_nat ((d - 1) * c_tab c))%nat) by lia.
      destruct (Z.to_nat ((d - 1) * c_tab c)); [lia | discriminate].
  Qed.

  Definition keeps (st st' : lstate) : Prop := l_cond st' = 0 /\ l_acc st' = [].

  Lemma keeps_clear st : l_cond st = 0 -> l_acc st = [] -> keeps st (clear_pending st).
  Proof. intros H1 H2. destruct st; cbn in *; split; assumption. Qed.

  (* one piece in front of a byte it may be followed by: a run of steps producing its token *)
  Lemma lex_piece p d rest st b :
    piece_wf p -> follow_ok p d -> bytes_ok (d :: rest) -> l_cond st = 0 -> l_acc st = [] ->
    b_rest b = render p ++ d :: rest ->
    exists toks st' b', steps st b toks st' b' /\ b_rest b' = d :: rest /\
                        map lt_tok toks = piece_tok p /\ l_cond st' = 0 /\ l_acc st' = [].
  Proof.
    intros Hwf Hf Hr Hc Ha Hb.
    assert (Hlen : forall w, w <> [] -> (length (d :: rest) < length (w ++ d :: rest))%nat).
    { intros w Hw. rewrite app_length. destruct w; [congruence | cbn; lia]. }
    assert (one_tok : forall w t, w <> [] -> render p = w ->
              LS st b = STok (tok_of st (b_line b) t) (clear_pending st) (mkBuf (d :: rest) false (b_line b)) ->
              exists toks st' b', steps st b toks st' b' /\ b_rest b' = d :: rest /\
                                  map lt_tok toks = [t] /\ l_cond st' = 0 /\ l_acc st' = []).
    { intros w t Hw Hren E. exists [tok_of st (b_line b) t], (clear_pending st), (mkBuf (d :: rest) false (b_line b)).
      destruct (keeps_clear st Hc Ha) as [K1 K2].
      repeat split; try assumption.
      eapply steps_tok; [rewrite Hb, Hren; destruct w; [congruence|discriminate] | | exact E | apply steps_refl].
      rewrite Hb, Hren. cbn [b_rest]. apply Hlen. exact Hw. }
    assert (one_skip : forall w bol line, w <> [] -> render p = w ->
              LS st b = SCont st (mkBuf (d :: rest) bol line) ->
              exists toks st' b', steps st b toks st' b' /\ b_rest b' = d :: rest /\
                                  map lt_tok toks = [] /\ l_cond st' = 0 /\ l_acc st' = []).
    { intros w bol line Hw Hren E. exists [], st, (mkBuf (d :: rest) bol line).
      repeat split; try assumption.
      eapply steps_cont; [rewrite Hb, Hren; destruct w; [congruence|discriminate] | | exact E | apply steps_refl].
      rewrite Hb, Hren. cbn [b_rest]. apply Hlen. exact Hw. }
    assert (punct : forall ch rule pt, In (ch, rule, pt) punct_table -> render p = [ch] ->
              exists toks st' b', steps st b toks st' b' /\ b_rest b' = d :: rest /\
                                  map lt_tok toks = [TkP pt] /\ l_cond st' = 0 /\ l_acc st' = []).
    { intros ch rule pt Hin Hren. apply (one_tok [ch]); [discriminate | exact Hren|].
      eapply step_punct; eauto. rewrite Hb, Hren. reflexivity. }
    destruct p as [dep | | | n | g | k | k | | | pl f]; cbn [piece_wf follow_ok piece_tok] in *.
    - (* indent *)
      destruct (indent_blanks dep Hwf) as [Hne Hsh]. destruct Hf as (F1 & F2 & F3).
      apply (one_skip (indent c dep) false (b_line b) Hne eq_refl).
      apply (step_spaces atof FS incdir incf maxd (indent c dep)); try assumption.
    - (* newline *)
      apply (one_skip [10] true (b_line b + 1)); [discriminate | reflexivity|].
      apply step_newline; try assumption; try (rewrite Hb; reflexivity).
    - (* space *)
      destruct Hf as (F1 & F2 & F3).
      apply (one_skip [32] false (b_line b)); [discriminate | reflexivity|].
      apply (step_spaces atof FS incdir incf maxd [32]); try assumption; try discriminate; try (left; reflexivity); try (rewrite Hb; reflexivity).
    - (* name *)
      destruct Hwf as (Hm & Hbn & Nt & Nf). subst d.
      assert (Hne : n <> []).
      { intros ->. assert (N : nullable p_name = true) by (apply nullable_correct; exact Hm). discriminate N. }
      apply (one_tok n (TkName n) Hne eq_refl).
      apply step_name; try assumption; try (inversion Hr; assumption); try (rewrite Hb; reflexivity).
    - (* assignment character *)
      unfold render, assign_char in *. cbn [WriterFacts.render] in *.
      destruct g; [destruct (get_option c OPT_COLON_GROUPS) | destruct (get_option c OPT_COLON_NONGROUPS)].
      + apply (punct 58 30 TEquals); [cbn; auto | reflexivity].
      + apply (punct 61 30 TEquals); [cbn; auto | reflexivity].
      + apply (punct 58 30 TEquals); [cbn; auto | reflexivity].
      + apply (punct 61 30 TEquals); [cbn; auto | reflexivity].
    - (* open *)
      destruct k; first [ apply (punct 40 44 TListStart); [cbn; auto 12 | reflexivity]
                        | apply (punct 91 42 TArrayStart); [cbn; auto 12 | reflexivity]
                        | apply (punct 123 32 TGroupStart); [cbn; auto 12 | reflexivity] ].
    - (* close *)
      destruct k; first [ apply (punct 41 45 TListEnd); [cbn; auto 12 | reflexivity]
                        | apply (punct 93 43 TArrayEnd); [cbn; auto 12 | reflexivity]
                        | apply (punct 125 33 TGroupEnd); [cbn; auto 12 | reflexivity] ].
    - apply (punct 44 31 TComma); [cbn; auto | reflexivity].
    - apply (punct 59 46 TSemicolon); [cbn; auto 12 | reflexivity].
    - (* scalars *)
      assert (Hrest : bytes_ok rest) by (inversion Hr; assumption).
      unfold render in Hb. cbn [WriterFacts.render] in Hb. fold (eff f) in Hb.
      destruct pl as [| v | v | bts | v | o | | |]; try contradiction; cbn [write_scalar] in Hb.
      + (* int *)
        destruct (eff f =? 1) eqn:Ef.
        * apply (one_tok ([48; 120] ++ show_hex_upper (to_uint32 v)) (TkHex v)); [discriminate | cbn [WriterFacts.render write_scalar]; fold (eff f); rewrite Ef; reflexivity|].
          apply step_hex; assumption.
        * destruct (show_dec_class v) as (_ & _ & Hne).
          apply (one_tok (show_dec v) (TkInt v) Hne); [cbn [WriterFacts.render write_scalar]; fold (eff f); rewrite Ef; reflexivity|].
          apply step_int; assumption.
      + (* int64 *)
        destruct (eff f =? 1) eqn:Ef.
        * apply (one_tok ([48; 120] ++ show_hex_upper (to_uint64 v) ++ [76]) (TkHex64 v)); [discriminate | cbn [WriterFacts.render write_scalar]; fold (eff f); rewrite Ef; reflexivity|].
          apply step_hex64; assumption.
        * apply (one_tok (show_dec v ++ [76]) (TkInt64 v)); [destruct (show_dec v); discriminate | cbn [WriterFacts.render write_scalar]; fold (eff f); rewrite Ef; reflexivity|].
          apply step_int64; assumption.
      + (* float *)
        destruct Hwf as (Hm & Hbw & Hnl & Hinf). fold (ftext bts) in Hb.
        assert (Hne : ftext bts <> []).
        { intros E. rewrite E in Hm. assert (N : nullable c_float = true) by (apply nullable_correct; exact Hm). discriminate N. }
        apply (one_tok (ftext bts) (TkFloat (atof (ftext bts))) Hne); [reflexivity|].
        apply step_float; assumption.
      + (* bool *)
        destruct (v =? 0) eqn:Ev.
        * apply (one_tok [102; 97; 108; 115; 101] (TkBool 0)); [discriminate | cbn [WriterFacts.render write_scalar]; rewrite Ev; reflexivity|].
          apply step_false; assumption.
        * apply (one_tok [116; 114; 117; 101] (TkBool 1)); [discriminate | cbn [WriterFacts.render write_scalar]; rewrite Ev; reflexivity|].
          apply step_true; assumption.
      + (* string *)
        set (s := match o with Some s => s | None => [] end).
        assert (Hs : Forall (fun x => 1 <= x < 256) s) by (destruct o; [exact Hwf | constructor]).
        assert (Hw : write_string o = write_string (Some s)) by (destruct o; reflexivity).
        rewrite Hw in Hb.
        exists [tok_of st (b_line b) (TkString s)], (clear_pending st), (mkBuf (d :: rest) false (b_line b)).
        destruct (keeps_clear st Hc Ha) as [K1 K2].
        repeat split; try assumption.
        * apply string_steps; assumption.
        * destruct o; reflexivity.
  Qed.

  (* ---- a chain of pieces ---- *)
  Theorem lex_pieces L : forall tail st b,
    Forall piece_wf L -> chained L tail -> tail <> [] -> bytes_ok (render_all L ++ tail) ->
    l_cond st = 0 -> l_acc st = [] -> b_rest b = render_all L ++ tail ->
    exists toks st' b', steps st b toks st' b' /\ b_rest b' = tail /\
                        map lt_tok toks = flat_map piece_tok L /\ l_cond st' = 0 /\ l_acc st' = [].
  Proof.
    induction L as [|p r IH]; intros tail st b Hwf Hch Hne Hb Hc Ha Hr.
    - exists [], st, b. cbn in Hr. repeat split; try assumption. apply steps_refl.
    - inversion Hwf as [|? ? Hp Hrw]; subst. cbn [chained] in Hch. destruct Hch as [(d & rest & E & F) Hch].
      change (render_all (p :: r)) with (render p ++ render_all r) in Hr, Hb. rewrite <- app_assoc in Hr, Hb. rewrite E in Hr.
      assert (Hdr : bytes_ok (d :: rest)).
      { rewrite E in Hb. unfold bytes_ok in *. apply Forall_app in Hb. exact (proj2 Hb). }
      destruct (lex_piece p d rest st b Hp F Hdr Hc Ha Hr) as (t1 & st1 & b1 & S1 & R1 & T1 & C1 & A1).
      rewrite <- E in R1, Hdr.
      destruct (IH tail st1 b1 Hrw Hch Hne Hdr C1 A1 R1) as (t2 & st2 & b2 & S2 & R2 & T2 & C2 & A2).
      exists (t1 ++ t2), st2, b2. repeat split; try assumption.
      + eapply steps_trans; eassumption.
      + rewrite map_app, T1, T2. reflexivity.
  Qed.

  (* ------------------------------------------------------------------------------------ *)
  (* the pieces of a whole tree form a chain *)

  Definition name_ok (n : bytes) : Prop :=
    matches p_name n /\ bytes_ok n /\ ~ matches p_true n /\ ~ matches p_false n.
  Definition named_ok (m : setting) : Prop := exists n, s_name m = Some n /\ name_ok n.

  Definition scalar_ok (pl : payload) : Prop :=
    match pl with
    | PInt v => in_int v = true
    | PInt64 v => in_int64 v = true
    | PFloat b => float_ok b
    | PStr (Some s) => Forall (fun x => 1 <= x < 256) s
    | PStr None | PBool _ => True
    | _ => False
    end.

  (* trees the round trip is claimed for: documented scalar types with values in range, members with valid
     non-keyword names (findings F2 and TYPE_NONE leaves excluded), any nesting *)
  Fixpoint writable (s : setting) : Prop :=
    let 'Setting _ pl kids _ _ _ _ := s in
    match pl with
    | PList | PArray => (fix all (l : list setting) : Prop := match l with [] => True | e :: r => writable e /\ all r end) kids
    | PGroup => (fix all (l : list setting) : Prop :=
                   match l with [] => True | m :: r => (named_ok m /\ writable m) /\ all r end) kids
    | _ => scalar_ok pl
    end.

  Definition nonblank (d : Z) : Prop := d <> 32 /\ d <> 9 /\ d <> 64.

  (* flat descriptions of the inner loops of [pieces] *)
  Fixpoint elems_pieces (depth : Z) (l : list setting) : list piece :=
    match l with
    | [] => []
    | [e] => pieces c e (depth + 1) ++ [PSp]
    | e :: r => pieces c e (depth + 1) ++ [PComma; PSp] ++ elems_pieces depth r
    end.

  Lemma elems_pieces_cons depth e e2 r2 :
    elems_pieces depth (e :: e2 :: r2) = pieces c e (depth + 1) ++ [PComma; PSp] ++ elems_pieces depth (e2 :: r2).
  Proof. reflexivity. Qed.

  Lemma list_pieces n pl kids f h l fi depth : pl = PList \/ pl = PArray ->
    pieces c (Setting n pl kids f h l fi) depth = [POpen pl; PSp] ++ elems_pieces depth kids ++ [PClose pl].
  Proof.
    intros [-> | ->]; cbn [pieces]; f_equal; f_equal; f_equal;
      (induction kids as [|e r IH]; [reflexivity|]; destruct r as [|e2 r2]; [reflexivity|];
       rewrite elems_pieces_cons, <- IH; reflexivity).
  Qed.

  Lemma all_elems kids :
    (fix all (l : list setting) : Prop := match l with [] => True | e :: r => writable e /\ all r end) kids <->
    Forall writable kids.
  Proof. induction kids as [|e r IH]; [split; constructor|]. rewrite IH. split; [intros [A B]; constructor; assumption | intros H; inversion H; split; assumption]. Qed.

  Lemma all_members kids :
    (fix all (l : list setting) : Prop := match l with [] => True | m :: r => (named_ok m /\ writable m) /\ all r end) kids <->
    Forall (fun m => named_ok m /\ writable m) kids.
  Proof. induction kids as [|e r IH]; [split; constructor|]. rewrite IH. split; [intros [A B]; constructor; assumption | intros H; inversion H; split; assumption]. Qed.

  (* ---- first bytes ---- *)
  Lemma name_first n : name_ok n -> exists d r, n = d :: r /\ nonblank d.
  Proof.
    intros (Hm & _). unfold p_name in Hm. apply m_cat in Hm as (u & v & -> & Hu & _).
    apply m_chr in Hu as (x & -> & Hx). exists x, v. split; [reflexivity|].
    unfold nonblank. repeat split; intros ->; vm_compute in Hx; discriminate Hx.
  Qed.

  Lemma float_first_sweep :
    forallb (fun b => is_emp (deriv b c_float) || (b =? 45) || is_digit b) all_bytes = true.
  Proof. vm_compute. reflexivity. Qed.

  Lemma float_first w : matches c_float w -> bytes_ok w -> exists d r, w = d :: r /\ nonblank d.
  Proof.
    intros Hm Hb. destruct w as [|d r].
    - assert (N : nullable c_float = true) by (apply nullable_correct; exact Hm). discriminate N.
    - exists d, r. split; [reflexivity|]. inversion Hb as [|? ? Hd _]; subst.
      pose proof float_first_sweep as S. rewrite forallb_forall in S. specialize (S d (in_all_bytes d Hd)).
      apply orb_true_iff in S as [S|S]; [apply orb_true_iff in S as [S|S]|].
      + exfalso. apply (is_emp_sound _ S r). apply deriv_correct. exact Hm.
      + apply Z.eqb_eq in S. subst. unfold nonblank. lia.
      + unfold is_digit in S. apply andb_true_iff in S as [A B]. apply Z.leb_le in A, B. unfold nonblank. lia.
  Qed.

  Lemma show_dec_first v : exists d r, show_dec v = d :: r /\ nonblank d.
  Proof.
    destruct (show_dec_class v) as (Hm & Hb & Hne). destruct (show_dec v) as [|d r] eqn:E; [congruence|].
    exists d, r. split; [reflexivity|].
    (* first byte: '-' or a digit *)
    rewrite show_dec_sign in E. destruct (show_dec_nonneg (Z.abs v) (Z.abs_nonneg v)) as (_ & Hdig & Hne2).
    destruct (v <? 0); cbn [sign_of app] in E.
    - injection E as <- _. unfold nonblank. lia.
    - destruct (show_dec (Z.abs v)) as [|x xs]; [congruence|]. injection E as <- _.
      cbn [forallb] in Hdig. apply andb_true_iff in Hdig as [Hx _]. unfold is_digit in Hx.
      apply andb_true_iff in Hx as [A B]. apply Z.leb_le in A, B. unfold nonblank. lia.
  Qed.

  Lemma scalar_first pl f t : scalar_ok pl ->
    exists d r, render (PScalar pl f) ++ t = d :: r /\ nonblank d.
  Proof.
    intros Hok. unfold render. cbn [WriterFacts.render]. fold (eff f).
    destruct pl as [| v | v | b | v | o | | |]; try contradiction; cbn [write_scalar scalar_ok] in *.
    - destruct (eff f =? 1).
      + eexists _, _. split; [reflexivity | unfold nonblank; lia].
      + destruct (show_dec_first v) as (d & r & E & N). rewrite E. eexists _, _. split; [reflexivity | exact N].
    - destruct (eff f =? 1).
      + eexists _, _. split; [reflexivity | unfold nonblank; lia].
      + destruct (show_dec_first v) as (d & r & E & N). rewrite E. eexists _, _. split; [reflexivity | exact N].
    - destruct Hok as (Hm & Hb & _). fold (ftext b). destruct (float_first _ Hm Hb) as (d & r & E & N).
      rewrite E. eexists _, _. split; [reflexivity | exact N].
    - destruct (v =? 0); eexists _, _; (split; [reflexivity | unfold nonblank; lia]).
    - unfold write_string. eexists _, _. split; [reflexivity | unfold nonblank; lia].
  Qed.

  Lemma pieces_first s depth t : writable s -> 0 < depth ->
    exists d r, render_all (pieces c s depth) ++ t = d :: r /\ nonblank d.
  Proof.
    intros Hw Hd. destruct s as [n pl kids f h l fi].
    destruct pl; try (cbn [pieces]; unfold WriterFacts.render_all; cbn [flat_map]; rewrite app_nil_r;
                      apply scalar_first; exact Hw).
    - (* group *)
      cbn [pieces]. replace (0 <? depth) with true by (symmetry; apply Z.ltb_lt; exact Hd).
      destruct (get_option c OPT_BRACE_NEWLINE).
      + eexists _, _. split; [reflexivity | unfold nonblank; lia].
      + eexists _, _. split; [reflexivity | unfold nonblank; lia].
    - eexists _, _. split; [reflexivity | unfold nonblank; lia].
    - eexists _, _. split; [reflexivity | unfold nonblank; lia].
  Qed.

  (* ---- chains ---- *)
  Lemma chained_tail_hd L d r1 r2 : chained L (d :: r1) -> chained L (d :: r2).
  Proof.
    induction L as [|p r IH]; intros H; [exact I|]. cbn [chained] in *. destruct H as [(x & rest & E & F) H].
    split; [|apply IH; exact H].
    destruct (render_all r) as [|y ys] eqn:Er.
    - cbn [app] in *. injection E as <- _. exists d, r2. split; [reflexivity | exact F].
    - cbn [app] in *. injection E as <- _. exists y, (ys ++ d :: r2). split; [reflexivity | exact F].
  Qed.

  Lemma chained_one p d rest : follow_ok p d -> chained [p] (d :: rest).
  Proof. intros F. cbn [chained]. split; [|exact I]. exists d, rest. split; [reflexivity | exact F]. Qed.

  Lemma chained_cons p r tail d rest :
    render_all r ++ tail = d :: rest -> follow_ok p d -> chained r tail -> chained (p :: r) tail.
  Proof. intros E F H. cbn [chained]. split; [exists d, rest; split; assumption | exact H]. Qed.

  Lemma chained_cons_free p r tail :
    (forall d, follow_ok p d) -> tail <> [] -> chained r tail -> chained (p :: r) tail.
  Proof.
    intros F Hne H. cbn [chained]. split; [|exact H].
    destruct (render_all r ++ tail) as [|d rest] eqn:E.
    - destruct (render_all r); [cbn in E; congruence | discriminate].
    - exists d, rest. split; [reflexivity | apply F].
  Qed.

  Definition value_follow (s : setting) (d : Z) : Prop :=
    match s_pl s with PStr _ | PGroup | PList | PArray => True | _ => In d after_value end.

  (* what the induction delivers for one value *)
  Definition chain_ok (s : setting) : Prop :=
    forall depth d rest, 0 < depth -> value_follow s d ->
      chained (pieces c s depth) (d :: rest) /\ Forall piece_wf (pieces c s depth).

  Lemma nonblank_follow_sp d : nonblank d -> follow_ok PSp d.
  Proof. exact (fun H => H). Qed.

  Lemma elems_first depth e r t : writable e -> 0 <= depth ->
    exists d rest, render_all (elems_pieces depth (e :: r)) ++ t = d :: rest /\ nonblank d.
  Proof.
    intros Hw Hd. destruct r as [|e2 r2]; cbn [elems_pieces]; rewrite !render_all_app, <- !app_assoc;
      apply pieces_first; (exact Hw || lia).
  Qed.

  Lemma elems_chain depth kids : 0 <= depth ->
    Forall (fun e => writable e /\ chain_ok e) kids ->
    forall cl rest, nonblank cl ->
      chained (elems_pieces depth kids) (cl :: rest) /\ Forall piece_wf (elems_pieces depth kids).
  Proof.
    intros Hd H. induction H as [|e r [He Hce] Hr IH]; intros cl rest Hcl; [split; constructor|].
    destruct r as [|e2 r2].
    - cbn [elems_pieces].
      destruct (Hce (depth + 1) 32 (cl :: rest) ltac:(lia)) as [C W].
      { unfold value_follow. destruct (s_pl e); try exact I; cbn; auto. }
      split.
      + apply chained_app; [exact C | apply chained_one; exact Hcl].
      + apply Forall_app. split; [exact W | constructor; [exact I | constructor]].
    - rewrite elems_pieces_cons.
      inversion Hr as [|? ? [He2 _] _]; subst.
      destruct (IH cl rest Hcl) as [C2 W2].
      destruct (elems_first depth e2 r2 (cl :: rest) He2 Hd) as (x & xs & Ex & Nx).
      destruct (Hce (depth + 1) 44 (32 :: render_all (elems_pieces depth (e2 :: r2)) ++ cl :: rest) ltac:(lia)) as [C W].
      { unfold value_follow. destruct (s_pl e); try exact I; cbn; auto. }
      split.
      + apply chained_app; [exact C|].
        cbn [app]. eapply chained_cons; [reflexivity | exact I|].
        eapply chained_cons; [exact Ex | exact Nx | exact C2].
      + apply Forall_app. split; [exact W|]. constructor; [exact I|]. constructor; [exact I | exact W2].
  Qed.

  (* one member line followed by anything non-empty *)
  Lemma member_chain m d t0 trest :
    named_ok m -> writable m -> chain_ok m -> 0 < d ->
    chained (member_line c m d) (t0 :: trest) /\ Forall piece_wf (member_line c m d).
  Proof.
    intros (n & En & Hn) Hw Hc Hd. unfold member_line. rewrite En.
    replace (0 <? d) with true by (symmetry; apply Z.ltb_lt; exact Hd).
    destruct (name_first n Hn) as (n0 & nr & En0 & Nn0).
    (* the value and what follows it *)
    set (after := semi_pieces c ++ [PNl]).
    assert (Hafter : exists a0 ar, render_all after ++ t0 :: trest = a0 :: ar /\ In a0 after_value /\
                                   chained after (t0 :: trest) /\ Forall piece_wf after).
    { unfold after, semi_pieces. destruct (get_option c OPT_SEMICOLON).
      - exists 59, (10 :: t0 :: trest). split; [reflexivity|]. split; [cbn; auto|]. split.
        + eapply chained_cons; [reflexivity | exact I | apply chained_one; exact I].
        + repeat constructor.
      - exists 10, (t0 :: trest). split; [reflexivity|]. split; [cbn; auto|]. split.
        + apply chained_one. exact I.
        + repeat constructor. }
    destruct Hafter as (a0 & ar & Ea & Ia & Ca & Wa).
    destruct (Hc d a0 ar Hd) as [Cv Wv].
    { unfold value_follow. destruct (s_pl m); try exact I; exact Ia. }
    destruct (pieces_first m d (render_all after ++ t0 :: trest) Hw Hd) as (v0 & vr & Ev & Nv).
    assert (Cval : chained (pieces c m d ++ after) (t0 :: trest)).
    { apply chained_app; [rewrite Ea; exact Cv | exact Ca]. }
    assert (Cname : chained ([PName n; PSp; PAssign (ty_eqb (s_ty m) TGroup); PSp] ++ pieces c m d ++ after) (t0 :: trest)).
    { cbn [app].
      eapply chained_cons; [reflexivity | reflexivity|].
      eapply chained_cons.
      { change (render_all (PAssign (ty_eqb (s_ty m) TGroup) :: PSp :: pieces c m d ++ after))
          with ([assign_char c (ty_eqb (s_ty m) TGroup)] ++ render_all (PSp :: pieces c m d ++ after)).
        rewrite <- app_assoc. reflexivity. }
      { unfold assign_char. cbn [follow_ok]. unfold nonblank.
        destruct (ty_eqb (s_ty m) TGroup); [destruct (get_option c OPT_COLON_GROUPS) | destruct (get_option c OPT_COLON_NONGROUPS)]; lia. }
      eapply chained_cons; [reflexivity | exact I|].
      eapply chained_cons; [| exact Nv | exact Cval].
      rewrite render_all_app, <- app_assoc. exact Ev. }
    assert (Wname : Forall piece_wf ([PName n; PSp; PAssign (ty_eqb (s_ty m) TGroup); PSp] ++ pieces c m d ++ after)).
    { apply Forall_app. split.
      - constructor; [exact Hn|]. constructor; [exact I|]. constructor; [exact I|]. constructor; [exact I | constructor].
      - apply Forall_app. split; assumption. }
    destruct (1 <? d) eqn:E1.
    - apply Z.ltb_lt in E1. split.
      + cbn [app]. eapply chained_cons; [| | exact Cname].
        * cbn [app]. change (render_all (PName n :: ?r)) with (n ++ render_all r).
          rewrite En0. reflexivity.
        * exact Nn0.
      + constructor; [exact E1 | exact Wname].
    - cbn [app]. split; [exact Cname | exact Wname].
  Qed.

  Lemma members_chain d kids t0 trest : 0 < d ->
    Forall (fun m => (named_ok m /\ writable m) /\ chain_ok m) kids ->
    chained (flat_map (fun m => member_line c m d) kids) (t0 :: trest) /\
    Forall piece_wf (flat_map (fun m => member_line c m d) kids).
  Proof.
    intros Hd H. induction H as [|m r [[Hn Hw] Hc] Hr IH]; [split; constructor|].
    cbn [flat_map]. destruct IH as [C2 W2].
    (* what follows this member line: the next line or the tail; in both cases something non-empty *)
    destruct (render_all (flat_map (fun m0 => member_line c m0 d) r) ++ t0 :: trest) as [|y ys] eqn:Ey.
    { destruct (render_all (flat_map (fun m0 => member_line c m0 d) r)); discriminate. }
    destruct (member_chain m d y ys Hn Hw Hc Hd) as [C1 W1].
    split.
    - apply chained_app; [rewrite Ey; exact C1 | exact C2].
    - apply Forall_app. split; assumption.
  Qed.

  (* ---- the whole tree ---- *)
  Theorem writable_chain : forall s, writable s -> chain_ok s.
  Proof.
    induction s as [n pl kids f h l fi IH] using setting_ind'. intros Hw depth d rest Hd Hf.
    destruct pl.
    1-6: (cbn [pieces]; split;
          [apply chained_one; unfold value_follow in Hf; cbn [s_pl] in Hf; cbn [follow_ok]; try exact Hf; try exact I
          | constructor; [exact Hw | constructor]]).
    - (* group *)
      cbn [writable] in Hw. apply all_members in Hw.
      assert (Hk : Forall (fun m => (named_ok m /\ writable m) /\ chain_ok m) kids).
      { rewrite Forall_forall in *. intros m Hm. split; [apply Hw; exact Hm|]. apply IH; [exact Hm | apply Hw; exact Hm]. }
      rewrite group_is_lines. replace (0 <? depth) with true by (symmetry; apply Z.ltb_lt; exact Hd).
      set (suffix := (if 1 <? depth then [PIndent depth] else []) ++ [PClose PGroup]).
      assert (Hsuf : chained suffix (d :: rest) /\ Forall piece_wf suffix /\
                     exists y ys, render_all suffix ++ d :: rest = y :: ys).
      { unfold suffix. destruct (1 <? depth) eqn:E1.
        - apply Z.ltb_lt in E1. split; [|split].
          + cbn [app]. eapply chained_cons; [reflexivity | cbn; unfold nonblank; lia | apply chained_one; exact I].
          + constructor; [exact E1 | constructor; [exact I | constructor]].
          + destruct (indent_blanks depth E1) as [Hne _]. cbn [app WriterFacts.render_all flat_map WriterFacts.render].
            destruct (indent c depth) as [|y ys]; [congruence|]. eexists _, _. reflexivity.
        - split; [|split]; [apply chained_one; exact I | constructor; [exact I | constructor] | eexists _, _; reflexivity]. }
      destruct Hsuf as (Cs & Ws & y & ys & Ey).
      destruct (members_chain (depth + 1) kids y ys ltac:(lia) Hk) as [Cm Wm].
      assert (Cbody : chained (flat_map (fun m => member_line c m (depth + 1)) kids ++ suffix) (d :: rest)).
      { apply chained_app; [rewrite Ey; exact Cm | exact Cs]. }
      assert (Wbody : Forall piece_wf (flat_map (fun m => member_line c m (depth + 1)) kids ++ suffix)).
      { apply Forall_app. split; assumption. }
      assert (Hnext : exists z zs, render_all (flat_map (fun m => member_line c m (depth + 1)) kids ++ suffix) ++ d :: rest = z :: zs).
      { rewrite render_all_app, <- app_assoc, Ey.
        destruct (render_all (flat_map (fun m => member_line c m (depth + 1)) kids)); eexists _, _; reflexivity. }
      destruct Hnext as (z & zs & Ez).
      fold suffix.
      assert (Copen : chained ([POpen PGroup; PNl] ++ flat_map (fun m => member_line c m (depth + 1)) kids ++ suffix) (d :: rest)).
      { cbn [app]. eapply chained_cons; [reflexivity | exact I|]. eapply chained_cons; [exact Ez | exact I | exact Cbody]. }
      assert (Wopen : Forall piece_wf ([POpen PGroup; PNl] ++ flat_map (fun m => member_line c m (depth + 1)) kids ++ suffix)).
      { constructor; [exact I|]. constructor; [exact I | exact Wbody]. }
      rewrite <- !app_assoc.
      destruct (get_option c OPT_BRACE_NEWLINE).
      + destruct (1 <? depth) eqn:E1.
        * apply Z.ltb_lt in E1. cbn [app]. split.
          -- apply chained_cons_free; [intros; exact I | discriminate|].
             eapply chained_cons; [reflexivity | cbn; unfold nonblank; lia | exact Copen].
          -- constructor; [exact I|]. constructor; [exact E1 | exact Wopen].
        * cbn [app]. split.
          -- eapply chained_cons; [reflexivity | exact I | exact Copen].
          -- constructor; [exact I | exact Wopen].
      + cbn [app]. split; [exact Copen | exact Wopen].
    - (* array *)
      cbn [writable] in Hw. apply all_elems in Hw.
      assert (Hk : Forall (fun e => writable e /\ chain_ok e) kids).
      { rewrite Forall_forall in *. intros e He. split; [apply Hw; exact He|]. apply IH; [exact He | apply Hw; exact He]. }
      rewrite (list_pieces n PArray kids f h l fi depth (or_intror eq_refl)).
      destruct (elems_chain depth kids ltac:(lia) Hk 93 (d :: rest) ltac:(unfold nonblank; lia)) as [Ce We].
      assert (Cbody : chained (elems_pieces depth kids ++ [PClose PArray]) (d :: rest)).
      { apply chained_app; [exact Ce | apply chained_one; exact I]. }
      assert (Hnext : exists z zs, render_all (elems_pieces depth kids ++ [PClose PArray]) ++ d :: rest = z :: zs /\ nonblank z).
      { destruct kids as [|e r].
        - exists 93, (d :: rest). split; [reflexivity | unfold nonblank; lia].
        - inversion Hk as [|? ? [He _] _]; subst. rewrite render_all_app, <- app_assoc.
          apply elems_first; [exact He | lia]. }
      destruct Hnext as (z & zs & Ez & Nz).
      cbn [app]. split.
      + eapply chained_cons; [reflexivity | exact I|]. eapply chained_cons; [exact Ez | exact Nz | exact Cbody].
      + constructor; [exact I|]. constructor; [exact I|]. apply Forall_app. split; [exact We | constructor; [exact I | constructor]].
    - (* list *)
      cbn [writable] in Hw. apply all_elems in Hw.
      assert (Hk : Forall (fun e => writable e /\ chain_ok e) kids).
      { rewrite Forall_forall in *. intros e He. split; [apply Hw; exact He|]. apply IH; [exact He | apply Hw; exact He]. }
      rewrite (list_pieces n PList kids f h l fi depth (or_introl eq_refl)).
      destruct (elems_chain depth kids ltac:(lia) Hk 41 (d :: rest) ltac:(unfold nonblank; lia)) as [Ce We].
      assert (Cbody : chained (elems_pieces depth kids ++ [PClose PList]) (d :: rest)).
      { apply chained_app; [exact Ce | apply chained_one; exact I]. }
      assert (Hnext : exists z zs, render_all (elems_pieces depth kids ++ [PClose PList]) ++ d :: rest = z :: zs /\ nonblank z).
      { destruct kids as [|e r].
        - exists 41, (d :: rest). split; [reflexivity | unfold nonblank; lia].
        - inversion Hk as [|? ? [He _] _]; subst. rewrite render_all_app, <- app_assoc.
          apply elems_first; [exact He | lia]. }
      destruct Hnext as (z & zs & Ez & Nz).
      cbn [app]. split.
      + eapply chained_cons; [reflexivity | exact I|]. eapply chained_cons; [exact Ez | exact Nz | exact Cbody].
      + constructor; [exact I|]. constructor; [exact I|]. apply Forall_app. split; [exact We | constructor; [exact I | constructor]].
  Qed.

  (* ---- the bytes of the text ---- *)
  Lemma esc_bytes_ok s : Forall (fun x => 1 <= x < 256) s -> bytes_ok (flat_map esc_char s).
  Proof.
    induction 1 as [|y ys Hy _ IHy]; [constructor|]. cbn [flat_map]. apply Forall_app. split; [|exact IHy].
    destruct (is_plain y) eqn:Py.
    - rewrite (esc_char_plain y Py). repeat constructor; lia.
    - destruct (esc_char_escaped y Hy Py) as (? & ? & _ & B). exact B.
  Qed.

  Lemma render_bytes_ok p : piece_wf p -> bytes_ok (render p).
  Proof.
    intros Hwf. destruct p as [dep | | | n | g | k | k | | | pl f]; cbn [piece_wf] in Hwf; unfold render; cbn [WriterFacts.render].
    - destruct (indent_blanks dep Hwf) as [_ [E|E]]; rewrite E; set (m := length (indent c dep)); clearbody m;
        induction m; cbn; constructor; (lia || assumption).
    - repeat constructor; lia.
    - repeat constructor; lia.
    - exact (proj1 (proj2 Hwf)).
    - unfold assign_char. destruct g; [destruct (get_option c OPT_COLON_GROUPS) | destruct (get_option c OPT_COLON_NONGROUPS)];
        repeat constructor; lia.
    - destruct k; repeat constructor; lia.
    - destruct k; repeat constructor; lia.
    - repeat constructor; lia.
    - repeat constructor; lia.
    - fold (eff f). destruct pl as [| v | v | b | v | o | | |]; try contradiction; cbn [write_scalar].
      + destruct (eff f =? 1).
        * apply show_hex_class. unfold to_uint32, two32. apply Z.mod_pos_bound. lia.
        * apply show_dec_class.
      + destruct (eff f =? 1).
        * apply show_hex64_class. unfold to_uint64, two64. apply Z.mod_pos_bound. lia.
        * apply show_dec64_class.
      + exact (proj1 (proj2 Hwf)).
      + destruct (v =? 0); repeat constructor; lia.
      + unfold write_string. apply Forall_app. split; [repeat constructor; lia|]. apply Forall_app. split; [|repeat constructor; lia].
        destruct o as [s|]; [apply esc_bytes_ok; exact Hwf | constructor].
  Qed.

  Lemma render_all_bytes_ok L : Forall piece_wf L -> bytes_ok (render_all L).
  Proof.
    induction 1 as [|p r Hp _ IH]; [constructor|]. change (render_all (p :: r)) with (render p ++ render_all r).
    apply Forall_app. split; [apply render_bytes_ok; exact Hp | exact IH].
  Qed.

  Lemma chained_app_inv A K tail : chained (A ++ K) tail -> chained A (render_all K ++ tail).
  Proof.
    induction A as [|p r IH]; intros H; [exact I|]. cbn [app chained] in *. destruct H as [(d & rest & E & F) H].
    split; [|apply IH; exact H]. exists d, rest. split; [|exact F]. rewrite render_all_app, <- app_assoc in E. exact E.
  Qed.

  (* the last newline of the text, at the end of the input *)
  Lemma step_newline_end st b : l_cond st = 0 -> b_rest b = [10] ->
    LS st b = SCont st (mkBuf [] true (b_line b + 1)).
  Proof.
    intros Hc Hr. unfold LexRound.LS, lex_step. rewrite Hc, Hr.
    assert (E : forall bol, flex_match the_tables 0 bol [10] = Some (28, 1%nat)) by (intros [|]; vm_compute; reflexivity).
    rewrite E. reflexivity.
  Qed.

  (* ---- the written text of a whole configuration ---- *)
  Theorem lex_written n kids f h l fi di :
    c_root c = Setting n PGroup kids f h l fi -> kids <> [] -> writable (c_root c) ->
    l_cond (lstate0 None) = 0 ->
    exists toks st' line,
      lex_buf the_tables yy_rule_can_match_eol yy_actions atof FS incdir incf maxd di
              (S (length (write_value fmt_double c (c_root c) 0))) (lstate0 None)
              (mkBuf (write_value fmt_double c (c_root c) 0) true 1) = (toks, StopEOB, st', line) /\
      map lt_tok toks = flat_map piece_tok (pieces c (c_root c) 0).
  Proof.
    intros Hroot Hk Hw _. rewrite write_value_pieces. rewrite Hroot in *.
    cbn [writable] in Hw. apply all_members in Hw.
    assert (Hch : Forall (fun m => (named_ok m /\ writable m) /\ chain_ok m) kids).
    { rewrite Forall_forall in *. intros m Hm. split; [apply Hw; exact Hm | apply writable_chain; apply Hw; exact Hm]. }
    rewrite group_is_lines. change (0 <? 0) with false. change (1 <? 0) with false. cbn [app]. rewrite app_nil_r.
    set (L := flat_map (fun m => member_line c m (0 + 1)) kids).
    destruct (members_chain (0 + 1) kids 120 [] ltac:(lia) Hch) as [CL WL]. fold L in CL, WL.
    (* the last piece is the newline of the last member *)
    assert (Hlast : exists L', L = L' ++ [PNl]).
    { unfold L. destruct (exists_last Hk) as (ks & m & ->). rewrite flat_map_app. cbn [flat_map]. rewrite app_nil_r.
      unfold member_line. change (0 <? 0 + 1) with true.
      exists (flat_map (fun m0 => member_line c m0 (0 + 1)) ks ++
              (if 1 <? 0 + 1 then [PIndent (0 + 1)] else []) ++
              match s_name m with
              | Some n0 => [PName n0; PSp; PAssign (ty_eqb (s_ty m) TGroup); PSp]
              | None => []
              end ++ pieces c m (0 + 1) ++ semi_pieces c).
      rewrite <- !app_assoc. reflexivity. }
    destruct Hlast as (L' & EL). rewrite EL in *.
    apply chained_app_inv in CL. cbn [WriterFacts.render_all flat_map WriterFacts.render app] in CL.
    apply (chained_tail_hd L' 10 _ []) in CL.
    apply Forall_app in WL as [WL' _].
    assert (Hb : bytes_ok (render_all L' ++ [10])).
    { apply Forall_app. split; [apply render_all_bytes_ok; exact WL' | repeat constructor; lia]. }
    rewrite render_all_app. change (render_all [PNl]) with [10].
    set (b0 := mkBuf (render_all L' ++ [10]) true 1).
    destruct (lex_pieces L' [10] (lstate0 None) b0 WL' CL ltac:(discriminate) Hb eq_refl eq_refl eq_refl)
      as (toks & st1 & b1 & S1 & R1 & T1 & C1 & A1).
    assert (S2 : steps (lstate0 None) b0 (toks ++ []) st1 (mkBuf [] true (b_line b1 + 1))).
    { eapply steps_trans; [exact S1|]. eapply steps_cont; [rewrite R1; discriminate | | apply step_newline_end; assumption | apply steps_refl].
      rewrite R1. cbn. lia. }
    rewrite app_nil_r in S2.
    destruct (lex_buf_steps atof FS incdir incf maxd di _ _ _ _ _ S2 (S (length (render_all L' ++ [10]))) ltac:(cbn; lia))
      as (fuel' & Hf' & Eq).
    exists toks, st1, (b_line b1 + 1). split.
    - rewrite Eq. destruct fuel' as [|f']; [cbn in Hf'; lia|]. cbn [lex_buf b_rest]. rewrite app_nil_r. reflexivity.
    - rewrite T1. rewrite flat_map_app. cbn [flat_map piece_tok]. rewrite app_nil_r. reflexivity.
  Qed.
End LexWrite.

(* the statement on lex_top: the token stream the parser receives for the text of config_write; the reading
   configuration c2 (include directory, include function) may be any *)
Theorem lex_top_written fmt_double atof FS c c2 kids f h l fi :
  c_root c = Setting None PGroup kids f h l fi -> kids <> [] -> writable fmt_double atof c (c_root c) ->
  exists toks, lex_top atof FS c2 None (config_write fmt_double c) = (toks, StopEOB) /\
               map lt_tok toks = flat_map (piece_tok fmt_double atof c) (pieces c (c_root c) 0) ++ [TkEOF].
Proof.
  intros Hroot Hk Hw. unfold lex_top, config_write. cbv zeta. rewrite Hroot. cbn [s_name app].
  replace (Z.to_nat MAX_INCLUDE_DEPTH + 1)%nat with (S (Z.to_nat MAX_INCLUDE_DEPTH)) by lia.
  cbn [lex_depth].
  destruct (lex_written fmt_double atof FS (c_incdir c2) (c_incfn c2) MAX_INCLUDE_DEPTH c None kids f h l fi
              (Some (lex_files FS (lex_depth the_tables yy_rule_can_match_eol yy_actions atof FS (c_incdir c2) (c_incfn c2)
                                             MAX_INCLUDE_DEPTH (Z.to_nat MAX_INCLUDE_DEPTH))))
              Hroot Hk Hw eq_refl) as (toks & st' & line & E & T).
  rewrite Hroot in E. change Reader.the_tables with ScannerCert.the_tables. rewrite E. cbn [emit]. eexists. split; [reflexivity|].
  rewrite map_app, T, Hroot. reflexivity.
Qed.
