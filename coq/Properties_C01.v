(* Properties_C01.v — C01: written configurations read back as the same configuration.
   Theorems only (proofs in ClassCheck.v, ClassCert.v, RoundFacts.v, LexRound.v, WriterFacts.v).

   What is proved, for all values (no bound on magnitudes, lengths or contents):
   (1) the text config_write produces is the concatenation of pieces (layout, names, punctuation, scalar
       renderings) determined by the tree and the options (C01_text_is_pieces), and erasing the layout and the
       option-governed spellings leaves the option-free token content of the tree (C01_pieces_content);
   (2) every kind of piece, in front of any byte that can follow it in the writer's output, is consumed by ONE
       step of the compiled scanner (the flex automaton of the generated tables, Lexer.lex_step) and yields
       exactly the token of that piece with its value: %d, %lldL, 0x%X, 0x%llXL (integers over the whole 32/64-bit
       range, both formats), true/false, names, punctuation, blanks, newlines (the C01_lex theorems).  These are statements
       about classes of lexemes, decided by the certificates of ClassCert.v against the documented rule list and
       transported to the automaton by the equivalence proved for C18;
   (3) a string literal as the writer escapes it is read back byte for byte, for every string over the bytes
       1..255 (C01_string_roundtrip): by induction over the string, through the scanner's STRING start condition;
   (4) a float rendering that has the syntax of libconfig_format_double's output and does not overflow is read
       as strtod of that text (C01_lex_float): the re-read float is the value of its printf-style rendering;
   (5) runs of such steps are what lex_buf does with the fuel lex_depth provides (C01_steps_are_lex_buf);
   (6) assembled over the whole tree: the scanner reads the text of config_write, for every writable tree and
       every option vector, as exactly the token stream of its pieces (C01_written_text_tokens).
   (7) the parser accepts that token stream and rebuilds the tree: C01_read_written is the first half of the
       property as a theorem - config_read_string (config_write c) succeeds and yields the equivalent configuration.
   (8) writing the re-read configuration reproduces the same text, given that every float is stable under render -
       read - render (C01_second_write); C01_roundtrip states both clauses together.
   Hypotheses, all explicit and each matching a finding or a documented limit: writable (no TYPE_NONE leaves, values in
   range, floats whose rendering is a float literal that does not overflow: F1b; names that are not boolean keywords:
   F2), pstruct (what the API maintains: C04), the nesting limit (F3), stable (F1c).  The cut of a %f rendering (F1)
   does not violate any hypothesis: such a float is re-read as the strtod of its (cut) rendering, which is what
   C01_read_written states, and is not equal to the original value.  That statement is checked on every run of the
   C01 check on the real library (rtrip) and between model and library.  Known findings (known_findings.json):
   F1/F1b/F1c (float renderings), F2 (keyword-named members: the hypothesis of C01_lex_name), F3 (nesting). *)
From Coq Require Import List ZArith NArith Bool.
Import ListNotations.
From LC Require Import Base BaseFacts Tree Fp Api ScanAction FlexEngine Tokens Lexer Reader Regex RegexFacts Bisim
  ScannerSpec ScannerCert ClassCheck ClassCert LiteralFacts RoundFacts LexRound LexWrite ParseWrite WriteStable RoundExample Parser Writer WriterFacts Run
  FloatDec FloatStable FloatStableG.
From LC.gen Require Import Consts ScannerTables.
Local Open Scope Z_scope.

(* ---- (1) the text is the rendering of the pieces; the pieces carry the tree's token content ---- *)
Theorem C01_text_is_pieces : forall fmt_double c s depth,
  write_value fmt_double c s depth = render_all fmt_double c (pieces c s depth).
Proof. exact write_value_pieces. Qed.
Print Assumptions C01_text_is_pieces.

Theorem C01_pieces_content : forall c s depth, 0 < depth -> erase (pieces c s depth) = sems s.
Proof. exact pieces_sems. Qed.
Print Assumptions C01_pieces_content.

(* ---- the class certificates: every word of a class, followed by a permitted byte, is one match of the
   compiled scanner by an expected rule ---- *)
Theorem C01_class_match : forall i, In i instances ->
  forall w d rest, matches (i_cls i) w -> bytes_ok (w ++ d :: rest) -> In d (i_delims i) ->
  exists r, In r (i_exps i) /\ flex_match the_tables (i_sc i) (i_bol i) (w ++ d :: rest) = Some (r, length w).
Proof. exact inst_flex. Qed.
Print Assumptions C01_class_match.

(* ---- (2) integers, both widths, both formats, whole range ---- *)
Theorem C01_lex_int : forall atof FS incdir incf maxd v d rest st b,
  in_int v = true -> In d after_value -> bytes_ok rest -> l_cond st = 0 -> b_rest b = show_dec v ++ d :: rest ->
  LS atof FS incdir incf maxd st b =
  STok (tok_of st (b_line b) (TkInt v)) (clear_pending st) (mkBuf (d :: rest) false (b_line b)).
Proof. exact step_int. Qed.
Print Assumptions C01_lex_int.

Theorem C01_lex_int64 : forall atof FS incdir incf maxd v d rest st b,
  in_int64 v = true -> In d after_value -> bytes_ok rest -> l_cond st = 0 -> b_rest b = (show_dec v ++ [76]) ++ d :: rest ->
  LS atof FS incdir incf maxd st b =
  STok (tok_of st (b_line b) (TkInt64 v)) (clear_pending st) (mkBuf (d :: rest) false (b_line b)).
Proof. exact step_int64. Qed.
Print Assumptions C01_lex_int64.

Theorem C01_lex_hex : forall atof FS incdir incf maxd v d rest st b,
  in_int v = true -> In d after_value -> bytes_ok rest -> l_cond st = 0 ->
  b_rest b = ([48; 120] ++ show_hex_upper (to_uint32 v)) ++ d :: rest ->
  LS atof FS incdir incf maxd st b =
  STok (tok_of st (b_line b) (TkHex v)) (clear_pending st) (mkBuf (d :: rest) false (b_line b)).
Proof. exact step_hex. Qed.
Print Assumptions C01_lex_hex.

Theorem C01_lex_hex64 : forall atof FS incdir incf maxd v d rest st b,
  in_int64 v = true -> In d after_value -> bytes_ok rest -> l_cond st = 0 ->
  b_rest b = ([48; 120] ++ show_hex_upper (to_uint64 v) ++ [76]) ++ d :: rest ->
  LS atof FS incdir incf maxd st b =
  STok (tok_of st (b_line b) (TkHex64 v)) (clear_pending st) (mkBuf (d :: rest) false (b_line b)).
Proof. exact step_hex64. Qed.
Print Assumptions C01_lex_hex64.

(* the literal functions alone: printf against libconfig_parse_integer *)
Theorem C01_dec_roundtrip : forall v suffix, in_int64 v = true -> suffix_ok suffix ->
  parse_integer (show_dec v ++ suffix) = Some v.
Proof. exact dec_roundtrip. Qed.
Print Assumptions C01_dec_roundtrip.

(* ---- booleans, names, punctuation, layout ---- *)
Theorem C01_lex_true : forall atof FS incdir incf maxd d rest st b,
  In d after_value -> bytes_ok rest -> l_cond st = 0 -> b_rest b = [116; 114; 117; 101] ++ d :: rest ->
  LS atof FS incdir incf maxd st b =
  STok (tok_of st (b_line b) (TkBool 1)) (clear_pending st) (mkBuf (d :: rest) false (b_line b)).
Proof. exact step_true. Qed.
Print Assumptions C01_lex_true.

Theorem C01_lex_false : forall atof FS incdir incf maxd d rest st b,
  In d after_value -> bytes_ok rest -> l_cond st = 0 -> b_rest b = [102; 97; 108; 115; 101] ++ d :: rest ->
  LS atof FS incdir incf maxd st b =
  STok (tok_of st (b_line b) (TkBool 0)) (clear_pending st) (mkBuf (d :: rest) false (b_line b)).
Proof. exact step_false. Qed.
Print Assumptions C01_lex_false.

(* a name the API accepts (p_name is __config_validate_name's language) is read back as that name, unless it
   spells a boolean keyword in some letter case (finding F2) *)
Theorem C01_lex_name : forall atof FS incdir incf maxd w rest st b,
  matches p_name w -> bytes_ok w -> ~ matches p_true w -> ~ matches p_false w ->
  bytes_ok rest -> l_cond st = 0 -> b_rest b = w ++ 32 :: rest ->
  LS atof FS incdir incf maxd st b =
  STok (tok_of st (b_line b) (TkName w)) (clear_pending st) (mkBuf (32 :: rest) false (b_line b)).
Proof. exact step_name. Qed.
Print Assumptions C01_lex_name.

Theorem C01_lex_punct : forall atof FS incdir incf maxd ch rule p d rest st b,
  In (ch, rule, p) punct_table -> bytes_ok (d :: rest) -> l_cond st = 0 -> b_rest b = [ch] ++ d :: rest ->
  LS atof FS incdir incf maxd st b =
  STok (tok_of st (b_line b) (TkP p)) (clear_pending st) (mkBuf (d :: rest) false (b_line b)).
Proof. exact step_punct. Qed.
Print Assumptions C01_lex_punct.

Theorem C01_lex_blanks : forall atof FS incdir incf maxd w d rest st b,
  w <> [] -> (w = replicate (length w) 32 \/ w = replicate (length w) 9) ->
  d <> 32 -> d <> 9 -> d <> 64 -> bytes_ok (d :: rest) -> l_cond st = 0 -> b_rest b = w ++ d :: rest ->
  LS atof FS incdir incf maxd st b = SCont st (mkBuf (d :: rest) false (b_line b)).
Proof. exact step_spaces. Qed.
Print Assumptions C01_lex_blanks.

Theorem C01_lex_newline : forall atof FS incdir incf maxd d rest st b,
  bytes_ok (d :: rest) -> l_cond st = 0 -> b_rest b = [10] ++ d :: rest ->
  LS atof FS incdir incf maxd st b = SCont st (mkBuf (d :: rest) true (b_line b + 1)).
Proof. exact step_newline. Qed.
Print Assumptions C01_lex_newline.

(* ---- (3) strings: byte-exact for every string over 1..255 ---- *)
Theorem C01_string_roundtrip : forall atof FS incdir incf maxd s d tail st b,
  Forall (fun c => 1 <= c < 256) s -> bytes_ok (d :: tail) -> l_cond st = 0 -> l_acc st = [] ->
  b_rest b = write_string (Some s) ++ d :: tail ->
  steps atof FS incdir incf maxd st b [tok_of st (b_line b) (TkString s)] (clear_pending st)
        (mkBuf (d :: tail) false (b_line b)).
Proof. exact string_steps. Qed.
Print Assumptions C01_string_roundtrip.

(* ---- (4) floats: the value read is strtod of the rendering ---- *)
Theorem C01_lex_float : forall atof FS incdir incf maxd w d rest st b,
  matches c_float w -> bytes_ok w -> ~ In 10 w -> b64_is_inf (atof w) = false ->
  In d after_value -> bytes_ok rest -> l_cond st = 0 -> b_rest b = w ++ d :: rest ->
  LS atof FS incdir incf maxd st b =
  STok (tok_of st (b_line b) (TkFloat (atof w))) (clear_pending st) (mkBuf (d :: rest) false (b_line b)).
Proof. exact step_float. Qed.
Print Assumptions C01_lex_float.

(* ---- (5) runs of steps are what lex_buf computes ---- *)
Theorem C01_steps_are_lex_buf : forall atof FS incdir incf maxd di st b toks st' b',
  steps atof FS incdir incf maxd st b toks st' b' ->
  forall fuel, (length (b_rest b) < fuel)%nat ->
  exists fuel', (length (b_rest b') < fuel')%nat /\
    lex_buf the_tables yy_rule_can_match_eol yy_actions atof FS incdir incf maxd di fuel st b =
    (let '(t2, stop, st2, l) := lex_buf the_tables yy_rule_can_match_eol yy_actions atof FS incdir incf maxd di fuel' st' b' in
     (toks ++ t2, stop, st2, l)).
Proof. exact lex_buf_steps. Qed.
Print Assumptions C01_steps_are_lex_buf.


(* ---- (6) the whole text: for every configuration whose root group is not empty and whose tree is [writable]
   (documented scalar types with values in range, floats whose rendering has format_double's syntax and does
   not overflow, strings over 1..255, members with API-valid names that are not boolean keywords), under every
   combination of options, tab width, precision and default format (c is arbitrary), the token stream the
   parser receives for the text of config_write is exactly the tokens of the pieces, followed by end of input:
   nothing is merged, split, lost or misread anywhere in the text ---- *)
Theorem C01_written_text_tokens : forall fmt_double atof FS c c2 kids f h l fi,
  c_root c = Setting None PGroup kids f h l fi -> kids <> [] -> writable fmt_double atof c (c_root c) ->
  exists toks, lex_top atof FS c2 None (config_write fmt_double c) = (toks, StopEOB) /\
               map lt_tok toks = flat_map (piece_tok fmt_double atof c) (pieces c (c_root c) 0) ++ [TkEOF].
Proof. exact lex_top_written. Qed.
Print Assumptions C01_written_text_tokens.

(* every piece of a writable tree is followed by a byte it may be followed by (what makes (6) go through) *)
Theorem C01_pieces_chain : forall fmt_double atof c s, writable fmt_double atof c s ->
  forall depth d rest, 0 < depth -> value_follow s d ->
    chained fmt_double c (pieces c s depth) (d :: rest) /\ Forall (piece_wf fmt_double atof c) (pieces c s depth).
Proof. exact writable_chain. Qed.
Print Assumptions C01_pieces_chain.


(* ---- (7) the round trip: reading the written text succeeds and yields the equivalent configuration ----
   For every configuration c whose tree is writable (see (6)) and has the shape the API maintains (pstruct:
   arrays of scalars of one type, members with valid pairwise distinct names), with bracket nesting within the
   parser's stack (NEST_LIMIT), for every option/tab/precision/default-format setting of c, every reading
   configuration c2 (any options, include directory, include function) and every file system:
   config_read_string(c2, config_write(c)) returns CONFIG_TRUE and the tree it builds is, up to hooks and source
   positions (obs), the tree nobs describes: same nesting, same member names in the same order, same types, the
   same integer values with the effective format (hex stays hex), booleans by truth value, strings byte for byte
   (NULL as the empty string), and each float the strtod of its printf-style rendering. *)
Theorem C01_read_written : forall fmt_double atof FS c c2 kids f h l fi,
  c_root c = Setting None PGroup kids f h l fi -> kids <> [] ->
  writable fmt_double atof c (c_root c) -> pstruct (c_root c) ->
  nest_of (flat_map (piece_tok fmt_double atof c) (pieces c (c_root c) 0) ++ [TkEOF]) 0 0 <= NEST_LIMIT ->
  let r := config_read atof FS c2 None (config_write fmt_double c) in
  rd_out_ r = RdOk /\
  obs (c_root (rd_cfg r)) = ON None PGroup 0 (map (fun m => nobs fmt_double atof c (s_name m) m) kids).
Proof. exact read_written. Qed.
Print Assumptions C01_read_written.

(* the parser on the token stream of the pieces, in any state of the parent it is parsed into *)
Theorem C01_parser_accepts_written : forall fmt_double atof c overrides v,
  writable fmt_double atof c v -> pstruct v -> val_ok fmt_double atof c overrides v.
Proof. exact val_ok_all. Qed.
Print Assumptions C01_parser_accepts_written.


(* ---- (8) the second write: writing the re-read configuration reproduces the text ----
   Under the hypotheses of (7), when in addition the configuration read into has the same four output attributes
   (options, tab width, precision, default format) and every value is stable: integer formats are 0 or 1 (all the
   API stores) and every float is unchanged by render - read - render at the configured precision and notation.
   That last hypothesis is per value and is NOT true of every double (finding F1c: denormals under %g); it is
   evaluated on every run of the check (rtrip compares the two texts). *)
Theorem C01_second_write : forall fmt_double atof FS c c2 kids f h l fi,
  c_root c = Setting None PGroup kids f h l fi -> kids <> [] ->
  writable fmt_double atof c (c_root c) -> pstruct (c_root c) -> stable fmt_double atof c (c_root c) ->
  nest_of (flat_map (piece_tok fmt_double atof c) (pieces c (c_root c) 0) ++ [TkEOF]) 0 0 <= NEST_LIMIT ->
  same_out c c2 ->
  config_write fmt_double (rd_cfg (config_read atof FS c2 None (config_write fmt_double c))) = config_write fmt_double c.
Proof. exact second_write. Qed.
Print Assumptions C01_second_write.

(* the property, both clauses *)
Theorem C01_roundtrip : forall fmt_double atof FS c c2 kids f h l fi,
  c_root c = Setting None PGroup kids f h l fi -> kids <> [] ->
  writable fmt_double atof c (c_root c) -> pstruct (c_root c) -> stable fmt_double atof c (c_root c) ->
  nest_of (flat_map (piece_tok fmt_double atof c) (pieces c (c_root c) 0) ++ [TkEOF]) 0 0 <= NEST_LIMIT ->
  same_out c c2 ->
  let r := config_read atof FS c2 None (config_write fmt_double c) in
  rd_out_ r = RdOk /\
  obs (c_root (rd_cfg r)) = ON None PGroup 0 (map (fun m => nobs fmt_double atof c (s_name m) m) kids) /\
  config_write fmt_double (rd_cfg r) = config_write fmt_double c.
Proof.
  intros fd atof FS c c2 kids f h l fi Hroot Hk Hw Hs Hst Hn Hso. cbv zeta.
  destruct (read_written fd atof FS c c2 kids f h l fi Hroot Hk Hw Hs Hn) as [A B].
  split; [exact A|]. split; [exact B|]. exact (second_write fd atof FS c c2 kids f h l fi Hroot Hk Hw Hs Hst Hn Hso).
Qed.
Print Assumptions C01_roundtrip.


(* ---- (9) in fixed notation (the default: scientific notation is an option) the stability hypothesis is a THEOREM ----
   For every finite double and every precision, when the %f rendering is not cut (it fits the 60 characters that
   libconfig_format_double keeps: finding F1 otherwise), rendering, reading the text back with strtod and rendering again
   gives the same text.  The proof (FloatStable.v) is the grid argument over Z: printf renders the grid point r nearest
   to x (ties to even), strtod returns the double y nearest to r (RoundSpec.v), x is itself a double, hence
   |y - r| <= |x - r| and y rounds back to r; format_double's post-processing (strip zeros / append ".0") does not
   change the number.  No bound on the precision. *)
Theorem C01_float_stable_fixed : forall b prec,
  b64_is_finite b = true -> (length (fmt_f prec b) <= 60)%nat ->
  let t := format_double b prec false 64 in
  format_double (strtod_bits t) prec false 64 = t.
Proof. exact fixed_notation_stable. Qed.
Print Assumptions C01_float_stable_fixed.

(* so, with scientific notation off, "stable" follows from: integer formats 0 or 1, floats finite and not cut *)
Theorem C01_stable_fixed : forall c, get_option c OPT_SCI = false ->
  forall s, fixed_ok c s -> stable fmt_double atof c s.
Proof. exact stable_fixed. Qed.
Print Assumptions C01_stable_fixed.

(* the property, both clauses, with glibc-exact printf / strtod and no stability hypothesis: fixed notation *)
Theorem C01_roundtrip_fixed : forall FS c c2 kids f h l fi,
  c_root c = Setting None PGroup kids f h l fi -> kids <> [] ->
  get_option c OPT_SCI = false ->
  writable fmt_double atof c (c_root c) -> pstruct (c_root c) -> fixed_ok c (c_root c) ->
  nest_of (flat_map (piece_tok fmt_double atof c) (pieces c (c_root c) 0) ++ [TkEOF]) 0 0 <= NEST_LIMIT ->
  same_out c c2 ->
  let r := config_read atof FS c2 None (config_write fmt_double c) in
  rd_out_ r = RdOk /\
  obs (c_root (rd_cfg r)) = ON None PGroup 0 (map (fun m => nobs fmt_double atof c (s_name m) m) kids) /\
  config_write fmt_double (rd_cfg r) = config_write fmt_double c.
Proof.
  intros FS c c2 kids f h l fi Hroot Hk Hsci Hw Hs Hfx Hn Hso.
  exact (C01_roundtrip fmt_double atof FS c c2 kids f h l fi Hroot Hk Hw Hs (stable_fixed c Hsci _ Hfx) Hn Hso).
Qed.
Print Assumptions C01_roundtrip_fixed.

(* ... and its hypotheses are satisfiable: the example configuration below is in fixed notation and fixed_ok *)
Example C01_fixed_hypotheses_satisfiable : get_option ex_cfg OPT_SCI = false /\ fixed_ok ex_cfg ex_root.
Proof.
  split; [vm_compute; reflexivity|]. cbn [fixed_ok ex_root].
  repeat split; auto; try (vm_compute; reflexivity); try (apply Nat.leb_le; vm_compute; reflexivity).
Qed.

(* the length hypothesis is needed: -1.5e59 at precision 6 is cut and is not stable (finding F1) *)
Theorem C01_cut_is_unstable :
  let b := 14715482615620799058 in
  length (fmt_f 6 b) = 68%nat /\ b64_is_finite b = true /\ ~ rerender b 6.
Proof. exact cut_is_unstable. Qed.


(* ---- (10) under scientific notation (%g) the stability hypothesis is a THEOREM for normal doubles and precision <= 15 ----
   For every finite double that is zero or normal (not a denormal: finding F1c otherwise), every precision up to 15
   (0 counts as 1, a negative one as 6), when the %g rendering is read back as a finite number (it does not round above
   DBL_MAX: finding F1b otherwise): render - strtod - render is the identity.  Proof (FloatStableG.v): a canonical form of
   fmt_g (which decimal it denotes, in which style), strtod of that text is the nearest double, and the grid argument across
   a decade boundary (the delicate case r = 10^k, where the grid below is ten times finer: 10^15 < 2^52 makes ten to the
   P ulps fit).  C01_sci_hypotheses_needed evaluates that each hypothesis is necessary - the denormal 21 at precision 2,
   DBL_MAX at precision 15, and precision 16 on the double just above 10^23: the bound 15 is sharp. *)
Theorem C01_float_stable_sci : forall b prec,
  b64_is_finite b = true -> normal_or_zero b -> prec <= 15 ->
  let t := format_double b prec true 64 in
  b64_is_finite (strtod_bits t) = true ->
  format_double (strtod_bits t) prec true 64 = t.
Proof. exact sci_notation_stable. Qed.
Print Assumptions C01_float_stable_sci.

Theorem C01_stable_sci : forall c, get_option c OPT_SCI = true -> c_prec c <= 15 ->
  forall s, sci_ok c s -> stable fmt_double atof c s.
Proof. exact stable_sci. Qed.
Print Assumptions C01_stable_sci.

(* the property, both clauses, under scientific notation with no stability hypothesis: floats zero or normal, read back
   finite, precision <= 15 *)
Theorem C01_roundtrip_sci : forall FS c c2 kids f h l fi,
  c_root c = Setting None PGroup kids f h l fi -> kids <> [] ->
  get_option c OPT_SCI = true -> c_prec c <= 15 ->
  writable fmt_double atof c (c_root c) -> pstruct (c_root c) -> sci_ok c (c_root c) ->
  nest_of (flat_map (piece_tok fmt_double atof c) (pieces c (c_root c) 0) ++ [TkEOF]) 0 0 <= NEST_LIMIT ->
  same_out c c2 ->
  let r := config_read atof FS c2 None (config_write fmt_double c) in
  rd_out_ r = RdOk /\
  obs (c_root (rd_cfg r)) = ON None PGroup 0 (map (fun m => nobs fmt_double atof c (s_name m) m) kids) /\
  config_write fmt_double (rd_cfg r) = config_write fmt_double c.
Proof.
  intros FS c c2 kids f h l fi Hroot Hk Hsci Hp Hw Hs Hok Hn Hso.
  exact (C01_roundtrip fmt_double atof FS c c2 kids f h l fi Hroot Hk Hw Hs (stable_sci c Hsci Hp _ Hok) Hn Hso).
Qed.
Print Assumptions C01_roundtrip_sci.

(* each hypothesis is needed (evaluated): a denormal; a rendering above DBL_MAX; precision 16 *)
Theorem C01_sci_hypotheses_needed :
  (b64_is_finite 21 = true /\ b64_is_finite (strtod_bits (format_double 21 2 true 64)) = true /\ ~ rerender_g 21 2) /\
  (b64_is_finite 9218868437227405311 = true /\ normal_or_zero 9218868437227405311 /\
   b64_is_finite (strtod_bits (format_double 9218868437227405311 15 true 64)) = false /\ ~ rerender_g 9218868437227405311 15) /\
  (b64_is_finite 4950912855330343671 = true /\ normal_or_zero 4950912855330343671 /\
   b64_is_finite (strtod_bits (format_double 4950912855330343671 16 true 64)) = true /\ ~ rerender_g 4950912855330343671 16).
Proof. exact sci_hypotheses_needed. Qed.


(* ---- the hypotheses are satisfiable: a configuration with every scalar type, an escaped string, a NULL string,
   hex formats, INT_MIN, a list holding an array, a nested group, satisfies all of them, so C01_roundtrip applies ---- *)
Example C01_hypotheses_satisfiable :
  writable fmt_double atof ex_cfg ex_root /\ pstruct ex_root /\ stable fmt_double atof ex_cfg ex_root /\
  nest_of (flat_map (piece_tok fmt_double atof ex_cfg) (pieces ex_cfg ex_root 0) ++ [TkEOF]) 0 0 <= NEST_LIMIT.
Proof. exact (conj ex_writable (conj ex_pstruct (conj ex_stable ex_nest))). Qed.

(* ---- and necessary: each excluded class, evaluated on the model with glibc-exact printf/strtod (vm_compute) ---- *)
Theorem C01_refuted_keyword : rd_out_ (reread (one_member [116; 114; 117; 101] (PInt 1))) = RdFail.
Proof. exact keyword_name_refuted. Qed.
Theorem C01_refuted_g_overflow :
  rd_out_ (reread (set_prec (set_options (one_member [120] (PFloat 9218868437227405311)) 54) 15)) = RdFail.
Proof. exact g_overflow_refuted. Qed.
Theorem C01_refuted_g_denormal :
  let c := set_prec (set_options (one_member [120] (PFloat 21)) 54) 2 in
  rd_out_ (reread c) = RdOk /\ config_write fmt_double (set_prec (set_options (rd_cfg (reread c)) 54) 2) <> config_write fmt_double c.
Proof. exact g_denormal_refuted. Qed.
Theorem C01_refuted_float_cut :
  let c := one_member [120] (PFloat 14715482615620799058) in
  rd_out_ (reread c) = RdOk /\
  match s_kids (c_root (rd_cfg (reread c))) with [m] => s_pl m <> PFloat 14715482615620799058 | _ => False end.
Proof. exact f_cut_refuted. Qed.

(* non-vacuity: a string with a quote, a backslash, a newline, a control byte and a high byte, evaluated on the
   model: the scanner returns exactly that string *)
Example C01_string_example :
  let s := [97; 34; 92; 10; 1; 255; 98] in
  let '(toks, stop) := lex_top (fun _ => 0) [] cfg_init None ([120; 61] ++ write_string (Some s) ++ [59; 10]) in
  map lt_tok toks = [TkName [120]; TkP TEquals; TkString s; TkP TSemicolon; TkEOF].
Proof. vm_compute. reflexivity. Qed.
