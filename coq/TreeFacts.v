(* TreeFacts.v — lemmas about the setting tree: induction principle, get_at / upd_at algebra. *)
From Coq Require Import List ZArith Bool Lia.
Import ListNotations.
From LC Require Import Base Tree.
Local Open Scope Z_scope.

(* ---- induction principle for the nested inductive ---- *)
Section SettingInd.
  Variable P : setting -> Prop.
  Hypothesis H : forall n p k f h l fi, Forall P k -> P (Setting n p k f h l fi).
  Fixpoint setting_ind' (s : setting) : P s :=
    match s with
    | Setting n p k f h l fi =>
        H n p k f h l fi
          ((fix go (l : list setting) : Forall P l :=
              match l with
              | [] => Forall_nil P
              | x :: r => Forall_cons x (setting_ind' x) (go r)
              end) k)
    end.
End SettingInd.

(* ---- accessors after setters ---- *)
Lemma s_kids_set_kids s k : s_kids (set_kids s k) = k.
Proof. destruct s; reflexivity. Qed.
Lemma s_pl_set_kids s k : s_pl (set_kids s k) = s_pl s.
Proof. destruct s; reflexivity. Qed.
Lemma s_name_set_kids s k : s_name (set_kids s k) = s_name s.
Proof. destruct s; reflexivity. Qed.
Lemma s_ty_set_kids s k : s_ty (set_kids s k) = s_ty s.
Proof. destruct s; reflexivity. Qed.
Lemma s_kids_set_pl s p : s_kids (set_pl s p) = s_kids s.
Proof. destruct s; reflexivity. Qed.
Lemma s_pl_set_pl s p : s_pl (set_pl s p) = p.
Proof. destruct s; reflexivity. Qed.
Lemma s_name_set_pl s p : s_name (set_pl s p) = s_name s.
Proof. destruct s; reflexivity. Qed.
Lemma s_hook_set_pl s p : s_hook (set_pl s p) = s_hook s.
Proof. destruct s; reflexivity. Qed.
Lemma s_fmt_set_pl s p : s_fmt (set_pl s p) = s_fmt s.
Proof. destruct s; reflexivity. Qed.
Lemma set_kids_same s : set_kids s (s_kids s) = s.
Proof. destruct s; reflexivity. Qed.
Lemma set_kids_set_kids s k k' : set_kids (set_kids s k) k' = set_kids s k'.
Proof. destruct s; reflexivity. Qed.

(* ---- list_upd / list_del ---- *)
Lemma list_upd_length {A} i (f : A -> A) l : length (list_upd i f l) = length l.
Proof. revert i; induction l as [|x r IH]; intros [|i]; simpl; auto. Qed.

Lemma nth_error_list_upd_same {A} i (f : A -> A) l x :
  nth_error l i = Some x -> nth_error (list_upd i f l) i = Some (f x).
Proof.
  revert i; induction l as [|y r IH]; intros [|i]; simpl; try discriminate.
  - intros [= ->]; reflexivity.
  - apply IH.
Qed.

Lemma nth_error_list_upd_other {A} i j (f : A -> A) l :
  i <> j -> nth_error (list_upd i f l) j = nth_error l j.
Proof.
  revert i j; induction l as [|y r IH]; intros [|i] [|j] Hn; simpl; auto; try congruence.
Qed.

Lemma list_upd_id {A} i (f : A -> A) l x :
  nth_error l i = Some x -> f x = x -> list_upd i f l = l.
Proof.
  revert i; induction l as [|y r IH]; intros [|i]; simpl; try discriminate.
  - intros [= ->] ->; reflexivity.
  - intros Hn Hf; f_equal; eauto.
Qed.

Lemma list_upd_none {A} i (f : A -> A) l :
  nth_error l i = None -> list_upd i f l = l.
Proof.
  revert i; induction l as [|y r IH]; intros [|i]; simpl; try discriminate; auto.
  intros Hn; f_equal; auto.
Qed.

Lemma list_del_length {A} i (l : list A) :
  (i < length l)%nat -> length (list_del i l) = (length l - 1)%nat.
Proof.
  revert i; induction l as [|y r IH]; intros [|i] Hl; simpl in *; try lia.
  rewrite IH by lia. destruct r; simpl in *; lia.
Qed.

Lemma nth_error_list_del_lt {A} i j (l : list A) :
  (j < i)%nat -> nth_error (list_del i l) j = nth_error l j.
Proof.
  revert i j; induction l as [|y r IH]; intros [|i] [|j] Hl; simpl; auto; try lia.
  apply IH; lia.
Qed.

Lemma nth_error_list_del_ge {A} i j (l : list A) :
  (i <= j)%nat -> nth_error (list_del i l) j = nth_error l (S j).
Proof.
  revert i j; induction l as [|y r IH]; intros i j Hl.
  - destruct i, j; reflexivity.
  - destruct i as [|i]; simpl.
    + reflexivity.
    + destruct j as [|j]; [lia|]. simpl. apply IH; lia.
Qed.

(* list_del i l is l with exactly position i removed *)
Lemma list_del_spec {A} i (l : list A) x :
  nth_error l i = Some x -> l = firstn i l ++ x :: skipn (S i) l /\ list_del i l = firstn i l ++ skipn (S i) l.
Proof.
  revert i; induction l as [|y r IH]; intros [|i]; simpl; try discriminate.
  - intros [= ->]; split; reflexivity.
  - intros Hn. destruct (IH _ Hn) as [H1 H2]. split; f_equal; auto.
Qed.

(* ---- get_at / upd_at ---- *)
Lemma get_at_app p q r :
  get_at (p ++ q) r = match get_at p r with Some s => get_at q s | None => None end.
Proof.
  revert r; induction p as [|i p IH]; intros r; simpl; auto.
  destruct (nth_error (s_kids r) i); auto.
Qed.

Lemma get_at_upd_at_same p f r s :
  get_at p r = Some s -> get_at p (upd_at p f r) = Some (f s).
Proof.
  revert r; induction p as [|i p IH]; intros r; simpl.
  - intros [= ->]; reflexivity.
  - destruct (nth_error (s_kids r) i) as [c|] eqn:E; try discriminate.
    intros Hg. rewrite s_kids_set_kids.
    rewrite (nth_error_list_upd_same _ _ _ _ E). auto.
Qed.

Lemma upd_at_id p f r s :
  get_at p r = Some s -> f s = s -> upd_at p f r = r.
Proof.
  revert r; induction p as [|i p IH]; intros r; simpl.
  - intros [= ->]; auto.
  - destruct (nth_error (s_kids r) i) as [c|] eqn:E; try discriminate.
    intros Hg Hf. rewrite (list_upd_id _ _ _ _ E); [apply set_kids_same | eauto].
Qed.

Lemma upd_at_none p f r :
  get_at p r = None -> upd_at p f r = r.
Proof.
  revert r; induction p as [|i p IH]; intros r; simpl; try discriminate.
  destruct (nth_error (s_kids r) i) as [c|] eqn:E.
  - intros Hg. rewrite (list_upd_id _ _ _ _ E); [apply set_kids_same | eauto].
  - intros _. rewrite list_upd_none by assumption. apply set_kids_same.
Qed.

(* two index paths diverge: they differ at some position that both have *)
Fixpoint diverge (p q : ipath) : Prop :=
  match p, q with
  | i :: p', j :: q' => i <> j \/ (i = j /\ diverge p' q')
  | _, _ => False
  end.

(* frame: an update at p leaves every setting at a diverging path untouched *)
Lemma get_at_upd_at_diverge p q f r :
  diverge p q -> get_at q (upd_at p f r) = get_at q r.
Proof.
  revert q r; induction p as [|i p IH]; intros [|j q] r; simpl; try tauto.
  intros [Hne | [-> Hd]]; rewrite s_kids_set_kids.
  - rewrite nth_error_list_upd_other by assumption. reflexivity.
  - destruct (nth_error (s_kids r) j) as [c|] eqn:E.
    + rewrite (nth_error_list_upd_same _ _ _ _ E). apply IH; assumption.
    + rewrite list_upd_none by assumption. rewrite E. reflexivity.
Qed.

(* an update below p is seen from a prefix q of p as an update of the remainder *)
Lemma get_at_upd_at_prefix q p f r s :
  get_at q r = Some s -> get_at q (upd_at (q ++ p) f r) = Some (upd_at p f s).
Proof.
  revert r; induction q as [|i q IH]; intros r; simpl.
  - intros [= ->]; reflexivity.
  - destruct (nth_error (s_kids r) i) as [c|] eqn:E; try discriminate.
    intros Hg. rewrite s_kids_set_kids, (nth_error_list_upd_same _ _ _ _ E). auto.
Qed.

(* root-level fields other than kids are untouched by an update strictly below *)
Lemma upd_at_cons_fields i p f r :
  s_name (upd_at (i :: p) f r) = s_name r /\ s_pl (upd_at (i :: p) f r) = s_pl r.
Proof. simpl. destruct r; simpl; auto. Qed.

Lemma upd_at_compose p f g r :
  upd_at p g (upd_at p f r) = upd_at p (fun s => g (f s)) r.
Proof.
  revert r; induction p as [|i p IH]; intros r; simpl; auto.
  rewrite s_kids_set_kids, set_kids_set_kids. f_equal.
  generalize (s_kids r); intros l. revert i; induction l as [|y l IHl]; intros [|i]; simpl; auto.
  - f_equal; apply IH.
  - f_equal; apply IHl.
Qed.
