From Coq Require Import List ZArith Bool Lia.
Import ListNotations.
From LC Require Import Base BaseFacts Tree Lookup Api Inv InvFacts TreeFacts ApiFacts LookupFacts.
Local Open Scope Z_scope.

(* no child of a well-formed setting has the empty name *)
Lemma wf_no_empty_name k : wf k = true -> list_search (s_kids k) [] = None.
Proof.
  intros Hw. apply wf_kids in Hw as [_ Hko]. unfold kids_ok in Hko. apply andb_true_iff in Hko as [Hf _].
  unfold list_search. induction (s_kids k) as [|x r IH]; [reflexivity|].
  cbn [forallb] in Hf. apply andb_true_iff in Hf as [Hx Hr]. cbn [find_index].
  assert (Hn : name_is [] x = false).
  { unfold name_is. destruct (s_name x) as [n|] eqn:En; [|reflexivity].
    destruct n as [|c n']; [|reflexivity]. exfalso.
    unfold kid_ok in Hx. rewrite En in Hx. destruct (s_pl k); cbn in Hx; try discriminate Hx. }
  rewrite Hn, (IH Hr). reflexivity.
Qed.

(* an empty component - two separators in a row - names nothing, wherever the walk stands *)
Lemma walk_empty_component f k rel s1 s2 rest :
  is_sep s1 = true -> is_sep s2 = true -> list_search (s_kids k) [] = None ->
  walk (S f) k rel (s1 :: s2 :: rest) = None.
Proof.
  intros H1 H2 Hs. cbn [walk]. rewrite H1. cbn [tl strip_byte].
  assert (E91 : s2 =? 91 = false).
  { destruct (s2 =? 91) eqn:E; [|reflexivity]. apply Z.eqb_eq in E. subst s2. discriminate H2. }
  rewrite E91. destruct (s_ty k); try reflexivity.
  cbn [span]. rewrite H2. cbn [negb]. rewrite Hs. reflexivity.
Qed.

(* ... at the start of a path, and after any correctly spelled prefix *)
Theorem lookup_empty_component b sp ip k s1 s2 rest :
  wf b = true -> Spells b true sp ip -> get_at ip b = Some k ->
  is_sep s1 = true -> is_sep s2 = true ->
  lookup b (render sp ++ s1 :: s2 :: rest) = None.
Proof.
  intros Hw Hs Hg H1 H2.
  rewrite (lookup_prefix b sp ip k (s1 :: s2 :: rest) Hw Hs Hg H1).
  pose proof (render_length _ _ _ _ Hw Hs) as Hlen.
  assert (E : exists n, (S (length (render sp ++ s1 :: s2 :: rest)) - length sp = S n)%nat).
  { rewrite app_length. exists (length (render sp) + length (s1 :: s2 :: rest) - length sp)%nat. lia. }
  destruct E as (n & ->).
  apply walk_empty_component; [exact H1 | exact H2 | apply wf_no_empty_name; eapply wf_get_at; eassumption].
Qed.
