(* SpliceNest.v — C10, continued: nested includes.  An include forest of bounded depth (every directive at the beginning
   of a line and followed by a line feed or the end of its text, every target an existing file, every piece of text
   between directives complete) is scanned to the same token values as its flattening, the text obtained by replacing
   every directive by the flattened content of its target. *)
From Coq Require Import List ZArith NArith Bool Lia.
Import ListNotations.
From LC Require Import Base Tree Fp Api ApiStep ScanAction FlexEngine Bisim ScannerCert Tokens Lexer Parser Reader
  LexTotal LineFacts Splice SpliceRead.
From LC.gen Require Import Consts ScannerTables.
Local Open Scope Z_scope.
Local Notation the_tables := ScannerCert.the_tables.

(* ================================================================================================================ *)
(* B.1 Whether a directive is accepted depends on the include stack only through the depth test                      *)
(* ================================================================================================================ *)
Definition at_limit (md : Z) (st : lstate) : bool := Z.of_nat (length (l_names st)) - 1 =? md.
Definition simT (md : Z) (a b : lstate) : Prop := l_cond a = l_cond b /\ l_acc a = l_acc b /\ at_limit md a = at_limit md b.

Definition step_simT (r1 r2 : step_res) : Prop :=
  match r1, r2 with
  | SCont s1 b1, SCont s2 b2 => l_cond s1 = l_cond s2 /\ l_acc s1 = l_acc s2 /\ bsim b1 b2
  | SIncl _ f1 _ b1, SIncl _ f2 _ b2 => f1 = f2 /\ bsim b1 b2
  | STok _ _ _, STok _ _ _ | SStop _ _ _ _, SStop _ _ _ _ => True
  | _, _ => False
  end.

Section Nest.
  Variable atof : bytes -> Z.
  Variable FS : fs.
  Variable incdir : option bytes.
  Variable incf : incfn.
  Variable max_depth : Z.

  Notation lex_step := (lex_step the_tables yy_rule_can_match_eol yy_actions atof FS incdir incf max_depth).
  Notation lex_buf := (lex_buf the_tables yy_rule_can_match_eol yy_actions atof FS incdir incf max_depth).
  Notation lex_files := (lex_files FS).
  Notation lex_depth := (lex_depth the_tables yy_rule_can_match_eol yy_actions atof FS incdir incf max_depth).
  Notation cont_run := (cont_run atof FS incdir incf max_depth).
  Notation directive := (directive atof FS incdir incf max_depth).

  Lemma lex_step_simT st1 st2 b1 b2 : simT max_depth st1 st2 -> bsim b1 b2 -> step_simT (lex_step st1 b1) (lex_step st2 b2).
  Proof.
    destruct st1 as [c1 a1 n1 o1 f1 p1], st2 as [c2 a2 n2 o2 f2 p2], b1 as [r1 bl1 l1], b2 as [r2 bl2 l2].
    unfold simT, bsim, at_limit. cbn [l_cond l_acc l_names b_rest b_bol]. intros (<- & <- & Ht) (<- & <-).
    unfold Lexer.lex_step. cbn [l_cond l_acc l_names b_rest b_bol b_line].
    destruct (flex_match the_tables c1 bl1 r1) as [[rule [|len]]|]; cbn [step_simT]; auto.
    cbv zeta.
    destruct (Lexer.action_of yy_actions rule).
    all: try (cbn; unfold bsim; cbn; auto 10; fail).
    - cbn [set_acc l_cond l_acc l_names l_open l_files l_pending]. rewrite Ht.
      destruct (Z.of_nat (length n2) - 1 =? max_depth); [unfold stop_error, emit; exact I|].
      destruct (call_incfn incdir incf (until_nul a1)) as [[evs err] files].
      destruct (fold_add_ev_self evs (mkLS c1 [] n1 o1 f1 p1)) as (F1 & F2 & _).
      destruct (fold_add_ev_self evs (mkLS c1 [] n2 o2 f2 p2)) as (G1 & G2 & _). cbn [l_cond l_acc] in F1, F2, G1, G2.
      destruct err as [msg|]; [unfold stop_error, emit; exact I|].
      destruct files as [[|f0 frest]|].
      + cbn. unfold bsim. cbn. split; [reflexivity|]. split; [|auto]. etransitivity; [exact F2 | symmetry; exact G2].
      + destruct (fs_lookup FS f0) as [[content|]|]; try (unfold stop_error, emit; exact I). cbn. unfold bsim. cbn. auto.
      + cbn. unfold bsim. cbn. split; [reflexivity|]. split; [|auto]. etransitivity; [exact F2 | symmetry; exact G2].
    - destruct (numeric_token atof AFloat (firstn (S len) r1)); [|unfold stop_error]; unfold emit; exact I.
    - destruct (numeric_token atof AInteger (firstn (S len) r1)); [|unfold stop_error]; unfold emit; exact I.
    - destruct (numeric_token atof AInteger64 (firstn (S len) r1)); [|unfold stop_error]; unfold emit; exact I.
    - destruct (numeric_token atof AHex (firstn (S len) r1)); [|unfold stop_error]; unfold emit; exact I.
    - destruct (numeric_token atof AHex64 (firstn (S len) r1)); [|unfold stop_error]; unfold emit; exact I.
  Qed.

  Lemma cont_run_simT : forall k st1 b1 st2 b2 sq1 bq1, simT max_depth st1 st2 -> bsim b1 b2 -> cont_run k st1 b1 = Some (sq1, bq1) ->
    exists sq2 bq2, cont_run k st2 b2 = Some (sq2, bq2) /\ simT max_depth sq1 sq2 /\ bsim bq1 bq2.
  Proof.
    induction k as [|k IH]; intros st1 b1 st2 b2 sq1 bq1 Hs Hb H; cbn [Splice.cont_run] in *.
    - injection H as <- <-. eauto.
    - pose proof Hb as [Hr _]. rewrite <- Hr. destruct (b_rest b1) as [|c0 r0]; [discriminate H|].
      pose proof (lex_step_simT st1 st2 b1 b2 Hs Hb) as Hst.
      pose proof (lex_step_names the_tables yy_rule_can_match_eol yy_actions atof FS incdir incf max_depth st1 b1) as N1.
      pose proof (lex_step_names the_tables yy_rule_can_match_eol yy_actions atof FS incdir incf max_depth st2 b2) as N2.
      destruct (lex_step st1 b1) as [s1 b1'| | |]; try discriminate H.
      destruct (lex_step st2 b2) as [s2 b2'| | |]; cbn [step_simT] in Hst; try contradiction.
      destruct Hst as (Hc & Ha & Hb').
      assert (Ht' : at_limit max_depth s1 = at_limit max_depth s2).
      { destruct Hs as (_ & _ & Ht). unfold at_limit in *. rewrite N1, N2. exact Ht. }
      exact (IH _ _ _ _ _ _ (conj Hc (conj Ha Ht')) Hb' H).
  Qed.

  Lemma directive_simT st1 st2 b1 b2 files post : simT max_depth st1 st2 -> bsim b1 b2 ->
    directive st1 b1 files post -> directive st2 b2 files post.
  Proof.
    intros Hs Hb (k & stq & bq & st3 & l & bolq & lb & Hrun & Hne & Hstep).
    destruct (cont_run_simT _ _ _ _ _ _ _ Hs Hb Hrun) as (sq2 & bq2 & Hrun2 & Hs2 & Hb2).
    pose proof (lex_step_simT stq sq2 bq bq2 Hs2 Hb2) as Hst.
    rewrite Hstep in Hst. destruct (lex_step sq2 bq2) as [| | |s3 fl l2 [r2 bl2 ln2]] eqn:El; cbn [step_simT] in Hst; try contradiction.
    destruct Hst as (<- & Hr & Hbl). cbn [b_rest b_bol] in Hr, Hbl. subst r2 bl2.
    exists k, sq2, bq2, s3, l2, bolq, ln2. split; [exact Hrun2|]. split; [|exact El]. destruct Hb2 as [<- _]. exact Hne.
  Qed.

  (* a text that is empty or begins with a line feed is scanned alike at the beginning of a line or not *)
  Definition nl_start (x : bytes) : Prop := x = [] \/ exists r, x = 10 :: r.

  Lemma bol_irrelevant di st x bol line fuel : l_cond st = 0 -> bytes_ok x -> nl_start x ->
    lex_buf di fuel st (mkBuf x bol line) = lex_buf di fuel st (mkBuf x true line).
  Proof.
    intros Ec Hb [-> | [r ->]]; [destruct fuel; reflexivity|].
    destruct fuel as [|f]; [reflexivity|]. rewrite !lex_buf_S by (cbn [b_rest]; discriminate).
    assert (Hb' : bytes_ok r) by (inversion Hb; assumption).
    assert (Hm : forall b, flex_match the_tables 0 b (10 :: r) = Some (28, 1%nat)).
    { intros b. change (10 :: r) with ([10] ++ r). rewrite cut_nl; [apply nl_match | auto | repeat constructor; lia | exact Hb' | left; reflexivity]. }
    assert (Es : lex_step st (mkBuf (10 :: r) bol line) = lex_step st (mkBuf (10 :: r) true line)).
    { unfold Lexer.lex_step. cbn [b_rest b_bol b_line]. rewrite Ec, !Hm. reflexivity. }
    rewrite Es. reflexivity.
  Qed.

  Definition di_of (d : nat) : option (list bytes -> lstate -> Z -> list ltoken * lstop * lstate) :=
    match d with O => None | S d' => Some (lex_files (lex_depth d')) end.
  Lemma lex_depth_unfold d st c : lex_depth d st c = lex_buf (di_of d) (S (length c)) st (mkBuf c true 1).
  Proof. destruct d; reflexivity. Qed.

  (* ================================================================================================================ *)
  (* B.2 Include forests                                                                                            *)
  (* ================================================================================================================ *)
  (* a text, cut at its include directives: plain text, a directive naming file f whose content is [sub], the rest *)
  Inductive itext :=
  | IPlain (p : bytes)
  | IIncl (p dir f : bytes) (sub rest : itext).

  Fixpoint text_of (t : itext) : bytes :=
    match t with IPlain p => p | IIncl p dir _ _ rest => p ++ dir ++ text_of rest end.
  (* every directive replaced by the flattened content of its target *)
  Fixpoint flat (t : itext) : bytes :=
    match t with IPlain p => p | IIncl p _ _ sub rest => p ++ flat sub ++ flat rest end.
  Fixpoint idepth (t : itext) : nat :=
    match t with IPlain _ => O | IIncl _ _ _ sub rest => Nat.max (S (idepth sub)) (idepth rest) end.
  (* the token values of the forest *)
  Fixpoint ftoks (t : itext) : list token :=
    match t with IPlain p => plain_toks atof p | IIncl p _ _ sub rest => plain_toks atof p ++ ftoks sub ++ ftoks rest end.

  (* well-formed forests: the text before a directive is plain (so the directive begins a line); the directive is accepted
     (at nesting level 0; by [directive_simT] then at every level below the limit) and resolves to the single file f;
     f exists and its content is the text of [sub]; what follows the directive is empty or begins with a line feed *)
  Fixpoint wf (t : itext) : Prop :=
    match t with
    | IPlain p => plain atof p
    | IIncl p dir f sub rest =>
        plain atof p /\ bytes_ok dir /\
        directive (lstate0 None) (mkBuf (dir ++ text_of rest) true 1) [f] (text_of rest) /\
        fs_lookup FS f = Some (FFile (text_of sub)) /\
        nl_start (text_of rest) /\ wf sub /\ wf rest
    end.

  Lemma wf_bytes t : wf t -> bytes_ok (text_of t) /\ bytes_ok (flat t).
  Proof.
    induction t as [p|p dir f sub IHs rest IHr]; cbn [wf text_of flat].
    - intros (H & _). auto.
    - intros ((Hp & _) & Hd & _ & _ & _ & Hs & Hr). destruct (IHs Hs) as [_ S2]. destruct (IHr Hr) as [R1 R2].
      split; repeat apply bytes_ok_app; assumption.
  Qed.

  (* the flattened text, scanned in one buffer *)
  Lemma flat_scan di : forall t, wf t -> forall tail st line fuel,
    bytes_ok tail -> l_cond st = 0 -> l_acc st = [] -> (length (flat t ++ tail) < fuel)%nat ->
    exists ltoks st' fuel' line',
      lex_buf di fuel st (mkBuf (flat t ++ tail) true line) =
        (let '(t0, s, st'', l) := lex_buf di fuel' st' (mkBuf tail true line') in (ltoks ++ t0, s, st'', l)) /\
      map lt_tok ltoks = ftoks t /\ l_cond st' = 0 /\ l_acc st' = [] /\ l_names st' = l_names st /\ (length tail < fuel')%nat.
  Proof.
    induction t as [p|p dir f sub IHs rest IHr]; cbn [wf flat ftoks]; intros Hw tail st line fuel Ht Ec Ea Hf.
    - destruct (append_plain atof FS incdir incf max_depth di p tail st line fuel Hw Ht Ec Ea Hf) as (lt & st' & f' & E & K1 & K2 & K3 & K4 & _ & _ & K7).
      exists lt, st', f', (line + count_nl p). auto 10.
    - destruct Hw as (Hp & Hd & _ & _ & _ & Hs & Hr).
      destruct (wf_bytes _ Hs) as [_ Bs]. destruct (wf_bytes _ Hr) as [_ Br].
      rewrite <- !app_assoc in *.
      destruct (append_plain atof FS incdir incf max_depth di p (flat sub ++ flat rest ++ tail) st line fuel Hp
                  ltac:(repeat apply bytes_ok_app; assumption) Ec Ea Hf) as (lt1 & s1 & f1 & -> & A1 & A2 & A3 & A4 & _ & _ & A7).
      destruct (IHs Hs (flat rest ++ tail) s1 (line + count_nl p) f1 ltac:(apply bytes_ok_app; assumption) A2 A3 A7)
        as (lt2 & s2 & f2 & l2 & -> & B1 & B2 & B3 & B4 & B7).
      destruct (IHr Hr tail s2 l2 f2 Ht B2 B3 B7) as (lt3 & s3 & f3 & l3 & -> & C1 & C2 & C3 & C4 & C7).
      exists (lt1 ++ lt2 ++ lt3), s3, f3, l3.
      split; [destruct (lex_buf di f3 s3 (mkBuf tail true l3)) as [[[t0 s0] st0] l0]; rewrite <- !app_assoc; reflexivity|].
      rewrite !map_app, A1, B1, C1. repeat split; auto; congruence.
  Qed.

  (* the forest, scanned with the include machine: nesting level of a state, and the statement for budget d *)
  Definition level (st : lstate) : Z := Z.of_nat (length (l_names st)) - 1.

  Definition forest_ok (d : nat) : Prop := forall t, wf t -> (idepth t <= d)%nat ->
    forall st bol line fuel, l_cond st = 0 -> l_acc st = [] -> 0 <= level st -> level st + Z.of_nat (idepth t) <= max_depth ->
      (bol = true \/ nl_start (text_of t)) -> (length (text_of t) < fuel)%nat ->
      exists ltoks st' line',
        lex_buf (di_of d) fuel st (mkBuf (text_of t) bol line) = (ltoks, StopEOB, st', line') /\
        map lt_tok ltoks = ftoks t /\ l_cond st' = 0 /\ l_acc st' = [] /\ l_names st' = l_names st.

  Lemma forest_step d : (forall d', d = S d' -> forest_ok d') -> forest_ok d.
  Proof.
    intros Hsub t. induction t as [p|p dir f sub _ rest IHr]; cbn [wf text_of idepth ftoks]; intros Hw Hd st bol line fuel Ec Ea Hl0 Hl Hbol Hf.
    - assert (E : lex_buf (di_of d) fuel st (mkBuf p bol line) = lex_buf (di_of d) fuel st (mkBuf p true line)).
      { destruct Hbol as [-> | Hn]; [reflexivity | apply bol_irrelevant; [exact Ec | apply Hw | exact Hn]]. }
      rewrite E.
      destruct (append_plain atof FS incdir incf max_depth (di_of d) p [] st line fuel Hw ltac:(constructor) Ec Ea ltac:(rewrite app_nil_r; exact Hf))
        as (lt & st' & f' & Eb & K1 & K2 & K3 & K4 & _ & _ & K7).
      rewrite app_nil_r in Eb. rewrite Eb. destruct f' as [|f']; [cbn [length] in K7; lia|].
      cbn [Lexer.lex_buf b_rest b_line]. exists (lt ++ []), st', (line + count_nl p). rewrite app_nil_r. auto 10.
    - destruct Hw as (Hp & Hbd & Hdir & Hfs & Hnl & Hws & Hwr).
      destruct (wf_bytes _ Hwr) as [Br _].
      assert (Hbt : bytes_ok (dir ++ text_of rest)) by (apply bytes_ok_app; assumption).
      destruct d as [|d']; [lia|]. specialize (Hsub d' eq_refl).
      assert (E : lex_buf (di_of (S d')) fuel st (mkBuf (p ++ dir ++ text_of rest) bol line) =
                  lex_buf (di_of (S d')) fuel st (mkBuf (p ++ dir ++ text_of rest) true line)).
      { destruct Hbol as [-> | Hn]; [reflexivity | apply bol_irrelevant; [exact Ec | apply bytes_ok_app; [apply Hp | exact Hbt] | exact Hn]]. }
      rewrite E. clear E.
      destruct (append_plain atof FS incdir incf max_depth (di_of (S d')) p (dir ++ text_of rest) st line fuel Hp Hbt Ec Ea Hf)
        as (lt1 & s1 & f1 & -> & A1 & A2 & A3 & A4 & _ & _ & A7).
      assert (Hlim : at_limit max_depth (lstate0 None) = at_limit max_depth s1).
      { unfold at_limit, level in *. rewrite A4. cbn [lstate0 l_names length].
        transitivity false; [apply Z.eqb_neq; lia | symmetry; apply Z.eqb_neq; lia]. }
      pose proof (directive_simT (lstate0 None) s1 (mkBuf (dir ++ text_of rest) true 1) (mkBuf (dir ++ text_of rest) true (line + count_nl p))
                    [f] (text_of rest) (conj (eq_sym A2) (conj (eq_sym A3) Hlim)) ltac:(split; reflexivity) Hdir)
        as (k & stq & bq & st3 & l & bolq & lb & Hrun & Hne & Hstep).
      destruct (cont_run_facts atof FS incdir incf max_depth _ _ _ _ _ Hrun) as (Hlen & Hnames & Hbuf). cbn [b_rest] in Hlen.
      pose proof (lex_step_shrinks the_tables yy_rule_can_match_eol yy_actions atof FS incdir incf max_depth stq bq Hne) as Hsh.
      pose proof (lex_step_names the_tables yy_rule_can_match_eol yy_actions atof FS incdir incf max_depth stq bq) as Hn3.
      rewrite Hstep in Hsh, Hn3. cbn [b_rest] in Hsh. destruct Hn3 as (N1 & N2 & N3).
      rewrite (lex_buf_fuel the_tables yy_rule_can_match_eol yy_actions atof FS incdir incf max_depth (di_of (S d')) f1
                 (k + S (length (dir ++ text_of rest)))%nat s1 (mkBuf (dir ++ text_of rest) true (line + count_nl p)) A7 ltac:(cbn [b_rest]; lia)).
      rewrite Hbuf, lex_buf_S by exact Hne. rewrite Hstep. cbn [di_of]. cbn [Lexer.lex_files]. rewrite Hfs, lex_depth_unfold.
      set (stX := push_open (add_ev (set_name st3 (Some f)) (LvOpen f)) f).
      assert (NX : l_names stX = Some f :: l_names st) by (cbn [stX push_open add_ev set_name l_names]; rewrite N1, Hnames, A4; reflexivity).
      destruct (Hsub sub Hws ltac:(lia) stX true 1 (S (length (text_of sub))) N2 N3
                  ltac:(unfold level in *; rewrite NX; cbn [length]; lia) ltac:(unfold level in *; rewrite NX; cbn [length]; lia)
                  (or_introl eq_refl) ltac:(lia)) as (lt2 & s2 & l2 & -> & B1 & B2 & B3 & B4).
      set (st5 := add_ev (pop_open s2) (LvClose f)).
      assert (N5 : l_names (pop_frame st5) = l_names st) by (cbn [st5 pop_frame add_ev pop_open l_names]; rewrite B4, NX; reflexivity).
      cbn [Lexer.lex_files]. change (Some (lex_files (lex_depth d'))) with (di_of (S d')).
      destruct (IHr Hwr ltac:(lia) (pop_frame st5) bolq lb (length (dir ++ text_of rest)) B2 B3
                  ltac:(unfold level in *; rewrite N5; exact Hl0) ltac:(unfold level in *; rewrite N5; lia) (or_intror Hnl) ltac:(lia))
        as (lt3 & s3 & l3 & -> & C1 & C2 & C3 & C4).
      exists (lt1 ++ ((lt2 ++ []) ++ lt3)), s3, l3. split; [reflexivity|].
      rewrite !map_app, A1, B1, C1. cbn [map]. rewrite app_nil_r. repeat split; auto. congruence.
  Qed.

  Theorem forest_scan : forall d, forest_ok d.
  Proof. induction d as [|d IH]; apply forest_step; intros d' E; [discriminate E | injection E as <-; exact IH]. Qed.
End Nest.

(* ================================================================================================================ *)
(* B.3 The forest and its flattening: lex_top and config_read                                                        *)
(* ================================================================================================================ *)
Theorem flatten_top : forall atof FS c top t,
  wf atof FS (c_incdir c) (c_incfn c) MAX_INCLUDE_DEPTH t -> (idepth t <= Z.to_nat MAX_INCLUDE_DEPTH)%nat ->
  (let '(toks, stop) := lex_top atof FS c top (text_of t) in map lt_tok toks = ftoks atof t ++ [TkEOF] /\ stop = StopEOB) /\
  (let '(toks, stop) := lex_top atof FS c top (flat t) in map lt_tok toks = ftoks atof t ++ [TkEOF] /\ stop = StopEOB).
Proof.
  intros atof FS c top t Hw Hd. unfold lex_top. change Reader.the_tables with ScannerCert.the_tables. rewrite Nat.add_1_r.
  set (N := Z.to_nat MAX_INCLUDE_DEPTH) in *. rewrite !lex_depth_unfold. split.
  - destruct (forest_scan atof FS (c_incdir c) (c_incfn c) MAX_INCLUDE_DEPTH (S N) t Hw ltac:(lia) (lstate0 top) true 1
                (S (length (text_of t))) eq_refl eq_refl ltac:(unfold level; cbn; lia)
                ltac:(unfold level; cbn [lstate0 l_names length]; subst N; unfold MAX_INCLUDE_DEPTH in *; lia)
                (or_introl eq_refl) ltac:(lia)) as (lt & st' & l' & -> & K1 & _).
    unfold emit. rewrite map_app, K1. auto.
  - destruct (flat_scan atof FS (c_incdir c) (c_incfn c) MAX_INCLUDE_DEPTH (di_of atof FS (c_incdir c) (c_incfn c) MAX_INCLUDE_DEPTH (S N))
                t Hw [] (lstate0 top) 1 (S (length (flat t))) ltac:(constructor) eq_refl eq_refl ltac:(rewrite app_nil_r; lia))
      as (lt & st' & f' & l' & E & K1 & _ & _ & _ & K7).
    rewrite app_nil_r in E. rewrite E. destruct f' as [|f']; [cbn [length] in K7; lia|]. cbn [lex_buf b_rest b_line].
    unfold emit. rewrite map_app, app_nil_r, K1. auto.
Qed.

Corollary flatten_tokens : forall atof FS c top t,
  wf atof FS (c_incdir c) (c_incfn c) MAX_INCLUDE_DEPTH t -> (idepth t <= Z.to_nat MAX_INCLUDE_DEPTH)%nat ->
  let '(toks1, stop1) := lex_top atof FS c top (text_of t) in
  let '(toks2, stop2) := lex_top atof FS c top (flat t) in
  map lt_tok toks1 = map lt_tok toks2 /\ stop1 = stop2.
Proof.
  intros atof FS c top t Hw Hd. destruct (flatten_top atof FS c top t Hw Hd) as [H1 H2].
  destruct (lex_top atof FS c top (text_of t)) as [t1 s1], (lex_top atof FS c top (flat t)) as [t2 s2].
  destruct H1 as [-> ->], H2 as [-> ->]. auto.
Qed.

(* reading the forest and reading the flattened text: the same outcome, the same configuration up to recorded positions *)
Theorem flatten_read : forall atof FS c top t,
  wf atof FS (c_incdir c) (c_incfn c) MAX_INCLUDE_DEPTH t -> (idepth t <= Z.to_nat MAX_INCLUDE_DEPTH)%nat ->
  let r1 := config_read atof FS c top (text_of t) in
  let r2 := config_read atof FS c top (flat t) in
  rd_out_ r1 = rd_out_ r2 /\ unpos (c_root (rd_cfg r1)) = unpos (c_root (rd_cfg r2)).
Proof.
  intros atof FS c top t Hw Hd. cbv zeta. apply config_read_tokens.
  rewrite !(lex_top_cfg atof FS (set_files (set_root (set_err c err0) new_root) []) c top) by reflexivity.
  exact (flatten_tokens atof FS c top t Hw Hd).
Qed.

(* ---- example: two levels.  top: x = 1;<LF>@include "f"<LF>y = 2;<LF>     f: s = "a<LF>b"; # k<LF>@include "g"<LF>n = 42;<LF>
        g: z = 7;<LF> ---- *)
Definition n_g : itext := IPlain [122; 32; 61; 32; 55; 59; 10].
Definition n_f : itext := IIncl [115; 32; 61; 32; 34; 97; 10; 98; 34; 59; 32; 35; 32; 107; 10] [64; 105; 110; 99; 108; 117; 100; 101; 32; 34; 103; 34] [103] n_g (IPlain [10; 110; 32; 61; 32; 52; 50; 59; 10]).
Definition n_top : itext := IIncl [120; 32; 61; 32; 49; 59; 10] [64; 105; 110; 99; 108; 117; 100; 101; 32; 34; 102; 34] [102] n_f (IPlain [10; 121; 32; 61; 32; 50; 59; 10]).
Definition n_fs : fs := [([102], FFile (text_of n_f)); ([103], FFile (text_of n_g))].

Ltac ex_plain := apply plainb_sound; vm_compute; reflexivity.
Ltac ex_directive := unfold directive; exists 2%nat; do 6 eexists; (split; [lazy; reflexivity|]); (split; [lazy; discriminate|]); lazy; reflexivity.

Example n_g_wf : wf ex_atof n_fs (c_incdir cfg_init) (c_incfn cfg_init) MAX_INCLUDE_DEPTH n_g.
Proof. cbn [wf n_g]. ex_plain. Qed.

Example n_f_wf : wf ex_atof n_fs (c_incdir cfg_init) (c_incfn cfg_init) MAX_INCLUDE_DEPTH n_f.
Proof.
  unfold n_f. cbn [wf text_of].
  split; [ex_plain|]. split; [apply bytes_okb_sound; vm_compute; reflexivity|]. split; [ex_directive|].
  split; [vm_compute; reflexivity|]. split; [right; eexists; reflexivity|]. split; [exact n_g_wf | ex_plain].
Qed.

Example n_top_wf : wf ex_atof n_fs (c_incdir cfg_init) (c_incfn cfg_init) MAX_INCLUDE_DEPTH n_top.
Proof.
  unfold n_top. cbn [wf text_of].
  split; [ex_plain|]. split; [apply bytes_okb_sound; vm_compute; reflexivity|]. split; [ex_directive|].
  split; [vm_compute; reflexivity|]. split; [right; eexists; reflexivity|]. split; [exact n_f_wf | ex_plain].
Qed.

Example n_top_texts :
  text_of n_top = [120; 32; 61; 32; 49; 59; 10; 64; 105; 110; 99; 108; 117; 100; 101; 32; 34; 102; 34; 10; 121; 32; 61; 32; 50; 59; 10] /\
  flat n_top = [120; 32; 61; 32; 49; 59; 10; 115; 32; 61; 32; 34; 97; 10; 98; 34; 59; 32; 35; 32; 107; 10; 122; 32; 61; 32; 55; 59; 10; 10; 110; 32; 61; 32; 52; 50; 59; 10; 10; 121; 32; 61; 32; 50; 59; 10].
Proof. vm_compute. auto. Qed.

Example n_top_tokens :
  (let '(t, s) := lex_top ex_atof n_fs cfg_init None (text_of n_top) in (map lt_tok t, s)) =
    ([TkName [120]; TkP TEquals; TkInt 1; TkP TSemicolon;
      TkName [115]; TkP TEquals; TkString [97; 10; 98]; TkP TSemicolon;
      TkName [122]; TkP TEquals; TkInt 7; TkP TSemicolon;
      TkName [110]; TkP TEquals; TkInt 42; TkP TSemicolon;
      TkName [121]; TkP TEquals; TkInt 2; TkP TSemicolon; TkEOF], StopEOB) /\
  (let '(t, s) := lex_top ex_atof n_fs cfg_init None (flat n_top) in (map lt_tok t, s)) =
    ([TkName [120]; TkP TEquals; TkInt 1; TkP TSemicolon;
      TkName [115]; TkP TEquals; TkString [97; 10; 98]; TkP TSemicolon;
      TkName [122]; TkP TEquals; TkInt 7; TkP TSemicolon;
      TkName [110]; TkP TEquals; TkInt 42; TkP TSemicolon;
      TkName [121]; TkP TEquals; TkInt 2; TkP TSemicolon; TkEOF], StopEOB).
Proof. vm_compute. auto. Qed.

Example n_top_flatten :
  let r1 := config_read ex_atof n_fs cfg_init None (text_of n_top) in
  let r2 := config_read ex_atof n_fs cfg_init None (flat n_top) in
  rd_out_ r1 = rd_out_ r2 /\ unpos (c_root (rd_cfg r1)) = unpos (c_root (rd_cfg r2)).
Proof. apply (flatten_read ex_atof n_fs cfg_init None n_top n_top_wf). vm_compute. lia. Qed.

Print Assumptions directive_simT.
Print Assumptions forest_scan.
Print Assumptions flat_scan.
Print Assumptions flatten_top.
Print Assumptions flatten_read.
Print Assumptions n_top_flatten.
