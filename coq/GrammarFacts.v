(* GrammarFacts.v — the documented grammar as derivation relations over token lists, and soundness of the
   parser model: whatever it accepts is derivable (lemmas behind Properties_C02). *)
From Coq Require Import List ZArith Bool Lia.
Import ListNotations.
From LC Require Import Base Tree Fp Lookup Api ScanAction Tokens Lexer Parser.
Local Open Scope Z_scope.

Definition is_simple_tok (t : token) : bool :=
  match t with TkBool _ | TkInt _ | TkInt64 _ | TkHex _ | TkHex64 _ | TkFloat _ => true | _ => false end.
Definition is_str (t : token) : bool := match t with TkString _ => true | _ => false end.

(* the manual's grammar (section Configuration File Grammar), list-shaped:
     configuration: a sequence of settings;   setting: name EQ value followed by SEMI, COMMA or nothing (EQ is : or =)
     value: scalar | array | list | group;    scalar: boolean | integer | integer64 | hex | hex64 | float | one or more strings
     array: [ elems of scalars ];  list: ( elems of values );  group: { settings }
     elems: empty, or a first element followed by any number of (COMMA, optionally followed by an element) *)
Inductive Dvalue : bool -> list token -> Prop :=
| DvScalar simple t : is_simple_tok t = true -> Dvalue simple [t]
| DvString simple ss : ss <> [] -> forallb is_str ss = true -> Dvalue simple ss
| DvArray ts : Delems true ts -> Dvalue false (TkP TArrayStart :: ts ++ [TkP TArrayEnd])
| DvList ts : Delems false ts -> Dvalue false (TkP TListStart :: ts ++ [TkP TListEnd])
| DvGroup ts : Dsettings ts -> Dvalue false (TkP TGroupStart :: ts ++ [TkP TGroupEnd])
with Delems : bool -> list token -> Prop :=
| DeNil simple : Delems simple []
| DeCons simple v tl : Dvalue simple v -> Dtail simple tl -> Delems simple (v ++ tl)
with Dtail : bool -> list token -> Prop :=
| DtNil simple : Dtail simple []
| DtComma simple tl : Dtail simple tl -> Dtail simple (TkP TComma :: tl)
| DtCommaV simple v tl : Dvalue simple v -> Dtail simple tl -> Dtail simple (TkP TComma :: v ++ tl)
with Dsettings : list token -> Prop :=
| DsNil : Dsettings []
| DsCons nm v term rest :
    Dvalue false v -> (term = [] \/ term = [TkP TSemicolon] \/ term = [TkP TComma]) -> Dsettings rest ->
    Dsettings (TkName nm :: TkP TEquals :: v ++ term ++ rest).

Definition ptoks (s : pst) : list token := map lt_tok (p_toks s).

(* ---- the token-stream primitives ---- *)
Lemma peek_spec s o s' : peek s = (o, s') ->
  p_toks s' = p_toks s /\ p_root s' = p_root s /\
  o = match p_toks s with [] => None | t :: _ => Some (lt_tok t) end.
Proof.
  unfold peek. destruct (p_toks s) as [|t r] eqn:E.
  - intros H. injection H as <- <-. rewrite E. auto.
  - destruct (p_la s); intros H; injection H as <- <-; cbn; rewrite ?E; auto.
Qed.

Lemma ptoks_shift s : ptoks (shift s) = tl (ptoks s).
Proof. unfold ptoks, shift. cbn. destruct (p_toks s); reflexivity. Qed.

Lemma ptoks_set_proot s r : ptoks (set_proot s r) = ptoks s.
Proof. reflexivity. Qed.

Lemma peek_ptoks s o s' : peek s = (o, s') -> ptoks s' = ptoks s /\ o = hd_error (ptoks s).
Proof.
  intros H. destruct (peek_spec _ _ _ H) as (H1 & _ & H3). unfold ptoks. rewrite H1. split; [reflexivity|].
  rewrite H3. destruct (p_toks s); reflexivity.
Qed.

Lemma peek_some s t s' : peek s = (Some t, s') -> exists r, ptoks s = t :: r /\ ptoks s' = t :: r /\ ptoks (shift s') = r.
Proof.
  intros H. destruct (peek_ptoks _ _ _ H) as [H1 H2]. destruct (ptoks s) as [|x r] eqn:E; [discriminate|].
  injection H2 as <-. exists r. rewrite ptoks_shift, H1. auto.
Qed.

Lemma act_name_ptoks ov s parent nm s' sp : act_name ov s parent nm = Some (s', sp) -> ptoks s' = ptoks s.
Proof.
  unfold act_name. destruct (get_at parent (p_root s)); [|discriminate].
  destruct (n_add ov s0 (Some nm) 0) as [[[a b] c]|]; [|discriminate]. intros H. injection H as <- _. reflexivity.
Qed.

Lemma act_scalar_ptoks s parent cur sc s' : act_scalar s parent cur sc = Some s' -> ptoks s' = ptoks s.
Proof.
  unfold act_scalar. destruct sc as [[t st] fmt]. destruct (in_agg (p_root s) parent).
  - destruct (get_at parent (p_root s)); [|discriminate]. destruct (n_set_elem t st s0 (-1)); try discriminate.
    intros H. injection H as <-. reflexivity.
  - destruct cur; intros H; injection H as <-; reflexivity.
Qed.

Lemma act_open_ptoks ov s parent cur k s' np : act_open ov s parent cur k = Some (s', np) -> ptoks s' = ptoks s.
Proof.
  unfold act_open. destruct (ty_at (p_root s) parent).
  all: try (destruct cur; [|discriminate]; intros H; injection H as <- _; reflexivity).
  destruct (get_at parent (p_root s)); [|discriminate].
  destruct (n_add ov s0 None (aggk_code k)) as [[[a b] c]|]; [|discriminate]. intros H. injection H as <- _. reflexivity.
Qed.

Lemma expect_spec s p s' : expect s p = POk s' -> exists r, ptoks s = TkP p :: r /\ ptoks s' = r /\
  (p = TEquals \/ p = TArrayEnd \/ p = TListEnd \/ p = TGroupEnd).
Proof.
  unfold expect. destruct (peek s) as [[t|] s1] eqn:P; [|discriminate].
  destruct t; try discriminate. destruct (peek_some _ _ _ P) as (r & H1 & H2 & H3).
  destruct p, t; try discriminate; intros H; injection H as <-; exists r; auto 6.
Qed.

(* ---- strings ---- *)
Lemma p_string_spec fuel : forall s acc v s',
  p_string fuel s acc = (Some v, s') ->
  exists ss, ptoks s = ss ++ ptoks s' /\ forallb is_str ss = true /\
             (match hd_error (ptoks s') with Some t => is_str t = false | None => True end).
Proof.
  induction fuel as [|f IH]; intros s acc v s' H; cbn [p_string] in H; [discriminate|].
  destruct (peek s) as [[t|] s1] eqn:P.
  - destruct (is_str t) eqn:St.
    + destruct t as [ | | | | | |str| | | | ]; try discriminate. destruct (peek_some _ _ _ P) as (r & H1 & H2 & H3).
      destruct (IH _ _ _ _ H) as (ss & E & Hs & Hh). exists (TkString str :: ss).
      rewrite H1, <- H3, E. auto.
    + assert (E : (Some acc, s1) = (Some v, s')) by (destruct t; try discriminate; exact H).
      injection E as _ <-. destruct (peek_ptoks _ _ _ P) as [H1 H2]. exists []. rewrite H1. split; [reflexivity|].
      split; [reflexivity|]. rewrite <- H2. exact St.
  - injection H as _ <-. destruct (peek_ptoks _ _ _ P) as [H1 H2]. exists []. rewrite H1. split; [reflexivity|].
    split; [reflexivity|]. rewrite <- H2. exact I.
Qed.

(* ---- soundness of the mutually recursive descent ---- *)
Definition close_of (k : aggk) : ptok := match k with KArr => TArrayEnd | KLst => TListEnd | KGrp => TGroupEnd end.
Definition body_ok (k : aggk) (ts : list token) : Prop :=
  match k with KArr => Delems true ts | KLst => Delems false ts | KGrp => Dsettings ts end.

Section Sound.
  Variable ov : bool.

  (* one-step unfoldings of the mutually recursive functions *)
  Lemma p_agg_S f s parent cur k :
    p_agg ov (S f) s parent cur k =
    match act_open ov s parent cur k with
    | None => PStuck s
    | Some (s1, newparent) =>
        let body :=
          match k with
          | KGrp => p_settings ov f s1 newparent
          | KArr => p_elems ov f s1 newparent true true
          | KLst => p_elems ov f s1 newparent false true
          end in
        match body with
        | POk s2 => expect s2 (match k with KArr => TArrayEnd | KLst => TListEnd | KGrp => TGroupEnd end)
        | r => r
        end
    end.
  Proof. reflexivity. Qed.

  Lemma p_elems_S f s parent simple first :
    p_elems ov (S f) s parent simple first =
    match peek s with
    | (None, s') => PFatal s'
    | (Some t, s') =>
        if first then
          if is_value_start simple t then
            match p_value ov f s' parent None simple with
            | POk s2 => p_elems ov f s2 parent simple false
            | r => r
            end
          else POk s'
        else
          match t with
          | TkP TComma =>
              let s2 := shift s' in
              match peek s2 with
              | (None, s3) => PFatal s3
              | (Some t2, s3) =>
                  if is_value_start simple t2 then
                    match p_value ov f s3 parent None simple with
                    | POk s4 => p_elems ov f s4 parent simple false
                    | r => r
                    end
                  else p_elems ov f s3 parent simple false
              end
          | _ => POk s'
          end
    end.
  Proof. reflexivity. Qed.

  Lemma p_settings_S f s parent :
    p_settings ov (S f) s parent =
    match peek s with
    | (None, s') => PFatal s'
    | (Some (TkName nm), s') =>
        let s1 := shift s' in
        match act_name ov s1 parent nm with
        | None => PErr PErrDup s1
        | Some (s2, sp) =>
            match expect s2 TEquals with
            | POk s3 =>
                match p_value ov f s3 parent (Some sp) false with
                | POk s4 =>
                    let s6 := match peek s4 with
                              | (Some (TkP TSemicolon), s5) => shift s5
                              | (Some (TkP TComma), s5) => shift s5
                              | (_, s5) => s5
                              end in
                    p_settings ov f s6 parent
                | r => r
                end
            | r => r
            end
        end
    | (Some _, s') => POk s'
    end.
  Proof. reflexivity. Qed.

  Definition P_value (fuel : nat) : Prop := forall s parent cur simple s',
    p_value ov fuel s parent cur simple = POk s' -> exists v, ptoks s = v ++ ptoks s' /\ Dvalue simple v.
  Definition P_agg (fuel : nat) : Prop := forall s parent cur k s',
    p_agg ov fuel s parent cur k = POk s' ->
    exists ts, ptoks s = ts ++ TkP (close_of k) :: ptoks s' /\ body_ok k ts.
  Definition P_elems (fuel : nat) : Prop := forall s parent simple first s',
    p_elems ov fuel s parent simple first = POk s' ->
    exists ts, ptoks s = ts ++ ptoks s' /\ (if first then Delems simple ts else Dtail simple ts).
  Definition P_settings (fuel : nat) : Prop := forall s parent s',
    p_settings ov fuel s parent = POk s' -> exists ts, ptoks s = ts ++ ptoks s' /\ Dsettings ts.

  Lemma value_of_agg k ts :
    body_ok k ts ->
    Dvalue false (TkP (match k with KArr => TArrayStart | KLst => TListStart | KGrp => TGroupStart end) :: ts ++ [TkP (close_of k)]).
  Proof. destruct k; cbn; intros H; constructor; exact H. Qed.

  Theorem parser_sound : forall fuel, P_value fuel /\ P_agg fuel /\ P_elems fuel /\ P_settings fuel.
  Proof.
    induction fuel as [|f (IHv & IHa & IHe & IHs)].
    { repeat split; intros *; cbn; discriminate. }
    assert (Hv : P_value (S f)).
    { intros s parent cur simple s' H. cbn [p_value] in H.
      destruct (peek s) as [[t|] s1] eqn:P; [|discriminate].
      destruct (peek_some _ _ _ P) as (r & H1 & H2 & H3).
      assert (Hagg : forall k, p_agg ov f (shift s1) parent cur k = POk s' -> simple = false ->
                     t = TkP (match k with KArr => TArrayStart | KLst => TListStart | KGrp => TGroupStart end) ->
                     exists v, ptoks s = v ++ ptoks s' /\ Dvalue simple v).
      { intros k Hk -> ->. destruct (IHa _ _ _ _ _ Hk) as (ts & E & B). rewrite H3 in E.
        eexists. split; [|apply (value_of_agg k ts B)]. rewrite H1, E. cbn. rewrite <- app_assoc. reflexivity. }
      destruct t as [bv|iv|lv|hv|hlv|fb|str|nm|pt| | ]; try discriminate.
      all: try (cbn [scalar_of] in H; destruct (act_scalar (shift s1) parent cur _) as [s3|] eqn:A; [|discriminate]; injection H as <-;
                eexists [_]; split; [rewrite H1, (act_scalar_ptoks _ _ _ _ _ A), H3; reflexivity | constructor; reflexivity]).
      - (* string *)
        destruct (p_string f s1 []) as [[sv|] s2] eqn:Ps; [|discriminate].
        destruct (p_string_spec _ _ _ _ _ Ps) as (ss & E & Hs & _).
        destruct (act_scalar s2 parent cur (string_scalar sv)) as [s3|] eqn:A; [|discriminate]. injection H as <-.
        exists ss. rewrite (act_scalar_ptoks _ _ _ _ _ A). split; [rewrite H1, <- H2; exact E|].
        apply DvString; [|exact Hs]. intros ->. cbn in E. rewrite H2 in E.
        destruct (p_string_spec _ _ _ _ _ Ps) as (ss' & E' & _ & Hh). rewrite <- E in Hh. cbn in Hh. discriminate.
      - (* punctuation *)
        destruct pt; try discriminate; destruct simple; try discriminate.
        + apply (Hagg KGrp H eq_refl eq_refl).
        + apply (Hagg KArr H eq_refl eq_refl).
        + apply (Hagg KLst H eq_refl eq_refl). }
    assert (Ha : P_agg (S f)).
    { intros s parent cur k s' H. rewrite p_agg_S in H.
      destruct (act_open ov s parent cur k) as [[s1 np]|] eqn:A; [|discriminate].
      pose proof (act_open_ptoks _ _ _ _ _ _ _ A) as E1. cbv zeta in H.
      destruct k.
      - destruct (p_elems ov f s1 np true true) as [s2|e s2|s2|s2] eqn:B; try discriminate.
        destruct (IHe _ _ _ _ _ B) as (ts & E & D). destruct (expect_spec _ _ _ H) as (r & X1 & X2 & _).
        exists ts. rewrite <- E1, E, X1, X2. split; [reflexivity | exact D].
      - destruct (p_elems ov f s1 np false true) as [s2|e s2|s2|s2] eqn:B; try discriminate.
        destruct (IHe _ _ _ _ _ B) as (ts & E & D). destruct (expect_spec _ _ _ H) as (r & X1 & X2 & _).
        exists ts. rewrite <- E1, E, X1, X2. split; [reflexivity | exact D].
      - destruct (p_settings ov f s1 np) as [s2|e s2|s2|s2] eqn:B; try discriminate.
        destruct (IHs _ _ _ B) as (ts & E & D). destruct (expect_spec _ _ _ H) as (r & X1 & X2 & _).
        exists ts. rewrite <- E1, E, X1, X2. split; [reflexivity | exact D]. }
    assert (He : P_elems (S f)).
    { intros s parent simple first s' H. rewrite p_elems_S in H.
      destruct (peek s) as [[t|] s1] eqn:P; [|discriminate].
      destruct (peek_ptoks _ _ _ P) as [Q1 Q2].
      destruct first.
      - destruct (is_value_start simple t).
        + destruct (p_value ov f s1 parent None simple) as [s2|e s2|s2|s2] eqn:V; try discriminate.
          destruct (IHv _ _ _ _ _ V) as (v & E & D). destruct (IHe _ _ _ _ _ H) as (tl & E2 & D2).
          exists (v ++ tl). rewrite <- Q1, E, E2, app_assoc. split; [reflexivity | constructor; assumption].
        + injection H as <-. exists []. rewrite Q1. split; [reflexivity | constructor].
      - destruct t as [bv|iv|lv|hv|hlv|fb|str|nm|pt| | ]; try (injection H as <-; exists []; rewrite Q1; split; [reflexivity | constructor]).
        destruct pt; try (injection H as <-; exists []; rewrite Q1; split; [reflexivity | constructor]).
        (* a comma *)
        cbv zeta in H. destruct (peek_some _ _ _ P) as (r & H1 & H2 & H3).
        destruct (peek (shift s1)) as [[t2|] s3] eqn:P2; [|discriminate].
        destruct (peek_ptoks _ _ _ P2) as [R1 R2].
        destruct (is_value_start simple t2).
        + destruct (p_value ov f s3 parent None simple) as [s4|e s4|s4|s4] eqn:V; try discriminate.
          destruct (IHv _ _ _ _ _ V) as (v & E & D). destruct (IHe _ _ _ _ _ H) as (tl & E2 & D2).
          exists (TkP TComma :: v ++ tl). split; [|constructor; assumption].
          rewrite H1, <- H3, <- R1, E, E2. cbn. rewrite app_assoc. reflexivity.
        + destruct (IHe _ _ _ _ _ H) as (tl & E2 & D2).
          exists (TkP TComma :: tl). split; [|constructor; assumption].
          rewrite H1, <- H3, <- R1, E2. reflexivity. }
    assert (Hs : P_settings (S f)).
    { intros s parent s' H. rewrite p_settings_S in H.
      destruct (peek s) as [[t|] s1] eqn:P; [|discriminate].
      destruct (peek_ptoks _ _ _ P) as [Q1 Q2].
      destruct t as [bv|iv|lv|hv|hlv|fb|str|nm|pt| | ]; try (injection H as <-; exists []; rewrite Q1; split; [reflexivity | constructor]).
      destruct (peek_some _ _ _ P) as (r & H1 & H2 & H3). cbv zeta in H.
      destruct (act_name ov (shift s1) parent nm) as [[s2 sp]|] eqn:A; [|discriminate].
      pose proof (act_name_ptoks _ _ _ _ _ _ A) as E1.
      destruct (expect s2 TEquals) as [s3|e s3|s3|s3] eqn:X; try discriminate.
      destruct (expect_spec _ _ _ X) as (r2 & X1 & X2 & _).
      destruct (p_value ov f s3 parent (Some sp) false) as [s4|e s4|s4|s4] eqn:V; try discriminate.
      destruct (IHv _ _ _ _ _ V) as (v & E & D).
      set (s6 := match peek s4 with
                 | (Some (TkP TSemicolon), s5) => shift s5
                 | (Some (TkP TComma), s5) => shift s5
                 | (_, s5) => s5 end) in H.
      assert (Ht : exists term, ptoks s4 = term ++ ptoks s6 /\ (term = [] \/ term = [TkP TSemicolon] \/ term = [TkP TComma])).
      { unfold s6. destruct (peek s4) as [[t4|] s5] eqn:P4.
        - destruct (peek_some _ _ _ P4) as (r4 & G1 & G2 & G3). destruct (peek_ptoks _ _ _ P4) as [G4 _].
          destruct t4 as [bv|iv|lv|hv|hlv|fb|str|nm4|pt4| | ]; try (exists []; rewrite G4; auto).
          destruct pt4; try (exists []; rewrite G4; auto).
          + exists [TkP TComma]. rewrite G1, G3. auto.
          + exists [TkP TSemicolon]. rewrite G1, G3. auto.
        - destruct (peek_ptoks _ _ _ P4) as [G4 _]. exists []. rewrite G4. auto. }
      destruct Ht as (term & T1 & T2).
      destruct (IHs _ _ _ H) as (rest & E3 & D3).
      exists (TkName nm :: TkP TEquals :: v ++ term ++ rest). split; [|constructor; assumption].
      rewrite H1, <- H3, <- E1, X1, <- X2, E, T1, E3. cbn. rewrite <- !app_assoc. reflexivity. }
    auto.
  Qed.

  (* configuration: setting* followed by the end of input *)
  Theorem p_config_sound s s' :
    p_config ov s = POk s' -> exists ts, ptoks s = ts ++ TkEOF :: tl (ptoks s') /\ Dsettings ts /\ hd_error (ptoks s') = Some TkEOF.
  Proof.
    unfold p_config. destruct (p_settings ov _ s []) as [s1|e s1|s1|s1] eqn:B; try discriminate.
    destruct (parser_sound (S (4 * length (p_toks s)))) as (_ & _ & _ & Hs).
    destruct (Hs _ _ _ B) as (ts & E & D).
    destruct (peek s1) as [[t|] s2] eqn:P; [|discriminate].
    destruct t as [bv|iv|lv|hv|hlv|fb|str|nm|pt| | ]; try discriminate. intros H. injection H as <-.
    destruct (peek_some _ _ _ P) as (r & H1 & H2 & _). exists ts. rewrite E, H1, H2. cbn. auto.
  Qed.
End Sound.
