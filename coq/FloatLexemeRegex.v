(* FloatLexemeRegex.v — the words of the documented float pattern (ScannerSpec.p_float, which the compiled scanner implements
   by C18) are exactly the float lexemes of FloatLexeme.v; hence C08 for floats stated on the words of the pattern. *)
From Coq Require Import List ZArith NArith Bool Lia.
Import ListNotations.
From LC Require Import Base BaseFacts Fp FloatDec Regex RegexFacts ScanAction ScannerSpec Tokens Lexer LexRound
  RoundSpec FloatStable FloatStableG FloatLexeme.
Local Open Scope Z_scope.

(* ------------------------------------------------------------------------------------------ *)
(* character sets                                                                              *)
(* ------------------------------------------------------------------------------------------ *)

Lemma in_cs_bound cs b : (cs < 2 ^ 256)%N -> in_cs cs b = true -> 0 <= b < 256.
Proof.
  intros Hcs H. unfold in_cs in H. apply andb_true_iff in H as [H0 Ht]. apply Z.leb_le in H0. split; [exact H0|].
  destruct (Z_lt_le_dec b 256) as [L|L]; [exact L|]. exfalso.
  destruct (N.eq_dec cs 0) as [-> | Hnz]; [rewrite N.bits_0 in Ht; discriminate|].
  rewrite N.bits_above_log2 in Ht; [discriminate|].
  apply N.lt_le_trans with 256%N; [apply N.log2_lt_pow2; [lia | exact Hcs] | lia].
Qed.

Lemma digit_set b : in_cs cs_digit b = true -> 48 <= b <= 57.
Proof.
  intros H. pose proof (in_cs_bound cs_digit b ltac:(vm_compute; reflexivity) H) as Hb.
  rewrite (in_cs_digit b Hb) in H. unfold is_digit in H. apply andb_true_iff in H as [A B]. apply Z.leb_le in A, B. lia.
Qed.

Lemma sign_set b : in_cs (cs_of [45; 43]) b = true -> b = 45 \/ b = 43.
Proof.
  intros H. pose proof (in_cs_bound (cs_of [45; 43]) b ltac:(vm_compute; reflexivity) H) as Hb.
  rewrite (cs_sweep (cs_of [45; 43]) (fun c => (c =? 45) || (c =? 43)) ltac:(vm_compute; reflexivity) b Hb) in H.
  apply orb_true_iff in H as [E | E]; apply Z.eqb_eq in E; auto.
Qed.

Lemma e_set b : in_cs (cs_of [101; 69]) b = true -> b = 101 \/ b = 69.
Proof.
  intros H. pose proof (in_cs_bound (cs_of [101; 69]) b ltac:(vm_compute; reflexivity) H) as Hb.
  rewrite (cs_sweep (cs_of [101; 69]) (fun c => (c =? 101) || (c =? 69)) ltac:(vm_compute; reflexivity) b Hb) in H.
  apply orb_true_iff in H as [E | E]; apply Z.eqb_eq in E; auto.
Qed.

Lemma m_point w : matches (chr 46) w -> w = [46].
Proof.
  intros H. apply m_chr in H as (b & -> & Hb). rewrite (in_cs_single 46 b ltac:(lia)) in Hb. apply Z.eqb_eq in Hb. subst. reflexivity.
Qed.

(* ------------------------------------------------------------------------------------------ *)
(* the pieces of the pattern                                                                   *)
(* ------------------------------------------------------------------------------------------ *)

Lemma m_star_digits w : matches (Star digit) w -> exists ds, digits_ok 10 ds /\ w = dec_chars ds.
Proof.
  intros H. remember (Star digit) as r eqn:Er. induction H as [| | | | | a | a u v Hu _ Hne Hv IHv]; try discriminate Er.
  - exists []. split; [constructor | reflexivity].
  - injection Er as ->. destruct (IHv eq_refl) as (ds & Ho & ->).
    apply m_chr in Hu as (b & -> & Hb). apply digit_set in Hb.
    exists ((b - 48) :: ds). split; [constructor; [lia | exact Ho]|].
    cbn [app dec_chars map]. unfold dec_char. f_equal. lia.
Qed.

Lemma m_plus_digits w : matches (plus digit) w -> exists ds, ds <> [] /\ digits_ok 10 ds /\ w = dec_chars ds.
Proof.
  intros H. apply m_cat in H as (u & v & -> & Hu & Hv). apply m_star_digits in Hv as (ds & Ho & ->).
  apply m_chr in Hu as (b & -> & Hb). apply digit_set in Hb.
  exists ((b - 48) :: ds). split; [discriminate|]. split; [constructor; [lia | exact Ho]|].
  cbn [app dec_chars map]. unfold dec_char. f_equal. lia.
Qed.

Lemma m_sign w : matches sign_opt w -> is_sign3 w.
Proof.
  intros H. apply m_alt in H as [H | H].
  - apply m_eps in H. left. exact H.
  - apply m_chr in H as (b & -> & Hb). apply sign_set in Hb as [-> | ->]; [right; right | right; left]; reflexivity.
Qed.

Lemma m_expo w : matches expo w -> exists ec es Xd, exp_ok (Some (ec, es, Xd)) /\ w = exp_chars (Some (ec, es, Xd)).
Proof.
  intros H. apply m_cat in H as (u & v & -> & Hu & Hv). apply m_cat in Hv as (s & x & -> & Hs & Hx).
  apply m_chr in Hu as (ec & -> & Hec). apply e_set in Hec. apply m_sign in Hs.
  apply m_plus_digits in Hx as (Xd & Hne & Ho & ->).
  exists ec, s, Xd. split; [repeat split; assumption | reflexivity].
Qed.

Lemma m_opt_expo w : matches (opt expo) w -> exists ex, exp_ok ex /\ w = exp_chars ex.
Proof.
  intros H. apply m_alt in H as [H | H].
  - apply m_eps in H. exists None. split; [exact I | exact H].
  - apply m_expo in H as (ec & es & Xd & Hok & ->). exists (Some (ec, es, Xd)). split; [exact Hok | reflexivity].
Qed.

(* ------------------------------------------------------------------------------------------ *)
(* the words of the float pattern are the float lexemes                                        *)
(* ------------------------------------------------------------------------------------------ *)

Theorem p_float_lexeme w : matches p_float w ->
  exists sg I hasdot F ex, float_lexeme sg I hasdot F ex /\ w = lexeme_of sg I hasdot F ex.
Proof.
  intros H. unfold p_float in H. cbn [cats] in H. apply m_alt in H as [H | H].
  - apply m_cat in H as (sg & r1 & -> & Hsg & H). apply m_cat in H as (i & r2 & -> & Hi & H).
    apply m_cat in H as (pt & r3 & -> & Hpt & H). apply m_cat in H as (f & e & -> & Hf & He).
    apply m_sign in Hsg. apply m_star_digits in Hi as (I & HoI & ->). apply m_point in Hpt. subst pt.
    apply m_star_digits in Hf as (F & HoF & ->). apply m_opt_expo in He as (ex & Hex & ->).
    exists sg, I, true, F, ex. split; [|unfold lexeme_of; reflexivity].
    split; [exact Hsg|]. split; [exact HoI|]. split; [exact HoF|]. split; [exact Hex|]. left. reflexivity.
  - apply m_cat in H as (sg & r1 & -> & Hsg & H). apply m_cat in H as (i & r2 & -> & Hi & H).
    apply m_cat in H as (o & e & -> & Ho & He).
    apply m_sign in Hsg. apply m_plus_digits in Hi as (I & HneI & HoI & ->).
    apply m_expo in He as (ec & es & Xd & Hex & ->).
    apply m_alt in Ho as [Ho | Ho].
    + apply m_eps in Ho. subst o. exists sg, I, false, [], (Some (ec, es, Xd)).
      split; [|reflexivity]. split; [exact Hsg|]. split; [exact HoI|]. split; [constructor|]. split; [exact Hex|].
      right. split; [exact HneI|]. split; [reflexivity | discriminate].
    + apply m_cat in Ho as (pt & f & -> & Hpt & Hf). apply m_point in Hpt. subst pt.
      apply m_star_digits in Hf as (F & HoF & ->).
      exists sg, I, true, F, (Some (ec, es, Xd)). split; [|unfold lexeme_of; reflexivity].
      split; [exact Hsg|]. split; [exact HoI|]. split; [exact HoF|]. split; [exact Hex|]. left. reflexivity.
Qed.

(* ---- the converse: every float lexeme is a word of the pattern ---- *)
Lemma sign_m sg : is_sign3 sg -> matches sign_opt sg.
Proof.
  intros [-> | [-> | ->]]; [apply MAltL; apply MEps | |]; apply MAltR; apply MChr; reflexivity.
Qed.

Lemma star_digits_m ds : digits_ok 10 ds -> matches (Star digit) (dec_chars ds).
Proof. intros Ho. apply m_star_set. apply digits_in_set. apply dec_chars_digits. exact Ho. Qed.

Lemma plus_digits_m ds : ds <> [] -> digits_ok 10 ds -> matches (plus digit) (dec_chars ds).
Proof.
  intros Hne Ho. apply m_plus_set; [intros E; apply map_eq_nil in E; contradiction|].
  apply digits_in_set. apply dec_chars_digits. exact Ho.
Qed.

Lemma expo_m ec es Xd : exp_ok (Some (ec, es, Xd)) -> matches expo (exp_chars (Some (ec, es, Xd))).
Proof.
  intros (Hec & Hes & Hne & Ho). cbn [exp_chars]. change (ec :: es ++ dec_chars Xd) with ([ec] ++ es ++ dec_chars Xd).
  unfold expo. cbn [cats]. apply MCat; [apply MChr; destruct Hec as [-> | ->]; reflexivity|].
  apply MCat; [apply sign_m; exact Hes | apply plus_digits_m; assumption].
Qed.

Lemma opt_expo_m ex : exp_ok ex -> matches (opt expo) (exp_chars ex).
Proof.
  destruct ex as [[[ec es] Xd]|]; intros H; [apply MAltR; apply expo_m; exact H | apply MAltL; apply MEps].
Qed.

Theorem lexeme_p_float sg I hasdot F ex : float_lexeme sg I hasdot F ex -> matches p_float (lexeme_of sg I hasdot F ex).
Proof.
  intros (Hsg & HoI & HoF & Hex & Hshape). unfold p_float, lexeme_of. cbn [cats]. destruct hasdot.
  - apply MAltL. apply MCat; [apply sign_m; exact Hsg|]. apply MCat; [apply star_digits_m; exact HoI|].
    change ((46 :: dec_chars F) ++ exp_chars ex) with ([46] ++ dec_chars F ++ exp_chars ex).
    apply MCat; [apply m_chr1; lia|]. apply MCat; [apply star_digits_m; exact HoF | apply opt_expo_m; exact Hex].
  - destruct Hshape as [Q | (HneI & -> & Hne)]; [discriminate Q|].
    destruct ex as [[[ec es] Xd]|]; [|congruence].
    apply MAltR. apply MCat; [apply sign_m; exact Hsg|]. apply MCat; [apply plus_digits_m; assumption|].
    apply MCat; [apply MAltL; apply MEps | apply expo_m; exact Hex].
Qed.

Theorem p_float_iff w : matches p_float w <->
  exists sg I hasdot F ex, float_lexeme sg I hasdot F ex /\ w = lexeme_of sg I hasdot F ex.
Proof.
  split; [apply p_float_lexeme|]. intros (sg & I & hasdot & F & ex & Hl & ->). apply lexeme_p_float. exact Hl.
Qed.

(* ------------------------------------------------------------------------------------------ *)
(* C08 for floats, on the words of the pattern                                                 *)
(* ------------------------------------------------------------------------------------------ *)

(* every word of the float pattern has a decomposition (sign, digits before and after the point, exponent) that spells it;
   when the decimal it denotes is in the window of FloatLexeme.in_window, the token is +0.0 (no digit), a signed zero (all
   digits zero), the correctly rounded double, or the literal is rejected and the decimal is at least DBL_MAX + half an ulp *)
Theorem C08_float_pattern_token w : matches p_float w ->
  exists sg I hasdot F ex,
    w = lexeme_of sg I hasdot F ex /\ float_lexeme sg I hasdot F ex /\
    (in_window I F ex ->
     let D := I ++ F in
     let E := exp_val ex - lenZ F in
     let R := val_be 10 D * p10 E * T in
     (D = [] -> numeric_token strtod_bits AFloat w = Some (TkFloat 0)) /\
     (D <> [] -> val_be 10 D = 0 -> numeric_token strtod_bits AFloat w = Some (TkFloat (sgn_bits (neg3 sg)))) /\
     (D <> [] -> 10 ^ 400 <= 16 * R ->
        (numeric_token strtod_bits AFloat w = None /\ strtod_bits w = sgn_bits (neg3 sg) + b64_inf_bits /\
         (2 ^ 54 - 1) * 2 ^ 970 * T * 10 ^ 400 <= R) \/
        (exists b, numeric_token strtod_bits AFloat w = Some (TkFloat b) /\ b = strtod_bits w /\
                   b64_is_finite b = true /\ sign_text b = sgn_text (neg3 sg) /\ rounded_to b R /\
                   forall m k, 0 <= m < two53 -> 0 <= k ->
                     Z.abs (Vof b * 10 ^ 400 - R) <= Z.abs (m * 2 ^ k * 10 ^ 400 - R)))).
Proof.
  intros H. destruct (p_float_lexeme w H) as (sg & I & hasdot & F & ex & Hl & ->).
  exists sg, I, hasdot, F, ex. split; [reflexivity|]. split; [exact Hl|]. intros Hw.
  exact (C08_float_lexeme_token sg I hasdot F ex Hl Hw).
Qed.

(* ------------------------------------------------------------------------------------------ *)
(* instances                                                                                   *)
(* ------------------------------------------------------------------------------------------ *)

Lemma matches_eval r w : nullable (derivs w r) = true <-> matches r w.
Proof. rewrite nullable_correct, derivs_correct, app_nil_r. reflexivity. Qed.

Definition w1 : bytes := [46; 53; 101; 45; 51].                 (* .5e-3 *)
Definition w2 : bytes := [45; 49; 50; 46; 69; 43; 55].          (* -12.E+7 *)

(* membership by evaluation of the derivatives, the decomposition, and the token *)
Example pattern_examples :
  matches p_float w1 /\ w1 = lexeme_of [] [] true [5] (Some (101, [45], [3])) /\
  numeric_token strtod_bits AFloat w1 = Some (TkFloat 4557750909289998844) /\
  matches p_float w2 /\ w2 = lexeme_of [45] [1; 2] true [] (Some (69, [43], [7])) /\
  numeric_token strtod_bits AFloat w2 = Some (TkFloat 13951197510019055616) /\
  ~ matches p_float [49; 50] /\                                  (* 12 is an integer, not a float *)
  ~ matches p_float [49; 101] /\                                 (* 1e: the exponent needs a digit *)
  matches p_float [46] /\ matches p_float [45; 46; 101; 53].     (* . and -.e5 are words of the pattern *)
Proof.
  repeat match goal with |- _ /\ _ => split end;
    try (apply matches_eval; vm_compute; reflexivity);
    try (vm_compute; reflexivity);
    try (intros M; apply matches_eval in M; vm_compute in M; discriminate M).
Qed.

(* by the theorems: -12.E+7 is a float lexeme in the window, so its token holds the correctly rounded double, negative *)
Example pattern_by_theorem :
  exists b, numeric_token strtod_bits AFloat w2 = Some (TkFloat b) /\ b64_is_finite b = true /\ sign_text b = [45] /\
            rounded_to b (val_be 10 [1; 2] * p10 7 * T).
Proof.
  assert (Hl : float_lexeme [45] [1; 2] true [] (Some (69, [43], [7]))).
  { unfold float_lexeme, is_sign3, exp_ok. repeat split; auto; try discriminate; try (repeat constructor; lia). }
  assert (Hw : in_window [1; 2] [] (Some (69, [43], [7]))).
  { unfold in_window. split; [apply Nat.leb_le; vm_compute; reflexivity|]. vm_compute. repeat split; intros Q; discriminate Q. }
  pose proof (lexeme_p_float _ _ _ _ _ Hl) as Hm.
  destruct (C08_float_lexeme_token [45] [1; 2] true [] (Some (69, [43], [7])) Hl Hw) as (_ & _ & H3).
  cbv zeta in H3. specialize (H3 ltac:(discriminate)).
  assert (Hbig : 10 ^ 400 <= 16 * (val_be 10 ([1; 2] ++ []) * p10 (exp_val (Some (69, [43], [7])) - lenZ (@nil Z)) * T)).
  { rewrite T_eq. vm_compute. intros Q; discriminate Q. }
  destruct (H3 Hbig) as [(Hnone & _) | (b & Htok & _ & Hfin & Hs & Hr & _)].
  - exfalso. vm_compute in Hnone. discriminate Hnone.
  - exists b. split; [exact Htok|]. split; [exact Hfin|]. split; [exact Hs | exact Hr].
Qed.

Print Assumptions p_float_lexeme.
Print Assumptions lexeme_p_float.
Print Assumptions p_float_iff.
Print Assumptions C08_float_pattern_token.
