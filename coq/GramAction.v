(* GramAction.v — the closed datatype of semantic actions of grammar.y, as classified by tools/gen_grammar.py from the
   text of each `case N:` of yyparse's switch in the compiled grammar.c.  Definitions only. *)
From Coq Require Import ZArith String.

Inductive gscalar := GBool | GInt | GInt64 | GHex | GHex64 | GFloat | GString.

Inductive gaction :=
| GName                      (* setting: TOK_NAME { config_setting_add(parent, $1, NONE) or "duplicate setting name" } *)
| GOpen (type_code : Z)      (* '[' '(' '{' mid-rule action: new aggregate (element of a list) or retype ctx->setting *)
| GClose                     (* after ']' ')' '}': ctx->parent = ctx->parent->parent *)
| GStrAppend                 (* string: TOK_STRING / string TOK_STRING: append to the parse context's string buffer *)
| GScalar (k : gscalar)      (* simple_value: element of an array/list (-1 = append) or value of ctx->setting *)
| GUnknown (text : string).  (* not recognised: every theorem about the tables fails to compute *)
