(* Properties_C18.v — C18: tokenisation follows the documented token definitions for every byte string.
   Theorems only (proofs: Bisim.v generic soundness, RegexFacts.v, ScannerCert.v certificates re-checked by
   vm_compute against the tables that tools/gen_tables.py extracts from /repo/lib/scanner.c on every run,
   ScannerFacts.v).

   flex_match the_tables sc bol bs is the (rule, length) the generated matching loop selects on input bs in
   start condition sc, at (bol) or away from the beginning of a line; spec_rules sc bol are the documented
   patterns live there, in priority order (ScannerSpec.v); longest_match is defined by derivatives and
   characterised declaratively below.

   History: the scanner.c of the original tree had been generated from an older rule set (no \a \b \v,
   BEL/BS/VT reported as garbage) and a lone backslash in an include path reached flex's default rule;
   both repaired (known_findings.json F18, F5), after which all ten certificates check. *)
From Coq Require Import List ZArith NArith Bool.
Import ListNotations.
From LC Require Import Base Regex RegexFacts FlexEngine Bisim ScanAction ScannerSpec ScannerCert ScannerFacts
  Tree Lookup Tokens Lexer Reader LexTotal LineFacts NameFacts.
From LC.gen Require Import ScannerTables.
Local Open Scope Z_scope.

(* at every position of every input (bs is the rest of the input at that position) over the full
   256-byte alphabet, in each of the five start conditions, the compiled automaton selects exactly the
   longest lexeme among the documented patterns and the earliest rule on ties *)
Theorem C18_scanner_is_spec : forall sc bol bs,
  In (sc, bol) all_conditions -> bytes_ok bs ->
  flex_match the_tables sc bol bs = longest_match (spec_rules sc bol) bs.
Proof. exact scanner_is_spec. Qed.
Print Assumptions C18_scanner_is_spec.

(* what longest_match means, without derivatives: the selected length n is the largest prefix length any
   rule matches, and the selected rule is the first one (in priority order) matching that prefix *)
Theorem C18_longest_match_meaning : forall rs bs,
  match longest_match rs bs with
  | Some (i, n) => (n <= length bs)%nat /\ first_match rs (firstn n bs) i /\
                   forall m, (n < m <= length bs)%nat -> no_match rs (firstn m bs)
  | None => forall m, (m <= length bs)%nat -> no_match rs (firstn m bs)
  end.
Proof. exact longest_match_spec. Qed.
Print Assumptions C18_longest_match_meaning.

(* the action attached to each rule of the compiled scanner is the documented one: booleans before
   names, floats before integers (rule order), each escape appends the documented byte, `.` is the only
   pattern for other bytes and its action is TOK_GARBAGE (an error token: nothing is skipped), and the
   49th action is flex's default rule, which no input reaches (C03_no_stray_output) *)
Theorem C18_actions : yy_actions = spec_actions ++ [(48, AEcho)].
Proof. exact actions_as_documented. Qed.
Print Assumptions C18_actions.

(* the tables the theorems are about are the tables the reader model runs *)
Theorem C18_same_tables : ScannerCert.the_tables = Reader.the_tables.
Proof. reflexivity. Qed.

(* include directives only at the start of a line *)
Theorem C18_include_only_at_bol :
  In 22 (map fst (spec_rules 0 true)) /\ ~ In 22 (map fst (spec_rules 0 false)).
Proof. split; [vm_compute; tauto | vm_compute; intuition discriminate]. Qed.

(* ---- examples (ties and priorities), evaluated on the compiled tables ---- *)
Example C18_examples :
  flex_match the_tables 0 false [116; 114; 117; 101; 59] = Some (34, 4%nat) /\           (* true;   boolean *)
  flex_match the_tables 0 false [116; 114; 117; 101; 120; 59] = Some (36, 5%nat) /\      (* truex;  name *)
  flex_match the_tables 0 false [49; 46; 59] = Some (37, 2%nat) /\                       (* 1.;     float *)
  flex_match the_tables 0 false [49; 50; 76; 76; 59] = Some (39, 4%nat) /\               (* 12LL;   64-bit *)
  flex_match the_tables 0 false [48; 120; 49; 70; 76] = Some (41, 5%nat) /\              (* 0x1FL   hex64 *)
  flex_match the_tables 0 false [7; 59] = Some (28, 1%nat) /\                            (* BEL is skipped *)
  flex_match the_tables 0 false [36] = Some (47, 1%nat) /\                               (* $ is garbage *)
  flex_match the_tables 3 false [92; 118; 34] = Some (15, 2%nat) /\                      (* \v escape *)
  flex_match the_tables 0 false [64; 105; 110; 99; 108; 117; 100; 101; 32; 34] = Some (47, 1%nat) /\
  flex_match the_tables 0 true [64; 105; 110; 99; 108; 117; 100; 101; 32; 34] = Some (22, 10%nat).
Proof. vm_compute. repeat split. Qed.

(* ---- lines ---- *)
(* flex counts line feeds only for the rules it flags (yy_rule_can_match_eol, re-read from scanner.c on every run);
   no unflagged documented pattern can match a line feed, so the count is exact after every matcher step *)
Theorem C18_line_exact : forall sc bol b r rule len,
  In (sc, bol) all_conditions -> bytes_ok (b :: r) ->
  flex_match ScannerCert.the_tables sc bol (b :: r) = Some (rule, len) ->
  forall line, (if nthZ yy_rule_can_match_eol rule =? 0 then line else line + count_nl (firstn len (b :: r)))
               = line + count_nl (firstn len (b :: r)).
Proof. exact line_exact. Qed.
Print Assumptions C18_line_exact.

(* one step of the scanner model: the buffer advances by the lexeme, its line by the lexeme's line feeds, and a
   token returned by the step carries the line reached *)
Theorem C18_step_line : forall atof FS incdir incf max_depth st b,
  cond_ok st -> b_rest b <> [] -> bytes_ok (b_rest b) ->
  match lex_step ScannerCert.the_tables yy_rule_can_match_eol yy_actions atof FS incdir incf max_depth st b with
  | SCont _ b' | SIncl _ _ _ b' => advanced b b'
  | STok tk _ b' => advanced b b' /\ lt_line tk = b_line b'
  | SStop _ _ _ _ => True
  end.
Proof. exact lex_step_line. Qed.
Print Assumptions C18_step_line.

(* ---- names ---- *)
(* the documented name pattern and __config_validate_name describe the same strings ... *)
Theorem C18_name_pattern_valid : forall w, matches p_name w -> bytes_ok w -> validate_name w = true.
Proof. exact name_pattern_valid. Qed.
Print Assumptions C18_name_pattern_valid.

(* ... so every name token of every stream config_read hands to the parser is a valid setting name *)
Theorem C18_names_valid : forall atof FS,
  (forall f content, fs_lookup FS f = Some (FFile content) -> bytes_ok content) ->
  forall c top text, bytes_ok text ->
  Forall (fun tk => forall nm, lt_tok tk = TkName nm -> validate_name nm = true) (fst (lex_top atof FS c top text)).
Proof. exact scanner_names_valid. Qed.
Print Assumptions C18_names_valid.
