(* BaseFacts.v — facts about the digit-string functions of Base.v (printf %d / %X versus strtol). *)
From Coq Require Import List ZArith Bool Lia.
Import ListNotations.
From LC Require Import Base.
Local Open Scope Z_scope.

Definition digits_ok (base : Z) (ds : list Z) : Prop := Forall (fun d => 0 <= d < base) ds.

Lemma dbl_le_spec base : 2 <= base -> forall ds c,
  (c = 0 \/ c = 1) -> digits_ok base ds ->
  val_le base (dbl_le base c ds) = 2 * val_le base ds + c /\ digits_ok base (dbl_le base c ds).
Proof.
  intros Hb. induction ds as [|d r IH]; intros c Hc Hd.
  - unfold digits_ok, val_le. destruct Hc as [-> | ->]; cbn [dbl_le Z.eqb fold_right]; split; try lia.
    + constructor.
    + constructor; [lia | constructor].
  - inversion Hd as [|? ? Hd1 Hd2]; subst. cbn [dbl_le].
    destruct (2 * d + c <? base) eqn:E.
    + apply Z.ltb_lt in E. destruct (IH 0 (or_introl eq_refl) Hd2) as [Hv Ho].
      split; [cbn [val_le fold_right] in *; unfold val_le in Hv; rewrite Hv; lia|].
      constructor; [lia | exact Ho].
    + apply Z.ltb_ge in E. destruct (IH 1 (or_intror eq_refl) Hd2) as [Hv Ho].
      split; [cbn [val_le fold_right] in *; unfold val_le in Hv; rewrite Hv; lia|].
      constructor; [lia | exact Ho].
Qed.

Lemma pos_digits_le_spec base : 2 <= base -> forall p,
  val_le base (pos_digits_le base p) = Zpos p /\ digits_ok base (pos_digits_le base p).
Proof.
  intros Hb. induction p as [q IH|q IH|]; cbn [pos_digits_le].
  - destruct IH as [Hv Ho]. destruct (dbl_le_spec base Hb _ 1 (or_intror eq_refl) Ho) as [Hv' Ho'].
    split; [rewrite Hv', Hv, Pos2Z.inj_xI; lia | exact Ho'].
  - destruct IH as [Hv Ho]. destruct (dbl_le_spec base Hb _ 0 (or_introl eq_refl) Ho) as [Hv' Ho'].
    split; [rewrite Hv', Hv, Pos2Z.inj_xO; lia | exact Ho'].
  - split; [unfold val_le; cbn [fold_right]; lia | constructor; [lia | constructor]].
Qed.

Lemma dbl_le_nonempty base c ds : ds <> [] -> dbl_le base c ds <> [].
Proof. destruct ds; [congruence|]. cbn [dbl_le]. destruct (_ <? _); discriminate. Qed.

Lemma pos_digits_le_nonempty base p : pos_digits_le base p <> [].
Proof. induction p; cbn [pos_digits_le]; try apply dbl_le_nonempty; try assumption; discriminate. Qed.

(* value of a big-endian digit list *)
Definition val_be (base : Z) (ds : list Z) : Z := fold_left (fun acc d => acc * base + d) ds 0.

Lemma val_be_rev base ds : val_be base (rev ds) = val_le base ds.
Proof.
  unfold val_be, val_le. rewrite <- fold_left_rev_right, rev_involutive.
  induction ds as [|d r IH]; simpl; [reflexivity|]. rewrite IH. lia.
Qed.

Lemma nat_digits_spec base n : 2 <= base -> 0 <= n ->
  val_be base (nat_digits base n) = n /\ digits_ok base (nat_digits base n) /\ nat_digits base n <> [].
Proof.
  intros Hb Hn. destruct n as [|p|p]; try lia.
  - simpl. split; [reflexivity|]. split; [repeat constructor; lia | discriminate].
  - unfold nat_digits. destruct (pos_digits_le_spec base Hb p) as [Hv Ho].
    split; [rewrite val_be_rev; exact Hv|]. split.
    + unfold digits_ok. apply Forall_rev. exact Ho.
    + intros E. apply (pos_digits_le_nonempty base p). apply (f_equal (@rev Z)) in E.
      rewrite rev_involutive in E. exact E.
Qed.

(* digits_val on a string of digit characters *)
Lemma digits_val_map base (ch : Z -> Z) ds :
  (forall d, In d ds -> digit_val (ch d) = d) ->
  digits_val base (map ch ds) = val_be base ds.
Proof.
  unfold digits_val, val_be. generalize 0 as acc.
  induction ds as [|d r IH]; intros acc H; simpl; [reflexivity|].
  rewrite (H d) by (left; reflexivity). apply IH. intros x Hx. apply H. right; exact Hx.
Qed.

Lemma dec_char_digit d : 0 <= d < 10 -> is_digit (dec_char d) = true /\ digit_val (dec_char d) = d.
Proof.
  intros H. unfold dec_char, digit_val, is_digit.
  assert ((48 <=? 48 + d) && (48 + d <=? 57) = true) as -> by (apply andb_true_iff; split; apply Z.leb_le; lia).
  split; [reflexivity | lia].
Qed.

Lemma hex_char_upper_digit d :
  0 <= d < 16 -> is_xdigit (hex_char_upper d) = true /\ digit_val (hex_char_upper d) = d.
Proof.
  intros H. unfold hex_char_upper. destruct (d <? 10) eqn:E.
  - apply Z.ltb_lt in E. destruct (dec_char_digit d ltac:(lia)) as [H1 H2]. unfold dec_char in *.
    split; [unfold is_xdigit; rewrite H1; reflexivity | exact H2].
  - apply Z.ltb_ge in E. unfold is_xdigit, is_digit, digit_val, is_digit.
    assert ((48 <=? 55 + d) && (55 + d <=? 57) = false) as -> by (apply andb_false_iff; right; apply Z.leb_gt; lia).
    assert ((65 <=? 55 + d) && (55 + d <=? 70) = true) as -> by (apply andb_true_iff; split; apply Z.leb_le; lia).
    assert ((65 <=? 55 + d) && (55 + d <=? 90) = true) as -> by (apply andb_true_iff; split; apply Z.leb_le; lia).
    split; [reflexivity | lia].
Qed.

(* printf("%d") of a non-negative number reads back, is made of digits only and is not empty *)
Theorem show_dec_nonneg n : 0 <= n ->
  digits_val 10 (show_dec n) = n /\ forallb is_digit (show_dec n) = true /\ show_dec n <> [].
Proof.
  intros Hn. destruct (nat_digits_spec 10 n ltac:(lia) Hn) as (Hv & Ho & Hne).
  assert (show_dec n = map dec_char (nat_digits 10 n)) as -> by (destruct n; try reflexivity; lia).
  split; [|split].
  - rewrite digits_val_map; [exact Hv|]. intros d Hd. unfold digits_ok in Ho. rewrite Forall_forall in Ho.
    apply dec_char_digit. apply Ho. exact Hd.
  - apply forallb_forall. intros c Hc. apply in_map_iff in Hc as (d & <- & Hd).
    unfold digits_ok in Ho. rewrite Forall_forall in Ho. apply dec_char_digit. apply Ho. exact Hd.
  - intros E. apply map_eq_nil in E. contradiction.
Qed.

Theorem show_hex_upper_spec n : 0 <= n ->
  digits_val 16 (show_hex_upper n) = n /\ forallb is_xdigit (show_hex_upper n) = true /\ show_hex_upper n <> [].
Proof.
  intros Hn. destruct (nat_digits_spec 16 n ltac:(lia) Hn) as (Hv & Ho & Hne). unfold show_hex_upper.
  split; [|split].
  - rewrite digits_val_map; [exact Hv|]. intros d Hd. unfold digits_ok in Ho. rewrite Forall_forall in Ho.
    apply hex_char_upper_digit. apply Ho. exact Hd.
  - apply forallb_forall. intros c Hc. apply in_map_iff in Hc as (d & <- & Hd).
    unfold digits_ok in Ho. rewrite Forall_forall in Ho. apply hex_char_upper_digit. apply Ho. exact Hd.
  - intros E. apply map_eq_nil in E. contradiction.
Qed.

(* span *)
Lemma span_app_stop {A} (p : A -> bool) l x r :
  forallb p l = true -> p x = false -> span p (l ++ x :: r) = (l, x :: r).
Proof.
  intros Hl Hx. induction l as [|a l IH]; simpl.
  - rewrite Hx. reflexivity.
  - simpl in Hl. apply andb_true_iff in Hl as [Ha Hl]. rewrite Ha, (IH Hl). reflexivity.
Qed.

Lemma span_all_nil {A} (p : A -> bool) l : forallb p l = true -> span p l = (l, []).
Proof.
  intros Hl. induction l as [|a l IH]; simpl; [reflexivity|].
  simpl in Hl. apply andb_true_iff in Hl as [Ha Hl]. rewrite Ha, (IH Hl). reflexivity.
Qed.

Lemma digits_val_nonneg base s : 0 <= base -> (forall c, In c s -> 0 <= digit_val c) -> 0 <= digits_val base s.
Proof.
  intros Hb. unfold digits_val. assert (G : forall acc, 0 <= acc -> (forall c, In c s -> 0 <= digit_val c) ->
    0 <= fold_left (fun acc c => acc * base + digit_val c) s acc).
  { induction s as [|c r IH]; intros acc Ha H; simpl; [exact Ha|].
    apply IH; [|intros x Hx; apply H; right; exact Hx].
    assert (0 <= digit_val c) by (apply H; left; reflexivity). nia. }
  intros H. apply G; [lia | exact H].
Qed.
