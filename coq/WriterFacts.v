(* WriterFacts.v — the serializer as a sequence of pieces: which characters of config_write's output are
   layout, which spell an option-governed token, and which are the configuration (lemmas behind
   Properties_C19 and Properties_C01). *)
From Coq Require Import List ZArith Bool Lia.
Import ListNotations.
From LC Require Import Base Tree Api Writer TreeFacts.
Local Open Scope Z_scope.

Inductive piece :=
| PIndent (d : Z)                   (* the indentation written by __config_indent at depth d *)
| PNl | PSp                         (* '\n' and ' ' written as layout *)
| PName (n : bytes)
| PAssign (grp : bool)              (* '=' or ':' after the name of a group / non-group *)
| POpen (k : payload) | PClose (k : payload)
| PComma | PSemi
| PScalar (pl : payload) (own_fmt : Z).

Section Pieces.
  Variable fmt_double : Z -> Z -> bool -> bytes.
  Variable c : cfg.

  Definition render (p : piece) : bytes :=
    match p with
    | PIndent d => indent c d
    | PNl => [10]
    | PSp => [32]
    | PName n => n
    | PAssign g => [assign_char c g]
    | POpen PList => [40] | PClose PList => [41]
    | POpen PArray => [91] | PClose PArray => [93]
    | POpen _ => [123] | PClose _ => [125]
    | PComma => [44]
    | PSemi => [59]
    | PScalar pl f => write_scalar fmt_double c pl (if f =? 0 then c_deffmt c else f)
    end.

  Definition semi_pieces : list piece := if get_option c OPT_SEMICOLON then [PSemi] else [].

  (* mirrors Writer.write_value *)
  Fixpoint pieces (s : setting) (depth : Z) {struct s} : list piece :=
    let 'Setting _ pl kids f _ _ _ := s in
    match pl with
    | PList | PArray =>
        [POpen pl; PSp] ++
        (fix elems (l : list setting) : list piece :=
           match l with
           | [] => []
           | [e] => pieces e (depth + 1) ++ [PSp]
           | e :: r => pieces e (depth + 1) ++ [PComma; PSp] ++ elems r
           end) kids ++ [PClose pl]
    | PGroup =>
        (if 0 <? depth then
           (if get_option c OPT_BRACE_NEWLINE
            then [PNl] ++ (if 1 <? depth then [PIndent depth] else []) else [])
           ++ [POpen PGroup; PNl]
         else []) ++
        (fix members (l : list setting) : list piece :=
           match l with
           | [] => []
           | m :: r =>
               let d := depth + 1 in
               (if 1 <? d then [PIndent d] else []) ++
               (match s_name m with
                | Some n => [PName n; PSp; PAssign (ty_eqb (s_ty m) TGroup); PSp]
                | None => []
                end) ++
               pieces m d ++
               (if 0 <? d then semi_pieces ++ [PNl] else []) ++
               members r
           end) kids ++
        (if 1 <? depth then [PIndent depth] else []) ++
        (if 0 <? depth then [PClose PGroup] else [])
    | _ => [PScalar pl f]
    end.

  Definition render_all (l : list piece) : bytes := flat_map render l.

  Lemma render_all_app a b : render_all (a ++ b) = render_all a ++ render_all b.
  Proof. apply flat_map_app. Qed.

  Lemma render_semis : render_all semi_pieces = semis c.
  Proof. unfold semi_pieces, semis. destruct (get_option c OPT_SEMICOLON); reflexivity. Qed.

  (* the writer's output is the rendering of the pieces, piece by piece *)
  Ltac rsolve := cbn [render_all flat_map render app]; rewrite ?app_nil_r; reflexivity.

  Theorem write_value_pieces : forall s depth,
    write_value fmt_double c s depth = render_all (pieces s depth).
  Proof.
    induction s as [n pl kids f h l fi IH] using setting_ind'. intros depth.
    destruct pl; try (cbn [write_value pieces render_all flat_map render]; rewrite app_nil_r;
                      unfold eff_fmt, n_get_format; cbn [s_fmt]; reflexivity).
    - (* group *)
      cbn [write_value pieces]. rewrite !render_all_app.
      f_equal.
      { destruct (0 <? depth); [|reflexivity]. rewrite render_all_app. f_equal.
        destruct (get_option c OPT_BRACE_NEWLINE); [|reflexivity].
        destruct (1 <? depth); rsolve. }
      f_equal.
      2: { destruct (1 <? depth), (0 <? depth); rsolve. }
      induction IH as [|m r Hm Hr IHr]; [reflexivity|].
      rewrite !render_all_app. f_equal; [destruct (1 <? depth + 1); rsolve|].
      f_equal; [destruct (s_name m); rsolve|].
      rewrite Hm. f_equal.
      destruct (0 <? depth + 1).
      + rewrite !render_all_app, render_semis. change (render_all [PNl]) with [10]. f_equal. exact IHr.
      + cbn [app]. exact IHr.
    - (* array *)
      cbn [write_value pieces]. rewrite !render_all_app. cbn [render_all flat_map render app].
      f_equal. f_equal. f_equal.
      induction IH as [|e r He Hr IHr]; [reflexivity|].
      destruct r as [|e2 r2].
      + rewrite render_all_app, He. reflexivity.
      + rewrite !render_all_app, He. cbn [render_all flat_map render app]. f_equal. f_equal. f_equal. exact IHr.
    - (* list *)
      cbn [write_value pieces]. rewrite !render_all_app. cbn [render_all flat_map render app].
      f_equal. f_equal. f_equal.
      induction IH as [|e r He Hr IHr]; [reflexivity|].
      destruct r as [|e2 r2].
      + rewrite render_all_app, He. reflexivity.
      + rewrite !render_all_app, He. cbn [render_all flat_map render app]. f_equal. f_equal. f_equal. exact IHr.
  Qed.
End Pieces.

(* ---- what does not depend on any option: the semantic tokens ---- *)
Inductive sem :=
| SName (n : bytes) | SAssign | SOpen (k : payload) | SClose (k : payload) | SComma
| SScalar (pl : payload) (own_fmt : Z).

Definition erase1 (p : piece) : list sem :=
  match p with
  | PName n => [SName n] | PAssign _ => [SAssign] | POpen k => [SOpen k] | PClose k => [SClose k]
  | PComma => [SComma] | PScalar pl f => [SScalar pl f]
  | PIndent _ | PNl | PSp | PSemi => []
  end.
Definition erase (l : list piece) : list sem := flat_map erase1 l.

Lemma erase_app a b : erase (a ++ b) = erase a ++ erase b.
Proof. apply flat_map_app. Qed.

(* the option-free description of a configuration's token content *)
Fixpoint sems (s : setting) : list sem :=
  let 'Setting _ pl kids f _ _ _ := s in
  match pl with
  | PList | PArray =>
      [SOpen pl] ++
      (fix elems (l : list setting) : list sem :=
         match l with
         | [] => []
         | [e] => sems e
         | e :: r => sems e ++ [SComma] ++ elems r
         end) kids ++ [SClose pl]
  | PGroup =>
      [SOpen PGroup] ++
      (fix members (l : list setting) : list sem :=
         match l with
         | [] => []
         | m :: r => (match s_name m with Some n => [SName n; SAssign] | None => [] end) ++ sems m ++ members r
         end) kids ++ [SClose PGroup]
  | _ => [SScalar pl f]
  end.

(* at depth 0 (the root) the braces are not written *)
Definition strip_braces (l : list sem) : list sem :=
  match l with SOpen PGroup :: r => removelast r | _ => l end.

Lemma erase_semi_nl c : erase (semi_pieces c ++ [PNl]) = [].
Proof. unfold semi_pieces. destruct (get_option c OPT_SEMICOLON); reflexivity. Qed.

Theorem pieces_sems c : forall s depth, 0 < depth -> erase (pieces c s depth) = sems s.
Proof.
  induction s as [n pl kids f h l fi IH] using setting_ind'. intros depth Hd.
  destruct pl; try reflexivity.
  - (* group *)
    cbn [pieces sems]. rewrite !erase_app.
    replace (0 <? depth) with true by (symmetry; apply Z.ltb_lt; exact Hd).
    assert (E1 : erase ((if get_option c OPT_BRACE_NEWLINE then [PNl] ++ (if 1 <? depth then [PIndent depth] else []) else [])
                        ++ [POpen PGroup; PNl]) = [SOpen PGroup]).
    { rewrite erase_app. destruct (get_option c OPT_BRACE_NEWLINE); [|reflexivity]. destruct (1 <? depth); reflexivity. }
    rewrite E1. f_equal.
    assert (E2 : erase (if 1 <? depth then [PIndent depth] else []) = []) by (destruct (1 <? depth); reflexivity).
    rewrite E2. cbn [app erase flat_map erase1]. f_equal.
    replace (0 <? depth + 1) with true by (symmetry; apply Z.ltb_lt; lia).
    induction IH as [|m r Hm Hr IHr]; [reflexivity|].
    rewrite !erase_app.
    assert (E3 : erase (if 1 <? depth + 1 then [PIndent (depth + 1)] else []) = []) by (destruct (1 <? depth + 1); reflexivity).
    rewrite E3. cbn [app]. f_equal; [destruct (s_name m); reflexivity|].
    rewrite (Hm (depth + 1)) by lia. f_equal.
    rewrite <- erase_app, erase_semi_nl. exact IHr.
  - (* array *)
    cbn [pieces sems]. rewrite !erase_app. cbn [erase flat_map erase1 app]. f_equal. f_equal.
    induction IH as [|e r He Hr IHr]; [reflexivity|].
    destruct r as [|e2 r2].
    + rewrite erase_app, (He (depth + 1)) by lia. cbn [erase flat_map erase1]. apply app_nil_r.
    + rewrite !erase_app, (He (depth + 1)) by lia. cbn [erase flat_map erase1 app]. f_equal. f_equal. exact IHr.
  - (* list *)
    cbn [pieces sems]. rewrite !erase_app. cbn [erase flat_map erase1 app]. f_equal. f_equal.
    induction IH as [|e r He Hr IHr]; [reflexivity|].
    destruct r as [|e2 r2].
    + rewrite erase_app, (He (depth + 1)) by lia. cbn [erase flat_map erase1]. apply app_nil_r.
    + rewrite !erase_app, (He (depth + 1)) by lia. cbn [erase flat_map erase1 app]. f_equal. f_equal. exact IHr.
Qed.

(* ---- the root (depth 0): no braces ---- *)
Definition member_sems (m : setting) : list sem :=
  (match s_name m with Some n => [SName n; SAssign] | None => [] end) ++ sems m.

Theorem pieces_sems_root c n kids f h l fi :
  erase (pieces c (Setting n PGroup kids f h l fi) 0) = flat_map member_sems kids.
Proof.
  cbn [pieces]. change (0 <? 0) with false. change (1 <? 0) with false.
  change (1 <? 0 + 1) with false. change (0 <? 0 + 1) with true.
  cbn [app]. rewrite !app_nil_r.
  induction kids as [|m r IH]; [reflexivity|].
  rewrite !erase_app. cbn [flat_map]. unfold member_sems at 1.
  rewrite <- (app_assoc _ (sems m)). f_equal; [destruct (s_name m); reflexivity|].
  rewrite (pieces_sems c m (0 + 1)) by lia. f_equal.
  rewrite <- erase_app, erase_semi_nl. exact IH.
Qed.

(* ---- every member is a line of its own, starting with the indentation of its depth ---- *)
Definition member_line (c : cfg) (m : setting) (d : Z) : list piece :=
  (if 1 <? d then [PIndent d] else []) ++
  (match s_name m with
   | Some n => [PName n; PSp; PAssign (ty_eqb (s_ty m) TGroup); PSp]
   | None => []
   end) ++
  pieces c m d ++ (if 0 <? d then semi_pieces c ++ [PNl] else []).

Theorem group_is_lines c n kids f h l fi depth :
  pieces c (Setting n PGroup kids f h l fi) depth =
  (if 0 <? depth then
     (if get_option c OPT_BRACE_NEWLINE then [PNl] ++ (if 1 <? depth then [PIndent depth] else []) else [])
     ++ [POpen PGroup; PNl]
   else []) ++
  flat_map (fun m => member_line c m (depth + 1)) kids ++
  (if 1 <? depth then [PIndent depth] else []) ++ (if 0 <? depth then [PClose PGroup] else []).
Proof.
  cbn [pieces]. f_equal. f_equal.
  induction kids as [|m r IH]; [reflexivity|].
  cbn [flat_map]. unfold member_line at 1. rewrite <- !app_assoc. f_equal. f_equal. f_equal. f_equal. exact IH.
Qed.

(* __config_indent: (depth-1) * tab_width spaces, or depth-1 tabs when the width is 0 *)
Theorem indent_spec c d :
  1 < d ->
  indent c d = if c_tab c =? 0 then replicate (Z.to_nat (d - 1)) 9
               else if 1 <=? c_tab c then replicate (Z.to_nat ((d - 1) * c_tab c)) 32
               else [32].
Proof.
  intros Hd. unfold indent. destruct (c_tab c =? 0) eqn:E0; [reflexivity|].
  destruct (1 <=? c_tab c) eqn:E1.
  - apply Z.leb_le in E1. destruct ((d - 1) * c_tab c <=? 1) eqn:E2; [|reflexivity].
    apply Z.leb_le in E2. assert ((d - 1) * c_tab c = 1) by nia. rewrite H. reflexivity.
  - apply Z.leb_gt in E1. apply Z.eqb_neq in E0.
    replace ((d - 1) * c_tab c <=? 1) with true by (symmetry; apply Z.leb_le; nia). reflexivity.
Qed.
