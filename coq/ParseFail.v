(* ParseFail.v — the semantic errors of the parser model (lemmas behind Properties_C02): for a concrete syntax
   tree whose semantic conditions fail, the parser stops with the error of the FIRST offence in reading order -
   "duplicate setting name" at the name that repeats an earlier member of its group (overrides off), or
   "mismatched element type" at the first array element whose scalar type differs from the first element's - and
   the position it reports is the one [err_*] computes: the offending name or scalar token; for a mismatched
   string element, the token that follows the string literal(s) (known finding F4).  With ParseComplete this gives
   the exact acceptance condition. *)
From Coq Require Import List ZArith NArith Bool Lia.
Import ListNotations.
From LC Require Import Base BaseFacts Tree Fp Lookup Api ApiStep ScanAction Tokens Lexer Parser
  TreeFacts ApiFacts GrammarFacts ParseWrite ParseComplete.
Local Open Scope Z_scope.

(* the aggregate whose elements are being read: a list, or an array whose first element (if any) has type T *)
Inductive actx := CtxList | CtxArr (T : option ty).
Definition simple_of (ctx : actx) : bool := match ctx with CtxList => false | CtxArr _ => true end.
Definition first_pos (l : list ptok2) (nx : spos) : spos := match l with x :: _ => snd x | [] => nx end.
Definition orelse {A} (a b : option A) : option A := match a with Some x => Some x | None => b end.
Definition epos (s : pst) : spos := (p_line s, p_file s).

Section Err.
  Variable overrides : bool.

  (* the first semantic error, in reading order, and the position reported with it; [nx]: the position of the
     token that closes the element list *)
  Fixpoint err_v (v : cst) : option (perr * spos) :=
    match v with
    | CScal _ _ | CStr _ _ _ => None
    | CArr _ es pc => err_e (CtxArr None) es pc
    | CLst _ es pc => err_e CtxList es pc
    | CGrp _ ms _ => err_m ms []
    end
  with err_e (ctx : actx) (es : celems) (nx : spos) {struct es} : option (perr * spos) :=
    match es with
    | ENil => None
    | ECons v tl =>
        match ctx with
        | CtxList => orelse (err_v v) (err_t CtxList tl nx)
        | CtxArr None => err_t (CtxArr (Some (cty v))) tl nx
        | CtxArr (Some T) =>
            if ty_eqb T (cty v) then err_t ctx tl nx
            else Some (PErrMismatch, match v with CScal _ p => p | _ => first_pos (toks_t tl) nx end)
        end
    end
  with err_t (ctx : actx) (tl : ctail) (nx : spos) {struct tl} : option (perr * spos) :=
    match tl with
    | TlNil => None
    | TlComma _ tl => err_t ctx tl nx
    | TlCommaV _ v tl =>
        match ctx with
        | CtxList => orelse (err_v v) (err_t CtxList tl nx)
        | CtxArr None => err_t (CtxArr (Some (cty v))) tl nx
        | CtxArr (Some T) =>
            if ty_eqb T (cty v) then err_t ctx tl nx
            else Some (PErrMismatch, match v with CScal _ p => p | _ => first_pos (toks_t tl) nx end)
        end
    end
  with err_m (ms : cmembers) (acc : list ptree) {struct ms} : option (perr * spos) :=
    match ms with
    | MNil => None
    | MCons nm pos _ v _ rest =>
        if negb (validate_name nm) || (negb overrides && ohas nm acc) then Some (PErrDup, pos)
        else orelse (err_v v) (err_m rest (odel nm acc ++ [den_v (Some (nm, pos)) v]))
    end.

  (* the step both element positions share *)
  Definition err_elem (ctx : actx) (v : cst) (tl : ctail) (nx : spos) : option (perr * spos) :=
    match ctx with
    | CtxList => orelse (err_v v) (err_t CtxList tl nx)
    | CtxArr None => err_t (CtxArr (Some (cty v))) tl nx
    | CtxArr (Some T) =>
        if ty_eqb T (cty v) then err_t ctx tl nx
        else Some (PErrMismatch, match v with CScal _ p => p | _ => first_pos (toks_t tl) nx end)
    end.
  Lemma err_e_cons ctx v tl nx : err_e ctx (ECons v tl) nx = err_elem ctx v tl nx.
  Proof. reflexivity. Qed.
  Lemma err_t_commav ctx p v tl nx : err_t ctx (TlCommaV p v tl) nx = err_elem ctx v tl nx.
  Proof. reflexivity. Qed.

  (* ---- no error means the semantic conditions hold ---- *)
  Lemma ty_eqb_refl a : ty_eqb a a = true.
  Proof. unfold ty_eqb. apply Z.eqb_refl. Qed.

  Lemma scalar_sem v : scalar_cst v = true -> sem_v overrides v = true.
  Proof. destruct v; try discriminate; reflexivity. Qed.

  Definition Sv (v : cst) : Prop := forall simple, wf_v simple v = true -> err_v v = None -> sem_v overrides v = true.
  Definition Se (es : celems) : Prop := forall ctx nx, wf_e (simple_of ctx) es = true -> err_e ctx es nx = None ->
    sem_e overrides es = true /\ (ctx = CtxArr None -> homog (map cty (vals_e es)) = true) /\
    (forall T, ctx = CtxArr (Some T) -> forallb (ty_eqb T) (map cty (vals_e es)) = true).
  Definition St (tl : ctail) : Prop := forall ctx nx, wf_t (simple_of ctx) tl = true -> err_t ctx tl nx = None ->
    sem_t overrides tl = true /\ (forall T, ctx = CtxArr (Some T) -> forallb (ty_eqb T) (map cty (vals_t tl)) = true).
  Definition Sm (ms : cmembers) : Prop := forall acc, wf_m ms = true -> err_m ms acc = None -> sem_m overrides ms acc = true.

  Lemma elem_sem ctx v tl nx : Sv v -> St tl ->
    wf_v (simple_of ctx) v = true -> wf_t (simple_of ctx) tl = true -> err_elem ctx v tl nx = None ->
    sem_v overrides v = true /\ sem_t overrides tl = true /\
    (ctx = CtxArr None -> forallb (ty_eqb (cty v)) (map cty (vals_t tl)) = true) /\
    (forall T, ctx = CtxArr (Some T) -> ty_eqb T (cty v) = true /\ forallb (ty_eqb T) (map cty (vals_t tl)) = true).
  Proof.
    intros Hv Ht Hwv Hwt He. destruct ctx as [|[T|]]; cbn [err_elem simple_of] in *.
    - destruct (err_v v) eqn:Ev; [discriminate He|]. cbn [orelse] in He.
      destruct (Ht CtxList nx Hwt He) as [H1 _]. split; [apply (Hv false Hwv Ev)|]. split; [exact H1|]. split; [discriminate|]. intros T H; discriminate H.
    - destruct (ty_eqb T (cty v)) eqn:Et; [|discriminate He].
      destruct (Ht (CtxArr (Some T)) nx Hwt He) as [H1 H2]. split; [apply scalar_sem, wf_scalar; exact Hwv|]. split; [exact H1|].
      split; [discriminate|]. intros T' HT. injection HT as <-. split; [exact Et | apply (H2 T eq_refl)].
    - destruct (Ht (CtxArr (Some (cty v))) nx Hwt He) as [H1 H2]. split; [apply scalar_sem, wf_scalar; exact Hwv|]. split; [exact H1|].
      split; [intros _; apply (H2 _ eq_refl) | intros T H; discriminate H].
  Qed.

  Theorem err_none_sem : (forall v, Sv v) /\ (forall es, Se es) /\ (forall tl, St tl) /\ (forall ms, Sm ms).
  Proof.
    apply cst_mutind.
    - intros t p simple _ _. reflexivity.
    - intros s0 p0 ss simple _ _. reflexivity.
    - intros po es IH pc simple Hw He. cbn [wf_v] in Hw. apply andb_true_iff in Hw as [_ Hw].
      change (err_e (CtxArr None) es pc = None) in He.
      change (sem_e overrides es && homog (map cty (vals_e es)) = true).
      destruct (IH (CtxArr None) pc Hw He) as (H1 & H2 & _). rewrite H1, (H2 eq_refl). reflexivity.
    - intros po es IH pc simple Hw He. cbn [wf_v] in Hw. apply andb_true_iff in Hw as [_ Hw].
      change (err_e CtxList es pc = None) in He. change (sem_e overrides es = true).
      destruct (IH CtxList pc Hw He) as (H1 & _). exact H1.
    - intros po ms IH pc simple Hw He. cbn [wf_v] in Hw. apply andb_true_iff in Hw as [_ Hw].
      change (err_m ms [] = None) in He. change (sem_m overrides ms [] = true). apply IH; assumption.
    - intros ctx nx _ _. split; [reflexivity|]. split; [reflexivity | intros; reflexivity].
    - intros v Hv tl Ht ctx nx Hw He. rewrite err_e_cons in He. cbn [wf_e] in Hw. apply andb_true_iff in Hw as [Hwv Hwt].
      destruct (elem_sem ctx v tl nx Hv Ht Hwv Hwt He) as (H1 & H2 & H3 & H4).
      change (sem_e overrides (ECons v tl)) with (sem_v overrides v && sem_t overrides tl). cbn [vals_e map homog forallb]. rewrite H1, H2.
      split; [reflexivity|]. split; [exact H3|]. intros T HT. destruct (H4 T HT) as [-> ->]. reflexivity.
    - intros ctx nx _ _. split; [reflexivity | intros; reflexivity].
    - intros p tl IH ctx nx Hw He. cbn [wf_t] in Hw. change (err_t ctx tl nx = None) in He.
      change (sem_t overrides (TlComma p tl)) with (sem_t overrides tl). cbn [vals_t]. apply IH with (nx := nx); assumption.
    - intros p v Hv tl Ht ctx nx Hw He. rewrite err_t_commav in He. cbn [wf_t] in Hw. apply andb_true_iff in Hw as [Hwv Hwt].
      destruct (elem_sem ctx v tl nx Hv Ht Hwv Hwt He) as (H1 & H2 & H3 & H4).
      change (sem_t overrides (TlCommaV p v tl)) with (sem_v overrides v && sem_t overrides tl). cbn [vals_t map forallb]. rewrite H1, H2.
      split; [reflexivity|]. intros T HT. destruct (H4 T HT) as [-> ->]. reflexivity.
    - intros acc _ _. reflexivity.
    - intros nm pos peq v Hv tm ms Hm acc Hw He. cbn [wf_m] in Hw. apply andb_true_iff in Hw as [Hwv Hwm].
      change (err_m (MCons nm pos peq v tm ms) acc) with
        (if negb (validate_name nm) || (negb overrides && ohas nm acc) then Some (PErrDup, pos)
         else orelse (err_v v) (err_m ms (odel nm acc ++ [den_v (Some (nm, pos)) v]))) in He.
      change (sem_m overrides (MCons nm pos peq v tm ms) acc) with
        (validate_name nm && (overrides || negb (ohas nm acc)) && sem_v overrides v &&
         sem_m overrides ms (odel nm acc ++ [den_v (Some (nm, pos)) v])).
      destruct (negb (validate_name nm) || (negb overrides && ohas nm acc)) eqn:Ec; [discriminate He|].
      apply orb_false_iff in Ec as [Ec1 Ec2]. apply negb_false_iff in Ec1. rewrite Ec1.
      destruct (err_v v) eqn:Ev; [discriminate He|]. cbn [orelse] in He.
      rewrite (Hv false Hwv Ev), (Hm _ Hwm He).
      destruct overrides; [reflexivity|]. cbn [negb andb] in Ec2. rewrite Ec2. reflexivity.
  Qed.
  (* ---- the only semantic errors: a duplicate name, a mismatched array element ---- *)
  Definition ek (e : perr) : Prop := e = PErrDup \/ e = PErrMismatch.
  Lemma elem_kind ctx v tl nx e ep :
    (forall e ep, err_v v = Some (e, ep) -> ek e) -> (forall ctx nx e ep, err_t ctx tl nx = Some (e, ep) -> ek e) ->
    err_elem ctx v tl nx = Some (e, ep) -> ek e.
  Proof.
    intros Hv Ht He. destruct ctx as [|[T|]]; cbn [err_elem] in He.
    - destruct (err_v v) as [[e1 ep1]|] eqn:Ev; cbn [orelse] in He; [injection He as <- <-; exact (Hv _ _ eq_refl) | exact (Ht _ _ _ _ He)].
    - destruct (ty_eqb T (cty v)); [exact (Ht _ _ _ _ He) | injection He as <- _; right; reflexivity].
    - exact (Ht _ _ _ _ He).
  Qed.

  Theorem err_kind :
    (forall v e ep, err_v v = Some (e, ep) -> ek e) /\
    (forall es ctx nx e ep, err_e ctx es nx = Some (e, ep) -> ek e) /\
    (forall tl ctx nx e ep, err_t ctx tl nx = Some (e, ep) -> ek e) /\
    (forall ms acc e ep, err_m ms acc = Some (e, ep) -> ek e).
  Proof.
    apply cst_mutind.
    - intros t p e ep H. discriminate H.
    - intros s0 p0 ss e ep H. discriminate H.
    - intros po es IH pc e ep H. exact (IH _ _ _ _ H).
    - intros po es IH pc e ep H. exact (IH _ _ _ _ H).
    - intros po ms IH pc e ep H. exact (IH _ _ _ H).
    - intros ctx nx e ep H. discriminate H.
    - intros v Hv tl Ht ctx nx e ep H. rewrite err_e_cons in H. exact (elem_kind ctx v tl nx e ep Hv Ht H).
    - intros ctx nx e ep H. discriminate H.
    - intros p tl IH ctx nx e ep H. exact (IH _ _ _ _ H).
    - intros p v Hv tl Ht ctx nx e ep H. rewrite err_t_commav in H. exact (elem_kind ctx v tl nx e ep Hv Ht H).
    - intros acc e ep H. discriminate H.
    - intros nm pos peq v Hv tm ms Hm acc e ep H.
      change (err_m (MCons nm pos peq v tm ms) acc) with
        (if negb (validate_name nm) || (negb overrides && ohas nm acc) then Some (PErrDup, pos)
         else orelse (err_v v) (err_m ms (odel nm acc ++ [den_v (Some (nm, pos)) v]))) in H.
      destruct (negb (validate_name nm) || (negb overrides && ohas nm acc)); [injection H as <- _; left; reflexivity|].
      destruct (err_v v) as [[e1 ep1]|] eqn:Ev; cbn [orelse] in H; [injection H as <- <-; exact (Hv _ _ eq_refl) | exact (Hm _ _ _ H)].
  Qed.
End Err.


(* ------------------------------------------------------------------------------------ *)
Section Fail.
  Variable overrides : bool.
  Notation err_v := (err_v overrides).
  Notation err_e := (err_e overrides).
  Notation err_t := (err_t overrides).
  Notation err_m := (err_m overrides).
  Notation err_elem := (err_elem overrides).

  (* where a value is parsed into when an error inside it is possible: a list element or a member's value *)
  Definition mctx (parent : ipath) (cur : option ipath) (P : setting) : Prop :=
    (cur = None /\ s_pl P = PList) \/
    (exists i M, cur = @Some ipath (parent ++ [i]) /\ s_pl P = PGroup /\ nth_error (s_kids P) i = Some M /\
                 s_pl M = PNone /\ s_kids M = [] /\ s_fmt M = 0).

  Definition ctx_ok (Q : setting) (ctx : actx) : Prop :=
    match ctx with
    | CtxList => s_pl Q = PList
    | CtxArr None => s_pl Q = PArray /\ s_kids Q = []
    | CtxArr (Some T) => s_pl Q = PArray /\ exists k0, hd_error (s_kids Q) = Some k0 /\ s_ty k0 = T
    end.

  Definition Fv (v : cst) : Prop :=
    forall fuel s parent cur rest P e ep,
      (2 * length (toks_v v) + 1 <= fuel)%nat -> wf_v false v = true -> err_v v = Some (e, ep) ->
      ptoksP s = toks_v v ++ rest -> linv s -> get_at parent (p_root s) = Some P -> mctx parent cur P ->
      exists s', p_value overrides fuel s parent cur false = PErr e s' /\ epos s' = ep.

  Definition Ft (tl : ctail) : Prop :=
    forall ctx fuel s np cl pc rest Q e ep,
      (2 * length (toks_t tl) + 1 <= fuel)%nat -> wf_t (simple_of ctx) tl = true -> err_t ctx tl pc = Some (e, ep) ->
      (cl = TListEnd \/ cl = TArrayEnd) ->
      ptoksP s = toks_t tl ++ (TkP cl, pc) :: rest -> linv s ->
      get_at np (p_root s) = Some Q -> ctx_ok Q ctx ->
      exists s', p_elems overrides fuel s np (simple_of ctx) false = PErr e s' /\ epos s' = ep.

  Definition Fe (es : celems) : Prop :=
    forall ctx fuel s np cl pc rest Q e ep,
      (2 * length (toks_e es) + 2 <= fuel)%nat -> wf_e (simple_of ctx) es = true -> err_e ctx es pc = Some (e, ep) ->
      (cl = TListEnd \/ cl = TArrayEnd) ->
      ptoksP s = toks_e es ++ (TkP cl, pc) :: rest -> linv s ->
      get_at np (p_root s) = Some Q -> ctx_ok Q ctx ->
      exists s', p_elems overrides fuel s np (simple_of ctx) true = PErr e s' /\ epos s' = ep.

  Definition Fm (ms : cmembers) : Prop :=
    forall fuel s parent rest P e ep,
      (2 * length (toks_m ms) + 1 <= fuel)%nat -> wf_m ms = true -> err_m ms (map pobs (s_kids P)) = Some (e, ep) ->
      closerP rest ->
      ptoksP s = toks_m ms ++ rest -> linv s ->
      get_at parent (p_root s) = Some P -> s_pl P = PGroup ->
      exists s', p_settings overrides fuel s parent = PErr e s' /\ epos s' = ep.

  (* ---- a scalar of the wrong type in an array ---- *)
  Lemma act_scalar_mismatch s np Q t st fmt :
    get_at np (p_root s) = Some Q -> s_pl Q = PArray -> checktype Q t = false ->
    act_scalar s np None (t, st, fmt) = None.
  Proof.
    intros GQ HQ Hc. unfold act_scalar, in_agg, ty_at. rewrite GQ. unfold s_ty at 1. rewrite HQ. cbn [ty_of].
    unfold n_set_elem. unfold s_ty at 1. rewrite HQ. cbn [ty_of]. replace (-1 <? 0) with true by reflexivity. rewrite Hc. reflexivity.
  Qed.

  Lemma scalar_mismatch v : scalar_cst v = true -> wf_v true v = true ->
    forall fuel s np simple x r Q,
      (2 * length (toks_v v) + 1 <= fuel)%nat -> ptoksP s = toks_v v ++ x :: r -> no_strP (x :: r) -> linv s ->
      get_at np (p_root s) = Some Q -> s_pl Q = PArray -> checktype Q (cty v) = false ->
      exists s', p_value overrides fuel s np None simple = PErr PErrMismatch s' /\
                 epos s' = match v with CScal _ p => p | _ => snd x end.
  Proof.
    intros Hsc Hwf fuel s np simple x r Q Hfuel Htok Hns L GQ HQ Hc.
    destruct v as [t p | s0 p0 ss | | |]; try discriminate Hsc; cbn [toks_v length wf_v app cty] in *.
    - destruct fuel as [|f]; [lia|].
      destruct (gscalar_tok t Hwf) as (sc & Esc & Hty & _).
      destruct (peekP s _ _ Htok L) as (s1 & P1 & T1 & R1 & L1 & Hp). cbn [fst snd] in P1, Hp.
      assert (Hpv : p_value overrides (S f) s np None simple =
                    match act_scalar (shift s1) np None sc with
                    | Some s3 => POk s3 | None => PErr PErrMismatch (shift s1) end).
      { rewrite p_value_S, P1. destruct t; cbn [scalar_of] in Esc; try discriminate Esc; injection Esc as <-; reflexivity. }
      destruct sc as [[ty st] fmt]. cbn [fst] in Hty. subst ty. rewrite Hpv.
      rewrite (act_scalar_mismatch (shift s1) np Q _ st fmt ltac:(rewrite shift_root, R1; exact GQ) HQ Hc).
      eexists. split; [reflexivity | exact Hp].
    - rewrite map_length in Hfuel. destruct fuel as [|f]; [lia|].
      destruct (peekP s _ _ Htok L) as (s1 & P1 & T1 & R1 & L1 & _). cbn [fst] in P1.
      destruct (gp_string ((s0, p0) :: ss) f s1 [] (x :: r) ltac:(cbn [length]; lia) T1 Hns L1) as (s2 & Eps & T2 & R2 & L2 & Hp2).
      assert (Hpv : p_value overrides (S f) s np None simple =
                    match act_scalar s2 np None (string_scalar ([] ++ concat (map fst ((s0, p0) :: ss)))) with
                    | Some s3 => POk s3 | None => PErr PErrMismatch s2 end).
      { rewrite p_value_S, P1, Eps. reflexivity. }
      rewrite Hpv. unfold string_scalar.
      rewrite (act_scalar_mismatch s2 np Q TString _ None ltac:(rewrite R2, R1; exact GQ) HQ Hc).
      eexists. split; [reflexivity | exact (Hp2 x r eq_refl)].
  Qed.
  (* ---- one element and the rest of its list ---- *)
  Lemma tail_first tl cl pc rest : exists x r, toks_t tl ++ (TkP cl, pc) :: rest = x :: r /\
    snd x = first_pos (toks_t tl) pc /\ no_strP (x :: r).
  Proof. destruct tl; cbn [toks_t app first_pos]; eexists _, _; split; try reflexivity; split; try reflexivity; exact I. Qed.

  Lemma ctx_elem Q ctx v : ctx_ok Q ctx -> wf_v (simple_of ctx) v = true ->
    (match ctx with CtxArr (Some T) => ty_eqb T (cty v) = true | _ => True end) -> gelem_ctx Q v.
  Proof.
    intros Hc Hw Ht. destruct ctx as [|[T|]]; cbn [ctx_ok simple_of] in *.
    - left. exact Hc.
    - destruct Hc as (HQ & k0 & Hk & HT). right. split; [exact HQ|]. split; [apply wf_scalar; exact Hw|].
      unfold checktype. destruct (s_kids Q) as [|q0 qs]; [reflexivity|]. cbn in Hk. injection Hk as <-.
      unfold s_ty at 1. rewrite HQ. cbn [ty_of]. rewrite HT. exact Ht.
    - destruct Hc as (HQ & Hk). right. split; [exact HQ|]. split; [apply wf_scalar; exact Hw|].
      unfold checktype. rewrite Hk. reflexivity.
  Qed.

  Lemma ctx_next Q ctx v v' : ctx_ok Q ctx -> wf_v (simple_of ctx) v = true -> pobs v' = den_v None v ->
    ctx_ok (set_kids Q (s_kids Q ++ [v'])) (match ctx with CtxArr None => CtxArr (Some (cty v)) | c => c end).
  Proof.
    intros Hc Hw Ho. destruct ctx as [|[T|]]; cbn [ctx_ok simple_of] in *; rewrite ?s_pl_set_kids, ?s_kids_set_kids.
    - exact Hc.
    - destruct Hc as (HQ & k0 & Hk & HT). split; [exact HQ|]. exists k0. split; [|exact HT].
      destruct (s_kids Q); [discriminate Hk | exact Hk].
    - destruct Hc as (HQ & Hk). split; [exact HQ|]. exists v'. rewrite Hk. split; [reflexivity|].
      apply obs_ty; [apply wf_scalar; exact Hw | exact Ho].
  Qed.

  Lemma elem_fail v tl : Fv v -> Ft tl ->
    forall ctx f s3 np cl pc rest Q e ep,
      (2 * length (toks_v v) + 1 <= f)%nat -> (2 * length (toks_t tl) + 1 <= f)%nat ->
      wf_v (simple_of ctx) v = true -> wf_t (simple_of ctx) tl = true ->
      err_elem ctx v tl pc = Some (e, ep) -> (cl = TListEnd \/ cl = TArrayEnd) ->
      ptoksP s3 = toks_v v ++ toks_t tl ++ (TkP cl, pc) :: rest -> linv s3 ->
      get_at np (p_root s3) = Some Q -> ctx_ok Q ctx ->
      exists s', match p_value overrides f s3 np None (simple_of ctx) with
                 | POk s4 => p_elems overrides f s4 np (simple_of ctx) false
                 | r => r end = PErr e s' /\ epos s' = ep.
  Proof.
    intros Hv Ht ctx f s3 np cl pc rest Q e ep Hf1 Hf2 Hwv Hwt He Hcl Htok L GQ Hc.
    destruct (complete_all overrides) as (HPv & _).
    (* the value is read successfully, then the tail fails *)
    assert (Hgo : sem_v overrides v = true ->
                  (match ctx with CtxArr (Some T) => ty_eqb T (cty v) = true | _ => True end) ->
                  err_t (match ctx with CtxArr None => CtxArr (Some (cty v)) | c => c end) tl pc = Some (e, ep) ->
                  exists s', match p_value overrides f s3 np None (simple_of ctx) with
                             | POk s4 => p_elems overrides f s4 np (simple_of ctx) false
                             | r => r end = PErr e s' /\ epos s' = ep).
    { intros Hsem Hty Het.
      destruct (HPv v f s3 np None (simple_of ctx) (toks_t tl ++ (TkP cl, pc) :: rest) Q Hf1 Hwv Hsem (str_rest_tail _ _ _ _ _) Htok L GQ) as [HA _].
      destruct (HA eq_refl (ctx_elem Q ctx v Hc Hwv Hty)) as (s4 & v' & E4 & T4 & L4 & O4 & R4). rewrite E4.
      assert (G4 : get_at np (p_root s4) = Some (set_kids Q (s_kids Q ++ [v']))).
      { rewrite R4. exact (get_at_upd_at_same np (fun _ => set_kids Q (s_kids Q ++ [v'])) _ Q GQ). }
      pose proof (ctx_next Q ctx v v' Hc Hwv O4) as Hc'.
      assert (Es : simple_of (match ctx with CtxArr None => CtxArr (Some (cty v)) | c => c end) = simple_of ctx)
        by (destruct ctx as [|[T|]]; reflexivity).
      destruct (Ht _ f s4 np cl pc rest _ e ep Hf2 ltac:(rewrite Es; exact Hwt) Het Hcl T4 L4 G4 Hc') as (s' & E' & P').
      rewrite Es in E'. exists s'. split; assumption. }
    destruct ctx as [|[T|]]; cbn [err_elem simple_of] in *.
    - destruct (err_v v) as [[e1 ep1]|] eqn:Ev.
      + cbn [orelse] in He. injection He as <- <-.
        destruct (Hv f s3 np None (toks_t tl ++ (TkP cl, pc) :: rest) Q e1 ep1 Hf1 Hwv Ev Htok L GQ ltac:(left; split; [reflexivity | exact Hc]))
          as (s' & E' & P'). rewrite E'. exists s'. split; [reflexivity | exact P'].
      + cbn [orelse] in He. destruct (err_none_sem overrides) as (HS & _).
        apply Hgo; [apply (HS v false Hwv Ev) | exact I | exact He].
    - destruct (ty_eqb T (cty v)) eqn:Et.
      + apply Hgo; [apply scalar_sem, wf_scalar; exact Hwv | reflexivity | exact He].
      + injection He as <- <-. destruct Hc as (HQ & k0 & Hk & HT).
        destruct (tail_first tl cl pc rest) as (x & r & Ex & Hx & Hns). rewrite Ex in Htok.
        assert (Hck : checktype Q (cty v) = false).
        { unfold checktype. destruct (s_kids Q) as [|q0 qs]; [discriminate Hk|]. cbn in Hk. injection Hk as <-.
          unfold s_ty at 1. rewrite HQ. cbn [ty_of]. rewrite HT. exact Et. }
        destruct (scalar_mismatch v (wf_scalar _ Hwv) Hwv f s3 np true x r Q Hf1 Htok Hns L GQ HQ Hck) as (s' & E' & P').
        rewrite E'. exists s'. split; [reflexivity|]. rewrite P', Hx. destruct v; reflexivity.
    - apply Hgo; [apply scalar_sem, wf_scalar; exact Hwv | exact I | exact He].
  Qed.
  (* ---- element lists ---- *)
  Lemma Ft_nil : Ft TlNil.
  Proof. intros ctx fuel s np cl pc rest Q e ep _ _ He. discriminate He. Qed.

  Lemma Ft_comma p tl : Ft tl -> Ft (TlComma p tl).
  Proof.
    intros IH ctx fuel s np cl pc rest Q e ep Hf Hwf He Hcl Htok L GQ Hctx. cbn [toks_t app length wf_t] in *.
    change (err_t ctx tl pc = Some (e, ep)) in He.
    destruct fuel as [|f]; [lia|]. rewrite p_elems_S.
    destruct (peekP s _ _ Htok L) as (s1 & P1 & T1 & R1 & L1 & _). rewrite P1. cbn [fst]. cbv zeta.
    pose proof (shiftP _ _ _ T1) as T2.
    destruct (tail_hd tl cl pc rest) as (t2 & p2 & r2 & Et & Ht2). rewrite Et in T2.
    destruct (peekP (shift s1) _ _ T2 (linv_shift _)) as (s3 & P3 & T3 & R3 & L3 & _). rewrite P3. cbn [fst].
    rewrite (not_start (simple_of ctx) t2 cl Hcl Ht2).
    assert (T3x : ptoksP s3 = toks_t tl ++ (TkP cl, pc) :: rest) by (rewrite Et; exact T3).
    assert (G3 : get_at np (p_root s3) = Some Q) by (rewrite R3, shift_root, R1; exact GQ).
    exact (IH ctx f s3 np cl pc rest Q e ep ltac:(lia) Hwf He Hcl T3x L3 G3 Hctx).
  Qed.

  Lemma Ft_commav p v tl : Fv v -> Ft tl -> Ft (TlCommaV p v tl).
  Proof.
    intros Hv IH ctx fuel s np cl pc rest Q e ep Hf Hwf He Hcl Htok L GQ Hctx. cbn [toks_t app length wf_t] in *.
    rewrite err_t_commav in He. apply andb_true_iff in Hwf as [Hwv Hwt]. rewrite app_length in Hf.
    destruct fuel as [|f]; [lia|]. rewrite p_elems_S. rewrite <- app_assoc in Htok.
    destruct (peekP s _ _ Htok L) as (s1 & P1 & T1 & R1 & L1 & _). rewrite P1. cbn [fst]. cbv zeta.
    pose proof (shiftP _ _ _ T1) as T2.
    destruct (gfirst (simple_of ctx) v Hwv) as (t2 & p2 & r2 & Et & Hstart).
    assert (T2' : ptoksP (shift s1) = (t2, p2) :: (r2 ++ toks_t tl ++ (TkP cl, pc) :: rest)) by (rewrite T2, Et; reflexivity).
    destruct (peekP (shift s1) _ _ T2' (linv_shift _)) as (s3 & P3 & T3' & R3 & L3 & _). rewrite P3. cbn [fst]. rewrite Hstart.
    assert (T3 : ptoksP s3 = toks_v v ++ toks_t tl ++ (TkP cl, pc) :: rest) by (rewrite T3', Et; reflexivity).
    assert (G3 : get_at np (p_root s3) = Some Q) by (rewrite R3, shift_root, R1; exact GQ).
    exact (elem_fail v tl Hv IH ctx f s3 np cl pc rest Q e ep ltac:(lia) ltac:(lia) Hwv Hwt He Hcl T3 L3 G3 Hctx).
  Qed.

  Lemma Fe_nil : Fe ENil.
  Proof. intros ctx fuel s np cl pc rest Q e ep _ _ He. discriminate He. Qed.

  Lemma Fe_cons v tl : Fv v -> Ft tl -> Fe (ECons v tl).
  Proof.
    intros Hv IH ctx fuel s np cl pc rest Q e ep Hf Hwf He Hcl Htok L GQ Hctx. cbn [toks_e app length wf_e] in *.
    rewrite err_e_cons in He. apply andb_true_iff in Hwf as [Hwv Hwt]. rewrite app_length in Hf.
    destruct fuel as [|f]; [lia|]. rewrite p_elems_S. rewrite <- app_assoc in Htok.
    destruct (gfirst (simple_of ctx) v Hwv) as (t2 & p2 & r2 & Et & Hstart).
    assert (T0 : ptoksP s = (t2, p2) :: (r2 ++ toks_t tl ++ (TkP cl, pc) :: rest)) by (rewrite Htok, Et; reflexivity).
    destruct (peekP s _ _ T0 L) as (s1 & P1 & T1 & R1 & L1 & _). rewrite P1. cbn [fst]. rewrite Hstart.
    assert (T1' : ptoksP s1 = toks_v v ++ toks_t tl ++ (TkP cl, pc) :: rest) by (rewrite T1, Et; reflexivity).
    assert (G1 : get_at np (p_root s1) = Some Q) by (rewrite R1; exact GQ).
    exact (elem_fail v tl Hv IH ctx f s1 np cl pc rest Q e ep ltac:(lia) ltac:(lia) Hwv Hwt He Hcl T1' L1 G1 Hctx).
  Qed.

  Lemma fuel_21 a b : (a + 2 <= b)%nat -> (a + 1 <= b)%nat.
  Proof. lia. Qed.

  (* ---- an aggregate whose body fails ---- *)
  Lemma gagg_fail k po pc body e ep :
    (forall fuel s np rest Q, (2 * length body + 2 <= fuel)%nat ->
       ptoksP s = body ++ (TkP (close_of k), pc) :: rest -> linv s -> get_at np (p_root s) = Some Q ->
       s_pl Q = aggk_pl k -> s_kids Q = [] ->
       exists s', body_fn overrides k fuel s np = PErr e s' /\ epos s' = ep) ->
    forall fuel s parent cur rest P,
      (2 * length ((TkP (open_of k), po) :: body ++ [(TkP (close_of k), pc)]) + 1 <= fuel)%nat ->
      ptoksP s = ((TkP (open_of k), po) :: body ++ [(TkP (close_of k), pc)]) ++ rest -> linv s ->
      get_at parent (p_root s) = Some P -> mctx parent cur P ->
      exists s', p_value overrides fuel s parent cur false = PErr e s' /\ epos s' = ep.
  Proof.
    intros Hbody fuel s parent cur rest P Hfuel Htok L GP Hm.
    cbn [length] in Hfuel. rewrite app_length in Hfuel. cbn [length] in Hfuel.
    destruct fuel as [|[|f2]]; try lia.
    cbn [app] in Htok. rewrite <- app_assoc in Htok. cbn [app] in Htok.
    destruct (peekP s _ _ Htok L) as (s1 & P1 & T1 & R1 & L1 & _). cbn [fst] in P1.
    pose proof (shiftP _ _ _ T1) as T2.
    assert (GPs : get_at parent (p_root (shift s1)) = Some P) by (rewrite shift_root, R1; exact GP).
    assert (Epv : p_value overrides (S (S f2)) s parent cur false = p_agg overrides (S f2) (shift s1) parent cur k).
    { rewrite p_value_S, P1. destruct k; reflexivity. }
    rewrite Epv, p_agg_S.
    assert (Ebody : forall s1' np', match k with
                      | KGrp => p_settings overrides f2 s1' np'
                      | KArr => p_elems overrides f2 s1' np' true true
                      | KLst => p_elems overrides f2 s1' np' false true end = body_fn overrides k f2 s1' np')
      by (intros; reflexivity).
    destruct Hm as [[-> HP] | (i & M & -> & HP & GM & HM & Hk & Hf0)].
    - destruct (act_open_elem overrides (shift s1) parent P k GPs HP) as (Q0 & Eo & Qn & Qp & Qk & Qf). rewrite Eo.
      set (np := parent ++ [length (s_kids P)]).
      set (sa := set_proot (shift s1) (upd_at parent (fun _ => set_kids P (s_kids P ++ [Q0])) (p_root (shift s1)))).
      assert (Ga : get_at np (p_root sa) = Some Q0).
      { unfold sa, np. cbn [p_root set_proot].
        apply (get_child parent (set_kids P (s_kids P ++ [Q0])));
          [exact (get_at_upd_at_same parent (fun _ => set_kids P (s_kids P ++ [Q0])) _ P GPs)|].
        rewrite s_kids_set_kids, nth_error_app2 by lia. rewrite Nat.sub_diag. reflexivity. }
      destruct (Hbody f2 sa np rest Q0 ltac:(lia) T2 (linv_shift _) Ga Qp Qk) as (sb & Eb & Pb).
      cbv zeta. rewrite Ebody, Eb. exists sb. split; [reflexivity | exact Pb].
    - rewrite (act_open_member overrides (shift s1) parent P i M k GPs HP GM).
      set (Q0 := set_pl M (aggk_pl k)). set (np := parent ++ [i]).
      set (sa := set_proot (shift s1) (upd_at parent (fun _ => set_kids P (list_upd i (fun _ => Q0) (s_kids P))) (p_root (shift s1)))).
      assert (Ga : get_at np (p_root sa) = Some Q0).
      { unfold sa, np. cbn [p_root set_proot].
        apply (get_child parent (set_kids P (list_upd i (fun _ => Q0) (s_kids P))));
          [exact (get_at_upd_at_same parent (fun _ => set_kids P (list_upd i (fun _ => Q0) (s_kids P))) _ P GPs)|].
        rewrite s_kids_set_kids. apply (nth_error_list_upd_hit i Q0 _ M GM). }
      assert (Qk : s_kids Q0 = []) by (unfold Q0; rewrite s_kids_set_pl; exact Hk).
      assert (Qp : s_pl Q0 = aggk_pl k) by (unfold Q0; apply s_pl_set_pl).
      destruct (Hbody f2 sa np rest Q0 ltac:(lia) T2 (linv_shift _) Ga Qp Qk) as (sb & Eb & Pb).
      cbv zeta. rewrite Ebody, Eb. exists sb. split; [reflexivity | exact Pb].
  Qed.

  Lemma Fv_scal t p : Fv (CScal t p).
  Proof. intros fuel s parent cur rest P e ep _ _ He. discriminate He. Qed.
  Lemma Fv_str s0 p0 ss : Fv (CStr s0 p0 ss).
  Proof. intros fuel s parent cur rest P e ep _ _ He. discriminate He. Qed.

  Lemma Fv_arr po es pc : Fe es -> Fv (CArr po es pc).
  Proof.
    intros He fuel s parent cur rest P e ep Hfuel Hwf Herr Htok L GP Hm. cbn [wf_v] in Hwf.
    change (err_e (CtxArr None) es pc = Some (e, ep)) in Herr. cbn [negb andb] in Hwf.
    refine (gagg_fail KArr po pc (toks_e es) e ep _ fuel s parent cur rest P Hfuel Htok L GP Hm).
    intros fu s0 np rest0 Q Hf Ht L0 GQ Qp Qk.
    exact (He (CtxArr None) fu s0 np TArrayEnd pc rest0 Q e ep Hf Hwf Herr ltac:(auto) Ht L0 GQ (conj Qp Qk)).
  Qed.

  Lemma Fv_lst po es pc : Fe es -> Fv (CLst po es pc).
  Proof.
    intros He fuel s parent cur rest P e ep Hfuel Hwf Herr Htok L GP Hm. cbn [wf_v] in Hwf.
    change (err_e CtxList es pc = Some (e, ep)) in Herr. cbn [negb andb] in Hwf.
    refine (gagg_fail KLst po pc (toks_e es) e ep _ fuel s parent cur rest P Hfuel Htok L GP Hm).
    intros fu s0 np rest0 Q Hf Ht L0 GQ Qp Qk.
    exact (He CtxList fu s0 np TListEnd pc rest0 Q e ep Hf Hwf Herr ltac:(auto) Ht L0 GQ Qp).
  Qed.

  Lemma Fv_grp po ms pc : Fm ms -> Fv (CGrp po ms pc).
  Proof.
    intros Hm fuel s parent cur rest P e ep Hfuel Hwf Herr Htok L GP Hmc. cbn [wf_v] in Hwf.
    change (err_m ms [] = Some (e, ep)) in Herr. cbn [negb andb] in Hwf.
    refine (gagg_fail KGrp po pc (toks_m ms) e ep _ fuel s parent cur rest P Hfuel Htok L GP Hmc).
    intros fu s0 np rest0 Q Hf Ht L0 GQ Qp Qk.
    exact (Hm fu s0 np ((TkP TGroupEnd, pc) :: rest0) Q e ep (fuel_21 _ _ Hf) Hwf ltac:(rewrite Qk; exact Herr) I Ht L0 GQ Qp).
  Qed.
  (* ---- members ---- *)
  Lemma gact_name_fail s parent P n :
    get_at parent (p_root s) = Some P -> s_pl P = PGroup ->
    (validate_name n = false \/ (overrides = false /\ exists j, list_search (s_kids P) n = Some j)) ->
    act_name overrides s parent n = None.
  Proof.
    intros GP HP Hbad. unfold act_name. rewrite GP. unfold n_add.
    change (ty_of_code 0) with (Some TNone).
    assert (Ety : s_ty P = TGroup) by (unfold s_ty; rewrite HP; reflexivity).
    rewrite Ety. unfold ty_eqb. cbn [ty_code]. change (1 =? 7) with false. change (1 =? 8) with false.
    cbn [andb orb]. cbv zeta.
    destruct (validate_name n) eqn:Hv; cbn [negb]; [|reflexivity].
    destruct Hbad as [H | (Hov & j & Hj)]; [discriminate H|].
    unfold get_member. rewrite Ety, Hj, Hov. reflexivity.
  Qed.

  Lemma ohas_search nm kids : ohas nm (map pobs kids) = true -> exists j, list_search kids nm = Some j.
  Proof. unfold ohas. rewrite <- list_search_obs. destruct (list_search kids nm) as [j|]; [eauto | discriminate]. Qed.

  Lemma Fm_nil : Fm MNil.
  Proof. intros fuel s parent rest P e ep _ _ He. discriminate He. Qed.

  Lemma Fm_cons nm pos peq v tm ms : Fv v -> Fm ms -> Fm (MCons nm pos peq v tm ms).
  Proof.
    intros Hv IH fuel s parent rest P e ep Hf Hwf He Hcl Htok L GP HP. cbn [toks_m app length wf_m] in *.
    change (err_m (MCons nm pos peq v tm ms) (map pobs (s_kids P))) with
      (if negb (validate_name nm) || (negb overrides && ohas nm (map pobs (s_kids P))) then Some (PErrDup, pos)
       else orelse (err_v v) (err_m ms (odel nm (map pobs (s_kids P)) ++ [den_v (Some (nm, pos)) v]))) in He.
    apply andb_true_iff in Hwf as [Hwv Hwm].
    rewrite !app_length in Hf.
    destruct fuel as [|f]; [lia|]. rewrite p_settings_S.
    destruct (peekP s _ _ Htok L) as (s1 & P1 & T1 & R1 & L1 & Hpos). rewrite P1. cbn [fst]. cbv zeta.
    cbn [snd] in Hpos.
    pose proof (shiftP _ _ _ T1) as T2.
    assert (GPs : get_at parent (p_root (shift s1)) = Some P) by (rewrite shift_root, R1; exact GP).
    destruct (negb (validate_name nm) || (negb overrides && ohas nm (map pobs (s_kids P)))) eqn:Ec.
    - (* the name cannot be added *)
      injection He as <- <-.
      rewrite (gact_name_fail (shift s1) parent P nm GPs HP).
      + eexists. split; [reflexivity | exact Hpos].
      + apply orb_true_iff in Ec as [Ec | Ec]; [left; apply negb_true_iff; exact Ec | right].
        apply andb_true_iff in Ec as [E1 E2]. split; [apply negb_true_iff; exact E1 | apply ohas_search; exact E2].
    - apply orb_false_iff in Ec as [Ec1 Ec2]. apply negb_false_iff in Ec1.
      assert (Hov' : overrides = true \/ list_search (s_kids P) nm = None).
      { destruct overrides; [left; reflexivity | right]. cbn [negb andb] in Ec2. apply ohas_obs. exact Ec2. }
      destruct (gact_name overrides (shift s1) parent P nm GPs HP Ec1 Hov') as (M & Ea & Mw & Mp & Mk & Mf).
      rewrite Ea.
      assert (Mw' : who_of M = Some (nm, pos)) by (rewrite Mw; cbn [shift p_line p_file]; rewrite Hpos; reflexivity).
      set (K := del_named nm (s_kids P)) in *.
      set (i := length K). set (P1' := set_kids P (K ++ [M])).
      set (s2 := set_proot (shift s1) (upd_at parent (fun _ => P1') (p_root (shift s1)))).
      assert (T2s : ptoksP s2 = (TkP TEquals, peq) :: (toks_v v ++ term_toks tm ++ toks_m ms) ++ rest) by exact T2.
      destruct (expectP s2 TEquals _ _ T2s (linv_shift _) (or_introl eq_refl)) as (s3 & E3 & T3 & R3 & L3). rewrite E3.
      rewrite <- !app_assoc in T3.
      assert (G3 : get_at parent (p_root s3) = Some P1').
      { rewrite R3. unfold s2. cbn [p_root set_proot]. rewrite shift_root, R1.
        exact (get_at_upd_at_same parent (fun _ => P1') _ P GP). }
      assert (GM : nth_error (s_kids P1') i = Some M).
      { unfold P1', i. rewrite s_kids_set_kids, nth_error_app2 by lia. rewrite Nat.sub_diag. reflexivity. }
      assert (HP1 : s_pl P1' = PGroup) by (unfold P1'; rewrite s_pl_set_kids; exact HP).
      destruct (err_v v) as [[e1 ep1]|] eqn:Ev.
      + (* the error is inside the value *)
        cbn [orelse] in He. injection He as <- <-.
        destruct (Hv f s3 parent (@Some ipath (parent ++ [i])) (term_toks tm ++ toks_m ms ++ rest) P1' e1 ep1
                    ltac:(lia) Hwv Ev T3 L3 G3 ltac:(right; exists i, M; auto 7)) as (s' & E' & P').
        rewrite E'. exists s'. split; [reflexivity | exact P'].
      + (* the value is read, the error is in a later member *)
        cbn [orelse] in He.
        destruct (err_none_sem overrides) as (HS & _). pose proof (HS v false Hwv Ev) as Hsv.
        destruct (complete_all overrides) as (HPv & _).
        destruct (members_hd ms rest Hcl) as (th & rh & Eh & Hh1 & Hh2 & Hh3).
        destruct (HPv v f s3 parent (@Some ipath (parent ++ [i])) false (term_toks tm ++ toks_m ms ++ rest) P1'
                     ltac:(lia) Hwv Hsv) as [_ HG]; try assumption.
        { destruct v; try exact I. cbn [str_rest]. destruct tm; cbn [term_toks app]; try exact I.
          rewrite Eh. destruct th as [th ph]. cbn [fst] in Hh3. destruct th; try exact I. discriminate Hh3. }
        destruct (HG i M eq_refl HP1 GM Mp Mk Mf eq_refl) as (s4 & v' & E4 & T4 & L4 & O4 & R4).
        rewrite E4.
        set (P2 := set_kids P (K ++ [v'])).
        assert (R4' : p_root s4 = upd_at parent (fun _ => P2) (p_root s)).
        { rewrite R4, R3. unfold s2. cbn [p_root set_proot]. rewrite shift_root, R1, upd_at_compose.
          unfold P2, P1', i. rewrite s_kids_set_kids, list_upd_last, set_kids_set_kids. reflexivity. }
        assert (Hs6 : exists s6, (match peek s4 with
                                  | (Some (TkP TSemicolon), s5) => shift s5
                                  | (Some (TkP TComma), s5) => shift s5
                                  | (_, s5) => s5 end) = s6 /\
                                 ptoksP s6 = toks_m ms ++ rest /\ p_root s6 = p_root s4 /\ linv s6).
        { destruct tm; cbn [term_toks app] in T4.
          - rewrite Eh in T4. destruct (peekP s4 _ _ T4 L4) as (s5 & P5 & T5 & R5 & L5 & _). rewrite P5.
            exists s5. split; [|split; [rewrite Eh; exact T5 | split; [exact R5 | exact L5]]].
            destruct th as [th ph]. cbn [fst] in *. destruct th; try reflexivity. destruct t; try reflexivity; congruence.
          - destruct (peekP s4 _ _ T4 L4) as (s5 & P5 & T5 & R5 & L5 & _). rewrite P5. cbn [fst].
            eexists. split; [reflexivity|]. split; [apply (shiftP _ _ _ T5) | split; [rewrite shift_root; exact R5 | apply linv_shift]].
          - destruct (peekP s4 _ _ T4 L4) as (s5 & P5 & T5 & R5 & L5 & _). rewrite P5. cbn [fst].
            eexists. split; [reflexivity|]. split; [apply (shiftP _ _ _ T5) | split; [rewrite shift_root; exact R5 | apply linv_shift]]. }
        destruct Hs6 as (s6 & E6 & T6 & R6 & L6). rewrite E6.
        assert (G6 : get_at parent (p_root s6) = Some P2).
        { rewrite R6, R4'. exact (get_at_upd_at_same parent (fun _ => P2) _ P GP). }
        assert (Hobs2 : map pobs (s_kids P2) = odel nm (map pobs (s_kids P)) ++ [den_v (Some (nm, pos)) v]).
        { unfold P2. rewrite s_kids_set_kids, map_app. cbn [map]. unfold K. rewrite del_named_obs, O4, Mw'. reflexivity. }
        exact (IH f s6 parent rest P2 e ep ltac:(lia) Hwm ltac:(rewrite Hobs2; exact He) Hcl T6 L6 G6
                  ltac:(unfold P2; rewrite s_pl_set_kids; exact HP)).
  Qed.

  (* ---- every derivation ---- *)
  Theorem fail_all : (forall v, Fv v) /\ (forall es, Fe es) /\ (forall tl, Ft tl) /\ (forall ms, Fm ms).
  Proof.
    apply cst_mutind.
    - exact Fv_scal.
    - exact Fv_str.
    - intros po es He pc. exact (Fv_arr po es pc He).
    - intros po es He pc. exact (Fv_lst po es pc He).
    - intros po ms Hm pc. exact (Fv_grp po ms pc Hm).
    - exact Fe_nil.
    - intros v Hv tl Ht. exact (Fe_cons v tl Hv Ht).
    - exact Ft_nil.
    - exact Ft_comma.
    - intros p v Hv tl Ht. exact (Ft_commav p v tl Hv Ht).
    - exact Fm_nil.
    - intros nm pos peq v Hv tm ms Hm. exact (Fm_cons nm pos peq v tm ms Hv Hm).
  Qed.

  (* ---- the whole configuration ---- *)
  Theorem parse_fails ms pe junk root0 toks e ep :
    wf_m ms = true -> err_m ms [] = Some (e, ep) ->
    map ltp toks = toks_m ms ++ (TkEOF, pe) :: junk ->
    s_pl root0 = PGroup -> s_kids root0 = [] ->
    exists s', p_config overrides (mkP root0 toks false O 0 None) = PErr e s' /\ epos s' = ep.
  Proof.
    intros Hwf Herr Htoks Hp0 Hk0.
    destruct fail_all as (_ & _ & _ & Hm).
    set (s0 := mkP root0 toks false O 0 None).
    assert (T0 : ptoksP s0 = toks_m ms ++ (TkEOF, pe) :: junk) by exact Htoks.
    assert (L0 : linv s0) by (intros H; discriminate H).
    unfold p_config.
    assert (Hfuel : (2 * length (toks_m ms) + 1 <= S (4 * length (p_toks s0)))%nat).
    { cbn [p_toks s0].
      assert (Ln : length toks = (length (toks_m ms) + S (length junk))%nat).
      { rewrite <- (map_length ltp toks), Htoks, app_length. reflexivity. }
      lia. }
    destruct (Hm ms _ s0 [] ((TkEOF, pe) :: junk) root0 e ep Hfuel Hwf ltac:(rewrite Hk0; exact Herr) I T0 L0 eq_refl Hp0) as (s1 & E1 & P1).
    rewrite E1. exists s1. split; [reflexivity | exact P1].
  Qed.
End Fail.
