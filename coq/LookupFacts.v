(* LookupFacts.v — the path walker resolves every spelling of every setting's path, and nothing that
   names a missing member, an out-of-range index or a continuation below a scalar (lemmas behind
   Properties_C06). *)
From Coq Require Import List ZArith Bool Lia.
Import ListNotations.
From LC Require Import Base BaseFacts Tree Fp Lookup Api ApiStep TreeFacts ApiFacts Inv InvFacts.
Local Open Scope Z_scope.

(* ------------------------------------------------------------------------------------ *)
(* spelled paths *)

Inductive pcomp :=
| PCName (nm : bytes)          (* a member name *)
| PCIdx (ds : bytes).          (* a bracketed index, ds = its decimal digits *)

Definition comp_bytes (c : pcomp) : bytes :=
  match c with PCName n => n | PCIdx ds => 91 :: ds ++ [93] end.

Definition optsep (o : option Z) : bytes := match o with Some s => [s] | None => [] end.

(* a path as written: every component optionally (first) / necessarily (others) preceded by one of
   the separators *)
Definition spath := list (option Z * pcomp).

Fixpoint render (sp : spath) : bytes :=
  match sp with
  | [] => []
  | (o, c) :: r => optsep o ++ comp_bytes c ++ render r
  end.

Definition sep_ok (first : bool) (o : option Z) : Prop :=
  match o with Some s => is_sep s = true | None => first = true end.

Definition MAX_INDEX : Z := 4294967295.

(* [Spells cur first sp ip]: sp is a spelling of the index path ip below cur *)
Inductive Spells : setting -> bool -> spath -> ipath -> Prop :=
| Spells_nil cur first : Spells cur first [] []
| Spells_name cur first o nm i k r ip :
    s_ty cur = TGroup -> nth_error (s_kids cur) i = Some k -> s_name k = Some nm ->
    sep_ok first o -> Spells k false r ip ->
    Spells cur first ((o, PCName nm) :: r) (i :: ip)
| Spells_idx cur first o ds i k r ip :
    ty_is_aggregate (s_ty cur) = true -> nth_error (s_kids cur) i = Some k ->
    ds <> [] -> forallb is_digit ds = true -> digits_val 10 ds = Z.of_nat i -> Z.of_nat i <= MAX_INDEX ->
    sep_ok first o -> Spells k false r ip ->
    Spells cur first ((o, PCIdx ds) :: r) (i :: ip).

Definition tail_ok (rest : bytes) : Prop :=
  match rest with [] => True | c :: _ => is_sep c = true end.

(* ------------------------------------------------------------------------------------ *)
(* one step of the walker *)

Lemma is_digit_not_space c : is_digit c = true -> is_space c = false.
Proof.
  unfold is_digit, is_space. intros H. apply andb_true_iff in H as [H1 H2].
  apply Z.leb_le in H1, H2.
  replace (c =? 32) with false by (symmetry; apply Z.eqb_neq; lia).
  replace (c <=? 13) with false by (symmetry; apply Z.leb_gt; lia).
  rewrite andb_false_r. reflexivity.
Qed.

Lemma strtol10_digits ds rest :
  ds <> [] -> forallb is_digit ds = true -> (match rest with c :: _ => is_digit c = false | [] => True end) ->
  strtol10 (ds ++ rest) =
  ((if digits_val 10 ds <=? LLONG_MAX then digits_val 10 ds else LLONG_MAX), rest).
Proof.
  intros Hne Hd Hrest. destruct ds as [|d ds']; [congruence|].
  pose proof Hd as Hd0. cbn [forallb] in Hd0. apply andb_true_iff in Hd0 as [Hd1 _].
  unfold strtol10.
  assert (Hsp : span is_space ((d :: ds') ++ rest) = ([], (d :: ds') ++ rest)).
  { cbn [app span]. rewrite (is_digit_not_space _ Hd1). reflexivity. }
  rewrite Hsp.
  assert (Hsign : match (d :: ds') ++ rest with 45 :: r => (true, r) | 43 :: r => (false, r) | _ => (false, (d :: ds') ++ rest) end
                  = (false, (d :: ds') ++ rest)).
  { cbn [app]. unfold is_digit in Hd1. apply andb_true_iff in Hd1 as [H1 H2]. apply Z.leb_le in H1, H2.
    destruct d as [|p|p]; try lia; try reflexivity.
    do 6 (destruct p as [p|p|]; try reflexivity; try lia). }
  rewrite Hsign.
  assert (Hsd : span is_digit ((d :: ds') ++ rest) = (d :: ds', rest)).
  { destruct rest as [|c rest'].
    - rewrite app_nil_r. apply span_all_nil. exact Hd.
    - apply span_app_stop; assumption. }
  rewrite Hsd. reflexivity.
Qed.

Lemma sep_step o first x rest :
  sep_ok first o -> is_sep x = false ->
  (match optsep o ++ x :: rest with
   | [] => None
   | c :: _ => Some (if is_sep c then tl (optsep o ++ x :: rest) else optsep o ++ x :: rest)
   end) = Some (x :: rest).
Proof.
  intros Ho Hx. destruct o as [s|]; cbn [optsep app].
  - cbn [sep_ok] in Ho. rewrite Ho. reflexivity.
  - rewrite Hx. reflexivity.
Qed.

Lemma walk_idx_step f cur rel first o ds rest i k :
  sep_ok first o -> ds <> [] -> forallb is_digit ds = true ->
  digits_val 10 ds = Z.of_nat i -> Z.of_nat i <= MAX_INDEX ->
  ty_is_aggregate (s_ty cur) = true -> nth_error (s_kids cur) i = Some k ->
  walk (S f) cur rel (optsep o ++ 91 :: ds ++ 93 :: rest) = walk f k (i :: rel) rest.
Proof.
  intros Ho Hne Hd Hv Hmax Hagg Hk.
  assert (H91 : is_sep 91 = false) by reflexivity.
  pose proof (sep_step o first 91 (ds ++ 93 :: rest) Ho H91) as Hs.
  cbn [walk].
  destruct (optsep o ++ 91 :: ds ++ 93 :: rest) as [|c0 p0] eqn:Ep; [discriminate|].
  injection Hs as Hs. cbn [tl] in Hs |- *. rewrite Hs.
  cbn [strip_byte]. rewrite Z.eqb_refl.
  rewrite (strtol10_digits ds (93 :: rest) Hne Hd eq_refl).
  unfold MAX_INDEX in Hmax.
  assert (Hle : digits_val 10 ds <=? LLONG_MAX = true) by (apply Z.leb_le; unfold LLONG_MAX; lia).
  rewrite Hle. cbn [strip_byte]. rewrite Z.eqb_refl. rewrite Hv.
  replace (Z.of_nat i <? 0) with false by (symmetry; apply Z.ltb_ge; lia).
  replace (4294967295 <? Z.of_nat i) with false by (symmetry; apply Z.ltb_ge; lia).
  cbn [orb]. rewrite (elem_by_index cur i Hagg).
  assert (Hlt : (i < length (s_kids cur))%nat) by (apply nth_error_Some; congruence).
  apply Nat.ltb_lt in Hlt. rewrite Hlt. rewrite Hk. reflexivity.
Qed.

Lemma span_name nm rest :
  nosep nm = true -> tail_ok rest ->
  span (fun c => negb (is_sep c)) (nm ++ rest) = (nm, rest).
Proof.
  intros Hn Ht. destruct rest as [|c rest'].
  - rewrite app_nil_r. apply span_all_nil. exact Hn.
  - apply span_app_stop; [exact Hn|]. cbn [tail_ok] in Ht. rewrite Ht. reflexivity.
Qed.

Lemma walk_name_step f cur rel first o nm rest i k :
  sep_ok first o -> validate_name nm = true -> tail_ok rest ->
  s_ty cur = TGroup -> list_search (s_kids cur) nm = Some i -> nth_error (s_kids cur) i = Some k ->
  walk (S f) cur rel (optsep o ++ nm ++ rest) = walk f k (i :: rel) rest.
Proof.
  intros Ho Hv Ht Hty Hs Hk.
  destruct (validate_name_shape _ Hv) as (c & r & -> & Hc & H91 & Hns).
  pose proof (sep_step o first c (r ++ rest) Ho Hc) as Hst.
  cbn [walk]. cbn [app] in *.
  destruct (optsep o ++ c :: r ++ rest) as [|c0 p0] eqn:Ep; [discriminate|].
  injection Hst as Hst. cbn [tl] in Hst |- *. rewrite Hst.
  cbn [strip_byte]. replace (c =? 91) with false by (symmetry; apply Z.eqb_neq; exact H91).
  rewrite Hty.
  change (c :: r ++ rest) with ((c :: r) ++ rest).
  rewrite (span_name (c :: r) rest Hns Ht). rewrite Hs, Hk. reflexivity.
Qed.

(* ------------------------------------------------------------------------------------ *)
(* a spelled prefix is walked component by component, whatever follows *)

Lemma spells_tail_ok k r ip tail : Spells k false r ip -> tail_ok tail -> tail_ok (render r ++ tail).
Proof.
  intros H Ht. inversion H; subst; cbn [render app]; try exact Ht.
  - match goal with Hs : sep_ok false ?o |- _ => destruct o as [s|]; cbn [sep_ok] in Hs; [|discriminate]; cbn; exact Hs end.
  - match goal with Hs : sep_ok false ?o |- _ => destruct o as [s|]; cbn [sep_ok] in Hs; [|discriminate]; cbn; exact Hs end.
Qed.

Lemma walk_spelled_prefix sp : forall cur first ip,
  Spells cur first sp ip -> wf cur = true ->
  forall n rel tail k, get_at ip cur = Some k -> tail_ok tail ->
  walk (length sp + n) cur rel (render sp ++ tail) = walk n k (rev ip ++ rel) tail.
Proof.
  induction sp as [|[o c] r IH]; intros cur first ip H Hw n rel tail k Hg Ht.
  - inversion H; subst. cbn in Hg. injection Hg as <-. reflexivity.
  - inversion H; subst.
    + (* name *)
      match goal with Hk : nth_error (s_kids cur) ?i = Some ?k0 |- _ =>
        rename Hk into Hkid; rename i into i0 end.
      cbn [get_at] in Hg. rewrite Hkid in Hg.
      cbn [length render comp_bytes Nat.add]. rewrite <- !app_assoc.
      assert (Hwk : wf k0 = true).
      { apply (wf_get_at [i0] cur k0 Hw). cbn. rewrite Hkid. reflexivity. }
      destruct (wf_member_named cur i0 k0 Hw ltac:(assumption) Hkid) as (n' & Hn' & Hvn).
      assert (n' = nm) by congruence. subst n'.
      pose proof (member_by_name cur i0 k0 nm Hw ltac:(assumption) Hkid ltac:(assumption)) as Hm.
      unfold get_member in Hm. match goal with Hty : s_ty cur = TGroup |- _ => rewrite Hty in Hm end.
      erewrite (walk_name_step (length r + n) cur rel first o nm (render r ++ tail) i0 k0); eauto.
      * rewrite (IH k0 false ip0 ltac:(assumption) Hwk n (i0 :: rel) tail k Hg Ht).
        cbn [rev]. rewrite <- app_assoc. reflexivity.
      * eapply spells_tail_ok; eassumption.
    + (* index *)
      match goal with Hk : nth_error (s_kids cur) ?i = Some ?k0 |- _ =>
        rename Hk into Hkid; rename i into i0 end.
      cbn [get_at] in Hg. rewrite Hkid in Hg.
      cbn [length render comp_bytes Nat.add]. rewrite <- !app_assoc. cbn [app].
      rewrite <- app_assoc. cbn [app].
      assert (Hwk : wf k0 = true).
      { apply (wf_get_at [i0] cur k0 Hw). cbn. rewrite Hkid. reflexivity. }
      erewrite (walk_idx_step (length r + n) cur rel first o ds (render r ++ tail) i0 k0); eauto.
      rewrite (IH k0 false ip0 ltac:(assumption) Hwk n (i0 :: rel) tail k Hg Ht).
      cbn [rev]. rewrite <- app_assoc. reflexivity.
Qed.

Lemma spells_get_at cur first sp ip : Spells cur first sp ip -> exists k, get_at ip cur = Some k.
Proof.
  induction 1.
  - exists cur. reflexivity.
  - destruct IHSpells as [x Hx]. exists x. cbn. rewrite H0. exact Hx.
  - destruct IHSpells as [x Hx]. exists x. cbn. rewrite H0. exact Hx.
Qed.

Lemma spells_length cur first sp ip : Spells cur first sp ip -> length ip = length sp.
Proof. induction 1; cbn; congruence. Qed.

Lemma comp_nonempty c : (1 <= length (comp_bytes c) \/ exists nm, c = PCName nm)%nat.
Proof. destruct c; [right; eauto | left; cbn; lia]. Qed.

Lemma render_length cur first sp ip : wf cur = true -> Spells cur first sp ip -> (length sp <= length (render sp))%nat.
Proof.
  intros Hw H. revert Hw. induction H; intros Hw; cbn [render length]; [lia| |].
  - assert (Hwk : wf k = true) by (apply (wf_get_at [i] cur k Hw); cbn; rewrite H0; reflexivity).
    destruct (wf_member_named cur i k Hw H H0) as (n' & Hn' & Hvn).
    assert (n' = nm) by congruence. subst.
    destruct (validate_name_shape _ Hvn) as (c & r' & -> & _).
    specialize (IHSpells Hwk). rewrite !app_length. cbn [comp_bytes length]. lia.
  - assert (Hwk : wf k = true) by (apply (wf_get_at [i] cur k Hw); cbn; rewrite H0; reflexivity).
    specialize (IHSpells Hwk). rewrite !app_length. cbn [comp_bytes length]. lia.
Qed.

(* every spelling of a non-empty path resolves to exactly that setting *)
Theorem lookup_resolves b sp ip :
  wf b = true -> Spells b true sp ip -> sp <> [] -> lookup b (render sp) = Some ip.
Proof.
  intros Hw H Hne. unfold lookup.
  destruct (spells_get_at _ _ _ _ H) as [k Hk].
  pose proof (render_length _ _ _ _ Hw H) as Hlen.
  set (n := (S (length (render sp)) - length sp)%nat).
  replace (S (length (render sp))) with (length sp + n)%nat by (unfold n; lia).
  rewrite <- (app_nil_r (render sp)).
  rewrite (walk_spelled_prefix sp b true ip H Hw n [] [] k Hk I).
  assert (Hn : (1 <= n)%nat) by (unfold n; lia).
  destruct n as [|n']; [lia|]. cbn [walk]. rewrite app_nil_r.
  pose proof (spells_length _ _ _ _ H) as Hl.
  destruct ip as [|i ip']; [destruct sp; [congruence | discriminate]|].
  destruct (rev (i :: ip')) eqn:E.
  - apply (f_equal (@length nat)) in E. rewrite rev_length in E. discriminate.
  - rewrite <- E, rev_involutive. reflexivity.
Qed.

(* ------------------------------------------------------------------------------------ *)
(* the canonical spelling (the C++ getPath()): names where the setting has one, [index] otherwise,
   joined by '.' *)

Definition canon_comp (parent k : setting) (i : nat) : pcomp :=
  match s_name k with
  | Some nm => PCName nm
  | None => PCIdx (show_dec (Z.of_nat i))
  end.

Fixpoint canon (first : bool) (cur : setting) (ip : ipath) : spath :=
  match ip with
  | [] => []
  | i :: q =>
      match nth_error (s_kids cur) i with
      | Some k => ((if first then None else Some 46), canon_comp cur k i) :: canon false k q
      | None => []
      end
  end.

Lemma render_canon first cur ip : render (canon first cur ip) = cpp_path_from first cur ip.
Proof.
  revert first cur; induction ip as [|i q IH]; intros first cur; cbn [canon cpp_path_from render]; [reflexivity|].
  destruct (nth_error (s_kids cur) i) as [k|]; [|reflexivity].
  cbn [render]. rewrite IH. unfold canon_comp.
  destruct first; destruct (s_name k); cbn [optsep comp_bytes app]; rewrite <- ?app_assoc; reflexivity.
Qed.

Fixpoint indices_small (ip : ipath) : Prop :=
  match ip with [] => True | i :: q => Z.of_nat i <= MAX_INDEX /\ indices_small q end.

Lemma wf_kid_of_group_named cur i k : wf cur = true -> nth_error (s_kids cur) i = Some k ->
  match s_name k with
  | Some _ => s_ty cur = TGroup
  | None => ty_is_aggregate (s_ty cur) = true
  end.
Proof.
  intros Hw Hk. apply wf_kids in Hw as [_ Hko]. unfold kids_ok in Hko.
  apply andb_true_iff in Hko as [Hall _].
  pose proof (forallb_nth _ _ _ _ Hall Hk) as H. unfold kid_ok in H. unfold s_ty.
  destruct (s_pl cur); try discriminate; destruct (s_name k); try discriminate; reflexivity.
Qed.

Lemma canon_spells cur ip k first :
  wf cur = true -> get_at ip cur = Some k -> indices_small ip ->
  Spells cur first (canon first cur ip) ip.
Proof.
  revert cur first; induction ip as [|i q IH]; intros cur first Hw Hg Hs.
  - constructor.
  - cbn [get_at] in Hg. cbn [canon]. destruct (nth_error (s_kids cur) i) as [k0|] eqn:Hk; [|discriminate].
    assert (Hwk : wf k0 = true) by (apply (wf_get_at [i] cur k0 Hw); cbn; rewrite Hk; reflexivity).
    destruct Hs as [Hi Hq].
    pose proof (wf_kid_of_group_named cur i k0 Hw Hk) as Hkind.
    assert (Hsep : sep_ok first (if first then None else Some 46)) by (destruct first; reflexivity).
    unfold canon_comp. destruct (s_name k0) as [nm|] eqn:Hn.
    + eapply Spells_name; eauto.
    + destruct (show_dec_nonneg (Z.of_nat i) ltac:(lia)) as (Hv & Hd & Hne).
      eapply Spells_idx; eauto.
Qed.

Theorem cpp_path_resolves root ip k :
  wf root = true -> get_at ip root = Some k -> ip <> [] -> indices_small ip ->
  lookup root (cpp_path root ip) = Some ip.
Proof.
  intros Hw Hg Hne Hs. unfold cpp_path. rewrite <- render_canon.
  apply lookup_resolves; [exact Hw | eapply canon_spells; eauto |].
  destruct ip as [|i q]; [congruence|]. cbn [canon]. cbn [get_at] in Hg.
  destruct (nth_error (s_kids root) i); [discriminate | discriminate].
Qed.

(* ------------------------------------------------------------------------------------ *)
(* paths that resolve to nothing *)

(* after walking a spelled prefix to [k], what remains decides *)
Lemma lookup_prefix b sp ip k tail :
  wf b = true -> Spells b true sp ip -> get_at ip b = Some k -> tail_ok tail ->
  lookup b (render sp ++ tail) = walk (S (length (render sp ++ tail)) - length sp) k (rev ip) tail.
Proof.
  intros Hw H Hg Ht. unfold lookup.
  pose proof (render_length _ _ _ _ Hw H) as Hlen.
  set (n := (S (length (render sp ++ tail)) - length sp)%nat).
  replace (S (length (render sp ++ tail))) with (length sp + n)%nat
    by (unfold n; rewrite app_length; lia).
  rewrite (walk_spelled_prefix sp b true ip H Hw n [] tail k Hg Ht). rewrite app_nil_r. reflexivity.
Qed.

(* a name that is not a member of the group reached *)
Lemma walk_missing_member f k rel o nm rest first :
  sep_ok first o -> validate_name nm = true -> tail_ok rest ->
  s_ty k = TGroup -> list_search (s_kids k) nm = None ->
  walk (S f) k rel (optsep o ++ nm ++ rest) = None.
Proof.
  intros Ho Hv Ht Hty Hs.
  destruct (validate_name_shape _ Hv) as (c & r & -> & Hc & H91 & Hns).
  pose proof (sep_step o first c (r ++ rest) Ho Hc) as Hst.
  cbn [walk]. cbn [app] in *.
  destruct (optsep o ++ c :: r ++ rest) as [|c0 p0] eqn:Ep; [discriminate|].
  injection Hst as Hst. cbn [tl] in Hst |- *. rewrite Hst.
  cbn [strip_byte]. replace (c =? 91) with false by (symmetry; apply Z.eqb_neq; exact H91).
  rewrite Hty. change (c :: r ++ rest) with ((c :: r) ++ rest).
  rewrite (span_name (c :: r) rest Hns Ht). rewrite Hs. reflexivity.
Qed.

(* an index that is not below the number of children (however large) *)
Lemma walk_index_out_of_range f k rel o ds rest first :
  sep_ok first o -> ds <> [] -> forallb is_digit ds = true ->
  Z.of_nat (length (s_kids k)) <= digits_val 10 ds ->
  walk (S f) k rel (optsep o ++ 91 :: ds ++ 93 :: rest) = None.
Proof.
  intros Ho Hne Hd Hv.
  assert (H91 : is_sep 91 = false) by reflexivity.
  pose proof (sep_step o first 91 (ds ++ 93 :: rest) Ho H91) as Hs.
  cbn [walk].
  destruct (optsep o ++ 91 :: ds ++ 93 :: rest) as [|c0 p0] eqn:Ep; [discriminate|].
  injection Hs as Hs. cbn [tl] in Hs |- *. rewrite Hs.
  cbn [strip_byte]. rewrite Z.eqb_refl.
  rewrite (strtol10_digits ds (93 :: rest) Hne Hd eq_refl).
  cbn [strip_byte]. rewrite Z.eqb_refl.
  set (idx := if digits_val 10 ds <=? LLONG_MAX then digits_val 10 ds else LLONG_MAX).
  destruct ((idx <? 0) || (4294967295 <? idx)) eqn:G; [reflexivity|].
  apply orb_false_iff in G as [G1 G2]. apply Z.ltb_ge in G1, G2.
  assert (idx = digits_val 10 ds).
  { unfold idx in *. destruct (digits_val 10 ds <=? LLONG_MAX) eqn:E; [reflexivity|]. unfold LLONG_MAX in G2. lia. }
  unfold get_elem. destruct (ty_is_aggregate (s_ty k)); [|reflexivity].
  replace (idx <? Z.of_nat (length (s_kids k))) with false by (symmetry; apply Z.ltb_ge; lia).
  rewrite andb_false_r. reflexivity.
Qed.

(* a continuation below a scalar: a further name or index component after a setting that is not an
   aggregate *)
Lemma walk_below_scalar f k rel s c rest :
  ty_is_aggregate (s_ty k) = false -> is_sep s = true -> rel <> [] ->
  walk (S f) k rel (s :: comp_bytes c ++ rest) = None \/ (comp_bytes c = [] /\ rest = []).
Proof.
  intros Hagg Hs Hrel. cbn [walk]. rewrite Hs. cbn [tl].
  destruct c as [nm|ds]; cbn [comp_bytes].
  - destruct (nm ++ rest) as [|c0 r0] eqn:E.
    + right. apply app_eq_nil in E. exact E.
    + left. cbn [strip_byte]. destruct (c0 =? 91) eqn:E91.
      * destruct (strtol10 r0) as [index q]. destruct (strip_byte 93 q); [|reflexivity].
        destruct ((index <? 0) || (4294967295 <? index)); [reflexivity|].
        unfold get_elem. rewrite Hagg. reflexivity.
      * unfold s_ty in *. destruct (s_pl k); try discriminate; reflexivity.
  - left. cbn [app strip_byte]. rewrite Z.eqb_refl.
    destruct (strtol10 _) as [index q]. destruct (strip_byte 93 q); [|reflexivity].
    destruct ((index <? 0) || (4294967295 <? index)); [reflexivity|].
    unfold get_elem. rewrite Hagg. reflexivity.
Qed.

(* whatever the walker returns designates an existing setting below the base *)
Lemma walk_sound : forall f cur rel p res,
  walk f cur rel p = Some res -> exists ip, res = rev rel ++ ip /\ exists k, get_at ip cur = Some k.
Proof.
  induction f as [|f IH]; intros cur rel p res H; [discriminate|].
  cbn [walk] in H. destruct p as [|c p'].
  - destruct rel as [|r0 rel']; [discriminate|]. injection H as <-. exists []. rewrite app_nil_r.
    split; [reflexivity|]. exists cur. reflexivity.
  - set (p1 := if is_sep c then tl (c :: p') else c :: p') in *.
    destruct (strip_byte 91 p1) as [p2|].
    + destruct (strtol10 p2) as [index q]. destruct (strip_byte 93 q) as [p3|]; [|discriminate].
      destruct (if (index <? 0) || (4294967295 <? index) then None else get_elem cur index) as [i|]; [|discriminate].
      destruct (nth_error (s_kids cur) i) as [k|] eqn:Hk; [|discriminate].
      destruct (IH _ _ _ _ H) as (ip & -> & k' & Hk').
      exists (i :: ip). split; [cbn [rev]; rewrite <- app_assoc; reflexivity|].
      exists k'. cbn [get_at]. rewrite Hk. exact Hk'.
    + destruct (s_ty cur).
      2: { destruct (span (fun c0 => negb (is_sep c0)) p1) as [nm q].
           destruct (list_search (s_kids cur) nm) as [i|]; [|discriminate].
           destruct (nth_error (s_kids cur) i) as [k|] eqn:Hk; [|discriminate].
           destruct (IH _ _ _ _ H) as (ip & -> & k' & Hk').
           exists (i :: ip). split; [cbn [rev]; rewrite <- app_assoc; reflexivity|].
           exists k'. cbn [get_at]. rewrite Hk. exact Hk'. }
      all: destruct p1; [|discriminate]; destruct rel as [|r0 rel']; [discriminate|];
        injection H as <-; exists []; rewrite app_nil_r; (split; [reflexivity|]); exists cur; reflexivity.
Qed.

Lemma walk_grows : forall f cur r p res,
  walk f cur r p = Some res -> (length r <= length res)%nat /\ (r = [] -> res <> []).
Proof.
  induction f as [|f IH]; intros cur r p res Hw; [discriminate|]. cbn [walk] in Hw.
  destruct p as [|c p'].
  - destruct r as [|r0 r']; [discriminate|]. injection Hw as <-. split; [|discriminate].
    change (length (r0 :: r') <= length (rev (r0 :: r')))%nat. rewrite rev_length. lia.
  - set (p1 := if is_sep c then tl (c :: p') else c :: p') in *.
    destruct (strip_byte 91 p1) as [p2|].
    + destruct (strtol10 p2) as [index q]. destruct (strip_byte 93 q) as [p3|]; [|discriminate].
      destruct (if (index <? 0) || (4294967295 <? index) then None else get_elem cur index) as [i|]; [|discriminate].
      destruct (nth_error (s_kids cur) i) as [k|]; [|discriminate].
      destruct (IH _ _ _ _ Hw) as [Hl _]. cbn [length] in Hl. split; [lia|]. intros _ ->. cbn in Hl. lia.
    + destruct (s_ty cur).
      2: { destruct (span (fun c0 => negb (is_sep c0)) p1) as [nm q].
           destruct (list_search (s_kids cur) nm) as [i|]; [|discriminate].
           destruct (nth_error (s_kids cur) i) as [k|]; [|discriminate].
           destruct (IH _ _ _ _ Hw) as [Hl _]. cbn [length] in Hl. split; [lia|]. intros _ ->. cbn in Hl. lia. }
      all: destruct p1; [|discriminate]; destruct r as [|r0 r']; [discriminate|];
        injection Hw as <-; (split; [|discriminate]);
        change (length (r0 :: r') <= length (rev (r0 :: r')))%nat; rewrite rev_length; lia.
Qed.

Theorem lookup_sound b p rel : lookup b p = Some rel -> rel <> [] /\ exists k, get_at rel b = Some k.
Proof.
  unfold lookup. intros H. split.
  - destruct (walk_grows _ _ _ _ _ H) as [_ G2]. apply G2. reflexivity.
  - destruct (walk_sound _ _ _ _ _ H) as (ip & -> & k & Hk). exact (ex_intro _ k Hk).
Qed.
