(* WriteFile.v — config_write_file over a small model of stdio and of the device behind the file.
   Definitions only.

   The device accepts a bounded number of bytes (dv_cap: RLIMIT_FSIZE, a full disk), fsync and close may
   fail, and so may the open.  stdio is a buffered stream: of the [len] bytes that config_write produces,
   some number k (0 <= k <= len, depending on buffer size and on how the text is cut into fputs/fprintf
   calls) is pushed to the device while config_write runs; the rest stays buffered until the explicit
   fflush (fsync option) or until fclose.  A push that the device does not take completely sets the
   stream's error indicator / makes that fflush or fclose fail: this is the assumed stdio contract.
   k is a parameter: every theorem quantifies over it. *)
From Coq Require Import List ZArith Bool.
Import ListNotations.
From LC Require Import Base Tree Api.
From LC.gen Require Import Consts.
Local Open Scope Z_scope.

Record wdev := mkDev {
  dv_cap : option Z;            (* None: unlimited; Some n: the file can hold n bytes *)
  dv_fsync_fails : bool;
  dv_close_fails : bool;
  dv_open_fails : bool }.

Definition dev_ok : wdev := mkDev None false false false.

(* push n more bytes to a device holding [held]: new amount held, and whether the push failed *)
Definition push (d : wdev) (held n : Z) : Z * bool :=
  match dv_cap d with
  | None => (held + n, false)
  | Some cap => if held + n <=? cap then (held + n, false) else (Z.max held cap, true)
  end.

Record wf_result := mkWF {
  wf_ok : bool;                 (* CONFIG_TRUE / CONFIG_FALSE *)
  wf_err : errstate;
  wf_content : option bytes }.  (* what the file holds afterwards; None: not created *)

Definition io_error : errstate := mkErr 1 (Some ERR_IO) None 0.

Definition clip (lo hi x : Z) : Z := Z.max lo (Z.min hi x).

Definition write_file (text : bytes) (fsync_opt : bool) (d : wdev) (k0 : Z) : wf_result :=
  if dv_open_fails d then mkWF false io_error None
  else
    let len := Z.of_nat (length text) in
    let k := clip 0 len k0 in
    (* config_write(config, stream): k bytes leave the buffer *)
    let '(h1, e1) := push d 0 k in
    let ok1 := negb e1 in                                   (* ok = !ferror(stream) *)
    (* fsync option: fflush, then fsync *)
    let '(h2, flushed, ok2) :=
      if ok1 && fsync_opt then
        let '(h, e) := push d h1 (len - k) in
        (h, true, if e then false else negb (dv_fsync_fails d))
      else (h1, false, ok1) in
    (* fclose: flushes what is still buffered *)
    let '(h3, e3) := if flushed then (h2, false) else push d h2 (len - k) in
    let ok3 := ok2 && negb e3 && negb (dv_close_fails d) in
    mkWF ok3 (if ok3 then err0 else io_error) (Some (firstn (Z.to_nat h3) text)).
