(* Properties_C15.v — C15: reading and writing are locale-independent and leave the caller's locale intact.
   Theorems about Locale.v, the model of __config_locale_override / __config_locale_restore (POSIX branch)
   as wrapped around every read and write (with_locale).  [f] is any read or write as a function of the
   radix character in effect while it runs; nl_ok = true: newlocale succeeded (its failure is an
   allocation failure: then nothing is changed and the call runs under the caller's locale; stated below).

   History: before /repo commit 629c87b the restore installed LC_GLOBAL_LOCALE, so a thread's own locale
   was lost after any read or write (F16). *)
From Coq Require Import List ZArith Bool.
Import ListNotations.
From LC Require Import Base Locale ThreadLocale ThreadLocaleFacts.
Local Open Scope Z_scope.

(* whatever numeric locale is in effect for the process or for the calling thread, the operation runs
   with '.' as the radix character: same values, same text as in the C locale *)
Theorem C15_radix_is_dot : forall A (f : Z -> A) s, fst (with_locale true s f) = f 46.
Proof. reflexivity. Qed.
Print Assumptions C15_radix_is_dot.

Theorem C15_same_as_C_locale : forall A (f : Z -> A) s s',
  fst (with_locale true s f) = fst (with_locale true s' f).
Proof. reflexivity. Qed.
Print Assumptions C15_same_as_C_locale.

(* after the call the process-wide locale and the calling thread's own locale are what they were; the
   only object freed is the temporary one created by this call, none of the caller's *)
Theorem C15_restored : forall A (f : Z -> A) s,
  let s' := snd (with_locale true s f) in
  ls_global s' = ls_global s /\ ls_thread s' = ls_thread s /\
  ls_freed s' = ls_freed s ++ [ls_next s] /\
  (forall l, ls_thread s = Some l -> lo_id l <> ls_next s -> ~ In (lo_id l) (ls_freed s) -> ~ In (lo_id l) (ls_freed s')).
Proof.
  intros A f s. cbn. repeat split. intros l Hl Hne Hin H. apply in_app_or in H as [H|[H|[]]]; [exact (Hin H) | exact (Hne (eq_sym H))].
Qed.
Print Assumptions C15_restored.

(* over any number of reads and writes the locale state is preserved *)
Theorem C15_restored_history : forall A (fs : list (Z -> A)) s,
  let s' := fold_left (fun st f => snd (with_locale true st f)) fs s in
  ls_global s' = ls_global s /\ ls_thread s' = ls_thread s.
Proof.
  intros A fs. induction fs as [|f r IH]; intros s; cbn [fold_left]; [split; reflexivity|].
  destruct (IH (snd (with_locale true s f))) as [H1 H2]. cbv zeta in *. rewrite H1, H2. split; reflexivity.
Qed.
Print Assumptions C15_restored_history.

(* if newlocale fails nothing at all is changed (and the operation runs under the caller's locale) *)
Theorem C15_newlocale_failure : forall A (f : Z -> A) s,
  with_locale false s f = (f (eff_radix s), s).
Proof. reflexivity. Qed.

(* the parameterisation is not idle: under a comma locale without the override the results differ *)
Example C15_radix_matters :
  atof_radix (fun t => Z.of_nat (length t)) 44 [49; 46; 53] = 1 /\
  atof_radix (fun t => Z.of_nat (length t)) 46 [49; 46; 53] = 3 /\
  fmt_radix (fun _ _ _ => [49; 46; 53]) 44 0 0 false = [49; 44; 53].
Proof. repeat split. Qed.

(* ---- under concurrency (ThreadLocale.v: N threads, micro-steps Enter / Run / Leave, any schedule): every read or write whose
   newlocale succeeded runs under '.', whatever the global locale, the thread's own locale and the other threads are doing; and
   whenever no thread is inside a call, the process-wide locale and every thread's own locale are what they were initially ---- *)
Theorem C15_radix_is_dot_under_interleaving : forall (D R : Type) g n0 f0 (sps : list (ThreadLocale.tspec D R)) sched i sp th k c z,
  nth_error sps i = Some sp ->
  nth_error (ThreadLocale.m_threads (ThreadLocale.run_machine sched (ThreadLocale.init_machine g n0 f0 sps))) i = Some th ->
  nth_error (ThreadLocale.ts_prog sp) k = Some c -> nth_error (ThreadLocale.t_rad th) k = Some z ->
  ThreadLocale.c_ok c = true -> z = 46.
Proof.
  intros D R g n0 f0 sps sched i sp th k c z H1 H2 H3 H4 Hok.
  rewrite (ThreadLocaleFacts.bodies_run_under_dot D R g n0 f0 sps sched i sp th k c z H1 H2 H3 H4), Hok. reflexivity.
Qed.
Print Assumptions C15_radix_is_dot_under_interleaving.

Theorem C15_restored_under_interleaving : forall (D R : Type) g n0 f0 (sps : list (ThreadLocale.tspec D R)) sched,
  let m := ThreadLocale.run_machine sched (ThreadLocale.init_machine g n0 f0 sps) in
  ThreadLocaleFacts.quiescent m ->
  ThreadLocale.m_global m = g /\
  (forall i sp, nth_error sps i = Some sp ->
     exists th, nth_error (ThreadLocale.m_threads m) i = Some th /\ ThreadLocale.t_loc th = ThreadLocale.ts_loc sp).
Proof.
  intros D R g n0 f0 sps sched m Hq.
  destruct (ThreadLocaleFacts.restoration_under_interleaving D R g n0 f0 sps sched Hq) as (A & _ & B & _).
  split; [exact A | exact B].
Qed.
Print Assumptions C15_restored_under_interleaving.
