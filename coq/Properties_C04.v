(* Properties_C04.v — C04: the setting tree stays well-formed under every sequence of API calls.
   Theorems only; proofs in InvFacts.v.  Inv (Inv.v): the root is a nameless group; group members
   have valid, pairwise distinct names; list and array elements are nameless; array elements are
   scalars of one type; scalars have no children.  (The original tree violated this —
   config_setting_add(array, NULL, type) skipped the element-type rule; repaired by the "fix:" commit
   recorded in known_findings.json, whose witness is kept below as a regression example.) *)
From Coq Require Import List ZArith Bool.
Import ListNotations.
From LC Require Import Base Tree Fp Lookup Api ApiStep TreeFacts ApiFacts Inv InvFacts ParseWrite StructFacts.
Local Open Scope Z_scope.

Theorem C04_init : Inv cfg_init.
Proof. exact init_inv. Qed.
Print Assumptions C04_init.

(* every operation, failing calls included, preserves the invariant; the contract is only that a
   NULL name is not passed for a new member of a group *)
Theorem C04_step : forall c o, Inv c -> in_contract c o -> Inv (step_cfg c o).
Proof. exact step_inv. Qed.
Print Assumptions C04_step.

(* hence every state reachable by a finite in-contract history is well-formed *)
Theorem C04_reachable : forall ops, in_contract_all cfg_init ops -> Inv (run_ops cfg_init ops).
Proof. intros ops H. exact (run_inv ops cfg_init init_inv H). Qed.
Print Assumptions C04_reachable.

(* queries agree with the children, in order *)
Theorem C04_member_by_name : forall s i k n,
  wf s = true -> s_ty s = TGroup -> nth_error (s_kids s) i = Some k -> s_name k = Some n ->
  get_member s (Some n) = Some i.
Proof. exact member_by_name. Qed.
Print Assumptions C04_member_by_name.

Theorem C04_elem_by_index : forall s (i : nat),
  ty_is_aggregate (s_ty s) = true ->
  get_elem s (Z.of_nat i) = (if Nat.ltb i (length (s_kids s)) then Some i else None).
Proof. exact elem_by_index. Qed.
Print Assumptions C04_elem_by_index.

Theorem C04_members_named : forall s i k,
  wf s = true -> s_ty s = TGroup -> nth_error (s_kids s) i = Some k ->
  exists n, s_name k = Some n /\ validate_name n = true.
Proof. exact wf_member_named. Qed.
Print Assumptions C04_members_named.

Theorem C04_elements_nameless_same_type : forall s i k,
  wf s = true -> (s_ty s = TArray \/ s_ty s = TList) -> nth_error (s_kids s) i = Some k ->
  s_name k = None /\ (s_ty s = TArray -> ty_is_scalar (s_ty k) = true /\
                      forall j k', nth_error (s_kids s) j = Some k' -> s_ty k' = s_ty k).
Proof. exact wf_element_nameless. Qed.
Print Assumptions C04_elements_nameless_same_type.

(* wf is inherited by every setting of the tree *)
Theorem C04_everywhere : forall p r s, wf r = true -> get_at p r = Some s -> wf s = true.
Proof. exact wf_get_at. Qed.
Print Assumptions C04_everywhere.

(* ---- non-vacuity and regression ---- *)
Definition ex_ops : list aop :=
  [OAdd [] (Some [97]) 7; OAdd [0%nat] None 2; OAdd [0%nat] None 5;
   OSetElem KInt [0%nat] (-1) (AZ 3); OAdd [] (Some [103]) 1; OAdd [1%nat] (Some [120]) 0;
   OSet KString [1%nat; 0%nat] (AS (Some [104])); ORemove [] (Some [97])].

Example ex_ops_in_contract : in_contract_all cfg_init ex_ops.
Proof.
  cbn [in_contract_all ex_ops in_contract]. unfold add_in_contract.
  repeat split; intros s Hs Hty; try discriminate;
    vm_compute in Hs; injection Hs as <-; discriminate Hty.
Qed.

(* the former counterexample: the third call now fails and the array keeps one element type *)
Example ex_array_add_rejected :
  snd (fst (api_step (run_ops cfg_init (firstn 2 ex_ops)) (OAdd [0%nat] None 5))) = RNode None.
Proof. reflexivity. Qed.
Example ex_final_wf : wf (c_root (run_ops cfg_init ex_ops)) = true.
Proof. reflexivity. Qed.

(* ---- the invariant delivers the shape hypothesis of the round trip (C01) and of the canonical parse (C02):
   homogeneous arrays of scalars, members with valid pairwise distinct names, at every level ---- *)
Theorem C04_gives_parse_shape : forall s, wf s = true -> pstruct s.
Proof. exact wf_pstruct. Qed.
Print Assumptions C04_gives_parse_shape.

Theorem C04_reachable_parse_shape : forall ops, in_contract_all cfg_init ops -> pstruct (c_root (run_ops cfg_init ops)).
Proof. exact reachable_pstruct. Qed.
Print Assumptions C04_reachable_parse_shape.
