(* Lookup.v — byte-level model of config_setting_lookup_const and friends.  Definitions only. *)
From Coq Require Import List ZArith Bool.
Import ListNotations.
From LC Require Import Base Tree.
Local Open Scope Z_scope.

(* strchr(PATH_TOKENS, c) for a non-NUL c; PATH_TOKENS = ":./" *)
Definition is_sep (c : Z) : bool := (c =? 58) || (c =? 46) || (c =? 47).

(* strtol(s, &q, 10) on a NUL-terminated string; returns the value and the unparsed rest
   (the whole input when no digit was found).  LONG is 64 bits (LP64). *)
Definition strtol10 (s : bytes) : Z * bytes :=
  let '(_, s1) := span is_space s in
  let '(neg, s2) :=
    match s1 with
    | 45 :: r => (true, r)
    | 43 :: r => (false, r)
    | _ => (false, s1)
    end in
  let '(ds, rest) := span is_digit s2 in
  match ds with
  | [] => (0, s)
  | _ =>
      let v := digits_val 10 ds in
      let v' := if neg then (if LLONG_MIN <=? - v then - v else LLONG_MIN)
                else (if v <=? LLONG_MAX then v else LLONG_MAX) in
      (v', rest)
  end.

(* __config_list_search: first child that has a name equal to [nm]; result: its index *)
Definition name_is (nm : bytes) (s : setting) : bool :=
  match s_name s with Some n => bytes_eqb n nm | None => false end.

Definition list_search (kids : list setting) (nm : bytes) : option nat :=
  find_index (name_is nm) kids.

(* config_setting_get_elem(setting, unsigned idx) : index of the child *)
Definition get_elem (s : setting) (idx : Z) : option nat :=
  if ty_is_aggregate (s_ty s) then
    if (0 <=? idx) && (idx <? Z.of_nat (length (s_kids s))) then Some (Z.to_nat idx) else None
  else None.

(* p = c :: r with c = ch ?  (pattern tests on a literal byte, written with =? so that proofs can
   case on the comparison) *)
Definition strip_byte (ch : Z) (p : bytes) : option bytes :=
  match p with
  | c :: r => if c =? ch then Some r else None
  | [] => None
  end.

(* The walker.  [cur] is the setting reached so far, [rel] the index path walked (reversed).
   Result: None = NULL, Some rel = the setting at that relative index path. *)
Fixpoint walk (fuel : nat) (cur : setting) (rel : list nat) (p : bytes) : option (list nat) :=
  match fuel with
  | O => None
  | S fuel' =>
      match p with
      | [] => match rel with [] => None | _ => Some (rev rel) end
      | c :: _ =>
          let p1 := if is_sep c then tl p else p in
          match strip_byte 91 p1 with                    (* '[' *)
          | Some p2 =>
              let '(index, q) := strtol10 p2 in
              match strip_byte 93 q with                 (* ']' *)
              | Some p3 =>
                  match (if (index <? 0) || (4294967295 <? index) then None
                         else get_elem cur index) with
                  | Some i =>
                      match nth_error (s_kids cur) i with
                      | Some k => walk fuel' k (i :: rel) p3
                      | None => None
                      end
                  | None => None
                  end
              | None => None
              end
          | None =>
              match s_ty cur with
              | TGroup =>
                  let '(nm, q) := span (fun c => negb (is_sep c)) p1 in
                  match list_search (s_kids cur) nm with
                  | Some i =>
                      match nth_error (s_kids cur) i with
                      | Some k => walk fuel' k (i :: rel) q
                      | None => None
                      end
                  | None => None
                  end
              | _ =>                                      (* break *)
                  match p1, rel with
                  | [], _ :: _ => Some (rev rel)
                  | _, _ => None
                  end
              end
          end
      end
  end.

Definition lookup (base : setting) (path : bytes) : option (list nat) :=
  walk (S (length path)) base [] path.

(* config_setting_get_member *)
Definition get_member (s : setting) (nm : option bytes) : option nat :=
  match s_ty s, nm with
  | TGroup, Some n => list_search (s_kids s) n
  | _, _ => None
  end.

(* the last path component as config_setting_remove computes it: the text after the last
   separator (empty when the path ends with one) *)
Fixpoint last_component (acc : bytes) (p : bytes) : bytes :=
  match p with
  | [] => rev acc
  | c :: r => if is_sep c then last_component [] r else last_component (c :: acc) r
  end.

(* __config_validate_name *)
Definition name_rest_ok (c : Z) : bool :=
  is_alpha c || is_digit c || (c =? 42) || (c =? 95) || (c =? 45).
Definition validate_name (n : bytes) : bool :=
  match n with
  | [] => false
  | c :: r => (is_alpha c || (c =? 42)) && forallb name_rest_ok r
  end.

(* Setting::getPath(): __constructPath *)
Fixpoint cpp_path_from (first : bool) (cur : setting) (ip : ipath) : bytes :=
  match ip with
  | [] => []
  | i :: q =>
      match nth_error (s_kids cur) i with
      | Some k =>
          (if first then [] else [46]) ++
          (match s_name k with
           | Some nm => nm
           | None => [91] ++ show_dec (Z.of_nat i) ++ [93]
           end) ++ cpp_path_from false k q
      | None => []
      end
  end.
Definition cpp_path (root : setting) (ip : ipath) : bytes := cpp_path_from true root ip.

