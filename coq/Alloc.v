(* Alloc.v — the allocation discipline: every allocation request of the library goes through a call site;
   a site inside a checked wrapper calls the registered fatal-error function when the allocator returns
   NULL, before the NULL can reach the caller.  Definitions only. *)
From Coq Require Import List String Bool Arith.
Import ListNotations.
From LC.gen Require Import Census.
Local Open Scope string_scope.

Inductive site_kind :=
| Checked          (* inside libconfig_malloc/calloc/realloc/strdup: NULL => fatal-error function *)
| Throwing         (* C++ new / new-expression: throws std::bad_alloc by itself *)
| Unchecked.       (* the NULL is returned to the code that asked for the memory *)

Definition is_cpp (f : string) : bool := String.eqb f "libconfigcpp.c++".

Definition wrapper_is_checked (name : string) : bool :=
  existsb (fun w => String.eqb (fst w) name && snd w) wrappers_checked.

Definition kind_of_site (s : alloc_site) : site_kind :=
  match al_class s with
  | Wrapped => if wrapper_is_checked (al_fun s) then Checked else Unchecked
  | Raw => if String.eqb (al_callee s) "new" then Throwing else Unchecked
  end.

(* one library call = the sequence of sites through which it requests memory *)
Definition trace := list alloc_site.

Inductive outcome :=
| Completed                  (* no allocation failed *)
| FatalAt (k : nat)          (* fatal-error function invoked for request k, before the memory is used *)
| ThrowsAt (k : nat)         (* std::bad_alloc thrown by operator new at request k *)
| NullUsedAt (k : nat).      (* request k returned NULL to the library code *)

(* the k-th request (from 0) is made to fail *)
Fixpoint run_alloc (tr : trace) (k : nat) (i : nat) : outcome :=
  match tr with
  | [] => Completed
  | s :: r =>
      if Nat.eqb i k then
        match kind_of_site s with Checked => FatalAt i | Throwing => ThrowsAt i | Unchecked => NullUsedAt i end
      else run_alloc r k (S i)
  end.

Definition c_library_sites : list alloc_site := filter (fun s => negb (is_cpp (al_file s))) alloc_sites.
Definition cpp_sites : list alloc_site := filter (fun s => is_cpp (al_file s)) alloc_sites.
