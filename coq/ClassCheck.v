(* ClassCheck.v — technique T-A for classes of lexemes: a finite certificate that EVERY word of a regular
   class, when followed by one of the given bytes, is matched whole by one of the expected rules of a rule
   list (longest match, first rule), with a soundness proof.  The exploration is untrusted search; what is
   proved sound is the loop-free class_closed. *)
From Coq Require Import List ZArith NArith Bool Lia.
Import ListNotations.
From LC Require Import Base Regex RegexFacts FlexEngine Bisim.
Local Open Scope Z_scope.

Definition cpair := (re * list rule)%type.      (* (derivative of the class, derivatives of the rules) *)
Definition cpair_eqb (p q : cpair) : bool := re_eqb (fst p) (fst q) && rules_eqb (snd p) (snd q).
Definition cmem (p : cpair) (S : list cpair) : bool := existsb (cpair_eqb p) S.

Section Class.
  Variable exps : list Z.        (* rule numbers a word of the class may be matched by *)
  Variable delims : list Z.      (* bytes that may follow the word *)

  Definition all_dead (v : list rule) : bool := forallb (fun ir => is_emp (snd ir)) v.

  (* at the end of a class word: the first matching rule is an expected one, and no rule can go on with
     any of the following bytes *)
  Definition end_ok (v : list rule) : bool :=
    match first_nullable v with
    | Some i => existsb (Z.eqb i) exps && forallb (fun d => all_dead (dstep d v)) delims
    | None => false
    end.

  Definition cbyte_ok (S : list cpair) (r : re) (v : list rule) (b : Z) : bool :=
    let r' := deriv b r in is_emp r' || cmem (r', dstep b v) S.

  Definition cpair_ok (S : list cpair) (p : cpair) : bool :=
    (if nullable (fst p) then end_ok (snd p) else true) && forallb (cbyte_ok S (fst p) (snd p)) all_bytes.

  Definition class_closed (S : list cpair) : bool := forallb (cpair_ok S) S.

  (* ---- untrusted exploration ---- *)
  Definition csuccs (p : cpair) : list cpair :=
    flat_map (fun b => let r' := deriv b (fst p) in
                       if is_emp r' then [] else [(r', dstep b (snd p))]) all_bytes.

  Fixpoint cexplore (fuel : nat) (todo seen : list cpair) : list cpair :=
    match fuel with
    | O => seen
    | S f =>
        match todo with
        | [] => seen
        | p :: rest =>
            if cmem p seen then cexplore f rest seen
            else cexplore f (filter (fun x => negb (cmem x seen)) (csuccs p) ++ rest) (p :: seen)
        end
    end.

  (* ---- soundness ---- *)
  Lemma cmem_in p S : cmem p S = true -> In p S.
  Proof.
    unfold cmem. intros H. apply existsb_exists in H as (x & Hin & E).
    unfold cpair_eqb in E. apply andb_true_iff in E as [E1 E2].
    apply re_eqb_eq in E1. apply rules_eqb_eq in E2. destruct p, x; cbn in *; subst. exact Hin.
  Qed.

  Lemma all_dead_sound v : all_dead v = true -> Forall (fun ir => dead (snd ir)) v.
  Proof.
    unfold all_dead. rewrite forallb_forall. intros H. apply Forall_forall. intros ir Hir.
    exact (is_emp_sound _ (H _ Hir)).
  Qed.

  Theorem class_lm St : class_closed St = true ->
    forall w r v n last d rest, In (r, v) St -> matches r w -> bytes_ok w -> In d delims ->
    exists i, In i exps /\ lm v n last (w ++ d :: rest) = Some (i, (n + length w)%nat).
  Proof.
    intros HC. unfold class_closed in HC. rewrite forallb_forall in HC.
    induction w as [|b w IH]; intros r v n last d rest Hin Hm Hb Hd.
    - specialize (HC _ Hin). unfold cpair_ok in HC. cbn [fst snd] in HC. apply andb_true_iff in HC as [He _].
      assert (N : nullable r = true) by (apply nullable_correct; exact Hm). rewrite N in He.
      unfold end_ok in He. destruct (first_nullable v) as [i|] eqn:F; [|discriminate].
      apply andb_true_iff in He as [H1 H2]. apply existsb_exists in H1 as (j & Hj & E). apply Z.eqb_eq in E. subst j.
      exists i. split; [exact Hj|]. cbn [app lm]. rewrite F.
      rewrite forallb_forall in H2. specialize (H2 d Hd).
      rewrite (lm_dead rest _ _ _ (all_dead_sound _ H2)). cbn [length]. rewrite Nat.add_0_r. reflexivity.
    - pose proof (HC _ Hin) as HP. unfold cpair_ok in HP. cbn [fst snd] in HP. apply andb_true_iff in HP as [_ Hbytes].
      inversion Hb as [|? ? Hb1 Hb2]; subst.
      rewrite forallb_forall in Hbytes. specialize (Hbytes b (in_all_bytes b Hb1)). unfold cbyte_ok in Hbytes. cbv zeta in Hbytes.
      assert (Hm' : matches (deriv b r) w) by (apply deriv_correct; exact Hm).
      apply orb_true_iff in Hbytes as [He | Hmem].
      + exfalso. exact (is_emp_sound _ He w Hm').
      + cbn [app lm length].
        destruct (IH (deriv b r) (dstep b v) (S n)
                     (match first_nullable v with Some i => Some (i, n) | None => last end) d rest
                     (cmem_in _ _ Hmem) Hm' Hb2 Hd) as (i & Hi & E).
        exists i. split; [exact Hi|]. rewrite E. f_equal. f_equal. lia.
  Qed.
End Class.

(* the statement on the compiled scanner: through the equivalence of the flex automaton with the rule list *)
Theorem class_longest_match exps delims S cls rs :
  class_closed exps delims S = true -> cmem (cls, rs) S = true ->
  forall w d rest, matches cls w -> bytes_ok w -> In d delims ->
  exists i, In i exps /\ longest_match rs (w ++ d :: rest) = Some (i, length w).
Proof.
  intros HC Hs w d rest Hm Hb Hd. unfold longest_match.
  destruct (class_lm exps delims S HC w cls rs O None d rest (cmem_in _ _ Hs) Hm Hb Hd) as (i & Hi & E).
  exists i. split; [exact Hi | exact E].
Qed.
