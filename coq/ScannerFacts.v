(* ScannerFacts.v — consequences of the certificates of ScannerCert.v (lemmas behind Properties_C18 and
   Properties_C03). *)
From Coq Require Import List ZArith NArith Bool Lia.
Import ListNotations.
From LC Require Import Base Regex RegexFacts FlexEngine Bisim ScanAction ScannerSpec ScannerCert.
From LC.gen Require Import ScannerTables.
Local Open Scope Z_scope.

Global Opaque cert explore closed_check.
Global Strategy opaque [cert explore closed_check].

(* all statements are proved condition by condition (the ten pairs are concrete, so nothing has to be
   compared symbolically) *)
Ltac each_condition H :=
  unfold all_conditions in H;
  repeat (destruct H as [H | H]; [injection H as <- <- |]); [.. | destruct H].

Theorem scanner_is_spec sc bol bs :
  In (sc, bol) all_conditions -> bytes_ok bs ->
  flex_match the_tables sc bol bs = longest_match (spec_rules sc bol) bs.
Proof.
  intros Hc Hb. pose proof Hc as Hc0. revert Hc0. each_condition Hc; intros Hc.
  all: assert (C1 : closed_check the_tables (cert _ _) = true)
    by exact (proj1 (forallb_forall closed_ok all_conditions) all_closed_checked (_, _) Hc).
  all: assert (C2 : pmem (start_pair _ _) (cert _ _) = true)
    by exact (proj1 (forallb_forall start_ok all_conditions) all_start_checked (_, _) Hc).
  all: exact (flex_is_longest_match the_tables (cert _ _) _ _ (spec_rules _ _) C1 C2 bs Hb).
Qed.

Lemma first_match_in rs w i : first_match rs w i -> exists r, In (i, r) rs /\ matches r w.
Proof.
  intros (l1 & r & l2 & -> & Hm & _). exists r. split; [|exact Hm]. apply in_or_app. right. left. reflexivity.
Qed.

Lemma first_nullable_some_match b rs i :
  first_nullable (dstep b rs) = Some i -> exists r, In (i, r) rs /\ matches r [b].
Proof.
  induction rs as [|[j r] rest IH]; cbn; [discriminate|].
  destruct (nullable (deriv b r)) eqn:N.
  - intros [= <-]. exists r. split; [left; reflexivity|]. apply deriv_correct. apply nullable_correct. exact N.
  - intros H. destruct (IH H) as (r0 & Hin & Hm). exists r0. split; [right; exact Hin | exact Hm].
Qed.

Lemma progress_facts sc bol :
  In (sc, bol) all_conditions ->
  (forall ir, In ir (spec_rules sc bol) -> nullable (snd ir) = false) /\
  (forall b, 0 <= b < 256 -> first_nullable (dstep b (spec_rules sc bol)) <> None).
Proof.
  intros Hc. pose proof Hc as Hc0. revert Hc0. each_condition Hc; intros Hc.
  all: match goal with |- (forall ir, In ir (spec_rules ?s ?b) -> _) /\ _ =>
    assert (P1 : nonnull_ok (s, b) = true)
      by exact (proj1 (forallb_forall nonnull_ok all_conditions) nonnull_checked (s, b) Hc);
    assert (P2 : first_byte_ok (s, b) = true)
      by exact (proj1 (forallb_forall first_byte_ok all_conditions) first_byte_checked (s, b) Hc);
    unfold nonnull_ok in P1; unfold first_byte_ok in P2; cbn [fst snd] in P1, P2 end.
  all: split;
    [ intros ir Hin; pose proof (proj1 (forallb_forall _ _) P1 ir Hin) as H; apply negb_true_iff in H; exact H
    | intros b Hb; pose proof (proj1 (forallb_forall _ _) P2 b (in_all_bytes b Hb)) as H; cbv beta in H;
      destruct (first_nullable (dstep b (spec_rules _ _))); [discriminate | discriminate] ].
Qed.

(* every call of the matcher on a non-empty input selects one of the documented rules and consumes at
   least one byte *)
Theorem scanner_progress sc bol b r :
  In (sc, bol) all_conditions -> bytes_ok (b :: r) ->
  exists rule len pat,
    flex_match the_tables sc bol (b :: r) = Some (rule, len) /\ (1 <= len <= length (b :: r))%nat /\
    In (rule, pat) (spec_rules sc bol) /\ matches pat (firstn len (b :: r)).
Proof.
  intros Hc Hb. rewrite (scanner_is_spec sc bol (b :: r) Hc Hb).
  destruct (progress_facts sc bol Hc) as [Pn Pb].
  inversion Hb as [|? ? Hb1 _]; subst.
  specialize (Pb b Hb1).
  destruct (first_nullable (dstep b (spec_rules sc bol))) as [i0|] eqn:F; [|congruence].
  destruct (first_nullable_some_match _ _ _ F) as (r0 & Hin0 & Hm0).
  pose proof (longest_match_spec (spec_rules sc bol) (b :: r)) as L.
  destruct (longest_match (spec_rules sc bol) (b :: r)) as [[i n]|].
  - destruct L as (Hn & Hf & _). destruct (first_match_in _ _ _ Hf) as (pat & Hin & Hm).
    exists i, n, pat. split; [reflexivity|]. split; [|split; assumption].
    split; [|exact Hn]. destruct n as [|n']; [|lia]. exfalso.
    change (firstn 0 (b :: r)) with (@nil Z) in Hm.
    specialize (Pn (i, pat) Hin). apply nullable_correct in Hm. cbn [snd] in Pn. congruence.
  - exfalso. apply (L 1%nat (le_n_S _ _ (Nat.le_0_l _)) (i0, r0) Hin0). exact Hm0.
Qed.

(* rule numbers of the specification are 1..47; the flex default rule (ECHO to stdout) is 48 *)
Lemma spec_rule_numbers sc bol i r : In (i, r) (spec_rules sc bol) -> 1 <= i <= 47.
Proof.
  unfold spec_rules. intros H. apply in_map_iff in H as (s & E & Hs). apply filter_In in Hs as [Hs _].
  injection E as <- _. clear -Hs. unfold spec in Hs.
  repeat (destruct Hs as [<- | Hs]; [cbn; lia|]). destruct Hs.
Qed.

Fixpoint action_of (l : list (Z * action)) (r : Z) : action :=
  match l with
  | [] => AUnknown
  | (n, a) :: rest => if n =? r then a else action_of rest r
  end.

Lemma no_echo_action i : 1 <= i <= 47 -> action_of yy_actions i <> AEcho /\ action_of yy_actions i <> AUnknown.
Proof.
  intros H. rewrite actions_as_documented.
  assert (E : i = 1 \/ i = 2 \/ i = 3 \/ i = 4 \/ i = 5 \/ i = 6 \/ i = 7 \/ i = 8 \/ i = 9 \/ i = 10 \/
              i = 11 \/ i = 12 \/ i = 13 \/ i = 14 \/ i = 15 \/ i = 16 \/ i = 17 \/ i = 18 \/ i = 19 \/ i = 20 \/
              i = 21 \/ i = 22 \/ i = 23 \/ i = 24 \/ i = 25 \/ i = 26 \/ i = 27 \/ i = 28 \/ i = 29 \/ i = 30 \/
              i = 31 \/ i = 32 \/ i = 33 \/ i = 34 \/ i = 35 \/ i = 36 \/ i = 37 \/ i = 38 \/ i = 39 \/ i = 40 \/
              i = 41 \/ i = 42 \/ i = 43 \/ i = 44 \/ i = 45 \/ i = 46 \/ i = 47) by lia.
  repeat (destruct E as [-> | E]; [split; discriminate|]). subst. split; discriminate.
Qed.
