(* ConstsCheck.v — the constants written into the hand-made model equal the ones the translator reads
   from /repo (coq/gen/Consts.v).  A changed constant in the code breaks these obligations. *)
From Coq Require Import List ZArith.
Import ListNotations.
From LC Require Import Base Tree Lookup.
From LC.gen Require Import Consts.
Local Open Scope Z_scope.

Example option_bits_as_modelled :
  [OPT_AUTOCONVERT; OPT_SEMICOLON; OPT_COLON_GROUPS; OPT_COLON_NONGROUPS; OPT_BRACE_NEWLINE; OPT_SCI;
   OPT_FSYNC; OPT_OVERRIDES]
  = [CONFIG_OPTION_AUTOCONVERT; CONFIG_OPTION_SEMICOLON_SEPARATORS; CONFIG_OPTION_COLON_ASSIGNMENT_FOR_GROUPS;
     CONFIG_OPTION_COLON_ASSIGNMENT_FOR_NON_GROUPS; CONFIG_OPTION_OPEN_BRACE_ON_SEPARATE_LINE;
     CONFIG_OPTION_ALLOW_SCIENTIFIC_NOTATION; CONFIG_OPTION_FSYNC; CONFIG_OPTION_ALLOW_OVERRIDES].
Proof. reflexivity. Qed.

Example type_codes_as_modelled :
  map ty_code [TNone; TGroup; TInt; TInt64; TFloat; TString; TBool; TArray; TList]
  = [CONFIG_TYPE_NONE; CONFIG_TYPE_GROUP; CONFIG_TYPE_INT; CONFIG_TYPE_INT64; CONFIG_TYPE_FLOAT;
     CONFIG_TYPE_STRING; CONFIG_TYPE_BOOL; CONFIG_TYPE_ARRAY; CONFIG_TYPE_LIST].
Proof. reflexivity. Qed.

Example init_as_modelled :
  (c_options cfg_init, c_tab cfg_init, c_prec cfg_init)
  = (DEFAULT_OPTIONS, DEFAULT_TAB_WIDTH, DEFAULT_FLOAT_PRECISION).
Proof. reflexivity. Qed.

Example path_tokens_as_modelled :
  forallb is_sep PATH_TOKENS = true /\ length PATH_TOKENS = 3%nat.
Proof. split; reflexivity. Qed.

Example formats_and_truth_as_modelled :
  (CONFIG_FORMAT_DEFAULT, CONFIG_FORMAT_HEX, CONFIG_TRUE, CONFIG_FALSE) = (0, 1, 1, 0).
Proof. reflexivity. Qed.
