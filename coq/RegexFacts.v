(* RegexFacts.v — correctness of nullable / deriv / the smart constructors, and the declarative
   characterisation of longest_match. *)
From Coq Require Import List ZArith NArith Bool Lia.
Import ListNotations.
From LC Require Import Base Regex.
Local Open Scope Z_scope.

Lemma re_eqb_eq a : forall b, re_eqb a b = true -> a = b.
Proof.
  induction a as [| |x|a1 IH1 a2 IH2|a1 IH1 a2 IH2|a IH]; intros [| |y|b1 b2|b1 b2|b]; cbn; try discriminate; intros H.
  - reflexivity.
  - reflexivity.
  - apply N.eqb_eq in H. congruence.
  - apply andb_true_iff in H as [H1 H2]. rewrite (IH1 _ H1), (IH2 _ H2). reflexivity.
  - apply andb_true_iff in H as [H1 H2]. rewrite (IH1 _ H1), (IH2 _ H2). reflexivity.
  - rewrite (IH _ H). reflexivity.
Qed.

(* ---- inversion ---- *)
Lemma m_emp w : ~ matches Emp w. Proof. intros H; inversion H. Qed.
Lemma m_eps w : matches Eps w -> w = []. Proof. intros H; inversion H; reflexivity. Qed.
Lemma m_chr cs w : matches (Chr cs) w -> exists b, w = [b] /\ in_cs cs b = true.
Proof. intros H; inversion H; subst. eauto. Qed.
Lemma m_cat a c w : matches (Cat a c) w -> exists u v, w = u ++ v /\ matches a u /\ matches c v.
Proof. intros H; inversion H; subst. eauto. Qed.
Lemma m_alt a c w : matches (Alt a c) w -> matches a w \/ matches c w.
Proof. intros H; inversion H; subst; auto. Qed.
Lemma m_star a w : matches (Star a) w ->
  w = [] \/ exists u v, w = u ++ v /\ u <> [] /\ matches a u /\ matches (Star a) v.
Proof. intros H; inversion H; subst; [left; reflexivity | right; eauto 8]. Qed.

Lemma nullable_correct r : nullable r = true <-> matches r [].
Proof.
  split.
  - induction r as [| |x|a IHa c IHc|a IHa c IHc|a IH]; cbn; intros H; try discriminate.
    + constructor.
    + apply andb_true_iff in H as [H1 H2]. change (@nil Z) with (@nil Z ++ []). constructor; auto.
    + apply orb_true_iff in H as [H|H]; [apply MAltL | apply MAltR]; auto.
    + constructor.
  - induction r as [| |x|a IHa c IHc|a IHa c IHc|a IH]; cbn; intros H.
    + exfalso; eapply m_emp; eauto.
    + reflexivity.
    + apply m_chr in H as (b & E & _). discriminate.
    + apply m_cat in H as (u & v & E & Hu & Hv). symmetry in E. apply app_eq_nil in E as [-> ->].
      rewrite IHa, IHc by assumption. reflexivity.
    + apply m_alt in H as [H|H]; [rewrite IHa by assumption; reflexivity | rewrite IHc by assumption; apply orb_true_r].
    + reflexivity.
Qed.

(* ---- smart constructors ---- *)
Lemma cat_emp_r a : cat a Emp = Emp.
Proof. destruct a; reflexivity. Qed.
Lemma cat_emp_l c : cat Emp c = Emp.
Proof. destruct c; reflexivity. Qed.
Lemma cat_eps_l c : cat Eps c = c.
Proof. destruct c; reflexivity. Qed.
Lemma cat_cat x y c : c <> Emp -> cat (Cat x y) c = Cat x (cat y c).
Proof. destruct c; try congruence; reflexivity. Qed.
Definition atom (a : re) : Prop := match a with Chr _ | Alt _ _ | Star _ => True | _ => False end.
Lemma cat_atom a c : atom a -> c <> Emp -> cat a c = match c with Eps => a | _ => Cat a c end.
Proof. destruct a; cbn; try tauto; intros _; destruct c; try congruence; reflexivity. Qed.

Lemma m_cat_eps_r a w : matches (Cat a Eps) w <-> matches a w.
Proof.
  split; intros H.
  - apply m_cat in H as (u & v & -> & Hu & Hv). apply m_eps in Hv; subst. rewrite app_nil_r. exact Hu.
  - rewrite <- (app_nil_r w). constructor; [assumption | constructor].
Qed.
Lemma m_cat_eps_l c w : matches (Cat Eps c) w <-> matches c w.
Proof.
  split; intros H.
  - apply m_cat in H as (u & v & -> & Hu & Hv). apply m_eps in Hu; subst. exact Hv.
  - change w with ([] ++ w). constructor; [constructor | assumption].
Qed.
Lemma m_cat_emp_r a w : ~ matches (Cat a Emp) w.
Proof. intros H. apply m_cat in H as (u & v & _ & _ & Hv). exact (m_emp _ Hv). Qed.
Lemma m_cat_emp_l c w : ~ matches (Cat Emp c) w.
Proof. intros H. apply m_cat in H as (u & v & _ & Hu & _). exact (m_emp _ Hu). Qed.

Lemma cat_correct a : forall c w, matches (cat a c) w <-> matches (Cat a c) w.
Proof.
  assert (Hatom : forall a0 c w, atom a0 -> c <> Emp -> (matches (cat a0 c) w <-> matches (Cat a0 c) w)).
  { intros a0 c w Ha Hc. rewrite (cat_atom a0 c Ha Hc). destruct c; try tauto. symmetry. apply m_cat_eps_r. }
  induction a as [| |x|a1 IH1 a2 IH2|a1 IH1 a2 IH2|a IH]; intros c w;
    (assert (Dc : c = Emp \/ c <> Emp) by (destruct c; auto; right; discriminate));
    destruct Dc as [-> | Hc];
    try (rewrite cat_emp_r; split; intros H; [exfalso; exact (m_emp _ H) | exfalso; exact (m_cat_emp_r _ _ H)]).
  - rewrite cat_emp_l. split; intros H; [exfalso; exact (m_emp _ H) | exfalso; exact (m_cat_emp_l _ _ H)].
  - rewrite cat_eps_l. symmetry. apply m_cat_eps_l.
  - apply Hatom; [exact I | exact Hc].
  - rewrite (cat_cat a1 a2 c Hc). split; intros H.
    + apply m_cat in H as (u & v & -> & Hu & Hv). apply IH2 in Hv. apply m_cat in Hv as (v1 & v2 & -> & Hv1 & Hv2).
      rewrite app_assoc. constructor; [constructor; assumption | assumption].
    + apply m_cat in H as (u & v & -> & Hu & Hv). apply m_cat in Hu as (u1 & u2 & -> & Hu1 & Hu2).
      rewrite <- app_assoc. constructor; [assumption|]. apply IH2. constructor; assumption.
  - apply Hatom; [exact I | exact Hc].
  - apply Hatom; [exact I | exact Hc].
Qed.

Lemma alt_mem_sound a c : alt_mem a c = true -> forall w, matches a w -> matches c w.
Proof.
  induction c as [| |x|c1 IH1 c2 IH2|c1 IH1 c2 IH2|c IH]; cbn; intros H w Hw;
    try (apply re_eqb_eq in H; subst; exact Hw).
  apply orb_true_iff in H as [H|H].
  - apply re_eqb_eq in H; subst. apply MAltL; exact Hw.
  - apply MAltR. apply IH2; assumption.
Qed.

Lemma alt1_correct a c w : matches (alt1 a c) w <-> matches a w \/ matches c w.
Proof.
  unfold alt1.
  assert (G : matches (if alt_mem a c then c else Alt a c) w <-> matches a w \/ matches c w).
  { destruct (alt_mem a c) eqn:E.
    - split; [auto|]. intros [H|H]; [eapply alt_mem_sound; eassumption | exact H].
    - split; [apply m_alt|]. intros [H|H]; [apply MAltL | apply MAltR]; assumption. }
  destruct a; try (destruct c; try exact G; split; [auto | intros [H|H]; [exact H | exfalso; eapply m_emp; eassumption]]).
  split; [auto|]. intros [H|H]; [exfalso; eapply m_emp; eassumption | exact H].
Qed.

Lemma alt_correct a : forall c w, matches (alt a c) w <-> matches a w \/ matches c w.
Proof.
  induction a as [| |x|a1 IH1 a2 IH2|a1 IH1 a2 IH2|a IH]; intros c w; cbn [alt]; try apply alt1_correct.
  rewrite alt1_correct, IH2. split.
  - intros [H|[H|H]]; auto; left; [apply MAltL | apply MAltR]; assumption.
  - intros [H|H]; auto. apply m_alt in H as [H|H]; auto.
Qed.

(* ---- derivatives ---- *)
Lemma deriv_correct b r : forall w, matches (deriv b r) w <-> matches r (b :: w).
Proof.
  induction r as [| |cs|a IHa c IHc|a IHa c IHc|a IH]; intros w; cbn [deriv].
  - split; intros H; exfalso; eapply m_emp; eassumption.
  - split; intros H; [exfalso; eapply m_emp; eassumption | apply m_eps in H; discriminate].
  - destruct (in_cs cs b) eqn:E; split; intros H.
    + apply m_eps in H; subst. constructor; assumption.
    + apply m_chr in H as (b0 & E0 & _). injection E0 as -> ->. constructor.
    + exfalso; eapply m_emp; eassumption.
    + apply m_chr in H as (b0 & E0 & H0). injection E0 as -> ->. congruence.
  - (* Cat *)
    assert (L : matches (cat (deriv b a) c) w -> matches (Cat a c) (b :: w)).
    { intros H. apply cat_correct in H. apply m_cat in H as (u & v & -> & Hu & Hv).
      change (b :: u ++ v) with ((b :: u) ++ v). constructor; [apply IHa; assumption | assumption]. }
    destruct (nullable a) eqn:N.
    + rewrite alt_correct. split.
      * intros [H|H]; [apply L; exact H|]. change (b :: w) with ([] ++ b :: w).
        constructor; [apply nullable_correct; assumption | apply IHc; assumption].
      * intros H. apply m_cat in H as (u & v & E & Hu & Hv). destruct u as [|b0 u'].
        -- right. cbn in E. subst v. apply IHc. exact Hv.
        -- left. cbn in E. injection E as -> ->. apply cat_correct. constructor; [apply IHa; assumption | assumption].
    + split; [exact L|]. intros H. apply m_cat in H as (u & v & E & Hu & Hv). destruct u as [|b0 u'].
      * apply nullable_correct in Hu. congruence.
      * cbn in E. injection E as -> ->. apply cat_correct. constructor; [apply IHa; assumption | assumption].
  - rewrite alt_correct, IHa, IHc. split; [intros [H|H]; [apply MAltL | apply MAltR]; assumption | apply m_alt].
  - split; intros H.
    + apply cat_correct in H. apply m_cat in H as (u & v & -> & Hu & Hv).
      change (b :: u ++ v) with ((b :: u) ++ v). constructor; [apply IH; assumption | discriminate | assumption].
    + apply m_star in H as [E | (u & v & E & Hne & Hu & Hv)]; [discriminate|].
      destruct u as [|b0 u']; [congruence|]. cbn in E. injection E as -> ->.
      apply cat_correct. constructor; [apply IH; assumption | assumption].
Qed.

Lemma is_emp_sound r : is_emp r = true -> forall w, ~ matches r w.
Proof.
  induction r as [| |cs|a IHa c IHc|a IHa c IHc|a IH]; cbn; intros H w Hw; try discriminate.
  - eapply m_emp; eassumption.
  - apply N.eqb_eq in H. subst. apply m_chr in Hw as (b & _ & Hb). unfold in_cs in Hb.
    rewrite N.bits_0, andb_false_r in Hb. discriminate.
  - apply m_cat in Hw as (u & v & _ & Hu & Hv). apply orb_true_iff in H as [H|H]; [eapply IHa | eapply IHc]; eassumption.
  - apply andb_true_iff in H as [H1 H2]. apply m_alt in Hw as [Hw|Hw]; [eapply IHa | eapply IHc]; eassumption.
Qed.

(* ---- iterated derivatives ---- *)
Fixpoint derivs (p : bytes) (r : re) : re :=
  match p with [] => r | b :: q => derivs q (deriv b r) end.

Lemma derivs_correct p : forall r w, matches (derivs p r) w <-> matches r (p ++ w).
Proof.
  induction p as [|b q IH]; intros r w; cbn; [tauto|]. rewrite IH, deriv_correct. tauto.
Qed.

(* ---- longest match, declaratively ---- *)
Definition dead (r : re) : Prop := forall w, ~ matches r w.

Lemma dead_deriv b r : dead r -> dead (deriv b r).
Proof. intros H w Hw. apply deriv_correct in Hw. exact (H _ Hw). Qed.

Lemma dead_not_nullable r : dead r -> nullable r = false.
Proof. intros H. destruct (nullable r) eqn:E; [|reflexivity]. apply nullable_correct in E. exfalso. exact (H _ E). Qed.

Lemma first_nullable_dead v : Forall (fun ir => dead (snd ir)) v -> first_nullable v = None.
Proof.
  induction 1 as [|[i r] rest H _ IH]; [reflexivity|]. cbn in *. rewrite (dead_not_nullable _ H). exact IH.
Qed.

Lemma lm_dead bs : forall v n last, Forall (fun ir => dead (snd ir)) v -> lm v n last bs = last.
Proof.
  induction bs as [|b r IH]; intros v n last H; cbn [lm]; rewrite (first_nullable_dead _ H); [reflexivity|].
  apply IH. unfold dstep. apply Forall_map. eapply Forall_impl; [|exact H]. intros [i x] Hx. cbn. apply dead_deriv. exact Hx.
Qed.

(* [i] is the first rule of rs (in list order) whose pattern matches w *)
Definition first_match (rs : list rule) (w : bytes) (i : Z) : Prop :=
  exists l1 r l2, rs = l1 ++ (i, r) :: l2 /\ matches r w /\ forall jr, In jr l1 -> ~ matches (snd jr) w.
Definition no_match (rs : list rule) (w : bytes) : Prop := forall jr, In jr rs -> ~ matches (snd jr) w.

Definition dvec (p : bytes) (rs : list rule) : list rule := map (fun ir => (fst ir, derivs p (snd ir))) rs.

Lemma dvec_step p b rs : dstep b (dvec p rs) = dvec (p ++ [b]) rs.
Proof.
  unfold dstep, dvec. rewrite map_map. apply map_ext. intros [i r]. cbn. f_equal.
  revert r. induction p as [|x q IH]; intros r; cbn; [reflexivity | apply IH].
Qed.

Lemma first_nullable_spec p rs :
  match first_nullable (dvec p rs) with
  | Some i => first_match rs p i
  | None => no_match rs p
  end.
Proof.
  induction rs as [|[i r] rest IH]; [cbn; intros jr []|].
  unfold dvec in *. cbn [map first_nullable fst snd].
  - destruct (nullable (derivs p r)) eqn:N.
    + exists [], r, rest. split; [reflexivity|]. split; [|intros jr []].
      apply nullable_correct in N. apply derivs_correct in N. rewrite app_nil_r in N. exact N.
    + assert (Hn : ~ matches r p).
      { intros H. assert (matches (derivs p r) []) by (apply derivs_correct; rewrite app_nil_r; exact H).
        apply nullable_correct in H0. congruence. }
      destruct (first_nullable (map (fun ir : Z * re => (fst ir, derivs p (snd ir))) rest)) as [j|].
      * destruct IH as (l1 & r0 & l2 & -> & Hm & Hl). exists ((i, r) :: l1), r0, l2.
        split; [reflexivity|]. split; [exact Hm|]. intros jr [<-|Hin]; [exact Hn | apply Hl; exact Hin].
      * intros jr [<-|Hin]; [exact Hn | apply IH; exact Hin].
Qed.

(* the result of the scan from a state reached by prefix p: either the incoming candidate (and no rule
   matches any p ++ firstn k bs), or the longest k with a match, with the first rule matching there *)
Lemma lm_spec rs bs : forall p last,
  let res := lm (dvec p rs) (length p) last bs in
  (res = last /\ forall k, (k <= length bs)%nat -> no_match rs (p ++ firstn k bs)) \/
  (exists i k, res = Some (i, (length p + k)%nat) /\ (k <= length bs)%nat /\
               first_match rs (p ++ firstn k bs) i /\
               forall m, (k < m <= length bs)%nat -> no_match rs (p ++ firstn m bs)).
Proof.
  induction bs as [|b r IH]; intros p last; cbn [lm]; cbv zeta.
  - pose proof (first_nullable_spec p rs) as F. destruct (first_nullable (dvec p rs)) as [i|].
    + right. exists i, O. rewrite Nat.add_0_r, app_nil_r. repeat split; auto. intros m Hm. cbn in Hm. lia.
    + left. split; [reflexivity|]. intros k Hk. cbn in Hk. assert (k = O) by lia. subst. cbn. rewrite app_nil_r. exact F.
  - rewrite dvec_step.
    replace (S (length p)) with (length (p ++ [b])) by (rewrite app_length; cbn; lia).
    pose proof (first_nullable_spec p rs) as F.
    set (last' := match first_nullable (dvec p rs) with Some i => Some (i, length p) | None => last end).
    destruct (IH (p ++ [b]) last') as [(E & Hno) | (i & k & E & Hk & Hf & Hno)].
    + (* nothing further matches *)
      cbv zeta in E. rewrite E. unfold last'. destruct (first_nullable (dvec p rs)) as [i|].
      * right. exists i, O. rewrite Nat.add_0_r. cbn [firstn]. rewrite app_nil_r. repeat split; auto; [cbn; lia|].
        intros m Hm. destruct m as [|m']; [lia|]. cbn [firstn].
        specialize (Hno m' ltac:(cbn in Hm; lia)). rewrite <- app_assoc in Hno. exact Hno.
      * left. split; [reflexivity|]. intros k Hk. destruct k as [|k']; [cbn; rewrite app_nil_r; exact F|].
        cbn [firstn]. specialize (Hno k' ltac:(cbn in Hk; lia)). rewrite <- app_assoc in Hno. exact Hno.
    + right. exists i, (S k). cbv zeta in E. rewrite E. rewrite app_length. cbn [length firstn].
      split; [f_equal; f_equal; lia|]. split; [lia|]. split.
      * rewrite <- app_assoc in Hf. exact Hf.
      * intros m Hm. destruct m as [|m']; [lia|]. cbn [firstn].
        specialize (Hno m' ltac:(lia)). rewrite <- app_assoc in Hno. exact Hno.
Qed.

Theorem longest_match_spec rs bs :
  match longest_match rs bs with
  | Some (i, n) => (n <= length bs)%nat /\ first_match rs (firstn n bs) i /\
                   forall m, (n < m <= length bs)%nat -> no_match rs (firstn m bs)
  | None => forall m, (m <= length bs)%nat -> no_match rs (firstn m bs)
  end.
Proof.
  unfold longest_match. pose proof (lm_spec rs bs [] None) as H. cbv zeta in H. cbn [length app] in H.
  assert (E : dvec [] rs = rs).
  { unfold dvec. rewrite <- (map_id rs) at 2. apply map_ext. intros [i r]. reflexivity. }
  rewrite E in H. destruct H as [(-> & Hno) | (i & k & -> & Hk & Hf & Hno)].
  - exact Hno.
  - cbn. auto.
Qed.
