(* LexFacts.v — the include machine keeps its ledger: at every token the streams the model says are open
   are exactly the ones opened and not yet closed by the events so far, closes always match the innermost
   open stream, and a buffer scanned to its end leaves the stack as it found it (lemmas behind
   Properties_C11 / C10). *)
From Coq Require Import List ZArith Bool Lia.
Import ListNotations.
From LC Require Import Base Tree Fp ScanAction FlexEngine Tokens ApiStep Lexer.
Local Open Scope Z_scope.

(* replay file events on a stack of open streams; None = a close that does not match the innermost
   open stream (or closes nothing) *)
Fixpoint replay (stk : list bytes) (evs : list levent) : option (list bytes) :=
  match evs with
  | [] => Some stk
  | LvOpen f :: r => replay (f :: stk) r
  | LvClose f :: r =>
      match stk with
      | g :: s => if bytes_eqb f g then replay s r else None
      | [] => None
      end
  | _ :: r => replay stk r
  end.

Lemma replay_app a : forall stk b,
  replay stk (a ++ b) = match replay stk a with Some s => replay s b | None => None end.
Proof.
  induction a as [|e a IH]; intros stk b; cbn [app replay]; [reflexivity|].
  destruct e; try apply IH. destruct stk as [|g s]; [reflexivity|]. destruct (bytes_eqb path g); [apply IH | reflexivity].
Qed.

Lemma bytes_eqb_refl' a : bytes_eqb a a = true.
Proof. induction a as [|x r IH]; cbn; [reflexivity|]. rewrite Z.eqb_refl, IH. reflexivity. Qed.

Lemma replay_close_all stk : replay stk (map LvClose stk) = Some [].
Proof. induction stk as [|f r IH]; cbn; [reflexivity|]. rewrite bytes_eqb_refl'. exact IH. Qed.

Definition ES (toks : list ltoken) : list levent := flat_map lt_events toks.

(* the history of events already attached to tokens, plus the pending ones, account for the open stack *)
Definition INV (hist : list levent) (st : lstate) : Prop :=
  replay [] (hist ++ rev (l_pending st)) = Some (l_open st).

Fixpoint toks_ok (hist : list levent) (toks : list ltoken) : Prop :=
  match toks with
  | [] => True
  | t :: r => replay [] (hist ++ lt_events t) = Some (lt_open t) /\ toks_ok (hist ++ lt_events t) r
  end.

Lemma toks_ok_app a : forall hist b, toks_ok hist a -> toks_ok (hist ++ ES a) b -> toks_ok hist (a ++ b).
Proof.
  induction a as [|t r IH]; intros hist b Ha Hb; cbn [app ES flat_map] in *.
  - rewrite app_nil_r in Hb. exact Hb.
  - destruct Ha as [H1 H2]. split; [exact H1|]. apply IH; [exact H2|]. rewrite <- app_assoc. exact Hb.
Qed.

Lemma ES_app a b : ES (a ++ b) = ES a ++ ES b.
Proof. apply flat_map_app. Qed.

(* ---- state updates ---- *)
Lemma INV_same hist st st' :
  l_open st' = l_open st -> l_pending st' = l_pending st -> INV hist st -> INV hist st'.
Proof. unfold INV. intros -> ->. exact id. Qed.

Definition quiet (e : levent) : Prop := match e with LvOpen _ | LvClose _ => False | _ => True end.

Lemma INV_add_quiet hist st e : quiet e -> INV hist st -> INV hist (add_ev st e).
Proof.
  unfold INV. intros Hq H. cbn [add_ev l_pending l_open rev]. rewrite app_assoc, replay_app, H.
  destruct e; cbn in *; try reflexivity; contradiction.
Qed.

Lemma INV_fold_quiet evs : forall hist st, Forall quiet evs -> INV hist st -> INV hist (fold_left add_ev evs st).
Proof.
  induction evs as [|e r IH]; intros hist st Hq H; cbn [fold_left]; [exact H|].
  inversion Hq; subst. apply IH; [assumption|]. apply INV_add_quiet; assumption.
Qed.

Lemma fold_add_open evs : forall st, l_open (fold_left add_ev evs st) = l_open st.
Proof. induction evs as [|e r IH]; intros st; cbn [fold_left]; [reflexivity|]. rewrite IH. reflexivity. Qed.

Lemma INV_open hist st f : INV hist st -> INV hist (push_open (add_ev st (LvOpen f)) f).
Proof.
  unfold INV. intros H. cbn [push_open add_ev l_pending l_open rev]. rewrite app_assoc, replay_app, H. reflexivity.
Qed.

Lemma INV_close hist st f rest :
  l_open st = f :: rest -> INV hist st -> INV hist (add_ev (pop_open st) (LvClose f)).
Proof.
  unfold INV. intros Ho H. cbn [pop_open add_ev l_pending l_open rev]. rewrite app_assoc, replay_app, H, Ho.
  cbn [replay tl]. rewrite bytes_eqb_refl'. reflexivity.
Qed.

Lemma INV_open_close hist st f : INV hist st -> INV hist (add_ev (add_ev st (LvOpen f)) (LvClose f)).
Proof.
  unfold INV. intros H. cbn [add_ev l_pending l_open rev]. rewrite <- app_assoc. rewrite app_assoc, replay_app, H.
  cbn [app replay]. rewrite bytes_eqb_refl'. reflexivity.
Qed.

Lemma emit_ok hist st line t err tk st' :
  INV hist st -> emit st line t err = (tk, st') ->
  replay [] (hist ++ lt_events tk) = Some (lt_open tk) /\ INV (hist ++ lt_events tk) st' /\
  l_open st' = l_open st /\ lt_open tk = l_open st.
Proof.
  unfold emit, INV. intros H E. injection E as <- <-. cbn [lt_events lt_open clear_pending l_pending l_open rev].
  rewrite app_nil_r. auto.
Qed.

Section Lex.
  Variable T : tables.
  Variable rule_eol : list Z.
  Variable actions : list (Z * action).
  Variable atof : bytes -> Z.
  Variable FS : fs.
  Variable incdir : option bytes.
  Variable incf : incfn.
  Variable max_depth : Z.

  Notation lex_step := (lex_step T rule_eol actions atof FS incdir incf max_depth).
  Notation lex_depth := (lex_depth T rule_eol actions atof FS incdir incf max_depth).

  Lemma call_incfn_quiet path evs err files :
    call_incfn incdir incf path = (evs, err, files) -> Forall quiet evs.
  Proof.
    unfold call_incfn. destruct incf; intros E; injection E as <- _ _; repeat constructor.
  Qed.

  (* what one step does to the ledger *)
  Definition step_ok (hist : list levent) (st : lstate) (r : step_res) : Prop :=
    match r with
    | SCont st' _ => INV hist st' /\ l_open st' = l_open st
    | STok tk st' _ =>
        replay [] (hist ++ lt_events tk) = Some (lt_open tk) /\ INV (hist ++ lt_events tk) st' /\ l_open st' = l_open st
    | SStop toks stop st' _ =>
        toks_ok hist toks /\ INV (hist ++ ES toks) st' /\ l_open st' = l_open st /\ stop <> StopEOB
    | SIncl st' _ _ _ => INV hist st' /\ l_open st' = l_open st
    end.

  Lemma stop_error_ok hist st line err : INV hist st -> step_ok hist st (stop_error st line err).
  Proof.
    intros H. unfold stop_error. destruct (emit st line TkError err) as [tk st'] eqn:E.
    destruct (emit_ok _ _ _ _ _ _ _ H E) as (H1 & H2 & H3 & _). cbn [step_ok toks_ok ES flat_map].
    rewrite app_nil_r. repeat split; auto. discriminate.
  Qed.

  Lemma tokret_ok hist st line t b' tk st' :
    INV hist st -> emit st line t None = (tk, st') -> step_ok hist st (STok tk st' b').
  Proof. intros H E. destruct (emit_ok _ _ _ _ _ _ _ H E) as (H1 & H2 & H3 & _). cbn. auto. Qed.

  Lemma lex_step_ok hist st b : INV hist st -> step_ok hist st (lex_step st b).
  Proof.
    intros H. unfold Lexer.lex_step.
    destruct (flex_match T (l_cond st) (b_bol b) (b_rest b)) as [[rule len]|];
      [|cbn; rewrite app_nil_r; repeat split; auto; discriminate].
    destruct len as [|len']; [cbn; rewrite app_nil_r; repeat split; auto; discriminate|].
    cbv zeta.
    set (text := firstn (S len') (b_rest b)). set (b' := mkBuf _ _ _). set (line' := if _ =? 0 then _ else _).
    assert (Htok : forall t, step_ok hist st (let '(tk, st') := emit st line' t None in STok tk st' b')).
    { intros t. destruct (emit st line' t None) as [tk st'] eqn:E. eapply tokret_ok; eassumption. }
    destruct (action_of actions rule) eqn:A; try (apply Htok);
      try (cbn [step_ok]; split; [eapply INV_same; [| |exact H]; reflexivity | reflexivity]).
    - (* AIncludeEnd *)
      set (st1 := set_acc st []).
      assert (H1 : INV hist st1) by (eapply INV_same; [| |exact H]; reflexivity).
      destruct (Z.of_nat (length (l_names st1)) - 1 =? max_depth); [apply (stop_error_ok hist st1); exact H1|].
      destruct (call_incfn incdir incf (until_nul (l_acc st))) as [[evs err] files] eqn:Ci.
      pose proof (call_incfn_quiet _ _ _ _ Ci) as Hq.
      set (st2 := fold_left add_ev evs st1).
      assert (H2 : INV hist st2) by (apply INV_fold_quiet; assumption).
      assert (O2 : l_open st2 = l_open st) by (unfold st2; rewrite fold_add_open; reflexivity).
      destruct err as [msg|].
      { pose proof (stop_error_ok hist st2 line' (Some (msg, cur_name st2, line')) H2) as S.
        unfold stop_error in *. destruct (emit st2 line' TkError _) as [tk st']. cbn [step_ok] in *.
        destruct S as (S1 & S2 & S3 & S4). split; [exact S1|]. split; [exact S2|]. split; [rewrite S3; exact O2 | exact S4]. }
      destruct files as [[|f1 frest]|].
      + cbn [step_ok]. split; [eapply INV_same; [| |exact H2]; reflexivity | exact O2].
      + set (st3 := add_files st2 (f1 :: frest)).
        assert (H3 : INV hist st3) by (eapply INV_same; [| |exact H2]; reflexivity).
        destruct (fs_lookup FS f1) as [[content|]|].
        * cbn [step_ok]. split; [eapply INV_same; [| |exact H3]; reflexivity | exact O2].
        * pose proof (stop_error_ok hist _ line' (Some (err_bad_include, cur_name (add_ev (add_ev st3 (LvOpen f1)) (LvClose f1)), line'))
                        (INV_open_close hist st3 f1 H3)) as S.
          unfold stop_error in *. destruct (emit _ line' TkError _) as [tk st']. cbn [step_ok] in *.
          destruct S as (S1 & S2 & S3 & S4). split; [exact S1|]. split; [exact S2|]. split; [rewrite S3; exact O2 | exact S4].
        * pose proof (stop_error_ok hist st3 line' (Some (err_bad_include, cur_name st3, line')) H3) as S.
          unfold stop_error in *. destruct (emit st3 line' TkError _) as [tk st']. cbn [step_ok] in *.
          destruct S as (S1 & S2 & S3 & S4). split; [exact S1|]. split; [exact S2|]. split; [rewrite S3; exact O2 | exact S4].
      + cbn [step_ok]. split; [eapply INV_same; [| |exact H2]; reflexivity | exact O2].
    - (* AFloat *) destruct (numeric_token atof AFloat text); [apply Htok | apply stop_error_ok; exact H].
    - destruct (numeric_token atof AInteger text); [apply Htok | apply stop_error_ok; exact H].
    - destruct (numeric_token atof AInteger64 text); [apply Htok | apply stop_error_ok; exact H].
    - destruct (numeric_token atof AHex text); [apply Htok | apply stop_error_ok; exact H].
    - destruct (numeric_token atof AHex64 text); [apply Htok | apply stop_error_ok; exact H].
    - (* AEcho *) cbn [step_ok]. split; [apply INV_add_quiet; [exact I | exact H] | reflexivity].
    - (* AUnknown *) cbn [step_ok toks_ok ES flat_map]. rewrite app_nil_r. repeat split; auto. discriminate.
  Qed.

  (* the result of scanning something: tokens carry the right open stacks, the ledger is kept, and when the
     end of the buffer (or of all files of a frame) is reached the stack is as it was found *)
  Definition res_ok (hist : list levent) (st : lstate) (toks : list ltoken) (stop : lstop) (st' : lstate) : Prop :=
    toks_ok hist toks /\ INV (hist ++ ES toks) st' /\ (stop = StopEOB -> l_open st' = l_open st).

  Definition scan_ok (scan : lstate -> bytes -> list ltoken * lstop * lstate * Z) : Prop :=
    forall hist st content, INV hist st ->
      let '(toks, stop, st', _) := scan st content in res_ok hist st toks stop st'.

  Lemma lex_files_ok scan : scan_ok scan -> forall files hist st line,
    INV hist st ->
    let '(toks, stop, st') := lex_files FS scan files st line in res_ok hist st toks stop st'.
  Proof.
    intros Hs. induction files as [|f rest IH]; intros hist st line H; cbn [lex_files].
    - unfold res_ok. cbn. rewrite app_nil_r. auto.
    - set (st1 := set_name st (Some f)).
      assert (H1 : INV hist st1) by (eapply INV_same; [| |exact H]; reflexivity).
      destruct (fs_lookup FS f) as [[content|]|].
      + (* a regular file *)
        set (st3 := push_open (add_ev st1 (LvOpen f)) f).
        assert (H3 : INV hist st3) by (apply INV_open; exact H1).
        specialize (Hs hist st3 content H3). destruct (scan st3 content) as [[[toks stop] st4] l4].
        destruct Hs as (T1 & I1 & E1).
        destruct stop; try (unfold res_ok; repeat split; auto; discriminate).
        specialize (E1 eq_refl).
        assert (O4 : l_open st4 = f :: l_open st) by (rewrite E1; reflexivity).
        set (st5 := add_ev (pop_open st4) (LvClose f)).
        assert (H5 : INV (hist ++ ES toks) st5) by (eapply INV_close; eassumption).
        specialize (IH (hist ++ ES toks) st5 l4 H5).
        destruct (lex_files FS scan rest st5 l4) as [[toks2 stop2] st6].
        destruct IH as (T2 & I2 & E2). unfold res_ok. rewrite ES_app, app_assoc.
        split; [apply toks_ok_app; assumption|]. split; [exact I2|].
        intros E. rewrite (E2 E). unfold st5. cbn [add_ev pop_open l_open]. rewrite O4. reflexivity.
      + (* a directory *)
        destruct (emit _ line TkError _) as [tk st2] eqn:E.
        destruct (emit_ok _ _ _ _ _ _ _ (INV_open_close hist st1 f H1) E) as (A1 & A2 & A3 & _).
        unfold res_ok. cbn [toks_ok ES flat_map]. rewrite app_nil_r. split; [auto|]. split; [exact A2|]. discriminate.
      + (* missing *)
        destruct (emit st1 line TkError _) as [tk st2] eqn:E.
        destruct (emit_ok _ _ _ _ _ _ _ H1 E) as (A1 & A2 & A3 & _).
        unfold res_ok. cbn [toks_ok ES flat_map]. rewrite app_nil_r. split; [auto|]. split; [exact A2|]. discriminate.
  Qed.

  Notation lex_buf := (lex_buf T rule_eol actions atof FS incdir incf max_depth).

  Definition incl_ok (incl : list bytes -> lstate -> Z -> list ltoken * lstop * lstate) : Prop :=
    forall files hist st line, INV hist st ->
      let '(toks, stop, st') := incl files st line in res_ok hist st toks stop st'.

  Lemma lex_buf_ok do_include :
    (forall incl, do_include = Some incl -> incl_ok incl) ->
    forall fuel hist st b, INV hist st ->
      let '(toks, stop, st', _) := lex_buf do_include fuel st b in res_ok hist st toks stop st'.
  Proof.
    intros Hincl. induction fuel as [|fuel IHf]; intros hist st b H; cbn [Lexer.lex_buf].
    - unfold res_ok. cbn. rewrite app_nil_r. split; [exact I|]. split; [exact H | discriminate].
    - destruct (b_rest b) eqn:Eb; [unfold res_ok; cbn; rewrite app_nil_r; auto|].
      pose proof (lex_step_ok hist st b H) as S.
      destruct (lex_step st b) as [st' b'|tk st' b'|toks stop st' l|st' files l b'].
      + destruct S as [S1 S2]. specialize (IHf hist st' b' S1).
        destruct (lex_buf do_include fuel st' b') as [[[toks stop] st''] l].
        destruct IHf as (A & B & C). unfold res_ok. split; [exact A|]. split; [exact B|].
        intros E. rewrite (C E). exact S2.
      + destruct S as (S1 & S2 & S3). specialize (IHf (hist ++ lt_events tk) st' b' S2).
        destruct (lex_buf do_include fuel st' b') as [[[toks stop] st''] l].
        destruct IHf as (A & B & C). unfold res_ok. cbn [toks_ok ES flat_map]. rewrite app_assoc.
        split; [split; assumption|]. split; [exact B|]. intros E. rewrite (C E). exact S3.
      + destruct S as (S1 & S2 & S3 & S4). unfold res_ok. split; [exact S1|]. split; [exact S2|].
        intros E. contradiction.
      + destruct S as [S1 S2]. destruct do_include as [incl|] eqn:Ed.
        * pose proof (Hincl incl eq_refl files hist st' l S1) as F.
          destruct (incl files st' l) as [[toks stop] st4]. destruct F as (F1 & F2 & F3).
          destruct stop; try (unfold res_ok; split; [exact F1|]; split; [exact F2 | discriminate]).
          specialize (F3 eq_refl).
          assert (H5 : INV (hist ++ ES toks) (pop_frame st4)) by (eapply INV_same; [| |exact F2]; reflexivity).
          specialize (IHf (hist ++ ES toks) (pop_frame st4) b' H5).
          destruct (lex_buf (Some incl) fuel (pop_frame st4) b') as [[[toks2 stop2] st6] l6].
          destruct IHf as (A & B & C). unfold res_ok. rewrite ES_app, app_assoc.
          split; [apply toks_ok_app; assumption|]. split; [exact B|].
          intros E. rewrite (C E). cbn [pop_frame l_open]. rewrite F3. exact S2.
        * unfold res_ok. cbn. rewrite app_nil_r. split; [exact I|]. split; [exact S1 | discriminate].
  Qed.

  Theorem lex_depth_ok : forall d, scan_ok (lex_depth d).
  Proof.
    induction d as [|d' IHd]; intros hist st0 content H0; cbn [Lexer.lex_depth].
    - apply lex_buf_ok; [intros incl E; discriminate | exact H0].
    - apply lex_buf_ok; [|exact H0]. intros incl E. injection E as <-.
      intros files hist' st line H. apply lex_files_ok; assumption.
  Qed.
End Lex.
