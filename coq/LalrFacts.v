(* LalrFacts.v — the compiled LALR(1) automaton of lib/grammar.c (tables of gen/GrammarTables.v, driver LalrEngine.v)
   computes the same answer as the recursive-descent model Parser.v, on every token stream that contains its stopping
   token (what the scanner delivers), for every root that is a group, under both override settings:

     lalr_equiv : has_stop (map lt_tok lts) -> s_ty root = TGroup -> 4 * length lts + 1 <= fuel ->
                  lalr_parse the_tables ov fuel (mkP root lts false 0 0 None)
                  = lalr_expected (p_config ov (mkP root lts false 0 0 None))

   (lalr_expected: on acceptance the engine has shifted the end-of-input token which the model has only read; every
   other answer — error kind and the whole final state: tree, tokens left, p_read, p_line, p_file — is identical).

   Route: per non-terminal simulation statements S_value / S_agg / S_elems / S_settings, proved by induction on the fuel
   of the model (sim_all), each saying: from every engine configuration whose top state is one in which that construct
   is expected (VS, ES, SL: computed from the tables), with the same parser state and parse context, the engine
   reaches in n steps (n bounded by 4 per token consumed) the configuration with the goto on the construct's
   nonterminal pushed and the parser state of the model's answer, or halts with the model's error.  The invariants of
   the model's states (ctx_inv, tyskel, has_stop) are those of ParseTotal.v (parser_total).

   Every fact about the automaton used here is obtained by evaluation of the table functions of LalrEngine.v
   (la_act, default_act, goto, rule_len, rule_action, ...) on the_tables inside the proofs (tactic tc1); no table
   entry, and no state or rule number is written in this file (except the start state 0 of yyparse and the symbol
   number 1 of bison's `error` token), so the proofs are re-checked against regenerated tables. *)
From Coq Require Import List ZArith NArith Bool Lia String.
Import ListNotations.
From LC Require Import Base BaseFacts Tree Fp Lookup Api ApiStep ScanAction Tokens Lexer Parser
  TreeFacts ApiFacts GrammarFacts ParseWrite ParseTotal GramAction LalrEngine.
From LC.gen Require Import GrammarTables.
Local Open Scope Z_scope.

Notation T := the_tables.
Notation L s := (List.length (ptoks s)).

(* ---- names of the grammar symbols, looked up in yytname ---- *)
Fixpoint index_of (n : string) (l : list string) (i : Z) : Z :=
  match l with
  | [] => -1
  | m :: r => if String.eqb n m then i else index_of n r (i + 1)
  end.
(* nonterminal number (symbol number - YYNTOKENS), the argument of goto_nt *)
Definition nt (n : string) : Z := index_of n g_tname 0 - g_YYNTOKENS.

Definition all_states : list Z := map Z.of_nat (seq 0 (List.length (t_pact T))).

Definition shifts (q : Z) (k : tkind) : bool :=
  match kind_sym T k with
  | Some tk => match la_act T q tk with LShift _ => true | _ => false end
  | None => false
  end.

(* the states in which a value is expected: those that shift a boolean; every value ([simple] = false: they also
   shift `{`) or a scalar only ([simple] = true) *)
Definition VS (simple : bool) : list Z :=
  filter (fun q => negb (defaulted T q) && shifts q KBool && Bool.eqb (shifts q (KP TGroupStart)) (negb simple)) all_states.

(* the states in which a list of settings begins: they shift a name and their default reduction is an empty rule *)
Definition SL : list Z :=
  filter (fun q => negb (defaulted T q) && shifts q KName &&
                   match default_act T q with LRed r => Nat.eqb (rule_len T r) 0 | _ => false end) all_states.

(* the state entered when the list of settings that began in q is complete *)
Definition sl_end (q : Z) : Z := match default_act T q with LRed r => goto T q r | _ => -1 end.

(* the nonterminal a value reduces to *)
Definition vsym (simple : bool) : Z := if simple then nt "simple_value" else nt "value".
(* the element lists *)
Definition lsym (simple : bool) : Z := if simple then nt "simple_value_list" else nt "value_list".
Definition losym (simple : bool) : Z := if simple then nt "simple_value_list_optional" else nt "value_list_optional".

(* the state entered by shifting a token of kind k in state q *)
Definition shift_target (q : Z) (k : tkind) : Z :=
  match kind_sym T k with
  | Some tk => match la_act T q tk with LShift m => m | _ => -1 end
  | None => -1
  end.

Definition open_kind (k : aggk) : tkind :=
  KP (match k with KArr => TArrayStart | KLst => TListStart | KGrp => TGroupStart end).
Definition close_kind (k : aggk) : tkind :=
  KP (match k with KArr => TArrayEnd | KLst => TListEnd | KGrp => TGroupEnd end).

(* the state on top after the default reduction of state q by an empty rule *)
Definition after_default (q : Z) : Z := match default_act T q with LRed r => goto T q r | _ => -1 end.

(* inside an aggregate opened in state q: the state after the mid-rule action, and the state when the body is complete *)
Definition agg_e0 (q : Z) (k : aggk) : Z :=
  let m := shift_target q (open_kind k) in
  match default_act T m with LRed r => goto T m r | _ => -1 end.
Definition agg_end (q : Z) (k : aggk) : Z :=
  match k with
  | KArr => goto_nt T (agg_e0 q k) (losym true)
  | KLst => goto_nt T (agg_e0 q k) (losym false)
  | KGrp => sl_end (agg_e0 q k)
  end.

(* the states in which a list of elements begins *)
Definition ES (simple : bool) : list Z :=
  filter (fun q => match default_act T q with
                   | LRed r => Nat.eqb (rule_len T r) 0 && (nthZ (t_r1 T) r - t_ntokens T =? losym simple)
                   | _ => false
                   end) (VS simple).

(* the state in which a run of strings continues *)
Definition str_state (q : Z) : Z := goto_nt T q (nt "string").

(* ---- no state shifts the `error` symbol: a syntax error aborts ---- *)
Lemma no_error_symbol : existsb (Z.eqb 1) (t_check T) = false.
Proof. vm_compute. reflexivity. Qed.

Lemma check_len : (Z.to_nat (t_last T) < List.length (t_check T))%nat /\ 0 <= t_last T.
Proof. vm_compute. split; [lia | discriminate]. Qed.

Lemma no_error_shift q : shifts_error T q = false.
Proof.
  unfold shifts_error. destruct (negb (defaulted T q)); [|reflexivity]. cbn [andb].
  set (n := nthZ (t_pact T) q + 1).
  destruct (0 <=? n) eqn:E1; [|reflexivity]. destruct (n <=? t_last T) eqn:E2; [|reflexivity].
  destruct (nthZ (t_check T) n =? 1) eqn:E3; [|reflexivity]. exfalso.
  apply Z.leb_le in E1, E2. apply Z.eqb_eq in E3.
  pose proof no_error_symbol as H. destruct check_len as [Hl _].
  assert (In (nthZ (t_check T) n) (t_check T)).
  { unfold nthZ. destruct (n <? 0) eqn:E0; [apply Z.ltb_lt in E0; lia|]. apply nth_In. lia. }
  rewrite E3 in H0. assert (existsb (Z.eqb 1) (t_check T) = true) by (apply existsb_exists; exists 1; split; [exact H0 | reflexivity]).
  congruence.
Qed.

Lemma l_error_eq c : l_error T c = LDone (PErr PErrSyntax (l_pst c)).
Proof.
  unfold l_error. replace (existsb _ _) with false; [reflexivity|]. symmetry.
  induction (l_stack c) as [|e r IH]; [reflexivity|]. cbn [existsb]. rewrite no_error_shift. exact IH.
Qed.

Section Sim.
  Variable ov : bool.

  (* ---- running the engine ---- *)
  Definition steps (n : nat) (c c' : lconf) : Prop :=
    forall fuel, lalr_run T ov (n + fuel) c = lalr_run T ov fuel c'.
  Definition halts (n : nat) (c : lconf) (r : pres) : Prop :=
    forall fuel, lalr_run T ov (S n + fuel) c = r.

  Lemma steps_refl c : steps 0 c c.
  Proof. intros fuel. reflexivity. Qed.

  Lemma steps_S n c c1 c' : lalr_step T ov c = LGo c1 -> steps n c1 c' -> steps (S n) c c'.
  Proof. intros H H1 fuel. cbn [Nat.add lalr_run]. rewrite H. apply H1. Qed.

  Lemma steps_trans n m c c1 c' : steps n c c1 -> steps m c1 c' -> steps (n + m) c c'.
  Proof. intros H1 H2 fuel. rewrite <- Nat.add_assoc. rewrite H1. apply H2. Qed.

  Lemma halts_0 c r : lalr_step T ov c = LDone r -> halts 0 c r.
  Proof. intros H fuel. cbn [Nat.add lalr_run]. rewrite H. reflexivity. Qed.

  Lemma halts_S n c c1 r : lalr_step T ov c = LGo c1 -> halts n c1 r -> halts (S n) c r.
  Proof. intros H H1 fuel. cbn [Nat.add lalr_run]. rewrite H. apply (H1 fuel). Qed.

  Lemma steps_halts n m c c1 r : steps n c c1 -> halts m c1 r -> halts (n + m) c r.
  Proof.
    intros H1 H2 fuel. replace (S (n + m) + fuel)%nat with (n + (S m + fuel))%nat by lia. rewrite H1. apply H2.
  Qed.


End Sim.

(* ---- symbolic execution of the engine on a configuration whose top states are numerals: the closed applications
   of the table functions are evaluated (vm_compute), the parser-state primitives (peek, act_name, act_open, act_scalar) stay symbolic ---- *)

Ltac tc_bool t := let x := eval vm_compute in t in
  lazymatch x with true => change t with x | false => change t with x end.
Ltac tc_act t := let x := eval vm_compute in t in
  lazymatch x with LShift _ => change t with x | LRed _ => change t with x | LErr => change t with x end.
Ltac tc_opt t := let x := eval vm_compute in t in
  lazymatch x with Some _ => change t with x | None => change t with x end.
Ltac tc_any t := let x := eval vm_compute in t in change t with x.

(* evaluate the closed applications of the table functions *)
Ltac tc1 :=
  match goal with
  | |- context [Z.eqb ?a (t_final the_tables)] => tc_bool (Z.eqb a (t_final the_tables))
  | |- context [defaulted the_tables ?q] => tc_bool (defaulted the_tables q)
  | |- context [default_act the_tables ?q] => tc_act (default_act the_tables q)
  | |- context [la_act the_tables ?q ?k] => tc_act (la_act the_tables q k)
  | |- context [kind_sym the_tables ?k] => tc_opt (kind_sym the_tables k)
  | |- context [rule_action the_tables ?r] => tc_opt (rule_action the_tables r)
  | |- context [rule_len the_tables ?r] => tc_any (rule_len the_tables r)
  | |- context [goto the_tables ?q ?r] => tc_any (goto the_tables q r)
  | |- context [goto_nt the_tables ?q ?r] => tc_any (goto_nt the_tables q r)
  | |- context [aggk_of_code ?c] => tc_opt (aggk_of_code c)
  | |- context [sl_end ?q] => tc_any (sl_end q)
  | |- context [shift_target ?q ?k] => tc_any (shift_target q k)
  | |- context [str_state ?q] => tc_any (str_state q)
  | |- context [agg_e0 ?q ?k] => tc_any (agg_e0 q k)
  | |- context [after_default ?q] => tc_any (after_default q)
  | |- context [agg_end ?q ?k] => tc_any (agg_end q k)
  end.

Ltac lcbn := unfold l_reduce;
  cbn [lalr_step do_act run_action set_pst l_stack l_pst l_parent l_setting l_buf skipn nth_error
       kind_of gscalar_matches scalar_of fst snd open_kind close_kind].

Ltac lrew :=
  match goal with
  | H : peek ?s = _ |- context [peek ?s] => rewrite H
  | H : act_name _ _ _ _ = _ |- context [act_name _ _ _ _] => rewrite H
  | H : act_open _ _ _ _ _ = _ |- context [act_open _ _ _ _ _] => rewrite H
  | H : act_scalar _ _ _ _ = _ |- context [act_scalar _ _ _ _] => rewrite H
  | |- context [l_error the_tables ?c] => rewrite (l_error_eq c)
  end.

Ltac lsimp := repeat (progress lcbn || tc1 || lrew).
Ltac lsolve := lsimp; reflexivity.
Ltac lgo := eapply steps_S; [lsolve|].
Ltac lgoh := eapply halts_S; [lsolve|].
Ltac lhalt := eapply halts_0; lsolve.
Ltac lrun := lsimp; first [apply steps_refl | lgo; lrun].
Ltac lrunh := first [lhalt | lgoh; lrunh].
Ltac in_cases H := vm_compute in H; repeat (destruct H as [<-|H]); try contradiction.

Section Sim2.
  Variable ov : bool.

  Lemma peek_idem s t s1 : peek s = (Some t, s1) -> peek s1 = (Some t, s1).
  Proof.
    unfold peek. destruct (p_toks s) as [|x r] eqn:E; [discriminate|].
    destruct (p_la s) eqn:La; intros H; injection H as <- <-.
    - rewrite E, La. reflexivity.
    - cbn. rewrite ?E. reflexivity.
  Qed.

  Lemma step_peek q v rest s s1 t parent g buf :
    (q =? t_final T) = false -> defaulted T q = false -> peek s = (Some t, s1) ->
    lalr_step T ov (mkL ((q, v) :: rest) s parent g buf) = lalr_step T ov (mkL ((q, v) :: rest) s1 parent g buf).
  Proof.
    intros Hf Hd P. unfold lalr_step. cbn [l_stack l_pst]. rewrite Hf, Hd, P, (peek_idem _ _ _ P). reflexivity.
  Qed.

  (* a configuration whose state needs the look-ahead may as well have read it *)
  Lemma steps_peek n c' q v rest s s1 t parent g buf :
    (q =? t_final T) = false -> defaulted T q = false -> peek s = (Some t, s1) -> (1 <= n)%nat ->
    steps ov n (mkL ((q, v) :: rest) s1 parent g buf) c' -> steps ov n (mkL ((q, v) :: rest) s parent g buf) c'.
  Proof.
    intros Hf Hd P Hn H fuel. destruct n as [|n]; [lia|]. specialize (H fuel). cbn [Nat.add lalr_run] in *.
    rewrite (step_peek q v rest s s1 t parent g buf Hf Hd P). exact H.
  Qed.

  Lemma halts_peek n r q v rest s s1 t parent g buf :
    (q =? t_final T) = false -> defaulted T q = false -> peek s = (Some t, s1) ->
    halts ov n (mkL ((q, v) :: rest) s1 parent g buf) r -> halts ov n (mkL ((q, v) :: rest) s parent g buf) r.
  Proof.
    intros Hf Hd P H fuel. specialize (H fuel). cbn [Nat.add lalr_run] in *.
    rewrite (step_peek q v rest s s1 t parent g buf Hf Hd P). exact H.
  Qed.

  (* ---- ctx->setting is not consulted inside an aggregate ---- *)
  Definition cur_rel (cur g : option ipath) : Prop :=
    match cur with Some sp => g = Some sp | None => True end.

  Lemma act_scalar_rel s parent cur simple g sc :
    ctx_inv (p_root s) parent cur simple -> cur_rel cur g -> act_scalar s parent g sc = act_scalar s parent cur sc.
  Proof.
    intros (P & G & Hc) Hg. destruct cur as [sp|]; [cbn in Hg; subst; reflexivity|].
    unfold act_scalar. destruct sc as [[t st] fmt]. unfold in_agg, ty_at. rewrite G. cbv beta iota.
    destruct Hc as [E | [E _]]; rewrite E; reflexivity.
  Qed.

  Lemma act_open_rel s parent cur g k :
    ctx_inv (p_root s) parent cur false -> cur_rel cur g -> act_open ov s parent g k = act_open ov s parent cur k.
  Proof.
    intros (P & G & Hc) Hg. destruct cur as [sp|]; [cbn in Hg; subst; reflexivity|].
    unfold act_open, ty_at. rewrite G. cbv beta iota.
    destruct Hc as [E | [_ E]]; [rewrite E; reflexivity | discriminate E].
  Qed.

  Lemma act_open_np s parent cur k s1 np :
    ctx_inv (p_root s) parent cur false -> act_open ov s parent cur k = Some (s1, np) -> exists i, np = parent ++ [i].
  Proof.
    intros (P & G & Hc) H. unfold act_open, ty_at in H. rewrite G in H. cbv beta iota in H. destruct cur as [sp|].
    - destruct Hc as (Hty & i & M & -> & _). rewrite Hty in H. injection H as _ <-. exists i. reflexivity.
    - destruct Hc as [Hty | [_ Hf]]; [|discriminate Hf]. rewrite Hty in H.
      destruct (n_add ov P None (aggk_code k)) as [[[ps' i] vic]|]; [|discriminate H]. injection H as _ <-. exists i. reflexivity.
  Qed.

  (* ---- a scalar token as value: shift, the action, [value: simple_value] ---- *)
  Lemma value_scalar simple q v rest s s1 t sc parent g :
    In q (VS simple) -> peek s = (Some t, s1) -> scalar_of t = Some sc ->
    match act_scalar (shift s1) parent g sc with
    | Some s3 => exists v', steps ov (if simple then 2 else 3) (mkL ((q, v) :: rest) s parent g [])
                                  (mkL ((goto_nt T q (vsym simple), v') :: (q, v) :: rest) s3 parent g [])
    | None => halts ov 1 (mkL ((q, v) :: rest) s parent g []) (PErr PErrMismatch (shift s1))
    end.
  Proof.
    intros Hq P Esc.
    destruct simple; cbv beta iota; in_cases Hq;
      (destruct t; try discriminate Esc; cbn [scalar_of] in Esc; injection Esc as <-;
       (destruct (act_scalar _ _ _ _) as [s3|] eqn:A; [eexists; lrun | lrunh])).
  Qed.

  (* ---- a run of strings ---- *)
  Lemma sim_string : forall f s acc w s2 simple q v rest g parent v0,
    In q (VS simple) -> has_stop (ptoks s) -> p_string f s acc = (Some w, s2) ->
    exists n s0, (n + 2 * L s2 = 2 * L s)%nat /\
      steps ov n (mkL ((str_state q, v0) :: (q, v) :: rest) s parent g acc)
                 (mkL ((str_state q, v0) :: (q, v) :: rest) s0 parent g w) /\
      exists t2, peek s0 = (Some t2, s2) /\ is_str t2 = false.
  Proof.
    induction f as [|f IH]; intros s acc w s2 simple q v rest g parent v0 Hq Hst H; [discriminate H|]. cbn [p_string] in H.
    destruct (peek_stop s Hst) as (t & s1 & r & P & H1 & H2 & H3 & R1). rewrite P in H.
    destruct (is_str t) eqn:St.
    - destruct t as [ | | | | | |str| | | | ]; try discriminate St.
      assert (Hst' : has_stop (ptoks (shift s1))) by (rewrite H3; rewrite H1 in Hst; apply (has_stop_tl _ _ Hst); reflexivity).
      destruct (IH (shift s1) (acc ++ str) w s2 simple q v rest g parent v0 Hq Hst' H) as (n & s0 & Hn & Hs & Ht2).
      exists (2 + n)%nat, s0. split; [rewrite H3 in Hn; rewrite H1; cbn [List.length]; lia|]. split; [|exact Ht2].
      eapply (steps_trans ov 2 n); [|exact Hs]. destruct simple; in_cases Hq; lrun.
    - assert (E : (Some acc, s1) = (Some w, s2)) by (destruct t; try discriminate St; exact H).
      injection E as <- <-. exists 0%nat, s. split; [rewrite H2, H1; lia|]. split; [apply steps_refl|].
      exists t. split; [exact P | exact St].
  Qed.

  Lemma string_end simple q v rest s0 s2 t2 w parent g v0 :
    In q (VS simple) -> peek s0 = (Some t2, s2) -> is_str t2 = false ->
    match act_scalar s2 parent g (string_scalar w) with
    | Some s3 => exists v', steps ov (if simple then 1 else 2) (mkL ((str_state q, v0) :: (q, v) :: rest) s0 parent g w)
                                  (mkL ((goto_nt T q (vsym simple), v') :: (q, v) :: rest) s3 parent g [])
    | None => halts ov 0 (mkL ((str_state q, v0) :: (q, v) :: rest) s0 parent g w) (PErr PErrMismatch s2)
    end.
  Proof.
    intros Hq P St.
    destruct (act_scalar _ _ _ _) as [s3|] eqn:A;
    destruct simple; cbv beta iota; in_cases Hq;
      (destruct t2 as [ | | | | | | | |pt| | ]; try discriminate St; [..|destruct pt| |]; first [eexists; lrun | lrunh]).
  Qed.
End Sim2.

Section Sim3.
  Variable ov : bool.

  (* the engine, started in configuration c, follows a result of the model: [Ls] tokens are left at the start *)
  Definition sim_res (c : lconf) (Ls cok cerr : nat) (target : pst -> option ipath -> option token -> lconf)
             (res : pres) : Prop :=
    match res with
    | POk s' => exists n g' v', (1 <= n)%nat /\ (n + 4 * L s' <= 4 * Ls + cok)%nat /\ steps ov n c (target s' g' v')
    | PErr e s' => exists n, (n <= 4 * Ls + cerr)%nat /\ halts ov n c (PErr e s')
    | _ => True
    end.

  Lemma sim_res_pre k c c1 Ls Ls1 cok cok1 cerr cerr1 target res :
    steps ov k c c1 -> (k + 4 * Ls1 + cok1 <= 4 * Ls + cok)%nat -> (k + 4 * Ls1 + cerr1 <= 4 * Ls + cerr)%nat ->
    sim_res c1 Ls1 cok1 cerr1 target res -> sim_res c Ls cok cerr target res.
  Proof.
    intros Hk B1 B2 H. destruct res; cbn in *; auto.
    - destruct H as (n & g' & v' & N1 & N2 & Hs). exists (k + n)%nat, g', v'. split; [lia|]. split; [lia|].
      eapply steps_trans; eauto.
    - destruct H as (n & N & Hh). exists (k + n)%nat. split; [lia|]. eapply steps_halts; eauto.
  Qed.

  Lemma sim_res_peek q v rest s s1 t parent g buf Ls cok cerr target res :
    (q =? t_final T) = false -> defaulted T q = false -> peek s = (Some t, s1) ->
    sim_res (mkL ((q, v) :: rest) s1 parent g buf) Ls cok cerr target res ->
    sim_res (mkL ((q, v) :: rest) s parent g buf) Ls cok cerr target res.
  Proof.
    intros Hf Hd P H. destruct res; cbn in *; auto.
    - destruct H as (n & g' & v' & N1 & N2 & Hs). exists n, g', v'. split; [lia|]. split; [lia|].
      eapply steps_peek; eauto.
    - destruct H as (n & N & Hh). exists n. split; [lia|]. eapply halts_peek; eauto.
  Qed.

  Definition S_value (f : nat) : Prop := forall s parent cur simple q v rest g,
    (3 * L s + 2 <= f)%nat -> has_stop (ptoks s) -> ctx_inv (p_root s) parent cur simple -> cur_rel cur g ->
    In q (VS simple) ->
    (default_act T q = LErr \/ exists t s', peek s = (Some t, s') /\ is_value_start simple t = true) ->
    sim_res (mkL ((q, v) :: rest) s parent g []) (L s) 0 0
            (fun s' g' v' => mkL ((goto_nt T q (vsym simple), v') :: (q, v) :: rest) s' parent g' [])
            (p_value ov f s parent cur simple).

  Definition S_agg (f : nat) : Prop := forall s parent cur k q v rest g vm,
    (3 * L s + 4 <= f)%nat -> has_stop (ptoks s) -> ctx_inv (p_root s) parent cur false -> cur_rel cur g ->
    In q (VS false) ->
    sim_res (mkL ((shift_target q (open_kind k), vm) :: (q, v) :: rest) s parent g []) (L s) 2 2
            (fun s' g' v' => mkL ((goto_nt T q (vsym false), v') :: (q, v) :: rest) s' parent g' [])
            (p_agg ov f s parent cur k).

  Definition S_elems (f : nat) : Prop := forall s parent simple (first : bool) e0 v rest g v1,
    (3 * L s + 3 <= f)%nat -> has_stop (ptoks s) -> ctx_inv (p_root s) parent None simple ->
    In e0 (ES simple) ->
    sim_res (mkL (if first then (e0, v) :: rest else (goto_nt T e0 (lsym simple), v1) :: (e0, v) :: rest) s parent g [])
            (L s) (if first then 2 else 1) (if first then 1 else 0)
            (fun s' g' v' => mkL ((goto_nt T e0 (losym simple), v') :: (e0, v) :: rest) s' parent g' [])
            (p_elems ov f s parent simple first).

  Definition S_settings (f : nat) : Prop := forall s parent (first : bool) q v rest g v1,
    (3 * L s + 1 <= f)%nat -> has_stop (ptoks s) ->
    (exists P, get_at parent (p_root s) = Some P /\ s_ty P = TGroup) ->
    In q SL ->
    sim_res (mkL (if first then (q, v) :: rest else (goto_nt T q (nt "setting_list"), v1) :: (q, v) :: rest) s parent g [])
            (L s) 1 0
            (fun s' g' v' => mkL ((sl_end q, v') :: (q, v) :: rest) s' parent g' [])
            (p_settings ov f s parent).

  (* ---- value ---- *)
  Lemma sim_value_S f : S_agg f -> S_value (S f).
  Proof.
    intros IHa s parent cur simple q v rest g Hf Hst Hc Hg Hq Hstart. rewrite p_value_S.
    destruct (peek_stop s Hst) as (t & s1 & r & P & H1 & H2 & H3 & R1). rewrite P.
    assert (HL : L s = S (List.length r)) by (rewrite H1; reflexivity).
    assert (Hc1 : ctx_inv (p_root (shift s1)) parent cur simple) by (rewrite shift_root, R1; exact Hc).
    set (tgt := fun (s' : pst) (g' : option ipath) (v' : option token) =>
                  mkL ((goto_nt T q (vsym simple), v') :: (q, v) :: rest) s' parent g' []).
    (* scalar tokens *)
    assert (Hsc : forall sc, scalar_of t = Some sc ->
              sim_res (mkL ((q, v) :: rest) s parent g []) (L s) 0 0 tgt
                      (match act_scalar (shift s1) parent cur sc with
                       | Some s3 => POk s3 | None => PErr PErrMismatch (shift s1) end)).
    { intros sc Esc. pose proof (value_scalar ov simple q v rest s s1 t sc parent g Hq P Esc) as Hv.
      rewrite (act_scalar_rel _ _ _ _ _ sc Hc1 Hg) in Hv.
      destruct (act_scalar (shift s1) parent cur sc) as [s3|] eqn:A.
      - destruct Hv as (v' & Hv). exists (if simple then 2 else 3)%nat, g, v'.
        rewrite (act_scalar_ptoks _ _ _ _ _ A), H3, HL. split; [destruct simple; lia|]. split; [destruct simple; lia|]. exact Hv.
      - exists 1%nat. split; [lia | exact Hv]. }
    (* tokens that cannot start a value *)
    assert (Hns : is_value_start simple t = false ->
              sim_res (mkL ((q, v) :: rest) s parent g []) (L s) 0 0 tgt (PErr PErrSyntax s1)).
    { intros Hv. destruct Hstart as [Hd | (t' & s' & P' & Hv')]; [|rewrite P in P'; injection P' as <- <-; congruence].
      exists 0%nat. split; [lia|]. clear Hsc tgt.
      destruct simple; in_cases Hq; try (vm_compute in Hd; discriminate Hd);
        (destruct t as [ | | | | | | | |pt| | ]; try discriminate Hv; [|destruct pt; try discriminate Hv| |]; lrunh). }
    (* aggregates *)
    assert (Hag : forall k, t = TkP (match k with KArr => TArrayStart | KLst => TListStart | KGrp => TGroupStart end) ->
              simple = false ->
              sim_res (mkL ((q, v) :: rest) s parent g []) (L s) 0 0 tgt (p_agg ov f (shift s1) parent cur k)).
    { intros k Et Es. subst simple.
      assert (Hst' : has_stop (ptoks (shift s1))) by (rewrite H3; rewrite H1 in Hst; apply (has_stop_tl _ _ Hst); subst t; destruct k; reflexivity).
      pose proof (IHa (shift s1) parent cur k q v rest g (Some t) ltac:(rewrite H3; lia) Hst' Hc1 Hg Hq) as Ha.
      eapply (sim_res_pre 1); [| | |exact Ha]; [|rewrite H3; lia|rewrite H3; lia].
      clear Ha Hsc Hns tgt. subst t. destruct k; in_cases Hq; lrun. }
    destruct t as [bv|iv|lv|hv|hlv|fb|str|nm|pt| | ].
    1-6: exact (Hsc _ eq_refl).
    - (* strings *)
      assert (Hf' : exists f', f = S f') by (destruct f as [|f']; [lia | exists f'; reflexivity]).
      destruct Hf' as (f' & ->). cbn [p_string]. rewrite (peek_idem _ _ _ P).
      assert (Hst' : has_stop (ptoks (shift s1))) by (rewrite H3; rewrite H1 in Hst; apply (has_stop_tl _ _ Hst); reflexivity).
      destruct (p_string_total f' (shift s1) ([] ++ str) ltac:(rewrite H3; lia) Hst') as (w & s2 & E & R2 & Hst2 & Hl2).
      rewrite E.
      destruct (sim_string ov f' (shift s1) ([] ++ str) w s2 simple q v rest g parent (Some (TkString str)) Hq Hst' E)
        as (n & s0 & Hn & Hs & t2 & P2 & St2).
      pose proof (string_end ov simple q v rest s0 s2 t2 w parent g (Some (TkString str)) Hq P2 St2) as He.
      assert (Hc2 : ctx_inv (p_root s2) parent cur simple) by (rewrite R2, shift_root, R1; exact Hc).
      rewrite <- (act_scalar_rel s2 parent cur simple g _ Hc2 Hg).
      assert (H0 : steps ov 2 (mkL ((q, v) :: rest) s parent g [])
                         (mkL ((str_state q, Some (TkString str)) :: (q, v) :: rest) (shift s1) parent g ([] ++ str))).
      { clear He Hs Hsc Hns Hag tgt. destruct simple; in_cases Hq; lrun. }
      rewrite H3 in Hn, Hl2.
      destruct (act_scalar s2 parent g (string_scalar w)) as [s3|] eqn:A.
      + destruct He as (v' & He). exists (2 + n + (if simple then 1 else 2))%nat, g, v'.
        rewrite (act_scalar_ptoks _ _ _ _ _ A), HL.
        split; [lia|]. split; [destruct simple; lia|].
        eapply steps_trans; [eapply steps_trans; [exact H0 | exact Hs] | exact He].
      + exists (2 + n + 0)%nat. split; [lia|]. eapply steps_halts; [eapply steps_trans; [exact H0 | exact Hs] | exact He].
    - apply Hns. destruct simple; reflexivity.
    - destruct pt; try (apply Hns; destruct simple; reflexivity);
        (destruct simple; [exact (Hns eq_refl)|]).
      + exact (Hag KGrp eq_refl eq_refl).
      + exact (Hag KArr eq_refl eq_refl).
      + exact (Hag KLst eq_refl eq_refl).
    - apply Hns. destruct simple; reflexivity.
    - apply Hns. destruct simple; reflexivity.
  Qed.

  Lemma has_stop_len l : has_stop l -> (1 <= List.length l)%nat.
  Proof. destruct l; [discriminate | cbn; lia]. Qed.

  (* ---- aggregates ---- *)
  Lemma agg_close k q v rest vm v0 ve s2 n0 np' parent g2 :
    In q (VS false) -> has_stop (ptoks s2) -> removelast (n0 :: np') = parent ->
    let c := mkL ((agg_end q k, ve) :: (agg_e0 q k, v0) :: (shift_target q (open_kind k), vm) :: (q, v) :: rest)
                 s2 (n0 :: np') g2 [] in
    match expect s2 (match k with KArr => TArrayEnd | KLst => TListEnd | KGrp => TGroupEnd end) with
    | POk s' => exists v', L s2 = S (L s') /\
                           steps ov 3 c (mkL ((goto_nt T q (vsym false), v') :: (q, v) :: rest) s' parent g2 [])
    | PErr e s' => halts ov 0 c (PErr e s')
    | _ => True
    end.
  Proof.
    intros Hq Hst Hrl c. subst c parent. unfold expect.
    destruct (peek_stop s2 Hst) as (t2 & s3 & r2 & P2 & K1 & K2 & K3 & R3). rewrite P2.
    destruct k; in_cases Hq;
      (destruct t2 as [ | | | | | | | |pt| | ]; [..|destruct pt| |]; cbv beta iota;
       first [ lrunh | eexists; split; [rewrite K1, K3; reflexivity | lrun] ]).
  Qed.

  Lemma sim_agg_S f : S_elems f -> S_settings f -> S_agg (S f).
  Proof.
    intros IHe IHs s parent cur k q v rest g vm Hf Hst Hc Hg Hq. rewrite p_agg_S.
    destruct (act_open_total ov s parent cur k Hc) as (s1 & np & Q & A & Ht1 & Hk1 & _ & GQ & HQ). rewrite A. cbv zeta.
    destruct (act_open_np _ _ _ _ _ _ _ Hc A) as (i & Hnp).
    pose proof (act_open_rel ov s parent cur g k Hc Hg) as Ag. rewrite A in Ag.
    destruct (parser_total ov f) as (_ & _ & Te & Ts).
    assert (Hrl : removelast np = parent) by (rewrite Hnp; apply removelast_last).
    destruct np as [|n0 np']; [destruct parent; discriminate Hnp|].
    set (g1 := match ty_at (p_root s) parent with TList => g | _ => None end).
    set (m := shift_target q (open_kind k)).
    assert (Hopen : steps ov 1 (mkL ((m, vm) :: (q, v) :: rest) s parent g [])
                              (mkL ((agg_e0 q k, None) :: (m, vm) :: (q, v) :: rest) s1 (n0 :: np') g1 [])).
    { subst m. clear IHe IHs Te Ts. destruct k; in_cases Hq; lrun. }
    assert (HLs : L s1 = L s) by (rewrite Ht1; reflexivity).
    assert (Hst1 : has_stop (ptoks s1)) by (rewrite Ht1; exact Hst).
    assert (Hfin : forall body,
       sim_res (mkL ((agg_e0 q k, None) :: (m, vm) :: (q, v) :: rest) s1 (n0 :: np') g1 []) (L s1) 2 1
               (fun s' g' v' => mkL ((agg_end q k, v') :: (agg_e0 q k, None) :: (m, vm) :: (q, v) :: rest) s' (n0 :: np') g' [])
               body ->
       good (n0 :: np') s1 body ->
       sim_res (mkL ((m, vm) :: (q, v) :: rest) s parent g []) (L s) 2 2
               (fun s' g' v' => mkL ((goto_nt T q (vsym false), v') :: (q, v) :: rest) s' parent g' [])
               (match body with
                | POk s2 => expect s2 (match k with KArr => TArrayEnd | KLst => TListEnd | KGrp => TGroupEnd end)
                | r => r end)).
    { intros body Hb Gb. destruct body as [s2|e s2|s2|s2]; try (cbn in Gb; contradiction).
      - destruct Hb as (n & g2 & v2 & N1 & N2 & Hsb). destruct Gb as [_ Hst2].
        pose proof (agg_close k q v rest vm None v2 s2 n0 np' parent g2 Hq Hst2 Hrl) as Hcl. cbv zeta in Hcl.
        fold m in Hcl. pose proof (has_stop_len _ Hst2) as HL2.
        destruct (expect s2 _) as [s'|e s'|s'|s'].
        + destruct Hcl as (v' & HL' & Hs3). exists (1 + n + 3)%nat, g2, v'. split; [lia|]. split; [lia|].
          eapply steps_trans; [eapply steps_trans; [exact Hopen | exact Hsb] | exact Hs3].
        + exists (1 + n + 0)%nat. split; [lia|].
          eapply steps_halts; [eapply steps_trans; [exact Hopen | exact Hsb] | exact Hcl].
        + exact I.
        + exact I.
      - destruct Hb as (n & N & Hh). exists (1 + n)%nat. split; [lia|]. eapply steps_halts; [exact Hopen | exact Hh]. }
    destruct k.
    - apply Hfin.
      + apply (IHe s1 (n0 :: np') true true (agg_e0 q KArr) None ((m, vm) :: (q, v) :: rest) g1 None);
          [rewrite HLs; lia | exact Hst1 | | clear Hfin Hopen; in_cases Hq; vm_compute; auto].
        exists Q. split; [exact GQ|]. right. split; [|reflexivity]. unfold s_ty. rewrite HQ. reflexivity.
      + apply Te; [rewrite HLs; lia | exact Hst1 |].
        exists Q. split; [exact GQ|]. right. split; [|reflexivity]. unfold s_ty. rewrite HQ. reflexivity.
    - apply Hfin.
      + apply (IHe s1 (n0 :: np') false true (agg_e0 q KLst) None ((m, vm) :: (q, v) :: rest) g1 None);
          [rewrite HLs; lia | exact Hst1 | | clear Hfin Hopen; in_cases Hq; vm_compute; auto].
        exists Q. split; [exact GQ|]. left. unfold s_ty. rewrite HQ. reflexivity.
      + apply Te; [rewrite HLs; lia | exact Hst1 |].
        exists Q. split; [exact GQ|]. left. unfold s_ty. rewrite HQ. reflexivity.
    - apply Hfin.
      + eapply (sim_res_pre 0); [apply steps_refl | | |
          apply (IHs s1 (n0 :: np') true (agg_e0 q KGrp) None ((m, vm) :: (q, v) :: rest) g1 None);
            [rewrite HLs; lia | exact Hst1 | | clear Hfin Hopen; in_cases Hq; vm_compute; auto]]; [lia | lia |].
        exists Q. split; [exact GQ|]. unfold s_ty. rewrite HQ. reflexivity.
      + apply Ts; [rewrite HLs; lia | exact Hst1 |].
        exists Q. split; [exact GQ|]. unfold s_ty. rewrite HQ. reflexivity.
  Qed.
  Lemma ES_VS simple e0 : In e0 (ES simple) -> In e0 (VS simple).
  Proof. unfold ES. intros H. apply filter_In in H. tauto. Qed.

  Lemma sim_elems_S f : S_value f -> S_elems f -> S_elems (S f).
  Proof.
    intros IHv IHe s parent simple first e0 v rest g v1 Hf Hst Hc He0. rewrite p_elems_S.
    destruct (peek_stop s Hst) as (t & s1 & r & P & H1 & H2 & H3 & R1). rewrite P.
    destruct (parser_total ov f) as (Tv & _ & Te & _).
    assert (HL : L s = S (List.length r)) by (rewrite H1; reflexivity).
    assert (HL1 : L s1 = L s) by (rewrite H2, H1; reflexivity).
    assert (Hs1 : has_stop (ptoks s1)) by (rewrite H2, <- H1; exact Hst).
    pose proof (ES_VS _ _ He0) as Hv0.
    set (e1 := goto_nt T e0 (lsym simple)).
    set (tgt := fun (s' : pst) (g' : option ipath) (v' : option token) =>
                  mkL ((goto_nt T e0 (losym simple), v') :: (e0, v) :: rest) s' parent g' []).
    assert (Hval : forall sa qv vq below ga,
              In qv (VS simple) -> p_root sa = p_root s -> has_stop (ptoks sa) -> (3 * L sa + 3 <= S f)%nat ->
              (exists ta, peek sa = (Some ta, sa) /\ is_value_start simple ta = true) ->
              (forall s2 g2 v2, exists v3,
                  steps ov 1 (mkL ((goto_nt T qv (vsym simple), v2) :: (qv, vq) :: below) s2 parent g2 [])
                             (mkL ((e1, v3) :: (e0, v) :: rest) s2 parent g2 [])) ->
              sim_res (mkL ((qv, vq) :: below) sa parent ga []) (L sa) 2 1 tgt
                      (match p_value ov f sa parent None simple with
                       | POk s2 => p_elems ov f s2 parent simple false | r => r end)).
    { intros sa qv vq below ga Hqv Ra Hsa Hfa (ta & Pa & Hta) Hred.
      assert (Hca : ctx_inv (p_root sa) parent None simple) by (rewrite Ra; exact Hc).
      pose proof (IHv sa parent None simple qv vq below ga ltac:(lia) Hsa Hca I Hqv
                      (or_intror (ex_intro _ ta (ex_intro _ sa (conj Pa Hta))))) as Hv.
      pose proof (Tv sa parent None simple ltac:(lia) Hsa Hca) as Gv.
      destruct (p_value ov f sa parent None simple) as [s2|e s2|s2|s2]; try (cbn in Gv; contradiction).
      - destruct Hv as (n & g2 & v2 & N1 & N2 & Hsv). destruct Gv as [G1 G2].
        destruct (Hred s2 g2 v2) as (v3 & Hr).
        pose proof (IHe s2 parent simple false e0 v rest g2 v3 ltac:(lia) G2 (ctx_inv_skel _ _ _ _ Hca G1) He0) as Hl2.
        eapply (sim_res_pre (n + 1)); [eapply steps_trans; [exact Hsv | exact Hr] | | | exact Hl2]; lia.
      - destruct Hv as (n & N & Hh). exists n. split; [lia | exact Hh]. }
    assert (Hnf : (e0 =? t_final T) = false /\ defaulted T e0 = false)
      by (clear Hval tgt; destruct simple; in_cases He0; split; reflexivity).
    destruct first; cbv iota.
    - destruct (is_value_start simple t) eqn:Hvs.
      + eapply sim_res_peek; [exact (proj1 Hnf) | exact (proj2 Hnf) | exact P |]. rewrite <- HL1.
        apply Hval; [exact Hv0 | exact R1 | exact Hs1 | lia | exists t; split; [exact (peek_idem _ _ _ P) | exact Hvs] |].
        intros s2 g2 v2. eexists. subst e1. clear Hval tgt. destruct simple; in_cases He0; lrun.
      + exists 1%nat, g, None. split; [lia|]. split; [lia|]. subst tgt e1. clear Hval.
        destruct simple; in_cases He0;
          (destruct t as [ | | | | | | | |pt| | ]; try discriminate Hvs; [|destruct pt; try discriminate Hvs| |]; lrun).
    - set (qc := shift_target e1 (KP TComma)).
      assert (Hstay : match t with TkP TComma => false | _ => true end = true ->
                      sim_res (mkL ((e1, v1) :: (e0, v) :: rest) s parent g []) (L s) 1 0 tgt (POk s1)).
      { intros Ec. exists 1%nat, g, v1. split; [lia|]. split; [lia|]. subst tgt e1 qc. clear Hval.
        destruct simple; in_cases He0;
          (destruct t as [ | | | | | | | |pt| | ]; [..|destruct pt; try discriminate Ec| |]; lrun). }
      destruct t as [ | | | | | | | |pt| | ]; try exact (Hstay eq_refl); destruct pt; try exact (Hstay eq_refl).
      + cbv zeta.
        assert (Hs2 : has_stop (ptoks (shift s1))) by (rewrite H3; rewrite H1 in Hst; apply (has_stop_tl _ _ Hst); reflexivity).
        destruct (peek_stop (shift s1) Hs2) as (t2 & s3 & r2 & P2 & K1 & K2 & K3 & R3). rewrite P2.
        assert (R3' : p_root s3 = p_root s) by (rewrite R3, shift_root; exact R1).
        assert (Hs3 : has_stop (ptoks s3)) by (rewrite K2, <- K1; exact Hs2).
        assert (Hl3 : (L s3 + 1 = L s)%nat) by (rewrite K2, <- K1, H3, H1; cbn; lia).
        assert (Hcomma : steps ov 1 (mkL ((e1, v1) :: (e0, v) :: rest) s parent g [])
                                   (mkL ((qc, Some (TkP TComma)) :: (e1, v1) :: (e0, v) :: rest) (shift s1) parent g [])).
        { subst tgt e1 qc. clear Hval. destruct simple; in_cases He0; lrun. }
        assert (Hqc : In qc (VS simple) /\ (qc =? t_final T) = false /\ defaulted T qc = false).
        { subst tgt e1 qc. clear Hval Hcomma. destruct simple; in_cases He0; (split; [vm_compute; auto | split; reflexivity]). }
        destruct Hqc as (Hqc1 & Hqc2 & Hqc3).
        destruct (is_value_start simple t2) eqn:Hvs2.
        * eapply (sim_res_pre 1); [exact Hcomma | | |
            eapply sim_res_peek; [exact Hqc2 | exact Hqc3 | exact P2 |
              apply (Hval s3 qc (Some (TkP TComma)) ((e1, v1) :: (e0, v) :: rest) g Hqc1 R3' Hs3 ltac:(lia)
                          (ex_intro _ t2 (conj (peek_idem _ _ _ P2) Hvs2)))]]; [lia | lia |].
          intros s2 g2 v2. eexists. subst tgt e1 qc. clear Hval Hcomma. destruct simple; in_cases He0; lrun.
        * assert (Hred : exists v3, steps ov 1 (mkL ((qc, Some (TkP TComma)) :: (e1, v1) :: (e0, v) :: rest) (shift s1) parent g [])
                                            (mkL ((e1, v3) :: (e0, v) :: rest) s3 parent g [])).
          { eexists. subst tgt e1 qc. clear Hval Hcomma.
            destruct simple; in_cases He0;
              (destruct t2 as [ | | | | | | | |pt| | ]; try discriminate Hvs2; [|destruct pt; try discriminate Hvs2| |]; lrun). }
          destruct Hred as (v3 & Hred).
          pose proof (IHe s3 parent simple false e0 v rest g v3 ltac:(lia) Hs3 ltac:(rewrite R3'; exact Hc) He0) as Hl2.
          eapply (sim_res_pre 2); [eapply (steps_trans ov 1 1); [exact Hcomma | exact Hred] | | | exact Hl2]; lia.
  Qed.
  Lemma sim_settings_S f : S_value f -> S_settings f -> S_settings (S f).
  Proof.
    intros IHv IHs s parent first q v rest g v1 Hf Hst (P0 & G0 & Hty0) Hq. rewrite p_settings_S.
    destruct (peek_stop s Hst) as (t & s1 & r & P & H1 & H2 & H3 & R1). rewrite P.
    destruct (parser_total ov f) as (Tv & _ & _ & Ts).
    assert (HL : L s = S (List.length r)) by (rewrite H1; reflexivity).
    assert (HL1 : L s1 = L s) by (rewrite H2, H1; reflexivity).
    set (q1 := goto_nt T q (nt "setting_list")).
    set (stk := if first then (q, v) :: rest else (q1, v1) :: (q, v) :: rest).
    set (tgt := fun (s' : pst) (g' : option ipath) (v' : option token) =>
                  mkL ((sl_end q, v') :: (q, v) :: rest) s' parent g' []).
    assert (Hstay : match t with TkName _ => false | _ => true end = true ->
                    sim_res (mkL stk s parent g []) (L s) 1 0 tgt (POk s1)).
    { intros Ec. exists 1%nat, g, (if first then None else v1). split; [lia|]. split; [lia|]. subst tgt stk q1.
      destruct first; in_cases Hq;
        (destruct t as [ | | | | | | | |pt| | ]; try discriminate Ec; [..|destruct pt| |]; lrun). }
    destruct t as [ | | | | | | |nm| | | ]; try exact (Hstay eq_refl). clear Hstay.
    cbv zeta.
    assert (Hs2 : has_stop (ptoks (shift s1))) by (rewrite H3; rewrite H1 in Hst; apply (has_stop_tl _ _ Hst); reflexivity).
    set (qn := shift_target (if first then q else q1) KName).
    set (q5 := after_default qn).
    set (q8 := shift_target q5 (KP TEquals)).
    set (q21 := goto_nt T q8 (vsym false)).
    destruct (act_name ov (shift s1) parent nm) as [[s2 sp]|] eqn:A.
    2: { exists 1%nat. split; [lia|]. subst tgt stk q1. destruct first; in_cases Hq; lrunh. }
    destruct (act_name_total ov (shift s1) parent nm s2 sp P0 ltac:(rewrite shift_root, R1; exact G0) Hty0 A) as (T2 & K2 & C2).
    rewrite shift_root, R1 in K2.
    assert (Hs2' : has_stop (ptoks s2)) by (rewrite T2; exact Hs2).
    pose proof (expect_total s2 TEquals Hs2') as Hx.
    assert (Hname : steps ov 2 (mkL stk s parent g [])
                              (mkL ((q5, None) :: (qn, Some (TkName nm)) :: stk) s2 parent (Some sp) [])).
    { subst tgt stk q1 qn q5 q8 q21. destruct first; in_cases Hq; lrun. }
    (* the `=` *)
    unfold expect in Hx |- *.
    destruct (peek_stop s2 Hs2') as (t3 & s3' & r3 & P3 & M1 & M2 & M3 & R3). rewrite P3 in Hx |- *.
    assert (Hneq : match t3 with TkP TEquals => false | _ => true end = true ->
                   halts ov 0 (mkL ((q5, None) :: (qn, Some (TkName nm)) :: stk) s2 parent (Some sp) []) (PErr PErrSyntax s3')).
    { intros Ec. subst tgt stk q1 qn q5 q8 q21. clear Hname.
      destruct first; in_cases Hq;
        (destruct t3 as [ | | | | | | | |pt| | ]; [..|destruct pt; try discriminate Ec| |]; lrunh). }
    assert (Herr : match t3 with TkP TEquals => false | _ => true end = true ->
                   sim_res (mkL stk s parent g []) (L s) 1 0 tgt (PErr PErrSyntax s3')).
    { intros Ec. exists 2%nat. split; [lia|]. eapply (steps_halts ov 2 0); [exact Hname | exact (Hneq Ec)]. }
    destruct t3 as [ | | | | | | | |pt| | ]; try exact (Herr eq_refl); destruct pt; try exact (Herr eq_refl).
    clear Herr Hneq. cbv beta iota in Hx |- *. destruct Hx as (R3x & Hs3 & Hl3).
    set (s3 := shift s3') in *.
    assert (Heq : steps ov 1 (mkL ((q5, None) :: (qn, Some (TkName nm)) :: stk) s2 parent (Some sp) [])
                            (mkL ((q8, Some (TkP TEquals)) :: (q5, None) :: (qn, Some (TkName nm)) :: stk) s3 parent (Some sp) [])).
    { subst tgt stk q1 qn q5 q8 q21 s3. clear Hname. destruct first; in_cases Hq; lrun. }
    assert (Hq8 : In q8 (VS false) /\ default_act T q8 = LErr).
    { subst tgt stk q1 qn q5 q8 q21. clear Hname Heq. destruct first; in_cases Hq; (split; [vm_compute; auto | reflexivity]). }
    destruct Hq8 as [Hq8 Hd8].
    assert (HL3 : (L s3 + 2 = L s)%nat).
    { rewrite M3. rewrite T2, H3 in M1. rewrite HL, M1. cbn [List.length]. lia. }
    assert (Hc3 : ctx_inv (p_root s3) parent (Some sp) false) by (rewrite R3x; exact C2).
    pose proof (IHv s3 parent (Some sp) false q8 (Some (TkP TEquals)) ((q5, None) :: (qn, Some (TkName nm)) :: stk) (Some sp)
                    ltac:(lia) Hs3 Hc3 eq_refl Hq8 (or_introl Hd8)) as Hv.
    pose proof (Tv s3 parent (Some sp) false ltac:(lia) Hs3 Hc3) as Gv.
    destruct (p_value ov f s3 parent (Some sp) false) as [s4|e s4|s4|s4]; try (cbn in Gv; contradiction).
    2: { destruct Hv as (n & N & Hh). exists (2 + 1 + n)%nat. split; [lia|].
         eapply steps_halts; [eapply steps_trans; [exact Hname | exact Heq] | exact Hh]. }
    destruct Hv as (n & g4 & v4 & N1 & N2 & Hsv). destruct Gv as [G1 G2]. rewrite R3x in G1.
    set (s6 := match peek s4 with
               | (Some (TkP TSemicolon), s5) => shift s5
               | (Some (TkP TComma), s5) => shift s5
               | (_, s5) => s5 end).
    destruct (peek_stop s4 G2) as (t4 & s5 & r4 & P4 & J1 & J2 & J3 & R5).
    assert (H6 : p_root s6 = p_root s4 /\ has_stop (ptoks s6) /\
                 exists k v6, (k + 4 * L s6 <= 3 + 4 * L s4)%nat /\
                   steps ov k (mkL ((q21, v4) :: (q8, Some (TkP TEquals)) :: (q5, None) :: (qn, Some (TkName nm)) :: stk) s4 parent g4 [])
                              (mkL ((q1, v6) :: (q, v) :: rest) s6 parent g4 [])).
    { unfold s6. rewrite P4.
      assert (Hkeep : p_root s5 = p_root s4 /\ has_stop (ptoks s5)) by (split; [exact R5 | rewrite J2, <- J1; exact G2]).
      assert (Hshift : is_stop t4 = false -> p_root (shift s5) = p_root s4 /\ has_stop (ptoks (shift s5))).
      { intros Hns. split; [rewrite shift_root; exact R5|]. rewrite J3. rewrite J1 in G2. exact (has_stop_tl _ _ G2 Hns). }
      subst tgt stk q1 qn q5 q8 q21. clear Hname Heq Hsv.
      destruct first; in_cases Hq;
        (destruct t4 as [ | | | | | | | |pt| | ]; [..|destruct pt| |];
         (split; [first [exact (proj1 Hkeep) | exact (proj1 (Hshift eq_refl))]|];
          split; [first [exact (proj2 Hkeep) | exact (proj2 (Hshift eq_refl))]|];
          eexists _, _; (split; [|lrun]); rewrite ?J3, ?J2, J1; cbn [List.length]; lia)). }
    destruct H6 as (R6 & Hs6 & k & v6 & Nk & Hterm).
    assert (Kall : tyskel parent (p_root s) (p_root s4)) by (apply (tyskel_trans parent _ (p_root s2)); assumption).
    destruct (tyskel_get _ _ _ _ Kall G0) as (P4' & G4 & E4).
    pose proof (IHs s6 parent false q v rest g4 v6 ltac:(lia) Hs6
                    ltac:(exists P4'; rewrite R6; split; [exact G4 | rewrite E4; exact Hty0]) Hq) as Hrest.
    eapply (sim_res_pre (2 + 1 + n + k)); [| | | exact Hrest]; [|lia|lia].
    eapply steps_trans; [eapply steps_trans; [eapply steps_trans; [exact Hname | exact Heq] | exact Hsv] | exact Hterm].
  Qed.

  (* ---- all four, by induction on the fuel of the model ---- *)
  Theorem sim_all : forall f, S_value f /\ S_agg f /\ S_elems f /\ S_settings f.
  Proof.
    induction f as [|f (IHv & IHa & IHe & IHs)].
    { split; [|split; [|split]].
      - intros s parent cur simple q v rest g Hf. lia.
      - intros s parent cur k q v rest g vm Hf. lia.
      - intros s parent simple first e0 v rest g v1 Hf. lia.
      - intros s parent first q v rest g v1 Hf. lia. }
    split; [|split; [|split]]; [apply sim_value_S | apply sim_agg_S | apply sim_elems_S | apply sim_settings_S]; assumption.
  Qed.

  (* ---- configuration ---- *)
  Theorem lalr_config s : has_stop (ptoks s) -> s_ty (p_root s) = TGroup ->
    forall fuel, (4 * L s + 1 <= fuel)%nat -> lalr_parse T ov fuel s = lalr_expected (p_config ov s).
  Proof.
    intros Hst Hty fuel Hfuel. unfold p_config, lalr_parse, lalr_init.
    set (f := S (4 * List.length (p_toks s))).
    assert (HLf : L s = List.length (p_toks s)) by (unfold ptoks; apply map_length).
    destruct (sim_all f) as (_ & _ & _ & Ss). destruct (parser_total ov f) as (_ & _ & _ & Ts).
    assert (H0 : In 0 SL) by (vm_compute; auto).
    pose proof (Ss s [] true 0 None [] None None ltac:(unfold f; lia) Hst
                   (ex_intro _ (p_root s) (conj eq_refl Hty)) H0) as Hs. cbv iota in Hs.
    pose proof (Ts s [] ltac:(unfold f; lia) Hst (ex_intro _ (p_root s) (conj eq_refl Hty))) as Gs.
    assert (Hrun : forall n r, halts ov n (mkL [(0, None)] s [] None []) r -> (S n <= 4 * L s + 1)%nat ->
                   lalr_run T ov fuel (mkL [(0, None)] s [] None []) = r).
    { intros n r Hh Hn. replace fuel with (S n + (fuel - S n))%nat by lia. apply Hh. }
    destruct (p_settings ov f s []) as [s1|e s1|s1|s1]; try (cbn in Gs; contradiction).
    - destruct Hs as (n & g1 & v1 & N1 & N2 & Hsv). destruct Gs as [_ Hst1].
      destruct (peek_stop s1 Hst1) as (t & s2 & r & P & H1 & H2 & H3 & R1). rewrite P.
      pose proof (has_stop_len _ Hst1) as HL1.
      assert (Hend : match t with
                     | TkEOF => halts ov 1 (mkL [(sl_end 0, v1); (0, None)] s1 [] g1 []) (POk (shift s2))
                     | _ => halts ov 0 (mkL [(sl_end 0, v1); (0, None)] s1 [] g1 []) (PErr PErrSyntax s2)
                     end).
      { clear Hsv. destruct t as [ | | | | | | | |pt| | ]; [..|destruct pt| |]; lrunh. }
      destruct t as [ | | | | | | | |pt| | ]; cbn [lalr_expected];
        try (apply (Hrun (n + 0)%nat); [eapply steps_halts; [exact Hsv | exact Hend] | lia]).
      apply (Hrun (n + 1)%nat); [eapply steps_halts; [exact Hsv | exact Hend] | lia].
    - destruct Hs as (n & N & Hh). cbn [lalr_expected]. apply (Hrun n); [exact Hh | lia].
  Qed.
End Sim3.

(* ---- the statement for config_read's call: any group as root, the look-ahead not read, both override settings ---- *)
Theorem lalr_equiv ov root lts fuel :
  has_stop (map lt_tok lts) -> s_ty root = TGroup -> (4 * List.length lts + 1 <= fuel)%nat ->
  lalr_parse the_tables ov fuel (mkP root lts false 0 0 None) = lalr_expected (p_config ov (mkP root lts false 0 0 None)).
Proof.
  intros Hst Hty Hf. apply lalr_config; [exact Hst | exact Hty |].
  unfold ptoks. cbn [p_toks]. rewrite map_length. exact Hf.
Qed.

(* the same, spelled out by outcome; with ParseTotal.p_config_total these are the only outcomes *)
Corollary lalr_equiv_err ov root lts fuel e s' :
  has_stop (map lt_tok lts) -> s_ty root = TGroup -> (4 * List.length lts + 1 <= fuel)%nat ->
  (lalr_parse the_tables ov fuel (mkP root lts false 0 0 None) = PErr e s' <->
   p_config ov (mkP root lts false 0 0 None) = PErr e s').
Proof.
  intros Hst Hty Hf. rewrite (lalr_equiv ov root lts fuel Hst Hty Hf).
  destruct (p_config ov (mkP root lts false 0 0 None)); cbn [lalr_expected]; split; intros H; try discriminate H; exact H.
Qed.

Corollary lalr_equiv_ok ov root lts fuel s' :
  has_stop (map lt_tok lts) -> s_ty root = TGroup -> (4 * List.length lts + 1 <= fuel)%nat ->
  p_config ov (mkP root lts false 0 0 None) = POk s' ->
  lalr_parse the_tables ov fuel (mkP root lts false 0 0 None) = POk (shift s') /\
  p_root (shift s') = p_root s' /\ p_read (shift s') = p_read s' /\ p_line (shift s') = p_line s' /\
  p_file (shift s') = p_file s'.
Proof.
  intros Hst Hty Hf H. rewrite (lalr_equiv ov root lts fuel Hst Hty Hf), H. repeat split.
Qed.

Corollary lalr_accepts_iff ov root lts fuel :
  has_stop (map lt_tok lts) -> s_ty root = TGroup -> (4 * List.length lts + 1 <= fuel)%nat ->
  ((exists s', lalr_parse the_tables ov fuel (mkP root lts false 0 0 None) = POk s') <->
   (exists s', p_config ov (mkP root lts false 0 0 None) = POk s')).
Proof.
  intros Hst Hty Hf. rewrite (lalr_equiv ov root lts fuel Hst Hty Hf).
  destruct (p_config ov (mkP root lts false 0 0 None)) as [s1|e s1|s1|s1]; cbn [lalr_expected];
    split; intros (s' & H); try discriminate H; eexists; reflexivity.
Qed.

(* the engine never answers PStuck or PFatal on such a stream: its answer is POk or PErr *)
Corollary lalr_total ov root lts fuel :
  has_stop (map lt_tok lts) -> s_ty root = TGroup -> (4 * List.length lts + 1 <= fuel)%nat ->
  match lalr_parse the_tables ov fuel (mkP root lts false 0 0 None) with POk _ | PErr _ _ => True | _ => False end.
Proof.
  intros Hst Hty Hf. rewrite (lalr_equiv ov root lts fuel Hst Hty Hf).
  pose proof (p_config_total ov (mkP root lts false 0 0 None) Hst Hty) as H.
  destruct (p_config ov (mkP root lts false 0 0 None)); cbn [lalr_expected]; exact H.
Qed.

Print Assumptions lalr_config.
Print Assumptions lalr_equiv.
Print Assumptions lalr_total.
