(* Regex.v — regular expressions over bytes with 256-bit character sets, their denotation (matches),
   Brzozowski derivatives with normalising smart constructors, and longest-match scanning with rule
   priority.  Specification side of the scanner theorems (C18, C03); independent of flex. *)
From Coq Require Import List ZArith NArith Bool Lia.
Import ListNotations.
From LC Require Import Base.
Local Open Scope Z_scope.

Inductive re :=
| Emp                      (* no word *)
| Eps                      (* the empty word *)
| Chr (cs : N)             (* one byte from the set (bit b of cs = byte b) *)
| Cat (a b : re)
| Alt (a b : re)
| Star (a : re).

Definition in_cs (cs : N) (b : Z) : bool := (0 <=? b) && N.testbit cs (Z.to_N b).

Inductive matches : re -> bytes -> Prop :=
| MEps : matches Eps []
| MChr cs b : in_cs cs b = true -> matches (Chr cs) [b]
| MCat a b u v : matches a u -> matches b v -> matches (Cat a b) (u ++ v)
| MAltL a b u : matches a u -> matches (Alt a b) u
| MAltR a b u : matches b u -> matches (Alt a b) u
| MStar0 a : matches (Star a) []
| MStarS a u v : matches a u -> u <> [] -> matches (Star a) v -> matches (Star a) (u ++ v).

Fixpoint nullable (r : re) : bool :=
  match r with
  | Emp => false | Eps => true | Chr _ => false
  | Cat a b => nullable a && nullable b
  | Alt a b => nullable a || nullable b
  | Star _ => true
  end.

Fixpoint re_eqb (a b : re) : bool :=
  match a, b with
  | Emp, Emp => true | Eps, Eps => true
  | Chr x, Chr y => N.eqb x y
  | Cat a1 a2, Cat b1 b2 => re_eqb a1 b1 && re_eqb a2 b2
  | Alt a1 a2, Alt b1 b2 => re_eqb a1 b1 && re_eqb a2 b2
  | Star x, Star y => re_eqb x y
  | _, _ => false
  end.

(* syntactic emptiness (sound, not complete) *)
Fixpoint is_emp (r : re) : bool :=
  match r with
  | Emp => true
  | Chr cs => N.eqb cs 0
  | Cat a b => is_emp a || is_emp b
  | Alt a b => is_emp a && is_emp b
  | _ => false
  end.

(* ---- smart constructors ---- *)
Fixpoint cat (a c : re) : re :=
  match c with
  | Emp => Emp
  | _ =>
      match a with
      | Emp => Emp
      | Eps => c
      | Cat x y => Cat x (cat y c)
      | _ => match c with Eps => a | _ => Cat a c end
      end
  end.

(* is [a] one of the disjuncts of the right-nested alternation [c]? *)
Fixpoint alt_mem (a c : re) : bool :=
  match c with
  | Alt x y => re_eqb a x || alt_mem a y
  | _ => re_eqb a c
  end.

Definition alt1 (a c : re) : re :=
  match a, c with
  | Emp, _ => c
  | _, Emp => a
  | _, _ => if alt_mem a c then c else Alt a c
  end.

Fixpoint alt (a c : re) : re :=
  match a with
  | Alt x y => alt1 x (alt y c)
  | _ => alt1 a c
  end.

Fixpoint deriv (b : Z) (r : re) : re :=
  match r with
  | Emp | Eps => Emp
  | Chr cs => if in_cs cs b then Eps else Emp
  | Cat a c => if nullable a then alt (cat (deriv b a) c) (deriv b c) else cat (deriv b a) c
  | Alt a c => alt (deriv b a) (deriv b c)
  | Star a => cat (deriv b a) (Star a)
  end.

(* ---- rules and longest match ---- *)
Definition rule := (Z * re)%type.           (* (rule number, pattern) in priority order *)

Fixpoint first_nullable (v : list rule) : option Z :=
  match v with
  | [] => None
  | (i, r) :: rest => if nullable r then Some i else first_nullable rest
  end.

Definition dstep (b : Z) (v : list rule) : list rule := map (fun ir => (fst ir, deriv b (snd ir))) v.

(* scan [bs] having consumed n bytes; [last] = best (rule, length) found so far *)
Fixpoint lm (v : list rule) (n : nat) (last : option (Z * nat)) (bs : bytes) : option (Z * nat) :=
  let last' := match first_nullable v with Some i => Some (i, n) | None => last end in
  match bs with
  | [] => last'
  | b :: r => lm (dstep b v) (S n) last' r
  end.

Definition longest_match (rs : list rule) (bs : bytes) : option (Z * nat) := lm rs O None bs.

(* ---- building patterns ---- *)
Definition cs_full : N := N.ones 256.
Fixpoint cs_of (l : list Z) : N :=
  match l with [] => 0%N | b :: r => N.setbit (cs_of r) (Z.to_N b) end.
Fixpoint cs_range_nat (lo : Z) (n : nat) : N :=
  match n with O => 0%N | S k => N.setbit (cs_range_nat (lo + 1) k) (Z.to_N lo) end.
Definition cs_range (lo hi : Z) : N := cs_range_nat lo (Z.to_nat (hi - lo + 1)).
Definition cs_union (a b : N) : N := N.lor a b.
Definition cs_compl (a : N) : N := N.ldiff cs_full a.

Definition chr (b : Z) : re := Chr (cs_of [b]).
Fixpoint str (s : bytes) : re :=
  match s with [] => Eps | [b] => chr b | b :: r => Cat (chr b) (str r) end.
Definition plus (r : re) : re := Cat r (Star r).
Definition opt (r : re) : re := Alt Eps r.
Fixpoint alts (l : list re) : re :=
  match l with [] => Emp | [r] => r | r :: rest => Alt r (alts rest) end.
Fixpoint cats (l : list re) : re :=
  match l with [] => Eps | [r] => r | r :: rest => Cat r (cats rest) end.
(* a letter in either case *)
Definition ci (b : Z) : re := Chr (cs_of [b; b - 32]).
