(* ScannerCert.v — the certificates: for each start condition, at and away from the beginning of a line,
   the set of (DFA state, derivative vector) pairs explored from the start pair is closed (T-A).
   Re-checked by vm_compute against the tables the translator extracted from /repo/lib/scanner.c. *)
From Coq Require Import List ZArith NArith Bool.
Import ListNotations.
From LC Require Import Base Regex RegexFacts FlexEngine Bisim ScanAction ScannerSpec.
From LC.gen Require Import ScannerTables.
Local Open Scope Z_scope.

Definition the_tables : tables :=
  mkTables yy_accept yy_ec yy_meta yy_base yy_def yy_nxt yy_chk yy_jam yy_nstates yy_nul_class.

Definition start_pair (sc : Z) (bol : bool) : pair := (start_state sc bol, spec_rules sc bol).
Definition cert (sc : Z) (bol : bool) : list pair := explore the_tables 4000 [start_pair sc bol] [].

Definition all_conditions : list (Z * bool) :=
  [(0, false); (0, true); (1, false); (1, true); (2, false); (2, true); (3, false); (3, true); (4, false); (4, true)].

Definition closed_ok (c : Z * bool) : bool := closed_check the_tables (cert (fst c) (snd c)).
Definition start_ok (c : Z * bool) : bool := pmem (start_pair (fst c) (snd c)) (cert (fst c) (snd c)).

Lemma all_closed_checked : forallb closed_ok all_conditions = true.
Proof. vm_compute. reflexivity. Qed.
Lemma all_start_checked : forallb start_ok all_conditions = true.
Proof. vm_compute. reflexivity. Qed.

Lemma actions_as_documented : yy_actions = spec_actions ++ [(48, AEcho)].
Proof. vm_compute. reflexivity. Qed.

(* no documented pattern matches the empty word, and in every start condition every byte starts some
   lexeme: the scanner always makes progress *)
Definition nonnull_ok (c : Z * bool) : bool :=
  forallb (fun ir => negb (nullable (snd ir))) (spec_rules (fst c) (snd c)).
Definition first_byte_ok (c : Z * bool) : bool :=
  forallb (fun b => match first_nullable (dstep b (spec_rules (fst c) (snd c))) with Some _ => true | None => false end)
          all_bytes.

Lemma nonnull_checked : forallb nonnull_ok all_conditions = true.
Proof. vm_compute. reflexivity. Qed.
Lemma first_byte_checked : forallb first_byte_ok all_conditions = true.
Proof. vm_compute. reflexivity. Qed.
