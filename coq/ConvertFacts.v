(* ConvertFacts.v — conversion rules of the typed accessors (lemmas behind Properties_C07). *)
From Coq Require Import List ZArith Bool Lia.
Import ListNotations.
From LC Require Import Base Tree Fp Lookup Api ApiStep TreeFacts ApiFacts.
Local Open Scope Z_scope.

(* ------------------------------------------------------------------------------------ *)
(* (double)n is exact for |n| < 2^53 *)

Lemma pow2_pos n : 0 <= n -> 0 < 2 ^ n.
Proof. intros. apply Z.pow_pos_nonneg; lia. Qed.

Lemma two52_eq : two52 = 2 ^ 52. Proof. reflexivity. Qed.
Lemma two53_eq : two53 = 2 ^ 53. Proof. reflexivity. Qed.
Lemma two63_eq : two63 = 2 ^ 63. Proof. reflexivity. Qed.

Section Exact.
  Variable m : Z.
  Hypothesis Hpos : 0 < m.
  Hypothesis Hlt : m < two53.

  Let e := Z.log2 m.

  Lemma e_bounds : 0 <= e <= 52.
  Proof.
    unfold e. split; [apply Z.log2_nonneg|].
    assert (Z.log2 m < 53); [|lia].
    apply Z.log2_lt_pow2; [assumption|]. rewrite <- two53_eq. assumption.
  Qed.

  Lemma m_bounds : 2 ^ e <= m < 2 ^ (e + 1).
  Proof. unfold e. pose proof (Z.log2_spec m Hpos). rewrite <- Z.add_1_r in H. exact H. Qed.

  Let k := 2 ^ (52 - e).
  Let man := m * k.

  Lemma k_pos : 0 < k.
  Proof. unfold k. apply pow2_pos. pose proof e_bounds. lia. Qed.

  Lemma man_bounds : two52 <= man < two53.
  Proof.
    pose proof e_bounds as He. pose proof m_bounds as Hm. pose proof k_pos as Hk.
    unfold man. rewrite two52_eq, two53_eq.
    replace (2 ^ 52) with (2 ^ e * k) by (unfold k; rewrite <- Z.pow_add_r by lia; f_equal; lia).
    replace (2 ^ 53) with (2 ^ (e + 1) * k) by (unfold k; rewrite <- Z.pow_add_r by lia; f_equal; lia).
    split; [apply Z.mul_le_mono_nonneg_r; lia | apply Z.mul_lt_mono_pos_r; lia].
  Qed.

  Lemma round53_id : round_pos_to_prec 53 m = m.
  Proof.
    unfold round_pos_to_prec. fold e. pose proof e_bounds.
    replace (e <? 53) with true by (symmetry; apply Z.ltb_lt; lia). reflexivity.
  Qed.

  Definition bits_of_m : Z := (e + 1023) * two52 + (man - two52).

  Lemma b64_of_pos_exact_eq : b64_of_pos_exact m = bits_of_m.
  Proof.
    unfold b64_of_pos_exact, bits_of_m. fold e. pose proof e_bounds.
    replace (e <=? 52) with true by (symmetry; apply Z.leb_le; lia). reflexivity.
  Qed.

  Lemma bits_exp : b64_exp bits_of_m = e + 1023.
  Proof.
    unfold b64_exp, bits_of_m. pose proof man_bounds as Hmb. pose proof e_bounds.
    assert (Hsm : 0 <= man - two52 < two52) by (unfold two52, two53 in *; lia).
    rewrite Z.div_add_l by (rewrite two52_eq; lia).
    rewrite (Z.div_small (man - two52)) by exact Hsm. rewrite Z.add_0_r.
    apply Z.mod_small. lia.
  Qed.

  Lemma bits_man : b64_man bits_of_m = man - two52.
  Proof.
    unfold b64_man, bits_of_m. pose proof man_bounds as Hmb.
    assert (Hsm : 0 <= man - two52 < two52) by (unfold two52, two53 in *; lia).
    rewrite Z.add_comm, Z.mod_add by (rewrite two52_eq; lia).
    apply Z.mod_small. exact Hsm.
  Qed.

  Lemma bits_sign : b64_sign bits_of_m = 0.
  Proof.
    unfold b64_sign, bits_of_m. pose proof man_bounds. pose proof e_bounds.
    apply Z.div_small. unfold two63, two52, two53 in *. lia.
  Qed.

  Lemma bits_range : 0 <= bits_of_m < two63.
  Proof.
    unfold bits_of_m. pose proof man_bounds. pose proof e_bounds.
    unfold two63, two52, two53 in *. lia.
  Qed.

  Lemma bits_finite : b64_is_finite bits_of_m = true.
  Proof.
    unfold b64_is_finite. rewrite bits_exp. pose proof e_bounds.
    apply negb_true_iff. apply Z.eqb_neq. lia.
  Qed.

  Lemma bits_m : b64_m bits_of_m = man.
  Proof.
    unfold b64_m. rewrite bits_exp, bits_man. pose proof e_bounds.
    replace (e + 1023 =? 0) with false by (symmetry; apply Z.eqb_neq; lia). lia.
  Qed.

  Lemma bits_e : b64_e bits_of_m = e - 52.
  Proof.
    unfold b64_e. rewrite bits_exp. pose proof e_bounds.
    replace (e + 1023 =? 0) with false by (symmetry; apply Z.eqb_neq; lia). lia.
  Qed.

  Lemma bits_trunc : b64_trunc bits_of_m = m.
  Proof.
    unfold b64_trunc. rewrite bits_m, bits_e, bits_sign. pose proof e_bounds as He.
    replace (0 =? 0) with true by reflexivity.
    destruct (0 <=? e - 52) eqn:E.
    - apply Z.leb_le in E. assert (e = 52) by lia.
      unfold man, k. replace (52 - e) with 0 by lia. replace (e - 52) with 0 by lia.
      rewrite Z.pow_0_r. lia.
    - unfold man. replace (- (e - 52)) with (52 - e) by lia. fold k.
      apply Z.div_mul. pose proof k_pos. lia.
  Qed.

  (* the double is exactly the integer m: value = man * 2^(e-52) with man = m * 2^(52-e) *)
  Lemma bits_value_exact : b64_m bits_of_m = m * 2 ^ (- b64_e bits_of_m) /\ b64_e bits_of_m <= 0.
  Proof.
    rewrite bits_m, bits_e. pose proof e_bounds. split; [|lia].
    unfold man, k. f_equal. f_equal. lia.
  Qed.
End Exact.

(* a finite double [b] is exactly the integer [z] *)
Definition b64_is_int (b z : Z) : Prop :=
  b64_is_finite b = true /\ b64_trunc b = z /\
  (z = 0 -> b64_m b = 0) /\
  (z <> 0 -> b64_e b <= 0 /\ b64_m b = Z.abs z * 2 ^ (- b64_e b) /\ b64_sign b = (if z <? 0 then 1 else 0)).

Lemma b64_neg_fields x :
  0 <= x < two63 ->
  b64_sign (two63 + x) = 1 /\ b64_exp (two63 + x) = b64_exp x /\ b64_man (two63 + x) = b64_man x.
Proof.
  intros Hx. unfold b64_sign, b64_exp, b64_man, two63, two52 in *.
  split; [|split]; Z.div_mod_to_equations; lia.
Qed.

Theorem b64_of_Z_exact z : Z.abs z < two53 -> b64_is_int (b64_of_Z z) z.
Proof.
  intros Hz. destruct z as [|p|p].
  - unfold b64_of_Z, b64_is_int. split; [reflexivity|]. split; [reflexivity|]. split; [reflexivity|]. lia.
  - assert (Hp : 0 < Z.pos p) by lia. assert (Hl : Z.pos p < two53) by lia.
    unfold b64_of_Z. rewrite (round53_id _ Hp Hl), (b64_of_pos_exact_eq _ Hp Hl).
    split; [apply bits_finite; assumption|]. split; [apply bits_trunc; assumption|].
    split; [lia|]. intros _. destruct (bits_value_exact _ Hp Hl) as [Hv He].
    split; [assumption|]. split; [exact Hv|]. rewrite bits_sign by assumption. reflexivity.
  - assert (Hp : 0 < Z.pos p) by lia. assert (Hl : Z.pos p < two53) by (simpl in Hz; lia).
    unfold b64_of_Z. rewrite (round53_id _ Hp Hl), (b64_of_pos_exact_eq _ Hp Hl).
    pose proof (bits_range _ Hp Hl) as Hr.
    destruct (b64_neg_fields _ Hr) as (Hs & Hex & Hma).
    assert (Hm : b64_m (two63 + bits_of_m (Z.pos p)) = b64_m (bits_of_m (Z.pos p)))
      by (unfold b64_m; rewrite Hex, Hma; reflexivity).
    assert (He : b64_e (two63 + bits_of_m (Z.pos p)) = b64_e (bits_of_m (Z.pos p)))
      by (unfold b64_e; rewrite Hex; reflexivity).
    split; [unfold b64_is_finite; rewrite Hex; apply (bits_finite _ Hp Hl)|].
    split.
    + pose proof (bits_trunc _ Hp Hl) as Ht. unfold b64_trunc in *.
      rewrite Hm, He, Hs. rewrite (bits_sign _ Hp Hl) in Ht. simpl in Ht.
      replace (1 =? 0) with false by reflexivity. rewrite Ht. reflexivity.
    + split; [lia|]. intros _. destruct (bits_value_exact _ Hp Hl) as [Hv He'].
      rewrite Hm, He, Hs. split; [assumption|]. split; [exact Hv|]. reflexivity.
Qed.

Lemma in_int_abs z : in_int z = true -> Z.abs z < two53.
Proof.
  unfold in_int, INT_MIN, INT_MAX. intros H. apply andb_true_iff in H as [H1 H2].
  apply Z.leb_le in H1, H2. unfold two53. lia.
Qed.

(* ------------------------------------------------------------------------------------ *)
(* the conversion table *)

Ltac plcases s :=
  unfold n_get_int, n_get_int64, n_get_float, n_get_bool, n_get_string,
         n_set_int, n_set_int64, n_set_float, n_set_bool, n_set_string, s_ty in *;
  destruct (s_pl s) eqn:?; simpl in *.

(* int <-> int64: interchangeable exactly when the value fits *)
Lemma get_int64_of_int auto s z : s_pl s = PInt z -> n_get_int64 auto s = GOk z.
Proof. unfold n_get_int64. intros ->. reflexivity. Qed.

Lemma get_int_of_int64 auto s z :
  s_pl s = PInt64 z -> n_get_int auto s = (if in_int z then GOk z else GFail).
Proof. unfold n_get_int. intros ->. reflexivity. Qed.

Lemma set_int64_on_int auto s z v :
  s_pl s = PInt z ->
  n_set_int64 auto s v = (if in_int v then SOk (set_pl s (PInt v)) else SFail).
Proof. unfold n_set_int64. intros ->. reflexivity. Qed.

(* an int always fits a 64-bit setting *)
Lemma set_int_on_int64 auto s z v :
  s_pl s = PInt64 z -> n_set_int auto s v = SOk (set_pl s (PInt64 v)).
Proof. unfold n_set_int. intros ->. reflexivity. Qed.

(* without auto-conversion floats and integers never convert *)
Lemma no_autoconvert_get s :
  (forall b, s_pl s = PFloat b -> n_get_int false s = GFail /\ n_get_int64 false s = GFail) /\
  (forall z, s_pl s = PInt z \/ s_pl s = PInt64 z -> n_get_float false s = GFail).
Proof.
  split.
  - intros b H. unfold n_get_int, n_get_int64. rewrite H. auto.
  - intros z [H|H]; unfold n_get_float; rewrite H; reflexivity.
Qed.

Lemma no_autoconvert_set s v :
  (forall b, s_pl s = PFloat b -> n_set_int false s v = SFail /\ n_set_int64 false s v = SFail) /\
  (forall z, s_pl s = PInt z \/ s_pl s = PInt64 z -> n_set_float false s v = SFail).
Proof.
  split.
  - intros b H. unfold n_set_int, n_set_int64. rewrite H. auto.
  - intros z [H|H]; unfold n_set_float; rewrite H; reflexivity.
Qed.

(* with auto-conversion a 32-bit integer reads as exactly that double *)
Lemma get_float_of_int_exact s z :
  s_pl s = PInt z -> in_int z = true ->
  exists b, n_get_float true s = GOk b /\ b64_is_int b z.
Proof.
  intros H Hz. unfold n_get_float. rewrite H. eexists. split; [reflexivity|].
  apply b64_of_Z_exact. apply in_int_abs. assumption.
Qed.

(* with auto-conversion, a 32-bit integer stored into a float setting is stored exactly *)
Lemma set_int_on_float_exact s b v :
  s_pl s = PFloat b -> in_int v = true ->
  exists s' b', n_set_int true s v = SOk s' /\ s_pl s' = PFloat b' /\ b64_is_int b' v.
Proof.
  intros H Hv. unfold n_set_int. rewrite H. eexists. eexists. split; [reflexivity|].
  rewrite s_pl_set_pl. split; [reflexivity|]. apply b64_of_Z_exact. apply in_int_abs. assumption.
Qed.

(* booleans and strings never convert *)
Definition is_bool_or_string (s : setting) : Prop :=
  match s_pl s with PBool _ | PStr _ => True | _ => False end.
Definition is_number (s : setting) : Prop :=
  match s_pl s with PInt _ | PInt64 _ | PFloat _ => True | _ => False end.

Lemma bool_string_get auto s :
  is_bool_or_string s ->
  n_get_int auto s = GFail /\ n_get_int64 auto s = GFail /\ n_get_float auto s = GFail /\
  (forall z, s_pl s = PBool z -> n_get_string s = None) /\
  (forall o, s_pl s = PStr o -> n_get_bool s = 0).
Proof.
  unfold is_bool_or_string. plcases s; try tauto; intros _; repeat split; intros; try discriminate; reflexivity.
Qed.

Lemma bool_string_set auto s v o :
  is_bool_or_string s ->
  n_set_int auto s v = SFail /\ n_set_int64 auto s v = SFail /\ n_set_float auto s v = SFail /\
  (forall z, s_pl s = PBool z -> n_set_string s o = SFail) /\
  (forall x, s_pl s = PStr x -> n_set_bool s v = SFail).
Proof.
  unfold is_bool_or_string. plcases s; try tauto; intros _; repeat split; intros; try discriminate; reflexivity.
Qed.

(* numbers never read as / assign to booleans and strings *)
Lemma number_not_bool_string s v o :
  is_number s ->
  n_get_bool s = 0 /\ n_get_string s = None /\ n_set_bool s v = SFail /\ n_set_string s o = SFail.
Proof. unfold is_number. plcases s; try tauto; intros _; auto. Qed.

(* a value that was stored is the value read back through the accessor of the same kind.  For the
   integer setters on a FLOAT setting the stored value is the (rounded) double; the read-back is then
   characterised by set_int_on_float_exact. *)
Lemma set_get_int auto s s' v :
  n_set_int auto s v = SOk s' -> s_ty s <> TFloat -> in_int v = true -> n_get_int auto s' = GOk v.
Proof.
  intros H Hn Hv. plcases s; try discriminate.
  - inv H. rewrite s_pl_set_pl. reflexivity.
  - inv H. rewrite s_pl_set_pl. reflexivity.
  - inv H. rewrite s_pl_set_pl. rewrite Hv. reflexivity.
  - exfalso; apply Hn; reflexivity.
Qed.

Lemma set_get_int64 auto s s' v :
  n_set_int64 auto s v = SOk s' -> s_ty s <> TFloat -> n_get_int64 auto s' = GOk v.
Proof.
  intros H Hn. plcases s; try discriminate.
  - inv H. rewrite s_pl_set_pl. reflexivity.
  - destruct (in_int v); try discriminate. inv H. rewrite s_pl_set_pl. reflexivity.
  - inv H. rewrite s_pl_set_pl. reflexivity.
  - exfalso; apply Hn; reflexivity.
Qed.

Lemma set_get_float auto s s' b :
  n_set_float auto s b = SOk s' -> (s_ty s = TFloat \/ s_ty s = TNone) -> n_get_float auto s' = GOk b.
Proof.
  intros H Ht. plcases s; try discriminate; destruct Ht as [Ht|Ht]; try discriminate;
    inv H; rewrite s_pl_set_pl; reflexivity.
Qed.

Lemma set_get_bool s s' v : n_set_bool s v = SOk s' -> n_get_bool s' = v.
Proof. intros H. plcases s; try discriminate; inv H; rewrite s_pl_set_pl; reflexivity. Qed.

Lemma set_get_string s s' o : n_set_string s o = SOk s' -> n_get_string s' = o.
Proof. intros H. plcases s; try discriminate; inv H; rewrite s_pl_set_pl; reflexivity. Qed.

(* the complete success table of the setters: which stored type accepts which kind *)
Definition set_accepts (auto : bool) (stored : ty) (k : sk) (v : Z) : bool :=
  match stored, k with
  | TNone, _ => true
  | TInt, KInt | TInt64, KInt64 | TFloat, KFloat | TBool, KBool | TString, KString => true
  | TInt64, KInt => true
  | TInt, KInt64 => in_int v
  | TFloat, (KInt | KInt64) => auto
  | (TInt | TInt64), KFloat => auto
  | _, _ => false
  end.

Lemma setter_table c k a s :
  match setter c k a s with
  | SOk _ | SUnspec => set_accepts (auto c) (s_ty s) k (arg_z a) = true
  | SFail => set_accepts (auto c) (s_ty s) k (arg_z a) = false
  end.
Proof.
  destruct k; simpl; plcases s; try reflexivity; repeat destr_match; try reflexivity; try congruence.
Qed.

(* a succeeding setter keeps the type unless it was NONE *)
Lemma setter_keeps_type c k v s s' :
  setter c k v s = SOk s' -> s_ty s' = s_ty s \/ (s_ty s = TNone /\ s_ty s' = sk_ty k).
Proof.
  destruct k; simpl; intros H; plcases s; try discriminate; repeat destr_match; try discriminate;
    inv H; rewrite s_pl_set_pl; simpl; auto.
Qed.

(* the complete success table of the numeric getters *)
Definition get_accepts (auto : bool) (s : setting) (k : sk) : bool :=
  match s_pl s, k with
  | PInt _, (KInt | KInt64) | PInt64 _, KInt64 | PFloat _, KFloat => true
  | PInt64 z, KInt => in_int z
  | PFloat _, (KInt | KInt64) => auto
  | (PInt _ | PInt64 _), KFloat => auto
  | PBool _, KBool | PStr _, KString => true
  | _, _ => false
  end.

(* ------------------------------------------------------------------------------------ *)
(* all accessor families agree on the same setting *)

Definition look_of_get (g : gres) (mk : Z -> ret) : ret :=
  match g with GOk v => RLook 1 (Some (mk v)) | GFail => RLook 0 None | GUnspec => RUnspec end.

Lemma typed_look_numeric c m :
  typed_look c KInt (Some m) = look_of_get (n_get_int (auto c) m) RInt /\
  typed_look c KInt64 (Some m) = look_of_get (n_get_int64 (auto c) m) RInt /\
  typed_look c KFloat (Some m) = look_of_get (n_get_float (auto c) m) RFloat.
Proof. simpl. repeat split; destr_match; reflexivity. Qed.

(* a lookup fails exactly when the conversion table says so, and then has no output *)
Lemma typed_look_table c k m :
  match typed_look c k (Some m) with
  | RLook ok out => ok = (if get_accepts (auto c) m k then 1 else 0) /\
                    (ok = 0 -> out = None)
  | RUnspec => get_accepts (auto c) m k = true
  | _ => False
  end.
Proof.
  destruct k; simpl; unfold get_accepts; plcases m; repeat destr_match;
    try (split; [reflexivity|intros; try reflexivity; discriminate]); try reflexivity; try discriminate;
    match goal with H : RLook _ _ = RLook _ _ |- _ => inv H end;
    (split; [reflexivity|intros; try reflexivity; discriminate]).
Qed.

Definition zero_ret (k : sk) : ret :=
  match k with KInt | KInt64 | KBool => RInt 0 | KFloat => RFloat 0 | KString => RStr None end.

(* direct getter = the looked-up value, or 0 / 0.0 / NULL when the lookup fails *)
Lemma getter_vs_look c k m :
  match typed_look c k (Some m) with
  | RLook _ (Some v) => getter c k m = v
  | RLook _ None => getter c k m = zero_ret k
  | r => getter c k m = r
  end.
Proof.
  destruct k; simpl; unfold n_get_bool, n_get_string; repeat destr_match; try reflexivity; try discriminate;
    match goal with H : RLook _ _ = RLook _ _ |- _ => inv H end; try reflexivity; try discriminate;
    try match goal with H : Some _ = Some _ |- _ => inv H end; try reflexivity; try discriminate.
Qed.

Lemma typed_look_none c k : typed_look c k None = RLook 0 None.
Proof. reflexivity. Qed.

(* by-name, by-path and by-index accessors apply the same function to the setting they select *)
Lemma step_mlook c k p name s :
  get_at p (c_root c) = Some s ->
  api_step c (OMLook k p name) = (c, typed_look c k (kid_at s (get_member s name)), []).
Proof. intros H. simpl. unfold at_node. rewrite H. reflexivity. Qed.

Lemma step_plook c k path :
  api_step c (OPLook k path) =
  (c, typed_look c k (match lookup (c_root c) path with
                      | Some rel => get_at rel (c_root c) | None => None end), []).
Proof. reflexivity. Qed.

Lemma step_get c k p s :
  get_at p (c_root c) = Some s -> api_step c (OGet k p) = (c, getter c k s, []).
Proof. intros H. simpl. unfold at_node. rewrite H. reflexivity. Qed.

Lemma step_get_elem c k p idx s :
  get_at p (c_root c) = Some s ->
  api_step c (OGetElem k p idx) = (c, elem_getter c k (kid_at s (get_elem s (to_uint32 idx))), []).
Proof. intros H. simpl. unfold at_node. rewrite H. reflexivity. Qed.

Lemma elem_getter_some c k e : elem_getter c k (Some e) = getter c k e.
Proof. reflexivity. Qed.

Lemma elem_getter_none c k : elem_getter c k None = zero_ret k.
Proof. destruct k; reflexivity. Qed.

(* the direct setter and the element setter run the same node-level function *)
Lemma step_set c k p v s :
  get_at p (c_root c) = Some s ->
  api_step c (OSet k p v) =
  match setter c k v s with
  | SOk s' => (set_root c (upd_at p (fun _ => s') (c_root c)), RInt 1, [])
  | SFail => (c, RInt 0, [])
  | SUnspec => (c, RUnspec, [])
  end.
Proof. intros H. simpl. unfold at_node. rewrite H. destruct (setter c k v s); reflexivity. Qed.

Lemma set_elem_existing t st agg idx i e :
  (s_ty agg = TArray \/ s_ty agg = TList) -> 0 <= idx -> get_elem agg idx = Some i ->
  nth_error (s_kids agg) i = Some e ->
  n_set_elem t st agg idx =
  match st e with
  | SOk e' => EOk (set_kids agg (list_upd i (fun _ => e') (s_kids agg))) i
  | SFail => EFail
  | SUnspec => EUnspec
  end.
Proof.
  intros Ht Hi Hg Hn. unfold n_set_elem.
  assert (idx <? 0 = false) as -> by (apply Z.ltb_ge; lia).
  rewrite Hg, Hn. destruct Ht as [-> | ->]; reflexivity.
Qed.
