(* ParseNames.v — the member names of every syntax tree that spells a scanner stream are valid names: the
   "valid name" conjunct of the semantic conditions (ParseComplete.sem_m) is always true for config_read, so a
   "duplicate setting name" error is always a real duplicate.  Lemmas behind Properties_C02. *)
From Coq Require Import List ZArith NArith Bool Lia.
Import ListNotations.
From LC Require Import Base Tree Fp Lookup Api Bisim ScanAction Tokens Lexer Parser Reader ParseComplete ParseExact LexTotal ReadTotal NameFacts.
Local Open Scope Z_scope.

(* every member name, at every nesting level *)
Fixpoint nv_v (v : cst) : bool :=
  match v with
  | CScal _ _ | CStr _ _ _ => true
  | CArr _ es _ | CLst _ es _ => nv_e es
  | CGrp _ ms _ => nv_m ms
  end
with nv_e (es : celems) : bool := match es with ENil => true | ECons v tl => nv_v v && nv_t tl end
with nv_t (tl : ctail) : bool :=
  match tl with TlNil => true | TlComma _ tl => nv_t tl | TlCommaV _ v tl => nv_v v && nv_t tl end
with nv_m (ms : cmembers) : bool :=
  match ms with MNil => true | MCons nm _ _ v _ rest => validate_name nm && nv_v v && nv_m rest end.

Definition names_in (l : list ptok2) : Prop := forall nm p, In (TkName nm, p) l -> validate_name nm = true.

Lemma names_in_app a b : names_in (a ++ b) -> names_in a /\ names_in b.
Proof. intros H. split; intros nm p Hin; apply (H nm p); apply in_or_app; auto. Qed.
Lemma names_in_cons x l : names_in (x :: l) -> names_in l.
Proof. intros H nm p Hin. apply (H nm p). right. exact Hin. Qed.

Theorem names_valid_of_tokens :
  (forall v, names_in (toks_v v) -> nv_v v = true) /\
  (forall es, names_in (toks_e es) -> nv_e es = true) /\
  (forall tl, names_in (toks_t tl) -> nv_t tl = true) /\
  (forall ms, names_in (toks_m ms) -> nv_m ms = true).
Proof.
  apply cst_mutind.
  - reflexivity.
  - reflexivity.
  - intros po es IH pc H. cbn [toks_v] in H. apply names_in_cons in H. apply names_in_app in H as [H _]. exact (IH H).
  - intros po es IH pc H. cbn [toks_v] in H. apply names_in_cons in H. apply names_in_app in H as [H _]. exact (IH H).
  - intros po ms IH pc H. cbn [toks_v] in H. apply names_in_cons in H. apply names_in_app in H as [H _]. exact (IH H).
  - reflexivity.
  - intros v IHv tl IHt H. cbn [toks_e] in H. apply names_in_app in H as [H1 H2].
    change (nv_e (ECons v tl)) with (nv_v v && nv_t tl). rewrite (IHv H1), (IHt H2). reflexivity.
  - reflexivity.
  - intros p tl IH H. cbn [toks_t] in H. apply names_in_cons in H. exact (IH H).
  - intros p v IHv tl IHt H. cbn [toks_t] in H. apply names_in_cons in H. apply names_in_app in H as [H1 H2].
    change (nv_t (TlCommaV p v tl)) with (nv_v v && nv_t tl). rewrite (IHv H1), (IHt H2). reflexivity.
  - reflexivity.
  - intros nm pos peq v IHv tm ms IHm H. cbn [toks_m] in H.
    pose proof (H nm pos (or_introl eq_refl)) as Hn.
    apply names_in_cons in H. apply names_in_cons in H. apply names_in_app in H as [H1 H2]. apply names_in_app in H2 as [_ H3].
    change (nv_m (MCons nm pos peq v tm ms)) with (validate_name nm && nv_v v && nv_m ms). rewrite Hn, (IHv H1), (IHm H3). reflexivity.
Qed.

(* config_read: whatever tree spells the scanner's stream, all its member names are valid *)
Theorem read_names_valid atof FS :
  (forall f content, fs_lookup FS f = Some (FFile content) -> bytes_ok content) ->
  forall c top text ms, bytes_ok text ->
  spells ms (fst (lex_top atof FS c top text)) -> nv_m ms = true.
Proof.
  intros HFS c top text ms Hb (pe & junk & Hsp).
  destruct names_valid_of_tokens as (_ & _ & _ & Hm). apply Hm.
  intros nm p Hin. pose proof (scanner_names_valid atof FS HFS c top text Hb) as Hall. rewrite Forall_forall in Hall.
  assert (Hin2 : In (TkName nm, p) (map ltp (fst (lex_top atof FS c top text)))) by (rewrite Hsp; apply in_or_app; left; exact Hin).
  apply in_map_iff in Hin2 as (tk & Etk & Htk). apply (Hall tk Htk nm). unfold ltp in Etk. injection Etk as E _. exact E.
Qed.
