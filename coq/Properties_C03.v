(* Properties_C03.v — C03: reading arbitrary bytes is memory-safe, terminates, never kills the process.
   PARTIAL.  What a Gallina model can carry is the logic that makes the property true or false; memory
   safety of the compiled C (out-of-bounds, use-after-free, leaks, C stack depth) is observed by the
   sanitizer build of the correspondence harness on every run of every check, never proved here.

   Proved here, for every byte string:
     - termination of scanning: every call of the matcher consumes at least one byte (C03_progress);
     - no stray output: the flex default rule (ECHO to stdout) is never selected (C03_no_stray_output);
     - the scanner with its include machine is total (C03_scanner_total): for every text and every file system it
       stops at the end of the input or at an error token - the fuel and the include-depth budget of the model
       always suffice, no action of the table is unknown, and no path reaches YY_FATAL_ERROR (exit);
     - the parser is total on every token stream the scanner can deliver (C03_parser_total): POk or PErr, never out
       of fuel, never an impossible tree, never reading past the stopping token;
     - hence config_read / config_read_file answer success, failure or "nesting beyond the parser stack" for every
       input: no hang, no process exit, in the model (C03_read_total, C03_read_file_total);
     - the bounds arithmetic of the three places where the library computes capacities itself (MemModel.v, MemFacts.v):
       the string buffer of strbuf.c (64-byte blocks, size_t wrap written into the model), the string vector of strvec.c
       (32-entry chunks plus a terminator slot) and the element vector of every group / array / list
       (__config_list_add / __config_list_remove, 16-entry chunks, realloc may shrink after removals): for EVERY history of
       appends, releases, adds and in-range removes, every index written or moved lies inside what was last requested
       from realloc (C03_mem_safe), with the invariants that make it so (C03_strbuf_invariant, C03_strvec_invariant,
       C03_list_invariant, C03_realloc_tracks); the guard against size_t wrap-around is explicit and C03_strbuf_wrap_refuted
       shows what happens without it.  Tied to /repo on every run: harness/memdrv.c runs the same operation sequences on
       the real functions under ASan with realloc observed (--wrap), lengths / capacities / requested sizes compared op by op;
     - the error-state part of "afterwards the configuration can still be ... re-read" is C09.
   History: F5 (default rule reachable inside an include path) and F6 (include of a directory reached
   exit(2)) were defects of the original tree, repaired in /repo. *)
From Coq Require Import List ZArith NArith Bool.
Import ListNotations.
From LC Require Import Base Tree Regex RegexFacts FlexEngine Bisim ScanAction ScannerSpec ScannerCert ScannerFacts
  Tokens Lexer Parser Reader GrammarFacts ParseTotal LexTotal ReadTotal MemModel MemFacts.
From LC.gen Require Import Consts.
From LC.gen Require Import ScannerTables.
Local Open Scope Z_scope.

(* on every non-empty input, in every start condition, the matcher selects a documented rule and a
   lexeme of length >= 1 (so the scanner loop consumes the input in at most length-many steps; it can
   neither hang nor get stuck) *)
Theorem C03_progress : forall sc bol b r,
  In (sc, bol) all_conditions -> bytes_ok (b :: r) ->
  exists rule len pat,
    flex_match ScannerCert.the_tables sc bol (b :: r) = Some (rule, len) /\ (1 <= len <= length (b :: r))%nat /\
    In (rule, pat) (spec_rules sc bol) /\ matches pat (firstn len (b :: r)).
Proof. exact scanner_progress. Qed.
Print Assumptions C03_progress.

(* the selected rule is one of the 47 documented rules, never flex's default rule, whose action would
   write the byte to the program's standard output *)
Theorem C03_no_stray_output : forall sc bol b r rule len,
  In (sc, bol) all_conditions -> bytes_ok (b :: r) ->
  flex_match ScannerCert.the_tables sc bol (b :: r) = Some (rule, len) ->
  1 <= rule <= 47 /\ action_of yy_actions rule <> AEcho /\ action_of yy_actions rule <> AUnknown.
Proof.
  intros sc bol b r rule len Hc Hb H.
  destruct (scanner_progress sc bol b r Hc Hb) as (rule' & len' & pat & E & _ & Hin & _).
  rewrite E in H. injection H as <- <-.
  pose proof (spec_rule_numbers _ _ _ _ Hin) as Hr. split; [exact Hr | apply no_echo_action; exact Hr].
Qed.
Print Assumptions C03_no_stray_output.

(* ---- totality of the reader model ---- *)
(* the scanner and its include machine: for every text and file system (bytes 0..255) the scan ends at the end of
   the input or at an error token, and the token list contains that stopping token *)
Theorem C03_scanner_total : forall atof FS,
  (forall f content, fs_lookup FS f = Some (FFile content) -> bytes_ok content) ->
  forall c top text, bytes_ok text ->
  let '(toks, stop) := lex_top atof FS c top text in
  (stop = StopEOB \/ stop = StopError) /\ has_stop (map lt_tok toks).
Proof. exact lex_top_total. Qed.
Print Assumptions C03_scanner_total.

(* the parser on such a stream: accepted or rejected with an error, for every tree to fill and every option *)
Theorem C03_parser_total : forall ov s,
  has_stop (ptoks s) -> s_ty (p_root s) = TGroup ->
  match p_config ov s with POk _ | PErr _ _ => True | _ => False end.
Proof. exact p_config_total. Qed.
Print Assumptions C03_parser_total.

(* config_read (string / stream) and config_read_file: success, failure, or the parser-stack limit *)
Theorem C03_read_total : forall atof FS,
  (forall f content, fs_lookup FS f = Some (FFile content) -> bytes_ok content) ->
  forall c top text, bytes_ok text ->
  match rd_out_ (config_read atof FS c top text) with RdOk | RdFail | RdNest => True | _ => False end.
Proof. exact config_read_total. Qed.
Print Assumptions C03_read_total.

Theorem C03_read_file_total : forall atof FS,
  (forall f content, fs_lookup FS f = Some (FFile content) -> bytes_ok content) ->
  forall c path,
  match rd_out_ (config_read_file atof FS c path) with RdOk | RdFail | RdNest => True | _ => False end.
Proof. exact config_read_file_total. Qed.
Print Assumptions C03_read_file_total.


(* ------------------------------------------------------------------------------------------------------- *)
(* bounds arithmetic of the string buffer, the string vector and the element vectors (MemModel.v, MemFacts.v) *)
(* ------------------------------------------------------------------------------------------------------- *)

(* for every history of operations within the guards (no size_t wrap of the string length: total below 2^64 - 128;
   removals in range, as every caller checks), every step touches only indices inside the allocation it works on *)
Theorem C03_mem_safe : forall ops, guards m0 ops = true ->
  Forall (fun out => in_bounds out = true) (snd (mrun m0 ops)).
Proof. exact mem_safe. Qed.
Print Assumptions C03_mem_safe.

Theorem C03_strbuf_invariant : forall ops, guards m0 ops = true ->
  let b := m_sb (fst (mrun m0 ops)) in
  sb_cap b mod STRING_BLOCK_SIZE = 0 /\ 0 <= sb_cap b < WORD /\ (0 < sb_cap b -> sb_len b + 1 <= sb_cap b) /\ (sb_cap b = 0 -> sb_len b = 0).
Proof. exact strbuf_invariant. Qed.
Print Assumptions C03_strbuf_invariant.

Theorem C03_strvec_invariant : forall ops, guards m0 ops = true ->
  let v := m_sv (fst (mrun m0 ops)) in
  0 <= sv_len v <= sv_cap v /\ (0 < sv_cap v -> sv_alloc v = sv_cap v + 1) /\ (sv_cap v = 0 -> sv_alloc v = 0).
Proof. exact strvec_invariant. Qed.
Print Assumptions C03_strvec_invariant.

Theorem C03_list_invariant : forall ops, guards m0 ops = true ->
  let l := m_ls (fst (mrun m0 ops)) in 0 <= ls_len l <= ls_alloc l /\ ls_alloc l mod LIST_CHUNK_SIZE = 0.
Proof. exact list_invariant. Qed.
Print Assumptions C03_list_invariant.

(* the allocation the model tracks is what the step asked realloc for *)
Theorem C03_realloc_tracks : forall s o, m_ok s -> guard s o = true ->
  match mo_realloc (snd (mstep s o)) with
  | Some n => alloc_bytes (fst (mstep s o)) o = n
  | None => alloc_bytes (fst (mstep s o)) o = alloc_bytes s o \/ alloc_bytes (fst (mstep s o)) o = 0
  end.
Proof. exact realloc_tracks. Qed.
Print Assumptions C03_realloc_tracks.

(* the guards are met by every history whose strings total less than 2^64 - 128 bytes *)
Theorem C03_mem_guards : forall ops s, m_ok s ->
  forallb nonneg_len ops = true -> sb_len (m_sb s) + fold_right (fun o acc => appended o + acc) 0 ops < SB_LIMIT ->
  ls_guards s ops = true -> guards s ops = true.
Proof. exact guards_of_total. Qed.

(* without the guard: a string of 2^64 - 2 bytes makes the length computation wrap, realloc is asked for 0 bytes and the
   write is out of bounds (no such string can exist in a process; the guard is what the proof needs, stated) *)
Theorem C03_strbuf_wrap_refuted :
  guards m0 [SbString (WORD - 2)] = false /\
  snd (mstep m0 (SbString (WORD - 2))) = mkOut (Some 0) (Some (WORD - 2, 0)) false /\
  in_bounds (snd (mstep m0 (SbString (WORD - 2)))) = false.
Proof. exact strbuf_wrap_refuted. Qed.

(* non-vacuity: a 108-operation history (70 bytes, release, more; 33 vector appends with a double release; a list grown to
   33, cut to 16 and grown again) meets the guards and is in bounds *)
Example C03_mem_example : guards m0 ex_ops = true /\ forallb in_bounds (snd (mrun m0 ex_ops)) = true.
Proof. exact (conj ex_guards ex_in_bounds). Qed.
