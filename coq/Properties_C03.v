(* Properties_C03.v — C03: reading arbitrary bytes is memory-safe, terminates, never kills the process.
   PARTIAL.  What a Gallina model can carry is the logic that makes the property true or false; memory
   safety of the compiled C (out-of-bounds, use-after-free, leaks, C stack depth) is observed by the
   sanitizer build of the correspondence harness on every run of every check, never proved here.

   Proved here, for every byte string:
     - termination of scanning: every call of the matcher consumes at least one byte (C03_progress);
     - no stray output: the flex default rule (ECHO to stdout) is never selected (C03_no_stray_output);
     - the error-state part of "afterwards the configuration can still be ... re-read" is C09.
   History: F5 (default rule reachable inside an include path) and F6 (include of a directory reached
   exit(2)) were defects of the original tree, repaired in /repo. *)
From Coq Require Import List ZArith NArith Bool.
Import ListNotations.
From LC Require Import Base Regex RegexFacts FlexEngine Bisim ScanAction ScannerSpec ScannerCert ScannerFacts.
From LC.gen Require Import ScannerTables.
Local Open Scope Z_scope.

(* on every non-empty input, in every start condition, the matcher selects a documented rule and a
   lexeme of length >= 1 (so the scanner loop consumes the input in at most length-many steps; it can
   neither hang nor get stuck) *)
Theorem C03_progress : forall sc bol b r,
  In (sc, bol) all_conditions -> bytes_ok (b :: r) ->
  exists rule len pat,
    flex_match the_tables sc bol (b :: r) = Some (rule, len) /\ (1 <= len <= length (b :: r))%nat /\
    In (rule, pat) (spec_rules sc bol) /\ matches pat (firstn len (b :: r)).
Proof. exact scanner_progress. Qed.
Print Assumptions C03_progress.

(* the selected rule is one of the 47 documented rules, never flex's default rule, whose action would
   write the byte to the program's standard output *)
Theorem C03_no_stray_output : forall sc bol b r rule len,
  In (sc, bol) all_conditions -> bytes_ok (b :: r) ->
  flex_match the_tables sc bol (b :: r) = Some (rule, len) ->
  1 <= rule <= 47 /\ action_of yy_actions rule <> AEcho /\ action_of yy_actions rule <> AUnknown.
Proof.
  intros sc bol b r rule len Hc Hb H.
  destruct (scanner_progress sc bol b r Hc Hb) as (rule' & len' & pat & E & _ & Hin & _).
  rewrite E in H. injection H as <- <-.
  pose proof (spec_rule_numbers _ _ _ _ Hin) as Hr. split; [exact Hr | apply no_echo_action; exact Hr].
Qed.
Print Assumptions C03_no_stray_output.
