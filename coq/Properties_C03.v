(* Properties_C03.v — C03: reading arbitrary bytes is memory-safe, terminates, never kills the process.
   PARTIAL.  What a Gallina model can carry is the logic that makes the property true or false; memory
   safety of the compiled C (out-of-bounds, use-after-free, leaks, C stack depth) is observed by the
   sanitizer build of the correspondence harness on every run of every check, never proved here.

   Proved here, for every byte string:
     - termination of scanning: every call of the matcher consumes at least one byte (C03_progress);
     - no stray output: the flex default rule (ECHO to stdout) is never selected (C03_no_stray_output);
     - the scanner with its include machine is total (C03_scanner_total): for every text and every file system it
       stops at the end of the input or at an error token - the fuel and the include-depth budget of the model
       always suffice, no action of the table is unknown, and no path reaches YY_FATAL_ERROR (exit);
     - the parser is total on every token stream the scanner can deliver (C03_parser_total): POk or PErr, never out
       of fuel, never an impossible tree, never reading past the stopping token;
     - hence config_read / config_read_file answer success, failure or "nesting beyond the parser stack" for every
       input: no hang, no process exit, in the model (C03_read_total, C03_read_file_total);
     - the error-state part of "afterwards the configuration can still be ... re-read" is C09.
   History: F5 (default rule reachable inside an include path) and F6 (include of a directory reached
   exit(2)) were defects of the original tree, repaired in /repo. *)
From Coq Require Import List ZArith NArith Bool.
Import ListNotations.
From LC Require Import Base Tree Regex RegexFacts FlexEngine Bisim ScanAction ScannerSpec ScannerCert ScannerFacts
  Tokens Lexer Parser Reader GrammarFacts ParseTotal LexTotal ReadTotal.
From LC.gen Require Import ScannerTables.
Local Open Scope Z_scope.

(* on every non-empty input, in every start condition, the matcher selects a documented rule and a
   lexeme of length >= 1 (so the scanner loop consumes the input in at most length-many steps; it can
   neither hang nor get stuck) *)
Theorem C03_progress : forall sc bol b r,
  In (sc, bol) all_conditions -> bytes_ok (b :: r) ->
  exists rule len pat,
    flex_match ScannerCert.the_tables sc bol (b :: r) = Some (rule, len) /\ (1 <= len <= length (b :: r))%nat /\
    In (rule, pat) (spec_rules sc bol) /\ matches pat (firstn len (b :: r)).
Proof. exact scanner_progress. Qed.
Print Assumptions C03_progress.

(* the selected rule is one of the 47 documented rules, never flex's default rule, whose action would
   write the byte to the program's standard output *)
Theorem C03_no_stray_output : forall sc bol b r rule len,
  In (sc, bol) all_conditions -> bytes_ok (b :: r) ->
  flex_match ScannerCert.the_tables sc bol (b :: r) = Some (rule, len) ->
  1 <= rule <= 47 /\ action_of yy_actions rule <> AEcho /\ action_of yy_actions rule <> AUnknown.
Proof.
  intros sc bol b r rule len Hc Hb H.
  destruct (scanner_progress sc bol b r Hc Hb) as (rule' & len' & pat & E & _ & Hin & _).
  rewrite E in H. injection H as <- <-.
  pose proof (spec_rule_numbers _ _ _ _ Hin) as Hr. split; [exact Hr | apply no_echo_action; exact Hr].
Qed.
Print Assumptions C03_no_stray_output.

(* ---- totality of the reader model ---- *)
(* the scanner and its include machine: for every text and file system (bytes 0..255) the scan ends at the end of
   the input or at an error token, and the token list contains that stopping token *)
Theorem C03_scanner_total : forall atof FS,
  (forall f content, fs_lookup FS f = Some (FFile content) -> bytes_ok content) ->
  forall c top text, bytes_ok text ->
  let '(toks, stop) := lex_top atof FS c top text in
  (stop = StopEOB \/ stop = StopError) /\ has_stop (map lt_tok toks).
Proof. exact lex_top_total. Qed.
Print Assumptions C03_scanner_total.

(* the parser on such a stream: accepted or rejected with an error, for every tree to fill and every option *)
Theorem C03_parser_total : forall ov s,
  has_stop (ptoks s) -> s_ty (p_root s) = TGroup ->
  match p_config ov s with POk _ | PErr _ _ => True | _ => False end.
Proof. exact p_config_total. Qed.
Print Assumptions C03_parser_total.

(* config_read (string / stream) and config_read_file: success, failure, or the parser-stack limit *)
Theorem C03_read_total : forall atof FS,
  (forall f content, fs_lookup FS f = Some (FFile content) -> bytes_ok content) ->
  forall c top text, bytes_ok text ->
  match rd_out_ (config_read atof FS c top text) with RdOk | RdFail | RdNest => True | _ => False end.
Proof. exact config_read_total. Qed.
Print Assumptions C03_read_total.

Theorem C03_read_file_total : forall atof FS,
  (forall f content, fs_lookup FS f = Some (FFile content) -> bytes_ok content) ->
  forall c path,
  match rd_out_ (config_read_file atof FS c path) with RdOk | RdFail | RdNest => True | _ => False end.
Proof. exact config_read_file_total. Qed.
Print Assumptions C03_read_file_total.
