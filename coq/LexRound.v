(* LexRound.v — the scanner on the writer's lexemes (lemmas behind Properties_C01): one step of the compiled
   scanner (Lexer.lex_step on the generated tables) on a word of a certified class, the tokens of the scalar
   renderings, and the string escape / unescape round trip for every byte string. *)
From Coq Require Import List ZArith NArith Bool Lia.
Import ListNotations.
From LC Require Import Base BaseFacts Tree Fp ScanAction FlexEngine Tokens Lexer Reader LiteralFacts Regex RegexFacts Bisim
  ScannerSpec ScannerCert ScannerFacts ClassCert RoundFacts Writer.
From LC.gen Require Import Consts ScannerTables.
Local Open Scope Z_scope.
Local Notation action_of := Lexer.action_of.

(* ------------------------------------------------------------------------------------ *)
(* membership in character sets, words of one-set classes *)

Lemma cs_sweep cs (p : Z -> bool) :
  forallb (fun b => Bool.eqb (in_cs cs b) (p b)) all_bytes = true ->
  forall b, 0 <= b < 256 -> in_cs cs b = p b.
Proof.
  intros H b Hb. rewrite forallb_forall in H. specialize (H b (in_all_bytes b Hb)).
  apply Bool.eqb_prop in H. exact H.
Qed.

Lemma in_cs_digit b : 0 <= b < 256 -> in_cs cs_digit b = is_digit b.
Proof. apply cs_sweep. vm_compute. reflexivity. Qed.

Definition is_upper_hex (c : Z) : bool := is_digit c || ((65 <=? c) && (c <=? 70)).
Lemma in_cs_upper_hex b : 0 <= b < 256 -> in_cs (cs_union cs_digit (cs_range 65 70)) b = is_upper_hex b.
Proof. apply cs_sweep. vm_compute. reflexivity. Qed.

Definition is_plain (c : Z) : bool := (32 <=? c) && (c <? 256) && negb (c =? 34) && negb (c =? 92).
Lemma in_cs_plain b : 0 <= b < 256 -> in_cs cs_plain b = is_plain b.
Proof. apply cs_sweep. vm_compute. reflexivity. Qed.

Lemma in_cs_single c b : 0 <= c < 256 -> in_cs (cs_of [c]) b = (b =? c).
Proof.
  intros Hc. unfold in_cs, cs_of. destruct (Z.leb_spec 0 b) as [Hb|Hb]; cbn [andb].
  - rewrite N.setbit_eqb, N.bits_0, orb_false_r.
    destruct (Z.eqb_spec b c) as [->|Hne].
    + apply N.eqb_refl.
    + apply N.eqb_neq. intros E. apply Hne. apply (f_equal Z.of_N) in E. rewrite !Z2N.id in E by lia. lia.
  - symmetry. apply Z.eqb_neq. lia.
Qed.

Lemma m_chr1 c : 0 <= c < 256 -> matches (chr c) [c].
Proof. intros Hc. apply MChr. rewrite in_cs_single by exact Hc. apply Z.eqb_refl. Qed.

Lemma m_star_set cs ds : Forall (fun b => in_cs cs b = true) ds -> matches (Star (Chr cs)) ds.
Proof.
  induction 1 as [|b r Hb Hr IH]; [apply MStar0|].
  change (b :: r) with ([b] ++ r). apply MStarS; [apply MChr; exact Hb | discriminate | exact IH].
Qed.

Lemma m_plus_set cs ds : ds <> [] -> Forall (fun b => in_cs cs b = true) ds -> matches (plus (Chr cs)) ds.
Proof.
  intros Hne H. destruct ds as [|b r]; [congruence|]. inversion H; subst.
  change (b :: r) with ([b] ++ r). apply MCat; [apply MChr; assumption | apply m_star_set; assumption].
Qed.

Lemma bytes_of_digits ds : forallb is_digit ds = true -> bytes_ok ds.
Proof.
  intros H. rewrite forallb_forall in H. apply Forall_forall. intros c Hc. specialize (H c Hc).
  unfold is_digit in H. apply andb_true_iff in H as [A B]. apply Z.leb_le in A, B. lia.
Qed.

Lemma digits_in_set ds : forallb is_digit ds = true -> Forall (fun b => in_cs cs_digit b = true) ds.
Proof.
  intros H. pose proof (bytes_of_digits ds H) as Hb. rewrite forallb_forall in H.
  apply Forall_forall. intros c Hc. rewrite in_cs_digit; [apply H; exact Hc|].
  unfold bytes_ok in Hb. rewrite Forall_forall in Hb. apply Hb. exact Hc.
Qed.

(* ---- the printed integers are words of their classes ---- *)
Lemma m_minus_opt neg : matches minus_opt (sign_of neg false).
Proof. destruct neg; cbn; [apply MAltR; apply (m_chr1 45); lia | apply MAltL; apply MEps]. Qed.

Lemma show_dec_class v : matches c_dec (show_dec v) /\ bytes_ok (show_dec v) /\ show_dec v <> [].
Proof.
  rewrite show_dec_sign. destruct (show_dec_nonneg (Z.abs v) (Z.abs_nonneg v)) as (_ & Hdig & Hne).
  split; [|split].
  - apply MCat; [apply m_minus_opt | apply m_plus_set; [exact Hne | apply digits_in_set; exact Hdig]].
  - apply Forall_app. split; [destruct (v <? 0); cbn; repeat constructor; lia | apply bytes_of_digits; exact Hdig].
  - destruct (show_dec (Z.abs v)); [congruence|]. destruct (sign_of (v <? 0) false); discriminate.
Qed.

Lemma show_dec64_class v : matches c_dec64 (show_dec v ++ [76]) /\ bytes_ok (show_dec v ++ [76]).
Proof.
  destruct (show_dec_class v) as (Hm & Hb & _). split.
  - unfold c_dec64. cbn [cats]. unfold c_dec in Hm. apply m_cat in Hm as (u & w & E & Hu & Hw).
    rewrite E, <- app_assoc. apply MCat; [exact Hu|]. apply MCat; [exact Hw | apply (m_chr1 76); lia].
  - apply Forall_app. split; [exact Hb | repeat constructor; lia].
Qed.

Lemma hex_digits_upper n : 0 <= n ->
  Forall (fun b => in_cs (cs_union cs_digit (cs_range 65 70)) b = true) (show_hex_upper n) /\ bytes_ok (show_hex_upper n).
Proof.
  intros Hn. destruct (nat_digits_spec 16 n ltac:(lia) Hn) as (_ & Ho & _). unfold show_hex_upper.
  unfold digits_ok in Ho. rewrite Forall_forall in Ho.
  assert (H : forall c, In c (map hex_char_upper (nat_digits 16 n)) -> 0 <= c < 256 /\ is_upper_hex c = true).
  { intros c Hc. apply in_map_iff in Hc as (d & <- & Hd). specialize (Ho d Hd). unfold hex_char_upper, is_upper_hex, is_digit.
    destruct (Z.ltb_spec d 10).
    - split; [lia|]. apply orb_true_iff. left. apply andb_true_iff. split; apply Z.leb_le; lia.
    - split; [lia|]. apply orb_true_iff. right. apply andb_true_iff. split; apply Z.leb_le; lia. }
  split; apply Forall_forall; intros c Hc; destruct (H c Hc) as [Hr Hu]; [|exact Hr].
  rewrite in_cs_upper_hex by exact Hr. exact Hu.
Qed.

Lemma show_hex_class n : 0 <= n ->
  matches c_hex ([48; 120] ++ show_hex_upper n) /\ bytes_ok ([48; 120] ++ show_hex_upper n).
Proof.
  intros Hn. destruct (hex_digits_upper n Hn) as [Hs Hb]. destruct (show_hex_upper_spec n Hn) as (_ & _ & Hne).
  split.
  - unfold c_hex. cbn [cats]. change ([48; 120] ++ show_hex_upper n) with ([48] ++ ([120] ++ show_hex_upper n)).
    apply MCat; [apply (m_chr1 48); lia|]. apply MCat; [apply (m_chr1 120); lia|]. apply m_plus_set; assumption.
  - apply Forall_app. split; [repeat constructor; lia | exact Hb].
Qed.

Lemma show_hex64_class n : 0 <= n ->
  matches c_hex64 ([48; 120] ++ show_hex_upper n ++ [76]) /\ bytes_ok ([48; 120] ++ show_hex_upper n ++ [76]).
Proof.
  intros Hn. destruct (hex_digits_upper n Hn) as [Hs Hb]. destruct (show_hex_upper_spec n Hn) as (_ & _ & Hne).
  split.
  - unfold c_hex64. cbn [cats].
    change ([48; 120] ++ show_hex_upper n ++ [76]) with ([48] ++ ([120] ++ (show_hex_upper n ++ [76]))).
    apply MCat; [apply (m_chr1 48); lia|]. apply MCat; [apply (m_chr1 120); lia|].
    apply MCat; [apply m_plus_set; assumption | apply (m_chr1 76); lia].
  - apply Forall_app. split; [repeat constructor; lia|]. apply Forall_app. split; [exact Hb | repeat constructor; lia].
Qed.

(* ------------------------------------------------------------------------------------ *)
(* one scanner step on a word of a certified class *)

Section Steps.
  Variable atof : bytes -> Z.
  Variable FS : fs.
  Variable incdir : option bytes.
  Variable incf : incfn.
  Variable maxd : Z.

  Definition LS := lex_step the_tables yy_rule_can_match_eol yy_actions atof FS incdir incf maxd.

  (* what lex_step does once the match is known *)
  Definition after_match (st : lstate) (b : buf) (rule : Z) (text rest : bytes) : step_res :=
    let bol' := (last text 0 =? 10) in
    let line' := if nthZ yy_rule_can_match_eol rule =? 0 then b_line b else b_line b + count_nl text in
    let b' := mkBuf rest bol' line' in
    let tokret := fun t => let '(tk, st') := emit st line' t None in STok tk st' b' in
    match action_of yy_actions rule with
    | ABegin sc => SCont (set_cond st sc) b'
    | AIgnore => SCont st b'
    | AAppendText => SCont (set_acc st (l_acc st ++ until_nul text)) b'
    | AAppendChar c => SCont (set_acc st (l_acc st ++ [c])) b'
    | AAppendHex => SCont (set_acc st (l_acc st ++ [hex2_val text])) b'
    | AEndString =>
        let '(tk, st') := emit st line' (TkString (until_nul (l_acc st))) None in
        STok tk (set_cond (set_acc st' []) 0) b'
    | ARet t => tokret (TkP t)
    | ABool v => tokret (TkBool v)
    | AName => tokret (TkName text)
    | AFloat | AInteger | AInteger64 | AHex | AHex64 =>
        match numeric_token atof (action_of yy_actions rule) text with
        | Some t => tokret t
        | None => stop_error st line' None
        end
    | _ => SStop [] StopStuck st line'       (* not reached for the rules of the classes below *)
    end.

  Lemma firstn_app_exact {A} (u v : list A) : firstn (length u) (u ++ v) = u.
  Proof. rewrite firstn_app, Nat.sub_diag, firstn_all. cbn. apply app_nil_r. Qed.
  Lemma skipn_app_exact {A} (u v : list A) : skipn (length u) (u ++ v) = v.
  Proof. rewrite skipn_app, Nat.sub_diag, skipn_all. reflexivity. Qed.

  Definition simple_action (a : action) : bool :=
    match a with AEcho | AUnknown | AIncludeEnd => false | _ => true end.

  Theorem step_class i w d rest st b :
    In i instances -> matches (i_cls i) w -> w <> [] -> In d (i_delims i) -> bytes_ok (w ++ d :: rest) ->
    l_cond st = i_sc i -> b_bol b = i_bol i -> b_rest b = w ++ d :: rest ->
    exists r, In r (i_exps i) /\
      (simple_action (action_of yy_actions r) = true -> LS st b = after_match st b r w (d :: rest)).
  Proof.
    intros Hi Hm Hne Hd Hb Hc Hbol Hr.
    destruct (inst_flex i Hi w d rest Hm Hb Hd) as (r & Hin & E).
    exists r. split; [exact Hin|]. intros Hs.
    unfold LS, lex_step. rewrite Hc, Hbol, Hr, E.
    destruct (length w) as [|n] eqn:El; [destruct w; [congruence | discriminate]|].
    rewrite <- El, firstn_app_exact, skipn_app_exact. unfold after_match.
    destruct (action_of yy_actions r); try reflexivity; discriminate Hs.
  Qed.

  (* ---- runs of steps ---- *)
  Inductive steps : lstate -> buf -> list ltoken -> lstate -> buf -> Prop :=
  | steps_refl st b : steps st b [] st b
  | steps_cont st b st1 b1 toks st2 b2 :
      b_rest b <> [] -> (length (b_rest b1) < length (b_rest b))%nat ->
      LS st b = SCont st1 b1 -> steps st1 b1 toks st2 b2 -> steps st b toks st2 b2
  | steps_tok st b tk st1 b1 toks st2 b2 :
      b_rest b <> [] -> (length (b_rest b1) < length (b_rest b))%nat ->
      LS st b = STok tk st1 b1 -> steps st1 b1 toks st2 b2 -> steps st b (tk :: toks) st2 b2.

  Lemma steps_trans st b t1 st1 b1 t2 st2 b2 :
    steps st b t1 st1 b1 -> steps st1 b1 t2 st2 b2 -> steps st b (t1 ++ t2) st2 b2.
  Proof.
    induction 1 as [| ? ? ? ? ? ? ? Hne Hlt E H IH | ? ? ? ? ? ? ? ? Hne Hlt E H IH]; intros H2.
    - exact H2.
    - eapply steps_cont; eauto.
    - cbn [app]. eapply steps_tok; eauto.
  Qed.

  (* a run of steps is what lex_buf does first; the fuel lex_depth provides is enough *)
  Lemma lex_buf_steps di st b toks st' b' :
    steps st b toks st' b' ->
    forall fuel, (length (b_rest b) < fuel)%nat ->
    exists fuel', (length (b_rest b') < fuel')%nat /\
      lex_buf the_tables yy_rule_can_match_eol yy_actions atof FS incdir incf maxd di fuel st b =
      (let '(t2, stop, st2, l) := lex_buf the_tables yy_rule_can_match_eol yy_actions atof FS incdir incf maxd di fuel' st' b' in
       (toks ++ t2, stop, st2, l)).
  Proof.
    induction 1 as [st b | st b st1 b1 toks st2 b2 Hne Hlt E H IH | st b tk st1 b1 toks st2 b2 Hne Hlt E H IH];
      intros fuel Hf.
    - exists fuel. split; [exact Hf|]. cbn [app]. destruct (lex_buf _ _ _ _ _ _ _ _ _ _ _ _) as [[[? ?] ?] ?]. reflexivity.
    - destruct fuel as [|f]; [lia|]. destruct (IH f ltac:(lia)) as (f' & Hf' & Eq). exists f'. split; [exact Hf'|].
      cbn [lex_buf]. destruct (b_rest b) eqn:Er; [congruence|]. fold LS. rewrite E. exact Eq.
    - destruct fuel as [|f]; [lia|]. destruct (IH f ltac:(lia)) as (f' & Hf' & Eq). exists f'. split; [exact Hf'|].
      cbn [lex_buf]. destruct (b_rest b) eqn:Er; [congruence|]. fold LS. rewrite E, Eq.
      destruct (lex_buf _ _ _ _ _ _ _ _ _ f' _ _) as [[[? ?] ?] ?]. reflexivity.
  Qed.

  (* ---- membership of the instances used below ---- *)
  Ltac in_inst :=
    unfold instances;
    repeat first [ apply in_or_app; left; unfold both_bol; cbn [In]; solve [repeat (first [left; reflexivity | right])]
                 | apply in_or_app; right ];
    cbn [In]; solve [repeat (first [left; reflexivity | right])].

  Lemma last_not_nl w : ~ In 10 w -> (last w 0 =? 10) = false.
  Proof.
    intros H. apply Z.eqb_neq. intros E. destruct w as [|x r] using rev_ind; [cbn in E; lia|].
    rewrite last_last in E. apply H. apply in_or_app. right. left. exact E.
  Qed.

  Lemma count_nl_none w : ~ In 10 w -> count_nl w = 0.
  Proof.
    induction w as [|c r IH]; intros H; [reflexivity|]. cbn [count_nl].
    destruct (Z.eqb_spec c 10) as [->|Hc]; [exfalso; apply H; left; reflexivity|].
    rewrite IH; [reflexivity|]. intros Hin. apply H. right. exact Hin.
  Qed.

  Lemma until_nul_none w : ~ In 0 w -> until_nul w = w.
  Proof.
    induction w as [|c r IH]; intros H; [reflexivity|]. cbn [until_nul].
    destruct (Z.eqb_spec c 0) as [->|Hc]; [exfalso; apply H; left; reflexivity|].
    rewrite IH; [reflexivity|]. intros Hin. apply H. right. exact Hin.
  Qed.

  (* ---- the string body ---- *)
  Definition str_st (st : lstate) (acc : bytes) : lstate := set_acc (set_cond st 3) acc.

  Lemma plain_run_facts run : forallb is_plain run = true ->
    Forall (fun b => in_cs cs_plain b = true) run /\ bytes_ok run /\ ~ In 10 run /\ ~ In 0 run.
  Proof.
    intros H. rewrite forallb_forall in H.
    assert (R : forall c, In c run -> 32 <= c < 256).
    { intros c Hc. specialize (H c Hc). unfold is_plain in H. repeat (apply andb_true_iff in H as [H ?]).
      apply Z.leb_le in H. apply Z.ltb_lt in H2. lia. }
    repeat split.
    - apply Forall_forall. intros c Hc. rewrite in_cs_plain; [apply H; exact Hc | specialize (R c Hc); lia].
    - apply Forall_forall. intros c Hc. specialize (R c Hc). lia.
    - intros Hc. specialize (R _ Hc). lia.
    - intros Hc. specialize (R _ Hc). lia.
  Qed.

  (* one step over a pending run of unescaped bytes, stopped by a quote or a backslash *)
  Lemma step_plain run d rest st b :
    run <> [] -> forallb is_plain run = true -> (d = 34 \/ d = 92) -> bytes_ok rest ->
    l_cond st = 3 -> b_bol b = false -> b_rest b = run ++ d :: rest ->
    LS st b = SCont (set_acc st (l_acc st ++ run)) (mkBuf (d :: rest) false (b_line b)).
  Proof.
    intros Hne Hp Hd Hr Hc Hbol Hb. destruct (plain_run_facts run Hp) as (Hs & Hbr & Hnl & Hnz).
    destruct (step_class (mkI c_plain 3 false [9] [34; 92]) run d rest st b) as (r & Hin & E); try assumption.
    - in_inst.
    - apply m_plus_set; assumption.
    - destruct Hd as [-> | ->]; cbn; auto.
    - apply Forall_app. split; [exact Hbr|]. constructor; [destruct Hd; lia | exact Hr].
    - destruct Hin as [<-|[]]. rewrite (E eq_refl). unfold after_match.
      change (action_of yy_actions 9) with AAppendText. change (nthZ yy_rule_can_match_eol 9 =? 0) with false.
      cbv iota. rewrite (count_nl_none run Hnl), Z.add_0_r, (last_not_nl run Hnl), (until_nul_none run Hnz). reflexivity.
  Qed.

  Lemma m_bs2 x : 0 <= x < 256 -> matches (bs2 x) [92; x].
  Proof. intros Hx. change [92; x] with ([92] ++ [x]). apply MCat; apply m_chr1; lia. Qed.

  Lemma step_esc2 c x rule d rest st b :
    In (c, x, rule) [(34, 34, 18); (92, 92, 17); (10, 110, 12); (13, 114, 13); (12, 102, 16); (9, 116, 14)] ->
    bytes_ok (d :: rest) -> l_cond st = 3 -> b_bol b = false -> b_rest b = [92; x] ++ d :: rest ->
    LS st b = SCont (set_acc st (l_acc st ++ [c])) (mkBuf (d :: rest) false (b_line b)).
  Proof.
    intros Hin Hr Hc Hbol Hb.
    assert (Hd : In d all_bytes) by (inversion Hr; apply in_all_bytes; assumption).
    cbn [In] in Hin.
    destruct Hin as [E|[E|[E|[E|[E|[E|[]]]]]]]; injection E as <- <- <-.
    - destruct (step_class (mkI (bs2 34) 3 false [18] all_bytes) [92; 34] d rest st b) as (r & Hi & Es); try assumption;
        [in_inst | apply m_bs2; lia | discriminate | constructor; [lia|constructor; [lia|exact Hr]] |].
      destruct Hi as [<-|[]]. rewrite (Es eq_refl). reflexivity.
    - destruct (step_class (mkI (bs2 92) 3 false [17] all_bytes) [92; 92] d rest st b) as (r & Hi & Es); try assumption;
        [in_inst | apply m_bs2; lia | discriminate | constructor; [lia|constructor; [lia|exact Hr]] |].
      destruct Hi as [<-|[]]. rewrite (Es eq_refl). reflexivity.
    - destruct (step_class (mkI (bs2 110) 3 false [12] all_bytes) [92; 110] d rest st b) as (r & Hi & Es); try assumption;
        [in_inst | apply m_bs2; lia | discriminate | constructor; [lia|constructor; [lia|exact Hr]] |].
      destruct Hi as [<-|[]]. rewrite (Es eq_refl). reflexivity.
    - destruct (step_class (mkI (bs2 114) 3 false [13] all_bytes) [92; 114] d rest st b) as (r & Hi & Es); try assumption;
        [in_inst | apply m_bs2; lia | discriminate | constructor; [lia|constructor; [lia|exact Hr]] |].
      destruct Hi as [<-|[]]. rewrite (Es eq_refl). reflexivity.
    - destruct (step_class (mkI (bs2 102) 3 false [16] all_bytes) [92; 102] d rest st b) as (r & Hi & Es); try assumption;
        [in_inst | apply m_bs2; lia | discriminate | constructor; [lia|constructor; [lia|exact Hr]] |].
      destruct Hi as [<-|[]]. rewrite (Es eq_refl). reflexivity.
    - destruct (step_class (mkI (bs2 116) 3 false [14] all_bytes) [92; 116] d rest st b) as (r & Hi & Es); try assumption;
        [in_inst | apply m_bs2; lia | discriminate | constructor; [lia|constructor; [lia|exact Hr]] |].
      destruct Hi as [<-|[]]. rewrite (Es eq_refl). reflexivity.
  Qed.

  (* \xHH for the other control bytes *)
  Lemma hexesc_sweep :
    forallb (fun c => (hex2_val [92; 120; hex_char_upper (c / 16); hex_char_upper (c mod 16)] =? c)
                      && is_upper_hex (hex_char_upper (c / 16)) && is_upper_hex (hex_char_upper (c mod 16)))
            (map Z.of_nat (seq 0 32)) = true.
  Proof. vm_compute. reflexivity. Qed.

  Lemma hexesc_facts c : 0 <= c < 32 ->
    hex2_val [92; 120; hex_char_upper (c / 16); hex_char_upper (c mod 16)] = c /\
    is_upper_hex (hex_char_upper (c / 16)) = true /\ is_upper_hex (hex_char_upper (c mod 16)) = true.
  Proof.
    intros Hc. pose proof hexesc_sweep as H. rewrite forallb_forall in H.
    assert (Hin : In c (map Z.of_nat (seq 0 32))).
    { replace c with (Z.of_nat (Z.to_nat c)) by lia. apply in_map. apply in_seq. lia. }
    specialize (H c Hin). apply andb_true_iff in H as [H H3]. apply andb_true_iff in H as [H1 H2].
    apply Z.eqb_eq in H1. auto.
  Qed.

  Lemma upper_hex_byte x : is_upper_hex x = true -> 0 <= x < 256.
  Proof.
    unfold is_upper_hex, is_digit. intros H. apply orb_true_iff in H as [H|H]; apply andb_true_iff in H as [A B];
      apply Z.leb_le in A, B; lia.
  Qed.

  Lemma step_hexesc c d rest st b :
    0 <= c < 32 -> bytes_ok (d :: rest) -> l_cond st = 3 -> b_bol b = false ->
    b_rest b = [92; 120; hex_char_upper (c / 16); hex_char_upper (c mod 16)] ++ d :: rest ->
    LS st b = SCont (set_acc st (l_acc st ++ [c])) (mkBuf (d :: rest) false (b_line b)).
  Proof.
    intros Hc Hr Hcond Hbol Hb. destruct (hexesc_facts c Hc) as (Hv & H1 & H2).
    pose proof (upper_hex_byte _ H1) as B1. pose proof (upper_hex_byte _ H2) as B2.
    set (h1 := hex_char_upper (c / 16)) in *. set (h2 := hex_char_upper (c mod 16)) in *.
    assert (Hd : In d all_bytes) by (inversion Hr; apply in_all_bytes; assumption).
    destruct (step_class (mkI c_hexesc 3 false [19] all_bytes) [92; 120; h1; h2] d rest st b) as (r & Hi & Es); try assumption.
    - in_inst.
    - cbn [i_cls]. unfold c_hexesc. cbn [cats]. change [92; 120; h1; h2] with ([92] ++ ([120] ++ ([h1] ++ [h2]))).
      apply MCat; [apply m_chr1; lia|]. apply MCat; [apply m_chr1; lia|].
      apply MCat; apply MChr; rewrite in_cs_upper_hex; assumption.
    - discriminate.
    - repeat (constructor; [lia|]). exact Hr.
    - destruct Hi as [<-|[]]. rewrite (Es eq_refl). unfold after_match.
      change (action_of yy_actions 19) with AAppendHex. change (nthZ yy_rule_can_match_eol 19 =? 0) with true. cbv iota.
      rewrite Hv.
      assert (L : (last [92; 120; h1; h2] 0 =? 10) = false).
      { cbn [last]. apply Z.eqb_neq. unfold is_upper_hex, is_digit in H2. intros E. rewrite E in H2. discriminate H2. }
      rewrite L. reflexivity.
  Qed.

  (* any byte the writer escapes *)
  Lemma step_escaped c d rest st b :
    1 <= c < 256 -> is_plain c = false -> bytes_ok (d :: rest) -> l_cond st = 3 -> b_bol b = false ->
    b_rest b = esc_char c ++ d :: rest ->
    LS st b = SCont (set_acc st (l_acc st ++ [c])) (mkBuf (d :: rest) false (b_line b)).
  Proof.
    intros Hc Hp Hr Hcond Hbol Hb. unfold esc_char in Hb.
    destruct (Z.eqb_spec c 34) as [->|N34]; [cbn in Hb; eapply (step_esc2 34 34 18); eauto; cbn; auto|].
    destruct (Z.eqb_spec c 92) as [->|N92]; [cbn in Hb; eapply (step_esc2 92 92 17); eauto; cbn; auto 10|].
    cbn [orb] in Hb.
    destruct (Z.eqb_spec c 10) as [->|N10]; [eapply (step_esc2 10 110 12); eauto; cbn; auto 10|].
    destruct (Z.eqb_spec c 13) as [->|N13]; [eapply (step_esc2 13 114 13); eauto; cbn; auto 10|].
    destruct (Z.eqb_spec c 12) as [->|N12]; [eapply (step_esc2 12 102 16); eauto; cbn; auto 10|].
    destruct (Z.eqb_spec c 9) as [->|N9]; [eapply (step_esc2 9 116 14); eauto; cbn; auto 10|].
    destruct (Z.leb_spec 32 c) as [Hge|Hlt].
    - exfalso. unfold is_plain in Hp.
      replace (32 <=? c) with true in Hp by (symmetry; apply Z.leb_le; lia).
      replace (c <? 256) with true in Hp by (symmetry; apply Z.ltb_lt; lia).
      replace (c =? 34) with false in Hp by (symmetry; apply Z.eqb_neq; lia).
      replace (c =? 92) with false in Hp by (symmetry; apply Z.eqb_neq; lia). discriminate Hp.
    - apply step_hexesc; try assumption. lia.
  Qed.

  Lemma esc_char_plain c : is_plain c = true -> esc_char c = [c].
  Proof.
    unfold is_plain, esc_char. intros H. repeat (apply andb_true_iff in H as [H ?]).
    apply Z.leb_le in H. apply negb_true_iff in H0, H1. rewrite H0, H1. cbn [orb].
    replace (c =? 10) with false by (symmetry; apply Z.eqb_neq; lia).
    replace (c =? 13) with false by (symmetry; apply Z.eqb_neq; lia).
    replace (c =? 12) with false by (symmetry; apply Z.eqb_neq; lia).
    replace (c =? 9) with false by (symmetry; apply Z.eqb_neq; lia).
    replace (32 <=? c) with true by (symmetry; apply Z.leb_le; lia). reflexivity.
  Qed.

  Lemma esc_char_escaped c : 1 <= c < 256 -> is_plain c = false -> exists x r, esc_char c = 92 :: x :: r /\ bytes_ok (esc_char c).
  Proof.
    intros Hc Hp. unfold esc_char.
    destruct (Z.eqb_spec c 34) as [->|N34]; [cbn; eexists _, _; split; [reflexivity | repeat constructor; lia]|].
    destruct (Z.eqb_spec c 92) as [->|N92]; [cbn; eexists _, _; split; [reflexivity | repeat constructor; lia]|].
    cbn [orb].
    destruct (Z.eqb_spec c 10) as [->|N10]; [eexists _, _; split; [reflexivity | repeat constructor; lia]|].
    destruct (Z.eqb_spec c 13) as [->|N13]; [eexists _, _; split; [reflexivity | repeat constructor; lia]|].
    destruct (Z.eqb_spec c 12) as [->|N12]; [eexists _, _; split; [reflexivity | repeat constructor; lia]|].
    destruct (Z.eqb_spec c 9) as [->|N9]; [eexists _, _; split; [reflexivity | repeat constructor; lia]|].
    destruct (Z.leb_spec 32 c) as [Hge|Hlt].
    - exfalso. unfold is_plain in Hp.
      replace (32 <=? c) with true in Hp by (symmetry; apply Z.leb_le; lia).
      replace (c <? 256) with true in Hp by (symmetry; apply Z.ltb_lt; lia).
      replace (c =? 34) with false in Hp by (symmetry; apply Z.eqb_neq; lia).
      replace (c =? 92) with false in Hp by (symmetry; apply Z.eqb_neq; lia). discriminate Hp.
    - eexists _, _. split; [reflexivity|]. destruct (hexesc_facts c ltac:(lia)) as (_ & H1 & H2).
      pose proof (upper_hex_byte _ H1). pose proof (upper_hex_byte _ H2). repeat constructor; lia.
  Qed.

  Lemma set_acc_twice st a a' : set_acc (set_acc st a) a' = set_acc st a'.
  Proof. reflexivity. Qed.

  (* the body of a string literal: pending unescaped run, then the rest of the string, up to the closing quote *)
  Lemma body_steps s : forall run st b tail,
    Forall (fun c => 1 <= c < 256) s -> forallb is_plain run = true -> bytes_ok tail ->
    l_cond st = 3 -> b_bol b = false ->
    b_rest b = run ++ flat_map esc_char s ++ 34 :: tail ->
    steps st b [] (set_acc st (l_acc st ++ run ++ s)) (mkBuf (34 :: tail) false (b_line b)).
  Proof.
    induction s as [|c s IH]; intros run st b tail Hs Hrun Ht Hc Hbol Hb.
    - cbn [flat_map app] in Hb. rewrite app_nil_r. destruct run as [|r0 run'].
      + cbn [app] in Hb. rewrite app_nil_r. destruct st, b; cbn in *; subst. apply steps_refl.
      + eapply steps_cont; [rewrite Hb; discriminate | | apply (step_plain (r0 :: run') 34 tail); auto; discriminate | apply steps_refl].
        rewrite Hb. cbn [b_rest]. rewrite app_length. cbn [length]. lia.
    - inversion Hs as [|? ? Hc1 Hs']; subst. cbn [flat_map] in Hb.
      destruct (is_plain c) eqn:Pc.
      + (* the byte joins the pending run *)
        rewrite (esc_char_plain c Pc) in Hb.
        replace (l_acc st ++ run ++ c :: s) with (l_acc st ++ (run ++ [c]) ++ s)
          by (rewrite <- !app_assoc; reflexivity).
        apply IH; auto.
        * rewrite forallb_app, Hrun. cbn. rewrite Pc. reflexivity.
        * rewrite Hb. rewrite <- !app_assoc. reflexivity.
      + destruct (esc_char_escaped c Hc1 Pc) as (x & r & Ee & Be).
        assert (Hrest : bytes_ok (flat_map esc_char s ++ 34 :: tail)).
        { apply Forall_app. split.
          - clear -Hs'. induction Hs' as [|y ys Hy _ IHy]; [constructor|]. cbn [flat_map]. apply Forall_app. split; [|exact IHy].
            destruct (is_plain y) eqn:Py.
            + rewrite (esc_char_plain y Py). repeat constructor; lia.
            + destruct (esc_char_escaped y Hy Py) as (? & ? & _ & B). exact B.
          - constructor; [lia | exact Ht]. }
        (* first the pending run (if any), then the escape *)
        assert (Hesc : forall st1 b1, l_cond st1 = 3 -> b_bol b1 = false ->
                   b_rest b1 = esc_char c ++ flat_map esc_char s ++ 34 :: tail ->
                   steps st1 b1 [] (set_acc st1 (l_acc st1 ++ c :: s)) (mkBuf (34 :: tail) false (b_line b1))).
        { intros st1 b1 Hc1' Hbol1 Hb1.
          destruct (flat_map esc_char s ++ 34 :: tail) as [|d rest] eqn:Er; [destruct (flat_map esc_char s); discriminate|].
          eapply steps_cont.
          - rewrite Hb1, Ee. discriminate.
          - instantiate (1 := mkBuf (d :: rest) false (b_line b1)). rewrite Hb1. cbn [b_rest]. rewrite app_length, Ee. cbn [length]. lia.
          - apply (step_escaped c); auto.
          - pose proof (IH [] (set_acc st1 (l_acc st1 ++ [c])) (mkBuf (d :: rest) false (b_line b1)) tail Hs' eq_refl Ht Hc1' eq_refl) as IH1.
            cbn [app b_rest b_line l_acc set_acc] in IH1.
            replace ((l_acc st1 ++ [c]) ++ s) with (l_acc st1 ++ c :: s) in IH1 by (rewrite <- app_assoc; reflexivity).
            apply IH1. symmetry. exact Er. }
        destruct run as [|r0 run'].
        * cbn [app] in Hb |- *. apply Hesc; auto. rewrite Hb, <- app_assoc. reflexivity.
        * rewrite Ee in Hb.
          eapply steps_cont.
          -- rewrite Hb. discriminate.
          -- instantiate (1 := mkBuf (92 :: (x :: r) ++ flat_map esc_char s ++ 34 :: tail) false (b_line b)).
             rewrite Hb. cbn [b_rest]. rewrite <- !app_assoc. cbn [app length]. repeat (rewrite !app_length; cbn [length]). lia.
          -- apply (step_plain (r0 :: run') 92); auto; [discriminate| |].
             ++ rewrite Ee in Be. inversion Be as [|? ? _ Bxr]; subst.
                apply Forall_app. split; [exact Bxr | exact Hrest].
             ++ rewrite Hb. rewrite <- app_assoc. reflexivity.
          -- pose proof (Hesc (set_acc st (l_acc st ++ r0 :: run'))
                              (mkBuf (92 :: (x :: r) ++ flat_map esc_char s ++ 34 :: tail) false (b_line b)) Hc eq_refl) as He1.
             cbn [b_rest b_line l_acc set_acc] in He1.
             replace ((l_acc st ++ r0 :: run') ++ c :: s) with (l_acc st ++ (r0 :: run') ++ c :: s) in He1
               by (rewrite <- app_assoc; reflexivity).
             apply He1. rewrite Ee. reflexivity.
  Qed.

  (* ---- the tokens ---- *)
  Definition tok_of (st : lstate) (line : Z) (t : token) : ltoken := fst (emit st line t None).

  Lemma emit_tok st line t : emit st line t None = (tok_of st line t, clear_pending st).
  Proof. reflexivity. Qed.

  (* a whole string literal: opening quote, body, closing quote *)
  Theorem string_steps s d tail st b :
    Forall (fun c => 1 <= c < 256) s -> bytes_ok (d :: tail) -> l_cond st = 0 -> l_acc st = [] ->
    b_rest b = write_string (Some s) ++ d :: tail ->
    steps st b [tok_of st (b_line b) (TkString s)] (clear_pending st) (mkBuf (d :: tail) false (b_line b)).
  Proof.
    intros Hs Hdt Hc Ha Hb. unfold write_string in Hb. rewrite <- !app_assoc in Hb. cbn [app] in Hb.
    assert (Hbody : bytes_ok (flat_map esc_char s ++ 34 :: d :: tail)).
    { apply Forall_app. split.
      - clear -Hs. induction Hs as [|y ys Hy _ IHy]; [constructor|]. cbn [flat_map]. apply Forall_app. split; [|exact IHy].
        destruct (is_plain y) eqn:Py.
        + rewrite (esc_char_plain y Py). repeat constructor; lia.
        + destruct (esc_char_escaped y Hy Py) as (? & ? & _ & B). exact B.
      - constructor; [lia | exact Hdt]. }
    destruct (flat_map esc_char s ++ 34 :: d :: tail) as [|d1 rest1] eqn:Er; [destruct (flat_map esc_char s); discriminate|].
    (* opening quote *)
    destruct (step_class (mkI (chr 34) 0 (b_bol b) [8] all_bytes) [34] d1 rest1 st b) as (r & Hi & Es); try assumption.
    { destruct (b_bol b); in_inst. }
    { apply m_chr1; lia. }
    { discriminate. }
    { inversion Hbody; apply in_all_bytes; assumption. }
    { constructor; [lia | exact Hbody]. }
    { reflexivity. }
    destruct Hi as [<-|[]]. specialize (Es eq_refl).
    eapply steps_cont; [rewrite Hb; discriminate | | exact Es |].
    { cbn [b_rest]. rewrite Hb. cbn [length]. lia. }
    (* body *)
    change (last [34] 0 =? 10) with false. change (nthZ yy_rule_can_match_eol 8 =? 0) with true. cbv iota.
    set (st1 := set_cond st 3). set (b1 := mkBuf (d1 :: rest1) false (b_line b)).
    pose proof (body_steps s [] st1 b1 (d :: tail) Hs eq_refl Hdt eq_refl eq_refl) as Hbd.
    cbn [app] in Hbd. specialize (Hbd (eq_sym Er)).
    rewrite <- (app_nil_l [tok_of st (b_line b) (TkString s)]).
    eapply steps_trans; [exact Hbd|].
    (* closing quote *)
    set (st2 := set_acc st1 (l_acc st1 ++ s)). set (b2 := mkBuf (34 :: d :: tail) false (b_line b1)).
    destruct (step_class (mkI (chr 34) 3 false [21] all_bytes) [34] d tail st2 b2) as (r & Hi & Es2); try reflexivity.
    { in_inst. }
    { apply m_chr1; lia. }
    { discriminate. }
    { inversion Hdt; apply in_all_bytes; assumption. }
    { constructor; [lia | exact Hdt]. }
    destruct Hi as [<-|[]]. specialize (Es2 eq_refl).
    assert (Hnz : ~ In 0 s).
    { intros H0. rewrite Forall_forall in Hs. specialize (Hs 0 H0). lia. }
    assert (Eacc : l_acc st2 = s) by (unfold st2, st1; cbn; rewrite Ha; reflexivity).
    assert (Eq : after_match st2 b2 21 [34] (d :: tail) =
                 STok (tok_of st (b_line b) (TkString s)) (clear_pending st) (mkBuf (d :: tail) false (b_line b))).
    { unfold after_match. change (action_of yy_actions 21) with AEndString.
      change (nthZ yy_rule_can_match_eol 21 =? 0) with true. change (last [34] 0 =? 10) with false. cbv iota.
      rewrite Eacc, (until_nul_none s Hnz).
      replace (emit st2 (b_line b2) (TkString s) None) with (tok_of st (b_line b) (TkString s), clear_pending st2)
        by (destruct st; reflexivity).
      replace (set_cond (set_acc (clear_pending st2) []) 0) with (clear_pending st)
        by (destruct st; cbn in *; subst; reflexivity).
      reflexivity. }
    rewrite Eq in Es2.
    eapply steps_tok; [discriminate | | exact Es2 | apply steps_refl].
    unfold b2. cbn [b_rest length]. lia.
  Qed.

  (* a scalar of a certified class in front of a byte that may follow a value *)
  Lemma step_numeric cls rule act w t d rest st b :
    (forall bol, In (mkI cls 0 bol [rule] after_value) instances) ->
    action_of yy_actions rule = act -> (nthZ yy_rule_can_match_eol rule =? 0) = true ->
    match act with AFloat | AInteger | AInteger64 | AHex | AHex64 => True | _ => False end ->
    matches cls w -> w <> [] -> bytes_ok w -> ~ In 10 w -> In d after_value -> bytes_ok rest ->
    l_cond st = 0 -> b_rest b = w ++ d :: rest -> numeric_token atof act w = Some t ->
    LS st b = STok (tok_of st (b_line b) t) (clear_pending st) (mkBuf (d :: rest) false (b_line b)).
  Proof.
    intros Hinst Hact Heol Hnum Hm Hne Hbw Hnl Hd Hr Hc Hb Ht.
    destruct (step_class (mkI cls 0 (b_bol b) [rule] after_value) w d rest st b) as (r & Hi & Es); try assumption; try reflexivity.
    { apply Hinst. }
    { apply Forall_app. split; [exact Hbw|]. constructor; [|exact Hr].
      unfold after_value in Hd. cbn [In] in Hd. intuition lia. }
    destruct Hi as [<-|[]]. rewrite Es by (rewrite Hact; destruct act; try reflexivity; contradiction).
    unfold after_match. rewrite Hact, Heol, (last_not_nl w Hnl). destruct act; try contradiction; rewrite Ht; reflexivity.
  Qed.

  Lemma show_dec_no_nl v : ~ In 10 (show_dec v).
  Proof.
    rewrite show_dec_sign. destruct (show_dec_nonneg (Z.abs v) (Z.abs_nonneg v)) as (_ & Hdig & _).
    intros H. apply in_app_or in H as [H|H].
    - destruct (v <? 0); cbn in H; intuition lia.
    - rewrite forallb_forall in Hdig. specialize (Hdig 10 H). discriminate Hdig.
  Qed.

  Lemma show_hex_no_nl n : 0 <= n -> ~ In 10 (show_hex_upper n).
  Proof.
    intros Hn H. destruct (hex_digits_upper n Hn) as [Hs _]. rewrite Forall_forall in Hs. specialize (Hs 10 H).
    rewrite in_cs_upper_hex in Hs by lia. discriminate Hs.
  Qed.

  Theorem step_int v d rest st b :
    in_int v = true -> In d after_value -> bytes_ok rest -> l_cond st = 0 -> b_rest b = show_dec v ++ d :: rest ->
    LS st b = STok (tok_of st (b_line b) (TkInt v)) (clear_pending st) (mkBuf (d :: rest) false (b_line b)).
  Proof.
    intros Hv Hd Hr Hc Hb. destruct (show_dec_class v) as (Hm & Hbw & Hne).
    apply (step_numeric c_dec 38 AInteger (show_dec v) (TkInt v) d rest st b);
      [intros bol; destruct bol; in_inst | reflexivity | reflexivity | exact I | exact Hm | exact Hne | exact Hbw
       | apply show_dec_no_nl | exact Hd | exact Hr | exact Hc | exact Hb | apply int_token; exact Hv].
  Qed.

  Theorem step_int64 v d rest st b :
    in_int64 v = true -> In d after_value -> bytes_ok rest -> l_cond st = 0 -> b_rest b = (show_dec v ++ [76]) ++ d :: rest ->
    LS st b = STok (tok_of st (b_line b) (TkInt64 v)) (clear_pending st) (mkBuf (d :: rest) false (b_line b)).
  Proof.
    intros Hv Hd Hr Hc Hb. destruct (show_dec64_class v) as (Hm & Hbw).
    apply (step_numeric c_dec64 39 AInteger64 (show_dec v ++ [76]) (TkInt64 v) d rest st b);
      [intros bol; destruct bol; in_inst | reflexivity | reflexivity | exact I | exact Hm
       | destruct (show_dec v); discriminate | exact Hbw
       | intros H; apply in_app_or in H as [H|H]; [exact (show_dec_no_nl v H) | cbn in H; intuition lia]
       | exact Hd | exact Hr | exact Hc | exact Hb | apply int64_token; exact Hv].
  Qed.

  Theorem step_hex v d rest st b :
    in_int v = true -> In d after_value -> bytes_ok rest -> l_cond st = 0 ->
    b_rest b = ([48; 120] ++ show_hex_upper (to_uint32 v)) ++ d :: rest ->
    LS st b = STok (tok_of st (b_line b) (TkHex v)) (clear_pending st) (mkBuf (d :: rest) false (b_line b)).
  Proof.
    intros Hv Hd Hr Hc Hb.
    assert (Hu : 0 <= to_uint32 v) by (unfold to_uint32, two32; apply Z.mod_pos_bound; lia).
    destruct (show_hex_class _ Hu) as (Hm & Hbw).
    apply (step_numeric c_hex 40 AHex ([48; 120] ++ show_hex_upper (to_uint32 v)) (TkHex v) d rest st b);
      [intros bol; destruct bol; in_inst | reflexivity | reflexivity | exact I | exact Hm | discriminate | exact Hbw
       | intros H; cbn [app In] in H; destruct H as [H|[H|H]]; [lia | lia | exact (show_hex_no_nl _ Hu H)]
       | exact Hd | exact Hr | exact Hc | exact Hb | apply hex_token; exact Hv].
  Qed.

  Theorem step_hex64 v d rest st b :
    in_int64 v = true -> In d after_value -> bytes_ok rest -> l_cond st = 0 ->
    b_rest b = ([48; 120] ++ show_hex_upper (to_uint64 v) ++ [76]) ++ d :: rest ->
    LS st b = STok (tok_of st (b_line b) (TkHex64 v)) (clear_pending st) (mkBuf (d :: rest) false (b_line b)).
  Proof.
    intros Hv Hd Hr Hc Hb.
    assert (Hu : 0 <= to_uint64 v) by (unfold to_uint64, two64; apply Z.mod_pos_bound; lia).
    destruct (show_hex64_class _ Hu) as (Hm & Hbw).
    apply (step_numeric c_hex64 41 AHex64 ([48; 120] ++ show_hex_upper (to_uint64 v) ++ [76]) (TkHex64 v) d rest st b);
      [intros bol; destruct bol; in_inst | reflexivity | reflexivity | exact I | exact Hm | discriminate | exact Hbw
       | intros H; cbn [app In] in H; destruct H as [H|[H|H]]; [lia | lia |];
         apply in_app_or in H as [H|H]; [exact (show_hex_no_nl _ Hu H) | cbn in H; intuition lia]
       | exact Hd | exact Hr | exact Hc | exact Hb | apply hex64_token; exact Hv].
  Qed.

  (* a float: whatever text of the float class the writer printed, the value read is strtod of that text *)
  Theorem step_float w d rest st b :
    matches c_float w -> bytes_ok w -> ~ In 10 w -> b64_is_inf (atof w) = false ->
    In d after_value -> bytes_ok rest -> l_cond st = 0 -> b_rest b = w ++ d :: rest ->
    LS st b = STok (tok_of st (b_line b) (TkFloat (atof w))) (clear_pending st) (mkBuf (d :: rest) false (b_line b)).
  Proof.
    intros Hm Hbw Hnl Hinf Hd Hr Hc Hb.
    apply (step_numeric c_float 37 AFloat w (TkFloat (atof w)) d rest st b);
      [intros bol; destruct bol; in_inst | reflexivity | reflexivity | exact I | exact Hm
       | intros ->; assert (N : nullable c_float = true) by (apply nullable_correct; exact Hm); discriminate N
       | exact Hbw | exact Hnl | exact Hd | exact Hr | exact Hc | exact Hb
       | unfold numeric_token; rewrite Hinf; reflexivity].
  Qed.

  (* ---- booleans, punctuation, layout ---- *)
  Lemma step_ret_like i w t d rest st b :
    In i instances -> i_sc i = 0 -> i_bol i = b_bol b -> (exists r, i_exps i = [r] /\ action_of yy_actions r = t /\
                                                                    (nthZ yy_rule_can_match_eol r =? 0) = true) ->
    matches (i_cls i) w -> w <> [] -> ~ In 10 w -> In d (i_delims i) -> bytes_ok (w ++ d :: rest) ->
    l_cond st = 0 -> b_rest b = w ++ d :: rest ->
    match t with
    | ARet p => LS st b = STok (tok_of st (b_line b) (TkP p)) (clear_pending st) (mkBuf (d :: rest) false (b_line b))
    | ABool v => LS st b = STok (tok_of st (b_line b) (TkBool v)) (clear_pending st) (mkBuf (d :: rest) false (b_line b))
    | AIgnore => LS st b = SCont st (mkBuf (d :: rest) false (b_line b))
    | _ => True
    end.
  Proof.
    intros Hi Hsc Hbol (r & He & Ha & Heol) Hm Hne Hnl Hd Hb Hc Hr.
    destruct (step_class i w d rest st b Hi Hm Hne Hd Hb) as (r' & Hin & Es); try congruence.
    rewrite He in Hin. destruct Hin as [<-|[]].
    destruct t; try exact I; rewrite Es by (rewrite Ha; reflexivity); unfold after_match; rewrite Ha, Heol, (last_not_nl w Hnl); reflexivity.
  Qed.

  Definition punct_table : list (Z * Z * ptok) :=
    [(61, 30, TEquals); (58, 30, TEquals); (44, 31, TComma); (123, 32, TGroupStart); (125, 33, TGroupEnd);
     (91, 42, TArrayStart); (93, 43, TArrayEnd); (40, 44, TListStart); (41, 45, TListEnd); (59, 46, TSemicolon)].

  Lemma step_punct1 ch rule p d rest st b :
    (forall bol, In (mkI (chr ch) 0 bol [rule] all_bytes) instances) -> 0 <= ch < 256 -> ch <> 10 ->
    action_of yy_actions rule = ARet p -> (nthZ yy_rule_can_match_eol rule =? 0) = true ->
    bytes_ok (d :: rest) -> l_cond st = 0 -> b_rest b = [ch] ++ d :: rest ->
    LS st b = STok (tok_of st (b_line b) (TkP p)) (clear_pending st) (mkBuf (d :: rest) false (b_line b)).
  Proof.
    intros Hinst Hch Hnl Ha Heol Hr Hc Hb.
    assert (Hd : In d all_bytes) by (inversion Hr; apply in_all_bytes; assumption).
    apply (step_ret_like (mkI (chr ch) 0 (b_bol b) [rule] all_bytes) [ch] (ARet p) d rest st b);
      [apply Hinst | reflexivity | reflexivity | exists rule; repeat split; assumption
       | apply m_chr1; exact Hch | discriminate | cbn; intuition lia | exact Hd
       | constructor; [lia | exact Hr] | exact Hc | exact Hb].
  Qed.

  Theorem step_punct ch rule p d rest st b :
    In (ch, rule, p) punct_table -> bytes_ok (d :: rest) -> l_cond st = 0 -> b_rest b = [ch] ++ d :: rest ->
    LS st b = STok (tok_of st (b_line b) (TkP p)) (clear_pending st) (mkBuf (d :: rest) false (b_line b)).
  Proof.
    intros Hin Hr Hc Hb. unfold punct_table in Hin. cbn [In] in Hin.
    destruct Hin as [E|Hin]; [injection E as <- <- <-; apply (step_punct1 61 30 _ d rest st b);
      [intros bol; destruct bol; in_inst | lia | lia | reflexivity | reflexivity | exact Hr | exact Hc | exact Hb]|].
    destruct Hin as [E|Hin]; [injection E as <- <- <-; apply (step_punct1 58 30 _ d rest st b);
      [intros bol; destruct bol; in_inst | lia | lia | reflexivity | reflexivity | exact Hr | exact Hc | exact Hb]|].
    destruct Hin as [E|Hin]; [injection E as <- <- <-; apply (step_punct1 44 31 _ d rest st b);
      [intros bol; destruct bol; in_inst | lia | lia | reflexivity | reflexivity | exact Hr | exact Hc | exact Hb]|].
    destruct Hin as [E|Hin]; [injection E as <- <- <-; apply (step_punct1 123 32 _ d rest st b);
      [intros bol; destruct bol; in_inst | lia | lia | reflexivity | reflexivity | exact Hr | exact Hc | exact Hb]|].
    destruct Hin as [E|Hin]; [injection E as <- <- <-; apply (step_punct1 125 33 _ d rest st b);
      [intros bol; destruct bol; in_inst | lia | lia | reflexivity | reflexivity | exact Hr | exact Hc | exact Hb]|].
    destruct Hin as [E|Hin]; [injection E as <- <- <-; apply (step_punct1 91 42 _ d rest st b);
      [intros bol; destruct bol; in_inst | lia | lia | reflexivity | reflexivity | exact Hr | exact Hc | exact Hb]|].
    destruct Hin as [E|Hin]; [injection E as <- <- <-; apply (step_punct1 93 43 _ d rest st b);
      [intros bol; destruct bol; in_inst | lia | lia | reflexivity | reflexivity | exact Hr | exact Hc | exact Hb]|].
    destruct Hin as [E|Hin]; [injection E as <- <- <-; apply (step_punct1 40 44 _ d rest st b);
      [intros bol; destruct bol; in_inst | lia | lia | reflexivity | reflexivity | exact Hr | exact Hc | exact Hb]|].
    destruct Hin as [E|Hin]; [injection E as <- <- <-; apply (step_punct1 41 45 _ d rest st b);
      [intros bol; destruct bol; in_inst | lia | lia | reflexivity | reflexivity | exact Hr | exact Hc | exact Hb]|].
    destruct Hin as [E|Hin]; [injection E as <- <- <-; apply (step_punct1 59 46 _ d rest st b);
      [intros bol; destruct bol; in_inst | lia | lia | reflexivity | reflexivity | exact Hr | exact Hc | exact Hb]|].
    contradiction.
  Qed.

  Theorem step_true d rest st b :
    In d after_value -> bytes_ok rest -> l_cond st = 0 -> b_rest b = [116; 114; 117; 101] ++ d :: rest ->
    LS st b = STok (tok_of st (b_line b) (TkBool 1)) (clear_pending st) (mkBuf (d :: rest) false (b_line b)).
  Proof.
    intros Hd Hr Hc Hb.
    apply (step_ret_like (mkI c_true 0 (b_bol b) [34] after_value) [116; 114; 117; 101] (ABool 1) d rest st b);
      [destruct (b_bol b); in_inst | reflexivity | reflexivity | exists 34; repeat split; reflexivity
       | | discriminate | cbn; intuition lia | exact Hd | | exact Hc | exact Hb].
    - change [116; 114; 117; 101] with ([116] ++ ([114] ++ ([117] ++ [101]))). unfold c_true. cbn [str i_cls].
      repeat (apply MCat; [apply m_chr1; lia|]). apply m_chr1; lia.
    - repeat (constructor; [lia|]). constructor; [|exact Hr]. unfold after_value in Hd. cbn [In] in Hd. intuition lia.
  Qed.

  Theorem step_false d rest st b :
    In d after_value -> bytes_ok rest -> l_cond st = 0 -> b_rest b = [102; 97; 108; 115; 101] ++ d :: rest ->
    LS st b = STok (tok_of st (b_line b) (TkBool 0)) (clear_pending st) (mkBuf (d :: rest) false (b_line b)).
  Proof.
    intros Hd Hr Hc Hb.
    apply (step_ret_like (mkI c_false 0 (b_bol b) [35] after_value) [102; 97; 108; 115; 101] (ABool 0) d rest st b);
      [destruct (b_bol b); in_inst | reflexivity | reflexivity | exists 35; repeat split; reflexivity
       | | discriminate | cbn; intuition lia | exact Hd | | exact Hc | exact Hb].
    - change [102; 97; 108; 115; 101] with ([102] ++ ([97] ++ ([108] ++ ([115] ++ [101])))). unfold c_false. cbn [str i_cls].
      repeat (apply MCat; [apply m_chr1; lia|]). apply m_chr1; lia.
    - repeat (constructor; [lia|]). constructor; [|exact Hr]. unfold after_value in Hd. cbn [In] in Hd. intuition lia.
  Qed.

  (* indentation and separators: blanks are skipped; the byte after them is neither a blank nor '@' *)
  Theorem step_spaces w d rest st b :
    w <> [] -> (w = replicate (length w) 32 \/ w = replicate (length w) 9) ->
    d <> 32 -> d <> 9 -> d <> 64 -> bytes_ok (d :: rest) -> l_cond st = 0 -> b_rest b = w ++ d :: rest ->
    LS st b = SCont st (mkBuf (d :: rest) false (b_line b)).
  Proof.
    intros Hne Hw Hd1 Hd2 Hd3 Hr Hc Hb.
    assert (Hall : forall x n, 0 <= x < 256 -> Forall (fun c => c = x) (replicate n x)).
    { intros x n _. induction n; cbn; constructor; auto. }
    assert (Hm : matches c_spaces w /\ bytes_ok w /\ ~ In 10 w).
    { destruct Hw as [E|E]; rewrite E in *; set (n := length w) in *; clearbody n.
      - split; [|split].
        + apply MAltL. apply m_plus_set; [exact Hne|]. eapply Forall_impl; [|apply (Hall 32 n); lia].
          intros c ->. rewrite in_cs_single by lia. reflexivity.
        + eapply Forall_impl; [|apply (Hall 32 n); lia]. intros c ->. lia.
        + intros H. pose proof (Hall 32 n ltac:(lia)) as F. rewrite Forall_forall in F. specialize (F 10 H). lia.
      - split; [|split].
        + apply MAltR. apply m_plus_set; [exact Hne|]. eapply Forall_impl; [|apply (Hall 9 n); lia].
          intros c ->. rewrite in_cs_single by lia. reflexivity.
        + eapply Forall_impl; [|apply (Hall 9 n); lia]. intros c ->. lia.
        + intros H. pose proof (Hall 9 n ltac:(lia)) as F. rewrite Forall_forall in F. specialize (F 10 H). lia. }
    destruct Hm as (Hm & Hbw & Hnl).
    apply (step_ret_like (mkI c_spaces 0 (b_bol b) [29] (bytes_except [32; 9; 64])) w AIgnore d rest st b);
      [destruct (b_bol b); in_inst | reflexivity | reflexivity | exists 29; repeat split; reflexivity
       | exact Hm | exact Hne | exact Hnl | | apply Forall_app; split; [exact Hbw | exact Hr] | exact Hc | exact Hb].
    cbn [i_delims]. unfold bytes_except. apply filter_In. split; [inversion Hr; apply in_all_bytes; assumption|].
    cbn [existsb]. replace (d =? 32) with false by (symmetry; apply Z.eqb_neq; exact Hd1).
    replace (d =? 9) with false by (symmetry; apply Z.eqb_neq; exact Hd2).
    replace (d =? 64) with false by (symmetry; apply Z.eqb_neq; exact Hd3). reflexivity.
  Qed.

  (* a newline: skipped, the line counter advances, the next match is at the beginning of a line *)
  Theorem step_newline d rest st b :
    bytes_ok (d :: rest) -> l_cond st = 0 -> b_rest b = [10] ++ d :: rest ->
    LS st b = SCont st (mkBuf (d :: rest) true (b_line b + 1)).
  Proof.
    intros Hr Hc Hb.
    destruct (step_class (mkI (chr 10) 0 (b_bol b) [28] all_bytes) [10] d rest st b) as (r & Hi & Es); try assumption; try reflexivity.
    - destruct (b_bol b); in_inst.
    - apply m_chr1; lia.
    - discriminate.
    - inversion Hr; apply in_all_bytes; assumption.
    - constructor; [lia | exact Hr].
    - destruct Hi as [<-|[]]. rewrite (Es eq_refl). reflexivity.
  Qed.

  (* a name: the NAME rule, unless the spelling is a boolean keyword (finding F2) *)
  Theorem step_name w rest st b :
    matches p_name w -> bytes_ok w -> ~ matches p_true w -> ~ matches p_false w ->
    bytes_ok rest -> l_cond st = 0 -> b_rest b = w ++ 32 :: rest ->
    LS st b = STok (tok_of st (b_line b) (TkName w)) (clear_pending st) (mkBuf (32 :: rest) false (b_line b)).
  Proof.
    intros Hm Hbw Nt Nf Hr Hc Hb.
    assert (Hne : w <> []).
    { intros ->. assert (N : nullable p_name = true) by (apply nullable_correct; exact Hm). discriminate N. }
    assert (Hbytes : bytes_ok (w ++ 32 :: rest)) by (apply Forall_app; split; [exact Hbw | constructor; [lia | exact Hr]]).
    assert (Hi : In (mkI c_name 0 (b_bol b) [36; 34; 35] [32]) instances) by (destruct (b_bol b); in_inst).
    destruct (inst_flex _ Hi w 32 rest Hm Hbytes (or_introl eq_refl)) as (r & Hin & E). cbn [i_sc i_bol i_exps] in *.
    (* which rule: the first rule of the list that matches the whole word *)
    assert (Hcond : In (0, b_bol b) all_conditions) by (destruct (b_bol b); cbn; auto).
    pose proof (scanner_is_spec 0 (b_bol b) _ Hcond Hbytes) as Sp. rewrite E in Sp.
    pose proof (longest_match_spec (spec_rules 0 (b_bol b)) (w ++ 32 :: rest)) as L. rewrite <- Sp in L.
    destruct L as (_ & Hf & _). rewrite firstn_app_exact in Hf.
    destruct (first_match_in _ _ _ Hf) as (re & Hre & Hmr).
    assert (Hr36 : r = 36).
    { destruct Hin as [<-|[<-|[<-|[]]]]; [reflexivity| |].
      - exfalso. apply Nt. destruct (b_bol b); cbn in Hre;
          repeat (destruct Hre as [Hre|Hre]; [try discriminate Hre; injection Hre as <-; exact Hmr|]); contradiction.
      - exfalso. apply Nf. destruct (b_bol b); cbn in Hre;
          repeat (destruct Hre as [Hre|Hre]; [try discriminate Hre; injection Hre as <-; exact Hmr|]); contradiction. }
    subst r.
    assert (Hnl : ~ In 10 w).
    { intros H. clear -Hm H. unfold p_name in Hm. apply m_cat in Hm as (u & v & -> & Hu & Hv).
      apply in_app_or in H as [H|H].
      - apply m_chr in Hu as (c & -> & Hc). destruct H as [->|[]]. vm_compute in Hc. discriminate Hc.
      - revert H. remember (Star (Chr (cs_union cs_alpha (cs_union cs_digit (cs_of [45; 95; 42]))))) as R eqn:ER.
        induction Hv as [| | | | | |a u0 v0 Hv1 IH1 Hne0 Hv2 IH2]; try discriminate ER.
        + intros [].
        + injection ER as ->. intros Hin. apply in_app_or in Hin as [Hin|Hin]; [|apply IH2; [reflexivity | exact Hin]].
          apply m_chr in Hv1 as (c & -> & Hc). destruct Hin as [->|[]]. vm_compute in Hc. discriminate Hc. }
    unfold LS, lex_step. rewrite Hc, Hb, E.
    destruct (length w) as [|n] eqn:El; [destruct w; [congruence | discriminate]|].
    rewrite <- El, firstn_app_exact, skipn_app_exact.
    change (action_of yy_actions 36) with AName. change (nthZ yy_rule_can_match_eol 36 =? 0) with true. cbv iota.
    rewrite (last_not_nl w Hnl). reflexivity.
  Qed.
End Steps.
