(* LineFacts.v — yylineno is exact: flex counts line feeds only for the rules it flags in yy_rule_can_match_eol;
   every unflagged rule of the documented patterns cannot match a text that contains a line feed, so after every
   matcher step the scanner's line is the old line plus the number of line feeds of the lexeme.
   Lemmas behind Properties_C18 / C09 (the line an error or a setting is reported with). *)
From Coq Require Import List ZArith NArith Bool Lia.
Import ListNotations.
From LC Require Import Base Tree Regex RegexFacts FlexEngine Bisim ScanAction ScannerSpec ScannerCert ScannerFacts Tokens Lexer LexTotal.
From LC.gen Require Import ScannerTables.
Local Open Scope Z_scope.

(* no word of the expression contains a line feed (syntactic, sound) *)
Fixpoint nl_free (r : re) : bool :=
  match r with
  | Emp | Eps => true
  | Chr cs => negb (N.testbit cs 10)
  | Cat a b | Alt a b => nl_free a && nl_free b
  | Star a => nl_free a
  end.

Lemma count_nl_app a b : count_nl (a ++ b) = count_nl a + count_nl b.
Proof. induction a as [|c r IH]; cbn [count_nl app]; [lia | rewrite IH; lia]. Qed.

Lemma nl_free_sound r w : matches r w -> nl_free r = true -> count_nl w = 0.
Proof.
  induction 1 as [ | cs b Hb | a b u v _ IHa _ IHb | a b u _ IH | a b u _ IH | a | a u v _ IHu _ _ IHv]; cbn [nl_free]; intros Hn.
  - reflexivity.
  - cbn [count_nl]. destruct (b =? 10) eqn:E; [|lia]. apply Z.eqb_eq in E. subst b.
    unfold in_cs in Hb. cbn in Hb. apply negb_true_iff in Hn. rewrite Hn in Hb. discriminate Hb.
  - apply andb_true_iff in Hn as [H1 H2]. rewrite count_nl_app, (IHa H1), (IHb H2). reflexivity.
  - apply andb_true_iff in Hn as [H1 _]. exact (IH H1).
  - apply andb_true_iff in Hn as [_ H2]. exact (IH H2).
  - reflexivity.
  - rewrite count_nl_app, (IHu Hn), (IHv Hn). reflexivity.
Qed.

(* the certificate: every rule flex does not flag is free of line feeds *)
Definition eol_ok (s : srule) : bool :=
  negb (nthZ yy_rule_can_match_eol (sr_no s) =? 0) || nl_free (sr_re s).
Lemma eol_flags_checked : forallb eol_ok spec = true.
Proof. vm_compute. reflexivity. Qed.

Lemma unflagged_nl_free sc bol rule pat :
  In (rule, pat) (spec_rules sc bol) -> nthZ yy_rule_can_match_eol rule = 0 -> nl_free pat = true.
Proof.
  unfold spec_rules. intros H Hz. apply in_map_iff in H as (s & E & Hs). apply filter_In in Hs as [Hs _]. injection E as <- <-.
  pose proof (proj1 (forallb_forall eol_ok spec) eol_flags_checked s Hs) as Hc. unfold eol_ok in Hc.
  rewrite Hz in Hc. cbn in Hc. exact Hc.
Qed.

(* after every matcher step the line is the old line plus the line feeds of the lexeme *)
Theorem line_exact sc bol b r rule len :
  In (sc, bol) all_conditions -> bytes_ok (b :: r) ->
  flex_match the_tables sc bol (b :: r) = Some (rule, len) ->
  forall line, (if nthZ yy_rule_can_match_eol rule =? 0 then line else line + count_nl (firstn len (b :: r)))
               = line + count_nl (firstn len (b :: r)).
Proof.
  intros Hc Hb Hm line.
  destruct (scanner_progress sc bol b r Hc Hb) as (rule' & len' & pat & E & _ & Hin & Hmat).
  rewrite E in Hm. injection Hm as <- <-.
  destruct (nthZ yy_rule_can_match_eol rule' =? 0) eqn:Ez; [|reflexivity].
  apply Z.eqb_eq in Ez. rewrite (nl_free_sound _ _ Hmat (unflagged_nl_free _ _ _ _ Hin Ez)). lia.
Qed.

(* one step of the scanner model: what remains of the buffer is the text minus the lexeme, the buffer's line has
   advanced by the line feeds of the lexeme, and a token returned by the step carries that line *)
Section StepLine.
  Variable atof : bytes -> Z.
  Variable FS : fs.
  Variable incdir : option bytes.
  Variable incf : incfn.
  Variable max_depth : Z.
  Notation lex_step := (lex_step ScannerCert.the_tables yy_rule_can_match_eol yy_actions atof FS incdir incf max_depth).

  Definition advanced (b b' : buf) : Prop :=
    exists n, (1 <= n <= length (b_rest b))%nat /\ b_rest b' = skipn n (b_rest b) /\
              b_line b' = b_line b + count_nl (firstn n (b_rest b)).

  Theorem lex_step_line st b : cond_ok st -> b_rest b <> [] -> bytes_ok (b_rest b) ->
    match lex_step st b with
    | SCont _ b' | SIncl _ _ _ b' => advanced b b'
    | STok tk _ b' => advanced b b' /\ lt_line tk = b_line b'
    | SStop _ _ _ _ => True
    end.
  Proof.
    intros Hc Hne Hb. unfold Lexer.lex_step.
    destruct (b_rest b) as [|c0 r0] eqn:Er; [contradiction|].
    destruct (scanner_progress (l_cond st) (b_bol b) c0 r0 (Hc _) Hb) as (rule & len & pat & Em & Hlen & Hin & Hmat).
    rewrite Em. destruct len as [|len']; [lia|]. cbv zeta.
    set (text := firstn (S len') (c0 :: r0)). set (rest := skipn (S len') (c0 :: r0)).
    pose proof (line_exact (l_cond st) (b_bol b) c0 r0 rule (S len') (Hc _) Hb Em (b_line b)) as Hline. fold text in Hline.
    set (line' := if nthZ yy_rule_can_match_eol rule =? 0 then b_line b else b_line b + count_nl text) in *.
    set (b' := mkBuf rest (last text 0 =? 10) line').
    assert (Hadv : exists n, (1 <= n <= length (c0 :: r0))%nat /\ b_rest b' = skipn n (c0 :: r0) /\
                             b_line b' = b_line b + count_nl (firstn n (c0 :: r0))).
    { exists (S len'). split; [exact Hlen|]. split; [reflexivity | exact Hline]. }
    assert (Htok : forall t, match (let '(tk, st') := emit st line' t None in STok tk st' b') with
                             | STok tk _ b2 => (exists n, (1 <= n <= length (c0 :: r0))%nat /\ b_rest b2 = skipn n (c0 :: r0) /\
                                                  b_line b2 = b_line b + count_nl (firstn n (c0 :: r0))) /\ lt_line tk = b_line b2
                             | _ => True end).
    { intros t. unfold emit. cbn. split; [exact Hadv | reflexivity]. }
    unfold advanced. rewrite Er.
    destruct (action_of yy_actions rule) as [sc| | |ch| | | |pt|bv| | | | | | | | ]; try exact Hadv; try apply Htok; try exact I.
    - (* include *)
      destruct (Z.of_nat (length (l_names (set_acc st []))) - 1 =? max_depth); [unfold stop_error, emit; exact I|].
      destruct (call_incfn incdir incf (until_nul (l_acc st))) as [[evs err] files].
      destruct err; [unfold stop_error, emit; exact I|].
      destruct files as [[|f1 frest]|]; try exact Hadv.
      destruct (fs_lookup FS f1) as [[content|]|]; try (unfold stop_error, emit; exact I). exact Hadv.
    - destruct (numeric_token atof AFloat text); [apply Htok | unfold stop_error, emit; exact I].
    - destruct (numeric_token atof AInteger text); [apply Htok | unfold stop_error, emit; exact I].
    - destruct (numeric_token atof AInteger64 text); [apply Htok | unfold stop_error, emit; exact I].
    - destruct (numeric_token atof AHex text); [apply Htok | unfold stop_error, emit; exact I].
    - destruct (numeric_token atof AHex64 text); [apply Htok | unfold stop_error, emit; exact I].
  Qed.
End StepLine.
