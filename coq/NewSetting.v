(* NewSetting.v — the setting that config_setting_add returns is a new setting (no hook, no children, no source position) *)
From Coq Require Import List ZArith Bool Lia.
Import ListNotations.
From LC Require Import Base Tree Fp Lookup Api ApiStep TreeFacts ApiFacts.

Lemma n_create_new parent name t p2 :
  n_create parent name t = Some p2 ->
  nth_error (s_kids p2) (length (s_kids parent)) = Some (new_setting name t).
Proof.
  unfold n_create. destruct (ty_is_aggregate (s_ty parent)); [|discriminate].
  intros E. injection E as <-. destruct parent as [n p k f h l fi]. cbn.
  rewrite nth_error_app2 by lia. rewrite Nat.sub_diag. reflexivity.
Qed.

(* the setting that config_setting_add returns is a NEW setting: no hook, no children, no source position - also when it
   replaces a member of the same name under the override option *)
Theorem n_add_new_setting ov parent name tcode p2 idx victim :
  n_add ov parent name tcode = Some (p2, idx, victim) ->
  exists k, nth_error (s_kids p2) idx = Some k /\ s_hook k = None /\ s_kids k = [] /\ s_file k = None.
Proof.
  intros H. unfold n_add in H. destruct (ty_of_code tcode) as [t|]; [|discriminate H]. cbv zeta in H.
  destruct (ty_eqb (s_ty parent) TArray && negb (ty_is_scalar t)); [discriminate H|].
  destruct (ty_eqb (s_ty parent) TArray && negb (checktype parent t)); [discriminate H|].
  set (nm := if ty_eqb (s_ty parent) TArray || ty_eqb (s_ty parent) TList then None else name) in H.
  destruct (negb match nm with Some n => validate_name n | None => true end); [discriminate H|].
  assert (K : forall par q, n_create par nm t = Some q ->
              exists k, nth_error (s_kids q) (length (s_kids par)) = Some k /\ s_hook k = None /\ s_kids k = [] /\ s_file k = None).
  { intros par q C. exists (new_setting nm t). split; [exact (n_create_new par nm t q C)|]. repeat split. }
  destruct (get_member parent nm).
  - destruct ov; [|discriminate H]. destruct nm as [nn|]; [|discriminate H].
    destruct (n_remove parent nn) as [[parent' v]|].
    + destruct (n_create parent' (Some nn) t) as [q|] eqn:C; [|discriminate H]. injection H as <- <- <-. exact (K _ _ C).
    + destruct (n_create parent (Some nn) t) as [q|] eqn:C; [|discriminate H]. injection H as <- <- <-. exact (K _ _ C).
  - destruct (n_create parent nm t) as [q|] eqn:C; [|discriminate H]. injection H as <- <- <-. exact (K _ _ C).
Qed.
Print Assumptions n_add_new_setting.
Theorem n_add_invalid_name_refused ov parent n tcode :
  s_ty parent = TGroup -> validate_name n = false -> n_add ov parent (Some n) tcode = None.
Proof.
  intros Hg Hn. unfold n_add. destruct (ty_of_code tcode) as [t|]; [|reflexivity]. cbv zeta. rewrite Hg.
  cbn. rewrite Hn. reflexivity.
Qed.
Example empty_name_invalid : validate_name [] = false /\ validate_name [49; 97]%Z = false /\ validate_name [97; 32]%Z = false /\ validate_name [97; 45; 42; 95; 57]%Z = true.
Proof. vm_compute. auto. Qed.
Print Assumptions n_add_invalid_name_refused.
