(* Splice.v — C10: an @include directive whose target is a complete, directive-free text c is equivalent, at the level
   of the scanner / include machine (Lexer.v), to splicing c into the including text at the directive.

   1. Cut lemmas for the matcher (engine level; generic soundness + vm_compute certificates over the compiled tables):
      in start conditions 0,1,2 a match never looks past a line feed, in 3,4 never past a double quote.
   2. Plain texts: [plain_step]/[plain_scan] follow lex_step's control flow on a text alone (no file system, no include
      stack) and fail on an include directive, an unknown action, ECHO, a rejected numeric literal or a stuck matcher.
   3. Append lemma: scanning c ++ tail for a plain c that ends with a line feed = the tokens of c, then scanning tail.
   4. Decoration irrelevance: token values, stop kind and the final (condition, accumulator, file-name stack) of
      lex_buf / lex_files / lex_depth do not depend on l_open, l_files, l_pending nor on the lines.
   5. The splice theorem, and its corollary for lex_top.
   6. A concrete example. *)
From Coq Require Import List ZArith NArith Bool Lia.
Import ListNotations.
From LC Require Import Base Tree Fp Api ApiStep ScanAction FlexEngine Bisim ScannerSpec ScannerCert Tokens Lexer Reader LexTotal LineFacts.
From LC.gen Require Import Consts ScannerTables.
Local Open Scope Z_scope.

(* Reader.the_tables and ScannerCert.the_tables are the same term; the certificates are stated about the latter *)
Local Notation the_tables := ScannerCert.the_tables.
Lemma tables_same : Reader.the_tables = ScannerCert.the_tables.
Proof. reflexivity. Qed.

(* ---- lists ---- *)
Lemma In_firstn {A} (x : A) n l : In x (firstn n l) -> In x l.
Proof. intros H. rewrite <- (firstn_skipn n l). apply in_or_app. left. exact H. Qed.
Lemma In_skipn {A} (x : A) n l : In x (skipn n l) -> In x l.
Proof. intros H. rewrite <- (firstn_skipn n l). apply in_or_app. right. exact H. Qed.
Lemma last_app_ne {A} (a b : list A) d : b <> [] -> last (a ++ b) d = last b d.
Proof.
  intros Hb. induction a as [|x a IH]; [reflexivity|]. cbn [app]. destruct (a ++ b) eqn:E; [|exact IH].
  apply app_eq_nil in E as [_ E]. contradiction.
Qed.
Lemma firstn_app_le {A} n (a b : list A) : (n <= length a)%nat -> firstn n (a ++ b) = firstn n a.
Proof. intros H. rewrite firstn_app. replace (n - length a)%nat with O by lia. cbn [firstn]. apply app_nil_r. Qed.
Lemma skipn_app_le {A} n (a b : list A) : (n <= length a)%nat -> skipn n (a ++ b) = skipn n a ++ b.
Proof. intros H. rewrite skipn_app. replace (n - length a)%nat with O by lia. reflexivity. Qed.
Lemma bytes_ok_app a b : bytes_ok a -> bytes_ok b -> bytes_ok (a ++ b).
Proof. intros Ha Hb. unfold bytes_ok. apply Forall_app. split; assumption. Qed.
Lemma bytes_ok_app_r a b : bytes_ok (a ++ b) -> bytes_ok b.
Proof. unfold bytes_ok. intros H. apply Forall_app in H. apply H. Qed.
Lemma bytes_ok_app_l a b : bytes_ok (a ++ b) -> bytes_ok a.
Proof. unfold bytes_ok. intros H. apply Forall_app in H. apply H. Qed.

(* ================================================================================================================ *)
(* 1. The matcher does not look past a barrier byte (generic in the tables)                                          *)
(* ================================================================================================================ *)
Section Cut.
  Variable T : tables.

  Definition zmem (s : Z) (R : list Z) : bool := existsb (Z.eqb s) R.
  Lemma zmem_in s R : zmem s R = true -> In s R.
  Proof. unfold zmem. intros H. apply existsb_exists in H as (x & Hx & E). apply Z.eqb_eq in E. subst. exact Hx. Qed.

  (* a dead end: every byte jams *)
  Definition dead (s : Z) : bool := forallb (fun b => step_byte T s b =? t_jam T) all_bytes.

  (* R is closed under every byte but the barrier (jam excluded) *)
  Definition closed_avoid (bar : Z) (R : list Z) : bool :=
    forallb (fun s => forallb (fun b => (b =? bar) || (let s' := step_byte T s b in (s' =? t_jam T) || zmem s' R)) all_bytes) R.
  (* from every state of R the barrier byte leads to the jam state or to a dead end *)
  Definition barrier_ok (bar : Z) (R : list Z) : bool :=
    forallb (fun s => let s' := step_byte T s bar in (s' =? t_jam T) || dead s') R.
  (* every accepting state of R accepts a rule with property P *)
  Definition accept_good (P : Z -> bool) (R : list Z) : bool :=
    forallb (fun s => (accept_of T s =? 0) || P (accept_of T s)) R.

  (* untrusted exploration *)
  Definition succs_avoid (bar s : Z) : list Z :=
    flat_map (fun b => if b =? bar then [] else let s' := step_byte T s b in if s' =? t_jam T then [] else [s']) all_bytes.
  Fixpoint reach (bar : Z) (fuel : nat) (todo seen : list Z) : list Z :=
    match fuel with
    | O => seen
    | S f =>
        match todo with
        | [] => seen
        | s :: rest => if zmem s seen then reach bar f rest seen
                       else reach bar f (filter (fun x => negb (zmem x seen)) (succs_avoid bar s) ++ rest) (s :: seen)
        end
    end.

  Lemma run_dead s : dead s = true ->
    forall bs n last, bytes_ok bs -> run T s n last bs = if accept_of T s =? 0 then last else Some (accept_of T s, n).
  Proof.
    intros Hd bs n last Hb. destruct bs as [|b r]; cbn [run]; [reflexivity|].
    unfold dead in Hd. rewrite forallb_forall in Hd. inversion Hb as [|? ? Hb1 _]; subst.
    specialize (Hd b (in_all_bytes b Hb1)). cbv beta in Hd. rewrite Hd. reflexivity.
  Qed.

  Lemma closed_step bar R s b : closed_avoid bar R = true -> In s R -> 0 <= b < 256 -> b <> bar ->
    step_byte T s b = t_jam T \/ In (step_byte T s b) R.
  Proof.
    intros Hc Hs Hb0 Hb. unfold closed_avoid in Hc. rewrite forallb_forall in Hc. specialize (Hc s Hs). cbv beta in Hc.
    rewrite forallb_forall in Hc. specialize (Hc b (in_all_bytes b Hb0)). cbv beta zeta in Hc.
    replace (b =? bar) with false in Hc by (symmetry; apply Z.eqb_neq; exact Hb). cbn [orb] in Hc.
    apply orb_true_iff in Hc as [H | H]; [left; apply Z.eqb_eq; exact H | right; apply zmem_in; exact H].
  Qed.

  (* the cut lemma: once the barrier byte has been read the match is decided *)
  Lemma cut_generic bar R : closed_avoid bar R = true -> barrier_ok bar R = true ->
    forall x tail s n last, bytes_ok x -> bytes_ok tail -> In s R -> In bar x -> run T s n last (x ++ tail) = run T s n last x.
  Proof.
    intros Hc Hb. induction x as [|b r IH]; intros tail s n last Hx Ht Hs Hin; [destruct Hin|].
    inversion Hx as [|? ? Hb1 Hb2]; subst.
    cbn [app run]. destruct (step_byte T s b =? t_jam T) eqn:Ej; [reflexivity|].
    destruct (Z.eq_dec b bar) as [-> | Hne].
    - unfold barrier_ok in Hb. rewrite forallb_forall in Hb. specialize (Hb s Hs). cbv beta zeta in Hb. rewrite Ej in Hb.
      cbn [orb] in Hb. rewrite (run_dead _ Hb), (run_dead _ Hb); [reflexivity | exact Hb2 |].
      unfold bytes_ok. apply Forall_app. split; assumption.
    - destruct Hin as [E | Hin]; [congruence|].
      destruct (closed_step bar R s b Hc Hs Hb1 Hne) as [H | H]; [apply Z.eqb_neq in Ej; contradiction|].
      apply IH; assumption.
  Qed.

  (* where the result of a run comes from *)
  Lemma run_bounds bs : forall s n last r m, run T s n last bs = Some (r, m) ->
    last = Some (r, m) \/ (n <= m <= n + length bs)%nat.
  Proof.
    induction bs as [|b rest IH]; intros s n last r m H; cbn [run] in H.
    - destruct (accept_of T s =? 0); [left; exact H | right; injection H as _ <-; cbn [length]; lia].
    - assert (Hl : forall l', (if accept_of T s =? 0 then last else Some (accept_of T s, n)) = l' -> l' = Some (r, m) ->
                     last = Some (r, m) \/ (n <= m <= n + length (b :: rest))%nat).
      { intros l' E1 E2. subst l'. destruct (accept_of T s =? 0); [left; exact E2 | right; injection E2 as _ <-; cbn [length]; lia]. }
      destruct (step_byte T s b =? t_jam T); [exact (Hl _ eq_refl H)|].
      destruct (IH _ _ _ _ _ H) as [E | E]; [exact (Hl _ eq_refl E) | right; cbn [length]; lia].
  Qed.

  Lemma flex_match_len sc bol bs r m : flex_match T sc bol bs = Some (r, m) -> (m <= length bs)%nat.
  Proof. unfold flex_match. intros H. destruct (run_bounds _ _ _ _ _ _ H) as [E | E]; [discriminate | lia]. Qed.

  (* a match that contains no barrier byte ends in a state of R *)
  Lemma run_in_R bar R P : closed_avoid bar R = true -> accept_good P R = true ->
    forall bs s n last r m, bytes_ok bs -> In s R -> run T s n last bs = Some (r, m) ->
      last = Some (r, m) \/ P r = true \/ In bar (firstn (m - n) bs).
  Proof.
    intros Hc Hg.
    assert (Hacc : forall s (n : nat) (last : option (Z * nat)) r m, In s R -> (if accept_of T s =? 0 then last else Some (accept_of T s, n)) = Some (r, m) ->
                     last = Some (r, m) \/ P r = true).
    { intros s n last r m Hs E. unfold accept_good in Hg. rewrite forallb_forall in Hg. specialize (Hg s Hs). cbv beta in Hg.
      destruct (accept_of T s =? 0); [left; exact E|]. cbn [orb] in Hg. injection E as <- _. right. exact Hg. }
    induction bs as [|b rest IH]; intros s n last r m Hbs Hs H; cbn [run] in H.
    - destruct (Hacc _ _ _ _ _ Hs H); auto.
    - inversion Hbs as [|? ? Hb1 Hb2]; subst.
      destruct (step_byte T s b =? t_jam T) eqn:Ej; [destruct (Hacc _ _ _ _ _ Hs H); auto|].
      destruct (Z.eq_dec b bar) as [-> | Hne].
      + destruct (run_bounds _ _ _ _ _ _ H) as [E | E]; [destruct (Hacc _ _ _ _ _ Hs E); auto|].
        right. right. replace (m - n)%nat with (S (m - S n)) by lia. cbn [firstn]. left. reflexivity.
      + destruct (closed_step bar R s b Hc Hs Hb1 Hne) as [Hj | Hin]; [apply Z.eqb_neq in Ej; contradiction|].
        destruct (IH _ _ _ _ _ Hb2 Hin H) as [E | [E | E]]; [destruct (Hacc _ _ _ _ _ Hs E); auto | auto |].
        right. right. destruct (m - S n)%nat as [|k] eqn:Ek; [destruct E|].
        replace (m - n)%nat with (S (S k)) by lia. cbn [firstn]. right. exact E.
  Qed.
End Cut.

(* ---- the certificates over the compiled tables ---- *)
Definition keeps_cond (a : action) : bool :=
  match a with AAppendText | AAppendChar _ | AAppendHex | AIgnore => true | _ => false end.
Definition rule_keeps (r : Z) : bool := keeps_cond (Lexer.action_of yy_actions r).

(* states reachable from the start states of INITIAL and the two comment conditions without reading a line feed;
   states reachable from the start states of STRING and INCLUDE without reading a double quote *)
Definition R_nl : list Z := reach the_tables 10 4000 [1; 2; 3; 4; 5; 6] [].
Definition R_quote : list Z := reach the_tables 34 4000 [7; 8; 9; 10] [].

Lemma R_nl_closed : closed_avoid the_tables 10 R_nl = true.
Proof. vm_compute. reflexivity. Qed.
Lemma R_nl_barrier : barrier_ok the_tables 10 R_nl = true.
Proof. vm_compute. reflexivity. Qed.
Lemma R_nl_starts : forallb (fun s => zmem s R_nl) [1; 2; 3; 4; 5; 6] = true.
Proof. vm_compute. reflexivity. Qed.
Lemma R_quote_closed : closed_avoid the_tables 34 R_quote = true.
Proof. vm_compute. reflexivity. Qed.
Lemma R_quote_barrier : barrier_ok the_tables 34 R_quote = true.
Proof. vm_compute. reflexivity. Qed.
Lemma R_quote_starts : forallb (fun s => zmem s R_quote) [7; 8; 9; 10] = true.
Proof. vm_compute. reflexivity. Qed.
(* inside a string or an include path, a lexeme without a double quote only appends to the accumulator *)
Lemma R_quote_keeps : accept_good the_tables rule_keeps R_quote = true.
Proof. vm_compute. reflexivity. Qed.

Global Opaque R_nl R_quote.

Lemma start_in_R_nl sc bol : sc = 0 \/ sc = 1 \/ sc = 2 -> In (start_state sc bol) R_nl.
Proof.
  intros H. pose proof R_nl_starts as S. rewrite forallb_forall in S. apply zmem_in. apply S.
  destruct H as [-> | [-> | ->]]; destruct bol; cbn; auto 10.
Qed.
Lemma start_in_R_quote sc bol : sc = 3 \/ sc = 4 -> In (start_state sc bol) R_quote.
Proof.
  intros H. pose proof R_quote_starts as S. rewrite forallb_forall in S. apply zmem_in. apply S.
  destruct H as [-> | ->]; destruct bol; cbn; auto 10.
Qed.

(* 1a. INITIAL and the comment conditions: a match never extends past a line feed *)
Theorem cut_nl : forall sc bol x tail, sc = 0 \/ sc = 1 \/ sc = 2 -> bytes_ok x -> bytes_ok tail -> In 10 x ->
  flex_match the_tables sc bol (x ++ tail) = flex_match the_tables sc bol x.
Proof.
  intros sc bol x tail Hsc Hx Ht Hin. unfold flex_match.
  apply (cut_generic the_tables 10 R_nl R_nl_closed R_nl_barrier); [exact Hx | exact Ht | apply start_in_R_nl; exact Hsc | exact Hin].
Qed.

(* 1b. STRING and INCLUDE: a match never extends past a double quote *)
Theorem cut_quote : forall sc bol x tail, sc = 3 \/ sc = 4 -> bytes_ok x -> bytes_ok tail -> In 34 x ->
  flex_match the_tables sc bol (x ++ tail) = flex_match the_tables sc bol x.
Proof.
  intros sc bol x tail Hsc Hx Ht Hin. unfold flex_match.
  apply (cut_generic the_tables 34 R_quote R_quote_closed R_quote_barrier); [exact Hx | exact Ht | apply start_in_R_quote; exact Hsc | exact Hin].
Qed.

Lemma last_in (x : bytes) d : x <> [] -> In (last x d) x.
Proof.
  induction x as [|a r IH]; intros H; [contradiction|]. destruct r as [|b r']; [left; reflexivity|].
  right. change (last (a :: b :: r') d) with (last (b :: r') d). apply IH. discriminate.
Qed.

(* the form of the task statement: x non-empty whose last byte is a line feed *)
Corollary cut_last_nl : forall sc bol x tail, sc = 0 \/ sc = 1 \/ sc = 2 -> bytes_ok x -> bytes_ok tail -> x <> [] -> last x 0 = 10 ->
  flex_match the_tables sc bol (x ++ tail) = flex_match the_tables sc bol x.
Proof. intros sc bol x tail Hsc Hx Ht Hne Hl. apply cut_nl; [exact Hsc | exact Hx | exact Ht |]. rewrite <- Hl. apply last_in. exact Hne. Qed.

(* 1c. in STRING and INCLUDE, a lexeme whose action does more than append contains a double quote *)
Theorem leave_quote : forall sc bol bs r m, sc = 3 \/ sc = 4 -> bytes_ok bs -> flex_match the_tables sc bol bs = Some (r, m) ->
  rule_keeps r = true \/ In 34 (firstn m bs).
Proof.
  intros sc bol bs r m Hsc Hb H. unfold flex_match in H.
  destruct (run_in_R the_tables 34 R_quote rule_keeps R_quote_closed R_quote_keeps _ _ _ _ _ _ Hb
              (start_in_R_quote sc bol Hsc) H) as [E | [E | E]]; [discriminate | left; exact E | right].
  rewrite Nat.sub_0_r in E. exact E.
Qed.

(* 1d. the string accumulator is only written in STRING and INCLUDE, and these two conditions are only left by the
   closing quote (no BEGIN): certificates over all states reachable from the start states *)
Definition no_append (a : action) : bool := match a with AAppendText | AAppendChar _ | AAppendHex => false | _ => true end.
Definition no_begin (a : action) : bool := match a with ABegin _ => false | _ => true end.
Definition R_low : list Z := reach the_tables (-1) 4000 [1; 2; 3; 4; 5; 6] [].
Definition R_high : list Z := reach the_tables (-1) 4000 [7; 8; 9; 10] [].
Lemma R_low_closed : closed_avoid the_tables (-1) R_low = true.
Proof. vm_compute. reflexivity. Qed.
Lemma R_low_starts : forallb (fun s => zmem s R_low) [1; 2; 3; 4; 5; 6] = true.
Proof. vm_compute. reflexivity. Qed.
Lemma R_low_good : accept_good the_tables (fun r => no_append (Lexer.action_of yy_actions r)) R_low = true.
Proof. vm_compute. reflexivity. Qed.
Lemma R_high_closed : closed_avoid the_tables (-1) R_high = true.
Proof. vm_compute. reflexivity. Qed.
Lemma R_high_starts : forallb (fun s => zmem s R_high) [7; 8; 9; 10] = true.
Proof. vm_compute. reflexivity. Qed.
Lemma R_high_good : accept_good the_tables (fun r => no_begin (Lexer.action_of yy_actions r)) R_high = true.
Proof. vm_compute. reflexivity. Qed.
Global Opaque R_low R_high.

Lemma not_in_bytes bs n : bytes_ok bs -> ~ In (-1) (firstn n bs).
Proof.
  intros Hb Hin. apply In_firstn in Hin. unfold bytes_ok in Hb. rewrite Forall_forall in Hb. specialize (Hb _ Hin). lia.
Qed.

Theorem low_no_append : forall sc bol bs r m, sc = 0 \/ sc = 1 \/ sc = 2 -> bytes_ok bs ->
  flex_match the_tables sc bol bs = Some (r, m) -> no_append (Lexer.action_of yy_actions r) = true.
Proof.
  intros sc bol bs r m Hsc Hb H. unfold flex_match in H.
  assert (Hs : In (start_state sc bol) R_low).
  { pose proof R_low_starts as S. rewrite forallb_forall in S. apply zmem_in. apply S.
    destruct Hsc as [-> | [-> | ->]]; destruct bol; cbn; auto 10. }
  destruct (run_in_R the_tables (-1) R_low _ R_low_closed R_low_good _ _ _ _ _ _ Hb Hs H) as [E | [E | E]];
    [discriminate | exact E | exfalso; exact (not_in_bytes _ _ Hb E)].
Qed.

Theorem high_no_begin : forall sc bol bs r m, sc = 3 \/ sc = 4 -> bytes_ok bs ->
  flex_match the_tables sc bol bs = Some (r, m) -> no_begin (Lexer.action_of yy_actions r) = true.
Proof.
  intros sc bol bs r m Hsc Hb H. unfold flex_match in H.
  assert (Hs : In (start_state sc bol) R_high).
  { pose proof R_high_starts as S. rewrite forallb_forall in S. apply zmem_in. apply S.
    destruct Hsc as [-> | ->]; destruct bol; cbn; auto 10. }
  destruct (run_in_R the_tables (-1) R_high _ R_high_closed R_high_good _ _ _ _ _ _ Hb Hs H) as [E | [E | E]];
    [discriminate | exact E | exfalso; exact (not_in_bytes _ _ Hb E)].
Qed.

(* ================================================================================================================ *)
(* 4. Decoration irrelevance (generic in the tables), and fuel irrelevance                                           *)
(* ================================================================================================================ *)
(* what the token values depend on: start condition, string accumulator, stack of file names *)
Definition sim (a b : lstate) : Prop := l_cond a = l_cond b /\ l_acc a = l_acc b /\ l_names a = l_names b.
Definition bsim (a b : buf) : Prop := b_rest a = b_rest b /\ b_bol a = b_bol b.

Definition step_sim (r1 r2 : step_res) : Prop :=
  match r1, r2 with
  | SCont s1 b1, SCont s2 b2 => sim s1 s2 /\ bsim b1 b2
  | STok t1 s1 b1, STok t2 s2 b2 => lt_tok t1 = lt_tok t2 /\ sim s1 s2 /\ bsim b1 b2
  | SStop k1 p1 s1 _, SStop k2 p2 s2 _ => map lt_tok k1 = map lt_tok k2 /\ p1 = p2 /\ sim s1 s2
  | SIncl s1 f1 _ b1, SIncl s2 f2 _ b2 => sim s1 s2 /\ f1 = f2 /\ bsim b1 b2
  | _, _ => False
  end.

(* results of lex_files (3 components) and of lex_buf / lex_depth (4 components, the last one a line) *)
Definition res3_sim (r1 r2 : list ltoken * lstop * lstate) : Prop :=
  let '(k1, p1, s1) := r1 in let '(k2, p2, s2) := r2 in map lt_tok k1 = map lt_tok k2 /\ p1 = p2 /\ sim s1 s2.
Definition res4_sim (r1 r2 : list ltoken * lstop * lstate * Z) : Prop :=
  let '(k1, p1, s1, _) := r1 in let '(k2, p2, s2, _) := r2 in map lt_tok k1 = map lt_tok k2 /\ p1 = p2 /\ sim s1 s2.

Lemma sim_refl a : sim a a.
Proof. unfold sim. auto. Qed.
Lemma sim_sym a b : sim a b -> sim b a.
Proof. unfold sim. intros (H1 & H2 & H3). auto. Qed.
Lemma sim_trans a b c : sim a b -> sim b c -> sim a c.
Proof. unfold sim. intros (H1 & H2 & H3) (H4 & H5 & H6). repeat split; congruence. Qed.

Lemma fold_add_ev_sim evs : forall a b, sim a b -> sim (fold_left add_ev evs a) (fold_left add_ev evs b).
Proof. induction evs as [|e r IH]; intros a b H; [exact H|]. cbn [fold_left]. apply IH. exact H. Qed.
Lemma fold_add_ev_self evs : forall a, sim (fold_left add_ev evs a) a.
Proof. induction evs as [|e r IH]; intros a; [apply sim_refl|]. cbn [fold_left]. apply (sim_trans _ _ _ (IH _)). unfold sim; cbn; auto. Qed.

(* the effect of a rule action that neither stops the scanner nor switches buffers: the token it returns (if any), the
   new start condition and the new accumulator; None for an include directive, ECHO, an unknown action and a numeric
   literal that is rejected *)
Definition plain_act (atof : bytes -> Z) (a : action) (cond : Z) (acc text : bytes) : option (option token * Z * bytes) :=
  match a with
  | ABegin sc => Some (None, sc, acc)
  | AIgnore => Some (None, cond, acc)
  | AAppendText => Some (None, cond, acc ++ until_nul text)
  | AAppendChar c => Some (None, cond, acc ++ [c])
  | AAppendHex => Some (None, cond, acc ++ [hex2_val text])
  | AEndString => Some (Some (TkString (until_nul acc)), 0, [])
  | ARet t => Some (Some (TkP t), cond, acc)
  | ABool v => Some (Some (TkBool v), cond, acc)
  | AName => Some (Some (TkName text), cond, acc)
  | AFloat | AInteger | AInteger64 | AHex | AHex64 =>
      match numeric_token atof a text with Some t => Some (Some t, cond, acc) | None => None end
  | AEcho | AUnknown | AIncludeEnd => None
  end.

Section Generic.
  Variable T : tables.
  Variable rule_eol : list Z.
  Variable actions : list (Z * action).
  Variable atof : bytes -> Z.
  Variable FS : fs.
  Variable incdir : option bytes.
  Variable incf : incfn.
  Variable max_depth : Z.

  Notation lex_step := (lex_step T rule_eol actions atof FS incdir incf max_depth).
  Notation lex_buf := (lex_buf T rule_eol actions atof FS incdir incf max_depth).
  Notation lex_files := (lex_files FS).
  Notation lex_depth := (lex_depth T rule_eol actions atof FS incdir incf max_depth).

  Lemma lex_step_sim st1 st2 b1 b2 : sim st1 st2 -> bsim b1 b2 -> step_sim (lex_step st1 b1) (lex_step st2 b2).
  Proof.
    destruct st1 as [c1 a1 n1 o1 f1 p1], st2 as [c2 a2 n2 o2 f2 p2], b1 as [r1 bl1 l1], b2 as [r2 bl2 l2].
    unfold sim, bsim. cbn [l_cond l_acc l_names b_rest b_bol]. intros (<- & <- & <-) (<- & <-).
    unfold Lexer.lex_step. cbn [l_cond l_acc l_names b_rest b_bol b_line].
    destruct (flex_match T c1 bl1 r1) as [[rule [|len]]|]; cbn [step_sim map]; unfold sim; cbn [l_cond l_acc l_names]; auto.
    cbv zeta.
    destruct (Lexer.action_of actions rule).
    all: try (cbn; unfold sim, bsim; cbn; auto 10; fail).
    - (* include directive *)
      cbn [set_acc l_cond l_acc l_names l_open l_files l_pending].
      destruct (Z.of_nat (length n1) - 1 =? max_depth); [unfold stop_error, emit; cbn; unfold sim; cbn; auto|].
      destruct (call_incfn incdir incf (until_nul a1)) as [[evs err] files].
      set (s1 := mkLS c1 [] n1 o1 f1 p1). set (s2 := mkLS c1 [] n1 o2 f2 p2).
      assert (Hs : sim (fold_left add_ev evs s1) (fold_left add_ev evs s2)) by (apply fold_add_ev_sim; unfold sim; cbn; auto).
      destruct Hs as (F1 & F2 & F3).
      assert (Hfin : forall x y, l_names (fold_left add_ev evs s1) = x -> l_names (fold_left add_ev evs s2) = y -> x = y) by congruence.
      destruct err as [msg|]; [unfold stop_error, emit; cbn; unfold sim; cbn; repeat split; solve [reflexivity | exact F1 | exact F2 | exact F3]|].
      destruct files as [[|f0 frest]|].
      + cbn; unfold sim, bsim; cbn; repeat split; solve [reflexivity | exact F1 | exact F2 | exact F3].
      + destruct (fs_lookup FS f0) as [[content|]|].
        * cbn. unfold sim, bsim. cbn. repeat split; try solve [reflexivity | exact F1 | exact F2 | exact F3]. f_equal. exact F3.
        * unfold stop_error, emit; cbn; unfold sim; cbn; repeat split; solve [reflexivity | exact F1 | exact F2 | exact F3].
        * unfold stop_error, emit; cbn; unfold sim; cbn; repeat split; solve [reflexivity | exact F1 | exact F2 | exact F3].
      + cbn; unfold sim, bsim; cbn; repeat split; solve [reflexivity | exact F1 | exact F2 | exact F3].
    - destruct (numeric_token atof AFloat (firstn (S len) r1)); [|unfold stop_error, emit]; cbn; unfold sim, bsim; cbn; auto 10.
    - destruct (numeric_token atof AInteger (firstn (S len) r1)); [|unfold stop_error, emit]; cbn; unfold sim, bsim; cbn; auto 10.
    - destruct (numeric_token atof AInteger64 (firstn (S len) r1)); [|unfold stop_error, emit]; cbn; unfold sim, bsim; cbn; auto 10.
    - destruct (numeric_token atof AHex (firstn (S len) r1)); [|unfold stop_error, emit]; cbn; unfold sim, bsim; cbn; auto 10.
    - destruct (numeric_token atof AHex64 (firstn (S len) r1)); [|unfold stop_error, emit]; cbn; unfold sim, bsim; cbn; auto 10.
  Qed.

  (* every step that goes on has consumed at least one byte *)
  Lemma lex_step_shrinks st b : b_rest b <> [] ->
    match lex_step st b with
    | SCont _ b' | STok _ _ b' | SIncl _ _ _ b' => (length (b_rest b') < length (b_rest b))%nat
    | SStop _ _ _ _ => True
    end.
  Proof.
    intros Hne. unfold Lexer.lex_step.
    destruct (flex_match T (l_cond st) (b_bol b) (b_rest b)) as [[rule [|len]]|]; try exact I. cbv zeta.
    set (text := firstn (S len) (b_rest b)).
    set (line' := if nthZ rule_eol rule =? 0 then b_line b else b_line b + count_nl text).
    set (b' := mkBuf (skipn (S len) (b_rest b)) (last text 0 =? 10) line').
    assert (Hs : (length (b_rest b') < length (b_rest b))%nat).
    { cbn [b' b_rest]. rewrite skipn_length. destruct (b_rest b); [contradiction | cbn [length]; lia]. }
    destruct (Lexer.action_of actions rule); try exact Hs; try exact I.
    - destruct (Z.of_nat (length (l_names (set_acc st []))) - 1 =? max_depth); [unfold stop_error, emit; exact I|].
      destruct (call_incfn incdir incf (until_nul (l_acc st))) as [[evs err] files].
      destruct err; [unfold stop_error, emit; exact I|].
      destruct files as [[|f1 frest]|]; try exact Hs.
      destruct (fs_lookup FS f1) as [[content|]|]; try (unfold stop_error, emit; exact I). exact Hs.
    - destruct (numeric_token atof AFloat text); [unfold emit; exact Hs | unfold stop_error, emit; exact I].
    - destruct (numeric_token atof AInteger text); [unfold emit; exact Hs | unfold stop_error, emit; exact I].
    - destruct (numeric_token atof AInteger64 text); [unfold emit; exact Hs | unfold stop_error, emit; exact I].
    - destruct (numeric_token atof AHex text); [unfold emit; exact Hs | unfold stop_error, emit; exact I].
    - destruct (numeric_token atof AHex64 text); [unfold emit; exact Hs | unfold stop_error, emit; exact I].
  Qed.

  (* any fuel larger than the length of the text gives the same result *)
  Lemma lex_buf_fuel di : forall fuel fuel' st b, (length (b_rest b) < fuel)%nat -> (length (b_rest b) < fuel')%nat ->
    lex_buf di fuel st b = lex_buf di fuel' st b.
  Proof.
    induction fuel as [|f IH]; intros fuel' st b H1 H2; [lia|]. destruct fuel' as [|f']; [lia|].
    cbn [Lexer.lex_buf]. destruct (b_rest b) as [|c0 r0] eqn:Er; [reflexivity|].
    assert (Hne : b_rest b <> []) by (rewrite Er; discriminate).
    pose proof (lex_step_shrinks st b Hne) as Hs. rewrite Er in Hs. cbn [length] in *.
    destruct (lex_step st b) as [st' b'|tk st' b'|toks stop st' l|st' files line' b'].
    - apply IH; lia.
    - rewrite (IH f' st' b'); [reflexivity | lia | lia].
    - reflexivity.
    - destruct di as [incl|]; [|reflexivity].
      destruct (incl files st' line') as [[toks stop] st4]. destruct stop; try reflexivity.
      rewrite (IH f' (pop_frame st4) b'); [reflexivity | lia | lia].
  Qed.

  (* ---- decoration irrelevance ---- *)
  Definition incl_sim (di1 di2 : option (list bytes -> lstate -> Z -> list ltoken * lstop * lstate)) : Prop :=
    match di1, di2 with
    | None, None => True
    | Some i1, Some i2 => forall files st1 st2 l1 l2, sim st1 st2 -> res3_sim (i1 files st1 l1) (i2 files st2 l2)
    | _, _ => False
    end.

  Theorem lex_buf_sim di1 di2 : incl_sim di1 di2 ->
    forall fuel st1 st2 b1 b2, sim st1 st2 -> bsim b1 b2 -> res4_sim (lex_buf di1 fuel st1 b1) (lex_buf di2 fuel st2 b2).
  Proof.
    intros Hdi. induction fuel as [|f IH]; intros st1 st2 b1 b2 Hs Hb.
    - cbn [Lexer.lex_buf res4_sim map]. auto.
    - cbn [Lexer.lex_buf]. pose proof Hb as [Hr Hbol]. rewrite <- Hr.
      destruct (b_rest b1) as [|c0 r0] eqn:Er; [cbn [res4_sim map]; auto|].
      pose proof (lex_step_sim st1 st2 b1 b2 Hs Hb) as Hst.
      destruct (lex_step st1 b1) as [s1 b1'|t1 s1 b1'|k1 p1 s1 ln1|s1 fl1 ln1 b1'];
        destruct (lex_step st2 b2) as [s2 b2'|t2 s2 b2'|k2 p2 s2 ln2|s2 fl2 ln2 b2']; cbn [step_sim] in Hst; try contradiction.
      + destruct Hst as [Hs' Hb']. apply IH; assumption.
      + destruct Hst as (Ht & Hs' & Hb'). specialize (IH s1 s2 b1' b2' Hs' Hb').
        destruct (lex_buf di1 f s1 b1') as [[[ka pa] sa] la]. destruct (lex_buf di2 f s2 b2') as [[[kb pb] sb] lb].
        cbn [res4_sim] in *. destruct IH as (I1 & I2 & I3). cbn [map]. rewrite Ht, I1. auto.
      + exact Hst.
      + destruct Hst as (Hs' & <- & Hb').
        destruct di1 as [i1|], di2 as [i2|]; cbn [incl_sim] in Hdi; try contradiction; [|cbn [res4_sim map]; auto].
        specialize (Hdi fl1 s1 s2 ln1 ln2 Hs').
        destruct (i1 fl1 s1 ln1) as [[ka pa] sa]. destruct (i2 fl1 s2 ln2) as [[kb pb] sb].
        cbn [res3_sim] in Hdi. destruct Hdi as (I1 & <- & I3).
        destruct pa; try (cbn [res4_sim]; auto; fail).
        assert (Hpop : sim (pop_frame sa) (pop_frame sb)).
        { destruct I3 as (J1 & J2 & J3). unfold sim. cbn [pop_frame l_cond l_acc l_names]. rewrite J1, J2, J3. auto. }
        specialize (IH (pop_frame sa) (pop_frame sb) b1' b2' Hpop Hb').
        destruct (lex_buf (Some i1) f (pop_frame sa) b1') as [[[kc pc] sc] lc].
        destruct (lex_buf (Some i2) f (pop_frame sb) b2') as [[[kd pd] sd] ld].
        cbn [res4_sim] in *. destruct IH as (K1 & K2 & K3). rewrite !map_app, I1, K1. auto.
  Qed.

  Theorem lex_files_sim (sf1 sf2 : lstate -> bytes -> list ltoken * lstop * lstate * Z) :
    (forall st1 st2 content, sim st1 st2 -> res4_sim (sf1 st1 content) (sf2 st2 content)) ->
    forall files st1 st2 l1 l2, sim st1 st2 -> res3_sim (lex_files sf1 files st1 l1) (lex_files sf2 files st2 l2).
  Proof.
    intros Hsf. induction files as [|f rest IH]; intros st1 st2 l1 l2 Hs; cbn [Lexer.lex_files].
    - cbn [res3_sim map]. auto.
    - assert (Hn : forall x y : lstate, sim x y -> sim (set_name x (Some f)) (set_name y (Some f))).
      { intros x y (J1 & J2 & J3). unfold sim. cbn [set_name l_cond l_acc l_names]. rewrite J1, J2, J3. auto. }
      destruct (fs_lookup FS f) as [[content|]|].
      + assert (H3 : sim (push_open (add_ev (set_name st1 (Some f)) (LvOpen f)) f) (push_open (add_ev (set_name st2 (Some f)) (LvOpen f)) f)).
        { exact (Hn _ _ Hs). }
        specialize (Hsf _ _ content H3).
        destruct (sf1 (push_open (add_ev (set_name st1 (Some f)) (LvOpen f)) f) content) as [[[ka pa] sa] la].
        destruct (sf2 (push_open (add_ev (set_name st2 (Some f)) (LvOpen f)) f) content) as [[[kb pb] sb] lb].
        cbn [res4_sim] in Hsf. destruct Hsf as (I1 & <- & I3).
        destruct pa; try (cbn [res3_sim]; auto; fail).
        assert (H5 : sim (add_ev (pop_open sa) (LvClose f)) (add_ev (pop_open sb) (LvClose f))) by exact I3.
        specialize (IH _ _ la lb H5).
        destruct (lex_files sf1 rest (add_ev (pop_open sa) (LvClose f)) la) as [[kc pc] sc].
        destruct (lex_files sf2 rest (add_ev (pop_open sb) (LvClose f)) lb) as [[kd pd] sd].
        cbn [res3_sim] in *. destruct IH as (K1 & K2 & K3). rewrite !map_app, I1, K1. auto.
      + unfold emit. cbn [res3_sim map lt_tok]. split; [reflexivity|]. split; [reflexivity|]. exact (Hn _ _ Hs).
      + unfold emit. cbn [res3_sim map lt_tok]. split; [reflexivity|]. split; [reflexivity|]. exact (Hn _ _ Hs).
  Qed.

  Theorem lex_depth_sim : forall d st1 st2 content, sim st1 st2 -> res4_sim (lex_depth d st1 content) (lex_depth d st2 content).
  Proof.
    induction d as [|d IH]; intros st1 st2 content Hs; cbn [Lexer.lex_depth].
    - apply lex_buf_sim; [exact I | exact Hs | split; reflexivity].
    - apply lex_buf_sim; [|exact Hs | split; reflexivity].
      cbn [incl_sim]. intros files s1 s2 l1 l2 H. apply lex_files_sim; [exact IH | exact H].
  Qed.

  Lemma incl_sim_depth d : incl_sim (Some (lex_files (lex_depth d))) (Some (lex_files (lex_depth d))).
  Proof. cbn [incl_sim]. intros files s1 s2 l1 l2 H. apply lex_files_sim; [apply lex_depth_sim | exact H]. Qed.

  Lemma lex_buf_S di f st b : b_rest b <> [] ->
    lex_buf di (S f) st b =
    match lex_step st b with
    | SCont st' b' => lex_buf di f st' b'
    | STok tk st' b' => let '(toks, stop, st'', l) := lex_buf di f st' b' in (tk :: toks, stop, st'', l)
    | SStop toks stop st' l => (toks, stop, st', l)
    | SIncl st3' files line' b' =>
        match di with
        | None => ([], StopStuck, st3', line')
        | Some incl =>
            let '(toks, stop, st4) := incl files st3' line' in
            match stop with
            | StopEOB => let '(toks2, stop2, st6, l) := lex_buf di f (pop_frame st4) b' in (toks ++ toks2, stop2, st6, l)
            | _ => (toks, stop, st4, line')
            end
        end
    end.
  Proof. intros H. cbn [Lexer.lex_buf]. destruct (b_rest b); [contradiction|]. destruct di; reflexivity. Qed.

  (* what a step does to the stack of file names; an accepted directive starts a frame in INITIAL with an empty accumulator *)
  Lemma lex_step_names st b :
    match lex_step st b with
    | SCont st' _ | STok _ st' _ => l_names st' = l_names st
    | SIncl st' _ _ _ => l_names st' = None :: l_names st /\ l_cond st' = 0 /\ l_acc st' = []
    | SStop _ _ _ _ => True
    end.
  Proof.
    unfold Lexer.lex_step.
    destruct (flex_match T (l_cond st) (b_bol b) (b_rest b)) as [[rule [|len]]|]; try exact I. cbv zeta.
    destruct (Lexer.action_of actions rule); try reflexivity; try exact I.
    - destruct (Z.of_nat (length (l_names (set_acc st []))) - 1 =? max_depth); [unfold stop_error, emit; exact I|].
      destruct (call_incfn incdir incf (until_nul (l_acc st))) as [[evs err] files].
      destruct (fold_add_ev_self evs (set_acc st [])) as (F1 & F2 & F3). cbn [set_acc l_cond l_acc l_names] in F1, F2, F3.
      destruct err; [unfold stop_error, emit; exact I|].
      destruct files as [[|f1 frest]|]; try exact F3.
      destruct (fs_lookup FS f1) as [[content|]|]; try (unfold stop_error, emit; exact I).
      cbn [push_frame add_files l_names l_cond l_acc]. rewrite F2, F3. auto.
    - destruct (numeric_token atof AFloat (firstn (S len) (b_rest b))); [reflexivity | unfold stop_error, emit; exact I].
    - destruct (numeric_token atof AInteger (firstn (S len) (b_rest b))); [reflexivity | unfold stop_error, emit; exact I].
    - destruct (numeric_token atof AInteger64 (firstn (S len) (b_rest b))); [reflexivity | unfold stop_error, emit; exact I].
    - destruct (numeric_token atof AHex (firstn (S len) (b_rest b))); [reflexivity | unfold stop_error, emit; exact I].
    - destruct (numeric_token atof AHex64 (firstn (S len) (b_rest b))); [reflexivity | unfold stop_error, emit; exact I].
  Qed.

  (* a step whose action is plain: what lex_step does *)
  Lemma lex_step_act st b rule len ot cond' acc' :
    flex_match T (l_cond st) (b_bol b) (b_rest b) = Some (rule, S len) ->
    plain_act atof (Lexer.action_of actions rule) (l_cond st) (l_acc st) (firstn (S len) (b_rest b)) = Some (ot, cond', acc') ->
    exists st',
      (let b' := mkBuf (skipn (S len) (b_rest b)) (last (firstn (S len) (b_rest b)) 0 =? 10)
                       (if nthZ rule_eol rule =? 0 then b_line b else b_line b + count_nl (firstn (S len) (b_rest b))) in
       match ot with
       | None => lex_step st b = SCont st' b'
       | Some t => exists tk, lex_step st b = STok tk st' b' /\ lt_tok tk = t
       end) /\
      l_cond st' = cond' /\ l_acc st' = acc' /\ l_names st' = l_names st /\ l_open st' = l_open st /\ l_files st' = l_files st.
  Proof.
    intros Hm Ha. unfold Lexer.lex_step. rewrite Hm. cbv zeta.
    destruct (Lexer.action_of actions rule) eqn:Ea; cbn [plain_act] in Ha; try discriminate Ha.
    1-5: injection Ha as <- <- <-; eexists; split; [reflexivity | cbn; auto].
    1-4: injection Ha as <- <- <-; unfold emit; eexists; split; [eexists; split; reflexivity | cbn; auto].
    all: match type of Ha with context [numeric_token atof ?a ?t] => destruct (numeric_token atof a t) as [tkn|]; [|discriminate Ha] end;
      injection Ha as <- <- <-; unfold emit; eexists; split; [eexists; split; reflexivity | cbn; auto].
  Qed.
End Generic.

(* ================================================================================================================ *)
(* 2. Plain texts                                                                                                    *)
(* ================================================================================================================ *)
Section Plain.
  Variable atof : bytes -> Z.

  (* one scanner step on a text alone: the token returned (if any), the new start condition, accumulator and
     beginning-of-line flag, and the rest of the text *)
  Definition plain_step (cond : Z) (acc : bytes) (bol : bool) (rest : bytes) : option (option token * Z * bytes * bool * bytes) :=
    match flex_match the_tables cond bol rest with
    | Some (rule, S len) =>
        let text := firstn (S len) rest in
        match plain_act atof (Lexer.action_of yy_actions rule) cond acc text with
        | Some (ot, cond', acc') => Some (ot, cond', acc', last text 0 =? 10, skipn (S len) rest)
        | None => None
        end
    | _ => None
    end.

  (* the whole text: token values, final start condition, final accumulator, final beginning-of-line flag;
     None: an include directive, an error or a stuck matcher somewhere in the text *)
  Fixpoint plain_scan (fuel : nat) (cond : Z) (acc : bytes) (bol : bool) (rest : bytes) : option (list token * Z * bytes * bool) :=
    match fuel with
    | O => None
    | S f =>
        match rest with
        | [] => Some ([], cond, acc, bol)
        | _ =>
            match plain_step cond acc bol rest with
            | Some (ot, cond', acc', bol', rest') =>
                match plain_scan f cond' acc' bol' rest' with
                | Some (ts, c, a, b) => Some (match ot with Some t => t :: ts | None => ts end, c, a, b)
                | None => None
                end
            | None => None
            end
        end
    end.

  Definition plain_toks (c : bytes) : list token :=
    match plain_scan (S (length c)) 0 [] true c with Some (ts, _, _, _) => ts | None => [] end.
  Definition plain_end (c : bytes) : option (Z * bytes) :=
    match plain_scan (S (length c)) 0 [] true c with Some (_, sc, a, _) => Some (sc, a) | None => None end.

  (* c is made of bytes, scans to its end without an error and without an include directive, ends in INITIAL with an
     empty string accumulator (all strings and comments are terminated), and is empty or ends with a line feed *)
  Definition plain (c : bytes) : Prop :=
    bytes_ok c /\ plain_end c = Some (0, []) /\ (c = [] \/ last c 0 = 10).

  (* what one plain step is *)
  Lemma plain_step_inv cond acc bol rest ot cond' acc' bol' rest' :
    plain_step cond acc bol rest = Some (ot, cond', acc', bol', rest') ->
    exists rule len,
      flex_match the_tables cond bol rest = Some (rule, S len) /\ (S len <= length rest)%nat /\
      plain_act atof (Lexer.action_of yy_actions rule) cond acc (firstn (S len) rest) = Some (ot, cond', acc') /\
      bol' = (last (firstn (S len) rest) 0 =? 10) /\ rest' = skipn (S len) rest.
  Proof.
    unfold plain_step. intros H. destruct (flex_match the_tables cond bol rest) as [[rule [|len]]|] eqn:Em; try discriminate H.
    cbv zeta in H. destruct (plain_act atof (Lexer.action_of yy_actions rule) cond acc (firstn (S len) rest)) as [[[ot0 c0] a0]|] eqn:Ea; [|discriminate H].
    injection H as <- <- <- <- <-. exists rule, len. split; [reflexivity|]. split; [exact (flex_match_len _ _ _ _ _ _ Em)|]. auto.
  Qed.

  Lemma plain_act_cond a cond acc text ot cond' acc' :
    plain_act atof a cond acc text = Some (ot, cond', acc') ->
    cond' = cond \/ cond' = 0 \/ exists sc, a = ABegin sc /\ cond' = sc.
  Proof.
    destruct a; cbn [plain_act]; intros H; try discriminate H;
      try (injection H as <- <- <-; eauto; fail);
      match type of H with context [numeric_token atof ?a ?t] => destruct (numeric_token atof a t); [|discriminate H] end;
      injection H as <- <- <-; auto.
  Qed.

  Lemma plain_act_keeps a cond acc text ot cond' acc' :
    plain_act atof a cond acc text = Some (ot, cond', acc') -> keeps_cond a = true -> cond' = cond.
  Proof. destruct a; cbn [plain_act keeps_cond]; intros H K; try discriminate K; injection H as <- <- <-; reflexivity. Qed.

  Lemma plain_step_cond cond acc bol rest ot cond' acc' bol' rest' :
    plain_step cond acc bol rest = Some (ot, cond', acc', bol', rest') -> 0 <= cond <= 4 -> 0 <= cond' <= 4.
  Proof.
    intros H Hc. destruct (plain_step_inv _ _ _ _ _ _ _ _ _ H) as (rule & len & _ & _ & Ha & _).
    destruct (plain_act_cond _ _ _ _ _ _ _ Ha) as [-> | [-> | (sc & Ea & ->)]]; [exact Hc | lia |].
    exact (action_begin_ok _ _ Ea).
  Qed.

  (* inside a string (or an include path) a text that is scanned back to INITIAL contains a double quote *)
  Lemma plain_scan_quote : forall f cond acc bol rest ts a b,
    plain_scan f cond acc bol rest = Some (ts, 0, a, b) -> cond = 3 \/ cond = 4 -> bytes_ok rest -> In 34 rest.
  Proof.
    induction f as [|f IH]; intros cond acc bol rest ts a b H Hc Hb; cbn [plain_scan] in H; [discriminate H|].
    destruct rest as [|c0 r0]; [injection H as _ E _ _; lia|].
    destruct (plain_step cond acc bol (c0 :: r0)) as [[[[[ot cond'] acc'] bol'] rest']|] eqn:Es; [|discriminate H].
    destruct (plain_scan f cond' acc' bol' rest') as [[[[ts0 c1] a1] b1]|] eqn:Er; [|discriminate H].
    injection H as _ -> _ _.
    destruct (plain_step_inv _ _ _ _ _ _ _ _ _ Es) as (rule & len & Em & Hlen & Ha & _ & ->).
    destruct (leave_quote cond bol _ rule (S len) Hc Hb Em) as [K | K]; [|exact (In_firstn _ _ _ K)].
    pose proof (plain_act_keeps _ _ _ _ _ _ _ Ha K) as ->.
    apply (In_skipn _ (S len)). exact (IH _ _ _ _ _ _ _ Er Hc (bytes_ok_skipn _ _ Hb)).
  Qed.

  (* after a non-empty text that ends with a line feed the scanner is at the beginning of a line *)
  Lemma plain_scan_bol : forall f cond acc bol rest ts c a b,
    plain_scan f cond acc bol rest = Some (ts, c, a, b) -> rest <> [] -> last rest 0 = 10 -> b = true.
  Proof.
    induction f as [|f IH]; intros cond acc bol rest ts c a b H Hne Hl; cbn [plain_scan] in H; [discriminate H|].
    destruct rest as [|c0 r0]; [contradiction|].
    destruct (plain_step cond acc bol (c0 :: r0)) as [[[[[ot cond'] acc'] bol'] rest']|] eqn:Es; [|discriminate H].
    destruct (plain_scan f cond' acc' bol' rest') as [[[[ts0 c1] a1] b1]|] eqn:Er; [|discriminate H].
    injection H as _ _ _ ->.
    destruct (plain_step_inv _ _ _ _ _ _ _ _ _ Es) as (rule & len & Em & Hlen & Ha & -> & ->).
    destruct (skipn (S len) (c0 :: r0)) as [|c2 r2] eqn:Ek.
    - assert (Et : firstn (S len) (c0 :: r0) = c0 :: r0).
      { pose proof (firstn_skipn (S len) (c0 :: r0)) as Hfs. rewrite Ek, app_nil_r in Hfs. exact Hfs. }
      rewrite Et, Hl in Er. destruct f; cbn [plain_scan] in Er; [discriminate Er|]. injection Er as _ _ _ <-. reflexivity.
    - apply (IH _ _ _ _ _ _ _ _ Er); [discriminate|].
      rewrite <- Hl. pose proof (firstn_skipn (S len) (c0 :: r0)) as Hfs. rewrite Ek in Hfs.
      transitivity (last (firstn (S len) (c0 :: r0) ++ c2 :: r2) 0); [symmetry; apply last_app_ne; discriminate | rewrite Hfs; reflexivity].
  Qed.
  (* the accumulator is empty whenever the scanner is outside STRING and INCLUDE: in the definition of [plain] the
     condition on the final accumulator follows from the one on the final start condition *)
  Lemma plain_act_acc a cond acc text ot cond' acc' :
    plain_act atof a cond acc text = Some (ot, cond', acc') ->
    (cond <= 2 -> acc = []) -> (cond <= 2 -> no_append a = true) -> (3 <= cond -> no_begin a = true) ->
    cond' <= 2 -> acc' = [].
  Proof.
    destruct a; cbn [plain_act no_append no_begin]; intros H I1 I2 I3 Hc'; try discriminate H;
      try (injection H as <- <- <-; auto; fail).
    - injection H as <- <- <-. destruct (Z_le_gt_dec cond 2) as [Hle | Hgt]; [auto | specialize (I3 ltac:(lia)); discriminate I3].
    - injection H as <- <- <-. specialize (I2 Hc'). discriminate I2.
    - injection H as <- <- <-. specialize (I2 Hc'). discriminate I2.
    - injection H as <- <- <-. specialize (I2 Hc'). discriminate I2.
    - destruct (numeric_token atof AFloat text); [|discriminate H]. injection H as <- <- <-. auto.
    - destruct (numeric_token atof AInteger text); [|discriminate H]. injection H as <- <- <-. auto.
    - destruct (numeric_token atof AInteger64 text); [|discriminate H]. injection H as <- <- <-. auto.
    - destruct (numeric_token atof AHex text); [|discriminate H]. injection H as <- <- <-. auto.
    - destruct (numeric_token atof AHex64 text); [|discriminate H]. injection H as <- <- <-. auto.
  Qed.

  Lemma plain_scan_acc : forall f cond acc bol rest ts c a b,
    plain_scan f cond acc bol rest = Some (ts, c, a, b) -> 0 <= cond <= 4 -> bytes_ok rest -> (cond <= 2 -> acc = []) -> c <= 2 -> a = [].
  Proof.
    induction f as [|f IH]; intros cond acc bol rest ts c a b H Hc Hb Hi Hc2; cbn [plain_scan] in H; [discriminate H|].
    destruct rest as [|c0 r0]; [injection H as _ <- <- _; auto|].
    destruct (plain_step cond acc bol (c0 :: r0)) as [[[[[ot cond'] acc'] bol'] rest']|] eqn:Es; [|discriminate H].
    destruct (plain_scan f cond' acc' bol' rest') as [[[[ts0 c1] a1] b1]|] eqn:Er; [|discriminate H].
    injection H as _ -> -> _.
    pose proof (plain_step_cond _ _ _ _ _ _ _ _ _ Es Hc) as Hc'.
    destruct (plain_step_inv _ _ _ _ _ _ _ _ _ Es) as (rule & len & Em & Hlen & Ha & _ & ->).
    apply (IH _ _ _ _ _ _ _ _ Er Hc' (bytes_ok_skipn _ _ Hb)); [|exact Hc2].
    apply (plain_act_acc _ _ _ _ _ _ _ Ha Hi).
    - intros Hle. apply (low_no_append cond bol (c0 :: r0) rule (S len)); [lia | exact Hb | exact Em].
    - intros Hge. apply (high_no_begin cond bol (c0 :: r0) rule (S len)); [lia | exact Hb | exact Em].
  Qed.

  Theorem plain_end_acc c a : bytes_ok c -> plain_end c = Some (0, a) -> a = [].
  Proof.
    unfold plain_end. intros Hb H. destruct (plain_scan (S (length c)) 0 [] true c) as [[[[ts sc] a0] b0]|] eqn:E; [|discriminate H].
    injection H as -> ->. apply (plain_scan_acc _ _ _ _ _ _ _ _ _ E); auto; lia.
  Qed.

  Corollary plain_intro c : bytes_ok c -> (exists a, plain_end c = Some (0, a)) -> (c = [] \/ last c 0 = 10) -> plain c.
  Proof. intros Hb [a Ha] Hl. split; [exact Hb|]. split; [|exact Hl]. rewrite Ha. rewrite (plain_end_acc c a Hb Ha). reflexivity. Qed.
End Plain.

(* ================================================================================================================ *)
(* 3. The append lemma                                                                                               *)
(* ================================================================================================================ *)
Lemma cond_in_all cond bol : 0 <= cond <= 4 -> In (cond, bol) all_conditions.
Proof.
  intros H. assert (E : cond = 0 \/ cond = 1 \/ cond = 2 \/ cond = 3 \/ cond = 4) by lia.
  unfold all_conditions. destruct E as [-> | [-> | [-> | [-> | ->]]]]; destruct bol; cbn; auto 12.
Qed.

Section Splice.
  Variable atof : bytes -> Z.
  Variable FS : fs.
  Variable incdir : option bytes.
  Variable incf : incfn.
  Variable max_depth : Z.

  Notation lex_step := (lex_step the_tables yy_rule_can_match_eol yy_actions atof FS incdir incf max_depth).
  Notation lex_buf := (lex_buf the_tables yy_rule_can_match_eol yy_actions atof FS incdir incf max_depth).
  Notation lex_files := (lex_files FS).
  Notation lex_depth := (lex_depth the_tables yy_rule_can_match_eol yy_actions atof FS incdir incf max_depth).

  (* one plain step of the text [rest] is one step of the scanner on [rest ++ tail], whatever follows *)
  Lemma lex_step_plain st tail line cond acc bol rest ot cond' acc' bol' rest' :
    plain_step atof cond acc bol rest = Some (ot, cond', acc', bol', rest') ->
    0 <= cond <= 4 -> bytes_ok rest -> bytes_ok tail ->
    ((cond <= 2 /\ In 10 rest) \/ (3 <= cond /\ In 34 rest)) ->
    l_cond st = cond -> l_acc st = acc ->
    exists st' text,
      rest = text ++ rest' /\ text <> [] /\ bol' = (last text 0 =? 10) /\ 0 <= cond' <= 4 /\
      l_cond st' = cond' /\ l_acc st' = acc' /\ l_names st' = l_names st /\ l_open st' = l_open st /\ l_files st' = l_files st /\
      match ot with
      | None => lex_step st (mkBuf (rest ++ tail) bol line) = SCont st' (mkBuf (rest' ++ tail) bol' (line + count_nl text))
      | Some t => exists tk, lex_step st (mkBuf (rest ++ tail) bol line) = STok tk st' (mkBuf (rest' ++ tail) bol' (line + count_nl text)) /\
                             lt_tok tk = t
      end.
  Proof.
    intros Hs Hc Hb Ht Hcut Ec Ea.
    pose proof (plain_step_cond _ _ _ _ _ _ _ _ _ _ Hs Hc) as Hc'.
    destruct (plain_step_inv _ _ _ _ _ _ _ _ _ _ Hs) as (rule & len & Em & Hlen & Hact & -> & ->).
    assert (Em' : flex_match the_tables cond bol (rest ++ tail) = Some (rule, S len)).
    { rewrite <- Em. destruct Hcut as [[H1 H2] | [H1 H2]]; [apply cut_nl | apply cut_quote]; auto; lia. }
    destruct (lex_step_act the_tables yy_rule_can_match_eol yy_actions atof FS incdir incf max_depth st
                (mkBuf (rest ++ tail) bol line) rule len ot cond' acc') as (st' & Hstep & F1 & F2 & F3 & F4 & F5).
    { cbn [b_rest b_bol]. rewrite Ec. exact Em'. }
    { cbn [b_rest]. rewrite Ec, Ea, (firstn_app_le _ _ _ Hlen). exact Hact. }
    cbn [b_rest b_line] in Hstep. rewrite (firstn_app_le _ _ _ Hlen), (skipn_app_le _ _ _ Hlen) in Hstep.
    destruct rest as [|c0 r0]; [cbn [length] in Hlen; lia|].
    rewrite (line_exact cond bol c0 r0 rule (S len) (cond_in_all cond bol Hc) Hb Em line) in Hstep.
    exists st', (firstn (S len) (c0 :: r0)).
    split; [symmetry; apply firstn_skipn|]. split; [cbn [firstn]; discriminate|]. split; [reflexivity|]. split; [exact Hc'|].
    split; [exact F1|]. split; [exact F2|]. split; [exact F3|]. split; [exact F4|]. split; [exact F5|]. exact Hstep.
  Qed.

  (* 3. scanning [rest ++ tail], for a text [rest] that is scanned back to INITIAL and is empty or ends with a line feed:
     the tokens of [rest], then the scan of [tail]; the state has changed only in its accumulator (and start condition) *)
  Lemma append_gen di tail : bytes_ok tail -> forall fp cond acc bol rest ts a b0,
    plain_scan atof fp cond acc bol rest = Some (ts, 0, a, b0) -> 0 <= cond <= 4 -> bytes_ok rest -> (rest = [] \/ last rest 0 = 10) ->
    forall st line fuel, l_cond st = cond -> l_acc st = acc -> (length (rest ++ tail) < fuel)%nat ->
    exists ltoks st' fuel',
      lex_buf di fuel st (mkBuf (rest ++ tail) bol line) =
        (let '(t, s, st'', l) := lex_buf di fuel' st' (mkBuf tail b0 (line + count_nl rest)) in (ltoks ++ t, s, st'', l)) /\
      map lt_tok ltoks = ts /\ l_cond st' = 0 /\ l_acc st' = a /\ l_names st' = l_names st /\ l_open st' = l_open st /\
      l_files st' = l_files st /\ (length tail < fuel')%nat.
  Proof.
    intros Ht. induction fp as [|fp IH]; intros cond acc bol rest ts a b0 H Hc Hb Hl st line fuel Ec Ea Hf; [discriminate H|].
    pose proof H as Hfull. cbn [plain_scan] in H. destruct rest as [|c0 r0].
    - injection H as <- <- <- <-. exists [], st, fuel. cbn [app count_nl] in *. rewrite Z.add_0_r.
      split; [destruct (lex_buf di fuel st (mkBuf tail bol line)) as [[[t s] st''] l]; reflexivity|].
      repeat split; auto.
    - destruct (plain_step atof cond acc bol (c0 :: r0)) as [[[[[ot cond'] acc'] bol'] rest']|] eqn:Es; [|discriminate H].
      destruct (plain_scan atof fp cond' acc' bol' rest') as [[[[ts0 c1] a1] b1]|] eqn:Er; [|discriminate H].
      injection H as Ets -> -> ->.
      assert (Hl10 : last (c0 :: r0) 0 = 10) by (destruct Hl as [Hl | Hl]; [discriminate Hl | exact Hl]).
      assert (Hcut : (cond <= 2 /\ In 10 (c0 :: r0)) \/ (3 <= cond /\ In 34 (c0 :: r0))).
      { destruct (Z_le_gt_dec cond 2) as [Hle | Hgt].
        - left. split; [exact Hle|]. rewrite <- Hl10. apply last_in. discriminate.
        - right. split; [lia|]. apply (plain_scan_quote atof _ _ _ _ _ _ _ _ Hfull); [lia | exact Hb]. }
      destruct (lex_step_plain st tail line _ _ _ _ _ _ _ _ _ Es Hc Hb Ht Hcut Ec Ea)
        as (st1 & text & Erest & Htext & Ebol & Hc' & G1 & G2 & G3 & G4 & G5 & Hstep).
      assert (Hb' : bytes_ok rest') by (rewrite Erest in Hb; exact (bytes_ok_app_r _ _ Hb)).
      assert (Hl' : rest' = [] \/ last rest' 0 = 10).
      { destruct rest' as [|c2 r2]; [left; reflexivity|]. right. rewrite <- Hl10, Erest. symmetry. apply last_app_ne. discriminate. }
      assert (Hlen : (length rest' < length (c0 :: r0))%nat).
      { rewrite Erest, app_length. destruct text; [contradiction | cbn [length]; lia]. }
      destruct fuel as [|fuel1]; [lia|].
      assert (Hf1 : (length (rest' ++ tail) < fuel1)%nat) by (rewrite app_length in *; lia).
      destruct (IH _ _ _ _ _ _ _ Er Hc' Hb' Hl' st1 (line + count_nl text) fuel1 G1 G2 Hf1)
        as (ltoks1 & st' & fuel' & Ebuf & K1 & K2 & K3 & K4 & K5 & K6 & K7).
      assert (Ecnt : line + count_nl text + count_nl rest' = line + count_nl (c0 :: r0)).
      { rewrite Erest, count_nl_app. lia. }
      rewrite Ecnt in Ebuf.
      rewrite lex_buf_S by (cbn [b_rest app]; discriminate).
      destruct ot as [t|].
      + destruct Hstep as (tk & Hstep & Htk). rewrite Hstep, Ebuf. exists (tk :: ltoks1), st', fuel'.
        split; [destruct (lex_buf di fuel' st' (mkBuf tail b0 (line + count_nl (c0 :: r0)))) as [[[t0 s0] st''] l0]; reflexivity|].
        cbn [map]. rewrite Htk, K1. repeat split; auto; congruence.
      + rewrite Hstep, Ebuf. exists ltoks1, st', fuel'. split; [reflexivity|]. rewrite K1. repeat split; auto; congruence.
  Qed.

  Lemma plain_unfold c : plain atof c ->
    bytes_ok c /\ (c = [] \/ last c 0 = 10) /\ exists b0, plain_scan atof (S (length c)) 0 [] true c = Some (plain_toks atof c, 0, [], b0).
  Proof.
    intros (Hb & He & Hl). split; [exact Hb|]. split; [exact Hl|]. unfold plain_end in He. unfold plain_toks.
    destruct (plain_scan atof (S (length c)) 0 [] true c) as [[[[ts sc] a] b0]|]; [|discriminate He].
    injection He as -> ->. exists b0. reflexivity.
  Qed.

  (* 3. the append lemma for a plain text *)
  Theorem append_plain di c tail st line fuel :
    plain atof c -> bytes_ok tail -> l_cond st = 0 -> l_acc st = [] -> (length (c ++ tail) < fuel)%nat ->
    exists ltoks st' fuel',
      lex_buf di fuel st (mkBuf (c ++ tail) true line) =
        (let '(t, s, st'', l) := lex_buf di fuel' st' (mkBuf tail true (line + count_nl c)) in (ltoks ++ t, s, st'', l)) /\
      map lt_tok ltoks = plain_toks atof c /\ l_cond st' = 0 /\ l_acc st' = [] /\ l_names st' = l_names st /\ l_open st' = l_open st /\
      l_files st' = l_files st /\ (length tail < fuel')%nat.
  Proof.
    intros Hp Ht Ec Ea Hf. destruct (plain_unfold c Hp) as (Hb & Hl & b0 & Hs).
    assert (Eb : b0 = true).
    { destruct c as [|c0 r0]; [cbn in Hs; inversion Hs; reflexivity|].
      destruct Hl as [Hl | Hl]; [discriminate Hl|]. apply (plain_scan_bol atof _ _ _ _ _ _ _ _ _ Hs); [discriminate | exact Hl]. }
    subst b0. exact (append_gen di tail Ht _ _ _ _ _ _ _ _ Hs ltac:(lia) Hb Hl st line fuel Ec Ea Hf).
  Qed.

  (* ---- the directive: some steps that return nothing (the opening of the directive, the path), then the closing quote ---- *)
  Fixpoint cont_run (k : nat) (st : lstate) (b : buf) : option (lstate * buf) :=
    match k with
    | O => Some (st, b)
    | S k' =>
        match b_rest b with
        | [] => None
        | _ => match lex_step st b with SCont st' b' => cont_run k' st' b' | _ => None end
        end
    end.

  (* scanning b from st: after some steps that return no token, a directive is accepted; it resolves to [files]
     (the first of which is a file), and [post] is what remains of the buffer *)
  Definition directive (st : lstate) (b : buf) (files : list bytes) (post : bytes) : Prop :=
    exists k stq bq st3 l bolq lb,
      cont_run k st b = Some (stq, bq) /\ b_rest bq <> [] /\ lex_step stq bq = SIncl st3 files l (mkBuf post bolq lb).

  Lemma cont_run_facts : forall k st b stq bq, cont_run k st b = Some (stq, bq) ->
    (length (b_rest bq) <= length (b_rest b))%nat /\ l_names stq = l_names st /\
    forall di f, lex_buf di (k + f) st b = lex_buf di f stq bq.
  Proof.
    induction k as [|k IH]; intros st b stq bq H; cbn [cont_run] in H.
    - injection H as <- <-. auto.
    - destruct (b_rest b) as [|c0 r0] eqn:Er; [discriminate H|].
      assert (Hne : b_rest b <> []) by (rewrite Er; discriminate).
      pose proof (lex_step_shrinks the_tables yy_rule_can_match_eol yy_actions atof FS incdir incf max_depth st b Hne) as Hs.
      pose proof (lex_step_names the_tables yy_rule_can_match_eol yy_actions atof FS incdir incf max_depth st b) as Hn.
      destruct (lex_step st b) as [st' b'| | |] eqn:El; try discriminate H.
      destruct (IH _ _ _ _ H) as (I1 & I2 & I3). rewrite Er in Hs. cbn [length] in *. split; [lia|]. split; [congruence|].
      intros di f. cbn [Nat.add]. rewrite lex_buf_S by exact Hne. rewrite El. apply I3.
  Qed.

  Lemma cont_run_sim : forall k st1 b1 st2 b2 sq1 bq1, sim st1 st2 -> bsim b1 b2 -> cont_run k st1 b1 = Some (sq1, bq1) ->
    exists sq2 bq2, cont_run k st2 b2 = Some (sq2, bq2) /\ sim sq1 sq2 /\ bsim bq1 bq2.
  Proof.
    induction k as [|k IH]; intros st1 b1 st2 b2 sq1 bq1 Hs Hb H; cbn [cont_run] in *.
    - injection H as <- <-. eauto.
    - pose proof Hb as [Hr _]. rewrite <- Hr. destruct (b_rest b1) as [|c0 r0]; [discriminate H|].
      pose proof (lex_step_sim the_tables yy_rule_can_match_eol yy_actions atof FS incdir incf max_depth st1 st2 b1 b2 Hs Hb) as Hst.
      destruct (lex_step st1 b1) as [s1 b1'| | |]; try discriminate H.
      destruct (lex_step st2 b2) as [s2 b2'| | |]; cbn [step_sim] in Hst; try contradiction.
      destruct Hst as [Hs' Hb']. exact (IH _ _ _ _ _ _ Hs' Hb' H).
  Qed.

  (* whether a directive is accepted, and what it resolves to, does not depend on the decorations either *)
  Lemma directive_sim st1 st2 b1 b2 files post : sim st1 st2 -> bsim b1 b2 -> directive st1 b1 files post -> directive st2 b2 files post.
  Proof.
    intros Hs Hb (k & stq & bq & st3 & l & bolq & lb & Hrun & Hne & Hstep).
    destruct (cont_run_sim _ _ _ _ _ _ _ Hs Hb Hrun) as (sq2 & bq2 & Hrun2 & Hs2 & Hb2).
    pose proof (lex_step_sim the_tables yy_rule_can_match_eol yy_actions atof FS incdir incf max_depth stq sq2 bq bq2 Hs2 Hb2) as Hst.
    rewrite Hstep in Hst. destruct (lex_step sq2 bq2) as [| | |s3 fl l2 [r2 bl2 ln2]] eqn:El; cbn [step_sim] in Hst; try contradiction.
    destruct Hst as (_ & <- & Hr & Hbl). cbn [b_rest b_bol] in Hr, Hbl. subst r2 bl2.
    exists k, sq2, bq2, s3, l2, bolq, ln2. split; [exact Hrun2|]. split; [|exact El]. destruct Hb2 as [<- _]. exact Hne.
  Qed.

  (* the included file, scanned in its own buffer *)
  Lemma scan_included d stX c : plain atof c -> l_cond stX = 0 -> l_acc stX = [] ->
    exists ltoks stA lA, lex_depth d stX c = (ltoks, StopEOB, stA, lA) /\ map lt_tok ltoks = plain_toks atof c /\
      l_cond stA = 0 /\ l_acc stA = [] /\ l_names stA = l_names stX.
  Proof.
    intros Hp Ec Ea.
    assert (Hd : exists di', lex_depth d stX c = lex_buf di' (S (length c)) stX (mkBuf c true 1)) by (destruct d; eexists; reflexivity).
    destruct Hd as [di' ->].
    destruct (append_plain di' c [] stX 1 (S (length c)) Hp ltac:(constructor) Ec Ea ltac:(rewrite app_nil_r; lia))
      as (ltoks & stA & fuelA & Ebuf & K1 & K2 & K3 & K4 & _ & _ & K7).
    rewrite app_nil_r in Ebuf. rewrite Ebuf. destruct fuelA as [|fA]; [cbn [length] in K7; lia|].
    cbn [Lexer.lex_buf b_rest b_line]. exists (ltoks ++ []), stA, (1 + count_nl c). rewrite app_nil_r. auto 10.
  Qed.

  (* the frame of the directive: one file *)
  Lemma include_frame d st3 f c l : fs_lookup FS f = Some (FFile c) -> plain atof c -> l_cond st3 = 0 -> l_acc st3 = [] ->
    exists ltoks st5, lex_files (lex_depth d) [f] st3 l = (ltoks, StopEOB, st5) /\ map lt_tok ltoks = plain_toks atof c /\
      l_cond st5 = 0 /\ l_acc st5 = [] /\ l_names st5 = Some f :: tl (l_names st3).
  Proof.
    intros Hf Hp Ec Ea. cbn [Lexer.lex_files]. rewrite Hf.
    destruct (scan_included d (push_open (add_ev (set_name st3 (Some f)) (LvOpen f)) f) c Hp Ec Ea) as (ltoks & stA & lA & -> & K1 & K2 & K3 & K4).
    exists (ltoks ++ []), (add_ev (pop_open stA) (LvClose f)). rewrite app_nil_r. split; [reflexivity|]. split; [exact K1|].
    cbn [add_ev pop_open l_cond l_acc l_names]. rewrite K4. auto.
  Qed.

  Lemma nl_match bol : flex_match the_tables 0 bol [10] = Some (28, 1%nat).
  Proof. destruct bol; vm_compute; reflexivity. Qed.
  Lemma nl_action : Lexer.action_of yy_actions 28 = AIgnore.
  Proof. vm_compute. reflexivity. Qed.

  (* a line feed in INITIAL is skipped, at the beginning of a line or not *)
  Lemma nl_resume di st bol post' line fuel : l_cond st = 0 -> bytes_ok post' -> (S (length post') < fuel)%nat ->
    exists st' line', lex_buf di fuel st (mkBuf (10 :: post') bol line) = lex_buf di (S (length post')) st' (mkBuf post' true line') /\ sim st' st.
  Proof.
    intros Ec Hb Hf.
    assert (Hs : plain_step atof 0 (l_acc st) bol [10] = Some (None, 0, l_acc st, true, [])).
    { unfold plain_step. rewrite nl_match. cbv zeta. rewrite nl_action. reflexivity. }
    destruct (lex_step_plain st post' line 0 (l_acc st) bol [10] None 0 (l_acc st) true [] Hs ltac:(lia)
                ltac:(repeat constructor; lia) Hb ltac:(left; split; [lia | left; reflexivity]) Ec eq_refl)
      as (st' & text & _ & _ & _ & _ & G1 & G2 & G3 & _ & _ & Hstep).
    cbn [app] in Hstep. destruct fuel as [|fuel1]; [lia|]. rewrite lex_buf_S by (cbn [b_rest]; discriminate). rewrite Hstep.
    exists st', (line + count_nl text). split; [|unfold sim; rewrite G1, G2, G3; auto].
    apply lex_buf_fuel; cbn [b_rest length] in *; lia.
  Qed.

  Lemma res4_sim_trans r1 r2 r3 : res4_sim r1 r2 -> res4_sim r2 r3 -> res4_sim r1 r3.
  Proof.
    destruct r1 as [[[k1 p1] s1] l1], r2 as [[[k2 p2] s2] l2], r3 as [[[k3 p3] s3] l3]. cbn [res4_sim].
    intros (A1 & A2 & A3) (B1 & B2 & B3). split; [congruence|]. split; [congruence|]. exact (sim_trans _ _ _ A3 B3).
  Qed.

  (* what follows the directive is scanned alike from states that differ in their decorations only, at the beginning of
     a line or not, provided it is empty or begins with a line feed *)
  Lemma resume_sim d s1 s2 post b1 b2 l1 l2 f1 f2 :
    sim s1 s2 -> l_cond s1 = 0 -> bytes_ok post -> (post = [] \/ exists post', post = 10 :: post') ->
    (length post < f1)%nat -> (length post < f2)%nat ->
    res4_sim (lex_buf (Some (lex_files (lex_depth d))) f1 s1 (mkBuf post b1 l1))
             (lex_buf (Some (lex_files (lex_depth d))) f2 s2 (mkBuf post b2 l2)).
  Proof.
    intros Hs Ec Hb Hpost H1 H2. set (di := Some (lex_files (lex_depth d))).
    destruct Hpost as [-> | [post' ->]].
    - destruct f1 as [|f1]; [cbn [length] in H1; lia|]. destruct f2 as [|f2]; [cbn [length] in H2; lia|].
      cbn [Lexer.lex_buf b_rest res4_sim map]. auto.
    - assert (Hb' : bytes_ok post') by (inversion Hb; assumption).
      assert (Ec2 : l_cond s2 = 0) by (destruct Hs as (E & _); congruence).
      destruct (nl_resume di s1 b1 post' l1 f1 Ec Hb' H1) as (sa & la & -> & Hsa).
      destruct (nl_resume di s2 b2 post' l2 f2 Ec2 Hb' H2) as (sb & lb & -> & Hsb).
      apply (lex_buf_sim the_tables yy_rule_can_match_eol yy_actions atof FS incdir incf max_depth di di (incl_sim_depth _ _ _ _ _ _ _ _ d));
        [|split; reflexivity].
      apply (sim_trans _ _ _ Hsa). apply (sim_trans _ _ _ Hs). apply sim_sym. exact Hsb.
  Qed.

  (* ============================================================================================================== *)
  (* 5. The splice theorem                                                                                          *)
  (* ============================================================================================================== *)
  (* The buffer [dir ++ post] is scanned from the beginning of a line in INITIAL (empty accumulator); [dir] is accepted
     as an include directive that resolves to the single file f, whose content c is plain; the directive is alone on
     its line (post is empty or begins with a line feed).  Then scanning [dir ++ post] and scanning [c ++ post] return
     the same token values, the same stop kind and final states that agree on (start condition, accumulator, file names),
     for every include-depth budget d of the model and all sufficient fuels. *)
  Theorem splice st dir post c f d line fuel1 fuel2 :
    l_cond st = 0 -> l_acc st = [] ->
    directive st (mkBuf (dir ++ post) true line) [f] post ->
    fs_lookup FS f = Some (FFile c) -> plain atof c ->
    (post = [] \/ exists post', post = 10 :: post') -> bytes_ok post ->
    (length (dir ++ post) < fuel1)%nat -> (length (c ++ post) < fuel2)%nat ->
    let '(toks1, stop1, st1, _) := lex_buf (Some (lex_files (lex_depth d))) fuel1 st (mkBuf (dir ++ post) true line) in
    let '(toks2, stop2, st2, _) := lex_buf (Some (lex_files (lex_depth d))) fuel2 st (mkBuf (c ++ post) true line) in
    map lt_tok toks1 = map lt_tok toks2 /\ stop1 = stop2 /\
    l_cond st1 = l_cond st2 /\ l_acc st1 = l_acc st2 /\ l_names st1 = l_names st2.
  Proof.
    intros Ec Ea (k & stq & bq & st3 & l & bolq & lb & Hrun & Hne & Hstep) Hfs Hp Hpost Hbp Hf1 Hf2.
    set (di := Some (lex_files (lex_depth d))).
    (* the run with the directive *)
    destruct (cont_run_facts _ _ _ _ _ Hrun) as (Hlen & Hnames & Hbuf). cbn [b_rest] in Hlen.
    pose proof (lex_step_shrinks the_tables yy_rule_can_match_eol yy_actions atof FS incdir incf max_depth stq bq Hne) as Hsh.
    pose proof (lex_step_names the_tables yy_rule_can_match_eol yy_actions atof FS incdir incf max_depth stq bq) as Hn3.
    rewrite Hstep in Hsh, Hn3. cbn [b_rest] in Hsh. destruct Hn3 as (N1 & N2 & N3).
    rewrite (lex_buf_fuel the_tables yy_rule_can_match_eol yy_actions atof FS incdir incf max_depth di fuel1
               (k + S (length (dir ++ post)))%nat st (mkBuf (dir ++ post) true line) Hf1 ltac:(cbn [b_rest]; lia)).
    rewrite Hbuf, lex_buf_S by exact Hne. rewrite Hstep. unfold di at 1.
    destruct (include_frame d st3 f c l Hfs Hp N2 N3) as (ltoksA & st5 & -> & A1 & A2 & A3 & A4).
    (* the run with the text spliced in *)
    destruct (append_plain di c post st line fuel2 Hp Hbp Ec Ea Hf2) as (ltoksB & stB & fuelB & -> & B1 & B2 & B3 & B4 & _ & _ & B7).
    (* what remains *)
    assert (Hsim : sim (pop_frame st5) stB).
    { unfold sim. cbn [pop_frame l_cond l_acc l_names]. rewrite A2, A3, A4, B2, B3, B4, N1, Hnames. cbn [tl]. auto. }
    pose proof (resume_sim d (pop_frame st5) stB post bolq true lb (line + count_nl c) (length (dir ++ post)) fuelB
                  Hsim A2 Hbp Hpost ltac:(lia) B7) as Hrest. fold di in Hrest.
    destruct (lex_buf di (length (dir ++ post)) (pop_frame st5) (mkBuf post bolq lb)) as [[[ka pa] fa] lna].
    destruct (lex_buf di fuelB stB (mkBuf post true (line + count_nl c))) as [[[kb pb] fb] lnb].
    cbn [res4_sim] in Hrest. destruct Hrest as (R1 & R2 & R3 & R4 & R5).
    rewrite !map_app, A1, B1, R1. auto.
  Qed.
End Splice.

(* ---- the corollary for a whole read: the top-level text is pre ++ dir ++ post, pre is plain ---- *)
Theorem splice_top : forall atof FS cfg top pre dir post c f,
  plain atof pre -> plain atof c -> bytes_ok dir -> bytes_ok post -> (post = [] \/ exists post', post = 10 :: post') ->
  directive atof FS (c_incdir cfg) (c_incfn cfg) MAX_INCLUDE_DEPTH (lstate0 top) (mkBuf (dir ++ post) true 1) [f] post ->
  fs_lookup FS f = Some (FFile c) ->
  let '(toks1, stop1) := lex_top atof FS cfg top (pre ++ dir ++ post) in
  let '(toks2, stop2) := lex_top atof FS cfg top (pre ++ c ++ post) in
  map lt_tok toks1 = map lt_tok toks2 /\ stop1 = stop2.
Proof.
  intros atof FS cfg top pre dir post c f Hpre Hc Hbd Hbp Epost Hdir Hfs.
  unfold lex_top. change Reader.the_tables with ScannerCert.the_tables. rewrite Nat.add_1_r. cbn [lex_depth].
  set (N := Z.to_nat MAX_INCLUDE_DEPTH).
  set (di := Some (lex_files FS (lex_depth the_tables yy_rule_can_match_eol yy_actions atof FS (c_incdir cfg) (c_incfn cfg) MAX_INCLUDE_DEPTH N))).
  assert (Hbc : bytes_ok c) by apply Hc.
  destruct (append_plain atof FS (c_incdir cfg) (c_incfn cfg) MAX_INCLUDE_DEPTH di pre (dir ++ post) (lstate0 top) 1
              (S (length (pre ++ dir ++ post))) Hpre (bytes_ok_app _ _ Hbd Hbp) eq_refl eq_refl ltac:(lia))
    as (lt1 & s1 & f1 & -> & A1 & A2 & A3 & A4 & _ & _ & A7).
  destruct (append_plain atof FS (c_incdir cfg) (c_incfn cfg) MAX_INCLUDE_DEPTH di pre (c ++ post) (lstate0 top) 1
              (S (length (pre ++ c ++ post))) Hpre (bytes_ok_app _ _ Hbc Hbp) eq_refl eq_refl ltac:(lia))
    as (lt2 & s2 & f2 & -> & B1 & B2 & B3 & B4 & _ & _ & B7).
  assert (Hs1 : sim (lstate0 top) s1) by (unfold sim; rewrite A2, A3, A4; auto).
  assert (Hs12 : sim s1 s2) by (unfold sim; rewrite A2, A3, A4, B2, B3, B4; auto).
  pose proof (directive_sim atof FS (c_incdir cfg) (c_incfn cfg) MAX_INCLUDE_DEPTH _ _ (mkBuf (dir ++ post) true 1) (mkBuf (dir ++ post) true (1 + count_nl pre)) _ _
                Hs1 ltac:(split; reflexivity) Hdir) as Hdir1.
  pose proof (splice atof FS (c_incdir cfg) (c_incfn cfg) MAX_INCLUDE_DEPTH s1 dir post c f N (1 + count_nl pre) f1 f2
                A2 A3 Hdir1 Hfs Hc Epost Hbp A7 B7) as Hsp.
  pose proof (lex_buf_sim the_tables yy_rule_can_match_eol yy_actions atof FS (c_incdir cfg) (c_incfn cfg) MAX_INCLUDE_DEPTH di di
                (incl_sim_depth _ _ _ _ _ _ _ _ N) f2 s1 s2 (mkBuf (c ++ post) true (1 + count_nl pre)) (mkBuf (c ++ post) true (1 + count_nl pre))
                Hs12 ltac:(split; reflexivity)) as Hmv.
  fold di in Hsp.
  destruct (lex_buf the_tables yy_rule_can_match_eol yy_actions atof FS (c_incdir cfg) (c_incfn cfg) MAX_INCLUDE_DEPTH di f1 s1
              (mkBuf (dir ++ post) true (1 + count_nl pre))) as [[[k1 p1] e1] l1].
  destruct (lex_buf the_tables yy_rule_can_match_eol yy_actions atof FS (c_incdir cfg) (c_incfn cfg) MAX_INCLUDE_DEPTH di f2 s1
              (mkBuf (c ++ post) true (1 + count_nl pre))) as [[[k2 p2] e2] l2].
  destruct (lex_buf the_tables yy_rule_can_match_eol yy_actions atof FS (c_incdir cfg) (c_incfn cfg) MAX_INCLUDE_DEPTH di f2 s2
              (mkBuf (c ++ post) true (1 + count_nl pre))) as [[[k3 p3] e3] l3].
  destruct Hsp as (S1 & S2 & _). cbn [res4_sim] in Hmv. destruct Hmv as (M1 & M2 & _). subst p2 p3.
  destruct p1; unfold emit; cbn [map]; rewrite ?map_app, A1, B1, S1, M1; auto.
Qed.

(* ================================================================================================================ *)
(* 6. An example                                                                                                     *)
(* ================================================================================================================ *)
(* the included file:   s = "a<LF>b"; # k<LF>n = 42;<LF>     (a string with a line feed inside, a comment, a number) *)
Definition ex_c : bytes := [115; 32; 61; 32; 34; 97; 10; 98; 34; 59; 32; 35; 32; 107; 10; 110; 32; 61; 32; 52; 50; 59; 10].
Definition ex_pre : bytes := [120; 32; 61; 32; 49; 59; 10].          (* x = 1;<LF> *)
Definition ex_dir : bytes := [64; 105; 110; 99; 108; 117; 100; 101; 32; 34; 102; 34].   (* @include "f" *)
Definition ex_post : bytes := [10; 121; 32; 61; 32; 50; 59; 10].     (* <LF>y = 2;<LF> *)
Definition ex_fs : fs := [([102], FFile ex_c)].
Definition ex_atof : bytes -> Z := fun _ => 0.

Definition bytes_okb (l : bytes) : bool := forallb (fun b => (0 <=? b) && (b <? 256)) l.
Lemma bytes_okb_sound l : bytes_okb l = true -> bytes_ok l.
Proof.
  unfold bytes_okb, bytes_ok. intros H. rewrite forallb_forall in H. apply Forall_forall. intros b Hb.
  specialize (H b Hb). apply andb_true_iff in H as [H1 H2]. apply Z.leb_le in H1. apply Z.ltb_lt in H2. lia.
Qed.

(* the hypothesis on an included text as one boolean *)
Definition plainb (atof : bytes -> Z) (c : bytes) : bool :=
  bytes_okb c && match plain_end atof c with Some (0, []) => true | _ => false end &&
  match c with [] => true | _ => last c 0 =? 10 end.
Lemma plainb_sound atof c : plainb atof c = true -> plain atof c.
Proof.
  unfold plainb, plain. intros H. apply andb_true_iff in H as [H H3]. apply andb_true_iff in H as [H1 H2].
  split; [apply bytes_okb_sound; exact H1|]. split.
  - destruct (plain_end atof c) as [[sc a]|]; [|discriminate H2]. destruct sc; try discriminate H2. destruct a; [reflexivity | discriminate H2].
  - destruct c as [|c0 r0]; [left; reflexivity|]. right. apply Z.eqb_eq. exact H3.
Qed.

Example ex_c_plain : plain ex_atof ex_c.
Proof. apply plainb_sound. vm_compute. reflexivity. Qed.
Example ex_pre_plain : plain ex_atof ex_pre.
Proof. apply plainb_sound. vm_compute. reflexivity. Qed.

(* the directive is accepted after two steps that return nothing (the opening up to the quote, the path) *)
Example ex_directive :
  directive ex_atof ex_fs (c_incdir cfg_init) (c_incfn cfg_init) MAX_INCLUDE_DEPTH (lstate0 None) (mkBuf (ex_dir ++ ex_post) true 1) [[102]] ex_post.
Proof.
  unfold directive. exists 2%nat. do 6 eexists. split; [lazy; reflexivity|]. split; [lazy; discriminate|]. lazy. reflexivity.
Qed.

(* both sides compute to the same token values *)
Example ex_tokens :
  (let '(t, s) := lex_top ex_atof ex_fs cfg_init None (ex_pre ++ ex_dir ++ ex_post) in (map lt_tok t, s)) =
    ([TkName [120]; TkP TEquals; TkInt 1; TkP TSemicolon;
      TkName [115]; TkP TEquals; TkString [97; 10; 98]; TkP TSemicolon; TkName [110]; TkP TEquals; TkInt 42; TkP TSemicolon;
      TkName [121]; TkP TEquals; TkInt 2; TkP TSemicolon; TkEOF], StopEOB) /\
  (let '(t, s) := lex_top ex_atof ex_fs cfg_init None (ex_pre ++ ex_c ++ ex_post) in (map lt_tok t, s)) =
    ([TkName [120]; TkP TEquals; TkInt 1; TkP TSemicolon;
      TkName [115]; TkP TEquals; TkString [97; 10; 98]; TkP TSemicolon; TkName [110]; TkP TEquals; TkInt 42; TkP TSemicolon;
      TkName [121]; TkP TEquals; TkInt 2; TkP TSemicolon; TkEOF], StopEOB) /\
  plain_toks ex_atof ex_c = [TkName [115]; TkP TEquals; TkString [97; 10; 98]; TkP TSemicolon; TkName [110]; TkP TEquals; TkInt 42; TkP TSemicolon].
Proof. vm_compute. auto. Qed.

(* ... and the theorem applies to them *)
Example ex_splice :
  let '(toks1, stop1) := lex_top ex_atof ex_fs cfg_init None (ex_pre ++ ex_dir ++ ex_post) in
  let '(toks2, stop2) := lex_top ex_atof ex_fs cfg_init None (ex_pre ++ ex_c ++ ex_post) in
  map lt_tok toks1 = map lt_tok toks2 /\ stop1 = stop2.
Proof.
  apply (splice_top ex_atof ex_fs cfg_init None ex_pre ex_dir ex_post ex_c [102] ex_pre_plain ex_c_plain);
    try (apply bytes_okb_sound; vm_compute; reflexivity); [right; eexists; reflexivity | exact ex_directive | reflexivity].
Qed.

Print Assumptions cut_nl.
Print Assumptions cut_quote.
Print Assumptions leave_quote.
Print Assumptions lex_buf_fuel.
Print Assumptions lex_buf_sim.
Print Assumptions lex_files_sim.
Print Assumptions lex_depth_sim.
Print Assumptions plain_end_acc.
Print Assumptions append_plain.
Print Assumptions splice.
Print Assumptions splice_top.
Print Assumptions ex_splice.
