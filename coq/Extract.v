(* Extract.v — extraction of the executable model (ExtrOcamlBasic only). *)
From Coq Require Extraction.
From Coq Require Import ExtrOcamlBasic.
From LC Require Import Run MemModel.
Extraction Language OCaml.
Extraction "model.ml" Run.run_script MemModel.run_mem_script.
