(* InvFacts.v — the tree invariant is preserved by every API operation (lemmas behind C04). *)
From Coq Require Import List ZArith Bool Lia.
Import ListNotations.
From LC Require Import Base Tree Fp Lookup Api ApiStep TreeFacts ApiFacts Inv.
Local Open Scope Z_scope.

(* ---- unfolding wf ---- *)
Lemma wf_unfold s : wf s = forallb wf (s_kids s) && kids_ok (s_pl s) (s_kids s).
Proof.
  destruct s as [n pl kids f h l fi]. reflexivity.
Qed.

Lemma wf_kids s : wf s = true -> forallb wf (s_kids s) = true /\ kids_ok (s_pl s) (s_kids s) = true.
Proof. rewrite wf_unfold. intros H. apply andb_true_iff in H. exact H. Qed.

Lemma wf_intro s : forallb wf (s_kids s) = true -> kids_ok (s_pl s) (s_kids s) = true -> wf s = true.
Proof. intros H1 H2. rewrite wf_unfold, H1, H2. reflexivity. Qed.

Lemma wf_new_setting n t : wf (new_setting n t) = true.
Proof. destruct t; reflexivity. Qed.

Lemma forallb_nth {A} (p : A -> bool) l i x :
  forallb p l = true -> nth_error l i = Some x -> p x = true.
Proof.
  revert i; induction l as [|y r IH]; intros [|i]; simpl; try discriminate.
  - intros H [= <-]. apply andb_true_iff in H. tauto.
  - intros H. apply andb_true_iff in H. apply IH. tauto.
Qed.

Lemma wf_get_at p r s : wf r = true -> get_at p r = Some s -> wf s = true.
Proof.
  revert r; induction p as [|i p IH]; intros r Hw; simpl.
  - intros [= <-]. assumption.
  - destruct (nth_error (s_kids r) i) as [c|] eqn:E; try discriminate.
    apply IH. apply wf_kids in Hw as [Hk _]. eapply forallb_nth; eauto.
Qed.

(* scalars and NONE have no children in a well-formed tree *)
Lemma wf_leaf s : wf s = true -> ty_is_aggregate (s_ty s) = false -> s_kids s = [].
Proof.
  intros Hw Ha. apply wf_kids in Hw as [_ Hk]. unfold kids_ok in Hk.
  apply andb_true_iff in Hk as [Hk _]. unfold s_ty in Ha.
  destruct (s_kids s) as [|k r]; auto. simpl in Hk.
  destruct (s_pl s); simpl in *; try discriminate.
Qed.

(* ---- replacing a child by a compatible one ---- *)
Definition kid_compat (k k' : setting) : Prop :=
  s_name k' = s_name k /\ (s_ty k' = s_ty k \/ s_ty k = TNone).

Lemma map_list_upd_same {A B} (g : A -> B) i (x' : A) l x :
  nth_error l i = Some x -> g x' = g x -> map g (list_upd i (fun _ => x') l) = map g l.
Proof.
  revert i; induction l as [|y r IH]; intros [|i]; simpl; try discriminate.
  - intros [= ->] ->. reflexivity.
  - intros Hn Hg. f_equal. eauto.
Qed.

Lemma forallb_list_upd {A} (p : A -> bool) i (x' : A) l :
  forallb p l = true -> p x' = true -> forallb p (list_upd i (fun _ => x') l) = true.
Proof.
  revert i; induction l as [|y r IH]; intros [|i]; simpl; auto.
  - intros H Hx. apply andb_true_iff in H as [_ H]. rewrite Hx, H. reflexivity.
  - intros H Hx. apply andb_true_iff in H as [Hy H]. rewrite Hy. simpl. auto.
Qed.

Lemma kids_ok_replace pl kids i k k' :
  kids_ok pl kids = true -> nth_error kids i = Some k -> kid_compat k k' ->
  kids_ok pl (list_upd i (fun _ => k') kids) = true.
Proof.
  intros Hk Hn [Hname Hty]. unfold kids_ok in *.
  apply andb_true_iff in Hk as [Hall Hrest].
  assert (Hkk : kid_ok pl k = true) by (eapply forallb_nth; eauto).
  assert (Hk' : kid_ok pl k' = true).
  { unfold kid_ok in *. rewrite Hname. destruct pl; auto.
    destruct Hty as [-> | Hnone]; auto.
    rewrite Hnone in Hkk. rewrite andb_comm in Hkk. discriminate. }
  rewrite forallb_list_upd by assumption. simpl.
  destruct pl; auto.
  - rewrite (map_list_upd_same s_name _ _ _ _ Hn Hname). assumption.
  - destruct Hty as [Hty | Hnone].
    + rewrite (map_list_upd_same s_ty _ _ _ _ Hn Hty). assumption.
    + unfold kid_ok in Hkk. rewrite Hnone in Hkk. rewrite andb_comm in Hkk. discriminate.
Qed.

Lemma upd_at_compat p f c s :
  get_at p c = Some s -> kid_compat s (f s) -> kid_compat c (upd_at p f c).
Proof.
  destruct p as [|i p]; simpl.
  - intros [= ->]. auto.
  - intros _ _. unfold kid_compat, s_ty. destruct c; simpl. auto.
Qed.

Lemma wf_upd_at p f r s :
  wf r = true -> get_at p r = Some s -> wf (f s) = true -> kid_compat s (f s) ->
  wf (upd_at p f r) = true.
Proof.
  revert r; induction p as [|i p IH]; intros r Hw; simpl.
  - intros [= ->]. auto.
  - destruct (nth_error (s_kids r) i) as [c|] eqn:E; try discriminate.
    intros Hg Hws Hc.
    pose proof (wf_kids _ Hw) as [Hall Hk].
    assert (Hwc : wf c = true) by (eapply forallb_nth; eauto).
    specialize (IH c Hwc Hg Hws Hc).
    apply wf_intro; rewrite s_kids_set_kids.
    + clear -Hall IH E. revert i E; induction (s_kids r) as [|y l IHl]; intros [|i]; simpl in *; try discriminate.
      * intros [= ->]. apply andb_true_iff in Hall as [_ H]. rewrite IH, H. reflexivity.
      * intros E. apply andb_true_iff in Hall as [Hy H]. rewrite Hy. simpl. eauto.
    + rewrite s_pl_set_kids.
      assert (Heq : list_upd i (upd_at p f) (s_kids r) = list_upd i (fun _ => upd_at p f c) (s_kids r)).
      { clear -E. revert i E; induction (s_kids r) as [|y l IHl]; intros [|i]; simpl; try discriminate.
        - intros [= ->]. reflexivity.
        - intros E. f_equal. auto. }
      rewrite Heq. eapply kids_ok_replace; eauto. eapply upd_at_compat; eauto.
Qed.

Lemma root_ok_upd_at p f r s :
  root_ok r = true -> get_at p r = Some s -> s_name (f s) = s_name s -> s_ty (f s) = s_ty s ->
  root_ok (upd_at p f r) = true.
Proof.
  destruct p as [|i p]; simpl.
  - intros Hr [= ->] Hn Ht. unfold root_ok in *. rewrite Hn, Ht. assumption.
  - intros Hr _ _ _. unfold root_ok, s_ty in *. destruct r; simpl in *. assumption.
Qed.

(* ---- sublists ---- *)
Lemma forallb_list_del {A} (p : A -> bool) i l :
  forallb p l = true -> forallb p (list_del i l) = true.
Proof.
  revert i; induction l as [|y r IH]; intros [|i]; simpl; auto.
  - intros H. apply andb_true_iff in H. tauto.
  - intros H. apply andb_true_iff in H as [Hy H]. rewrite Hy. simpl. auto.
Qed.

Lemma map_list_del {A B} (g : A -> B) i l : map g (list_del i l) = list_del i (map g l).
Proof. revert i; induction l as [|y r IH]; intros [|i]; simpl; auto. f_equal. auto. Qed.

Lemma existsb_list_del {A} (p : A -> bool) i l :
  existsb p l = false -> existsb p (list_del i l) = false.
Proof.
  revert i; induction l as [|y r IH]; intros [|i]; simpl; auto.
  - intros H. apply orb_false_iff in H. tauto.
  - intros H. apply orb_false_iff in H as [Hy H]. rewrite Hy. simpl. auto.
Qed.

Lemma nodup_names_del i l : nodup_names l = true -> nodup_names (list_del i l) = true.
Proof.
  revert i; induction l as [|y r IH]; intros [|i]; simpl; auto.
  - intros H. apply andb_true_iff in H. tauto.
  - intros H. apply andb_true_iff in H as [Hy H]. apply negb_true_iff in Hy.
    rewrite (existsb_list_del _ _ _ Hy). simpl. auto.
Qed.

Lemma same_type_del i l : same_type l = true -> same_type (list_del i l) = true.
Proof.
  destruct l as [|t0 r]; [destruct i; auto|].
  destruct i as [|i]; simpl.
  - destruct r as [|t1 r]; auto. simpl. intros H. apply andb_true_iff in H as [H1 H].
    unfold ty_eqb in *. apply Z.eqb_eq in H1.
    clear -H H1. induction r as [|x r IH]; simpl in *; auto.
    apply andb_true_iff in H as [Hx H]. rewrite H1. rewrite Hx. simpl. auto.
  - intros H. apply forallb_list_del. assumption.
Qed.

Lemma kids_ok_del pl kids i :
  kids_ok pl kids = true -> kids_ok pl (list_del i kids) = true.
Proof.
  unfold kids_ok. intros H. apply andb_true_iff in H as [Hall Hrest].
  rewrite forallb_list_del by assumption. simpl.
  destruct pl; auto; rewrite map_list_del.
  - apply nodup_names_del; assumption.
  - apply same_type_del; assumption.
Qed.

Lemma wf_del s i : wf s = true -> wf (set_kids s (list_del i (s_kids s))) = true.
Proof.
  intros Hw. apply wf_kids in Hw as [Hall Hk].
  apply wf_intro; rewrite s_kids_set_kids.
  - apply forallb_list_del; assumption.
  - rewrite s_pl_set_kids. apply kids_ok_del; assumption.
Qed.

(* ---- appending ---- *)
Lemma forallb_app1 {A} (p : A -> bool) l x :
  forallb p l = true -> p x = true -> forallb p (l ++ [x]) = true.
Proof. intros H Hx. rewrite forallb_app, H. simpl. rewrite Hx. reflexivity. Qed.

Lemma bytes_eqb_sym a b : bytes_eqb a b = bytes_eqb b a.
Proof.
  revert b; induction a as [|x a IH]; intros [|y b]; simpl; auto.
  rewrite Z.eqb_sym, IH. reflexivity.
Qed.

Lemma obytes_eqb_sym a b : obytes_eqb a b = obytes_eqb b a.
Proof. destruct a, b; simpl; auto using bytes_eqb_sym. Qed.

Lemma nodup_names_app1 l x :
  nodup_names l = true -> existsb (obytes_eqb x) l = false -> nodup_names (l ++ [x]) = true.
Proof.
  induction l as [|y r IH]; simpl; auto.
  intros H Hx. apply andb_true_iff in H as [Hy H]. apply orb_false_iff in Hx as [Hxy Hx].
  rewrite IH by assumption. rewrite existsb_app. apply negb_true_iff in Hy. rewrite Hy. simpl.
  rewrite obytes_eqb_sym, Hxy. reflexivity.
Qed.

Lemma bytes_eqb_refl a : bytes_eqb a a = true.
Proof. induction a as [|x a IH]; simpl; auto. rewrite Z.eqb_refl. assumption. Qed.

Lemma bytes_eqb_eq a b : bytes_eqb a b = true -> a = b.
Proof.
  revert b; induction a as [|x a IH]; intros [|y b]; simpl; try discriminate; auto.
  intros H. apply andb_true_iff in H as [H1 H2]. apply Z.eqb_eq in H1. f_equal; auto.
Qed.

(* a name that list_search does not find is not among the children's names *)
Lemma list_search_none kids n :
  list_search kids n = None -> existsb (obytes_eqb (Some n)) (map s_name kids) = false.
Proof.
  unfold list_search. induction kids as [|k r IH]; simpl; auto.
  unfold name_is at 1. destruct (s_name k) as [m|] eqn:E; simpl.
  - destruct (bytes_eqb m n) eqn:B.
    + discriminate.
    + destruct (find_index (name_is n) r); try discriminate. intros _.
      rewrite bytes_eqb_sym, B. simpl. apply IH. reflexivity.
  - destruct (find_index (name_is n) r); try discriminate. intros _. apply IH. reflexivity.
Qed.

Lemma same_type_app1 l t :
  same_type l = true -> (match l with [] => True | t0 :: _ => ty_eqb t t0 = true end) ->
  same_type (l ++ [t]) = true.
Proof.
  destruct l as [|t0 r]; simpl; auto.
  intros H Ht. rewrite forallb_app, H. simpl. rewrite Ht. reflexivity.
Qed.

(* after deleting the first member named n from a duplicate-free list, n is gone *)
Lemma nodup_del_found kids n j :
  nodup_names (map s_name kids) = true -> list_search kids n = Some j ->
  existsb (obytes_eqb (Some n)) (map s_name (list_del j kids)) = false.
Proof.
  unfold list_search. revert j; induction kids as [|k r IH]; simpl; try discriminate.
  intros j Hnd. apply andb_true_iff in Hnd as [Hk Hnd]. apply negb_true_iff in Hk.
  unfold name_is at 1. destruct (s_name k) as [m|] eqn:E.
  - destruct (bytes_eqb m n) eqn:B.
    + intros [= <-]. apply bytes_eqb_eq in B. subst m. exact Hk.
    + destruct (find_index (name_is n) r) as [j'|] eqn:F; try discriminate.
      intros [= <-]. simpl. rewrite E. simpl.
      rewrite bytes_eqb_sym, B. simpl. apply IH; auto.
  - destruct (find_index (name_is n) r) as [j'|] eqn:F; try discriminate.
    intros [= <-]. simpl. rewrite E. simpl. apply IH; auto.
Qed.

(* ------------------------------------------------------------------------------------ *)
(* node-level preservation *)

Lemma setter_wf c k v s s' :
  wf s = true -> setter c k v s = SOk s' -> wf s' = true /\ kid_compat s s'.
Proof.
  intros Hw Hs.
  assert (Hpl : exists pl, s' = set_pl s pl /\ ty_is_aggregate (ty_of pl) = false /\
                           ty_is_aggregate (s_ty s) = false /\ (ty_of pl = s_ty s \/ s_ty s = TNone)).
  { destruct k; simpl in Hs;
      unfold n_set_int, n_set_int64, n_set_float, n_set_bool, n_set_string, s_ty in *;
      repeat destr_match; try discriminate; inv Hs; eexists; (split; [reflexivity|]); simpl; auto. }
  destruct Hpl as (pl & -> & Ha & Ha' & Hty).
  pose proof (wf_leaf _ Hw Ha') as Hk.
  split.
  - apply wf_intro; rewrite s_kids_set_pl, Hk; auto.
    rewrite s_pl_set_pl. destruct pl; try discriminate; reflexivity.
  - split; [apply s_name_set_pl|]. unfold s_ty at 1. rewrite s_pl_set_pl. assumption.
Qed.

Lemma wf_set_fmt s f : wf (set_fmt s f) = wf s.
Proof. destruct s; reflexivity. Qed.
Lemma wf_set_hook s h : wf (set_hook s h) = wf s.
Proof. destruct s; reflexivity. Qed.

Lemma kid_compat_refl_fields s s' :
  s_name s' = s_name s -> s_pl s' = s_pl s -> kid_compat s s'.
Proof. intros Hn Hp. split; auto. left. unfold s_ty. rewrite Hp. reflexivity. Qed.

(* add: the contract (a NULL name only below arrays and lists) *)
Definition add_in_contract (s : setting) (name : option bytes) : Prop :=
  s_ty s = TGroup -> name <> None.

Lemma ty_eqb_eq a b : ty_eqb a b = true -> a = b.
Proof. destruct a, b; simpl; try discriminate; auto. Qed.

Lemma n_add_wf ov s name tcode s' i victim :
  wf s = true -> add_in_contract s name ->
  n_add ov s name tcode = Some (s', i, victim) ->
  wf s' = true /\ s_name s' = s_name s /\ s_pl s' = s_pl s.
Proof.
  intros Hw Hc Ha.
  pose proof Ha as Ha0.
  destruct (n_add_spec _ _ _ _ _ _ _ Ha) as (t & Ht & Hi & Hv). cbn zeta in *.
  pose proof (wf_kids _ Hw) as [Hall Hk].
  (* facts from the guards of n_add *)
  unfold n_add in Ha0. rewrite Ht in Ha0.
  destruct (ty_eqb (s_ty s) TArray && negb (ty_is_scalar t)) eqn:Harr; try discriminate.
  destruct (ty_eqb (s_ty s) TArray && negb (checktype s t)) eqn:Hct; try discriminate.
  fold (eff_name s name) in Ha0.
  destruct (negb match eff_name s name with Some n => validate_name n | None => true end) eqn:Hval;
    try discriminate.
  apply negb_false_iff in Hval. clear Ha0.
  assert (Hnew : kid_ok (s_pl s) (new_setting (eff_name s name) t) = true /\
                 ty_is_aggregate (s_ty s) = true).
  { destruct victim as [v|].
    - destruct Hv as (_ & j & Hm & _ & _).
      destruct (get_member_some_group _ _ _ Hm) as (Hty & n & Hn & _).
      unfold s_ty in Hty. unfold kid_ok, s_ty. destruct (s_pl s); try discriminate.
      simpl. rewrite Hn in *. simpl. auto.
    - destruct Hv as (_ & ->).
      (* creation succeeded, so s is an aggregate *)
      unfold n_add in Ha. rewrite Ht, Harr, Hct in Ha. fold (eff_name s name) in Ha.
      rewrite (proj2 (negb_false_iff _) Hval) in Ha.
      assert (Hagg : ty_is_aggregate (s_ty s) = true).
      { destruct (get_member s (eff_name s name)); [destruct ov; try discriminate;
          destruct (eff_name s name); try discriminate;
          destruct (n_remove s b) as [[? ?]|]|];
        unfold n_create in Ha; destruct (ty_is_aggregate (s_ty s)); try discriminate; auto;
        destruct (ty_is_aggregate (s_ty s0)); discriminate. }
      split; [|assumption].
      unfold kid_ok, eff_name in *. unfold s_ty in *.
      destruct (s_pl s) eqn:Epl; simpl in *; try discriminate.
      + destruct name as [n|]; [assumption|]. exfalso. apply Hc; [unfold s_ty; rewrite Epl; reflexivity | reflexivity].
      + destruct t; simpl in *; try discriminate; reflexivity.
      + reflexivity. }
  destruct Hnew as [Hnew Hagg].
  destruct victim as [v|].
  - destruct Hv as (_ & j & Hm & Hn & ->).
    destruct (get_member_some_group _ _ _ Hm) as (Hty & n & Hnm & Hs).
    split; [|destruct s; auto].
    apply wf_intro; rewrite s_kids_set_kids.
    + apply forallb_app1; [apply forallb_list_del; assumption | apply wf_new_setting].
    + rewrite s_pl_set_kids. unfold s_ty in Hty. unfold kids_ok in *.
      destruct (s_pl s); try discriminate.
      apply andb_true_iff in Hk as [Hk1 Hk2].
      rewrite forallb_app1; auto using forallb_list_del. simpl.
      rewrite map_app. simpl. apply nodup_names_app1.
      * rewrite map_list_del. apply nodup_names_del. assumption.
      * rewrite Hnm. apply nodup_del_found; assumption.
  - destruct Hv as (Hm & ->).
    split; [|destruct s; auto].
    apply wf_intro; rewrite s_kids_set_kids.
    + apply forallb_app1; auto using wf_new_setting.
    + rewrite s_pl_set_kids. unfold kids_ok in *.
      apply andb_true_iff in Hk as [Hk1 Hk2].
      rewrite forallb_app1 by assumption. simpl.
      unfold s_ty in *. destruct (s_pl s) eqn:Epl; simpl in *; try discriminate; auto.
      * (* group: the name is new *)
        rewrite map_app. simpl. apply nodup_names_app1; auto.
        unfold eff_name in *. unfold s_ty in *. rewrite Epl in *. simpl in *.
        destruct name as [n|]; [|exfalso; apply Hc; [unfold s_ty; rewrite Epl; reflexivity | reflexivity]].
        unfold get_member, s_ty in Hm. rewrite Epl in Hm. simpl in Hm.
        apply list_search_none. assumption.
      * (* array: element type must agree with element 0 *)
        rewrite map_app. simpl. apply same_type_app1; auto.
        apply negb_false_iff in Hct. unfold checktype in Hct.
        destruct (s_kids s) as [|k0 ks] eqn:Eks; simpl; auto.
        unfold s_ty in Hct. rewrite Epl in Hct.
        apply ty_eqb_eq in Hct. subst t. destruct (s_pl k0); reflexivity.
Qed.

Lemma sk_ty_scalar k : ty_is_scalar (sk_ty k) = true.
Proof. destruct k; reflexivity. Qed.

Lemma s_ty_new_setting n t : s_ty (new_setting n t) = t.
Proof. destruct t; reflexivity. Qed.

Lemma n_set_elem_wf c k v agg idx s' i :
  wf agg = true -> n_set_elem (sk_ty k) (setter c k v) agg idx = EOk s' i ->
  wf s' = true /\ s_name s' = s_name agg /\ s_pl s' = s_pl agg.
Proof.
  intros Hw He.
  assert (Hagg : s_pl agg = PArray \/ s_pl agg = PList).
  { unfold n_set_elem, s_ty in He. destruct (s_pl agg); try discriminate; auto. }
  pose proof (wf_kids _ Hw) as [Hall Hk].
  destruct (n_set_elem_spec _ _ _ _ _ _ He) as
    [(Hneg & Hct & Hi & e & Hst & ->) | (Hpos & Hi & e & e' & Hn & Hst & ->)].
  - (* append *)
    destruct (setter_wf _ _ _ _ _ (wf_new_setting None (sk_ty k)) Hst) as [Hwe [Hname Hty]].
    rewrite s_ty_new_setting in Hty. simpl in Hname.
    assert (Hte : s_ty e = sk_ty k) by (destruct Hty as [H|H]; auto; destruct k; discriminate).
    split; [|destruct agg; auto].
    apply wf_intro; rewrite s_kids_set_kids.
    + apply forallb_app1; assumption.
    + rewrite s_pl_set_kids. unfold kids_ok in *. apply andb_true_iff in Hk as [Hk1 Hk2].
      destruct Hagg as [Hp|Hp]; rewrite Hp in *.
      * rewrite forallb_app1; auto.
        2:{ unfold kid_ok. rewrite Hname, Hte, sk_ty_scalar. reflexivity. }
        simpl. rewrite map_app. simpl. apply same_type_app1; auto.
        unfold checktype in Hct. destruct (s_kids agg) as [|k0 ks]; simpl; auto.
        unfold s_ty in Hct at 1. rewrite Hp in Hct. simpl in Hct.
        apply ty_eqb_eq in Hct. rewrite Hte, <- Hct. unfold ty_eqb. apply Z.eqb_refl.
      * rewrite forallb_app1; auto. unfold kid_ok. rewrite Hname. reflexivity.
  - (* in place *)
    assert (Hwe : wf e = true) by (eapply forallb_nth; eauto).
    destruct (setter_wf _ _ _ _ _ Hwe Hst) as [Hwe' Hcompat].
    split; [|destruct agg; auto].
    apply wf_intro; rewrite s_kids_set_kids.
    + apply forallb_list_upd; assumption.
    + rewrite s_pl_set_kids. eapply kids_ok_replace; eauto.
Qed.

(* ------------------------------------------------------------------------------------ *)
(* step-level preservation *)

Lemma inv_upd c p s s' :
  Inv c -> get_at p (c_root c) = Some s -> wf s' = true -> kid_compat s s' ->
  Inv (set_root c (upd_at p (fun _ => s') (c_root c))).
Proof.
  intros [Hw Hr] Hg Hw' Hc. split; cbn [c_root set_root].
  - eapply wf_upd_at; eauto.
  - destruct p as [|i p]; simpl in *.
    + inv Hg. unfold root_ok in *. destruct Hc as [Hn Ht]. rewrite Hn.
      apply andb_true_iff in Hr as [Hr1 Hr2]. rewrite Hr1. simpl.
      apply ty_eqb_eq in Hr2. destruct Ht as [Ht|Ht]; [rewrite Ht, Hr2; reflexivity|congruence].
    + unfold root_ok, s_ty in *. destruct (c_root c); simpl in *. assumption.
Qed.

Lemma inv_new_root c : Inv (set_files (set_root c new_root) []).
Proof. split; reflexivity. Qed.

Definition in_contract (c : cfg) (o : aop) : Prop :=
  match o with
  | OAdd p name _ => forall s, get_at p (c_root c) = Some s -> add_in_contract s name
  | _ => True
  end.

Lemma Inv_attr_irrelevant c c' : c_root c' = c_root c -> Inv c -> Inv c'.
Proof. unfold Inv. intros ->. auto. Qed.

Theorem step_inv c o : Inv c -> in_contract c o -> Inv (step_cfg c o).
Proof.
  intros HI Hc. unfold step_cfg.
  destruct (is_tree_op o) eqn:Ht.
  2:{ destruct (api_step c o) as [[c' r] ev] eqn:E. simpl.
      destruct (other_ops_keep_tree _ _ _ _ _ E Ht) as [Hroot _].
      eapply Inv_attr_irrelevant; eauto. }
  destruct o; simpl in Ht; try discriminate; simpl.
  - (* OInit *) split; reflexivity.
  - (* OClear *) apply inv_new_root.
  - (* ODestroy *) split; reflexivity.
  - (* OHook *)
    unfold at_node. destruct (get_at p (c_root c)) as [s|] eqn:G; simpl; auto.
    apply inv_upd with (s := s); auto.
    + rewrite wf_set_hook. destruct HI as [Hw _]. eapply wf_get_at; eauto.
    + apply kid_compat_refl_fields; destruct s; reflexivity.
  - (* OAdd *)
    unfold at_node. destruct (get_at p (c_root c)) as [s|] eqn:G; simpl; auto.
    destruct (n_add _ s name tcode) as [[[s' i] victim]|] eqn:A; simpl; auto.
    assert (Hws : wf s = true) by (destruct HI as [Hw _]; eapply wf_get_at; eauto).
    destruct (n_add_wf _ _ _ _ _ _ _ Hws (Hc s G) A) as (Hw' & Hn & Hp).
    apply inv_upd with (s := s); auto. apply kid_compat_refl_fields; assumption.
  - (* ORemove *)
    unfold at_node. destruct (get_at p (c_root c)) as [s|] eqn:G; simpl; auto.
    destruct path as [pa|]; simpl; auto.
    destruct (n_remove s pa) as [[s' v]|] eqn:R; simpl; auto.
    assert (Hws : wf s = true) by (destruct HI as [Hw _]; eapply wf_get_at; eauto).
    destruct (n_remove_spec _ _ _ _ R) as (rel & idx & Hl & (h & Hg & Hn & ->) & _).
    apply inv_upd with (s := s); auto.
    + eapply wf_upd_at; eauto.
      * apply wf_del. eapply wf_get_at; eauto.
      * apply kid_compat_refl_fields; destruct h; reflexivity.
    + eapply upd_at_compat; eauto. apply kid_compat_refl_fields; destruct h; reflexivity.
  - (* ORemoveElem *)
    unfold at_node. destruct (get_at p (c_root c)) as [s|] eqn:G; simpl; auto.
    destruct (n_remove_elem s (to_uint32 idx)) as [[s' v]|] eqn:R; simpl; auto.
    assert (Hws : wf s = true) by (destruct HI as [Hw _]; eapply wf_get_at; eauto).
    destruct (n_remove_elem_spec _ _ _ _ R) as (_ & Hn & ->).
    apply inv_upd with (s := s); auto.
    + apply wf_del; assumption.
    + apply kid_compat_refl_fields; destruct s; reflexivity.
  - (* OSet *)
    unfold at_node. destruct (get_at p (c_root c)) as [s|] eqn:G; simpl; auto.
    destruct (setter c k v s) as [|s'|] eqn:S; simpl; auto.
    assert (Hws : wf s = true) by (destruct HI as [Hw _]; eapply wf_get_at; eauto).
    destruct (setter_wf _ _ _ _ _ Hws S) as [Hw' Hcompat].
    apply inv_upd with (s := s); auto.
  - (* OSetElem *)
    unfold at_node. destruct (get_at p (c_root c)) as [s|] eqn:G; simpl; auto.
    destruct (n_set_elem _ _ s idx) as [|s' i|] eqn:S; simpl; auto.
    assert (Hws : wf s = true) by (destruct HI as [Hw _]; eapply wf_get_at; eauto).
    destruct (n_set_elem_wf _ _ _ _ _ _ _ Hws S) as (Hw' & Hn & Hp).
    apply inv_upd with (s := s); auto. apply kid_compat_refl_fields; assumption.
  - (* OSetFormat *)
    unfold at_node. destruct (get_at p (c_root c)) as [s|] eqn:G; simpl; auto.
    destruct (n_set_format s (to_uint16 f)) as [|s'|] eqn:S; simpl; auto.
    assert (Hws : wf s = true) by (destruct HI as [Hw _]; eapply wf_get_at; eauto).
    destruct (n_set_format_frame _ _ _ S) as [-> _].
    apply inv_upd with (s := s); auto.
    + rewrite wf_set_fmt. assumption.
    + apply kid_compat_refl_fields; destruct s; reflexivity.
Qed.

Fixpoint in_contract_all (c : cfg) (ops : list aop) : Prop :=
  match ops with
  | [] => True
  | o :: r => in_contract c o /\ in_contract_all (step_cfg c o) r
  end.

Theorem run_inv ops : forall c, Inv c -> in_contract_all c ops -> Inv (run_ops c ops).
Proof.
  induction ops as [|o r IH]; intros c HI Hc; cbn [run_ops fold_left].
  - exact HI.
  - destruct Hc as [Ho Hr]. apply IH; [apply step_inv; assumption | exact Hr].
Qed.

Lemma init_inv : Inv cfg_init.
Proof. split; reflexivity. Qed.

(* ------------------------------------------------------------------------------------ *)
(* queries agree with the children *)

Lemma nodup_find_index kids i k :
  nodup_names (map s_name kids) = true -> nth_error kids i = Some k ->
  forall n, s_name k = Some n -> list_search kids n = Some i.
Proof.
  unfold list_search. revert i; induction kids as [|y r IH]; intros [|i]; simpl; try discriminate.
  - intros _ [= ->] n Hn. unfold name_is. rewrite Hn, bytes_eqb_refl. reflexivity.
  - intros Hnd Hk n Hn. apply andb_true_iff in Hnd as [Hy Hnd]. apply negb_true_iff in Hy.
    assert (name_is n y = false).
    { unfold name_is. destruct (s_name y) as [m|] eqn:E; auto.
      destruct (bytes_eqb m n) eqn:B; auto. apply bytes_eqb_eq in B. subst m.
      exfalso. clear -Hy Hk Hn. revert i Hk. induction r as [|z r IHr]; intros [|i]; simpl in *; try discriminate.
      - intros [= ->]. rewrite Hn in Hy. simpl in Hy. rewrite bytes_eqb_refl in Hy. discriminate.
      - apply orb_false_iff in Hy as [_ Hy]. eauto. }
    rewrite H. rewrite (IH _ Hnd Hk n Hn). reflexivity.
Qed.

Theorem member_by_name s i k n :
  wf s = true -> s_ty s = TGroup -> nth_error (s_kids s) i = Some k -> s_name k = Some n ->
  get_member s (Some n) = Some i.
Proof.
  intros Hw Hty Hk Hn. unfold get_member. rewrite Hty.
  apply wf_kids in Hw as [_ Hko]. unfold kids_ok in Hko. apply andb_true_iff in Hko as [_ Hnd].
  unfold s_ty in Hty. destruct (s_pl s); try discriminate.
  eapply nodup_find_index; eauto.
Qed.

Theorem elem_by_index s (i : nat) :
  ty_is_aggregate (s_ty s) = true ->
  get_elem s (Z.of_nat i) = (if Nat.ltb i (length (s_kids s)) then Some i else None).
Proof.
  intros Ha. unfold get_elem. rewrite Ha.
  destruct (Nat.ltb_spec i (length (s_kids s))).
  - replace (0 <=? Z.of_nat i) with true by (symmetry; apply Z.leb_le; lia).
    replace (Z.of_nat i <? Z.of_nat (length (s_kids s))) with true by (symmetry; apply Z.ltb_lt; lia).
    simpl. rewrite Nat2Z.id. reflexivity.
  - replace (Z.of_nat i <? Z.of_nat (length (s_kids s))) with false by (symmetry; apply Z.ltb_ge; lia).
    rewrite andb_false_r. reflexivity.
Qed.

(* every member of a group in a well-formed tree has a valid name; elements are nameless *)
Theorem wf_member_named s i k :
  wf s = true -> s_ty s = TGroup -> nth_error (s_kids s) i = Some k ->
  exists n, s_name k = Some n /\ validate_name n = true.
Proof.
  intros Hw Hty Hk. apply wf_kids in Hw as [_ Hko]. unfold kids_ok in Hko.
  apply andb_true_iff in Hko as [Hall _].
  pose proof (forallb_nth _ _ _ _ Hall Hk) as H. unfold kid_ok in H.
  unfold s_ty in Hty. destruct (s_pl s); try discriminate.
  destruct (s_name k) as [n|]; try discriminate. eauto.
Qed.

Theorem wf_element_nameless s i k :
  wf s = true -> (s_ty s = TArray \/ s_ty s = TList) -> nth_error (s_kids s) i = Some k ->
  s_name k = None /\ (s_ty s = TArray -> ty_is_scalar (s_ty k) = true /\
                      forall j k', nth_error (s_kids s) j = Some k' -> s_ty k' = s_ty k).
Proof.
  intros Hw Hty Hk. apply wf_kids in Hw as [_ Hko]. unfold kids_ok in Hko.
  apply andb_true_iff in Hko as [Hall Hrest].
  pose proof (forallb_nth _ _ _ _ Hall Hk) as H. unfold kid_ok in H.
  unfold s_ty in Hty. destruct Hty as [Hty|Hty]; destruct (s_pl s) eqn:Epl; try discriminate.
  - apply andb_true_iff in H as [H1 H2]. split; [destruct (s_name k); [discriminate|reflexivity]|].
    intros _. split; [assumption|]. intros j k' Hk'.
    assert (Hall_same : forall j x, nth_error (s_kids s) j = Some x ->
              forall x0, nth_error (s_kids s) 0 = Some x0 -> s_ty x = s_ty x0).
    { clear -Hrest. destruct (s_kids s) as [|x0 r]; [intros [|?] ? H; simpl in H; discriminate H|].
      simpl in Hrest. intros [|j] x Hx y [= <-]; simpl in Hx.
      - inv Hx. reflexivity.
      - apply nth_error_In in Hx. rewrite forallb_forall in Hrest.
        specialize (Hrest (s_ty x) (in_map s_ty _ _ Hx)). apply ty_eqb_eq in Hrest. assumption. }
    destruct (s_kids s) as [|x0 r] eqn:Ek; [destruct i; discriminate|].
    rewrite (Hall_same _ _ Hk' x0 eq_refl), (Hall_same _ _ Hk x0 eq_refl). reflexivity.
  - split; [destruct (s_name k); [discriminate|reflexivity]|]. intros H'. unfold s_ty in H'. rewrite Epl in H'. discriminate H'.
Qed.
