(* Bisim.v — technique T-A: a finite certificate that the compiled flex automaton and a list of regular
   expression rules select the same (rule, length) on every input, with a soundness proof that is generic
   in the tables.  The exploration that produces the candidate set is untrusted search; what is proved
   sound is the loop-free closed_check. *)
From Coq Require Import List ZArith NArith Bool Lia.
Import ListNotations.
From LC Require Import Base Regex RegexFacts FlexEngine.
Local Open Scope Z_scope.

Definition pair := (Z * list rule)%type.     (* (DFA state, derivatives of the active rules) *)

Fixpoint rules_eqb (a b : list rule) : bool :=
  match a, b with
  | [], [] => true
  | (i, r) :: a', (j, s) :: b' => (i =? j) && re_eqb r s && rules_eqb a' b'
  | _, _ => false
  end.

Definition pair_eqb (p q : pair) : bool := (fst p =? fst q) && rules_eqb (snd p) (snd q).
Definition pmem (p : pair) (S : list pair) : bool := existsb (pair_eqb p) S.

Definition all_bytes : list Z := map Z.of_nat (seq 0 256).

Section Check.
  Variable T : tables.

  (* the accepting rule of state q is the first rule whose derivative is nullable (none: 0) *)
  Definition accept_ok (q : Z) (v : list rule) : bool :=
    match first_nullable v with
    | Some i => (accept_of T q =? i) && negb (i =? 0)
    | None => accept_of T q =? 0
    end.

  Definition byte_ok (S : list pair) (q : Z) (v : list rule) (b : Z) : bool :=
    let q' := step_byte T q b in
    let v' := dstep b v in
    if q' =? t_jam T then forallb (fun ir => is_emp (snd ir)) v' else pmem (q', v') S.

  Definition pair_ok (S : list pair) (p : pair) : bool :=
    accept_ok (fst p) (snd p) && forallb (byte_ok S (fst p) (snd p)) all_bytes.

  Definition closed_check (S : list pair) : bool := forallb (pair_ok S) S.

  (* ---- untrusted exploration ---- *)
  Definition succs (p : pair) : list pair :=
    flat_map (fun b => let q' := step_byte T (fst p) b in
                       if q' =? t_jam T then [] else [(q', dstep b (snd p))]) all_bytes.

  Fixpoint explore (fuel : nat) (todo seen : list pair) : list pair :=
    match fuel with
    | O => seen
    | S f =>
        match todo with
        | [] => seen
        | p :: rest =>
            if pmem p seen then explore f rest seen
            else explore f (filter (fun x => negb (pmem x seen)) (succs p) ++ rest) (p :: seen)
        end
    end.

  (* ---- soundness ---- *)
  Lemma rules_eqb_eq a : forall b, rules_eqb a b = true -> a = b.
  Proof.
    induction a as [|[i r] a IH]; intros [|[j s] b]; cbn; try discriminate; [reflexivity|].
    intros H. apply andb_true_iff in H as [H H3]. apply andb_true_iff in H as [H1 H2].
    apply Z.eqb_eq in H1. apply re_eqb_eq in H2. rewrite (IH _ H3). congruence.
  Qed.

  Lemma pmem_in p S : pmem p S = true -> In p S.
  Proof.
    unfold pmem. intros H. apply existsb_exists in H as (x & Hin & E).
    unfold pair_eqb in E. apply andb_true_iff in E as [E1 E2].
    apply Z.eqb_eq in E1. apply rules_eqb_eq in E2. destruct p, x; cbn in *; subst. exact Hin.
  Qed.

  Lemma in_all_bytes b : 0 <= b < 256 -> In b all_bytes.
  Proof.
    intros H. unfold all_bytes. replace b with (Z.of_nat (Z.to_nat b)) by lia.
    apply in_map. apply in_seq. lia.
  Qed.

  Definition bytes_ok (bs : bytes) : Prop := Forall (fun b => 0 <= b < 256) bs.

  Theorem bisim_sound S : closed_check S = true ->
    forall bs q v n last, In (q, v) S -> bytes_ok bs -> run T q n last bs = lm v n last bs.
  Proof.
    intros HC. unfold closed_check in HC. rewrite forallb_forall in HC.
    induction bs as [|b r IH]; intros q v n last Hin Hb.
    - specialize (HC _ Hin). unfold pair_ok in HC. cbn [fst snd] in HC. apply andb_true_iff in HC as [Ha _].
      cbn [run lm]. unfold accept_ok in Ha. destruct (first_nullable v) as [i|].
      + apply andb_true_iff in Ha as [H1 H2]. apply Z.eqb_eq in H1. apply negb_true_iff in H2.
        rewrite H1, H2. reflexivity.
      + rewrite Ha. reflexivity.
    - pose proof (HC _ Hin) as HP. unfold pair_ok in HP. cbn [fst snd] in HP. apply andb_true_iff in HP as [Ha Hbytes].
      inversion Hb as [|? ? Hb1 Hb2]; subst.
      rewrite forallb_forall in Hbytes. specialize (Hbytes b (in_all_bytes b Hb1)).
      cbn [run lm].
      assert (El : (if accept_of T q =? 0 then last else Some (accept_of T q, n))
                   = match first_nullable v with Some i => Some (i, n) | None => last end).
      { unfold accept_ok in Ha. destruct (first_nullable v) as [i|].
        - apply andb_true_iff in Ha as [H1 H2]. apply Z.eqb_eq in H1. apply negb_true_iff in H2.
          rewrite H1, H2. reflexivity.
        - rewrite Ha. reflexivity. }
      rewrite El. unfold byte_ok in Hbytes. cbv zeta in Hbytes.
      destruct (step_byte T q b =? t_jam T) eqn:Ej.
      + symmetry. apply lm_dead. rewrite forallb_forall in Hbytes. apply Forall_forall.
        intros ir Hir. exact (is_emp_sound _ (Hbytes _ Hir)).
      + apply IH; [apply pmem_in; exact Hbytes | exact Hb2].
  Qed.

  Corollary flex_is_longest_match S sc bol rs :
    closed_check S = true -> pmem (start_state sc bol, rs) S = true ->
    forall bs, bytes_ok bs -> flex_match T sc bol bs = longest_match rs bs.
  Proof.
    intros HC Hs bs Hb. unfold flex_match, longest_match. apply (bisim_sound S HC); [apply pmem_in; exact Hs | exact Hb].
  Qed.
End Check.
