(* MemModel.v — the capacity arithmetic of the three growing buffers of the library, exactly as the code does it:
     lib/strbuf.c   (string buffer: blocks of STRING_BLOCK_SIZE bytes, size_t arithmetic modulo 2^64),
     lib/strvec.c   (string vector: chunks of STRVEC_CHUNK_SIZE slots plus one slot for the terminator),
     lib/libconfig.c __config_list_add / __config_list_remove (element vector: chunks of LIST_CHUNK_SIZE slots,
                    realloc to length + chunk whenever the length is a multiple of the chunk - also after removals).
   Each step reports the realloc request it makes and the highest index it touches with the size of the allocation
   it touches, so that "in bounds" is a decidable predicate on the report.  Definitions only (executable). *)
From Coq Require Import List ZArith Bool.
Import ListNotations.
From LC Require Import Base Script.
From LC.gen Require Import Consts.
Local Open Scope Z_scope.

(* size_t *)
Definition WORD : Z := 2 ^ 64.
Definition wrap (z : Z) : Z := z mod WORD.
Definition PTR_SIZE : Z := 8.                         (* sizeof(const char * ), sizeof(config_setting_t * ) *)

(* strbuf_t: string == NULL exactly when capacity == 0 *)
Record sbuf := mkSb { sb_len : Z; sb_cap : Z }.
(* strvec_t: [sv_alloc] = number of slots of the block [strings] points to (0: NULL); end == strings + length *)
Record svec := mkSv { sv_len : Z; sv_cap : Z; sv_alloc : Z }.
(* config_list_t: [ls_alloc] = number of slots the last realloc asked for (0: NULL) *)
Record elist := mkLs { ls_len : Z; ls_alloc : Z }.

Record mstate := mkM { m_sb : sbuf; m_sv : svec; m_ls : elist }.
Definition m0 : mstate := mkM (mkSb 0 0) (mkSv 0 0 0) (mkLs 0 0).

Inductive mop :=
| SbString (len : Z)        (* libconfig_strbuf_append_string with strlen(s) = len *)
| SbChar                    (* libconfig_strbuf_append_char *)
| SbRelease                 (* libconfig_strbuf_release *)
| SvAppend                  (* libconfig_strvec_append *)
| SvRelease                 (* libconfig_strvec_release *)
| LsAdd                     (* __config_list_add *)
| LsRemove (idx : Z).       (* __config_list_remove; the callers guarantee 0 <= idx < length *)

(* what a step does to memory: the size in bytes it asks realloc for (if it calls realloc), the highest index it
   reads or writes together with the size of the allocation it indexes (bytes for the string buffer, slots for the
   two vectors; None: nothing touched), and whether the step was called outside its precondition *)
Record mout := mkOut { mo_realloc : option Z; mo_touch : option (Z * Z); mo_fault : bool }.

Definition in_bounds (o : mout) : bool :=
  negb (mo_fault o) &&
  match mo_touch o with
  | None => true
  | Some (i, a) => (0 <=? i) && (i <? a)
  end.

(* ---- strbuf.c ---- *)
(* static const size_t mask = ~(STRING_BLOCK_SIZE - 1); *)
Definition sb_mask : Z := wrap (Z.lnot (STRING_BLOCK_SIZE - 1)).

Definition sb_ensure (b : sbuf) (len : Z) : sbuf * option Z :=
  let newlen := wrap (sb_len b + len + 1) in
  if sb_cap b <? newlen then
    let cap := Z.land (wrap (newlen + (STRING_BLOCK_SIZE - 1))) sb_mask in
    (mkSb (sb_len b) cap, Some cap)
  else (b, None).

(* strcpy(buf->string + buf->length, s) writes the bytes length .. length + len; the addresses are not reduced
   modulo anything, the stored length is *)
Definition sb_string (b : sbuf) (len : Z) : sbuf * mout :=
  let l := wrap len in
  let '(b1, rq) := sb_ensure b l in
  (mkSb (wrap (sb_len b + l)) (sb_cap b1), mkOut rq (Some (sb_len b + l, sb_cap b1)) false).

Definition sb_char (b : sbuf) : sbuf * mout :=
  let '(b1, rq) := sb_ensure b 1 in
  (mkSb (wrap (sb_len b + 1)) (sb_cap b1), mkOut rq (Some (sb_len b + 1, sb_cap b1)) false).

Definition sb_release (b : sbuf) : sbuf * mout := (mkSb 0 0, mkOut None None false).

(* ---- strvec.c ---- *)
Definition sv_append (v : svec) : svec * mout :=
  let '(cap, alloc, rq) :=
    if sv_len v =? sv_cap v
    then (sv_cap v + STRVEC_CHUNK_SIZE, sv_cap v + STRVEC_CHUNK_SIZE + 1,
          Some ((sv_cap v + STRVEC_CHUNK_SIZE + 1) * PTR_SIZE))
    else (sv_cap v, sv_alloc v, None) in
  (mkSv (sv_len v + 1) cap alloc, mkOut rq (Some (sv_len v, alloc)) false).

Definition sv_release (v : svec) : svec * mout :=
  (mkSv 0 0 0, mkOut None (if sv_alloc v =? 0 then None else Some (sv_len v, sv_alloc v)) false).

(* ---- libconfig.c ---- *)
Definition ls_add (l : elist) : elist * mout :=
  let '(alloc, rq) :=
    if ls_len l mod LIST_CHUNK_SIZE =? 0
    then (ls_len l + LIST_CHUNK_SIZE, Some ((ls_len l + LIST_CHUNK_SIZE) * PTR_SIZE))
    else (ls_alloc l, None) in
  (mkLs (ls_len l + 1) alloc, mkOut rq (Some (ls_len l, alloc)) false).

(* reads slot idx, moves the slots idx+1 .. length-1 down by one: the highest slot touched is length-1 *)
Definition ls_remove (l : elist) (idx : Z) : elist * mout :=
  if (0 <=? idx) && (idx <? ls_len l)
  then (mkLs (ls_len l - 1) (ls_alloc l), mkOut None (Some (ls_len l - 1, ls_alloc l)) false)
  else (l, mkOut None None true).

Definition mstep (s : mstate) (o : mop) : mstate * mout :=
  match o with
  | SbString len => let '(b, out) := sb_string (m_sb s) len in (mkM b (m_sv s) (m_ls s), out)
  | SbChar => let '(b, out) := sb_char (m_sb s) in (mkM b (m_sv s) (m_ls s), out)
  | SbRelease => let '(b, out) := sb_release (m_sb s) in (mkM b (m_sv s) (m_ls s), out)
  | SvAppend => let '(v, out) := sv_append (m_sv s) in (mkM (m_sb s) v (m_ls s), out)
  | SvRelease => let '(v, out) := sv_release (m_sv s) in (mkM (m_sb s) v (m_ls s), out)
  | LsAdd => let '(l, out) := ls_add (m_ls s) in (mkM (m_sb s) (m_sv s) l, out)
  | LsRemove idx => let '(l, out) := ls_remove (m_ls s) idx in (mkM (m_sb s) (m_sv s) l, out)
  end.

Fixpoint mrun (s : mstate) (ops : list mop) : mstate * list mout :=
  match ops with
  | [] => (s, [])
  | o :: r => let '(s1, out) := mstep s o in let '(s2, outs) := mrun s1 r in (s2, out :: outs)
  end.

(* ---- script runner ----
   input: one operation per line (LF), words separated by one space:
       ss <len> | sc | sr | va | vr | la | lr <idx>          (decimal numbers; empty lines are skipped)
   output: one line per operation, terminated by LF:
       M <length> <capacity-or-allocated> <realloc-request-or-0>
   with the length of the object the operation works on after the step, its capacity (string buffer, string vector)
   or its allocated slots (element list) after the step, and the byte count of the realloc request of the step (0:
   none).  A remove outside 0 <= idx < length prints F instead of M (the state is unchanged); a line that is not an
   operation prints a line with a single '?'. *)
Definition parse_mop (line : bytes) : option mop :=
  match words line with
  | [[115; 115]; n] => Some (SbString (parse_dec n))
  | [[115; 99]] => Some SbChar
  | [[115; 114]] => Some SbRelease
  | [[118; 97]] => Some SvAppend
  | [[118; 114]] => Some SvRelease
  | [[108; 97]] => Some LsAdd
  | [[108; 114]; n] => Some (LsRemove (parse_dec n))
  | _ => None
  end.

Definition show_mline (s : mstate) (o : mop) (out : mout) : bytes :=
  let '(len, cap) :=
    match o with
    | SbString _ | SbChar | SbRelease => (sb_len (m_sb s), sb_cap (m_sb s))
    | SvAppend | SvRelease => (sv_len (m_sv s), sv_cap (m_sv s))
    | LsAdd | LsRemove _ => (ls_len (m_ls s), ls_alloc (m_ls s))
    end in
  (if mo_fault out then 70 else 77) :: 32 :: show_dec len ++ 32 :: show_dec cap ++ 32 ::
  show_dec (match mo_realloc out with Some n => n | None => 0 end) ++ [10].

Fixpoint run_mem_lines (s : mstate) (ls : list bytes) : bytes :=
  match ls with
  | [] => []
  | [] :: r => run_mem_lines s r
  | l :: r =>
      match parse_mop l with
      | None => [63; 10] ++ run_mem_lines s r
      | Some o => let '(s1, out) := mstep s o in show_mline s1 o out ++ run_mem_lines s1 r
      end
  end.

Definition run_mem_script (input : bytes) : bytes := run_mem_lines m0 (lines input).
