(* Properties_C02.v — C02: parsing accepts exactly the documented grammar and builds the tree it denotes.
   PARTIAL.  Proved: soundness of the parser model with respect to the documented grammar — whatever the
   parser accepts is derivable (Dsettings: the manual's BNF as an inductive relation over token lists, with
   the same optional separators and trailing commas); rejection of duplicate names; the error messages.
   NOT proved: completeness (every derivable, semantically valid token list is accepted — needs a fuel
   sufficiency argument and the semantic conditions), the denoted tree and the first-error characterisation.
   Those are tied on every run by the exhaustive-bounded token-sequence correspondence against the real
   library and against a reference parser written from the manual (pygen/refparse.py).
   The parser model is a recursive-descent function performing the grammar.y actions in bison's order;
   grammar.c's LALR tables are not translated (DESIGN.md section 8).  Composition with the scanner: the
   tokens are those of C18.

   Known finding F4: a mismatched STRING array element is reported at the line of the token after it. *)
From Coq Require Import List ZArith Bool.
Import ListNotations.
From LC Require Import Base Tree Fp Lookup Api ScanAction Tokens Lexer Parser GrammarFacts Reader Writer WriterFacts LexWrite ParseWrite.
From LC.gen Require Import Consts.
Local Open Scope Z_scope.

(* every accepted token stream is a derivation of   configuration: setting* <end of input>   *)
Theorem C02_sound : forall ov s s',
  p_config ov s = POk s' ->
  exists ts, ptoks s = ts ++ TkEOF :: tl (ptoks s') /\ Dsettings ts /\ hd_error (ptoks s') = Some TkEOF.
Proof. exact p_config_sound. Qed.
Print Assumptions C02_sound.

(* the same for each syntactic category, for every fuel, state and context *)
Theorem C02_sound_categories : forall ov fuel,
  P_value ov fuel /\ P_agg ov fuel /\ P_elems ov fuel /\ P_settings ov fuel.
Proof. exact parser_sound. Qed.
Print Assumptions C02_sound_categories.

(* a successful read: the token stream of the text (C18 tokens, includes expanded) derives from the grammar *)
Theorem C02_read_sound : forall atof FS c top text,
  rd_out_ (config_read atof FS c top text) = RdOk ->
  exists ts rest, map lt_tok (fst (lex_top atof FS (set_files (set_root (set_err c err0) new_root) []) top text))
                  = ts ++ TkEOF :: rest /\ Dsettings ts.
Proof.
  intros atof FS c top text. unfold config_read, ApiStep.clear_cfg.
  destruct (lex_top atof FS _ top text) as [toks stop] eqn:L. cbv zeta. cbn [fst].
  destruct (NEST_LIMIT <? max_nest toks 0 0); [cbn; discriminate|].
  destruct (p_config _ _) as [s|e s|s|s] eqn:P; cbn [rd_out_]; try discriminate; [|destruct stop; discriminate].
  intros _. destruct (p_config_sound _ _ _ P) as (ts & E & D & _). exists ts. eexists. split; [exact E | exact D].
Qed.
Print Assumptions C02_read_sound.

(* a name already present in the open group is rejected when overrides are off (and then nothing is added) *)
Theorem C02_duplicate_rejected : forall s parent ps nm j,
  get_at parent (p_root s) = Some ps -> s_ty ps = TGroup -> get_member ps (Some nm) = Some j ->
  validate_name nm = true -> act_name false s parent nm = None.
Proof.
  intros s parent ps nm j G Ty M V. unfold act_name. rewrite G. unfold n_add. cbn [ty_of_code].
  rewrite Ty. cbn. rewrite V. cbn. rewrite M. reflexivity.
Qed.
Print Assumptions C02_duplicate_rejected.

(* the messages *)
Theorem C02_messages :
  perr_text PErrSyntax = ERR_SYNTAX /\ perr_text PErrDup = ERR_DUPLICATE_SETTING /\
  perr_text PErrMismatch = ERR_ARRAY_ELEM_TYPE.
Proof. repeat split. Qed.


(* ---- the tree a text denotes, for texts in the writer's canonical form (from the C01 development) ----
   Every tree with the shape the API maintains has a canonical token stream (that of config_write); the parser
   accepts it - into an element position of a list or array, or as the value of the member just named - and
   builds exactly that tree (up to positions; booleans, NULL strings and integer formats normalised), whatever
   follows, with the fuel p_config provides.  Together with C02_sound this gives, for canonical streams, both
   directions and the denoted tree; for arbitrary derivations the other direction is the bounded-exhaustive
   correspondence of the check. *)
Theorem C02_canonical_accepted : forall fmt_double atof c overrides v,
  writable fmt_double atof c v -> pstruct v -> val_ok fmt_double atof c overrides v.
Proof. exact val_ok_all. Qed.
Print Assumptions C02_canonical_accepted.

Theorem C02_canonical_configuration : forall fmt_double atof c overrides n kids f h l fi root0 toks,
  writable fmt_double atof c (Setting n PGroup kids f h l fi) -> pstruct (Setting n PGroup kids f h l fi) ->
  map lt_tok toks = ptk fmt_double atof c (pieces c (Setting n PGroup kids f h l fi) 0) ++ [TkEOF] ->
  s_pl root0 = PGroup -> s_kids root0 = [] ->
  exists s', p_config overrides (mkP root0 toks false O 0 None) = POk s' /\
             obs (p_root s') = ON (s_name root0) PGroup (s_fmt root0) (map (fun m => nobs fmt_double atof c (s_name m) m) kids).
Proof. exact parse_written. Qed.
Print Assumptions C02_canonical_configuration.

(* non-vacuity *)
Definition mk (t : token) : ltoken := mkLT t 1 None None [] [] [].
Example C02_example :
  let toks := map mk [TkName [97]; TkP TEquals; TkP TListStart; TkInt 1; TkP TComma; TkString [120]; TkString [121];
                      TkP TComma; TkP TListEnd; TkP TSemicolon; TkEOF] in
  match p_config false (mkP new_root toks false O 0 None) with POk _ => True | _ => False end /\
  match p_config false (mkP new_root (map mk [TkName [97]; TkP TEquals; TkP TArrayStart; TkP TComma; TkInt 1; TkP TArrayEnd; TkEOF])
                            false O 0 None) with PErr PErrSyntax _ => True | _ => False end.
Proof. vm_compute. split; exact I. Qed.
