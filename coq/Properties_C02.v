(* Properties_C02.v — C02: parsing accepts exactly the documented grammar and builds the tree it denotes.
   Proved (for the parser model on the scanner's located tokens, and carried to config_read):
     - the documented grammar as derivation relations over token lists (Dsettings: the manual's BNF with its
       optional separators and trailing commas) and, equivalently, as concrete syntax trees (cst) that spell
       a located token list (C02_grammar_trees, C02_trees_grammar);
     - soundness: whatever is accepted is derivable (C02_sound, C02_read_sound);
     - completeness and the denoted tree: every derivation that meets the semantic conditions - one scalar type
       per array, valid names, no name twice in a group unless overrides are on (then the last definition wins:
       the earlier member is deleted and the new one appended) - is accepted, in any position, with the fuel
       p_config provides, and the configuration built is exactly the denoted one: settings, order, types, values,
       integer formats, concatenated strings and, for every named setting, the line and file of its name
       (C02_complete, C02_accept_iff, C02_denotes, C02_read_accept_iff, C02_read_denotes);
     - semantic errors: a derivable text that breaks a semantic condition fails with the message of the FIRST
       offence in reading order, at that offence's line and file (C02_reject_semantic, C02_read_reject_semantic;
       the position of a mismatched STRING element is that of the token after it: known finding F4);
     - rejection of underivable token lists (C02_reject_underivable) and the messages (C02_messages).
     - totality (C02_total, from ParseTotal.v): on every token stream that contains its end-of-input or error
       token - every stream the scanner delivers (C03_scanner_total) - the answer is POk or PErr: the fuel always
       suffices and no action meets an impossible tree, also on rejected inputs.
     - syntax errors (ParseSyntax.v): when the answer is "syntax error", the error state points at a token t of the
       input - the line and file reported are those of t - such that (1) the same error at the same token is the
       answer whatever follows t (the parser decides on the tokens up to t alone), (2) no derivable text begins with
       the tokens up to and including t, and (3) the tokens before t do extend to an accepted - hence derivable -
       input, and so does every shorter prefix: t is the FIRST token that cannot continue a derivation
       (C02_syntax_error_first_offence, C02_syntax_error_earlier_viable; C02_derivable_answer: a derivable text is
       never answered "syntax error").  Proofs: locality, fuel monotonicity and a completion lemma (closing brackets,
       "= 0" after a name, "0" after "=") by mutual induction over the five parsing functions.
   The syntax-error position is also compared on every run, against the real library (whose LALR automaton with default
   reductions must report the same token: that is a statement about grammar.c, tied by correspondence) and against a
   reference parser written from the manual (pygen/refparse.py), by exhaustive-bounded token-sequence enumeration.
   THE COMPILED LALR(1) TABLES (LalrEngine.v, LalrFacts.v): the parser model used above is a recursive-descent function
   performing the grammar.y actions in bison's order.  tools/gen_grammar.py re-extracts, on every run, the tables of the
   compiled lib/grammar.c (yytranslate, yypact, yydefact, yypgoto, yydefgoto, yytable, yycheck, yyr1, yyr2 and the
   constants) and the semantic action of every rule (classified by its text) into gen/GrammarTables.v; LalrEngine.v is a
   Gallina transcription of bison's driver (yyparse: yybackup / yydefault / yyreduce / yyerrlab) over those tables, and
   C02_lalr_equiv proves that for EVERY token list that contains its stopping token, every root group and both override
   settings, the table-driven engine gives exactly the answer of the recursive-descent model - same outcome, same error
   kind, same tree, same error position, same number of tokens read (the accepted state only differs by the shifted
   end-of-input token) - within 4 * length + 1 engine steps.  Every fact about the 47-state automaton used by the
   simulation proof is evaluated from the generated tables, so the proof is re-checked against what grammar.c contains
   now; C02_lalr_agrees_bounded is the same agreement evaluated on all 204 205 token-kind sequences up to length 4 (a
   regression test of the engine, not the proof).  All theorems above therefore hold of the engine over the compiled
   tables.  What stays hand-transcribed and tied by correspondence: the 60 lines of yyparse's control flow (LalrEngine.v)
   and the meaning of each classified action text (GramAction.gaction -> act_name / act_open / act_scalar).
   Composition with the scanner: the tokens are those of C18.

   Known finding F4: a mismatched STRING array element is reported at the line of the token after it. *)
From Coq Require Import List ZArith Bool.
Import ListNotations.
From LC Require Import Base Tree Fp Lookup Api ScanAction Tokens Lexer Parser GrammarFacts Reader Writer WriterFacts LexWrite ParseWrite
  ParseComplete ParseFail ParseExact ParseTotal ParseNames ParseSyntax ReadSyntax LalrEngine LalrCheck LalrFacts ReadLalr Bisim.
From LC.gen Require Import GrammarTables.
From LC.gen Require Import Consts.
Local Open Scope Z_scope.

(* every accepted token stream is a derivation of   configuration: setting* <end of input>   *)
Theorem C02_sound : forall ov s s',
  p_config ov s = POk s' ->
  exists ts, ptoks s = ts ++ TkEOF :: tl (ptoks s') /\ Dsettings ts /\ hd_error (ptoks s') = Some TkEOF.
Proof. exact p_config_sound. Qed.
Print Assumptions C02_sound.

(* the same for each syntactic category, for every fuel, state and context *)
Theorem C02_sound_categories : forall ov fuel,
  P_value ov fuel /\ P_agg ov fuel /\ P_elems ov fuel /\ P_settings ov fuel.
Proof. exact parser_sound. Qed.
Print Assumptions C02_sound_categories.

(* a successful read: the token stream of the text (C18 tokens, includes expanded) derives from the grammar *)
Theorem C02_read_sound : forall atof FS c top text,
  rd_out_ (config_read atof FS c top text) = RdOk ->
  exists ts rest, map lt_tok (fst (lex_top atof FS (set_files (set_root (set_err c err0) new_root) []) top text))
                  = ts ++ TkEOF :: rest /\ Dsettings ts.
Proof.
  intros atof FS c top text. unfold config_read, ApiStep.clear_cfg.
  destruct (lex_top atof FS _ top text) as [toks stop] eqn:L. cbv zeta. cbn [fst].
  destruct (NEST_LIMIT <? max_nest toks 0 0); [cbn; discriminate|].
  destruct (p_config _ _) as [s|e s|s|s] eqn:P; cbn [rd_out_]; try discriminate; [|destruct stop; discriminate].
  intros _. destruct (p_config_sound _ _ _ P) as (ts & E & D & _). exists ts. eexists. split; [exact E | exact D].
Qed.
Print Assumptions C02_read_sound.

(* a name already present in the open group is rejected when overrides are off (and then nothing is added) *)
Theorem C02_duplicate_rejected : forall s parent ps nm j,
  get_at parent (p_root s) = Some ps -> s_ty ps = TGroup -> get_member ps (Some nm) = Some j ->
  validate_name nm = true -> act_name false s parent nm = None.
Proof.
  intros s parent ps nm j G Ty M V. unfold act_name. rewrite G. unfold n_add. cbn [ty_of_code].
  rewrite Ty. cbn. rewrite V. cbn. rewrite M. reflexivity.
Qed.
Print Assumptions C02_duplicate_rejected.

(* the messages *)
Theorem C02_messages :
  perr_text PErrSyntax = ERR_SYNTAX /\ perr_text PErrDup = ERR_DUPLICATE_SETTING /\
  perr_text PErrMismatch = ERR_ARRAY_ELEM_TYPE.
Proof. repeat split. Qed.


(* ---- the tree a text denotes, for texts in the writer's canonical form (from the C01 development) ----
   Every tree with the shape the API maintains has a canonical token stream (that of config_write); the parser
   accepts it - into an element position of a list or array, or as the value of the member just named - and
   builds exactly that tree (up to positions; booleans, NULL strings and integer formats normalised), whatever
   follows, with the fuel p_config provides.  Together with C02_sound this gives, for canonical streams, both
   directions and the denoted tree; for arbitrary derivations the other direction is the bounded-exhaustive
   correspondence of the check. *)
Theorem C02_canonical_accepted : forall fmt_double atof c overrides v,
  writable fmt_double atof c v -> pstruct v -> val_ok fmt_double atof c overrides v.
Proof. exact val_ok_all. Qed.
Print Assumptions C02_canonical_accepted.

Theorem C02_canonical_configuration : forall fmt_double atof c overrides n kids f h l fi root0 toks,
  writable fmt_double atof c (Setting n PGroup kids f h l fi) -> pstruct (Setting n PGroup kids f h l fi) ->
  map lt_tok toks = ptk fmt_double atof c (pieces c (Setting n PGroup kids f h l fi) 0) ++ [TkEOF] ->
  s_pl root0 = PGroup -> s_kids root0 = [] ->
  exists s', p_config overrides (mkP root0 toks false O 0 None) = POk s' /\
             obs (p_root s') = ON (s_name root0) PGroup (s_fmt root0) (map (fun m => nobs fmt_double atof c (s_name m) m) kids).
Proof. exact parse_written. Qed.
Print Assumptions C02_canonical_configuration.

(* ---- the grammar as concrete syntax trees ---- *)
(* every derivation of the tokens of a located token list is spelled by a well-formed tree ... *)
Theorem C02_grammar_trees : forall ts, Dsettings ts -> forall lts, map lt_tok lts = ts ->
  exists ms, wf_m ms = true /\ toks_m ms = map ltp lts.
Proof. exact (proj2 (proj2 (proj2 cst_of_derivation))). Qed.
Print Assumptions C02_grammar_trees.

(* ... and every well-formed tree spells a derivation *)
Theorem C02_trees_grammar : forall ms, wf_m ms = true -> Dsettings (map fst (toks_m ms)).
Proof. exact (proj2 (proj2 (proj2 derivation_of_cst))). Qed.
Print Assumptions C02_trees_grammar.

(* ---- completeness: in every position, whatever follows ---- *)
Theorem C02_complete : forall overrides,
  (forall v, Pv overrides v) /\ (forall es, Pe overrides es) /\ (forall tl, Pt overrides tl) /\ (forall ms, Pm overrides ms).
Proof. exact complete_all. Qed.
Print Assumptions C02_complete.

(* ---- exactly the derivable, semantically valid token lists are accepted ---- *)
Theorem C02_accept_iff : forall ov root0, s_pl root0 = PGroup -> s_kids root0 = [] -> forall lts,
  (exists s', p_config ov (mkP root0 lts false O 0 None) = POk s') <->
  (exists ms, wf_m ms = true /\ spells ms lts /\ sem_m ov ms [] = true).
Proof. exact accept_iff. Qed.
Print Assumptions C02_accept_iff.

(* ---- the tree that is built is the denoted one ---- *)
Theorem C02_denotes : forall ov root0, s_pl root0 = PGroup -> s_kids root0 = [] -> forall lts s' ms,
  p_config ov (mkP root0 lts false O 0 None) = POk s' -> wf_m ms = true -> spells ms lts ->
  pobs (p_root s') = PN (s_name root0) (spos_of root0) PGroup (s_fmt root0) (den_m ms []).
Proof. exact accept_denotes. Qed.
Print Assumptions C02_denotes.

(* ---- a semantic offence: its own error, at its own position, and it is the first one ---- *)
Theorem C02_reject_semantic : forall ov root0, s_pl root0 = PGroup -> s_kids root0 = [] -> forall lts ms,
  wf_m ms = true -> spells ms lts -> sem_m ov ms [] = false ->
  exists e ep s', err_m ov ms [] = Some (e, ep) /\ p_config ov (mkP root0 lts false O 0 None) = PErr e s' /\
                  epos s' = ep /\ (e = PErrDup \/ e = PErrMismatch).
Proof. exact reject_semantic. Qed.
Print Assumptions C02_reject_semantic.

Theorem C02_reject_underivable : forall ov root0 lts,
  (forall ts rest, map lt_tok lts = ts ++ TkEOF :: rest -> ~ Dsettings ts) ->
  forall s', p_config ov (mkP root0 lts false O 0 None) <> POk s'.
Proof. exact reject_underivable. Qed.
Print Assumptions C02_reject_underivable.

(* ---- never stuck, never past the end: accepted or rejected, whatever the tokens ---- *)
Theorem C02_total : forall ov s,
  has_stop (ptoks s) -> s_ty (p_root s) = TGroup ->
  match p_config ov s with POk _ | PErr _ _ => True | _ => False end.
Proof. exact p_config_total. Qed.
Print Assumptions C02_total.

(* ---- the same for config_read (nesting within the parser stack limit) ---- *)
Theorem C02_read_accept_iff : forall atof FS c top text,
  let toks := fst (lex_top atof FS (set_files (set_root (set_err c err0) new_root) []) top text) in
  max_nest toks 0 0 <= NEST_LIMIT ->
  (rd_out_ (config_read atof FS c top text) = RdOk <->
   exists ms, wf_m ms = true /\ spells ms toks /\ sem_m (get_option c OPT_OVERRIDES) ms [] = true).
Proof. exact read_accept_iff. Qed.
Print Assumptions C02_read_accept_iff.

Theorem C02_read_denotes : forall atof FS c top text,
  let toks := fst (lex_top atof FS (set_files (set_root (set_err c err0) new_root) []) top text) in
  max_nest toks 0 0 <= NEST_LIMIT -> forall ms,
  rd_out_ (config_read atof FS c top text) = RdOk -> wf_m ms = true -> spells ms toks ->
  pobs (c_root (rd_cfg (config_read atof FS c top text))) = PN None None PGroup 0 (den_m ms []).
Proof. exact read_denotes. Qed.
Print Assumptions C02_read_denotes.

Theorem C02_read_reject_semantic : forall atof FS c top text,
  let toks := fst (lex_top atof FS (set_files (set_root (set_err c err0) new_root) []) top text) in
  max_nest toks 0 0 <= NEST_LIMIT -> forall ms,
  wf_m ms = true -> spells ms toks -> sem_m (get_option c OPT_OVERRIDES) ms [] = false ->
  Forall (fun t => lt_err t = None) toks ->
  exists e l fi, err_m (get_option c OPT_OVERRIDES) ms [] = Some (e, (l, fi)) /\
                 rd_out_ (config_read atof FS c top text) = RdFail /\
                 c_err (rd_cfg (config_read atof FS c top text)) = mkErr 2 (Some (perr_text e)) fi l /\
                 (e = PErrDup \/ e = PErrMismatch).
Proof. exact read_reject_semantic. Qed.
Print Assumptions C02_read_reject_semantic.

(* the "valid name" conjunct of the semantic conditions is always true for config_read: every member name of every
   tree that spells the scanner's stream is valid (C18_names_valid), so "duplicate setting name" is a real duplicate *)
Theorem C02_read_names_valid : forall atof FS,
  (forall f content, fs_lookup FS f = Some (FFile content) -> bytes_ok content) ->
  forall c top text ms, bytes_ok text ->
  spells ms (fst (lex_top atof FS c top text)) -> nv_m ms = true.
Proof. exact read_names_valid. Qed.
Print Assumptions C02_read_names_valid.

(* non-vacuity *)
Definition mk (t : token) : ltoken := mkLT t 1 None None [] [] [].
Example C02_example :
  let toks := map mk [TkName [97]; TkP TEquals; TkP TListStart; TkInt 1; TkP TComma; TkString [120]; TkString [121];
                      TkP TComma; TkP TListEnd; TkP TSemicolon; TkEOF] in
  match p_config false (mkP new_root toks false O 0 None) with POk _ => True | _ => False end /\
  match p_config false (mkP new_root (map mk [TkName [97]; TkP TEquals; TkP TArrayStart; TkP TComma; TkInt 1; TkP TArrayEnd; TkEOF])
                            false O 0 None) with PErr PErrSyntax _ => True | _ => False end.
Proof. vm_compute. split; exact I. Qed.

(* a derivation with nesting, an extra comma, adjacent strings, an empty list, hexadecimal and a redefinition:
     a = 1;  b = { c = [1, 0x2,]  d = ("x" "y", (), 2.5), }  a = true
   its trees, conditions, denotation and errors are evaluated, and the parser is run on its tokens *)
Definition P (l : Z) : spos := (l, None).
Definition ex_ms : cmembers :=
  MCons [97] (P 1) (P 1) (CScal (TkInt 1) (P 1)) (TmSemi (P 1))
 (MCons [98] (P 2) (P 2)
    (CGrp (P 2)
       (MCons [99] (P 3) (P 3)
          (CArr (P 3) (ECons (CScal (TkInt 1) (P 3)) (TlCommaV (P 3) (CScal (TkHex 2) (P 3)) (TlComma (P 3) TlNil))) (P 3)) TmNone
       (MCons [100] (P 4) (P 4)
          (CLst (P 4) (ECons (CStr [120] (P 4) [([121], P 4)])
                       (TlCommaV (P 4) (CLst (P 4) ENil (P 4)) (TlCommaV (P 4) (CScal (TkFloat 4612811918334230528) (P 4)) TlNil))) (P 4))
          (TmComma (P 4)) MNil))
       (P 5)) TmNone
 (MCons [97] (P 6) (P 6) (CScal (TkBool 1) (P 6)) TmNone MNil)).
Definition ex_lts : list ltoken :=
  map (fun x => mkLT (fst x) (fst (snd x)) (snd (snd x)) None [] [] []) (toks_m ex_ms ++ [(TkEOF, P 7)]).

Example C02_example_tree :
  wf_m ex_ms = true /\ spells ex_ms ex_lts /\
  sem_m true ex_ms [] = true /\ sem_m false ex_ms [] = false /\ err_m false ex_ms [] = Some (PErrDup, P 6) /\
  den_m ex_ms [] =
    [PN (Some [98]) (Some (P 2)) PGroup 0
        [PN (Some [99]) (Some (P 3)) PArray 0 [PN None None (PInt 1) 0 []; PN None None (PInt 2) 1 []];
         PN (Some [100]) (Some (P 4)) PList 0
            [PN None None (PStr (Some [120; 121])) 0 []; PN None None PList 0 []; PN None None (PFloat 4612811918334230528) 0 []]];
     PN (Some [97]) (Some (P 6)) (PBool 1) 0 []] /\
  match p_config true (mkP new_root ex_lts false O 0 None) with
  | POk s => pobs (p_root s) = PN None None PGroup 0 (den_m ex_ms [])
  | _ => False end /\
  match p_config false (mkP new_root ex_lts false O 0 None) with
  | PErr PErrDup s => epos s = P 6
  | _ => False end.
Proof.
  split; [reflexivity|]. split; [exists (P 7), []; reflexivity|].
  split; [vm_compute; reflexivity|]. split; [vm_compute; reflexivity|]. split; [vm_compute; reflexivity|].
  split; [vm_compute; reflexivity|]. split; vm_compute; reflexivity.
Qed.

(* a mismatched array element: the first one whose type differs from the first element's *)
Definition ex_bad : cmembers :=
  MCons [97] (P 1) (P 1)
    (CArr (P 1) (ECons (CScal (TkInt 1) (P 1)) (TlCommaV (P 1) (CScal (TkInt64 2) (P 2)) (TlCommaV (P 2) (CScal (TkFloat 0) (P 3)) TlNil))) (P 3))
    TmNone MNil.
Example C02_example_mismatch :
  wf_m ex_bad = true /\ err_m true ex_bad [] = Some (PErrMismatch, P 2) /\
  match p_config true (mkP new_root (map (fun x => mkLT (fst x) (fst (snd x)) (snd (snd x)) None [] [] []) (toks_m ex_bad ++ [(TkEOF, P 4)]))
                           false O 0 None) with
  | PErr PErrMismatch s => epos s = P 2
  | _ => False end.
Proof. split; [reflexivity|]. split; vm_compute; reflexivity. Qed.


(* ------------------------------------------------------------------------------------------------------- *)
(* syntax errors are reported at the first token that cannot continue a derivation (ParseSyntax.v)          *)
(* ------------------------------------------------------------------------------------------------------- *)

(* a derivable token list is answered POk, or a semantic error - never "syntax error" *)
Theorem C02_derivable_answer : forall ov root0, s_pl root0 = PGroup -> s_kids root0 = [] -> forall lts ts junk,
  map lt_tok lts = ts ++ TkEOF :: junk -> Dsettings ts ->
  (exists s, p_config ov (mkP root0 lts false O 0 None) = POk s) \/
  (exists e s, p_config ov (mkP root0 lts false O 0 None) = PErr e s /\ (e = PErrDup \/ e = PErrMismatch)).
Proof. exact derivable_answer. Qed.
Print Assumptions C02_derivable_answer.

Theorem C02_syntax_error_first_offence : forall ov root0, s_pl root0 = PGroup -> s_kids root0 = [] -> forall lts s',
  p_config ov (mkP root0 lts false O 0 None) = PErr PErrSyntax s' ->
  exists pre t rest,
    lts = pre ++ t :: rest /\ p_toks s' = t :: rest /\ p_la s' = true /\
    p_line s' = lt_line t /\ p_file s' = lt_file t /\
    (* (1) whatever follows the offending token: the same error in the same state *)
    (forall rest', has_stop (map lt_tok (pre ++ t :: rest')) ->
       p_config ov (mkP root0 (pre ++ t :: rest') false O 0 None) = PErr PErrSyntax (retoks s' (t :: rest'))) /\
    (* (2) no derivable text begins with the tokens up to and including the offending one *)
    (forall rest' ts junk, map lt_tok (pre ++ t :: rest') = ts ++ TkEOF :: junk -> ~ Dsettings ts) /\
    (* (3) the tokens before the offending one extend to an accepted input *)
    (exists suffix s3, p_config ov (mkP root0 (pre ++ suffix) false O 0 None) = POk s3).
Proof. exact syntax_error_first_offence. Qed.
Print Assumptions C02_syntax_error_first_offence.

(* every shorter prefix is viable too: no earlier token is an offence *)
Theorem C02_syntax_error_earlier_viable : forall ov root0, s_pl root0 = PGroup -> s_kids root0 = [] -> forall lts s',
  p_config ov (mkP root0 lts false O 0 None) = PErr PErrSyntax s' ->
  exists pre t rest, lts = pre ++ t :: rest /\ p_toks s' = t :: rest /\
    forall pre1 pre2, pre = pre1 ++ pre2 -> exists suffix s3, p_config ov (mkP root0 (pre1 ++ suffix) false O 0 None) = POk s3.
Proof. exact syntax_error_earlier_viable. Qed.
Print Assumptions C02_syntax_error_earlier_viable.

(* ---- the same for config_read (ReadSyntax.v): message, file and line identify the first offending token ----
   When the parser answers "syntax error" on the scanner's token stream, config_read fails with error type 2 (parse) and
   the text "syntax error", file and line of a token t of the stream such that no derivable text begins with the tokens
   up to and including t while the tokens before t extend to an accepted input; when t is an error token of the scanner
   (an unrepresentable literal, an include failure) the text and line are those the scanner recorded. *)
Theorem C02_read_syntax_error : forall atof FS c top text,
  (forall f content, fs_lookup FS f = Some (FFile content) -> bytes_ok content) -> bytes_ok text ->
  let toks := fst (lex_top atof FS (set_files (set_root (set_err c err0) new_root) []) top text) in
  let ov := get_option c OPT_OVERRIDES in
  let root0 := set_pos new_root 0 top in
  let r := config_read atof FS c top text in
  max_nest toks 0 0 <= NEST_LIMIT ->
  forall s', p_config ov (mkP root0 toks false O 0 None) = PErr PErrSyntax s' ->
  exists pre t rest,
    toks = pre ++ t :: rest /\ p_toks s' = t :: rest /\
    rd_out_ r = RdFail /\
    c_err (rd_cfg r) = match lt_err t with
                       | None => mkErr 2 (Some ERR_SYNTAX) (lt_file t) (lt_line t)
                       | Some (txt, f, l) => mkErr 2 (Some txt) (lt_file t) l
                       end /\
    (lt_err t <> None -> lt_tok t = TkError) /\
    (forall rest' ts junk, map lt_tok (pre ++ t :: rest') = ts ++ TkEOF :: junk -> ~ Dsettings ts) /\
    (exists suffix s3, p_config ov (mkP root0 (pre ++ suffix) false O 0 None) = POk s3).
Proof. intros atof FS c top text HFS Hb. cbv zeta. apply read_syntax_error; assumption. Qed.
Print Assumptions C02_read_syntax_error.

(* every read within the nesting limit has exactly one of three outcomes: success with the denoted configuration; a
   semantic error (for a derivable text: the first offence, with its message, file and line); or a syntax error at the
   first token that cannot continue a derivation.  No other outcome exists (totality of scanner and parser: C03). *)
Theorem C02_read_trichotomy : forall atof FS c top text,
  (forall f content, fs_lookup FS f = Some (FFile content) -> bytes_ok content) -> bytes_ok text ->
  let toks := fst (lex_top atof FS (set_files (set_root (set_err c err0) new_root) []) top text) in
  let ov := get_option c OPT_OVERRIDES in
  let root0 := set_pos new_root 0 top in
  let r := config_read atof FS c top text in
  let res := p_config ov (mkP root0 toks false O 0 None) in
  max_nest toks 0 0 <= NEST_LIMIT ->
  (rd_out_ r = RdOk /\
   exists ms, wf_m ms = true /\ spells ms toks /\ sem_m ov ms [] = true /\
              pobs (c_root (rd_cfg r)) = PN None None PGroup 0 (den_m ms [])) \/
  (rd_out_ r = RdFail /\
   exists e s', res = PErr e s' /\ (e = PErrDup \/ e = PErrMismatch) /\
     forall ms, wf_m ms = true -> spells ms toks ->
       sem_m ov ms [] = false /\
       exists l fi, err_m ov ms [] = Some (e, (l, fi)) /\ c_err (rd_cfg r) = mkErr 2 (Some (perr_text e)) fi l) \/
  (rd_out_ r = RdFail /\
   (forall ms, wf_m ms = true -> ~ spells ms toks) /\
   exists s' pre t rest,
     res = PErr PErrSyntax s' /\ toks = pre ++ t :: rest /\ p_toks s' = t :: rest /\
     c_err (rd_cfg r) = match lt_err t with
                        | None => mkErr 2 (Some ERR_SYNTAX) (lt_file t) (lt_line t)
                        | Some (txt, f, l) => mkErr 2 (Some txt) (lt_file t) l
                        end /\
     (lt_err t <> None -> lt_tok t = TkError) /\
     (forall rest' ts junk, map lt_tok (pre ++ t :: rest') = ts ++ TkEOF :: junk -> ~ Dsettings ts) /\
     (exists suffix s3, p_config ov (mkP root0 (pre ++ suffix) false O 0 None) = POk s3)).
Proof. intros atof FS c top text HFS Hb. cbv zeta. apply read_trichotomy; assumption. Qed.
Print Assumptions C02_read_trichotomy.

(* evaluated: "a = ( 1 ,<LF><LF> } ) ;<LF>" read by config_read fails with "syntax error" at line 3 *)
Example C02_read_syntax_error_example :
  let r := config_read (fun _ => 0) [] cfg_init None ex_text in
  (rd_out_ r, c_err (rd_cfg r)) = (RdFail, mkErr 2 (Some ERR_SYNTAX) None 3).
Proof. exact ex_read_syntax_error. Qed.

(* non-vacuity:  a = ( 1 , } ) ; <end>  - the error is at the closing brace in the middle, line 3; the tokens before
   it followed by  ) <end>  are accepted *)
Example C02_syntax_error_example :
  exists pre t rest s',
    p_config false (mkP new_root ParseSyntax.ex_lts false O 0 None) = PErr PErrSyntax s' /\
    ParseSyntax.ex_lts = pre ++ t :: rest /\ p_toks s' = t :: rest /\ t = ParseSyntax.ex_bad /\
    (forall rest' ts junk, map lt_tok (pre ++ t :: rest') = ts ++ TkEOF :: junk -> ~ Dsettings ts) /\
    (exists suffix s3, p_config false (mkP new_root (pre ++ suffix) false O 0 None) = POk s3).
Proof. exact ParseSyntax.ex_first_offence. Qed.


(* ------------------------------------------------------------------------------------------------------- *)
(* the compiled LALR(1) tables of grammar.c implement the parser model (LalrEngine.v, LalrFacts.v)            *)
(* ------------------------------------------------------------------------------------------------------- *)

(* the table-driven engine (bison's driver over the tables regenerated from lib/grammar.c) and the recursive-descent
   model give the same answer on every token list, every root group, both override settings *)
Theorem C02_lalr_equiv : forall ov root lts fuel,
  has_stop (map lt_tok lts) -> s_ty root = TGroup -> (4 * length lts + 1 <= fuel)%nat ->
  lalr_parse LalrEngine.the_tables ov fuel (mkP root lts false 0 0 None) =
  lalr_expected (p_config ov (mkP root lts false 0 0 None)).
Proof. exact lalr_equiv. Qed.
Print Assumptions C02_lalr_equiv.

(* errors: the same kind, in the same state (tree so far, offending token, line, file, tokens read) *)
Theorem C02_lalr_equiv_err : forall ov root lts fuel e s',
  has_stop (map lt_tok lts) -> s_ty root = TGroup -> (4 * length lts + 1 <= fuel)%nat ->
  (lalr_parse LalrEngine.the_tables ov fuel (mkP root lts false 0 0 None) = PErr e s' <->
   p_config ov (mkP root lts false 0 0 None) = PErr e s').
Proof. exact lalr_equiv_err. Qed.
Print Assumptions C02_lalr_equiv_err.

(* acceptance: the same inputs, the same tree; the engine has shifted the end-of-input token the model only read *)
Theorem C02_lalr_equiv_ok : forall ov root lts fuel s',
  has_stop (map lt_tok lts) -> s_ty root = TGroup -> (4 * length lts + 1 <= fuel)%nat ->
  p_config ov (mkP root lts false 0 0 None) = POk s' ->
  lalr_parse LalrEngine.the_tables ov fuel (mkP root lts false 0 0 None) = POk (shift s') /\
  p_root (shift s') = p_root s' /\ p_read (shift s') = p_read s' /\ p_line (shift s') = p_line s' /\
  p_file (shift s') = p_file s'.
Proof. exact lalr_equiv_ok. Qed.
Print Assumptions C02_lalr_equiv_ok.

(* hence the compiled tables accept exactly the derivable, semantically valid token lists (with C02_accept_iff) *)
Theorem C02_lalr_accept_iff : forall ov root0, s_pl root0 = PGroup -> s_kids root0 = [] -> forall lts fuel,
  has_stop (map lt_tok lts) -> (4 * length lts + 1 <= fuel)%nat ->
  ((exists s', lalr_parse LalrEngine.the_tables ov fuel (mkP root0 lts false O 0 None) = POk s') <->
   (exists ms, wf_m ms = true /\ spells ms lts /\ sem_m ov ms [] = true)).
Proof.
  intros ov root0 Hp Hk lts fuel Hs Hf.
  assert (Hty : s_ty root0 = TGroup) by (destruct root0 as [n pl k f h l fi]; cbn in Hp |- *; subst pl; reflexivity).
  rewrite (lalr_accepts_iff ov root0 lts fuel Hs Hty Hf). exact (accept_iff ov root0 Hp Hk lts).
Qed.
Print Assumptions C02_lalr_accept_iff.

(* the engine never gets stuck, never runs out of its fuel, never reads past the stopping token *)
Theorem C02_lalr_total : forall ov root lts fuel,
  has_stop (map lt_tok lts) -> s_ty root = TGroup -> (4 * length lts + 1 <= fuel)%nat ->
  match lalr_parse LalrEngine.the_tables ov fuel (mkP root lts false 0 0 None) with POk _ | PErr _ _ => True | _ => False end.
Proof. exact lalr_total. Qed.
Print Assumptions C02_lalr_total.

(* no state of the automaton shifts bison's `error` symbol: a syntax error aborts where it is detected *)
Theorem C02_lalr_no_error_recovery : forall q, shifts_error LalrEngine.the_tables q = false.
Proof. exact no_error_shift. Qed.

(* the macros the classified action texts and the driver rely on have the definitions the model assumes (translator) *)
Example C02_grammar_macros_as_modelled : forallb snd g_macros_as_modelled = true.
Proof. reflexivity. Qed.

(* BOUNDED (a regression test of the engine, not the proof): all 204 205 token-kind sequences of at most 4 symbols over 21
   representative tokens, each followed by end of input, both override settings: identical results, evaluated *)
Theorem C02_lalr_agrees_bounded : forallb agree (all_inputs N_bound) = true.
Proof. exact lalr_agrees_bounded. Qed.

(* evaluated: a = { b = [1, 2]; c = ( "x" "y", { } ) }; through the engine *)
Example C02_lalr_example :
  lalr_parse LalrEngine.the_tables false (lalr_fuel ex_nested) (start ex_nested) = lalr_expected (p_config false (start ex_nested)) /\
  (exists s, lalr_parse LalrEngine.the_tables true (lalr_fuel ex_syntax) (start ex_syntax) = PErr PErrSyntax s /\
             p_config true (start ex_syntax) = PErr PErrSyntax s /\ p_line s = 4 /\ p_read s = 5%nat).
Proof. split; [exact (proj1 lalr_nested) | exact lalr_syntax]. Qed.


(* ---- the reader over the compiled tables (ReadLalr.v): config_read with bison's driver over the regenerated tables in
   place of the recursive-descent model is the same function - every field of the result - so every read-level theorem of
   this file (and of C01, C03, C09, C10, C20) is a theorem about the table-driven reader ---- *)
Theorem C02_read_lalr_eq : forall atof FS,
  (forall f content, fs_lookup FS f = Some (FFile content) -> bytes_ok content) ->
  forall c top text, bytes_ok text ->
  config_read_lalr atof FS c top text = config_read atof FS c top text.
Proof. exact config_read_lalr_eq. Qed.
Print Assumptions C02_read_lalr_eq.

Theorem C02_read_file_lalr_eq : forall atof FS,
  (forall f content, fs_lookup FS f = Some (FFile content) -> bytes_ok content) ->
  forall c path, config_read_file_lalr atof FS c path = config_read_file atof FS c path.
Proof. exact config_read_file_lalr_eq. Qed.
Print Assumptions C02_read_file_lalr_eq.
