(* ThreadLocale.v — C14 below the granularity of whole API calls: N threads whose reads / writes are split
   into the micro-steps of the locale switch of libconfig.c (__config_locale_override, the parse or the
   write itself, __config_locale_restore).  Definitions only; the proofs are in ThreadLocaleFacts.v.

   Shared by all threads: the global locale object, the counter of locale identities (newlocale), the
   list of freed identities (freelocale).  Per thread: its own thread locale (uselocale; None =
   LC_GLOBAL_LOCALE), its own data, the phase of its pending call, the calls still to do, the results
   obtained so far and — ghost — the radix character under which each body ran.

   A call is (nl_ok, body): does this call's newlocale succeed, and the read / write as a function of the
   radix character in effect for the calling thread and of the thread's data.  The three micro-steps of
   a call apply Locale.loc_override / eff_radix / loc_restore to the calling thread's view of the shared
   state (global locale, its own thread locale, shared counter, shared freed list). *)
From Coq Require Import List ZArith Bool.
Import ListNotations.
From LC Require Import Base Locale.
Local Open Scope Z_scope.

Section Machine.
  Variables D R : Type.

  Record call := mkCall { c_ok : bool; c_body : Z -> D -> D * R }.

  (* Idle; Entered prev: the override is done, prev is what loc_override returned; Ran prev: the body ran *)
  Inductive phase := Idle | Entered (prev : option (option lobj)) | Ran (prev : option (option lobj)).

  Record thread := mkThread {
    t_loc : option lobj;
    t_data : D;
    t_phase : phase;
    t_todo : list call;          (* head = the pending call when the phase is not Idle *)
    t_res : list R;
    t_rad : list Z }.            (* the radix character under which each body ran *)

  Record machine := mkM { m_global : lobj; m_next : Z; m_freed : list Z; m_threads : list thread }.

  (* what thread [th] sees of the locale state *)
  Definition view (m : machine) (th : thread) : lstate :=
    mkLoc (m_global m) (t_loc th) (m_next m) (m_freed m).

  Fixpoint upd {A} (i : nat) (x : A) (l : list A) : list A :=
    match l, i with
    | [], _ => []
    | _ :: r, O => x :: r
    | y :: r, S i' => y :: upd i' x r
    end.

  (* write back the shared part of a view and thread i's new state *)
  Definition commit (m : machine) (i : nat) (s : lstate) (th : thread) : machine :=
    mkM (ls_global s) (ls_next s) (ls_freed s) (upd i th (m_threads m)).

  (* the next micro-step of thread i: Enter, Run or Leave according to its phase *)
  Definition step (i : nat) (m : machine) : machine :=
    match nth_error (m_threads m) i with
    | None => m
    | Some th =>
      match t_todo th with
      | [] => m
      | c :: rest =>
        let s := view m th in
        match t_phase th with
        | Idle =>
            let '(s1, prev) := loc_override (c_ok c) s in
            commit m i s1 (mkThread (ls_thread s1) (t_data th) (Entered prev) (t_todo th) (t_res th) (t_rad th))
        | Entered prev =>
            let rad := eff_radix s in
            let '(d', r) := c_body c rad (t_data th) in
            commit m i s (mkThread (t_loc th) d' (Ran prev) (t_todo th) (t_res th ++ [r]) (t_rad th ++ [rad]))
        | Ran prev =>
            let s1 := loc_restore s prev in
            commit m i s1 (mkThread (ls_thread s1) (t_data th) Idle rest (t_res th) (t_rad th))
        end
      end
    end.

  Fixpoint run_machine (sched : list nat) (m : machine) : machine :=
    match sched with [] => m | i :: r => run_machine r (step i m) end.

  (* initial states *)
  Record tspec := mkSpec { ts_loc : option lobj; ts_data : D; ts_prog : list call }.
  Definition init_thread (sp : tspec) : thread := mkThread (ts_loc sp) (ts_data sp) Idle (ts_prog sp) [] [].
  Definition init_machine (g : lobj) (next : Z) (freed : list Z) (sps : list tspec) : machine :=
    mkM g next freed (map init_thread sps).

  Definition finished (th : thread) : Prop := t_phase th = Idle /\ t_todo th = [].
  Definition all_finished (m : machine) : Prop := forall th, In th (m_threads m) -> finished th.

  (* one thread alone: fold Locale.with_locale over its calls on a single-thread lstate.
     Result: (results, radix characters the bodies ran under, final data), final locale state *)
  Fixpoint alone (s : lstate) (d : D) (p : list call) : (list R * list Z * D) * lstate :=
    match p with
    | [] => (([], [], d), s)
    | c :: p' =>
        let '((rad, (d', r)), s') := with_locale (c_ok c) s (fun rad => (rad, c_body c rad d)) in
        let '((rs, zs, d''), s'') := alone s' d' p' in
        ((r :: rs, rad :: zs, d''), s'')
    end.

  (* the identities newlocale hands out while the counter goes from n0 to n *)
  Definition created (n0 n : Z) : list Z := map (fun k => n0 + Z.of_nat k) (seq 0 (Z.to_nat (n - n0))).

  (* the temporary object a thread holds (installed by its Enter, not yet freed by its Leave) *)
  Definition live1 (th : thread) : list Z :=
    match t_phase th with
    | Entered (Some _) | Ran (Some _) => match t_loc th with Some l => [lo_id l] | None => [] end
    | _ => []
    end.

  (* ---- the process-wide variant: what an implementation without uselocale would do —
     Enter = old = setlocale(LC_NUMERIC, NULL); setlocale(LC_NUMERIC, "C"), Leave = setlocale(LC_NUMERIC, old).
     The saved value is kept in the same phase slot (Some (Some old)). ---- *)
  Definition gstep (i : nat) (m : machine) : machine :=
    match nth_error (m_threads m) i with
    | None => m
    | Some th =>
      match t_todo th with
      | [] => m
      | c :: rest =>
        match t_phase th with
        | Idle =>
            if c_ok c then
              mkM (mkLobj (m_next m) 46 c_name) (m_next m + 1) (m_freed m)
                  (upd i (mkThread (t_loc th) (t_data th) (Entered (Some (Some (m_global m)))) (t_todo th) (t_res th) (t_rad th)) (m_threads m))
            else
              mkM (m_global m) (m_next m) (m_freed m)
                  (upd i (mkThread (t_loc th) (t_data th) (Entered None) (t_todo th) (t_res th) (t_rad th)) (m_threads m))
        | Entered prev =>
            let rad := eff_radix (view m th) in
            let '(d', r) := c_body c rad (t_data th) in
            mkM (m_global m) (m_next m) (m_freed m)
                (upd i (mkThread (t_loc th) d' (Ran prev) (t_todo th) (t_res th ++ [r]) (t_rad th ++ [rad])) (m_threads m))
        | Ran prev =>
            mkM (match prev with Some (Some old) => old | _ => m_global m end) (m_next m)
                (m_freed m ++ match prev with Some (Some _) => [lo_id (m_global m)] | _ => [] end)
                (upd i (mkThread (t_loc th) (t_data th) Idle rest (t_res th) (t_rad th)) (m_threads m))
        end
      end
    end.

  Fixpoint grun_machine (sched : list nat) (m : machine) : machine :=
    match sched with [] => m | i :: r => grun_machine r (gstep i m) end.
End Machine.

Arguments mkCall {D R}.
Arguments c_ok {D R}.
Arguments c_body {D R}.
Arguments mkThread {D R}.
Arguments t_loc {D R}.
Arguments t_data {D R}.
Arguments t_phase {D R}.
Arguments t_todo {D R}.
Arguments t_res {D R}.
Arguments t_rad {D R}.
Arguments mkM {D R}.
Arguments m_global {D R}.
Arguments m_next {D R}.
Arguments m_freed {D R}.
Arguments m_threads {D R}.
Arguments view {D R}.
Arguments commit {D R}.
Arguments step {D R}.
Arguments run_machine {D R}.
Arguments mkSpec {D R}.
Arguments ts_loc {D R}.
Arguments ts_data {D R}.
Arguments ts_prog {D R}.
Arguments init_thread {D R}.
Arguments init_machine {D R}.
Arguments finished {D R}.
Arguments all_finished {D R}.
Arguments alone {D R}.
Arguments live1 {D R}.
Arguments gstep {D R}.
Arguments grun_machine {D R}.
