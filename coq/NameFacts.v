(* NameFacts.v — every name token the scanner returns is a valid setting name (__config_validate_name): the
   documented name pattern and the validation function describe the same strings.  Hence config_setting_add never
   refuses a name that came from the scanner for being malformed (the parser's "duplicate setting name" is always a
   real duplicate).  Lemmas behind Properties_C02 / C18. *)
From Coq Require Import List ZArith NArith Bool Lia.
Import ListNotations.
From LC Require Import Base Tree Fp Lookup Regex RegexFacts FlexEngine Bisim ScanAction ScannerSpec ScannerCert ScannerFacts Tokens Lexer Reader LexTotal ReadTotal.
From LC.gen Require Import Consts ScannerTables.
Local Open Scope Z_scope.

Definition cs_name1 := cs_union cs_alpha (cs_of [42]).
Definition cs_name2 := cs_union cs_alpha (cs_union cs_digit (cs_of [45; 95; 42])).

Lemma name_sets_checked :
  forallb (fun b => implb (in_cs cs_name1 b) (is_alpha b || (b =? 42)) && implb (in_cs cs_name2 b) (name_rest_ok b)) all_bytes = true.
Proof. vm_compute. reflexivity. Qed.

Lemma name1_ok b : 0 <= b < 256 -> in_cs cs_name1 b = true -> (is_alpha b || (b =? 42)) = true.
Proof.
  intros Hb H. pose proof (proj1 (forallb_forall _ _) name_sets_checked b (in_all_bytes b Hb)) as C. cbv beta in C.
  apply andb_true_iff in C as [C _]. rewrite H in C. exact C.
Qed.
Lemma name2_ok b : 0 <= b < 256 -> in_cs cs_name2 b = true -> name_rest_ok b = true.
Proof.
  intros Hb H. pose proof (proj1 (forallb_forall _ _) name_sets_checked b (in_all_bytes b Hb)) as C. cbv beta in C.
  apply andb_true_iff in C as [_ C]. rewrite H in C. exact C.
Qed.

Lemma star_name2 w : matches (Star (Chr cs_name2)) w -> bytes_ok w -> forallb name_rest_ok w = true.
Proof.
  intros H. remember (Star (Chr cs_name2)) as r eqn:Er. induction H as [ | | | | | a | a u v Hu _ Hne Hv IHv]; try discriminate Er.
  - reflexivity.
  - injection Er as ->. intros Hb. inversion Hu as [ | cs b Hin | | | | | ]; subst.
    unfold bytes_ok in Hb. cbn [app] in Hb. inversion Hb as [|? ? Hb1 Hb2]; subst. cbn [app forallb].
    rewrite (name2_ok b Hb1 Hin). apply IHv; [reflexivity | exact Hb2].
Qed.

Theorem name_pattern_valid w : matches p_name w -> bytes_ok w -> validate_name w = true.
Proof.
  unfold p_name. fold cs_name1 cs_name2. intros H Hb. inversion H as [ | | a b u v Hu Hv | | | | ]; subst.
  inversion Hu as [ | cs c Hin | | | | | ]; subst. cbn [app] in *. unfold bytes_ok in Hb. inversion Hb as [|? ? Hb1 Hb2]; subst.
  cbn [validate_name]. rewrite (name1_ok c Hb1 Hin). apply (star_name2 v Hv Hb2).
Qed.

(* the rule whose action returns a name is the name pattern *)
Definition name_rule_ok (s : srule) : bool :=
  match Lexer.action_of yy_actions (sr_no s) with AName => re_eqb (sr_re s) p_name | _ => true end.
Lemma name_rule_checked : forallb name_rule_ok spec = true.
Proof. vm_compute. reflexivity. Qed.

Lemma name_rule sc bol rule pat :
  In (rule, pat) (spec_rules sc bol) -> Lexer.action_of yy_actions rule = AName -> pat = p_name.
Proof.
  unfold spec_rules. intros H Ha. apply in_map_iff in H as (s & E & Hs). apply filter_In in Hs as [Hs _]. injection E as <- <-.
  pose proof (proj1 (forallb_forall name_rule_ok spec) name_rule_checked s Hs) as C. unfold name_rule_ok in C. rewrite Ha in C.
  apply re_eqb_eq. exact C.
Qed.

Lemma bytes_ok_firstn n l : bytes_ok l -> bytes_ok (firstn n l).
Proof. unfold bytes_ok. revert l. induction n as [|n IH]; intros l H; [constructor|]. destruct l; [constructor|]. inversion H; subst. constructor; auto. Qed.

Lemma numeric_not_name atof a text t : numeric_token atof a text = Some t -> forall nm, t <> TkName nm.
Proof.
  unfold numeric_token. intros H nm ->. destruct a; try discriminate H.
  - destruct (b64_is_inf (atof text)); discriminate H.
  - destruct (parse_integer text) as [v|]; [|discriminate H]. destruct (in_int v); discriminate H.
  - destruct (parse_integer text); discriminate H.
  - destruct (hex_value text); discriminate H.
  - destruct (hex64_value text); discriminate H.
Qed.

Section StepName.
  Variable atof : bytes -> Z.
  Variable FS : fs.
  Variable incdir : option bytes.
  Variable incf : incfn.
  Variable max_depth : Z.
  Notation lex_step := (lex_step ScannerCert.the_tables yy_rule_can_match_eol yy_actions atof FS incdir incf max_depth).

  Definition names_ok (res : step_res) : Prop :=
    match res with
    | STok tk _ _ => forall nm, lt_tok tk = TkName nm -> validate_name nm = true
    | _ => True
    end.

  Theorem lex_step_name st b : cond_ok st -> b_rest b <> [] -> bytes_ok (b_rest b) -> names_ok (lex_step st b).
  Proof.
    intros Hc Hne Hb. unfold Lexer.lex_step.
    destruct (b_rest b) as [|c0 r0] eqn:Er; [contradiction|].
    destruct (scanner_progress (l_cond st) (b_bol b) c0 r0 (Hc _) Hb) as (rule & len & pat & Em & Hlen & Hin & Hmat).
    rewrite Em. destruct len as [|len']; [lia|]. cbv zeta.
    set (text := firstn (S len') (c0 :: r0)) in *.
    assert (Hother : forall t line st0 b0, (forall nm, t <> TkName nm) ->
              names_ok (let '(tk, st') := emit st0 line t None in STok tk st' b0)).
    { intros t line st0 b0 Ht. unfold emit. cbn. intros nm E. exfalso. exact (Ht nm E). }
    assert (Hnum : forall a line b0, names_ok (match numeric_token atof a text with
                                               | Some t => let '(tk, st') := emit st line t None in STok tk st' b0
                                               | None => stop_error st line None end)).
    { intros a line b0. destruct (numeric_token atof a text) as [t|] eqn:En; [|unfold stop_error, emit; exact I].
      apply Hother. exact (numeric_not_name _ _ _ _ En). }
    destruct (Lexer.action_of yy_actions rule) eqn:Ea; try exact I; try apply Hnum; try (apply Hother; intros nm; discriminate).
    - (* end of string *) unfold emit. cbn. intros nm E. discriminate E.
    - (* include directive *)
      destruct (Z.of_nat (length (l_names (set_acc st []))) - 1 =? max_depth); [unfold stop_error, emit; exact I|].
      destruct (call_incfn incdir incf (until_nul (l_acc st))) as [[evs err] files].
      destruct err; [unfold stop_error, emit; exact I|].
      destruct files as [[|f1 frest]|]; try exact I.
      destruct (fs_lookup FS f1) as [[content|]|]; try (unfold stop_error, emit; exact I); try exact I.
    - (* the name rule *)
      unfold emit. cbn. intros nm E. injection E as <-.
      rewrite (name_rule _ _ _ _ Hin Ea) in Hmat. apply (name_pattern_valid text Hmat). apply bytes_ok_firstn. exact Hb.
  Qed.
End StepName.

(* every name token of every stream config_read hands to the parser is a valid setting name *)
Theorem scanner_names_valid atof FS :
  (forall f content, fs_lookup FS f = Some (FFile content) -> bytes_ok content) ->
  forall c top text, bytes_ok text ->
  Forall (fun tk => forall nm, lt_tok tk = TkName nm -> validate_name nm = true) (fst (lex_top atof FS c top text)).
Proof.
  intros HFS c top text Hb.
  pose proof (lex_top_all atof FS HFS (fun tk => forall nm, lt_tok tk = TkName nm -> validate_name nm = true)
                ltac:(intros tk E nm E2; rewrite E in E2; discriminate E2) ltac:(intros tk E nm E2; rewrite E in E2; discriminate E2)
                (fun incdir incf st b Hc Hne Hbb => lex_step_name atof FS incdir incf MAX_INCLUDE_DEPTH st b Hc Hne Hbb) c top text Hb) as H.
  destruct (lex_top atof FS c top text) as [toks stop]. destruct H as (_ & _ & H). exact H.
Qed.
