(* LexStream.v — C20 at the level of the scanner / include machine and of config_read: the scanner of Lexer.v with every
   buffer replaced by the flex buffer machinery of FlexBuf.v (a yy_scan_bytes buffer or a stream buffer for the top-level
   input, a fresh stream buffer for every included file, fed by reads of arbitrary sizes) returns exactly what Lexer.v
   returns - tokens with their lines, files, events and errors, and the stop kind - for every file system, every include
   setting and every chunking oracle; hence config_read over it = config_read.

   One step of the stream scanner = FlexBuf.fb_match (the skeleton's matcher on the buffer, refills and growths included)
   followed by the rule action of Lexer.lex_step.  Lexer.v is not edited: the action part of lex_step is reused by running
   lex_step on the one-lexeme buffer [yytext] (lemma lex_step_lexeme: lex_step depends on the rest of its buffer only
   through the (rule, length) flex_match selects, through the lexeme, and through what it leaves in the buffer). *)
From Coq Require Import List ZArith Bool Lia.
Import ListNotations.
From LC Require Import Base Tree Fp Lookup Api ApiStep ScanAction FlexEngine Tokens Lexer Parser Reader FlexBuf FlexBufFacts.
From LC.gen Require Import Consts ScannerTables.
Local Open Scope Z_scope.

(* ---- the match on the lexeme alone ---- *)
Lemma run_lexeme T bs : forall s n last r m, run T s n last bs = Some (r, m) ->
  last = Some (r, m) \/ ((n <= m)%nat /\ run T s n last (firstn (m - n) bs) = Some (r, m)).
Proof.
  induction bs as [|b rest IH]; intros s n last r m H.
  - cbn [run] in H. destruct (accept_of T s =? 0) eqn:Ea; [left; exact H|]. injection H as <- <-. right. split; [lia|].
    rewrite Nat.sub_diag. cbn [firstn run]. rewrite Ea. reflexivity.
  - cbn [run] in H.
    assert (Hl : (if accept_of T s =? 0 then last else Some (accept_of T s, n)) = Some (r, m) ->
                 last = Some (r, m) \/ ((n <= m)%nat /\ run T s n last (firstn (m - n) (b :: rest)) = Some (r, m))).
    { intros E. destruct (accept_of T s =? 0) eqn:Ea; [left; exact E|]. injection E as <- <-. right. split; [lia|].
      rewrite Nat.sub_diag. cbn [firstn run]. rewrite Ea. reflexivity. }
    destruct (step_byte T s b =? t_jam T) eqn:Ej; [exact (Hl H)|].
    destruct (IH _ _ _ _ _ H) as [E | [Hle E]]; [exact (Hl E)|].
    right. split; [lia|]. replace (m - n)%nat with (S (m - S n)) by lia. cbn [firstn run]. rewrite Ej. exact E.
Qed.

Lemma flex_match_lexeme T sc bol bs r len : flex_match T sc bol bs = Some (r, len) -> flex_match T sc bol (firstn len bs) = Some (r, len).
Proof.
  unfold flex_match. intros H. destruct (run_lexeme T bs _ _ _ _ _ H) as [E | [_ E]]; [discriminate E|]. rewrite Nat.sub_0_r in E. exact E.
Qed.

(* the result of a step with another rest of the buffer *)
Definition set_rest (r : step_res) (x : bytes) : step_res :=
  match r with
  | SCont st b => SCont st (mkBuf x (b_bol b) (b_line b))
  | STok tk st b => STok tk st (mkBuf x (b_bol b) (b_line b))
  | SIncl st files l b => SIncl st files l (mkBuf x (b_bol b) (b_line b))
  | SStop _ _ _ _ => r
  end.

Record sbuf := mkSB { sb_fb : fbstate; sb_strm : stream; sb_bol : bool; sb_line : Z }.
Inductive top_input := TopString | TopStream (chunks : list nat).

Section LexStream.
  Variable T : tables.
  Variable rule_eol : list Z.
  Variable actions : list (Z * action).
  Variable atof : bytes -> Z.
  Variable FS : fs.
  Variable incdir : option bytes.
  Variable incf : incfn.
  Variable max_depth : Z.
  Variable buf_size : nat.                              (* YY_BUF_SIZE *)
  Variable rbs : nat.                                   (* YY_READ_BUF_SIZE *)
  Hypothesis Hbuf : (1 <= buf_size)%nat.
  Hypothesis Hrbs : (1 <= rbs)%nat.
  (* how the stream of an included file delivers its content: any function of the scanner state at the moment the file is
     opened (which holds the file's name, the include stack and the history of opened files) and of the content *)
  Variable chunks_of : lstate -> bytes -> list nat.

  Notation lex_step := (lex_step T rule_eol actions atof FS incdir incf max_depth).
  Notation lex_buf := (lex_buf T rule_eol actions atof FS incdir incf max_depth).
  Notation lex_depth := (lex_depth T rule_eol actions atof FS incdir incf max_depth).

  Lemma lex_step_lexeme st rest bol line r len : flex_match T (l_cond st) bol rest = Some (r, len) ->
    lex_step st (mkBuf rest bol line) = set_rest (lex_step st (mkBuf (firstn len rest) bol line)) (skipn len rest).
  Proof.
    intros Hm. pose proof (flex_match_lexeme _ _ _ _ _ _ Hm) as Hm2.
    unfold Lexer.lex_step. cbn [b_rest b_bol b_line]. rewrite Hm, Hm2. destruct len as [|len]; [reflexivity|]. cbv zeta.
    rewrite firstn_firstn, Nat.min_id.
    generalize (skipn (S len) (firstn (S len) rest)). intros x.
    set (text := firstn (S len) rest).
    set (line' := if nthZ rule_eol r =? 0 then line else line + count_nl text).
    destruct (Lexer.action_of actions r); try reflexivity; try (unfold emit; reflexivity).
    - destruct (Z.of_nat (length (l_names (set_acc st []))) - 1 =? max_depth); [unfold stop_error, emit; reflexivity|].
      destruct (call_incfn incdir incf (until_nul (l_acc st))) as [[evs err] files].
      destruct err; [unfold stop_error, emit; reflexivity|].
      destruct files as [[|f1 frest]|]; try reflexivity.
      destruct (fs_lookup FS f1) as [[content|]|]; unfold stop_error, emit; reflexivity.
    - destruct (numeric_token atof AFloat text); [unfold emit | unfold stop_error, emit]; reflexivity.
    - destruct (numeric_token atof AInteger text); [unfold emit | unfold stop_error, emit]; reflexivity.
    - destruct (numeric_token atof AInteger64 text); [unfold emit | unfold stop_error, emit]; reflexivity.
    - destruct (numeric_token atof AHex text); [unfold emit | unfold stop_error, emit]; reflexivity.
    - destruct (numeric_token atof AHex64 text); [unfold emit | unfold stop_error, emit]; reflexivity.
  Qed.

  (* ---- the scanner over flex buffers ---- *)
  (* one step: the skeleton's matcher on the buffer, then the action of the rule on yytext *)
  Inductive sstep :=
  | SsEOB                                                       (* end of file on this buffer: the <<EOF>> rule *)
  | SsStep (r : step_res) (fb : fbstate) (strm : stream)        (* the action's result (its buffer holds flags and line only) *)
  | SsStuck.                                                    (* no rule matched / fatal: excluded for the libconfig tables *)

  Definition slex_step (st : lstate) (sb : sbuf) : sstep :=
    match fb_match T rbs (l_cond st) (sb_bol sb) (sb_fb sb) (sb_strm sb) with
    | (FbEOF, _, _) => SsEOB
    | (FbAct (Some (rule, len)), fb', strm') => SsStep (lex_step st (mkBuf (fb_yytext fb' len) (sb_bol sb) (sb_line sb))) fb' strm'
    | _ => SsStuck
    end.

  Section SBuf.
    Variable do_include : option (list bytes -> lstate -> Z -> list ltoken * lstop * lstate).

    Fixpoint slex_buf (fuel : nat) (st : lstate) (sb : sbuf) {struct fuel} : list ltoken * lstop * lstate * Z :=
      match fuel with
      | O => ([], StopStuck, st, sb_line sb)
      | S fuel' =>
          match slex_step st sb with
          | SsEOB => ([], StopEOB, st, sb_line sb)
          | SsStuck => ([], StopStuck, st, sb_line sb)
          | SsStep r fb' strm' =>
              match r with
              | SCont st' b' => slex_buf fuel' st' (mkSB fb' strm' (b_bol b') (b_line b'))
              | STok tk st' b' =>
                  let '(toks, stop, st'', l) := slex_buf fuel' st' (mkSB fb' strm' (b_bol b') (b_line b')) in (tk :: toks, stop, st'', l)
              | SStop toks stop st' l => (toks, stop, st', l)
              | SIncl st3' files line' b' =>
                  match do_include with
                  | None => ([], StopStuck, st3', line')
                  | Some incl =>
                      let '(toks, stop, st4) := incl files st3' line' in
                      match stop with
                      | StopEOB =>
                          let '(toks2, stop2, st6, l) := slex_buf fuel' (pop_frame st4) (mkSB fb' strm' (b_bol b') (b_line b')) in
                          (toks ++ toks2, stop2, st6, l)
                      | _ => (toks, stop, st4, line')
                      end
                  end
              end
          end
      end.
  End SBuf.

  (* every included file is read through a fresh stream buffer (yy_create_buffer(fp, YY_BUF_SIZE)) *)
  Fixpoint slex_depth (d : nat) (st0 : lstate) (content : bytes) : list ltoken * lstop * lstate * Z :=
    slex_buf (match d with O => None | S d' => Some (lex_files FS (slex_depth d')) end)
             (S (length content)) st0 (mkSB (fb_of_stream buf_size) (content, chunks_of st0 content) true 1).

  (* ---- it computes what Lexer.v computes ---- *)
  Definition incl_ext (d1 d2 : option (list bytes -> lstate -> Z -> list ltoken * lstop * lstate)) : Prop :=
    match d1, d2 with
    | None, None => True
    | Some i1, Some i2 => forall files st l, i1 files st l = i2 files st l
    | _, _ => False
    end.

  Lemma slex_buf_eq d1 d2 : incl_ext d1 d2 -> forall fuel st sb, Inv (sb_fb sb) (sb_strm sb) ->
    slex_buf d1 fuel st sb = lex_buf d2 fuel st (mkBuf (rem (sb_fb sb) (sb_strm sb)) (sb_bol sb) (sb_line sb)).
  Proof.
    intros Hd. induction fuel as [|f IH]; intros st [fb strm bol line] HI; cbn [sb_fb sb_strm sb_bol sb_line] in *; [reflexivity|].
    cbn [slex_buf Lexer.lex_buf b_rest]. unfold slex_step. cbn [sb_fb sb_strm sb_bol sb_line].
    destruct (fb_match_correct T rbs Hrbs (l_cond st) bol fb strm HI) as (fb' & strm' & HI' & H).
    destruct (rem fb strm) as [|c0 r0] eqn:Er.
    - destruct H as [-> _]. reflexivity.
    - destruct (flex_match T (l_cond st) bol (c0 :: r0)) as [[rule len]|] eqn:Em.
      + destruct H as (-> & Hr & Hy). rewrite Hy. rewrite (lex_step_lexeme st (c0 :: r0) bol line rule len Em).
        destruct (lex_step st (mkBuf (firstn len (c0 :: r0)) bol line)) as [st' b'|tk st' b'|toks stop st' l|st3 files line' b']; cbn [set_rest].
        * rewrite (IH st' (mkSB fb' strm' (b_bol b') (b_line b')) HI'). cbn [sb_fb sb_strm sb_bol sb_line]. rewrite Hr. reflexivity.
        * rewrite (IH st' (mkSB fb' strm' (b_bol b') (b_line b')) HI'). cbn [sb_fb sb_strm sb_bol sb_line]. rewrite Hr. reflexivity.
        * reflexivity.
        * destruct d1 as [i1|], d2 as [i2|]; cbn [incl_ext] in Hd; try contradiction; [|reflexivity].
          rewrite (Hd files st3 line'). destruct (i2 files st3 line') as [[toks stop] st4]. destruct stop; try reflexivity.
          rewrite (IH (pop_frame st4) (mkSB fb' strm' (b_bol b') (b_line b')) HI'). cbn [sb_fb sb_strm sb_bol sb_line]. rewrite Hr. reflexivity.
      + destruct H as [-> _]. unfold Lexer.lex_step. cbn [b_rest b_bol b_line]. rewrite Em. reflexivity.
  Qed.

  Lemma lex_files_ext (sf1 sf2 : lstate -> bytes -> list ltoken * lstop * lstate * Z) :
    (forall st content, sf1 st content = sf2 st content) -> forall files st l, lex_files FS sf1 files st l = lex_files FS sf2 files st l.
  Proof.
    intros H. induction files as [|f rest IH]; intros st l; cbn [lex_files]; [reflexivity|].
    destruct (fs_lookup FS f) as [[content|]|]; try reflexivity. rewrite H.
    destruct (sf2 (push_open (add_ev (set_name st (Some f)) (LvOpen f)) f) content) as [[[toks stop] st4] line].
    destruct stop; try reflexivity. rewrite IH. reflexivity.
  Qed.

  Theorem slex_depth_eq : forall d st content, slex_depth d st content = lex_depth d st content.
  Proof.
    induction d as [|d IH]; intros st content; cbn [slex_depth Lexer.lex_depth].
    - rewrite (slex_buf_eq None None I); [reflexivity | apply Inv_stream; exact Hbuf].
    - rewrite (slex_buf_eq (Some (lex_files FS (slex_depth d))) (Some (lex_files FS (lex_depth d)))); [reflexivity | | apply Inv_stream; exact Hbuf].
      cbn [incl_ext]. intros files st' l. apply lex_files_ext. exact IH.
  Qed.

  (* the top-level input: config_read_string scans a yy_scan_bytes buffer, config_read / config_read_file a stream *)
  Definition top_sbuf (mode : top_input) (text : bytes) : sbuf :=
    match mode with
    | TopString => mkSB (fb_of_string text) ([], []) true 1
    | TopStream chunks => mkSB (fb_of_stream buf_size) (text, chunks) true 1
    end.

  Definition slex_all (d : nat) (mode : top_input) (st0 : lstate) (text : bytes) : list ltoken * lstop * lstate * Z :=
    slex_buf (match d with O => None | S d' => Some (lex_files FS (slex_depth d')) end) (S (length text)) st0 (top_sbuf mode text).

  Theorem slex_all_eq : forall d mode st0 text, slex_all d mode st0 text = lex_depth d st0 text.
  Proof.
    intros d mode st0 text. unfold slex_all.
    assert (HI : Inv (sb_fb (top_sbuf mode text)) (sb_strm (top_sbuf mode text))).
    { destruct mode; cbn; [apply Inv_string | apply Inv_stream; exact Hbuf]. }
    assert (Hr : mkBuf (rem (sb_fb (top_sbuf mode text)) (sb_strm (top_sbuf mode text))) (sb_bol (top_sbuf mode text)) (sb_line (top_sbuf mode text))
                 = mkBuf text true 1).
    { destruct mode; cbn [top_sbuf sb_fb sb_strm sb_bol sb_line]; [rewrite rem_string | rewrite rem_stream]; reflexivity. }
    destruct d as [|d]; cbn [Lexer.lex_depth].
    - rewrite (slex_buf_eq None None I _ _ _ HI), Hr. reflexivity.
    - rewrite (slex_buf_eq (Some (lex_files FS (slex_depth d))) (Some (lex_files FS (lex_depth d))) ltac:(cbn [incl_ext]; intros; apply lex_files_ext; apply slex_depth_eq) _ _ _ HI), Hr.
      reflexivity.
  Qed.
End LexStream.

(* ================================================================================================================ *)
(* The compiled scanner: lex_top and config_read over flex buffers                                                   *)
(* ================================================================================================================ *)
Section Top.
  Variable atof : bytes -> Z.
  Variable buf_size rbs : nat.
  Variable chunks_of : lstate -> bytes -> list nat.

  Definition slex_top (FS : fs) (c : cfg) (top : option bytes) (mode : top_input) (text : bytes) : list ltoken * lstop :=
    let '(toks, stop, st, line) :=
      slex_all the_tables yy_rule_can_match_eol yy_actions atof FS (c_incdir c) (c_incfn c) MAX_INCLUDE_DEPTH buf_size rbs chunks_of
               (Z.to_nat MAX_INCLUDE_DEPTH + 1) mode (lstate0 top) text in
    match stop with
    | StopEOB => let '(tk, _) := emit st line TkEOF None in (toks ++ [tk], StopEOB)
    | _ => (toks, stop)
    end.

  (* Reader.config_read with the token source replaced (config_read is a function of the token list and the stop kind) *)
  Definition config_read_stream (FS : fs) (c : cfg) (top : option bytes) (mode : top_input) (text : bytes) : rd_result :=
    let '(c1, ev_clear) := clear_cfg (set_err c err0) in
    let root0 := set_pos (c_root c1) 0 top in
    let '(toks, stop) := slex_top FS c1 top mode text in
    let s0 := mkP root0 toks false O 0 None in
    if NEST_LIMIT <? max_nest toks 0 0 then mkRd c1 RdNest ev_clear [] else
    let res := p_config (get_option c1 OPT_OVERRIDES) s0 in
    let fin := match res with POk s | PErr _ s | PFatal s | PStuck s => s end in
    let rtoks := read_tokens toks (p_read fin) in
    let lastt := last_read toks (p_read fin) in
    let evs := flat_map lt_events rtoks in
    let files := match lastt with Some t => lt_nfiles t | None => match top with Some t => [t] | None => [] end end in
    let err1 := apply_scan_errs (c_err c1) rtoks in
    match res with
    | POk s =>
        mkRd (set_files (set_root c1 (p_root s)) files) RdOk
             (ev_clear ++ flat_map levent_to_event (file_events toks (p_read fin))) (stdout_bytes evs)
    | PErr e s =>
        let err2 := yyerror err1 (p_line s) (perr_text e) in
        let err3 := mkErr 2 (e_text err2) (p_file s) (e_line err2) in
        mkRd (set_err (set_files (set_root c1 (p_root s)) files) err3) RdFail
             (ev_clear ++ flat_map levent_to_event (file_events toks (p_read fin))) (stdout_bytes evs)
    | PFatal s =>
        mkRd (set_root c1 (p_root s))
             (match stop with StopFatal code => RdExit code | _ => RdStuck end)
             (ev_clear ++ flat_map levent_to_event (flat_map lt_events toks)) (stdout_bytes (flat_map lt_events toks))
    | PStuck s => mkRd c1 RdStuck ev_clear []
    end.

  (* config_read_file: the file is a stream that delivers its content in reads of the sizes [chunks] *)
  Definition config_read_file_stream (FS : fs) (c : cfg) (path : bytes) (chunks : list nat) : rd_result :=
    match fs_lookup FS path with
    | Some (FFile content) =>
        let r := config_read_stream FS c (Some path) (TopStream chunks) content in
        mkRd (rd_cfg r) (rd_out_ r) ([EvOpen path] ++ rd_events r ++ [EvClose path]) (rd_stdout r)
    | Some FDir => mkRd (set_err c (mkErr 1 (Some ERR_IO) None 0)) RdFail [EvOpen path; EvClose path] []
    | None => mkRd (set_err c (mkErr 1 (Some ERR_IO) None 0)) RdFail [] []
    end.

  Hypothesis Hbuf : (1 <= buf_size)%nat.
  Hypothesis Hrbs : (1 <= rbs)%nat.

  Theorem slex_top_eq : forall FS c top mode text, slex_top FS c top mode text = lex_top atof FS c top text.
  Proof. intros. unfold slex_top, lex_top. rewrite (slex_all_eq _ _ _ _ _ _ _ _ _ _ Hbuf Hrbs). reflexivity. Qed.

  Theorem config_read_stream_eq : forall FS c top mode text, config_read_stream FS c top mode text = config_read atof FS c top text.
  Proof. intros. unfold config_read_stream, config_read. destruct (clear_cfg (set_err c err0)) as [c1 ev]. rewrite slex_top_eq. reflexivity. Qed.

  Theorem config_read_file_stream_eq : forall FS c path chunks, config_read_file_stream FS c path chunks = config_read_file atof FS c path.
  Proof.
    intros. unfold config_read_file_stream, config_read_file. destruct (fs_lookup FS path) as [[content|]|]; try reflexivity.
    rewrite config_read_stream_eq. reflexivity.
  Qed.
End Top.

(* C20, with YY_BUF_SIZE and YY_READ_BUF_SIZE: a string (yy_scan_bytes buffer), a stream however it delivers its data, and
   a file holding the same bytes give the same result of the read - tree, outcome, error fields, events, stdout - whatever
   the reads of the included files deliver *)
Theorem C20_config_read : forall atof FS c top text chunks chunks_of1 chunks_of2,
  config_read_stream atof BUF RBUF chunks_of1 FS c top TopString text = config_read atof FS c top text /\
  config_read_stream atof BUF RBUF chunks_of2 FS c top (TopStream chunks) text = config_read atof FS c top text.
Proof. intros. split; apply config_read_stream_eq; [apply BUF_pos | apply RBUF_pos | apply BUF_pos | apply RBUF_pos]. Qed.

Theorem C20_config_read_file : forall atof FS c path chunks chunks_of,
  config_read_file_stream atof BUF RBUF chunks_of FS c path chunks = config_read_file atof FS c path.
Proof. intros. apply config_read_file_stream_eq; [apply BUF_pos | apply RBUF_pos]. Qed.

Theorem C20_lex_top : forall atof FS c top mode text chunks_of,
  slex_top atof BUF RBUF chunks_of FS c top mode text = lex_top atof FS c top text.
Proof. intros. apply slex_top_eq; [apply BUF_pos | apply RBUF_pos]. Qed.

(* ---- example: buffers of 4 bytes, reads of at most 3 bytes; the top text  x = 1;<LF>@include "f"<LF>yyyyyyyyyy = 2;<LF>  arrives in reads
   of 1, 2, 3, 1, 1, ... bytes, the included file  s = "a<LF>b"; # k<LF>n = 42;<LF>  in reads of 2 then 1 bytes; tokens, lines, files, events and
   the tree are those of the string read ---- *)
Definition sx_top : bytes :=
  [120;32;61;32;49;59;10; 64;105;110;99;108;117;100;101;32;34;102;34;10; 121;121;121;121;121;121;121;121;121;121;32;61;32;50;59;10].
Definition sx_inc : bytes := [115;32;61;32;34;97;10;98;34;59;32;35;32;107;10;110;32;61;32;52;50;59;10].
Definition sx_fs : fs := [([102], FFile sx_inc)].
Definition sx_atof : bytes -> Z := fun _ => 0.
Definition sx_chunks : lstate -> bytes -> list nat := fun _ _ => [2; 1; 2; 1; 2; 1; 2; 1; 2; 1; 2; 1]%nat.

Example sx_tokens :
  slex_top sx_atof 4 3 sx_chunks sx_fs cfg_init None (TopStream [1; 2; 3; 1; 1; 2; 3; 1; 1; 1; 3]%nat) sx_top = lex_top sx_atof sx_fs cfg_init None sx_top /\
  slex_top sx_atof 4 3 sx_chunks sx_fs cfg_init None TopString sx_top = lex_top sx_atof sx_fs cfg_init None sx_top /\
  map lt_tok (fst (lex_top sx_atof sx_fs cfg_init None sx_top)) =
    [TkName [120]; TkP TEquals; TkInt 1; TkP TSemicolon; TkName [115]; TkP TEquals; TkString [97; 10; 98]; TkP TSemicolon;
     TkName [110]; TkP TEquals; TkInt 42; TkP TSemicolon; TkName [121;121;121;121;121;121;121;121;121;121]; TkP TEquals; TkInt 2; TkP TSemicolon; TkEOF].
Proof. vm_compute. auto. Qed.

Example sx_read :
  config_read_stream sx_atof 4 3 sx_chunks sx_fs cfg_init None (TopStream [1; 2; 3; 1; 1; 2; 3; 1; 1; 1; 3]%nat) sx_top = config_read sx_atof sx_fs cfg_init None sx_top /\
  rd_out_ (config_read sx_atof sx_fs cfg_init None sx_top) = RdOk.
Proof. vm_compute. auto. Qed.

Print Assumptions slex_all_eq.
Print Assumptions C20_lex_top.
Print Assumptions C20_config_read.
Print Assumptions C20_config_read_file.
