(* FileNames.v — C11, last clause: the file names reported by errors and by settings stay valid until the
   configuration is cleared or destroyed.  Every file name a setting's `file` field or the configuration's
   `error_file` points to is owned by the string vector config->filenames (c_files); a name is valid iff it is
   an element of that vector.

   Contents: files_valid / files_validb; the monotone lexer fact (lt_nfiles only grows along the token list,
   every token's current file name is in its own lt_nfiles); a read establishes files_valid whatever the
   configuration was before and wherever it fails; every API operation keeps it, with ONE exception that the
   code really has (config_clear frees the vector but leaves error_file untouched: see clear_keeps_error_file);
   induction over every history of reads, writes and API calls. *)
From Coq Require Import List ZArith Bool Lia.
Import ListNotations.
From LC Require Import Base Tree Fp Lookup Api ApiStep ScanAction FlexEngine Tokens Lexer LexFacts Parser Reader
  ReadFacts TreeFacts InvFacts GrammarFacts ParseWrite ParseSyntax Writer WriteFile RwFacts.
From LC.gen Require Import Consts ScannerTables.
Local Open Scope Z_scope.

(* ------------------------------------------------------------------------------------ *)
(* 1. the property *)

(* a file-name pointer is NULL or points to an element of the vector F *)
Definition okf (F : list bytes) (o : option bytes) : Prop :=
  match o with None => True | Some f => In f F end.

Definition okfb (F : list bytes) (o : option bytes) : bool :=
  match o with None => true | Some f => existsb (bytes_eqb f) F end.

(* every setting of the subtree (its root included) has a valid file name *)
Fixpoint tree_ok (F : list bytes) (s : setting) : Prop :=
  let 'Setting _ _ k _ _ _ fi := s in
  okf F fi /\ (fix go (l : list setting) : Prop :=
                 match l with [] => True | c :: r => tree_ok F c /\ go r end) k.

Fixpoint tree_okb (F : list bytes) (s : setting) : bool :=
  let 'Setting _ _ k _ _ _ fi := s in
  okfb F fi && (fix go (l : list setting) : bool :=
                  match l with [] => true | c :: r => tree_okb F c && go r end) k.

Definition settings_valid (c : cfg) : Prop := tree_ok (c_files c) (c_root c).
Definition error_valid (c : cfg) : Prop := okf (c_files c) (e_file (c_err c)).
Definition files_valid (c : cfg) : Prop := settings_valid c /\ error_valid c.

Definition files_validb (c : cfg) : bool :=
  tree_okb (c_files c) (c_root c) && okfb (c_files c) (e_file (c_err c)).

Lemma okfb_spec F o : okfb F o = true <-> okf F o.
Proof.
  destruct o as [f|]; cbn [okfb okf]; [|tauto]. rewrite existsb_exists. split.
  - intros (x & Hx & E). apply bytes_eqb_eq in E. subst x. exact Hx.
  - intros H. exists f. split; [exact H | apply bytes_eqb_refl].
Qed.

Lemma tree_ok_unfold F s : tree_ok F s <-> okf F (s_file s) /\ Forall (tree_ok F) (s_kids s).
Proof.
  destruct s as [n p k f h l fi]. cbn [tree_ok s_file s_kids].
  assert (G : (fix go (l : list setting) : Prop := match l with [] => True | c :: r => tree_ok F c /\ go r end) k
              <-> Forall (tree_ok F) k).
  { induction k as [|c r IH]; [split; auto|]. split.
    - intros [H1 H2]. constructor; [exact H1 | apply IH; exact H2].
    - intros H. inversion H; subst. split; [assumption | apply IH; assumption]. }
  tauto.
Qed.

Lemma tree_okb_unfold F s : tree_okb F s = okfb F (s_file s) && forallb (tree_okb F) (s_kids s).
Proof.
  destruct s as [n p k f h l fi]. reflexivity.
Qed.

Lemma tree_okb_spec F s : tree_okb F s = true <-> tree_ok F s.
Proof.
  induction s as [n p k f h l fi IH] using setting_ind'.
  rewrite tree_okb_unfold, tree_ok_unfold, andb_true_iff, okfb_spec. cbn [s_file s_kids].
  assert (G : forallb (tree_okb F) k = true <-> Forall (tree_ok F) k).
  { induction IH as [|c r Hc _ IHr]; [split; auto|]. cbn [forallb]. rewrite andb_true_iff. split.
    - intros [H1 H2]. constructor; [apply Hc; exact H1 | apply IHr; exact H2].
    - intros H. inversion H; subst. split; [apply Hc; assumption | apply IHr; assumption]. }
  tauto.
Qed.

Theorem files_validb_spec c : files_validb c = true <-> files_valid c.
Proof.
  unfold files_validb, files_valid, settings_valid, error_valid.
  rewrite andb_true_iff, tree_okb_spec, okfb_spec. tauto.
Qed.

(* the same property said with paths: every setting reachable from the root *)
Lemma tree_ok_get_at F : forall p r s, tree_ok F r -> get_at p r = Some s -> tree_ok F s.
Proof.
  induction p as [|i q IH]; intros r s H E; cbn [get_at] in E; [injection E as <-; exact H|].
  destruct (nth_error (s_kids r) i) as [c|] eqn:N; [|discriminate].
  apply tree_ok_unfold in H as [_ H]. rewrite Forall_forall in H. apply (IH c s); [|exact E].
  apply H. eapply nth_error_In. exact N.
Qed.

Theorem files_valid_every_setting c : files_valid c ->
  forall p s, get_at p (c_root c) = Some s -> okf (c_files c) (s_file s).
Proof.
  intros [H _] p s E. pose proof (tree_ok_get_at _ _ _ _ H E) as G. apply tree_ok_unfold in G. exact (proj1 G).
Qed.

Lemma tree_ok_all_paths F : forall r,
  (forall p s, get_at p r = Some s -> okf F (s_file s)) -> tree_ok F r.
Proof.
  induction r as [n pl k f h l fi IH] using setting_ind'. intros H. apply tree_ok_unfold. cbn [s_file s_kids]. split.
  - apply (H [] _ eq_refl).
  - rewrite Forall_forall in *. intros c Hc. apply IH; [exact Hc|]. intros p s E.
    destruct (In_nth_error _ _ Hc) as (i & Hi). apply (H (i :: p) s). cbn [get_at s_kids]. rewrite Hi. exact E.
Qed.

Theorem files_valid_iff_paths c :
  files_valid c <->
  (forall p s, get_at p (c_root c) = Some s -> okf (c_files c) (s_file s)) /\ okf (c_files c) (e_file (c_err c)).
Proof.
  split.
  - intros H. split; [apply files_valid_every_setting; exact H | exact (proj2 H)].
  - intros [H1 H2]. split; [apply tree_ok_all_paths; exact H1 | exact H2].
Qed.

(* ------------------------------------------------------------------------------------ *)
(* tree operations keep tree_ok *)

Definition prefix (F G : list bytes) : Prop := exists x, G = F ++ x.

Lemma prefix_refl F : prefix F F.
Proof. exists []. symmetry. apply app_nil_r. Qed.

Lemma prefix_trans F G H : prefix F G -> prefix G H -> prefix F H.
Proof. intros (x & ->) (y & ->). exists (x ++ y). rewrite app_assoc. reflexivity. Qed.

Lemma prefix_app F x : prefix F (F ++ x).
Proof. exists x. reflexivity. Qed.

Lemma prefix_incl F G : prefix F G -> incl F G.
Proof. intros (x & ->) a Ha. apply in_or_app. left. exact Ha. Qed.

Lemma okf_incl F G o : incl F G -> okf F o -> okf G o.
Proof. destruct o as [f|]; cbn [okf]; auto. Qed.

Lemma okf_mono F G o : prefix F G -> okf F o -> okf G o.
Proof. intros H. apply okf_incl. apply prefix_incl. exact H. Qed.

Lemma tree_ok_incl F G : incl F G -> forall s, tree_ok F s -> tree_ok G s.
Proof.
  intros HI. induction s as [n p k f h l fi IH] using setting_ind'. rewrite !tree_ok_unfold. cbn [s_file s_kids].
  intros [H1 H2]. split; [eapply okf_incl; eassumption|].
  rewrite Forall_forall in *. intros c Hc. apply IH; [exact Hc | apply H2; exact Hc].
Qed.

Section TreeOps.
  Variable F : list bytes.

  Lemma tree_ok_set_kids s k : tree_ok F s -> Forall (tree_ok F) k -> tree_ok F (set_kids s k).
  Proof. destruct s. rewrite !tree_ok_unfold. cbn. tauto. Qed.
  Lemma tree_ok_set_pl s p : tree_ok F s -> tree_ok F (set_pl s p).
  Proof. destruct s. rewrite !tree_ok_unfold. cbn. tauto. Qed.
  Lemma tree_ok_set_fmt s f : tree_ok F s -> tree_ok F (set_fmt s f).
  Proof. destruct s. rewrite !tree_ok_unfold. cbn. tauto. Qed.
  Lemma tree_ok_set_hook s h : tree_ok F s -> tree_ok F (set_hook s h).
  Proof. destruct s. rewrite !tree_ok_unfold. cbn. tauto. Qed.
  Lemma tree_ok_set_pos s l fi : tree_ok F s -> okf F fi -> tree_ok F (set_pos s l fi).
  Proof. destruct s. rewrite !tree_ok_unfold. cbn. tauto. Qed.
  Lemma tree_ok_new n t : tree_ok F (new_setting n t).
  Proof. apply tree_ok_unfold. cbn. auto. Qed.
  Lemma tree_ok_kids s : tree_ok F s -> Forall (tree_ok F) (s_kids s).
  Proof. intros H. apply tree_ok_unfold in H. exact (proj2 H). Qed.

  Lemma Forall_list_upd {A} (P : A -> Prop) (f : A -> A) : (forall x, P x -> P (f x)) ->
    forall i l, Forall P l -> Forall P (list_upd i f l).
  Proof.
    intros Hf i l. revert i. induction l as [|x r IH]; intros i H; [destruct i; exact H|].
    inversion H; subst. destruct i as [|j]; cbn [list_upd]; constructor; auto.
  Qed.

  Lemma Forall_list_del {A} (P : A -> Prop) : forall i (l : list A), Forall P l -> Forall P (list_del i l).
  Proof.
    intros i l. revert i. induction l as [|x r IH]; intros i H; [destruct i; exact H|].
    inversion H; subst. destruct i as [|j]; cbn [list_del]; [assumption | constructor; auto].
  Qed.

  Lemma tree_ok_upd_at f : (forall x, tree_ok F x -> tree_ok F (f x)) ->
    forall p r, tree_ok F r -> tree_ok F (upd_at p f r).
  Proof.
    intros Hf. induction p as [|i q IH]; intros r H; cbn [upd_at]; [apply Hf; exact H|].
    apply tree_ok_set_kids; [exact H|]. apply Forall_list_upd; [exact IH | apply tree_ok_kids; exact H].
  Qed.

  Lemma tree_ok_put p r x : tree_ok F r -> tree_ok F x -> tree_ok F (upd_at p (fun _ => x) r).
  Proof. intros H Hx. apply tree_ok_upd_at; [intros; exact Hx | exact H]. Qed.

  Lemma n_create_ok parent name t p2 : tree_ok F parent -> n_create parent name t = Some p2 -> tree_ok F p2.
  Proof.
    unfold n_create. intros H. destruct (ty_is_aggregate _); [|discriminate]. intros E. injection E as <-.
    apply tree_ok_set_kids; [exact H|]. apply Forall_app. split; [apply tree_ok_kids; exact H|].
    constructor; [apply tree_ok_new | constructor].
  Qed.

  Lemma n_remove_ok parent path p' v : tree_ok F parent -> n_remove parent path = Some (p', v) -> tree_ok F p'.
  Proof.
    unfold n_remove. intros H. destruct (s_ty parent); try discriminate.
    destruct (lookup parent path); [|discriminate]. destruct (get_at _ parent); [|discriminate].
    destruct (list_search _ _); [|discriminate]. destruct (nth_error _ _); [|discriminate].
    intros E. injection E as <- _. apply tree_ok_upd_at; [|exact H].
    intros x Hx. apply tree_ok_set_kids; [exact Hx|]. apply Forall_list_del. apply tree_ok_kids. exact Hx.
  Qed.

  Lemma n_remove_elem_ok parent idx p' v : tree_ok F parent -> n_remove_elem parent idx = Some (p', v) -> tree_ok F p'.
  Proof.
    unfold n_remove_elem. intros H. destruct (ty_is_aggregate _); [|discriminate].
    destruct (_ && _); [|discriminate]. destruct (nth_error _ _); [|discriminate].
    intros E. injection E as <- _. apply tree_ok_set_kids; [exact H|]. apply Forall_list_del. apply tree_ok_kids. exact H.
  Qed.

  Lemma n_add_ok ov parent name tcode p2 i v :
    tree_ok F parent -> n_add ov parent name tcode = Some (p2, i, v) -> tree_ok F p2.
  Proof.
    unfold n_add. intros H. destruct (ty_of_code tcode) as [t|]; [|discriminate].
    destruct (_ && negb (ty_is_scalar t)); [discriminate|]. destruct (_ && negb (checktype parent t)); [discriminate|].
    set (name' := if _ || _ then None else name). destruct (negb _); [discriminate|].
    destruct (get_member parent name').
    - destruct ov; [|discriminate]. destruct name' as [nm|]; [|discriminate].
      destruct (n_remove parent nm) as [[parent' victim]|] eqn:R.
      + pose proof (n_remove_ok _ _ _ _ H R) as H'.
        destruct (n_create parent' (Some nm) t) eqn:C; [|discriminate]. intros E. injection E as <- _ _.
        eapply n_create_ok; eassumption.
      + destruct (n_create parent (Some nm) t) eqn:C; [|discriminate]. intros E. injection E as <- _ _.
        eapply n_create_ok; eassumption.
    - destruct (n_create parent name' t) eqn:C; [|discriminate]. intros E. injection E as <- _ _.
      eapply n_create_ok; eassumption.
  Qed.

  (* a node-level setter that keeps the file name *)
  Definition keeps (st : setting -> sres) : Prop := forall e e', tree_ok F e -> st e = SOk e' -> tree_ok F e'.

  Lemma keeps_int a v : keeps (fun s => n_set_int a s v).
  Proof.
    intros e e' H. unfold n_set_int. destruct (s_pl e); try discriminate; try destruct a; try discriminate;
      intros E; injection E as <-; apply tree_ok_set_pl; exact H.
  Qed.
  Lemma keeps_int64 a v : keeps (fun s => n_set_int64 a s v).
  Proof.
    intros e e' H. unfold n_set_int64. destruct (s_pl e); try discriminate; try destruct a; try destruct (in_int v); try discriminate;
      intros E; injection E as <-; apply tree_ok_set_pl; exact H.
  Qed.
  Lemma keeps_float a v : keeps (fun s => n_set_float a s v).
  Proof.
    intros e e' H. unfold n_set_float. destruct (s_pl e); try discriminate; try destruct a; try discriminate;
      try destruct (cast_double_int v); try destruct (cast_double_int64 v); try discriminate;
      intros E; injection E as <-; apply tree_ok_set_pl; exact H.
  Qed.
  Lemma keeps_bool v : keeps (fun s => n_set_bool s v).
  Proof.
    intros e e' H. unfold n_set_bool. destruct (s_pl e); try discriminate;
      intros E; injection E as <-; apply tree_ok_set_pl; exact H.
  Qed.
  Lemma keeps_string v : keeps (fun s => n_set_string s v).
  Proof.
    intros e e' H. unfold n_set_string. destruct (s_pl e); try discriminate;
      intros E; injection E as <-; apply tree_ok_set_pl; exact H.
  Qed.
  Lemma keeps_format f : keeps (fun s => n_set_format s f).
  Proof.
    intros e e' H. unfold n_set_format. destruct (s_pl e); try discriminate; destruct (_ || _); try discriminate;
      intros E; injection E as <-; apply tree_ok_set_fmt; exact H.
  Qed.

  Lemma n_set_elem_ok t st agg idx agg' i : keeps st ->
    tree_ok F agg -> n_set_elem t st agg idx = EOk agg' i -> tree_ok F agg'.
  Proof.
    intros Hk H. unfold n_set_elem.
    assert (G : (if idx <? 0
                 then if checktype agg t
                      then match st (new_setting None t) with
                           | SOk e => EOk (set_kids agg (s_kids agg ++ [e])) (length (s_kids agg))
                           | SFail => EFail | SUnspec => EUnspec end
                      else EFail
                 else match get_elem agg idx with
                      | None => EFail
                      | Some i0 => match nth_error (s_kids agg) i0 with
                                   | None => EFail
                                   | Some e => match st e with
                                               | SOk e' => EOk (set_kids agg (list_upd i0 (fun _ => e') (s_kids agg))) i0
                                               | SFail => EFail | SUnspec => EUnspec end
                                   end
                      end) = EOk agg' i -> tree_ok F agg').
    { destruct (idx <? 0).
      - destruct (checktype agg t); [|discriminate]. destruct (st (new_setting None t)) as [|e|] eqn:S; try discriminate.
        intros E. injection E as <- _. apply tree_ok_set_kids; [exact H|]. apply Forall_app. split; [apply tree_ok_kids; exact H|].
        constructor; [|constructor]. eapply Hk; [apply tree_ok_new | exact S].
      - destruct (get_elem agg idx) as [i0|]; [|discriminate]. destruct (nth_error (s_kids agg) i0) as [e|] eqn:N; [|discriminate].
        destruct (st e) as [|e'|] eqn:S; try discriminate. intros E. injection E as <- _.
        assert (He : tree_ok F e).
        { pose proof (tree_ok_kids _ H) as K. rewrite Forall_forall in K. apply K. eapply nth_error_In. exact N. }
        apply tree_ok_set_kids; [exact H|]. apply Forall_list_upd; [|apply tree_ok_kids; exact H].
        intros _ _. eapply Hk; eassumption. }
    destruct (s_ty agg); try discriminate; exact G.
  Qed.

  Lemma apply_fmt_ok f e : tree_ok F e -> tree_ok F (apply_fmt f e).
  Proof.
    intros H. unfold apply_fmt. destruct f as [x|]; [|exact H].
    destruct (n_set_format e x) eqn:E; try exact H. eapply keeps_format; eassumption.
  Qed.
End TreeOps.

(* ------------------------------------------------------------------------------------ *)
(* 2. the monotone lexer fact *)

(* every frame's current file name is in ctx->filenames *)
Definition LI (st : lstate) : Prop := forall n, In (Some n) (l_names st) -> In n (l_files st).

(* along a token list that starts with the vector F and ends with the vector G: each token's lt_nfiles extends
   the vector before it, and the token's file name is in the token's own lt_nfiles *)
Fixpoint tchain (F : list bytes) (toks : list ltoken) (G : list bytes) : Prop :=
  match toks with
  | [] => prefix F G
  | t :: r => prefix F (lt_nfiles t) /\ okf (lt_nfiles t) (lt_file t) /\ tchain (lt_nfiles t) r G
  end.

Lemma tchain_weaken toks : forall F F' G, prefix F F' -> tchain F' toks G -> tchain F toks G.
Proof.
  destruct toks as [|t r]; intros F F' G HP H; cbn [tchain] in *; [eapply prefix_trans; eassumption|].
  destruct H as (H1 & H2 & H3). split; [eapply prefix_trans; eassumption | auto].
Qed.

Lemma tchain_app a : forall F G b H, tchain F a G -> tchain G b H -> tchain F (a ++ b) H.
Proof.
  induction a as [|t r IH]; intros F G b H Ha Hb; cbn [app tchain] in *; [eapply tchain_weaken; eassumption|].
  destruct Ha as (H1 & H2 & H3). split; [exact H1|]. split; [exact H2|]. eapply IH; eassumption.
Qed.

Lemma tchain_prefix toks : forall F G, tchain F toks G -> prefix F G.
Proof.
  induction toks as [|t r IH]; intros F G H; cbn [tchain] in H; [exact H|].
  destruct H as (H1 & _ & H3). eapply prefix_trans; [exact H1 | apply IH; exact H3].
Qed.

Lemma LI_same st st' : l_names st' = l_names st -> l_files st' = l_files st -> LI st -> LI st'.
Proof. unfold LI. intros -> ->. exact id. Qed.

Lemma cur_name_ok st : LI st -> okf (l_files st) (cur_name st).
Proof.
  intros H. unfold cur_name. destruct (l_names st) as [|[n|] r] eqn:E; cbn [okf]; auto. apply H. rewrite E. left. reflexivity.
Qed.

Lemma fold_add_names evs : forall st, l_names (fold_left add_ev evs st) = l_names st.
Proof. induction evs as [|e r IH]; intros st; cbn [fold_left]; [reflexivity|]. rewrite IH. reflexivity. Qed.
Lemma fold_add_files evs : forall st, l_files (fold_left add_ev evs st) = l_files st.
Proof. induction evs as [|e r IH]; intros st; cbn [fold_left]; [reflexivity|]. rewrite IH. reflexivity. Qed.

Lemma LI_add_files st x : LI st -> LI (add_files st x).
Proof. intros H n Hn. cbn [add_files l_files l_names] in *. apply in_or_app. left. apply H. exact Hn. Qed.

Lemma LI_set_name st f : LI st -> In f (l_files st) -> LI (set_name st (Some f)).
Proof.
  intros H Hf n Hn. cbn [set_name l_files l_names] in *. destruct Hn as [E | Hn]; [injection E as <-; exact Hf|].
  apply H. destruct (l_names st); [contradiction | right; exact Hn].
Qed.

Lemma LI_push_frame st : LI st -> LI (push_frame st).
Proof. intros H n Hn. cbn [push_frame l_files l_names] in *. destruct Hn as [E | Hn]; [discriminate | apply H; exact Hn]. Qed.

Lemma LI_pop_frame st : LI st -> LI (pop_frame st).
Proof.
  intros H n Hn. cbn [pop_frame l_files l_names] in *. apply H. destruct (l_names st); [contradiction | right; exact Hn].
Qed.

Section LexFn.
  Variable T : tables.
  Variable rule_eol : list Z.
  Variable actions : list (Z * action).
  Variable atof : bytes -> Z.
  Variable FS : fs.
  Variable incdir : option bytes.
  Variable incf : incfn.
  Variable max_depth : Z.

  Notation lex_step := (lex_step T rule_eol actions atof FS incdir incf max_depth).
  Notation lex_buf := (lex_buf T rule_eol actions atof FS incdir incf max_depth).
  Notation lex_depth := (lex_depth T rule_eol actions atof FS incdir incf max_depth).

  (* what one step does to names and vector; F = the vector before the step *)
  Definition step_fn (F : list bytes) (r : step_res) : Prop :=
    match r with
    | SCont st' _ => LI st' /\ prefix F (l_files st')
    | STok tk st' _ =>
        prefix F (lt_nfiles tk) /\ okf (lt_nfiles tk) (lt_file tk) /\ LI st' /\ prefix (lt_nfiles tk) (l_files st')
    | SStop toks _ st' _ => tchain F toks (l_files st') /\ LI st'
    | SIncl st' files _ _ => LI st' /\ prefix F (l_files st') /\ (forall f, In f files -> In f (l_files st'))
    end.

  Lemma stop_error_fn F st line err : LI st -> prefix F (l_files st) -> step_fn F (stop_error st line err).
  Proof.
    intros H HP. unfold stop_error, emit. cbn [step_fn tchain lt_nfiles lt_file clear_pending l_files].
    split; [|exact H]. split; [exact HP|]. split; [apply cur_name_ok; exact H | apply prefix_refl].
  Qed.

  Lemma tokret_fn st line t b' : LI st ->
    step_fn (l_files st) (let '(tk, st') := emit st line t None in STok tk st' b').
  Proof.
    intros H. unfold emit. cbn [step_fn lt_nfiles lt_file clear_pending l_files].
    split; [apply prefix_refl|]. split; [apply cur_name_ok; exact H|]. split; [exact H | apply prefix_refl].
  Qed.

  Lemma lex_step_fn st b : LI st -> step_fn (l_files st) (lex_step st b).
  Proof.
    intros H. unfold Lexer.lex_step.
    assert (Hstuck : forall l, step_fn (l_files st) (SStop [] StopStuck st l)).
    { intros l. cbn [step_fn tchain]. split; [apply prefix_refl | exact H]. }
    destruct (flex_match T (l_cond st) (b_bol b) (b_rest b)) as [[rule len]|]; [|apply Hstuck].
    destruct len as [|len']; [apply Hstuck|].
    cbv zeta.
    set (text := firstn (S len') (b_rest b)). set (b' := mkBuf _ _ _). set (line' := if _ =? 0 then _ else _).
    assert (Hcont : forall st', l_names st' = l_names st -> l_files st' = l_files st -> step_fn (l_files st) (SCont st' b')).
    { intros st' E1 E2. cbn [step_fn]. split; [eapply LI_same; eassumption | rewrite E2; apply prefix_refl]. }
    destruct (action_of actions rule) eqn:A; try (apply tokret_fn; exact H); try (apply Hcont; reflexivity);
      try apply Hstuck.
    - (* AEndString *)
      unfold emit. cbn [step_fn lt_nfiles lt_file clear_pending l_files set_acc set_cond].
      split; [apply prefix_refl|]. split; [apply cur_name_ok; exact H|]. split; [exact H | apply prefix_refl].
    - (* AIncludeEnd *)
      set (st1 := set_acc st []).
      assert (H1 : LI st1) by exact H.
      destruct (Z.of_nat (length (l_names st1)) - 1 =? max_depth); [apply (stop_error_fn _ st1); [exact H1 | apply prefix_refl]|].
      destruct (call_incfn incdir incf (until_nul (l_acc st))) as [[evs err] files] eqn:Ci.
      set (st2 := fold_left add_ev evs st1).
      assert (N2 : l_names st2 = l_names st) by (unfold st2; rewrite fold_add_names; reflexivity).
      assert (F2 : l_files st2 = l_files st) by (unfold st2; rewrite fold_add_files; reflexivity).
      assert (H2 : LI st2) by (eapply LI_same; eassumption).
      destruct err as [msg|]; [apply stop_error_fn; [exact H2 | rewrite F2; apply prefix_refl]|].
      destruct files as [[|f1 frest]|]; try (apply Hcont; assumption).
      set (st3 := add_files st2 (f1 :: frest)).
      assert (H3 : LI st3) by (apply LI_add_files; exact H2).
      assert (P3 : prefix (l_files st) (l_files st3)) by (unfold st3; cbn [add_files l_files]; rewrite F2; apply prefix_app).
      destruct (fs_lookup FS f1) as [[content|]|].
      + cbn [step_fn]. split; [apply LI_push_frame; exact H3|]. split; [exact P3|].
        intros f Hf. cbn [push_frame l_files st3 add_files]. apply in_or_app. right. exact Hf.
      + apply stop_error_fn; [exact H3 | exact P3].
      + apply stop_error_fn; [exact H3 | exact P3].
    - destruct (numeric_token atof AFloat text); [apply tokret_fn; exact H | apply stop_error_fn; [exact H | apply prefix_refl]].
    - destruct (numeric_token atof AInteger text); [apply tokret_fn; exact H | apply stop_error_fn; [exact H | apply prefix_refl]].
    - destruct (numeric_token atof AInteger64 text); [apply tokret_fn; exact H | apply stop_error_fn; [exact H | apply prefix_refl]].
    - destruct (numeric_token atof AHex text); [apply tokret_fn; exact H | apply stop_error_fn; [exact H | apply prefix_refl]].
    - destruct (numeric_token atof AHex64 text); [apply tokret_fn; exact H | apply stop_error_fn; [exact H | apply prefix_refl]].
  Qed.

  (* the result of scanning something from st *)
  Definition res_fn (st : lstate) (toks : list ltoken) (st' : lstate) : Prop :=
    tchain (l_files st) toks (l_files st') /\ LI st'.

  Definition scan_fn (scan : lstate -> bytes -> list ltoken * lstop * lstate * Z) : Prop :=
    forall st content, LI st -> let '(toks, _, st', _) := scan st content in res_fn st toks st'.

  Definition incl_fn (incl : list bytes -> lstate -> Z -> list ltoken * lstop * lstate) : Prop :=
    forall files st line, LI st -> (forall f, In f files -> In f (l_files st)) ->
      let '(toks, _, st') := incl files st line in res_fn st toks st'.

  Lemma lex_files_fn scan : scan_fn scan -> incl_fn (lex_files FS scan).
  Proof.
    intros Hs. intros files. induction files as [|f rest IH]; intros st line H Hin; cbn [lex_files].
    - split; [apply prefix_refl | exact H].
    - set (st1 := set_name st (Some f)).
      assert (H1 : LI st1) by (apply LI_set_name; [exact H | apply Hin; left; reflexivity]).
      destruct (fs_lookup FS f) as [[content|]|].
      + set (st3 := push_open (add_ev st1 (LvOpen f)) f).
        assert (H3 : LI st3) by exact H1.
        specialize (Hs st3 content H3). destruct (scan st3 content) as [[[toks stop] st4] l4].
        destruct Hs as [T1 I1]. change (l_files st3) with (l_files st) in T1.
        assert (Hstop : res_fn st toks st4) by (split; assumption).
        destruct stop; try exact Hstop.
        set (st5 := add_ev (pop_open st4) (LvClose f)).
        assert (H5 : LI st5) by exact I1.
        assert (Hin5 : forall g, In g rest -> In g (l_files st5)).
        { intros g Hg. change (l_files st5) with (l_files st4). apply (prefix_incl _ _ (tchain_prefix _ _ _ T1)).
          apply Hin. right. exact Hg. }
        specialize (IH st5 l4 H5 Hin5).
        destruct (lex_files FS scan rest st5 l4) as [[toks2 stop2] st6].
        destruct IH as [T2 I2]. split; [|exact I2]. eapply tchain_app; [exact T1 | exact T2].
      + unfold emit. split; [|exact H1]. cbn [tchain lt_nfiles lt_file clear_pending add_ev l_files].
        split; [apply prefix_refl|]. split; [apply (cur_name_ok st1); exact H1 | apply prefix_refl].
      + unfold emit. split; [|exact H1]. cbn [tchain lt_nfiles lt_file clear_pending add_ev l_files].
        split; [apply prefix_refl|]. split; [apply (cur_name_ok st1); exact H1 | apply prefix_refl].
  Qed.

  Lemma lex_buf_fn do_include :
    (forall incl, do_include = Some incl -> incl_fn incl) ->
    forall fuel st b, LI st ->
      let '(toks, _, st', _) := lex_buf do_include fuel st b in res_fn st toks st'.
  Proof.
    intros Hincl. induction fuel as [|fuel IHf]; intros st b H; cbn [Lexer.lex_buf].
    - split; [apply prefix_refl | exact H].
    - destruct (b_rest b) eqn:Eb; [split; [apply prefix_refl | exact H]|].
      pose proof (lex_step_fn st b H) as S.
      destruct (lex_step st b) as [st' b'|tk st' b'|toks stop st' l|st' files l b'].
      + destruct S as [S1 S2]. specialize (IHf st' b' S1).
        destruct (lex_buf do_include fuel st' b') as [[[toks stop] st''] l].
        destruct IHf as [A B]. split; [eapply tchain_weaken; eassumption | exact B].
      + destruct S as (S1 & S2 & S3 & S4). specialize (IHf st' b' S3).
        destruct (lex_buf do_include fuel st' b') as [[[toks stop] st''] l].
        destruct IHf as [A B]. split; [|exact B]. cbn [tchain]. split; [exact S1|]. split; [exact S2|].
        eapply tchain_weaken; eassumption.
      + exact S.
      + destruct S as (S1 & S2 & S3). destruct do_include as [incl|] eqn:Ed.
        * pose proof (Hincl incl eq_refl files st' l S1 S3) as Fi.
          destruct (incl files st' l) as [[toks stop] st4]. destruct Fi as [F1 F2].
          assert (Hstop : res_fn st toks st4) by (split; [eapply tchain_weaken; eassumption | exact F2]).
          destruct stop; try exact Hstop.
          specialize (IHf (pop_frame st4) b' (LI_pop_frame _ F2)).
          destruct (lex_buf (Some incl) fuel (pop_frame st4) b') as [[[toks2 stop2] st6] l6].
          destruct IHf as [A B]. split; [|exact B]. eapply tchain_app; [exact (proj1 Hstop) | exact A].
        * split; [exact S2 | exact S1].
  Qed.

  Theorem lex_depth_fn : forall d, scan_fn (lex_depth d).
  Proof.
    induction d as [|d' IHd]; intros st0 content H0; cbn [Lexer.lex_depth].
    - apply lex_buf_fn; [intros incl E; discriminate | exact H0].
    - apply lex_buf_fn; [|exact H0]. intros incl E. injection E as <-. apply lex_files_fn. exact IHd.
  Qed.
End LexFn.

(* the vector before the first token: the top-level name, if there is one (libconfig_scanctx_init) *)
Definition files0 (top : option bytes) : list bytes := match top with Some t => [t] | None => [] end.

(* Monotone lexer fact, on the token list the parser receives: starting from the vector that holds the top-level
   name, each token's lt_nfiles is an extension of the previous token's, and each token's current file name is
   None or a member of its own lt_nfiles (the top-level name is a member of every lt_nfiles, being in the first) *)
Theorem lex_top_files_monotone atof FS c top text :
  exists G, tchain (files0 top) (fst (lex_top atof FS c top text)) G.
Proof.
  unfold lex_top.
  assert (H0 : LI (lstate0 top)).
  { intros n Hn. cbn [lstate0 l_names l_files] in *. destruct Hn as [E | []]. subst top. left. reflexivity. }
  pose proof (lex_depth_fn the_tables yy_rule_can_match_eol yy_actions atof FS (c_incdir c) (c_incfn c)
                MAX_INCLUDE_DEPTH (Z.to_nat MAX_INCLUDE_DEPTH + 1) (lstate0 top) text H0) as R.
  destruct (lex_depth _ _ _ _ _ _ _ _ _ _ _) as [[[toks stop] st] line].
  destruct R as [R1 R2]. change (l_files (lstate0 top)) with (files0 top) in R1.
  assert (Hs : exists G, tchain (files0 top) toks G) by (eexists; exact R1).
  destruct stop; cbn [fst]; try exact Hs.
  unfold emit. cbn [fst]. exists (l_files st). eapply tchain_app; [exact R1|].
  cbn [tchain lt_nfiles lt_file]. split; [apply prefix_refl|]. split; [apply cur_name_ok; exact R2 | apply prefix_refl].
Qed.

(* the same fact said by position *)
Lemma tchain_nth toks : forall F G i t, tchain F toks G -> nth_error toks i = Some t ->
  prefix F (lt_nfiles t) /\ okf (lt_nfiles t) (lt_file t) /\
  (forall j u, nth_error toks j = Some u -> (i <= j)%nat -> prefix (lt_nfiles t) (lt_nfiles u)).
Proof.
  induction toks as [|x r IH]; intros F G i t H N; [destruct i; discriminate|].
  cbn [tchain] in H. destruct H as (H1 & H2 & H3). destruct i as [|i'].
  - injection N as <-. split; [exact H1|]. split; [exact H2|]. intros j u Nj _. destruct j as [|j'].
    + injection Nj as <-. apply prefix_refl.
    + cbn [nth_error] in Nj. destruct (IH _ _ _ _ H3 Nj) as (A & _ & _). exact A.
  - cbn [nth_error] in N. destruct (IH _ _ _ _ H3 N) as (A & B & C).
    split; [eapply prefix_trans; eassumption|]. split; [exact B|]. intros j u Nj Hle. destruct j as [|j']; [lia|].
    cbn [nth_error] in Nj. apply (C j' u Nj). lia.
Qed.

Theorem lex_top_files_by_position atof FS c top text i t :
  let toks := fst (lex_top atof FS c top text) in
  nth_error toks i = Some t ->
  okf (lt_nfiles t) top /\ okf (lt_nfiles t) (lt_file t) /\
  (forall j u, nth_error toks j = Some u -> (i <= j)%nat -> prefix (lt_nfiles t) (lt_nfiles u)).
Proof.
  cbv zeta. intros N. destruct (lex_top_files_monotone atof FS c top text) as (G & H).
  destruct (tchain_nth _ _ _ _ _ H N) as (A & B & C). split; [|split; assumption].
  eapply okf_mono; [exact A|]. destruct top; cbn; auto.
Qed.

(* ------------------------------------------------------------------------------------ *)
(* 3. the parser: a property of parser states kept by peeking, shifting and the three tree actions holds of
   the state of every answer (the tree-sensitive variant of ReadSyntax.parser_inv) *)
Definition sc_keeps (sc : ty * (setting -> sres) * option Z) : Prop :=
  forall F, keeps F (snd (fst sc)).

Lemma scalar_of_keeps t sc : scalar_of t = Some sc -> sc_keeps sc.
Proof.
  destruct t; cbn [scalar_of]; intros E; try discriminate; injection E as <-; intros F; cbn [fst snd].
  - apply keeps_bool. - apply keeps_int. - apply keeps_int64. - apply keeps_int. - apply keeps_int64. - apply keeps_float.
Qed.

Lemma string_scalar_keeps v : sc_keeps (string_scalar v).
Proof. intros F. cbn [string_scalar fst snd]. apply keeps_string. Qed.

Section PInv.
  Variable ov : bool.
  Variable I : pst -> Prop.
  Hypothesis I_peek : forall s o s1, peek s = (o, s1) -> I s -> I s1.
  Hypothesis I_shift : forall s t s1, peek s = (Some t, s1) -> I s -> I (shift s1).
  Hypothesis I_name : forall s parent nm s' sp, act_name ov s parent nm = Some (s', sp) -> I s -> I s'.
  Hypothesis I_scalar : forall s parent cur sc s', sc_keeps sc -> act_scalar s parent cur sc = Some s' -> I s -> I s'.
  Hypothesis I_open : forall s parent cur k s' np, act_open ov s parent cur k = Some (s', np) -> I s -> I s'.

  Lemma bind_inv2 first k : I (st_of first) -> (forall s2, first = POk s2 -> I s2 -> I (st_of (k s2))) -> I (st_of (bind first k)).
  Proof. intros H1 H2. destruct first; cbn [bind st_of] in *; auto. Qed.

  Lemma string_inv2 : forall f s acc, I s -> I (snd (p_string f s acc)).
  Proof.
    induction f as [|f IH]; intros s acc H; cbn [p_string]; [exact H|].
    destruct (peek s) as [o s1] eqn:P. pose proof (I_peek _ _ _ P H) as H1.
    destruct o as [t|]; [|exact H1]. destruct t; try exact H1. apply IH. apply (I_shift _ _ _ P H).
  Qed.

  Lemma expect_inv2 s p : I s -> I (st_of (expect s p)).
  Proof.
    intros H. unfold expect. destruct (peek s) as [o s1] eqn:P. pose proof (I_peek _ _ _ P H) as H1.
    destruct o as [t|]; [|exact H1]. destruct t; try exact H1.
    destruct (match p, t with
              | TEquals, TEquals | TArrayEnd, TArrayEnd | TListEnd, TListEnd | TGroupEnd, TGroupEnd => true
              | _, _ => false end); [|exact H1].
    apply (I_shift _ _ _ P H).
  Qed.

  Lemma skip_term_inv2 s : I s -> I (skip_term s).
  Proof.
    intros H. unfold skip_term. destruct (peek s) as [o s1] eqn:P. pose proof (I_peek _ _ _ P H) as H1.
    destruct o as [t|]; [|exact H1]. destruct t as [ | | | | | | | |pt| | ]; try exact H1.
    destruct pt; try exact H1; apply (I_shift _ _ _ P H).
  Qed.

  Theorem parser_inv2 : forall f,
    (forall s parent cur simple, I s -> I (st_of (p_value ov f s parent cur simple))) /\
    (forall s parent cur k, I s -> I (st_of (p_agg ov f s parent cur k))) /\
    (forall s parent simple first, I s -> I (st_of (p_elems ov f s parent simple first))) /\
    (forall s parent, I s -> I (st_of (p_settings ov f s parent))).
  Proof.
    induction f as [|f (IHv & IHa & IHe & IHs)]; [repeat split; intros; assumption|].
    assert (Hv : forall s parent cur simple, I s -> I (st_of (p_value ov (S f) s parent cur simple))).
    { intros s parent cur simple H. rewrite p_value_S.
      destruct (peek s) as [o s1] eqn:P. pose proof (I_peek _ _ _ P H) as H1.
      destruct o as [t|]; [|exact H1].
      assert (Hsc : forall sc, sc_keeps sc ->
                I (st_of (match act_scalar (shift s1) parent cur sc with Some s3 => POk s3 | None => PErr PErrMismatch (shift s1) end))).
      { intros sc Hk. pose proof (I_shift _ _ _ P H) as H2.
        destruct (act_scalar (shift s1) parent cur sc) as [s3|] eqn:A; [|exact H2].
        apply (I_scalar _ _ _ _ _ Hk A H2). }
      assert (Hag : forall k, I (st_of (p_agg ov f (shift s1) parent cur k))).
      { intros k. apply IHa. apply (I_shift _ _ _ P H). }
      destruct t as [bv|iv|lv|hv|hlv|fb|str|nm|pt| | ]; try exact H1.
      - apply Hsc. apply (scalar_of_keeps (TkBool bv)). reflexivity.
      - apply Hsc. apply (scalar_of_keeps (TkInt iv)). reflexivity.
      - apply Hsc. apply (scalar_of_keeps (TkInt64 lv)). reflexivity.
      - apply Hsc. apply (scalar_of_keeps (TkHex hv)). reflexivity.
      - apply Hsc. apply (scalar_of_keeps (TkHex64 hlv)). reflexivity.
      - apply Hsc. apply (scalar_of_keeps (TkFloat fb)). reflexivity.
      - pose proof (string_inv2 f s1 [] H1) as H2. destruct (p_string f s1 []) as [[v|] s2]; cbn [snd] in H2; [|exact H2].
        destruct (act_scalar s2 parent cur (string_scalar v)) as [s3|] eqn:A; [|exact H2].
        apply (I_scalar _ _ _ _ _ (string_scalar_keeps v) A H2).
      - destruct pt; try exact H1; destruct simple; try exact H1; apply Hag. }
    assert (Ha : forall s parent cur k, I s -> I (st_of (p_agg ov (S f) s parent cur k))).
    { intros s parent cur k H. rewrite p_agg_B. destruct (act_open ov s parent cur k) as [[s1 np]|] eqn:A; [|exact H].
      pose proof (I_open _ _ _ _ _ _ A H) as H1.
      apply bind_inv2; [|intros s2 _ H2; apply expect_inv2; exact H2].
      destruct k; cbn [abody]; [apply IHe | apply IHe | apply IHs]; exact H1. }
    assert (He : forall s parent simple first, I s -> I (st_of (p_elems ov (S f) s parent simple first))).
    { intros s parent simple first H. rewrite p_elems_B.
      destruct (peek s) as [o s1] eqn:P. pose proof (I_peek _ _ _ P H) as H1.
      destruct o as [t|]; [|exact H1].
      assert (Hval : forall sa, I sa -> I (st_of (bind (p_value ov f sa parent None simple) (fun s2 => p_elems ov f s2 parent simple false)))).
      { intros sa Ha'. apply bind_inv2; [apply IHv; exact Ha' | intros s2 _ H2; apply IHe; exact H2]. }
      destruct first.
      - destruct (is_value_start simple t); [apply Hval; exact H1 | exact H1].
      - destruct t as [bv|iv|lv|hv|hlv|fb|str|nm|pt| | ]; try exact H1. destruct pt; try exact H1.
        pose proof (I_shift _ _ _ P H) as H2.
        destruct (peek (shift s1)) as [o2 s3] eqn:P2. pose proof (I_peek _ _ _ P2 H2) as H3.
        destruct o2 as [t2|]; [|exact H3].
        destruct (is_value_start simple t2); [apply Hval; exact H3 | apply IHe; exact H3]. }
    assert (Hs : forall s parent, I s -> I (st_of (p_settings ov (S f) s parent))).
    { intros s parent H. rewrite p_settings_B.
      destruct (peek s) as [o s1] eqn:P. pose proof (I_peek _ _ _ P H) as H1.
      destruct o as [t|]; [|exact H1].
      destruct t as [bv|iv|lv|hv|hlv|fb|str|nm|pt| | ]; try exact H1.
      pose proof (I_shift _ _ _ P H) as H2.
      destruct (act_name ov (shift s1) parent nm) as [[s2 sp]|] eqn:A; [|exact H2].
      pose proof (I_name _ _ _ _ _ A H2) as H2'.
      apply bind_inv2; [apply expect_inv2; exact H2'|]. intros s3 _ H3.
      apply bind_inv2; [apply IHv; exact H3|]. intros s4 _ H4. apply IHs. apply skip_term_inv2. exact H4. }
    auto.
  Qed.

  Lemma config_inv2 s : I s -> I (st_of (p_config ov s)).
  Proof.
    intros H. rewrite p_config_B. apply bind_inv2; [apply (proj2 (proj2 (proj2 (parser_inv2 _)))); exact H|].
    intros s1 _ H1. destruct (peek s1) as [o s2] eqn:P. pose proof (I_peek _ _ _ P H1) as H2.
    destruct o as [t|]; [destruct t|]; exact H2.
  Qed.
End PInv.

(* the invariant: the tree and the current file name are valid for the vector as it stands after the last token
   read (which is the vector the read hands to the configuration if the parser stops here) *)
Section PFiles.
  Variable top0 : list bytes.
  Variable toks : list ltoken.
  Variable G : list bytes.
  Hypothesis Hch : tchain top0 toks G.

  (* ctx->filenames after n tokens have been read *)
  Definition Fn (n : nat) : list bytes :=
    match last_opt (firstn n toks) with Some t => lt_nfiles t | None => top0 end.

  Definition lastF (F : list bytes) (c : list ltoken) : list bytes :=
    match last_opt c with Some t => lt_nfiles t | None => F end.

  Lemma lastF_cons F x c : lastF F (x :: c) = lastF (lt_nfiles x) c.
  Proof.
    unfold lastF. destruct c as [|y c']; [reflexivity|].
    change (last_opt (x :: y :: c')) with (last_opt (y :: c')).
    assert (E : exists t, last_opt (y :: c') = Some t).
    { clear. revert y. induction c' as [|z r IH]; intros y; [exists y; reflexivity|]. apply (IH z). }
    destruct E as (t & ->). reflexivity.
  Qed.

  Lemma tchain_at c : forall F t r, tchain F (c ++ t :: r) G ->
    prefix (lastF F c) (lt_nfiles t) /\ okf (lt_nfiles t) (lt_file t).
  Proof.
    induction c as [|x c' IH]; intros F t r H.
    - cbn [app tchain] in H. destruct H as (H1 & H2 & _). split; assumption.
    - cbn [app tchain] in H. destruct H as (_ & _ & H3). rewrite lastF_cons. apply (IH _ _ _ H3).
  Qed.

  Lemma last_opt_snoc {A} (c : list A) t : last_opt (c ++ [t]) = Some t.
  Proof. induction c as [|x c' IH]; [reflexivity|]. cbn [app last_opt]. destruct (c' ++ [t]) eqn:E; [destruct c'; discriminate | exact IH]. Qed.

  Lemma Fn_step c t r : toks = c ++ t :: r ->
    Fn (length c) = lastF top0 c /\ Fn (S (length c)) = lt_nfiles t.
  Proof.
    intros E. unfold Fn, lastF. split.
    - rewrite E, firstn_app, firstn_all, Nat.sub_diag. cbn [firstn]. rewrite app_nil_r. reflexivity.
    - rewrite E. replace (c ++ t :: r) with ((c ++ [t]) ++ r) by (rewrite <- app_assoc; reflexivity).
      replace (S (length c)) with (length (c ++ [t])) by (rewrite app_length; cbn [length]; lia).
      rewrite firstn_app, firstn_all, Nat.sub_diag. cbn [firstn]. rewrite app_nil_r, last_opt_snoc. reflexivity.
  Qed.

  Definition PI (s : pst) : Prop :=
    exists c, toks = c ++ p_toks s /\
              p_read s = (length c + (if p_la s then 1 else 0))%nat /\ (p_la s = true -> p_toks s <> []) /\
              tree_ok (Fn (p_read s)) (p_root s) /\ okf (Fn (p_read s)) (p_file s).

  Lemma PI_peek s o s1 : peek s = (o, s1) -> PI s -> PI s1.
  Proof.
    unfold peek. intros P (c & E & Hr & Hl & Ht & Hf).
    destruct (p_toks s) as [|x r] eqn:Et; [injection P as _ <-; exists c; rewrite Et; auto|].
    destruct (p_la s) eqn:La; injection P as _ <-; [exists c; rewrite Et, La; auto|].
    exists c. cbn [p_toks p_read p_la p_root p_file]. split; [exact E|]. split; [lia|]. split; [discriminate|].
    rewrite Nat.add_0_r in Hr. rewrite Hr in *.
    destruct (Fn_step c x r E) as [E1 E2]. rewrite E in Hch. destruct (tchain_at c _ _ _ Hch) as [A B].
    rewrite E2. rewrite E1 in Ht. split; [|exact B].
    eapply tree_ok_incl; [apply prefix_incl; exact A | exact Ht].
  Qed.

  Lemma PI_shift s t s1 : peek s = (Some t, s1) -> PI s -> PI (shift s1).
  Proof.
    intros P H. pose proof (PI_peek _ _ _ P H) as (c & E & Hr & Hl & Ht & Hf).
    assert (La : p_la s1 = true /\ p_toks s1 <> []).
    { unfold peek in P. destruct (p_toks s) as [|x r] eqn:Et; [discriminate|].
      destruct (p_la s) eqn:La; injection P as _ <-; [rewrite La, Et | cbn [p_la p_toks]]; split; auto; discriminate. }
    destruct La as [La Ne]. destruct (p_toks s1) as [|x r] eqn:Et; [contradiction|].
    exists (c ++ [x]). unfold shift. cbn [p_toks p_read p_la p_root p_file]. rewrite Et. cbn [tl]. rewrite La in Hr.
    split; [rewrite <- app_assoc; exact E|]. split; [rewrite app_length; cbn [length]; lia|]. split; [discriminate|].
    split; assumption.
  Qed.

  Lemma PI_root s r : PI s -> tree_ok (Fn (p_read s)) r -> PI (set_proot s r).
  Proof. intros (c & E & Hr & Hl & Ht & Hf) H. exists c. cbn [set_proot p_toks p_read p_la p_root p_file]. auto. Qed.

  Lemma PI_tree s : PI s -> tree_ok (Fn (p_read s)) (p_root s) /\ okf (Fn (p_read s)) (p_file s).
  Proof. intros (c & _ & _ & _ & Ht & Hf). split; assumption. Qed.

  Lemma stamp_ok F ps i l fi : tree_ok F ps -> okf F fi ->
    tree_ok F (set_kids ps (list_upd i (fun k => set_pos k l fi) (s_kids ps))).
  Proof.
    intros H Hf. apply tree_ok_set_kids; [exact H|]. apply Forall_list_upd; [|apply tree_ok_kids; exact H].
    intros x Hx. apply tree_ok_set_pos; assumption.
  Qed.

  Lemma PI_name ov s parent nm s' sp : act_name ov s parent nm = Some (s', sp) -> PI s -> PI s'.
  Proof.
    unfold act_name. intros A H. destruct (PI_tree _ H) as [Ht Hf].
    destruct (get_at parent (p_root s)) as [ps|] eqn:Eg; [|discriminate].
    destruct (n_add ov ps (Some nm) 0) as [[[ps' i] v]|] eqn:Ea; [|discriminate]. injection A as <- _.
    apply PI_root; [exact H|]. apply tree_ok_put; [exact Ht|]. apply stamp_ok; [|exact Hf].
    eapply n_add_ok; [|exact Ea]. eapply tree_ok_get_at; eassumption.
  Qed.

  Lemma PI_open ov s parent cur k s' np : act_open ov s parent cur k = Some (s', np) -> PI s -> PI s'.
  Proof.
    unfold act_open. intros A H. destruct (PI_tree _ H) as [Ht Hf].
    assert (Hcur : match cur with
                   | None => None
                   | Some sp => Some (set_proot s (upd_at sp (fun x => set_pl x (aggk_pl k)) (p_root s)), sp)
                   end = Some (s', np) -> PI s').
    { destruct cur as [sp|]; [|discriminate]. intros E. injection E as <- _. apply PI_root; [exact H|].
      apply tree_ok_upd_at; [|exact Ht]. intros x Hx. apply tree_ok_set_pl. exact Hx. }
    destruct (ty_at (p_root s) parent); try (apply Hcur; exact A).
    destruct (get_at parent (p_root s)) as [ps|] eqn:Eg; [|discriminate].
    destruct (n_add ov ps None (aggk_code k)) as [[[ps' i] v]|] eqn:Ea; [|discriminate]. injection A as <- _.
    apply PI_root; [exact H|]. apply tree_ok_put; [exact Ht|]. apply stamp_ok; [|exact Hf].
    eapply n_add_ok; [|exact Ea]. eapply tree_ok_get_at; eassumption.
  Qed.

  Lemma PI_scalar s parent cur sc s' : sc_keeps sc -> act_scalar s parent cur sc = Some s' -> PI s -> PI s'.
  Proof.
    unfold act_scalar. intros Hk A H. destruct (PI_tree _ H) as [Ht Hf]. destruct sc as [[t st] fmt].
    specialize (Hk (Fn (p_read s))). cbn [fst snd] in Hk.
    destruct (in_agg (p_root s) parent).
    - destruct (get_at parent (p_root s)) as [agg|] eqn:Eg; [|discriminate].
      destruct (n_set_elem t st agg (-1)) as [|agg' i|] eqn:Ee; try discriminate. injection A as <-.
      apply PI_root; [exact H|]. apply tree_ok_put; [exact Ht|].
      assert (Ha' : tree_ok (Fn (p_read s)) agg').
      { eapply n_set_elem_ok; [exact Hk | | exact Ee]. eapply tree_ok_get_at; eassumption. }
      apply tree_ok_set_kids; [exact Ha'|]. apply Forall_list_upd; [|apply tree_ok_kids; exact Ha'].
      intros x Hx. apply tree_ok_set_pos; [apply apply_fmt_ok; exact Hx | exact Hf].
    - destruct cur as [sp|]; injection A as <-; [|exact H].
      apply PI_root; [exact H|]. apply tree_ok_upd_at; [|exact Ht]. intros x Hx.
      destruct (st x) as [|x'|] eqn:S; apply apply_fmt_ok; try exact Hx. eapply Hk; eassumption.
  Qed.
End PFiles.

(* ------------------------------------------------------------------------------------ *)
(* 4. a read establishes files_valid *)
Section ReadFiles.
  Variable atof : bytes -> Z.

  Lemma PI_start top toks :
    PI (files0 top) toks (mkP (set_pos new_root 0 top) toks false O 0 None).
  Proof.
    exists []. cbn [p_toks p_read p_la p_root p_file app length]. split; [reflexivity|]. split; [reflexivity|].
    split; [discriminate|]. split; [|exact I]. unfold Fn. cbn [firstn last_opt].
    apply tree_ok_unfold. cbn. split; [|constructor]. destruct top; cbn; auto.
  Qed.

  Theorem config_read_files_valid FS c top text :
    let r := config_read atof FS c top text in
    rd_out_ r = RdOk \/ rd_out_ r = RdFail -> files_valid (rd_cfg r).
  Proof.
    cbv zeta. unfold config_read, clear_cfg.
    set (c1 := set_files (set_root (set_err c err0) new_root) []).
    destruct (lex_top_files_monotone atof FS c1 top text) as (G & Hch).
    destruct (lex_top atof FS c1 top text) as [toks stop]. cbn [fst] in Hch. cbv zeta.
    destruct (NEST_LIMIT <? max_nest toks 0 0); [cbn [rd_out_]; intros [H|H]; discriminate|].
    pose proof (config_inv2 (get_option c1 OPT_OVERRIDES) (PI (files0 top) toks)
                  (PI_peek _ _ _ Hch) (PI_shift _ _ _ Hch)
                  (fun s parent nm s' sp => PI_name _ _ (get_option c1 OPT_OVERRIDES) s parent nm s' sp)
                  (fun s parent cur sc s' => PI_scalar _ _ s parent cur sc s')
                  (fun s parent cur k s' np => PI_open _ _ (get_option c1 OPT_OVERRIDES) s parent cur k s' np)
                  _ (PI_start top toks)) as Hi.
    change (c_root c1) with new_root.
    destruct (p_config _ _) as [s|e s|s|s]; cbn [rd_out_ rd_cfg st_of] in *; intros [H|H]; try discriminate;
      try (destruct stop; discriminate); destruct (PI_tree _ _ _ Hi) as [Ht Hf].
    - split; [exact Ht | exact I].
    - split; [exact Ht | exact Hf].
  Qed.
End ReadFiles.

Section ReadFile.
  Variable atof : bytes -> Z.

  (* config_read_file on a file that can be opened: as config_read, with the path as top-level name *)
  Theorem config_read_file_files_valid_opened FS c path content :
    fs_lookup FS path = Some (FFile content) ->
    let r := config_read_file atof FS c path in
    rd_out_ r = RdOk \/ rd_out_ r = RdFail -> files_valid (rd_cfg r).
  Proof.
    intros Hf. cbv zeta. unfold config_read_file. rewrite Hf. cbn [rd_out_ rd_cfg].
    apply config_read_files_valid.
  Qed.

  (* every outcome of config_read_file, the unopenable file included.  When the file cannot be opened the code
     does not clear the configuration: tree and vector stay as they were, and error_file is reset to NULL; so here
     (and only here) the validity of the settings' names is inherited from the configuration before the call *)
  Theorem config_read_file_files_valid FS c path :
    settings_valid c ->
    let r := config_read_file atof FS c path in
    rd_out_ r = RdOk \/ rd_out_ r = RdFail -> files_valid (rd_cfg r).
  Proof.
    intros Hc. cbv zeta. unfold config_read_file. destruct (fs_lookup FS path) as [[content|]|] eqn:Hf.
    - cbn [rd_out_ rd_cfg]. apply config_read_files_valid.
    - intros _. cbn [rd_cfg]. split; [exact Hc | exact I].
    - intros _. cbn [rd_cfg]. split; [exact Hc | exact I].
  Qed.

  (* whatever the configuration was, a failed open leaves error_file NULL *)
  Theorem config_read_file_unopenable FS c path :
    (forall content, fs_lookup FS path <> Some (FFile content)) ->
    let r := config_read_file atof FS c path in
    rd_out_ r = RdFail /\ c_root (rd_cfg r) = c_root c /\ c_files (rd_cfg r) = c_files c /\
    e_file (c_err (rd_cfg r)) = None.
  Proof.
    intros Hf. cbv zeta. unfold config_read_file. destruct (fs_lookup FS path) as [[content|]|] eqn:E.
    - exfalso. apply (Hf content). reflexivity.
    - cbn. auto.
    - cbn. auto.
  Qed.
End ReadFile.

(* ------------------------------------------------------------------------------------ *)
(* 5. the API operations *)

Definition same_fe (c c' : cfg) : Prop := c_files c' = c_files c /\ c_err c' = c_err c.

Lemma at_node_ok c p f :
  settings_valid c ->
  (forall s s' r ev, tree_ok (c_files c) s -> f s = (Some s', r, ev) -> tree_ok (c_files c) s') ->
  settings_valid (fst (fst (at_node c p f))) /\ same_fe c (fst (fst (at_node c p f))).
Proof.
  intros H Hf. unfold at_node. destruct (get_at p (c_root c)) as [s|] eqn:Eg; [|cbn; split; [exact H | split; reflexivity]].
  destruct (f s) as [[o r] ev] eqn:Ef. destruct o as [s'|]; cbn [fst]; [|split; [exact H | split; reflexivity]].
  split; [|split; reflexivity]. unfold settings_valid. cbn [set_root c_files c_root].
  apply tree_ok_put; [exact H|]. eapply Hf; [|exact Ef]. eapply tree_ok_get_at; eassumption.
Qed.

Lemma keeps_setter F c k v : keeps F (setter c k v).
Proof.
  destruct k; cbn [setter]; [apply keeps_int | apply keeps_int64 | apply keeps_float | apply keeps_bool | apply keeps_string].
Qed.

Lemma tree_ok_new_root F : tree_ok F new_root.
Proof. apply tree_ok_new. Qed.

(* what an API call does to tree, vector and error file *)
Lemma api_step_frame c o :
  settings_valid c ->
  let c' := step_cfg c o in
  settings_valid c' /\
  match o with
  | OClear => c_files c' = [] /\ c_err c' = c_err c
  | OInit | ODestroy => c_err c' = err0
  | _ => same_fe c c'
  end.
Proof.
  intros H. cbv zeta. unfold step_cfg.
  destruct o; cbn [api_step];
    try (split; [exact H | split; reflexivity]);
    try (apply at_node_ok; [exact H|]; intros s s' r ev Hs E; try discriminate).
  - (* OInit *) split; [exact (tree_ok_new_root _) | reflexivity].
  - (* OClear *) split; [exact (tree_ok_new_root _) | split; reflexivity].
  - (* ODestroy *) split; [exact (tree_ok_new_root _) | reflexivity].
  - (* OHook *) injection E as <- _ _. apply tree_ok_set_hook. exact Hs.
  - (* OAdd *) destruct (n_add _ s name tcode) as [[[s2 i] v]|] eqn:A; [|discriminate]. injection E as <- _ _.
    eapply n_add_ok; eassumption.
  - (* ORemove *) destruct path as [pa|]; [|discriminate]. destruct (n_remove s pa) as [[s2 v]|] eqn:A; [|discriminate].
    injection E as <- _ _. eapply n_remove_ok; eassumption.
  - (* ORemoveElem *) destruct (n_remove_elem s _) as [[s2 v]|] eqn:A; [|discriminate].
    injection E as <- _ _. eapply n_remove_elem_ok; eassumption.
  - (* OSet *) destruct (setter c k v s) as [|s2|] eqn:A; try discriminate. injection E as <- _ _.
    eapply keeps_setter; eassumption.
  - (* OSetElem *) destruct (n_set_elem _ _ s idx) as [|s2 i|] eqn:A; try discriminate. injection E as <- _ _.
    eapply n_set_elem_ok; [apply keeps_setter | exact Hs | exact A].
  - (* OSetFormat *) destruct (n_set_format s _) as [|s2|] eqn:A; try discriminate. injection E as <- _ _.
    eapply keeps_format; eassumption.
Qed.

(* the settings' file names stay valid under every API call, config_clear / config_destroy / config_init included *)
Theorem api_step_settings_valid c o : settings_valid c -> settings_valid (step_cfg c o).
Proof. intros H. exact (proj1 (api_step_frame c o H)). Qed.

(* the error file name stays valid under every API call except a config_clear made while error_file is set *)
Theorem api_step_files_valid c o :
  files_valid c -> (o = OClear -> e_file (c_err c) = None) -> files_valid (step_cfg c o).
Proof.
  intros [H1 H2] Hcl. destruct (api_step_frame c o H1) as [A B]. cbv zeta in *. split; [exact A|].
  unfold error_valid in *.
  destruct o; try (rewrite B; exact I); try (destruct B as [B1 B2]; rewrite B1, B2; exact H2).
  destruct B as [B1 B2]. rewrite B2, (Hcl eq_refl). exact I.
Qed.

(* the exception is real, in the model as in the code: config_clear deletes the vector and leaves error_file as it
   is (libconfig.c: config_clear does not call __config_reset_error), so after a failed read followed by
   config_clear, config_error_file() is a dangling pointer.  C11 promises validity only "until the configuration
   is cleared or destroyed", so the property is not violated; the invariant just cannot be carried across a clear *)
Theorem clear_keeps_error_file c :
  c_err (step_cfg c OClear) = c_err c /\ c_files (step_cfg c OClear) = [].
Proof. split; reflexivity. Qed.

Theorem clear_breaks_error_valid c f :
  e_file (c_err c) = Some f -> ~ files_valid (step_cfg c OClear).
Proof. intros E [_ H]. unfold error_valid in H. cbn in H. rewrite E in H. exact H. Qed.

(* ------------------------------------------------------------------------------------ *)
(* 6. histories of reads, writes and API calls, in any order *)
Section Reach.
  Variable atof : bytes -> Z.
  Variable fmt_double : Z -> Z -> bool -> bytes.

  (* a clear made while error_file is set *)
  Definition stale_clear (c : cfg) (o : aop) : Prop := o = OClear /\ e_file (c_err c) <> None.

  (* configurations reachable from config_init over any initial file system.  A read that makes the process exit
     (outcome None of rw_step) ends the history.  [strict = true]: no clear is made while error_file is set *)
  Inductive reach (strict : bool) : fs -> cfg -> Prop :=
  | reach_init FS : reach strict FS cfg_init
  | reach_rw FS c o FS' c' b :
      reach strict FS c -> rw_step atof fmt_double (FS, c) o = (FS', c', Some b) -> reach strict FS' c'
  | reach_api FS c o :
      reach strict FS c -> (strict = true -> ~ stale_clear c o) -> reach strict FS (step_cfg c o).

  Lemma rw_step_files_valid FS c o FS' c' b :
    settings_valid c -> rw_step atof fmt_double (FS, c) o = (FS', c', Some b) -> files_valid c'.
  Proof.
    intros Hc. destruct o as [text|path|path d k]; cbn [rw_step]; intros E; injection E as _ <- Eb.
    - apply config_read_files_valid. destruct (rd_out_ _); try discriminate; auto.
    - apply config_read_file_files_valid; [exact Hc|]. destruct (rd_out_ _); try discriminate; auto.
    - split; [exact Hc|]. unfold error_valid. cbn [set_err c_files c_err]. rewrite wf_err_spec.
      destruct (wf_ok _); exact I.
  Qed.

  (* every reachable configuration: the file names of all settings are owned by the vector *)
  Theorem settings_valid_reachable strict FS c : reach strict FS c -> settings_valid c.
  Proof.
    induction 1 as [FS|FS c o FS' c' b _ IH E|FS c o _ IH _].
    - apply tree_ok_new_root.
    - exact (proj1 (rw_step_files_valid _ _ _ _ _ _ IH E)).
    - apply api_step_settings_valid. exact IH.
  Qed.

  (* every configuration reachable without a clear made while error_file is set: all names are owned by the vector *)
  Theorem files_valid_reachable FS c : reach true FS c -> files_valid c.
  Proof.
    induction 1 as [FS|FS c o FS' c' b _ IH E|FS c o _ IH Hs].
    - split; [apply tree_ok_new_root | exact I].
    - exact (rw_step_files_valid _ _ _ _ _ _ (proj1 IH) E).
    - apply api_step_files_valid; [exact IH|]. intros Eo. specialize (Hs eq_refl).
      destruct (e_file (c_err c)) as [f|] eqn:Ef; [|reflexivity]. exfalso. apply Hs. split; [exact Eo | rewrite Ef; discriminate].
  Qed.

  (* in every history at all: error_file is valid unless a clear was made while it was set and nothing has reset it
     since; said step by step *)
  Theorem error_valid_step_by_step strict FS c : reach strict FS c ->
    (forall o FS' c' b, rw_step atof fmt_double (FS, c) o = (FS', c', Some b) -> files_valid c') /\
    (forall o, error_valid c -> ~ stale_clear c o -> error_valid (step_cfg c o)).
  Proof.
    intros R. pose proof (settings_valid_reachable _ _ _ R) as Hs. split.
    - intros o FS' c' b E. eapply rw_step_files_valid; eassumption.
    - intros o He Hn. apply (api_step_files_valid c o (conj Hs He)). intros Eo.
      destruct (e_file (c_err c)) as [f|] eqn:Ef; [|reflexivity]. exfalso. apply Hn. split; [exact Eo | rewrite Ef; discriminate].
  Qed.
End Reach.

(* ------------------------------------------------------------------------------------ *)
(* 7. non-vacuity *)
From Coq Require String Ascii.
From Coq Require Import String.

Fixpoint bs (s : String.string) : bytes :=
  match s with
  | String.EmptyString => []
  | String.String a r => Z.of_nat (Ascii.nat_of_ascii a) :: bs r
  end.

Arguments bs _%string.

Definition nl : bytes := [10].

(* main text includes "a"; "a" sets x and includes "b"; "b" sets y and then has a syntax error on its line 2 *)
Definition ex_fs : fs :=
  [ (bs "a", FFile (bs "x = 1;" ++ nl ++ bs "@include ""b""" ++ nl ++ bs "z = 3;" ++ nl));
    (bs "b", FFile (bs "y = 2;" ++ nl ++ bs "w = = 4;" ++ nl)) ].
Definition ex_text : bytes := bs "@include ""a""" ++ nl ++ bs "v = 5;" ++ nl.

Definition ex_read : rd_result := config_read (fun _ => 0) ex_fs cfg_init (Some (bs "main.cfg")) ex_text.

Example ex_read_fails_in_b :
  rd_out_ ex_read = RdFail /\
  e_file (c_err (rd_cfg ex_read)) = Some (bs "b") /\ e_line (c_err (rd_cfg ex_read)) = 2 /\
  c_files (rd_cfg ex_read) = [bs "main.cfg"; bs "a"; bs "b"] /\
  map s_file (s_kids (c_root (rd_cfg ex_read))) = [Some (bs "a"); Some (bs "b"); Some (bs "b")] /\
  s_file (c_root (rd_cfg ex_read)) = Some (bs "main.cfg") /\
  files_validb (rd_cfg ex_read) = true.
Proof. vm_compute. repeat split; reflexivity. Qed.

(* the same read when everything parses: names of three files in the tree, all owned *)
Definition ex_fs_ok : fs :=
  [ (bs "a", FFile (bs "x = 1;" ++ nl ++ bs "@include ""b""" ++ nl ++ bs "z = 3;" ++ nl));
    (bs "b", FFile (bs "y = 2;" ++ nl)) ].
Definition ex_read_ok : rd_result := config_read (fun _ => 0) ex_fs_ok cfg_init (Some (bs "main.cfg")) ex_text.

Example ex_read_succeeds :
  rd_out_ ex_read_ok = RdOk /\
  c_files (rd_cfg ex_read_ok) = [bs "main.cfg"; bs "a"; bs "b"] /\
  map s_file (s_kids (c_root (rd_cfg ex_read_ok))) =
    [Some (bs "a"); Some (bs "b"); Some (bs "a"); Some (bs "main.cfg")] /\
  files_validb (rd_cfg ex_read_ok) = true.
Proof. vm_compute. repeat split; reflexivity. Qed.

(* the invariant is not trivial: a setting whose file name is not in the vector *)
Definition ex_bad_cfg : cfg :=
  set_files (set_root cfg_init (set_kids new_root [set_pos (new_setting (Some (bs "x")) TInt) 1 (Some (bs "gone.cfg"))]))
            [bs "main.cfg"].

Example ex_bad_cfg_invalid : files_validb ex_bad_cfg = false.
Proof. vm_compute. reflexivity. Qed.

Example ex_bad_cfg_not_valid : ~ files_valid ex_bad_cfg.
Proof. intros H. apply files_validb_spec in H. vm_compute in H. discriminate H. Qed.

(* nor is an error file outside the vector accepted *)
Example ex_bad_err_invalid :
  files_validb (set_err (set_files cfg_init [bs "main.cfg"]) (mkErr 2 None (Some (bs "gone.cfg")) 1)) = false.
Proof. vm_compute. reflexivity. Qed.

(* the witness for the exception: failed read, then config_clear: error_file still names "b", the vector is empty *)
Example ex_clear_after_failed_read :
  let c := step_cfg (rd_cfg ex_read) OClear in
  e_file (c_err c) = Some (bs "b") /\ c_files c = [] /\ files_validb c = false /\
  tree_okb (c_files c) (c_root c) = true.
Proof. vm_compute. repeat split; reflexivity. Qed.

(* the witness for the precondition of config_read_file_files_valid: an unopenable file leaves an (artificially)
   invalid configuration as invalid as it was *)
Example ex_unopenable_keeps_invalid :
  let r := config_read_file (fun _ => 0) ex_fs ex_bad_cfg (bs "missing") in
  rd_out_ r = RdFail /\ files_validb (rd_cfg r) = false.
Proof. vm_compute. split; reflexivity. Qed.

(* and that configuration is reachable (non-strict histories): config_read_file of a file whose include chain fails,
   then config_clear *)
Definition ex_fs_main : fs := (bs "main.cfg", FFile ex_text) :: ex_fs.
Definition ex_stale_cfg : cfg :=
  step_cfg (rd_cfg (config_read_file (fun _ => 0) ex_fs_main cfg_init (bs "main.cfg"))) OClear.

Example ex_stale_reachable :
  reach (fun _ => 0) (fun _ _ _ => []) false ex_fs_main ex_stale_cfg /\
  files_validb ex_stale_cfg = false /\ e_file (c_err ex_stale_cfg) = Some (bs "b") /\ c_files ex_stale_cfg = [].
Proof.
  split; [|vm_compute; repeat split; reflexivity].
  unfold ex_stale_cfg. apply reach_api; [|intros; discriminate].
  apply (reach_rw _ _ false ex_fs_main cfg_init (RReadFile (bs "main.cfg")) ex_fs_main _ false); [apply reach_init|].
  vm_compute. reflexivity.
Qed.

(* ------------------------------------------------------------------------------------ *)
Print Assumptions files_validb_spec.
Print Assumptions files_valid_iff_paths.
Print Assumptions lex_top_files_monotone.
Print Assumptions lex_top_files_by_position.
Print Assumptions config_read_files_valid.
Print Assumptions config_read_file_files_valid_opened.
Print Assumptions config_read_file_files_valid.
Print Assumptions config_read_file_unopenable.
Print Assumptions api_step_settings_valid.
Print Assumptions api_step_files_valid.
Print Assumptions clear_breaks_error_valid.
Print Assumptions settings_valid_reachable.
Print Assumptions files_valid_reachable.
Print Assumptions error_valid_step_by_step.
Print Assumptions ex_read_fails_in_b.
Print Assumptions ex_clear_after_failed_read.
Print Assumptions ex_stale_reachable.
