(* WriteStable.v — writing the re-read configuration reproduces the text (lemmas behind Properties_C01, last
   clause), under the stability of every float under render - read - render. *)
From Coq Require Import List ZArith NArith Bool Lia.
Import ListNotations.
From LC Require Import Base BaseFacts Tree Fp Lookup Api ApiStep ScanAction FlexEngine Tokens Lexer Parser Reader
  TreeFacts ApiFacts Writer WriterFacts LexRound LexWrite ParseWrite.
Local Open Scope Z_scope.

Section WS.
  Variable fmt_double : Z -> Z -> bool -> bytes.
  Variable atof : bytes -> Z.
  Variable c : cfg.

  Notation render_all := (render_all fmt_double c).
  Notation writable := (writable fmt_double atof c).
  Notation nobs := (nobs fmt_double atof c).

  (* values whose second rendering is the first one: integer formats are 0 or 1 (all the API stores), and every
     float is stable under render - read - render (false for the class F1c; evaluated by the C01 check) *)
  Fixpoint stable (s : setting) : Prop :=
    let 'Setting _ pl kids f _ _ _ := s in
    (fix all (l : list setting) : Prop := match l with [] => True | e :: r => stable e /\ all r end) kids /\
    match pl with
    | PInt _ | PInt64 _ => f = 0 \/ f = 1
    | PFloat b => ftext fmt_double c (atof (ftext fmt_double c b)) = ftext fmt_double c b
    | _ => True
    end.

  Lemma all_stable kids :
    (fix all (l : list setting) : Prop := match l with [] => True | e :: r => stable e /\ all r end) kids <-> Forall stable kids.
  Proof. induction kids as [|e r IH]; [split; constructor|]. rewrite IH. split; [intros [A B]; constructor; assumption | intros H; inversion H; split; assumption]. Qed.

  Definition same_text (s' v : setting) : Prop := forall d, render_all (pieces c s' d) = render_all (pieces c v d).

  Lemma obs_inv s' n pl f ks : obs s' = ON n pl f ks ->
    exists k' h l fi, s' = Setting n pl k' f h l fi /\ map obs k' = ks.
  Proof. destruct s' as [n' pl' k' f' h' l' fi']. cbn. intros H. injection H as -> -> -> <-. eexists _, _, _, _. split; reflexivity. Qed.

  Lemma map_obs_forall2 {B} (g : B -> otree) k' (kids : list B) : map obs k' = map g kids -> Forall2 (fun e' e => obs e' = g e) k' kids.
  Proof.
    revert kids. induction k' as [|x r IH]; intros [|y ys] H; cbn in H; try discriminate; [constructor|].
    injection H as H1 H2. constructor; [exact H1 | apply IH; exact H2].
  Qed.

  Lemma elems_same d k' kids : Forall2 same_text k' kids ->
    render_all (elems_pieces c d k') = render_all (elems_pieces c d kids).
  Proof.
    induction 1 as [|e' e r' r He Hr IH]; [reflexivity|].
    destruct r' as [|e2' r2']; destruct r as [|e2 r2].
    - cbn [elems_pieces]. rewrite !render_all_app, (He (d + 1)). reflexivity.
    - exfalso. inversion Hr.
    - exfalso. inversion Hr.
    - rewrite !elems_pieces_cons, !render_all_app, (He (d + 1)), IH. reflexivity.
  Qed.

  Lemma members_same d k' kids :
    Forall2 (fun m' m => same_text m' m /\ s_name m' = s_name m /\ ty_eqb (s_ty m') TGroup = ty_eqb (s_ty m) TGroup) k' kids ->
    render_all (flat_map (fun m => member_line c m d) k') = render_all (flat_map (fun m => member_line c m d) kids).
  Proof.
    induction 1 as [|m' m r' r (Ht & Hn & Hg) _ IH]; [reflexivity|].
    cbn [flat_map]. rewrite !render_all_app, IH. f_equal.
    unfold member_line. rewrite !render_all_app, Hn, Hg, (Ht d). reflexivity.
  Qed.

  Theorem nobs_same_text : forall v, writable v -> stable v -> forall s' nm, obs s' = nobs nm v -> same_text s' v.
  Proof.
    induction v as [n pl kids f h l fi IH] using setting_ind'. intros Hw Hst s' nm Ho d.
    cbn [stable] in Hst. destruct Hst as [Hsk Hsc]. apply all_stable in Hsk.
    destruct pl as [| z | z | b | z | o | | |].
    - destruct Hw.
    - (* int *)
      cbn [ParseWrite.nobs npl nfmt] in Ho. destruct (obs_inv _ _ _ _ _ Ho) as (k' & h' & l' & fi' & -> & _).
      cbn [pieces]. unfold WriterFacts.render_all. cbn [flat_map WriterFacts.render write_scalar]. f_equal. fold (eff c f).
      assert (E : (if (if eff c f =? 1 then 1 else 0) =? 0 then c_deffmt c else (if eff c f =? 1 then 1 else 0)) =? 1 = (eff c f =? 1)).
      { unfold eff. destruct Hsc as [-> | ->]; cbn; destruct (c_deffmt c =? 1) eqn:E1; cbn; rewrite ?E1; reflexivity. }
      fold (eff c (if eff c f =? 1 then 1 else 0)). unfold eff at 1. rewrite E. reflexivity.
    - (* int64 *)
      cbn [ParseWrite.nobs npl nfmt] in Ho. destruct (obs_inv _ _ _ _ _ Ho) as (k' & h' & l' & fi' & -> & _).
      cbn [pieces]. unfold WriterFacts.render_all. cbn [flat_map WriterFacts.render write_scalar]. f_equal. fold (eff c f).
      assert (E : (if (if eff c f =? 1 then 1 else 0) =? 0 then c_deffmt c else (if eff c f =? 1 then 1 else 0)) =? 1 = (eff c f =? 1)).
      { unfold eff. destruct Hsc as [-> | ->]; cbn; destruct (c_deffmt c =? 1) eqn:E1; cbn; rewrite ?E1; reflexivity. }
      fold (eff c (if eff c f =? 1 then 1 else 0)). unfold eff at 1. rewrite E. reflexivity.
    - (* float *)
      cbn [ParseWrite.nobs npl nfmt] in Ho. destruct (obs_inv _ _ _ _ _ Ho) as (k' & h' & l' & fi' & -> & _).
      cbn [pieces]. unfold WriterFacts.render_all. cbn [flat_map WriterFacts.render write_scalar]. f_equal. exact Hsc.
    - (* bool *)
      cbn [ParseWrite.nobs npl nfmt] in Ho. destruct (obs_inv _ _ _ _ _ Ho) as (k' & h' & l' & fi' & -> & _).
      cbn [pieces]. unfold WriterFacts.render_all. cbn [flat_map WriterFacts.render write_scalar]. f_equal.
      destruct (z =? 0); reflexivity.
    - (* string *)
      cbn [ParseWrite.nobs npl nfmt] in Ho. destruct o as [str|]; destruct (obs_inv _ _ _ _ _ Ho) as (k' & h' & l' & fi' & -> & _); reflexivity.
    - (* group *)
      cbn [LexWrite.writable] in Hw. apply all_members in Hw.
      cbn [ParseWrite.nobs] in Ho. destruct (obs_inv _ _ _ _ _ Ho) as (k' & h' & l' & fi' & -> & Hk).
      apply map_obs_forall2 in Hk.
      assert (HF : Forall2 (fun m' m => same_text m' m /\ s_name m' = s_name m /\ ty_eqb (s_ty m') TGroup = ty_eqb (s_ty m) TGroup) k' kids).
      { clear -IH Hw Hsk Hk. induction Hk as [|m' m r' r Hm _ IHk]; [constructor|].
        inversion IH as [|? ? Hi IHr]; subst. inversion Hw as [|? ? [_ Hwm] Hwr]; subst. inversion Hsk as [|? ? Hsm Hsr]; subst.
        constructor; [|apply IHk; assumption]. split; [exact (Hi Hwm Hsm m' (s_name m) Hm)|].
        destruct (nobs_pl fmt_double atof c (s_name m) m) as (ff & kk & En). rewrite En in Hm.
        destruct (obs_pl _ _ _ _ _ Hm) as (Hp & Hn & _). split; [exact Hn|].
        unfold s_ty. rewrite Hp. destruct (s_pl m) as [| | | | | [?|] | | |]; reflexivity. }
      rewrite !group_is_lines, !render_all_app. f_equal. f_equal. apply members_same. exact HF.
    - (* array *)
      cbn [LexWrite.writable] in Hw. apply all_elems in Hw.
      cbn [ParseWrite.nobs] in Ho. destruct (obs_inv _ _ _ _ _ Ho) as (k' & h' & l' & fi' & -> & Hk).
      apply map_obs_forall2 in Hk.
      assert (HF : Forall2 same_text k' kids).
      { clear -IH Hw Hsk Hk. induction Hk as [|m' m r' r Hm _ IHk]; [constructor|].
        inversion IH as [|? ? Hi IHr]; subst. inversion Hw as [|? ? Hwm Hwr]; subst. inversion Hsk as [|? ? Hsm Hsr]; subst.
        constructor; [exact (Hi Hwm Hsm m' None Hm) | apply IHk; assumption]. }
      rewrite (list_pieces c nm PArray k' 0 h' l' fi' d (or_intror eq_refl)),
              (list_pieces c n PArray kids f h l fi d (or_intror eq_refl)).
      rewrite !render_all_app. f_equal. f_equal. apply elems_same. exact HF.
    - (* list *)
      cbn [LexWrite.writable] in Hw. apply all_elems in Hw.
      cbn [ParseWrite.nobs] in Ho. destruct (obs_inv _ _ _ _ _ Ho) as (k' & h' & l' & fi' & -> & Hk).
      apply map_obs_forall2 in Hk.
      assert (HF : Forall2 same_text k' kids).
      { clear -IH Hw Hsk Hk. induction Hk as [|m' m r' r Hm _ IHk]; [constructor|].
        inversion IH as [|? ? Hi IHr]; subst. inversion Hw as [|? ? Hwm Hwr]; subst. inversion Hsk as [|? ? Hsm Hsr]; subst.
        constructor; [exact (Hi Hwm Hsm m' None Hm) | apply IHk; assumption]. }
      rewrite (list_pieces c nm PList k' 0 h' l' fi' d (or_introl eq_refl)),
              (list_pieces c n PList kids f h l fi d (or_introl eq_refl)).
      rewrite !render_all_app. f_equal. f_equal. apply elems_same. exact HF.
  Qed.
End WS.

(* ---- the output depends on the configuration only through its four output attributes ---- *)
Definition same_out (c c' : cfg) : Prop :=
  c_options c' = c_options c /\ c_tab c' = c_tab c /\ c_prec c' = c_prec c /\ c_deffmt c' = c_deffmt c.

Lemma same_out_option c c' o : same_out c c' -> get_option c' o = get_option c o.
Proof. intros (H & _). unfold get_option. rewrite H. reflexivity. Qed.

Lemma elems_pieces_ext c c' d kids : Forall (fun e => forall d', pieces c' e d' = pieces c e d') kids ->
  elems_pieces c' d kids = elems_pieces c d kids.
Proof.
  induction 1 as [|e r He Hr IH]; [reflexivity|]. destruct r as [|e2 r2].
  - cbn [elems_pieces]. rewrite He. reflexivity.
  - rewrite !elems_pieces_cons, He, IH. reflexivity.
Qed.

Lemma pieces_ext c c' : same_out c c' -> forall s d, pieces c' s d = pieces c s d.
Proof.
  intros Hso. induction s as [n pl kids f h l fi IH] using setting_ind'. intros d.
  destruct pl; try reflexivity.
  - rewrite !group_is_lines, !(same_out_option c c' _ Hso). f_equal. f_equal.
    induction IH as [|m r Hm _ IHr]; [reflexivity|]. cbn [flat_map]. rewrite IHr. f_equal.
    unfold member_line, semi_pieces. rewrite Hm, !(same_out_option c c' _ Hso). reflexivity.
  - rewrite !(list_pieces _ n PArray kids f h l fi d (or_intror eq_refl)). f_equal. f_equal. apply elems_pieces_ext. exact IH.
  - rewrite !(list_pieces _ n PList kids f h l fi d (or_introl eq_refl)). f_equal. f_equal. apply elems_pieces_ext. exact IH.
Qed.

Lemma render_ext fmt_double c c' : same_out c c' -> forall p, render fmt_double c' p = render fmt_double c p.
Proof.
  intros Hso p. pose proof Hso as (Ho & Ht & Hp & Hd).
  destruct p; cbn [render]; try reflexivity.
  - unfold indent. rewrite Ht. reflexivity.
  - unfold assign_char. rewrite !(same_out_option c c' _ Hso). reflexivity.
  - rewrite Hd. destruct pl; cbn [write_scalar]; try reflexivity. rewrite Hp, (same_out_option c c' _ Hso). reflexivity.
Qed.

Lemma write_value_ext fmt_double c c' : same_out c c' -> forall s d,
  write_value fmt_double c' s d = write_value fmt_double c s d.
Proof.
  intros Hso s d. rewrite !write_value_pieces, (pieces_ext c c' Hso). unfold render_all.
  induction (pieces c s d) as [|p r IH]; [reflexivity|]. cbn [flat_map]. rewrite IH, (render_ext fmt_double c c' Hso). reflexivity.
Qed.

(* config_read keeps the output attributes of the configuration it reads into *)
Lemma config_read_out atof FS c2 top text :
  let c' := rd_cfg (config_read atof FS c2 top text) in
  c_options c' = c_options c2 /\ c_tab c' = c_tab c2 /\ c_prec c' = c_prec c2 /\ c_deffmt c' = c_deffmt c2.
Proof.
  cbv zeta. unfold config_read, clear_cfg.
  destruct (lex_top atof FS _ top text) as [toks stop].
  destruct (NEST_LIMIT <? max_nest toks 0 0); [cbn; auto|].
  destruct (p_config _ _) as [s|e s|s|s]; cbn; auto.
Qed.

(* ---- the second write ---- *)
Theorem second_write fmt_double atof FS c c2 kids f h l fi :
  c_root c = Setting None PGroup kids f h l fi -> kids <> [] ->
  writable fmt_double atof c (c_root c) -> pstruct (c_root c) -> stable fmt_double atof c (c_root c) ->
  nest_of (flat_map (piece_tok fmt_double atof c) (pieces c (c_root c) 0) ++ [TkEOF]) 0 0 <= NEST_LIMIT ->
  same_out c c2 ->
  config_write fmt_double (rd_cfg (config_read atof FS c2 None (config_write fmt_double c))) = config_write fmt_double c.
Proof.
  intros Hroot Hk Hw Hs Hst Hnest Hso.
  destruct (read_written fmt_double atof FS c c2 kids f h l fi Hroot Hk Hw Hs Hnest) as [_ Ho].
  set (c' := rd_cfg (config_read atof FS c2 None (config_write fmt_double c))) in *.
  assert (Hso' : same_out c c').
  { destruct (config_read_out atof FS c2 None (config_write fmt_double c)) as (A1 & A2 & A3 & A4).
    destruct Hso as (B1 & B2 & B3 & B4). unfold same_out, c'. rewrite A1, A2, A3, A4. auto. }
  assert (Ho' : obs (c_root c') = nobs fmt_double atof c None (c_root c)).
  { rewrite Ho, Hroot. reflexivity. }
  destruct (obs_pl _ _ _ _ _ Ho) as (_ & Hn' & _).
  unfold config_write. cbv zeta. rewrite Hn'. rewrite Hroot at 1. cbn [s_name app].
  rewrite (write_value_ext fmt_double c c' Hso').
  rewrite !write_value_pieces.
  exact (nobs_same_text fmt_double atof c (c_root c) Hw Hst (c_root c') None Ho' 0).
Qed.
