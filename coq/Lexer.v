(* Lexer.v — the scanner as compiled into the library: flex engine on the generated tables + the
   rule actions + the include machine of scanctx.c, as a function from a (virtual) file system and
   a top-level text to the stream of tokens the parser receives.  Definitions only.

   Structure: [lex_buf] scans one buffer to its end; an @include directive scans the files of the
   new frame recursively ([lex_frame]) and then resumes the parent buffer — recursion on the remaining
   include-depth budget, which MAX_INCLUDE_DEPTH bounds.  The explicit include stack is carried as
   data because the code observes it (current file name, streams to close when a read aborts). *)
From Coq Require Import List ZArith Bool.
Import ListNotations.
From LC Require Import Base Tree Fp ScanAction FlexEngine Tokens ApiStep.
From LC.gen Require Import Consts.
Local Open Scope Z_scope.

(* ---- numeric literal conversion (util.c, scanner.l) ---- *)

Definition split_sign (s : bytes) : bool * bytes :=
  match s with
  | 45 :: r => (true, r)
  | 43 :: r => (false, r)
  | _ => (false, s)
  end.

Definition is_octal_digit (c : Z) : bool := (48 <=? c) && (c <=? 55).

(* libconfig_parse_integer: strtoll(s, &end, 0), an optional L or LL suffix, then "*end || errno" as
   failure.  The lexeme is [-+]?[0-9]+(L(L)?)? *)
Definition parse_integer (s : bytes) : option Z :=
  let '(neg, r) := split_sign s in
  let '(ds, suffix) := span is_digit r in
  let suffix_ok := match suffix with [] | [76] | [76; 76] => true | _ => false end in
  let v :=
    match ds with
    | 48 :: _ :: _ =>                       (* leading 0, more digits: octal *)
        if forallb is_octal_digit ds then Some (digits_val 8 ds) else None
    | _ => Some (digits_val 10 ds)
    end in
  match v with
  | None => None
  | Some m => let z := if neg then - m else m in
              if in_int64 z && suffix_ok then Some z else None
  end.

(* libconfig_parse_hex64: strtoull(s, NULL, 16) on a lexeme 0[xX]hex+...; None = ERANGE (more than
   64 bits) *)
Definition parse_hex64 (s : bytes) : option Z :=
  match s with
  | _ :: _ :: r =>
      let '(ds, _) := span is_xdigit r in
      let m := digits_val 16 ds in
      if ULLONG_MAX <? m then None else Some m
  | _ => Some 0
  end.

(* the {hex} action: more than 32 bits is an error; otherwise the pattern is assigned to an int *)
Definition hex_value (s : bytes) : option Z :=
  match parse_hex64 s with
  | Some m => if 4294967295 <? m then None else Some (to_int32 m)
  | None => None
  end.
(* the {hex64} action: the pattern is assigned to a long long *)
Definition hex64_value (s : bytes) : option Z :=
  match parse_hex64 s with Some m => Some (to_int64 m) | None => None end.

(* the token a numeric rule produces for its lexeme; None = TOK_ERROR (the literal is rejected) *)
Definition numeric_token (atof : bytes -> Z) (a : action) (text : bytes) : option token :=
  match a with
  | AFloat => let b := atof text in if b64_is_inf b then None else Some (TkFloat b)
  | AInteger => match parse_integer text with
                | Some v => Some (if in_int v then TkInt v else TkInt64 v) | None => None end
  | AInteger64 => match parse_integer text with Some v => Some (TkInt64 v) | None => None end
  | AHex => match hex_value text with Some v => Some (TkHex v) | None => None end
  | AHex64 => match hex64_value text with Some v => Some (TkHex64 v) | None => None end
  | _ => None
  end.

Fixpoint until_nul (s : bytes) : bytes :=
  match s with
  | [] => []
  | c :: r => if c =? 0 then [] else c :: until_nul r
  end.

Fixpoint count_nl (s : bytes) : Z :=
  match s with
  | [] => 0
  | c :: r => (if c =? 10 then 1 else 0) + count_nl r
  end.

(* ---- virtual file system ---- *)
Inductive fsobj := FFile (content : bytes) | FDir.
Definition fs := list (bytes * fsobj).

Fixpoint fs_lookup (f : fs) (path : bytes) : option fsobj :=
  match f with
  | [] => None
  | (p, o) :: r => if bytes_eqb p path then Some o else fs_lookup r path
  end.

(* ---- scanner output ---- *)
Inductive levent :=
| LvOpen (path : bytes) | LvClose (path : bytes) | LvIncl (path : bytes) | LvStdout (text : bytes).

Record ltoken := mkLT {
  lt_tok : token;
  lt_line : Z;                                  (* yylineno after the token was scanned *)
  lt_file : option bytes;                       (* libconfig_scanctx_current_filename *)
  lt_err : option (bytes * option bytes * Z);   (* error text/file/line written by the scanner *)
  lt_open : list bytes;                         (* streams open after this token, innermost first *)
  lt_nfiles : list bytes;                       (* ctx->filenames after this token *)
  lt_events : list levent }.                    (* events since the previous token, in order *)

Inductive lstop :=
| StopEOB                                       (* end of this buffer reached *)
| StopError                                     (* a TOK_ERROR was emitted (last token) *)
| StopFatal (code : Z)                          (* YY_FATAL_ERROR: exit(code) *)
| StopStuck.                                    (* cannot happen: see Properties_C03 *)

Record buf := mkBuf { b_rest : bytes; b_bol : bool; b_line : Z }.

(* what survives a buffer switch *)
Record lstate := mkLS {
  l_cond : Z;                                   (* start condition *)
  l_acc : bytes;                                (* string accumulator (ctx->string) *)
  l_names : list (option bytes);                (* current file name per frame, innermost first; last = top *)
  l_open : list bytes;                          (* open include streams, innermost first *)
  l_files : list bytes;                         (* ctx->filenames *)
  l_pending : list levent }.                    (* events not yet attached to a token (reversed) *)

Definition err_bad_include : bytes := ERR_BAD_INCLUDE.
Definition err_include_too_deep : bytes := ERR_INCLUDE_TOO_DEEP.

Section Lex.
  Variable T : tables.
  Variable rule_eol : list Z.
  Variable actions : list (Z * action).
  Variable atof : bytes -> Z.
  Variable FS : fs.
  Variable incdir : option bytes.
  Variable incf : incfn.
  Variable max_depth : Z.

  Fixpoint action_of (l : list (Z * action)) (r : Z) : action :=
    match l with
    | [] => AUnknown
    | (n, a) :: rest => if n =? r then a else action_of rest r
    end.

  Definition cur_name (st : lstate) : option bytes :=
    match l_names st with n :: _ => n | [] => None end.

  Definition add_ev (st : lstate) (e : levent) : lstate :=
    mkLS (l_cond st) (l_acc st) (l_names st) (l_open st) (l_files st) (e :: l_pending st).
  Definition set_cond (st : lstate) (c : Z) : lstate :=
    mkLS c (l_acc st) (l_names st) (l_open st) (l_files st) (l_pending st).
  Definition set_acc (st : lstate) (a : bytes) : lstate :=
    mkLS (l_cond st) a (l_names st) (l_open st) (l_files st) (l_pending st).
  Definition clear_pending (st : lstate) : lstate :=
    mkLS (l_cond st) (l_acc st) (l_names st) (l_open st) (l_files st) [].

  Definition emit (st : lstate) (line : Z) (t : token) (err : option (bytes * option bytes * Z))
    : ltoken * lstate :=
    (mkLT t line (cur_name st) err (l_open st) (l_files st) (rev (l_pending st)), clear_pending st).

  (* config_default_include_func / the harness's custom functions *)
  Definition is_relative (p : bytes) : bool :=
    match p with 47 :: _ => false | _ => true end.

  Definition call_incfn (path : bytes) : list levent * option bytes * option (list bytes) :=
    match incf with
    | IncDefault =>
        let f := match incdir with
                 | Some d => if is_relative path then d ++ [47] ++ path else path
                 | None => path
                 end in
        ([], None, Some [f])
    | IncMulti ps => ([LvIncl path], None, Some ps)
    | IncFail msg => ([LvIncl path], Some msg, None)
    | IncEmpty => ([LvIncl path], None, Some [])
    | IncNull => ([LvIncl path], None, None)
    end.

  Definition hex2_val (s : bytes) : Z :=
    match s with
    | _ :: _ :: a :: b :: _ => Z.land (digit_val a * 16 + digit_val b) 255
    | _ => 0
    end.

  Definition push_open (st : lstate) (f : bytes) : lstate :=
    mkLS (l_cond st) (l_acc st) (l_names st) (f :: l_open st) (l_files st) (l_pending st).
  Definition pop_open (st : lstate) : lstate :=
    mkLS (l_cond st) (l_acc st) (l_names st) (tl (l_open st)) (l_files st) (l_pending st).
  Definition set_name (st : lstate) (n : option bytes) : lstate :=
    mkLS (l_cond st) (l_acc st) (n :: tl (l_names st)) (l_open st) (l_files st) (l_pending st).
  Definition push_frame (st : lstate) : lstate :=
    mkLS 0 (l_acc st) (None :: l_names st) (l_open st) (l_files st) (l_pending st).
  Definition pop_frame (st : lstate) : lstate :=
    mkLS (l_cond st) (l_acc st) (tl (l_names st)) (l_open st) (l_files st) (l_pending st).
  Definition add_files (st : lstate) (fs' : list bytes) : lstate :=
    mkLS (l_cond st) (l_acc st) (l_names st) (l_open st) (l_files st ++ fs') (l_pending st).

  (* one frame's files, scanned in order with [scan_file]; [prev_line] = final yylineno of the
     buffer that is current when the next file is opened (used by the error report) *)
  Section Frame.
    Variable scan_file : lstate -> bytes -> list ltoken * lstop * lstate * Z.   (* content -> ..., final line *)

    (* files: remaining files of the frame (the first one is opened now); st has the frame's name
       slot as head of l_names *)
    Fixpoint lex_files (files : list bytes) (st : lstate) (prev_line : Z)
      : list ltoken * lstop * lstate :=
      match files with
      | [] => ([], StopEOB, st)
      | f :: rest =>
          let st1 := set_name st (Some f) in
          match fs_lookup FS f with
          | None =>
              (* <<EOF>> rule: the next file of the frame cannot be opened *)
              let '(tk, st2) := emit st1 prev_line TkError (Some (err_bad_include, Some f, prev_line)) in
              ([tk], StopError, st2)
          | Some FDir =>
              (* fopen succeeds on a directory; fstat says so: closed again, reported like a missing file *)
              let st1' := add_ev (add_ev st1 (LvOpen f)) (LvClose f) in
              let '(tk, st2) := emit st1' prev_line TkError (Some (err_bad_include, Some f, prev_line)) in
              ([tk], StopError, st2)
          | Some (FFile content) =>
              let st2 := add_ev st1 (LvOpen f) in
              let st3 := push_open st2 f in
              let '(toks, stop, st4, line) := scan_file st3 content in
              match stop with
              | StopEOB =>
                  (* next_include_file: close this stream, go on with the next file *)
                  let st5 := add_ev (pop_open st4) (LvClose f) in
                  let '(toks2, stop2, st6) := lex_files rest st5 line in
                  (toks ++ toks2, stop2, st6)
              | _ => (toks, stop, st4)
              end
          end
      end.
  End Frame.

  (* ---- one scanner step: one flex match and its action (no recursion) ---- *)
  Inductive step_res :=
  | SCont (st : lstate) (b : buf)                        (* nothing returned to the parser; go on *)
  | STok (tk : ltoken) (st : lstate) (b : buf)            (* one token returned; go on *)
  | SStop (toks : list ltoken) (stop : lstop) (st : lstate) (line : Z)
  | SIncl (st : lstate) (files : list bytes) (line : Z) (b : buf).
      (* an @include directive accepted: scan [files] in a new frame, then go on with b *)

  Definition stop_error (st : lstate) (line : Z) (err : option (bytes * option bytes * Z)) : step_res :=
    let '(tk, st') := emit st line TkError err in SStop [tk] StopError st' line.

  Definition lex_step (st : lstate) (b : buf) : step_res :=
    match flex_match T (l_cond st) (b_bol b) (b_rest b) with
    | None => SStop [] StopStuck st (b_line b)
    | Some (rule, O) => SStop [] StopStuck st (b_line b)
    | Some (rule, len) =>
        let text := firstn len (b_rest b) in
        let rest := skipn len (b_rest b) in
        let bol' := (last text 0 =? 10) in
        let line' := if nthZ rule_eol rule =? 0 then b_line b else b_line b + count_nl text in
        let b' := mkBuf rest bol' line' in
        let tokret := fun t => let '(tk, st') := emit st line' t None in STok tk st' b' in
        match action_of actions rule with
        | ABegin sc => SCont (set_cond st sc) b'
        | AIgnore => SCont st b'
        | AAppendText => SCont (set_acc st (l_acc st ++ until_nul text)) b'
        | AAppendChar c => SCont (set_acc st (l_acc st ++ [c])) b'
        | AAppendHex => SCont (set_acc st (l_acc st ++ [hex2_val text])) b'
        | AEndString =>
            let '(tk, st') := emit st line' (TkString (until_nul (l_acc st))) None in
            STok tk (set_cond (set_acc st' []) 0) b'
        | ARet t => tokret (TkP t)
        | ABool v => tokret (TkBool v)
        | AName => tokret (TkName text)
        | AFloat | AInteger | AInteger64 | AHex | AHex64 =>
            match numeric_token atof (action_of actions rule) text with
            | Some t => tokret t
            | None => stop_error st line' None
            end
        | AEcho => SCont (add_ev st (LvStdout text)) b'
        | AUnknown => SStop [] StopStuck st line'
        | AIncludeEnd =>
            let path := until_nul (l_acc st) in
            let st1 := set_acc st [] in
            if Z.of_nat (length (l_names st1)) - 1 =? max_depth then
              stop_error st1 line' (Some (err_include_too_deep, cur_name st1, line'))
            else
              let '(evs, err, files) := call_incfn path in
              let st2 := fold_left add_ev evs st1 in
              match err, files with
              | Some msg, _ => stop_error st2 line' (Some (msg, cur_name st2, line'))
              | None, None => SCont (set_cond st2 0) b'
              | None, Some [] => SCont (set_cond st2 0) b'
              | None, Some (f1 :: frest) =>
                  (* every returned name is appended to ctx->filenames first *)
                  let st3 := add_files st2 (f1 :: frest) in
                  match fs_lookup FS f1 with
                  | None =>
                      (* first file cannot be opened: frame popped, reported at the directive *)
                      stop_error st3 line' (Some (err_bad_include, cur_name st3, line'))
                  | Some FDir =>
                      (* a directory: opened, recognised by fstat, closed; same report *)
                      let st3d := add_ev (add_ev st3 (LvOpen f1)) (LvClose f1) in
                      stop_error st3d line' (Some (err_bad_include, cur_name st3d, line'))
                  | Some (FFile _) =>
                      (* new frame; BEGIN INITIAL runs right after the buffer switch *)
                      SIncl (push_frame st3) (f1 :: frest) line' b'
                  end
              end
        end
    end.

  (* scan one buffer.  [do_include files st line] scans the files of a new include frame (None: the
     include-depth budget of the model is used up, which MAX_INCLUDE_DEPTH makes unreachable);
     [fuel] >= length of the text + 1 *)
  Section Buf.
    Variable do_include : option (list bytes -> lstate -> Z -> list ltoken * lstop * lstate).

    Fixpoint lex_buf (fuel : nat) (st : lstate) (b : buf) {struct fuel}
      : list ltoken * lstop * lstate * Z :=
      match fuel with
      | O => ([], StopStuck, st, b_line b)
      | S fuel' =>
          match b_rest b with
          | [] => ([], StopEOB, st, b_line b)
          | _ =>
              match lex_step st b with
              | SCont st' b' => lex_buf fuel' st' b'
              | STok tk st' b' =>
                  let '(toks, stop, st'', l) := lex_buf fuel' st' b' in (tk :: toks, stop, st'', l)
              | SStop toks stop st' l => (toks, stop, st', l)
              | SIncl st3' files line' b' =>
                  match do_include with
                  | None => ([], StopStuck, st3', line')
                  | Some incl =>
                      let '(toks, stop, st4) := incl files st3' line' in
                      match stop with
                      | StopEOB =>
                          (* pop the frame, resume this buffer *)
                          let '(toks2, stop2, st6, l) := lex_buf fuel' (pop_frame st4) b' in
                          (toks ++ toks2, stop2, st6, l)
                      | _ => (toks, stop, st4, line')
                      end
                  end
              end
          end
      end.
  End Buf.

  (* [d] = remaining include-depth budget *)
  Fixpoint lex_depth (d : nat) (st0 : lstate) (content : bytes) : list ltoken * lstop * lstate * Z :=
    lex_buf (match d with O => None | S d' => Some (lex_files (lex_depth d')) end)
            (S (length content)) st0 (mkBuf content true 1).
End Lex.
