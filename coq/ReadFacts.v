(* ReadFacts.v — a read that returns has closed every stream it opened (lemmas behind Properties_C11). *)
From Coq Require Import List ZArith Bool Lia.
Import ListNotations.
From LC Require Import Base Tree Fp Lookup Api ApiStep ScanAction FlexEngine Tokens Lexer LexFacts Parser Reader.
From LC.gen Require Import Consts ScannerTables.
Local Open Scope Z_scope.

Lemma toks_ok_firstn toks : forall hist n, toks_ok hist toks -> toks_ok hist (firstn n toks).
Proof.
  induction toks as [|t r IH]; intros hist [|n] H; cbn [firstn toks_ok]; auto.
  destruct H as [H1 H2]. split; [exact H1 | apply IH; exact H2].
Qed.

Lemma toks_ok_last P : forall hist t, toks_ok hist P -> last_opt P = Some t ->
  replay [] (hist ++ ES P) = Some (lt_open t).
Proof.
  induction P as [|x r IH]; intros hist t H L; [discriminate|].
  destruct H as [H1 H2]. cbn [ES flat_map]. destruct r as [|y r'].
  - injection L as <-. cbn [flat_map]. rewrite app_nil_r. exact H1.
  - rewrite app_assoc. apply IH; [exact H2 | exact L].
Qed.

Lemma last_opt_none {A} (l : list A) : last_opt l = None -> l = [].
Proof. induction l as [|x r IH]; [reflexivity|]. cbn. destruct r; [discriminate|]. intros H. specialize (IH H). discriminate. Qed.

Theorem file_events_balanced toks n : toks_ok [] toks -> replay [] (file_events toks n) = Some [].
Proof.
  intros H. unfold file_events, last_read.
  pose proof (toks_ok_firstn toks [] n H) as HP.
  destruct (last_opt (firstn n toks)) as [t|] eqn:L.
  - rewrite replay_app. change (flat_map lt_events (firstn n toks)) with (ES (firstn n toks)).
    pose proof (toks_ok_last _ [] t HP L) as R. cbn [app] in R. rewrite R. apply replay_close_all.
  - apply last_opt_none in L. rewrite L. reflexivity.
Qed.

Section Read.
  Variable atof : bytes -> Z.

  Lemma lex_top_ok FS c top text : toks_ok [] (fst (lex_top atof FS c top text)).
  Proof.
    unfold lex_top.
    assert (H0 : INV [] (lstate0 top)) by reflexivity.
    pose proof (lex_depth_ok the_tables yy_rule_can_match_eol yy_actions atof FS (c_incdir c) (c_incfn c)
                  MAX_INCLUDE_DEPTH (Z.to_nat MAX_INCLUDE_DEPTH + 1) [] (lstate0 top) text H0) as R.
    destruct (lex_depth _ _ _ _ _ _ _ _ _ _ _) as [[[toks stop] st] line].
    destruct R as (R1 & R2 & R3). cbn [app] in R2.
    destruct stop; cbn [fst]; try exact R1.
    destruct (emit st line TkEOF None) as [tk st'] eqn:E. cbn [fst].
    destruct (emit_ok _ _ _ _ _ _ _ R2 E) as (A1 & A2 & A3 & A4).
    apply toks_ok_app; [exact R1|]. cbn [toks_ok app]. split; [exact A1 | exact I].
  Qed.

  (* every read that returns (successfully or with a parse error, at whatever token the parser stopped):
     its file events are well bracketed and leave nothing open *)
  Theorem read_closes_everything FS c top text :
    let r := config_read atof FS c top text in
    rd_out_ r = RdOk \/ rd_out_ r = RdFail ->
    exists fe, rd_events r = dlog (set_err c err0) (c_root c) ++ flat_map levent_to_event fe /\
               replay [] fe = Some [].
  Proof.
    cbv zeta. unfold config_read. unfold clear_cfg.
    pose proof (lex_top_ok FS (set_files (set_root (set_err c err0) new_root) []) top text) as T.
    destruct (lex_top atof FS _ top text) as [toks stop]. cbn [fst] in T. cbv zeta.
    destruct (NEST_LIMIT <? max_nest toks 0 0); [cbn [rd_out_]; intros [H|H]; discriminate|].
    destruct (p_config _ _) as [s|e s|s|s]; cbn [rd_out_ rd_events]; intros [H|H]; try discriminate;
      try (destruct stop; discriminate).
    - eexists. split; [reflexivity|]. apply file_events_balanced. exact T.
    - eexists. split; [reflexivity|]. apply file_events_balanced. exact T.
  Qed.
End Read.
