(* Properties_C05.v — C05: API operations behave as an ordered tree (append, exact removal, no side
   effects, failure atomicity, attribute conventions).  Theorems only; proofs are in ApiFacts.v /
   TreeFacts.v.  api_step is the model of libconfig.c's public API, tied to the code by the
   correspondence run of ./check C05. *)
From Coq Require Import List ZArith Bool.
Import ListNotations.
From LC Require Import Base Tree Fp Lookup Api ApiStep TreeFacts ApiFacts NewSetting.
Local Open Scope Z_scope.

(* an addition, removal or assignment that reports failure leaves the configuration unchanged and
   calls no destructor *)
Theorem C05_fail_atomic : forall c o c' r ev,
  api_step c o = (c', r, ev) -> is_tree_op o = true -> reports_failure o r = true ->
  c' = c /\ ev = [].
Proof. exact fail_atomic. Qed.
Print Assumptions C05_fail_atomic.

(* additions append at the end; an existing member is replaced only when overrides are enabled,
   and then exactly that member is deleted (its hooks destroyed) and the new one appended *)
Theorem C05_add_appends : forall c p name tcode c' q ev,
  api_step c (OAdd p name tcode) = (c', RNode (Some q), ev) ->
  exists s s' i victim t,
    get_at p (c_root c) = Some s /\ ty_of_code tcode = Some t /\
    c' = set_root c (upd_at p (fun _ => s') (c_root c)) /\
    q = p ++ [i] /\ i = (length (s_kids s') - 1)%nat /\
    nth_error (s_kids s') i = Some (new_setting (eff_name s name) t) /\
    match victim with
    | None => get_member s (eff_name s name) = None /\
              s' = set_kids s (s_kids s ++ [new_setting (eff_name s name) t]) /\ ev = []
    | Some v => get_option c OPT_OVERRIDES = true /\
                exists j, get_member s (eff_name s name) = Some j /\ nth_error (s_kids s) j = Some v /\
                  s' = set_kids s (list_del j (s_kids s) ++ [new_setting (eff_name s name) t]) /\
                  ev = dlog c v
    end.
Proof. exact step_add_appends. Qed.
Print Assumptions C05_add_appends.

(* removals delete exactly the addressed setting *)
Theorem C05_remove_exact : forall c p path c' ev,
  api_step c (ORemove p path) = (c', RInt 1, ev) ->
  exists s pa rel idx v,
    get_at p (c_root c) = Some s /\ path = Some pa /\ lookup s pa = Some rel /\
    removes_one (c_root c) (c_root c') (p ++ removelast rel) idx v /\
    ev = dlog c v /\ attrs c' = attrs c.
Proof. exact step_remove_exact. Qed.
Print Assumptions C05_remove_exact.

Theorem C05_remove_elem_exact : forall c p idx c' ev,
  api_step c (ORemoveElem p idx) = (c', RInt 1, ev) ->
  exists v, removes_one (c_root c) (c_root c') p (Z.to_nat (to_uint32 idx)) v /\
            ev = dlog c v /\ attrs c' = attrs c.
Proof. exact step_remove_elem_exact. Qed.
Print Assumptions C05_remove_elem_exact.

(* ... and keep the order of the others: deleting position i of a child list is
   firstn i ++ skipn (i+1) *)
Theorem C05_removal_keeps_order : forall (l : list setting) i x,
  nth_error l i = Some x ->
  l = firstn i l ++ x :: skipn (S i) l /\ list_del i l = firstn i l ++ skipn (S i) l.
Proof. intros l i x; exact (list_del_spec i l x). Qed.
Print Assumptions C05_removal_keeps_order.

(* removing a direct member by name deletes the first (only) member of that name *)
Theorem C05_remove_member : forall s n j,
  s_ty s = TGroup -> validate_name n = true -> list_search (s_kids s) n = Some j ->
  exists v, nth_error (s_kids s) j = Some v /\
            n_remove s n = Some (set_kids s (list_del j (s_kids s)), v).
Proof. exact n_remove_member. Qed.
Print Assumptions C05_remove_member.

(* assignments change only the addressed setting, and only its value (resp. format) *)
Theorem C05_set_frame : forall c k p v c' ev,
  api_step c (OSet k p v) = (c', RInt 1, ev) ->
  exists s pl, get_at p (c_root c) = Some s /\
    c' = set_root c (upd_at p (fun _ => set_pl s pl) (c_root c)) /\ ev = [].
Proof. exact step_set_frame. Qed.
Print Assumptions C05_set_frame.

Theorem C05_set_format_frame : forall c p f c' ev,
  api_step c (OSetFormat p f) = (c', RInt 1, ev) ->
  exists s, get_at p (c_root c) = Some s /\
    c' = set_root c (upd_at p (fun _ => set_fmt s (to_uint16 f)) (c_root c)) /\ ev = [] /\
    (to_uint16 f = 0 \/ to_uint16 f = 1).
Proof. exact step_set_format_frame. Qed.
Print Assumptions C05_set_format_frame.

(* element assignment: a negative index appends, otherwise the addressed element is assigned *)
Theorem C05_set_elem : forall c k p idx v c' q ev,
  api_step c (OSetElem k p idx v) = (c', RNode (Some q), ev) ->
  exists s s' i, get_at p (c_root c) = Some s /\ q = p ++ [i] /\ ev = [] /\
    c' = set_root c (upd_at p (fun _ => s') (c_root c)) /\
    ((idx < 0 /\ i = length (s_kids s) /\
      exists e, setter c k v (new_setting None (sk_ty k)) = SOk e /\
                s' = set_kids s (s_kids s ++ [e]))
     \/ (0 <= idx /\ i = Z.to_nat idx /\
         exists e e', nth_error (s_kids s) i = Some e /\ setter c k v e = SOk e' /\
                      s' = set_kids s (list_upd i (fun _ => e') (s_kids s)))).
Proof. exact step_set_elem. Qed.
Print Assumptions C05_set_elem.

(* frame: an update at index path p leaves every setting on a diverging path untouched, and what
   an ancestor q of p sees is the same update applied below it *)
Theorem C05_frame_diverge : forall p q f r,
  diverge p q -> get_at q (upd_at p f r) = get_at q r.
Proof. exact get_at_upd_at_diverge. Qed.
Print Assumptions C05_frame_diverge.

Theorem C05_frame_prefix : forall q p f r s,
  get_at q r = Some s -> get_at q (upd_at (q ++ p) f r) = Some (upd_at p f s).
Proof. exact get_at_upd_at_prefix. Qed.
Print Assumptions C05_frame_prefix.

(* operations that are not tree operations do not change any setting and call no destructor;
   operations that are not attribute setters do not change any attribute *)
Theorem C05_queries_pure : forall c o c' r ev,
  api_step c o = (c', r, ev) -> is_tree_op o = false -> c_root c' = c_root c /\ ev = [].
Proof. exact other_ops_keep_tree. Qed.
Print Assumptions C05_queries_pure.

Theorem C05_attrs_kept : forall c o c' r ev,
  api_step c o = (c', r, ev) -> is_attr_op o = false -> attrs c' = attrs c.
Proof. exact tree_ops_keep_attrs. Qed.
Print Assumptions C05_attrs_kept.

(* clearing replaces the settings, keeps options, include directory, tab width, precision,
   default format, destructor and hook *)
Theorem C05_clear_preserves : forall c c' r ev,
  api_step c OClear = (c', r, ev) ->
  attrs c' = attrs c /\ c_root c' = new_root /\ c_files c' = [] /\ ev = dlog c (c_root c).
Proof. exact step_clear_preserves. Qed.
Print Assumptions C05_clear_preserves.

(* over-large tab widths act as 15 *)
Theorem C05_tab_clamped : forall c n c' r ev,
  api_step c (OSetTab n) = (c', r, ev) ->
  c_tab c' = Z.min (to_uint16 n) 15 /\ c_root c' = c_root c.
Proof. exact step_tab_clamped. Qed.
Print Assumptions C05_tab_clamped.

(* NULL include directory: documented to reinstate the default (no include directory).
   (Refuted on the original tree -- strdup(NULL) at libconfig.c:1591 -- and repaired by the
   "fix:" commit recorded in known_findings.json.) *)
Theorem C05_include_dir_null : forall c c' r ev,
  api_step c (OSetIncDir None) = (c', r, ev) ->
  r = RUnit /\ c_incdir c' = None /\ c_root c' = c_root c.
Proof. exact step_incdir_null. Qed.
Print Assumptions C05_include_dir_null.

(* ---- non-vacuity: concrete states that meet the hypotheses ---- *)
Definition ex_cfg : cfg :=
  fst (fst (api_step (fst (fst (api_step cfg_init (OAdd [] (Some [97]) 2)))) (OAdd [] (Some [103]) 1))).

Example ex_add_ok :
  snd (fst (api_step ex_cfg (OAdd [1%nat] (Some [120]) 5))) = RNode (Some [1%nat; 0%nat]).
Proof. reflexivity. Qed.
Example ex_add_dup_fails :
  snd (fst (api_step ex_cfg (OAdd [] (Some [97]) 5))) = RNode None.
Proof. reflexivity. Qed.
Example ex_remove_ok :
  snd (fst (api_step ex_cfg (ORemove [] (Some [97])))) = RInt 1.
Proof. reflexivity. Qed.
Example ex_set_ok :
  snd (fst (api_step ex_cfg (OSet KInt [0%nat] (AZ 7)))) = RInt 1.
Proof. reflexivity. Qed.
Example ex_set_mismatch_fails :
  snd (fst (api_step ex_cfg (OSet KString [0%nat] (AS (Some [104]))))) = RInt 0.
Proof. reflexivity. Qed.

(* a group never accepts a member whose name is not a name (a letter or an asterisk, then letters, digits, - _ and
   asterisks): the empty name, a leading digit,
   an embedded blank ... - config_setting_add returns NULL (and by C05_add_failure_atomic nothing changes) *)
Theorem C05_invalid_name_refused : forall ov parent n tcode,
  s_ty parent = TGroup -> validate_name n = false -> n_add ov parent (Some n) tcode = None.
Proof. exact NewSetting.n_add_invalid_name_refused. Qed.
Print Assumptions C05_invalid_name_refused.
Example C05_invalid_names : validate_name [] = false /\ validate_name [49; 97]%Z = false /\ validate_name [97; 32]%Z = false /\
  validate_name [97; 45; 42; 95; 57]%Z = true.
Proof. exact NewSetting.empty_name_invalid. Qed.
