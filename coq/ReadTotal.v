(* ReadTotal.v — config_read is total in the model: for every text and every file system (bytes 0..255) it answers
   RdOk, RdFail or RdNest (the parser-stack limit) - never RdStuck (fuel, include-depth budget, impossible states)
   and never RdExit (process exit).  Lemmas behind Properties_C03. *)
From Coq Require Import List ZArith NArith Bool Lia.
Import ListNotations.
From LC Require Import Base BaseFacts Tree Fp Lookup Api ApiStep Regex RegexFacts FlexEngine Bisim ScanAction ScannerSpec ScannerCert
  ScannerFacts Tokens Lexer Parser Reader GrammarFacts ParseWrite ParseTotal LexTotal.
From LC.gen Require Import Consts ScannerTables.
Local Open Scope Z_scope.

Lemma tables_same : Reader.the_tables = ScannerCert.the_tables.
Proof. reflexivity. Qed.

Lemma ends_error_has_stop toks : ends_error toks -> has_stop (map lt_tok toks).
Proof.
  intros (pre & tk & -> & H). unfold has_stop. rewrite map_app, existsb_app. cbn [map existsb]. rewrite H. cbn. apply orb_true_r.
Qed.

Section RT.
  Variable atof : bytes -> Z.
  Variable FS : fs.
  Hypothesis FS_ok : forall f content, fs_lookup FS f = Some (FFile content) -> bytes_ok content.

  (* every token of the stream has a property that every scanner step establishes and that error tokens and the
     end-of-input token have; the scan stops at the end of the input or at an error token *)
  Theorem lex_top_all (Q : ltoken -> Prop) :
    (forall tk, lt_tok tk = TkError -> Q tk) -> (forall tk, lt_tok tk = TkEOF -> Q tk) ->
    (forall incdir incf st b, cond_ok st -> b_rest b <> [] -> bytes_ok (b_rest b) ->
       match lex_step ScannerCert.the_tables yy_rule_can_match_eol yy_actions atof FS incdir incf MAX_INCLUDE_DEPTH st b with
       | STok tk _ _ => Q tk | _ => True end) ->
    forall c top text, bytes_ok text ->
    let '(toks, stop) := lex_top atof FS c top text in
    (stop = StopEOB \/ stop = StopError) /\ has_stop (map lt_tok toks) /\ Forall Q toks.
  Proof.
    intros Qerr Qeof Qstep c top text Hb. unfold lex_top. rewrite tables_same.
    pose proof (lex_depth_ok atof FS (c_incdir c) (c_incfn c) MAX_INCLUDE_DEPTH FS_ok Q Qerr (Qstep (c_incdir c) (c_incfn c))
                  (Z.to_nat MAX_INCLUDE_DEPTH + 1) 0 (lstate0 top) text
                  ltac:(vm_compute; split; discriminate) ltac:(vm_compute; reflexivity)
                  (cond_ok_intro (lstate0 top) 0 eq_refl (or_introl eq_refl)) Hb eq_refl) as H.
    destruct (lex_depth _ _ _ _ _ _ _ _ _ _ _) as [[[toks stop] st] line].
    destruct H as [HQ [(-> & _ & _) | (-> & He)]].
    - destruct (emit st line TkEOF None) as [tk st'] eqn:Ee. split; [left; reflexivity|].
      pose proof (emit_tok st line TkEOF None) as (Ht & _). rewrite Ee in Ht. cbn [fst] in Ht.
      split; [|apply Forall_app; split; [exact HQ | constructor; [apply Qeof; exact Ht | constructor]]].
      unfold has_stop. rewrite map_app, existsb_app. cbn [map existsb]. rewrite Ht. cbn. apply orb_true_r.
    - split; [right; reflexivity|]. split; [apply ends_error_has_stop; exact He | exact HQ].
  Qed.

  Theorem lex_top_total c top text : bytes_ok text ->
    let '(toks, stop) := lex_top atof FS c top text in
    (stop = StopEOB \/ stop = StopError) /\ has_stop (map lt_tok toks).
  Proof.
    intros Hb. pose proof (lex_top_all (fun _ => True) (fun _ _ => I) (fun _ _ => I)
      ltac:(intros; destruct (lex_step _ _ _ _ _ _ _ _ _ _); exact I) c top text Hb) as H.
    destruct (lex_top atof FS c top text) as [toks stop]. destruct H as (H1 & H2 & _). auto.
  Qed.

  Theorem config_read_total c top text : bytes_ok text ->
    match rd_out_ (config_read atof FS c top text) with
    | RdOk | RdFail | RdNest => True
    | _ => False
    end.
  Proof.
    intros Hb. unfold config_read, clear_cfg.
    pose proof (lex_top_total (set_files (set_root (set_err c err0) new_root) []) top text Hb) as Hl.
    destruct (lex_top atof FS _ top text) as [toks stop]. cbv zeta. destruct Hl as [_ Hst].
    destruct (NEST_LIMIT <? max_nest toks 0 0); [exact I|].
    pose proof (p_config_total (get_option (set_files (set_root (set_err c err0) new_root) []) OPT_OVERRIDES)
                  (mkP (set_pos (c_root (set_files (set_root (set_err c err0) new_root) [])) 0 top) toks false O 0 None) Hst eq_refl) as Hp.
    destruct (p_config _ _) as [s|e s|s|s]; try exact I; contradiction.
  Qed.

  Theorem config_read_file_total c path :
    match rd_out_ (config_read_file atof FS c path) with
    | RdOk | RdFail | RdNest => True
    | _ => False
    end.
  Proof.
    unfold config_read_file. destruct (fs_lookup FS path) as [[content|]|] eqn:E; try exact I.
    cbn [rd_out_]. apply config_read_total. exact (FS_ok _ _ E).
  Qed.
End RT.
