(* Properties_C20.v — C20: string, stream and file inputs of the same bytes give the same result.
   In the model the three entry points run the same function on the same bytes (the stream and file variants differ from
   the string variant only in the file name they record), which is stated below; what can differ in the code is the refill
   path of the flex skeleton (YY_INPUT, yy_get_next_buffer, yy_get_previous_state, buffer growth).
   (a) Chunked.v: the abstract logic - carry the DFA state, the position and the best candidate across refills and decide a
       match only when the automaton jams or the input ends - equals matching on the whole input, for every cutting.
   (b) FlexBuf.v / FlexBufFacts.v: a faithful model of the skeleton's buffer machinery as compiled in lib/scanner.c - the
       buffer of yy_buf_size bytes plus two sentinels, yy_n_chars, the buffer status (NEW / NORMAL / EOF_PENDING), the move
       of the partial lexeme to the front, num_to_read = size - number_to_move - 1, the doubling loop while that is <= 0, the
       cap at YY_READ_BUF_SIZE, a stream that may deliver ANY count between 1 and the requested size (0 only at the end),
       EOB_ACT_END_OF_FILE / LAST_MATCH / CONTINUE_SCAN, yy_get_previous_state, NUL bytes inside the data, yy_scan_bytes for
       strings - with: every byte written lies inside the allocation (C20_refill_in_bounds), and for every table set, start
       condition, byte string of any length (lexemes longer than the buffer included) and every way the stream cuts its
       data, one call of the buffered matcher returns exactly flex_match on the remaining input (C20_match), hence the token
       sequence of a stream, of another stream over the same bytes and of the string are the same (C20_inputs_agree, with
       the sizes of gen/Consts.v).  Corners the proof exposed: YY_READ_BUF_SIZE >= 1 and a refilled buffer of size >= 1.
   Not modelled: interactive buffers, the ferror / EINTR path, the int-overflow branch of the growth (2^30 bytes), buffer
   switching for includes (Lexer.v gives every file a buffer of its own).  The C code itself is exercised on every run by
   sliding every token kind across the 8 KiB / 16 KiB block boundaries of real streams and files, with adversarial
   chunkings (readck). *)
From Coq Require Import List ZArith Bool.
Import ListNotations.
From LC Require Import Base Tree FlexEngine Chunked FlexBuf FlexBufFacts LexStream Lexer Parser Reader ScannerCert.
From LC.gen Require Import Consts ScannerTables.
Local Open Scope Z_scope.

(* however the input is cut into chunks (however the stream delivers its data), the matcher selects what it
   selects on the concatenation *)
Theorem C20_chunk_independent : forall T sc bol (chunks : list bytes),
  match_chunked T sc bol chunks = flex_match T sc bol (concat chunks).
Proof. exact chunk_independent. Qed.
Print Assumptions C20_chunk_independent.

(* in particular two different cuttings of the same bytes agree *)
Theorem C20_any_two_cuttings : forall T sc bol (c1 c2 : list bytes),
  concat c1 = concat c2 -> match_chunked T sc bol c1 = match_chunked T sc bol c2.
Proof. intros T sc bol c1 c2 H. rewrite !chunk_independent, H. reflexivity. Qed.
Print Assumptions C20_any_two_cuttings.

(* config_read_file on a regular file is config_read on its bytes, with the file name recorded and the
   stream opened and closed around it *)
Theorem C20_read_file_is_read : forall atof FS c path content,
  fs_lookup FS path = Some (FFile content) ->
  let rf := config_read_file atof FS c path in
  let rs := config_read atof FS c (Some path) content in
  rd_cfg rf = rd_cfg rs /\ rd_out_ rf = rd_out_ rs /\ rd_stdout rf = rd_stdout rs /\
  rd_events rf = [ApiStep.EvOpen path] ++ rd_events rs ++ [ApiStep.EvClose path].
Proof. intros atof FS c path content H. unfold config_read_file. rewrite H. cbn. repeat split. Qed.
Print Assumptions C20_read_file_is_read.

(* non-vacuity: a lexeme cut in the middle *)
Example C20_example :
  match_chunked the_tables 0 false [[116; 114]; [117]; []; [101; 120; 59]] = Some (36, 5%nat) /\
  flex_match the_tables 0 false [116; 114; 117; 101; 120; 59] = Some (36, 5%nat).
Proof. vm_compute. split; reflexivity. Qed.


(* ------------------------------------------------------------------------------------------------------- *)
(* the skeleton's buffer machinery (FlexBuf.v, FlexBufFacts.v)                                               *)
(* ------------------------------------------------------------------------------------------------------- *)

(* a refill writes only inside the allocation: the growth loop ends, the moved prefix, the bytes read and both sentinels
   fit in yy_buf_size + 2 *)
Theorem C20_refill_in_bounds : forall rbs, (1 <= rbs)%nat -> forall st n strm, Inv st strm -> fb_fill st = true ->
  fb_status (normalise st) <> BufEofPending -> (fb_pos st + n = length (fb_data st))%nat ->
  exists size, grow (S (S n)) (fb_size st) n = Some size /\ (fb_size st <= size)%nat /\
    let num_to_read := Nat.min (size - n - 1) rbs in
    (1 <= num_to_read)%nat /\ (n + num_to_read + 2 <= size + 2)%nat /\
    forall got s', sread num_to_read strm = (got, s') ->
      (length got <= num_to_read)%nat /\ (size <? length got + n)%nat = false /\
      match get_next rbs (normalise st) n strm with
      | EobEOF st' _ | EobContinue st' _ | EobLast st' _ => fb_size st' = size /\ (length (fb_data st') + 2 <= size + 2)%nat
      | EobFatal => False
      end.
Proof. exact refill_in_bounds. Qed.
Print Assumptions C20_refill_in_bounds.

(* one call of the buffered matcher, over any tables, with any number of refills and growths = flex_match on what remains *)
Theorem C20_match : forall T rbs, (1 <= rbs)%nat -> forall sc bol st strm, Inv st strm ->
  exists st' strm', Inv st' strm' /\
    match rem st strm with
    | [] => fb_match T rbs sc bol st strm = (FbEOF, st', strm') /\ rem st' strm' = []
    | _ =>
        match flex_match T sc bol (rem st strm) with
        | Some (r, len) =>
            fb_match T rbs sc bol st strm = (FbAct (Some (r, len)), st', strm') /\
            rem st' strm' = skipn len (rem st strm) /\ fb_yytext st' len = firstn len (rem st strm)
        | None => fb_match T rbs sc bol st strm = (FbAct None, st', strm') /\ rem st' strm' = rem st strm
        end
    end.
Proof. exact fb_match_correct. Qed.
Print Assumptions C20_match.

(* with the compiled tables and the buffer sizes of the compiled scanner: two streams over the same bytes, however they
   deliver them, and the string, give the same sequence of (rule, lexeme) - the one of matching on the whole text *)
Theorem C20_inputs_agree : forall fuel trans sc bol text chunks1 chunks2 strm,
  fb_lex ScannerCert.the_tables RBUF fuel trans sc bol (fb_of_stream BUF) (text, chunks1) =
  fb_lex ScannerCert.the_tables RBUF fuel trans sc bol (fb_of_stream BUF) (text, chunks2) /\
  fb_lex ScannerCert.the_tables RBUF fuel trans sc bol (fb_of_stream BUF) (text, chunks1) =
  fb_lex ScannerCert.the_tables RBUF fuel trans sc bol (fb_of_string text) strm /\
  fb_lex ScannerCert.the_tables RBUF fuel trans sc bol (fb_of_stream BUF) (text, chunks1) = ref_lex ScannerCert.the_tables fuel trans sc bol text.
Proof. exact FlexBufFacts.C20_inputs_agree. Qed.
Print Assumptions C20_inputs_agree.

(* the abstract model of Chunked.v is what the buffered matcher computes *)
Theorem C20_chunked_is_buffered : forall T rbs sc bol chunks lens, (1 <= rbs)%nat -> concat chunks <> [] ->
  exists st' strm', fb_match T rbs sc bol (fb_of_stream 1) (concat chunks, lens) = (FbAct (match_chunked T sc bol chunks), st', strm').
Proof. exact chunked_is_buffered. Qed.


(* ------------------------------------------------------------------------------------------------------- *)
(* the whole scanner, include machine and reader over buffered streams (LexStream.v)                        *)
(* ------------------------------------------------------------------------------------------------------- *)

(* the scanner with its include machine, every file and the top-level input read through a flex buffer fed by a stream that
   delivers its data in any pieces (chunks_of: any oracle, also for the included files), yields exactly the token stream of
   lex_top: tokens with their lines, files, errors and events, and the stop kind *)
Theorem C20_lex_top : forall atof FS c top mode text chunks_of,
  slex_top atof BUF RBUF chunks_of FS c top mode text = lex_top atof FS c top text.
Proof. exact LexStream.C20_lex_top. Qed.
Print Assumptions C20_lex_top.

(* THE PROPERTY in the model: config_read of a string, of a stream however it delivers its data, and config_read_file of a
   file holding the same bytes give the same result - tree, outcome, error fields, events - also when the reads of the
   included files are cut arbitrarily *)
Theorem C20_config_read : forall atof FS c top text chunks chunks_of1 chunks_of2,
  config_read_stream atof BUF RBUF chunks_of1 FS c top TopString text = config_read atof FS c top text /\
  config_read_stream atof BUF RBUF chunks_of2 FS c top (TopStream chunks) text = config_read atof FS c top text.
Proof. exact LexStream.C20_config_read. Qed.
Print Assumptions C20_config_read.

Theorem C20_config_read_file : forall atof FS c path chunks chunks_of,
  config_read_file_stream atof BUF RBUF chunks_of FS c path chunks = config_read_file atof FS c path.
Proof. exact LexStream.C20_config_read_file. Qed.
Print Assumptions C20_config_read_file.

(* the tie of the hand transcription: the buffer machinery of the compiled scanner (yy_get_next_buffer, yy_get_previous_state,
   yy_try_NUL_trans, yyrestart, the buffer creation / switching / scan_string functions, the YY_INPUT macro, the end-of-buffer
   action and the matching loop of yylex) is, token for token (comments, #line directives and white space aside), the text that
   FlexBuf.v and FlexEngine.v were transcribed from (tools/skel_ref/flex_skeleton.json; compared by tools/gen_tables.py on
   every run) *)
Theorem C20_skeleton_text_as_transcribed : skel_buffer_code_as_transcribed = true.
Proof. vm_compute. reflexivity. Qed.
Print Assumptions C20_skeleton_text_as_transcribed.
