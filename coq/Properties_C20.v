(* Properties_C20.v — C20: string, stream and file inputs of the same bytes give the same result.
   PARTIAL.  In the model the three entry points run the same function on the same bytes (the stream and
   file variants differ from the string variant only in the file name they record), which is stated below;
   what can differ in the code is the refill path of the flex skeleton (YY_INPUT, yy_get_next_buffer,
   yy_get_previous_state, buffer growth).  Its logic — carry the DFA state, the position and the best
   candidate across refills and decide a match only when the automaton jams or the input ends — is
   modelled in Chunked.v and proved equivalent to matching on the whole input, for every way of cutting the
   input into chunks.  The pointer arithmetic of the refill (memmove, realloc) is not modelled; it is
   exercised on every run by sliding every token kind across the 8 KiB / 16 KiB block boundaries of real
   streams and files. *)
From Coq Require Import List ZArith Bool.
Import ListNotations.
From LC Require Import Base Tree FlexEngine Chunked Lexer Parser Reader ScannerCert.
Local Open Scope Z_scope.

(* however the input is cut into chunks (however the stream delivers its data), the matcher selects what it
   selects on the concatenation *)
Theorem C20_chunk_independent : forall T sc bol (chunks : list bytes),
  match_chunked T sc bol chunks = flex_match T sc bol (concat chunks).
Proof. exact chunk_independent. Qed.
Print Assumptions C20_chunk_independent.

(* in particular two different cuttings of the same bytes agree *)
Theorem C20_any_two_cuttings : forall T sc bol (c1 c2 : list bytes),
  concat c1 = concat c2 -> match_chunked T sc bol c1 = match_chunked T sc bol c2.
Proof. intros T sc bol c1 c2 H. rewrite !chunk_independent, H. reflexivity. Qed.
Print Assumptions C20_any_two_cuttings.

(* config_read_file on a regular file is config_read on its bytes, with the file name recorded and the
   stream opened and closed around it *)
Theorem C20_read_file_is_read : forall atof FS c path content,
  fs_lookup FS path = Some (FFile content) ->
  let rf := config_read_file atof FS c path in
  let rs := config_read atof FS c (Some path) content in
  rd_cfg rf = rd_cfg rs /\ rd_out_ rf = rd_out_ rs /\ rd_stdout rf = rd_stdout rs /\
  rd_events rf = [ApiStep.EvOpen path] ++ rd_events rs ++ [ApiStep.EvClose path].
Proof. intros atof FS c path content H. unfold config_read_file. rewrite H. cbn. repeat split. Qed.
Print Assumptions C20_read_file_is_read.

(* non-vacuity: a lexeme cut in the middle *)
Example C20_example :
  match_chunked the_tables 0 false [[116; 114]; [117]; []; [101; 120; 59]] = Some (36, 5%nat) /\
  flex_match the_tables 0 false [116; 114; 117; 101; 120; 59] = Some (36, 5%nat).
Proof. vm_compute. split; reflexivity. Qed.
