(* Properties_C08.v — C08: numeric literals are stored with their exact value or rejected.
   Theorems only (proofs in LiteralFacts.v).  numeric_token (Lexer.v) is what the scanner model runs for the
   rules {integer} {integer64} {hex} {hex64} {float}: it returns the token handed to the parser, or None
   for TOK_ERROR (a parse error).  positional base ds is the mathematical value of a digit string: the sum
   of digit * base^position.  The lexeme shapes quantified over are exactly the documented patterns.

   Float literals: the stored double is atof(lexeme), and the literal is rejected exactly when that is
   infinite (C08_float_token_partial, for any atof).  The decimal-to-binary conversion the model runs for atof
   (FloatDec.b64_of_decimal, the model of glibc's strtod) is proved correctly rounded here: x * 2^t is rounded
   half-even to 53 significant bits or to the denormal grid (C08_binary_rounding, with the decoding of the bit
   pattern C08_pattern_value); a decimal d * 10^e with at most 800 significant digits goes through exactly one such
   rounding - of the integer d * 5^e * 2^e, or for e < 0 of a quotient of at least 57 bits with a sticky bit,
   which rounds like the exact d / 10^-e (C08_decimal_unfold, C08_decimal_negative).  Not proved: the exits for
   |decimal exponent| > 400 and the sticky digit beyond 800 digits, and the lexeme-to-(digits, exponent) split of
   strtod_dec; that glibc's strtod equals this model is tied by correspondence on every run (boundary and
   midpoint literals, pygen/gen_text.py).
   History: before /repo commit 83af6da hex literals wider than 32/64 bits were truncated or saturated,
   L-suffixed decimals saturated, 010L was decimal, and 1e999 was stored as infinity (F11). *)
From Coq Require Import List ZArith Bool.
Import ListNotations.
From LC Require Import Base BaseFacts Tree Fp FloatDec Api ScanAction Tokens Lexer Parser LiteralFacts RoundSpec RoundFacts FloatStable FloatStableG FloatLexeme Regex ScannerSpec FloatLexemeRegex.
Local Open Scope Z_scope.

(* decimal and octal literals, with or without the L / LL suffix *)
Theorem C08_integer_value : forall neg plus ds suffix,
  ds <> [] -> forallb is_digit ds = true -> suffix_ok suffix ->
  parse_integer (sign_of neg plus ++ ds ++ suffix) =
  match int_literal_value neg ds with
  | Some z => if in_int64 z then Some z else None
  | None => None
  end.
Proof. exact parse_integer_exact. Qed.
Print Assumptions C08_integer_value.

(* a literal without suffix is a 32-bit int when it fits, otherwise a 64-bit int; the suffix forces
   64-bit; a value outside the 64-bit range, or an octal literal containing 8 or 9, is rejected *)
Theorem C08_integer_token : forall atof neg plus ds,
  ds <> [] -> forallb is_digit ds = true ->
  numeric_token atof AInteger (sign_of neg plus ++ ds) =
  match int_literal_value neg ds with
  | Some z => if in_int64 z then Some (if in_int z then TkInt z else TkInt64 z) else None
  | None => None
  end.
Proof.
  intros atof neg plus ds Hne Hd. unfold numeric_token.
  pose proof (parse_integer_exact neg plus ds [] Hne Hd (or_introl eq_refl)) as P. rewrite app_nil_r in P.
  rewrite P. destruct (int_literal_value neg ds) as [z|]; [|reflexivity]. destruct (in_int64 z); reflexivity.
Qed.
Print Assumptions C08_integer_token.

Theorem C08_integer64_token : forall atof neg plus ds suffix,
  ds <> [] -> forallb is_digit ds = true -> suffix = [76] \/ suffix = [76; 76] ->
  numeric_token atof AInteger64 (sign_of neg plus ++ ds ++ suffix) =
  match int_literal_value neg ds with
  | Some z => if in_int64 z then Some (TkInt64 z) else None
  | None => None
  end.
Proof.
  intros atof neg plus ds suffix Hne Hd Hs. unfold numeric_token.
  rewrite (parse_integer_exact neg plus ds suffix Hne Hd (or_intror Hs)).
  destruct (int_literal_value neg ds) as [z|]; [|reflexivity]. destruct (in_int64 z); reflexivity.
Qed.
Print Assumptions C08_integer64_token.

(* hexadecimal literals: the 32-bit (with suffix: 64-bit) pattern they spell, or rejected *)
Theorem C08_hex_token : forall atof x ds,
  forallb is_xdigit ds = true ->
  numeric_token atof AHex (48 :: x :: ds) =
  (if positional 16 ds <=? 4294967295 then Some (TkHex (to_int32 (positional 16 ds))) else None) /\
  (positional 16 ds <= 4294967295 -> to_uint32 (to_int32 (positional 16 ds)) = positional 16 ds).
Proof.
  intros atof x ds Hd. destruct (hex_value_exact x ds Hd) as [H1 H2]. split; [|exact H2].
  unfold numeric_token. rewrite H1. destruct (positional 16 ds <=? 4294967295); reflexivity.
Qed.
Print Assumptions C08_hex_token.

Theorem C08_hex64_token : forall atof x ds suffix,
  forallb is_xdigit ds = true -> suffix = [76] \/ suffix = [76; 76] ->
  numeric_token atof AHex64 (48 :: x :: ds ++ suffix) =
  (if positional 16 ds <=? ULLONG_MAX then Some (TkHex64 (to_int64 (positional 16 ds))) else None) /\
  (positional 16 ds <= ULLONG_MAX -> to_uint64 (to_int64 (positional 16 ds)) = positional 16 ds).
Proof.
  intros atof x ds suffix Hd Hs. destruct (hex64_value_exact x ds suffix Hd (or_intror Hs)) as [H1 H2].
  split; [|exact H2]. unfold numeric_token. rewrite H1. destruct (positional 16 ds <=? ULLONG_MAX); reflexivity.
Qed.
Print Assumptions C08_hex64_token.

(* ... and keep hexadecimal format: the parser records format 1 for TOK_HEX / TOK_HEX64 and format 0 for
   decimal tokens, on a named setting and on an array/list element alike (Parser.scalar_of) *)
Theorem C08_hex_keeps_format : forall v,
  (exists st, scalar_of (TkHex v) = Some (TInt, st, Some 1)) /\
  (exists st, scalar_of (TkHex64 v) = Some (TInt64, st, Some 1)) /\
  (exists st, scalar_of (TkInt v) = Some (TInt, st, Some 0)) /\
  (exists st, scalar_of (TkInt64 v) = Some (TInt64, st, Some 0)).
Proof. intros v. repeat split; eexists; reflexivity. Qed.
Print Assumptions C08_hex_keeps_format.

(* float literals: stored as the double atof returns; rejected exactly when it is infinite *)
Theorem C08_float_token_partial : forall atof text,
  numeric_token atof AFloat text = if b64_is_inf (atof text) then None else Some (TkFloat (atof text)).
Proof. reflexivity. Qed.
Print Assumptions C08_float_token_partial.

(* ---- non-vacuity: the boundary literals of the property text ---- *)
Definition lit (s : bytes) (a : action) := numeric_token (fun _ => 0) a s.
Example C08_examples :
  lit [48; 120; 49; 70; 70; 70; 70; 70; 70; 70; 70] AHex = None /\                                  (* 0x1FFFFFFFF *)
  lit [48; 120; 70; 70; 70; 70; 70; 70; 70; 70] AHex = Some (TkHex (-1)) /\                          (* 0xFFFFFFFF *)
  lit [48; 49; 48] AInteger = Some (TkInt 8) /\                                                     (* 010 *)
  lit [48; 49; 48; 76] AInteger64 = Some (TkInt64 8) /\                                             (* 010L *)
  lit [48; 56] AInteger = None /\                                                                   (* 08 *)
  lit [50; 49; 52; 55; 52; 56; 51; 54; 52; 56] AInteger = Some (TkInt64 2147483648) /\              (* 2^31 *)
  lit [45; 57; 50; 50; 51; 51; 55; 50; 48; 51; 54; 56; 53; 52; 55; 55; 53; 56; 48; 57] AInteger = None. (* -2^63-1 *)
Proof. vm_compute. repeat split. Qed.

(* ---- the decimal-to-binary conversion of the model is correctly rounded ---- *)
(* round-half-even: within half a unit, even on a tie (unique) *)
Theorem C08_rne_unique : forall a d r1 r2, 0 < d -> is_rne a d r1 -> is_rne a d r2 -> r1 = r2.
Proof. exact is_rne_unique. Qed.
Print Assumptions C08_rne_unique.

(* x * 2^t (x > 0, magnitude inside the exits) is rounded half-even to a multiple of 2^u, u the exponent of the unit
   in the last place of a 53-bit significand or -1074 (denormals); the result is the pattern encoding mant * 2^u,
   or infinity when that is out of range *)
Theorem C08_binary_rounding : forall x t, 0 < x ->
  let n := Z.log2 x + 1 in
  n + t <= 1025 -> -1080 <= n + t ->
  let u := ulp_exp x t in
  exists mant, rounded_at x t u mant /\ 0 <= mant <= two53 /\ (mant < two52 -> u = -1074) /\
    b64_round_pos x t = (let bits := (u + 1074) * two52 + mant in if b64_inf_bits <=? bits then b64_inf_bits else bits).
Proof. exact b64_round_pos_correct. Qed.
Print Assumptions C08_binary_rounding.

(* the pattern (u + 1074) * 2^52 + mant denotes mant * 2^u (significand and exponent fields decoded) *)
Theorem C08_pattern_value : forall u mant,
  -1074 <= u -> 0 <= mant <= two53 -> (mant < two52 -> u = -1074) ->
  let bits := (u + 1074) * two52 + mant in
  bits < b64_inf_bits ->
  b64_m bits * 2 ^ (b64_e bits + 1074) = mant * 2 ^ (u + 1074).
Proof. exact encode_value. Qed.
Print Assumptions C08_pattern_value.

(* what b64_of_decimal computes for at most 800 significant digits inside the exponent window: one rounding *)
Theorem C08_decimal_unfold : forall (neg : bool) digits exp10,
  let ds := drop_zeros digits in
  ds <> [] -> skipn dec_max_digits ds = [] -> -400 <= lenZ ds + exp10 <= 400 ->
  let sgn := if neg then two63 else 0 in
  let d := dval ds in
  b64_of_decimal neg digits exp10 =
    sgn + (if 0 <=? exp10 then b64_round_pos (d * 5 ^ exp10) exp10
           else let bq := 5 ^ (- exp10) in
                let j := Z.max 0 (57 + Z.log2 bq - Z.log2 d) in
                let N := d * 2 ^ j in
                b64_round_pos (2 * (N / bq) + (if N mod bq =? 0 then 0 else 1)) (exp10 - j - 1)).
Proof. exact b64_of_decimal_unfold. Qed.
Print Assumptions C08_decimal_unfold.

Theorem C08_decimal_nonneg_exact : forall e, 0 <= e -> 10 ^ e = 5 ^ e * 2 ^ e.
Proof. exact pow10_split. Qed.

(* negative decimal exponent -k: the significand is d / 10^k / 2^u rounded half-even - the sticky quotient loses
   nothing *)
Theorem C08_decimal_negative : forall d k, 0 < d -> 0 < k ->
  let bq := 5 ^ k in
  let j := Z.max 0 (57 + Z.log2 bq - Z.log2 d) in
  let N := d * 2 ^ j in
  let x := 2 * (N / bq) + (if N mod bq =? 0 then 0 else 1) in
  let t := - k - j - 1 in
  let n := Z.log2 x + 1 in
  n + t <= 1025 -> -1080 <= n + t ->
  let u := ulp_exp x t in
  exists mant, rne_decimal d k u mant /\ 0 <= mant <= two53 /\ (mant < two52 -> u = -1074) /\
    b64_round_pos x t = (let bits := (u + 1074) * two52 + mant in if b64_inf_bits <=? bits then b64_inf_bits else bits).
Proof. exact decimal_neg_canonical. Qed.
Print Assumptions C08_decimal_negative.

(* evaluated: 0.1, the least denormal, below half of it, a tie, an overflow *)
Example C08_decimal_examples :
  b64_of_decimal false [1] (-1) = 4591870180066957722 /\ b64_of_decimal false [4; 9] (-325) = 1 /\
  b64_of_decimal false [2; 4] (-325) = 0 /\
  b64_of_decimal false [9;0;0;7;1;9;9;2;5;4;7;4;0;9;9;3] 0 = 4845873199050653696 /\
  b64_of_decimal true [1; 7; 9; 7; 6; 9; 3; 1; 3; 4; 8; 6; 2; 3; 1; 5; 9] 292 = two63 + b64_inf_bits.
Proof. exact decimal_examples. Qed.


(* ------------------------------------------------------------------------------------------------------- *)
(* every float lexeme: the token is the correctly rounded double, or the literal is rejected (FloatLexeme.v)  *)
(* ------------------------------------------------------------------------------------------------------- *)

(* the float lexemes of the scanner's pattern, as an explicit decomposition: sign, integer digits I, an optional point with
   fraction digits F, an optional exponent (the second alternative of the pattern has no point and needs the exponent):
   float_lexeme sg I hasdot F ex.  Through the whole parsing layer of strtod (white space, sign, inf/nan/hex dispatch, digit
   spans, saturated exponent) the value is that of the decimal-to-binary core on the digits I ++ F with exponent
   exp - |F|; a lexeme without any digit (".", "-.e5") is +0.0 *)
Theorem C08_strtod_of_float_lexeme : forall sg I hasdot F ex, float_lexeme sg I hasdot F ex -> Z.abs (exp_val ex) <= 1000 ->
  strtod_bits (lexeme_of sg I hasdot F ex) =
  match I ++ F with
  | [] => 0
  | _ => b64_of_decimal (neg3 sg) (I ++ F) (exp_val ex - lenZ F)
  end.
Proof. exact strtod_lexeme. Qed.
Print Assumptions C08_strtod_of_float_lexeme.

(* the token: within the window the correct-rounding theorems cover (at most 800 significant digits, decimal exponent of
   the last digit >= -400, digits + exponent <= 400) every float lexeme whose value is zero or at least 2^-1078 is either
   REJECTED - and then its value is at least DBL_MAX plus half an ulp - or stored as a finite double with the lexeme's sign
   that is the round-half-even image of the denoted decimal (rounded_to: on the 53-bit / denormal grid, ties to even) and
   such that no double is nearer *)
Theorem C08_float_lexeme_token : forall sg I hasdot F ex,
  float_lexeme sg I hasdot F ex -> in_window I F ex ->
  let D := I ++ F in let E := exp_val ex - lenZ F in let R := val_be 10 D * p10 E * T in
  let lexeme := lexeme_of sg I hasdot F ex in
  (D = [] -> numeric_token strtod_bits AFloat lexeme = Some (TkFloat 0)) /\
  (D <> [] -> val_be 10 D = 0 -> numeric_token strtod_bits AFloat lexeme = Some (TkFloat (sgn_bits (neg3 sg)))) /\
  (D <> [] -> 10 ^ 400 <= 16 * R ->
     (numeric_token strtod_bits AFloat lexeme = None /\ strtod_bits lexeme = sgn_bits (neg3 sg) + b64_inf_bits /\
      (2 ^ 54 - 1) * 2 ^ 970 * T * 10 ^ 400 <= R) \/
     (exists b, numeric_token strtod_bits AFloat lexeme = Some (TkFloat b) /\ b = strtod_bits lexeme /\
                b64_is_finite b = true /\ sign_text b = sgn_text (neg3 sg) /\ rounded_to b R /\
                forall m k, 0 <= m < two53 -> 0 <= k -> Z.abs (Vof b * 10 ^ 400 - R) <= Z.abs (m * 2 ^ k * 10 ^ 400 - R))).
Proof. exact FloatLexeme.C08_float_lexeme_token. Qed.
Print Assumptions C08_float_lexeme_token.


(* ------------------------------------------------------------------------------------------------------- *)
(* the float lexemes of FloatLexeme.v are exactly the words of the documented float pattern (which the       *)
(* compiled scanner implements, C18)                                                                          *)
(* ------------------------------------------------------------------------------------------------------- *)
Theorem C08_float_pattern_is_lexeme : forall w,
  matches p_float w <->
  exists sg I hasdot F ex, float_lexeme sg I hasdot F ex /\ w = lexeme_of sg I hasdot F ex.
Proof. exact p_float_iff. Qed.
Print Assumptions C08_float_pattern_is_lexeme.
