(* Properties_C08.v — C08: numeric literals are stored with their exact value or rejected.
   Theorems only (proofs in LiteralFacts.v).  numeric_token (Lexer.v) is what the scanner model runs for the
   rules {integer} {integer64} {hex} {hex64} {float}: it returns the token handed to the parser, or None
   for TOK_ERROR (a parse error).  positional base ds is the mathematical value of a digit string: the sum
   of digit * base^position.  The lexeme shapes quantified over are exactly the documented patterns.

   Float literals: the stored double is atof(lexeme), and the literal is rejected exactly when that is
   infinite.  That glibc's strtod is the correctly rounded value of the decimal is a libc contract in the
   trusted base (validated differentially on every run against an independent correctly-rounded
   conversion), not proved here: the float clause is therefore PARTIAL.

   History: before /repo commit 83af6da hex literals wider than 32/64 bits were truncated or saturated,
   L-suffixed decimals saturated, 010L was decimal, and 1e999 was stored as infinity (F11). *)
From Coq Require Import List ZArith Bool.
Import ListNotations.
From LC Require Import Base BaseFacts Tree Fp Api ScanAction Tokens Lexer Parser LiteralFacts.
Local Open Scope Z_scope.

(* decimal and octal literals, with or without the L / LL suffix *)
Theorem C08_integer_value : forall neg plus ds suffix,
  ds <> [] -> forallb is_digit ds = true -> suffix_ok suffix ->
  parse_integer (sign_of neg plus ++ ds ++ suffix) =
  match int_literal_value neg ds with
  | Some z => if in_int64 z then Some z else None
  | None => None
  end.
Proof. exact parse_integer_exact. Qed.
Print Assumptions C08_integer_value.

(* a literal without suffix is a 32-bit int when it fits, otherwise a 64-bit int; the suffix forces
   64-bit; a value outside the 64-bit range, or an octal literal containing 8 or 9, is rejected *)
Theorem C08_integer_token : forall atof neg plus ds,
  ds <> [] -> forallb is_digit ds = true ->
  numeric_token atof AInteger (sign_of neg plus ++ ds) =
  match int_literal_value neg ds with
  | Some z => if in_int64 z then Some (if in_int z then TkInt z else TkInt64 z) else None
  | None => None
  end.
Proof.
  intros atof neg plus ds Hne Hd. unfold numeric_token.
  pose proof (parse_integer_exact neg plus ds [] Hne Hd (or_introl eq_refl)) as P. rewrite app_nil_r in P.
  rewrite P. destruct (int_literal_value neg ds) as [z|]; [|reflexivity]. destruct (in_int64 z); reflexivity.
Qed.
Print Assumptions C08_integer_token.

Theorem C08_integer64_token : forall atof neg plus ds suffix,
  ds <> [] -> forallb is_digit ds = true -> suffix = [76] \/ suffix = [76; 76] ->
  numeric_token atof AInteger64 (sign_of neg plus ++ ds ++ suffix) =
  match int_literal_value neg ds with
  | Some z => if in_int64 z then Some (TkInt64 z) else None
  | None => None
  end.
Proof.
  intros atof neg plus ds suffix Hne Hd Hs. unfold numeric_token.
  rewrite (parse_integer_exact neg plus ds suffix Hne Hd (or_intror Hs)).
  destruct (int_literal_value neg ds) as [z|]; [|reflexivity]. destruct (in_int64 z); reflexivity.
Qed.
Print Assumptions C08_integer64_token.

(* hexadecimal literals: the 32-bit (with suffix: 64-bit) pattern they spell, or rejected *)
Theorem C08_hex_token : forall atof x ds,
  forallb is_xdigit ds = true ->
  numeric_token atof AHex (48 :: x :: ds) =
  (if positional 16 ds <=? 4294967295 then Some (TkHex (to_int32 (positional 16 ds))) else None) /\
  (positional 16 ds <= 4294967295 -> to_uint32 (to_int32 (positional 16 ds)) = positional 16 ds).
Proof.
  intros atof x ds Hd. destruct (hex_value_exact x ds Hd) as [H1 H2]. split; [|exact H2].
  unfold numeric_token. rewrite H1. destruct (positional 16 ds <=? 4294967295); reflexivity.
Qed.
Print Assumptions C08_hex_token.

Theorem C08_hex64_token : forall atof x ds suffix,
  forallb is_xdigit ds = true -> suffix = [76] \/ suffix = [76; 76] ->
  numeric_token atof AHex64 (48 :: x :: ds ++ suffix) =
  (if positional 16 ds <=? ULLONG_MAX then Some (TkHex64 (to_int64 (positional 16 ds))) else None) /\
  (positional 16 ds <= ULLONG_MAX -> to_uint64 (to_int64 (positional 16 ds)) = positional 16 ds).
Proof.
  intros atof x ds suffix Hd Hs. destruct (hex64_value_exact x ds suffix Hd (or_intror Hs)) as [H1 H2].
  split; [|exact H2]. unfold numeric_token. rewrite H1. destruct (positional 16 ds <=? ULLONG_MAX); reflexivity.
Qed.
Print Assumptions C08_hex64_token.

(* ... and keep hexadecimal format: the parser records format 1 for TOK_HEX / TOK_HEX64 and format 0 for
   decimal tokens, on a named setting and on an array/list element alike (Parser.scalar_of) *)
Theorem C08_hex_keeps_format : forall v,
  (exists st, scalar_of (TkHex v) = Some (TInt, st, Some 1)) /\
  (exists st, scalar_of (TkHex64 v) = Some (TInt64, st, Some 1)) /\
  (exists st, scalar_of (TkInt v) = Some (TInt, st, Some 0)) /\
  (exists st, scalar_of (TkInt64 v) = Some (TInt64, st, Some 0)).
Proof. intros v. repeat split; eexists; reflexivity. Qed.
Print Assumptions C08_hex_keeps_format.

(* float literals: stored as the double atof returns; rejected exactly when it is infinite *)
Theorem C08_float_token_partial : forall atof text,
  numeric_token atof AFloat text = if b64_is_inf (atof text) then None else Some (TkFloat (atof text)).
Proof. reflexivity. Qed.
Print Assumptions C08_float_token_partial.

(* ---- non-vacuity: the boundary literals of the property text ---- *)
Definition lit (s : bytes) (a : action) := numeric_token (fun _ => 0) a s.
Example C08_examples :
  lit [48; 120; 49; 70; 70; 70; 70; 70; 70; 70; 70] AHex = None /\                                  (* 0x1FFFFFFFF *)
  lit [48; 120; 70; 70; 70; 70; 70; 70; 70; 70] AHex = Some (TkHex (-1)) /\                          (* 0xFFFFFFFF *)
  lit [48; 49; 48] AInteger = Some (TkInt 8) /\                                                     (* 010 *)
  lit [48; 49; 48; 76] AInteger64 = Some (TkInt64 8) /\                                             (* 010L *)
  lit [48; 56] AInteger = None /\                                                                   (* 08 *)
  lit [50; 49; 52; 55; 52; 56; 51; 54; 52; 56] AInteger = Some (TkInt64 2147483648) /\              (* 2^31 *)
  lit [45; 57; 50; 50; 51; 51; 55; 50; 48; 51; 54; 56; 53; 52; 55; 55; 53; 56; 48; 57] AInteger = None. (* -2^63-1 *)
Proof. vm_compute. repeat split. Qed.
